(* SrcTieC20.v — SYNTACTIC SOURCE TIE for C20.  The terms regenerated on every run by translate/tr_C20_boxes.py from the
   clang AST of the instantiated class templates (coq/gen/SrcBoxes.v: AxisAlignedBoundingBox<double,2|3>,
   OrientedBoundingBox<double,2|3>, Interval<double,2|3>, PointSetPreconditioner<Vector2d|Vector3d>::compute) equal the
   functions of BoxModel.v the C20 theorems are about.
   The lemmas are POLYMORPHIC in the numeric dictionary N: they hold for every dictionary satisfying the literal laws
   NumLits (BoxLits.v: the source's literals 0, 1, 2. denote the model's nzero, n_one, ntwo; + and * commute) — in
   particular for ROps (the reals: theorems of Properties_C20.v) and for the rounded binary64 / binary32 dictionaries
   (BoxFloat.v), so the floating-point theorems are about the source's operation sequence too.
   Flat tuples of the generated definitions (parameters flattened in declaration order, then the data members in
   declaration order) are mapped to the model's records by aabb2/3, ival2/3, vec2/3, pc2/3, obb2/3 below.
   Robust to: renaming, hoisting a sub-expression into a local, reordering independent statements, commuting the
   operands of + and *, moving a negation in or out of a product, writing `>=` for a flipped `<=`, cwiseAbs()/cwiseMin/cwiseMax for array().abs()/min/max, a range-for
   instead of the indexed loop.  NOT robust to re-association (not an identity in floating point) — and it must not be.
   Breaks on: `<=` -> `<`, abs dropped, transpose() added/removed, rows/columns swapped, lowest() -> min(), the mean not
   reset or divided by something else, min/max swapped, half extents where full widths are meant, getters swapped. *)
From Coq Require Import Reals ZArith List Bool Lra.
From Romea Require Import Num NumR BoxModel BoxLits.
From Romea.gen Require Import SrcBoxes.
Import ListNotations.

Section Generic.
Context {T : Type} (N : NumOps T) (L : NumLits N).

(* ---------- flat tuples -> model records ---------- *)
Definition vec2 (t : T * T) : list T := let '(a, b) := t in [a; b].
Definition vec3 (t : T * T * T) : list T := let '(a, b, c) := t in [a; b; c].
Definition aabb2 (t : T * T * T * T) : aabb (T:=T) :=
  let '(c0, c1, h0, h1) := t in {| a_center := [c0; c1]; a_half := [h0; h1] |}.
Definition aabb3 (t : T * T * T * T * T * T) : aabb (T:=T) :=
  let '(c0, c1, c2, h0, h1, h2) := t in {| a_center := [c0; c1; c2]; a_half := [h0; h1; h2] |}.
Definition ival2 (t : T * T * T * T) : interval (T:=T) :=
  let '(l0, l1, u0, u1) := t in {| i_lower := [l0; l1]; i_upper := [u0; u1] |}.
Definition ival3 (t : T * T * T * T * T * T) : interval (T:=T) :=
  let '(l0, l1, l2, u0, u1, u2) := t in {| i_lower := [l0; l1; l2]; i_upper := [u0; u1; u2] |}.
Definition obb2 (t : T * T * T * T * T * T * T * T) : obb (T:=T) :=
  let '(c0, c1, h0, h1, r00, r01, r10, r11) := t in
  {| o_center := [c0; c1]; o_half := [h0; h1]; o_rot := [[r00; r01]; [r10; r11]] |}.
Definition obb3 (t : T * T * T * T * T * T * T * T * T * T * T * T * T * T * T) : obb (T:=T) :=
  let '(c0, c1, c2, h0, h1, h2, r00, r01, r02, r10, r11, r12, r20, r21, r22) := t in
  {| o_center := [c0; c1; c2]; o_half := [h0; h1; h2]; o_rot := [[r00; r01; r02]; [r10; r11; r12]; [r20; r21; r22]] |}.
(* members of PointSetPreconditioner in declaration order: scale_, translation_, pointSetMean_, pointSetMin_, pointSetMax_ *)
Definition pc2 (t : T * T * T * T * T * T * T * T * T) : precond (T:=T) :=
  let '(s, t0, t1, me0, me1, mi0, mi1, ma0, ma1) := t in
  {| pc_min := [mi0; mi1]; pc_max := [ma0; ma1]; pc_mean := [me0; me1]; pc_scale := s; pc_translation := [t0; t1] |}.
Definition pc3 (t : T * T * T * T * T * T * T * T * T * T * T * T * T) : precond (T:=T) :=
  let '(s, t0, t1, t2, me0, me1, me2, mi0, mi1, mi2, ma0, ma1, ma2) := t in
  {| pc_min := [mi0; mi1; mi2]; pc_max := [ma0; ma1; ma2]; pc_mean := [me0; me1; me2]; pc_scale := s;
     pc_translation := [t0; t1; t2] |}.
Definition pt2 (p : T * T) : list T := [fst p; snd p].
Definition pt3 (p : T * T * T) : list T := [fst (fst p); snd (fst p); snd p].

(* ---------- tactics ---------- *)
(* the model side is computed on the concrete lists (only the listed definitions are unfolded: nmin2 / nmax2 and the
   dictionary stay folded); literals are rewritten with the laws; the two sides are then compared structurally, trying the
   commuted operand order at every + and * *)
Ltac munfold :=
  cbv beta iota zeta delta [vec2 vec3 aabb2 aabb3 ival2 ival3 obb2 obb3 pc2 pc3
    aabb_of_interval aabb_to_interval aabb_inside interval_width interval_center interval_include interval_inside
    obb_inside obb_to_aabb abs_row_extent tr_mul_vec mul_vec column dot vadd vsub vabs vhalf vconst max_coeff ngeb ngtb
    map2 all2 map fold_left combine seq length nth fst snd repeat firstn
    a_center a_half i_lower i_upper o_center o_half o_rot].
Lemma lit_negmulR a b : nmul N a (nneg N b) = nneg N (nmul N a b).
Proof using N L. rewrite (lit_mulC N L), (lit_negmul N L), (lit_mulC N L). reflexivity. Qed.
(* literals; negations are moved out of products on both sides: (-a)*b, a*(-b), -(a*b) are the same number *)
Ltac lit := rewrite ?(lit_ofZ0 N L), ?(lit_ofZ1 N L), ?(lit_dec2 N L), ?(lit_negmul N L), ?lit_negmulR.
Ltac geq n :=
  lazymatch n with
  | O => fail "terms differ"
  | S ?m =>
    first [ reflexivity
          | match goal with
            | |- nadd N ?a ?b = nadd N ?c ?d =>
                first [ apply f_equal2; geq m | rewrite (lit_addC N L c d); apply f_equal2; geq m ]
            | |- nmul N ?a ?b = nmul N ?c ?d =>
                first [ apply f_equal2; geq m | rewrite (lit_mulC N L c d); apply f_equal2; geq m ]
            end
          | (progress f_equal); geq m ]
  end.
Ltac tie := intros; munfold; lit; geq 14%nat.

(* ---------- AxisAlignedBoundingBox ---------- *)
Lemma tie_aabb_ctor_2 c0 c1 h0 h1 :
  aabb2 (src_aabb_ctor_2 c0 c1 h0 h1) = {| a_center := [c0; c1]; a_half := [h0; h1] |}.
Proof using N L. unfold src_aabb_ctor_2. tie. Qed.
Lemma tie_aabb_ctor_3 c0 c1 c2 h0 h1 h2 :
  aabb3 (src_aabb_ctor_3 c0 c1 c2 h0 h1 h2) = {| a_center := [c0; c1; c2]; a_half := [h0; h1; h2] |}.
Proof using N L. unfold src_aabb_ctor_3. tie. Qed.

Lemma tie_aabb_of_interval_2 l0 l1 u0 u1 :
  aabb2 (src_aabb_of_interval_2 N l0 l1 u0 u1) = aabb_of_interval N {| i_lower := [l0; l1]; i_upper := [u0; u1] |}.
Proof using N L. unfold src_aabb_of_interval_2. tie. Qed.
Lemma tie_aabb_of_interval_3 l0 l1 l2 u0 u1 u2 :
  aabb3 (src_aabb_of_interval_3 N l0 l1 l2 u0 u1 u2) =
  aabb_of_interval N {| i_lower := [l0; l1; l2]; i_upper := [u0; u1; u2] |}.
Proof using N L. unfold src_aabb_of_interval_3. tie. Qed.

Lemma tie_aabb_isInside_2 p0 p1 c0 c1 h0 h1 :
  src_aabb_isInside_2 N p0 p1 c0 c1 h0 h1 = aabb_inside N {| a_center := [c0; c1]; a_half := [h0; h1] |} [p0; p1].
Proof using N L. unfold src_aabb_isInside_2. tie. Qed.
Lemma tie_aabb_isInside_3 p0 p1 p2 c0 c1 c2 h0 h1 h2 :
  src_aabb_isInside_3 N p0 p1 p2 c0 c1 c2 h0 h1 h2 =
  aabb_inside N {| a_center := [c0; c1; c2]; a_half := [h0; h1; h2] |} [p0; p1; p2].
Proof using N L. unfold src_aabb_isInside_3. tie. Qed.

Lemma tie_aabb_toInterval_2 c0 c1 h0 h1 :
  ival2 (src_aabb_toInterval_2 N c0 c1 h0 h1) = aabb_to_interval N {| a_center := [c0; c1]; a_half := [h0; h1] |}.
Proof using N L. unfold src_aabb_toInterval_2. tie. Qed.
Lemma tie_aabb_toInterval_3 c0 c1 c2 h0 h1 h2 :
  ival3 (src_aabb_toInterval_3 N c0 c1 c2 h0 h1 h2) =
  aabb_to_interval N {| a_center := [c0; c1; c2]; a_half := [h0; h1; h2] |}.
Proof using N L. unfold src_aabb_toInterval_3. tie. Qed.

Lemma tie_aabb_getters_2 (c0 c1 h0 h1 : T) :
  vec2 (src_aabb_getCenterPosition_2 c0 c1 h0 h1) = a_center {| a_center := [c0; c1]; a_half := [h0; h1] |} /\
  vec2 (src_aabb_getHalfWidthExtents_2 c0 c1 h0 h1) = a_half {| a_center := [c0; c1]; a_half := [h0; h1] |}.
Proof using N L. unfold src_aabb_getCenterPosition_2, src_aabb_getHalfWidthExtents_2. split; tie. Qed.
Lemma tie_aabb_getters_3 (c0 c1 c2 h0 h1 h2 : T) :
  vec3 (src_aabb_getCenterPosition_3 c0 c1 c2 h0 h1 h2) = a_center {| a_center := [c0; c1; c2]; a_half := [h0; h1; h2] |} /\
  vec3 (src_aabb_getHalfWidthExtents_3 c0 c1 c2 h0 h1 h2) = a_half {| a_center := [c0; c1; c2]; a_half := [h0; h1; h2] |}.
Proof using N L. unfold src_aabb_getCenterPosition_3, src_aabb_getHalfWidthExtents_3. split; tie. Qed.

(* ---------- Interval ---------- *)
Lemma tie_interval_basics_2 (l0 l1 u0 u1 : T) :
  let i := {| i_lower := [l0; l1]; i_upper := [u0; u1] |} in
  ival2 (src_interval_ctor_2 l0 l1 u0 u1) = i /\
  vec2 (src_interval_lower_2 l0 l1 u0 u1) = i_lower i /\ vec2 (src_interval_upper_2 l0 l1 u0 u1) = i_upper i /\
  vec2 (src_interval_width_2 N l0 l1 u0 u1) = interval_width N i /\
  vec2 (src_interval_center_2 N l0 l1 u0 u1) = interval_center N i.
Proof using N L.
  unfold src_interval_ctor_2, src_interval_lower_2, src_interval_upper_2, src_interval_width_2, src_interval_center_2.
  repeat split; tie.
Qed.
Lemma tie_interval_basics_3 (l0 l1 l2 u0 u1 u2 : T) :
  let i := {| i_lower := [l0; l1; l2]; i_upper := [u0; u1; u2] |} in
  ival3 (src_interval_ctor_3 l0 l1 l2 u0 u1 u2) = i /\
  vec3 (src_interval_lower_3 l0 l1 l2 u0 u1 u2) = i_lower i /\ vec3 (src_interval_upper_3 l0 l1 l2 u0 u1 u2) = i_upper i /\
  vec3 (src_interval_width_3 N l0 l1 l2 u0 u1 u2) = interval_width N i /\
  vec3 (src_interval_center_3 N l0 l1 l2 u0 u1 u2) = interval_center N i.
Proof using N L.
  unfold src_interval_ctor_3, src_interval_lower_3, src_interval_upper_3, src_interval_width_3, src_interval_center_3.
  repeat split; tie.
Qed.

(* this->include(other): parameters (other) first, then the members of this *)
Lemma tie_interval_include_2 jl0 jl1 ju0 ju1 l0 l1 u0 u1 :
  ival2 (src_interval_include_2 N jl0 jl1 ju0 ju1 l0 l1 u0 u1) =
  interval_include N {| i_lower := [l0; l1]; i_upper := [u0; u1] |} {| i_lower := [jl0; jl1]; i_upper := [ju0; ju1] |}.
Proof using N L. unfold src_interval_include_2. tie. Qed.
Lemma tie_interval_include_3 jl0 jl1 jl2 ju0 ju1 ju2 l0 l1 l2 u0 u1 u2 :
  ival3 (src_interval_include_3 N jl0 jl1 jl2 ju0 ju1 ju2 l0 l1 l2 u0 u1 u2) =
  interval_include N {| i_lower := [l0; l1; l2]; i_upper := [u0; u1; u2] |}
                     {| i_lower := [jl0; jl1; jl2]; i_upper := [ju0; ju1; ju2] |}.
Proof using N L. unfold src_interval_include_3. tie. Qed.

Lemma tie_interval_inside_2 v0 v1 l0 l1 u0 u1 :
  src_interval_inside_2 N v0 v1 l0 l1 u0 u1 = interval_inside N {| i_lower := [l0; l1]; i_upper := [u0; u1] |} [v0; v1].
Proof using N L. unfold src_interval_inside_2. tie. Qed.
Lemma tie_interval_inside_3 v0 v1 v2 l0 l1 l2 u0 u1 u2 :
  src_interval_inside_3 N v0 v1 v2 l0 l1 l2 u0 u1 u2 =
  interval_inside N {| i_lower := [l0; l1; l2]; i_upper := [u0; u1; u2] |} [v0; v1; v2].
Proof using N L. unfold src_interval_inside_3. tie. Qed.

(* ---------- OrientedBoundingBox (members: aabb_ {centre, half extents}, rotation_ row-major) ---------- *)
Lemma tie_obb_ctor_2 (c0 c1 h0 h1 r00 r01 r10 r11 : T) :
  obb2 (src_obb_ctor_2 c0 c1 h0 h1 r00 r01 r10 r11) =
  {| o_center := [c0; c1]; o_half := [h0; h1]; o_rot := [[r00; r01]; [r10; r11]] |}.
Proof using N L. unfold src_obb_ctor_2. tie. Qed.
Lemma tie_obb_ctor_3 (c0 c1 c2 h0 h1 h2 r00 r01 r02 r10 r11 r12 r20 r21 r22 : T) :
  obb3 (src_obb_ctor_3 c0 c1 c2 h0 h1 h2 r00 r01 r02 r10 r11 r12 r20 r21 r22) =
  {| o_center := [c0; c1; c2]; o_half := [h0; h1; h2]; o_rot := [[r00; r01; r02]; [r10; r11; r12]; [r20; r21; r22]] |}.
Proof using N L. unfold src_obb_ctor_3. tie. Qed.

Lemma tie_obb_getters_2 (c0 c1 h0 h1 r00 r01 r10 r11 : T) :
  vec2 (src_obb_getCenterPosition_2 c0 c1 h0 h1 r00 r01 r10 r11) = [c0; c1] /\
  vec2 (src_obb_getHalfWidthExtents_2 c0 c1 h0 h1 r00 r01 r10 r11) = [h0; h1] /\
  src_obb_getRotationMatrix_2 c0 c1 h0 h1 r00 r01 r10 r11 = (r00, r01, r10, r11).
Proof using N L.
  unfold src_obb_getCenterPosition_2, src_obb_getHalfWidthExtents_2, src_obb_getRotationMatrix_2. repeat split; tie.
Qed.
Lemma tie_obb_getters_3 (c0 c1 c2 h0 h1 h2 r00 r01 r02 r10 r11 r12 r20 r21 r22 : T) :
  vec3 (src_obb_getCenterPosition_3 c0 c1 c2 h0 h1 h2 r00 r01 r02 r10 r11 r12 r20 r21 r22) = [c0; c1; c2] /\
  vec3 (src_obb_getHalfWidthExtents_3 c0 c1 c2 h0 h1 h2 r00 r01 r02 r10 r11 r12 r20 r21 r22) = [h0; h1; h2] /\
  src_obb_getRotationMatrix_3 c0 c1 c2 h0 h1 h2 r00 r01 r02 r10 r11 r12 r20 r21 r22 =
    (r00, r01, r02, r10, r11, r12, r20, r21, r22).
Proof using N L.
  unfold src_obb_getCenterPosition_3, src_obb_getHalfWidthExtents_3, src_obb_getRotationMatrix_3. repeat split; tie.
Qed.

Lemma tie_obb_isInside_2 p0 p1 c0 c1 h0 h1 r00 r01 r10 r11 :
  src_obb_isInside_2 N p0 p1 c0 c1 h0 h1 r00 r01 r10 r11 =
  obb_inside N {| o_center := [c0; c1]; o_half := [h0; h1]; o_rot := [[r00; r01]; [r10; r11]] |} [p0; p1].
Proof using N L. unfold src_obb_isInside_2. tie. Qed.
Lemma tie_obb_isInside_3 p0 p1 p2 c0 c1 c2 h0 h1 h2 r00 r01 r02 r10 r11 r12 r20 r21 r22 :
  src_obb_isInside_3 N p0 p1 p2 c0 c1 c2 h0 h1 h2 r00 r01 r02 r10 r11 r12 r20 r21 r22 =
  obb_inside N {| o_center := [c0; c1; c2]; o_half := [h0; h1; h2];
                  o_rot := [[r00; r01; r02]; [r10; r11; r12]; [r20; r21; r22]] |} [p0; p1; p2].
Proof using N L. unfold src_obb_isInside_3. tie. Qed.

Lemma tie_obb_toAABB_2 c0 c1 h0 h1 r00 r01 r10 r11 :
  aabb2 (src_obb_toAABB_2 N c0 c1 h0 h1 r00 r01 r10 r11) =
  obb_to_aabb N {| o_center := [c0; c1]; o_half := [h0; h1]; o_rot := [[r00; r01]; [r10; r11]] |}.
Proof using N L. unfold src_obb_toAABB_2. tie. Qed.
Lemma tie_obb_toAABB_3 c0 c1 c2 h0 h1 h2 r00 r01 r02 r10 r11 r12 r20 r21 r22 :
  aabb3 (src_obb_toAABB_3 N c0 c1 c2 h0 h1 h2 r00 r01 r02 r10 r11 r12 r20 r21 r22) =
  obb_to_aabb N {| o_center := [c0; c1; c2]; o_half := [h0; h1; h2];
                   o_rot := [[r00; r01; r02]; [r10; r11; r12]; [r20; r21; r22]] |}.
Proof using N L. unfold src_obb_toAABB_3. tie. Qed.

(* ---------- PointSetPreconditioner::compute: the loop over the points is ONE fold over the list whose state is the tuple
   (mean, min, max); the model runs three folds over lists of coordinate lists ---------- *)
Lemma fold_map2_pt2 (f : T -> T -> T) (pts : list (T * T)) : forall a0 a1,
  fold_left (map2 f) (map pt2 pts) [a0; a1] = [fold_left f (map fst pts) a0; fold_left f (map snd pts) a1].
Proof using N L. induction pts as [|[p0 p1] pts IH]; intros a0 a1; [reflexivity|]. cbn [map fold_left pt2 fst snd map2]. apply IH. Qed.

Lemma fold_map2_pt3 (f : T -> T -> T) (pts : list (T * T * T)) : forall a0 a1 a2,
  fold_left (map2 f) (map pt3 pts) [a0; a1; a2] =
  [fold_left f (map (fun p => fst (fst p)) pts) a0; fold_left f (map (fun p => snd (fst p)) pts) a1;
   fold_left f (map snd pts) a2].
Proof using N L.
  induction pts as [|[[p0 p1] p2] pts IH]; intros a0 a1 a2; [reflexivity|]. cbn [map fold_left pt3 fst snd map2]. apply IH.
Qed.

Ltac precond_unfold :=
  unfold precond_compute, precond_compute_lowest, precond_with, vsum, vadd, vconst;
  change (fun acc p => map2 (nmin2 N) acc p) with (map2 (nmin2 N));
  change (fun acc p => map2 (nmax2 N) acc p) with (map2 (nmax2 N));
  cbn [repeat].

Lemma tie_precond_compute_2 (points : list (T * T)) s t0 t1 me0 me1 mi0 mi1 ma0 ma1 :
  pc2 (src_precond_compute_2 N points s t0 t1 me0 me1 mi0 mi1 ma0 ma1) = precond_compute N 2 2 (map pt2 points).
Proof using N L.
  unfold src_precond_compute_2.
  match goal with |- context [fold_left ?G points ?init] => set (g := G); set (st0 := init) end.
  assert (Hstep : forall a0 a1 b0 b1 c0 c1 p0 p1,
            g (a0, a1, b0, b1, c0, c1) (p0, p1) =
            (nadd N a0 p0, nadd N a1 p1, nmin2 N b0 p0, nmin2 N b1 p1, nmax2 N c0 p0, nmax2 N c1 p1)).
  { intros. unfold g. cbv beta iota zeta. geq 8%nat. }
  assert (H : forall pts a0 a1 b0 b1 c0 c1,
            fold_left g pts (a0, a1, b0, b1, c0, c1) =
            (fold_left (nadd N) (map fst pts) a0, fold_left (nadd N) (map snd pts) a1,
             fold_left (nmin2 N) (map fst pts) b0, fold_left (nmin2 N) (map snd pts) b1,
             fold_left (nmax2 N) (map fst pts) c0, fold_left (nmax2 N) (map snd pts) c1)).
  { induction pts as [|[p0 p1] pts IH]; intros; [reflexivity|].
    cbn [fold_left map fst snd]. rewrite Hstep. apply IH. }
  unfold st0. rewrite H. clear H Hstep. clearbody g. cbv beta iota zeta.
  precond_unfold. rewrite !fold_map2_pt2, map_length. munfold. lit. geq 14%nat.
Qed.

Lemma tie_precond_compute_3 (points : list (T * T * T)) s t0 t1 t2 me0 me1 me2 mi0 mi1 mi2 ma0 ma1 ma2 :
  pc3 (src_precond_compute_3 N points s t0 t1 t2 me0 me1 me2 mi0 mi1 mi2 ma0 ma1 ma2) =
  precond_compute N 3 3 (map pt3 points).
Proof using N L.
  unfold src_precond_compute_3.
  match goal with |- context [fold_left ?G points ?init] => set (g := G); set (st0 := init) end.
  assert (Hstep : forall a0 a1 a2 b0 b1 b2 c0 c1 c2 p0 p1 p2,
            g (a0, a1, a2, b0, b1, b2, c0, c1, c2) (p0, p1, p2) =
            (nadd N a0 p0, nadd N a1 p1, nadd N a2 p2, nmin2 N b0 p0, nmin2 N b1 p1, nmin2 N b2 p2,
             nmax2 N c0 p0, nmax2 N c1 p1, nmax2 N c2 p2)).
  { intros. unfold g. cbv beta iota zeta. geq 12%nat. }
  assert (H : forall pts a0 a1 a2 b0 b1 b2 c0 c1 c2,
            fold_left g pts (a0, a1, a2, b0, b1, b2, c0, c1, c2) =
            (fold_left (nadd N) (map (fun p => fst (fst p)) pts) a0, fold_left (nadd N) (map (fun p => snd (fst p)) pts) a1,
             fold_left (nadd N) (map snd pts) a2,
             fold_left (nmin2 N) (map (fun p => fst (fst p)) pts) b0, fold_left (nmin2 N) (map (fun p => snd (fst p)) pts) b1,
             fold_left (nmin2 N) (map snd pts) b2,
             fold_left (nmax2 N) (map (fun p => fst (fst p)) pts) c0, fold_left (nmax2 N) (map (fun p => snd (fst p)) pts) c1,
             fold_left (nmax2 N) (map snd pts) c2)).
  { induction pts as [|[[p0 p1] p2] pts IH]; intros; [reflexivity|].
    cbn [fold_left map fst snd]. rewrite Hstep. apply IH. }
  unfold st0. rewrite H. clear H Hstep. clearbody g. cbv beta iota zeta.
  precond_unfold. rewrite !fold_map2_pt3, map_length. munfold. lit. geq 16%nat.
Qed.

End Generic.

(* ---------- end to end over the reals: the GENERATED terms have the properties (tie + BoxProofs) ---------- *)
From Romea Require Import BoxProofs.
Local Open Scope R_scope.

Lemma src_aabb_isInside_2_closed p0 p1 c0 c1 h0 h1 :
  src_aabb_isInside_2 ROps p0 p1 c0 c1 h0 h1 = true <-> (c0 - h0 <= p0 <= c0 + h0 /\ c1 - h1 <= p1 <= c1 + h1).
Proof.
  rewrite (tie_aabb_isInside_2 ROps NumLits_R). rewrite aabb_inside_iff by reflexivity. split.
  - intros H. split; [apply (H 0%nat)|apply (H 1%nat)]; simpl; auto.
  - intros [H0 H1] [|[|i]] Hi; simpl in *; try assumption. exfalso. apply (Nat.lt_irrefl 2). do 2 apply Nat.succ_lt_mono in Hi. inversion Hi.
Qed.

Lemma src_aabb_isInside_3_closed p0 p1 p2 c0 c1 c2 h0 h1 h2 :
  src_aabb_isInside_3 ROps p0 p1 p2 c0 c1 c2 h0 h1 h2 = true <->
  (c0 - h0 <= p0 <= c0 + h0 /\ c1 - h1 <= p1 <= c1 + h1 /\ c2 - h2 <= p2 <= c2 + h2).
Proof.
  rewrite (tie_aabb_isInside_3 ROps NumLits_R). rewrite aabb_inside_iff by reflexivity. split.
  - intros H. repeat split; first [apply (H 0%nat)|apply (H 1%nat)|apply (H 2%nat)]; simpl; auto.
  - intros (H0 & H1 & H2) [|[|[|i]]] Hi; simpl in *; try assumption. exfalso. do 3 apply Nat.succ_lt_mono in Hi. inversion Hi.
Qed.

Lemma coords_pt2 (points : list (R * R)) :
  coords (map (pt2 (T:=R)) points) 0 = map fst points /\ coords (map (pt2 (T:=R)) points) 1 = map snd points.
Proof. unfold coords. rewrite !map_map. split; apply map_ext; intros [a b]; reflexivity. Qed.

(* PointSetPreconditioner<Vector2d>::compute, as generated: whatever the members held before the call, for every non-empty
   set of finite points the reported minimum / maximum are the true componentwise extrema and the mean is the centroid *)
Lemma src_precond_compute_2_extents (points : list (R * R)) s t0 t1 me0 me1 mi0 mi1 ma0 ma1 :
  points <> [] -> (forall p, In p points -> Rabs (fst p) <= nmaxval ROps /\ Rabs (snd p) <= nmaxval ROps) ->
  let pc := pc2 (src_precond_compute_2 ROps points s t0 t1 me0 me1 mi0 mi1 ma0 ma1) in
  is_min (map fst points) (pc_min pc).[0%nat] /\ is_max (map fst points) (pc_max pc).[0%nat] /\
  is_min (map snd points) (pc_min pc).[1%nat] /\ is_max (map snd points) (pc_max pc).[1%nat] /\
  (pc_mean pc).[0%nat] = Rsum (map fst points) / INR (length points) /\
  (pc_mean pc).[1%nat] = Rsum (map snd points) / INR (length points).
Proof.
  intros Hne Hb pc. unfold pc. rewrite (tie_precond_compute_2 ROps NumLits_R).
  assert (Hne' : map (pt2 (T:=R)) points <> []) by (destruct points; [contradiction|discriminate]).
  assert (Hf : Forall (fun p => length p = 2%nat) (map (pt2 (T:=R)) points)).
  { apply Forall_forall. intros p Hp. apply in_map_iff in Hp. destruct Hp as (q & <- & _). reflexivity. }
  assert (Hbd : bounded (map (pt2 (T:=R)) points)).
  { intros p x Hp Hx. apply in_map_iff in Hp. destruct Hp as (q & <- & Hq). destruct (Hb q Hq) as [B0 B1].
    destruct Hx as [<-|[<-|[]]]; assumption. }
  destruct (precond_lowest_correct 2 2 _ Hne' (Nat.lt_0_succ 1) (Nat.le_refl 2) Hf Hbd) as (E & _ & _).
  destruct (coords_pt2 points) as [C0 C1].
  destruct (E 0%nat (Nat.lt_0_succ 1)) as (A1 & A2 & A3). destruct (E 1%nat (Nat.lt_succ_diag_r 1)) as (B1 & B2 & B3).
  rewrite C0 in A1, A2, A3. rewrite C1 in B1, B2, B3. rewrite map_length in A3, B3. tauto.
Qed.

(* ---------- the real-number instance (the one the theorems of Properties_C20.v are about) ---------- *)
Definition tieR_aabb_isInside_2 := tie_aabb_isInside_2 ROps NumLits_R.
Definition tieR_aabb_isInside_3 := tie_aabb_isInside_3 ROps NumLits_R.
