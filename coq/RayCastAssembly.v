(* RayCastAssembly.v — C14: the per-axis lemmas assembled for the state that cast(origin, end) really builds.
   For a 2D and a 3D grid (resolution r, extent [lo_i, hi_i] per axis), an origin and an end point inside the extent
   and different from each other, the caster  set_end (set_origin (rc_init axes) o) e  satisfies every premise of
   C14_cast_walk and C14_cells_meet_segment; the only remaining hypothesis is that the crossing parameters the walk
   needs stay below numeric_limits::max() (no overflow), stated on the computed fields. *)
From Coq Require Import Reals ZArith List Bool Arith Lia Lra.
From Flocq Require Import Core.Raux.
From Romea Require Import Num NumR GridMapModel GridMapProofs RayCastModel RayCastProofs RayCastSegment.
Import ListNotations.
Local Open Scope R_scope.

(* a point of the extent lies in the closed cell of its index: lo/hi form of C13's half-cell theorem *)
Lemma point_in_its_cell r lo hi p : 0 < r -> lo <= p <= hi ->
  let org := gm_origin ROps r lo in let k := gm_index ROps r org p in
  org + IZR k * r <= p <= org + (IZR k + 1) * r.
Proof.
  intros Hr Hp. cbv zeta. pose proof (point_within_half r lo hi Hr p Hp) as H.
  set (org := gm_origin ROps r lo) in *. set (k := gm_index ROps r org p) in *.
  unfold gm_centre in H. cbn [nadd nmul nofZ ROps] in H. rewrite nhalf_R in H.
  apply Rabs_le_inv in H. lra.
Qed.

Section Assembly2.
Variables (r lo0 hi0 lo1 hi1 o0 o1 e0 e1 B : R).
Hypothesis Hr : 0 < r.
Hypothesis Ho0 : lo0 <= o0 <= hi0. Hypothesis Ho1 : lo1 <= o1 <= hi1.
Hypothesis He0 : lo0 <= e0 <= hi0. Hypothesis He1 : lo1 <= e1 <= hi1.
Hypothesis Hne : o0 <> e0 \/ o1 <> e1.

Definition axes2 : list (axis (T:=R)) := [gm_axis ROps r lo0 hi0; gm_axis ROps r lo1 hi1].
Definition caster2 : caster (T:=R) := set_end ROps (set_origin ROps (rc_init ROps axes2) [o0; o1]) [e0; e1].
Definition rho2 : R := norm ROps [e0 - o0; e1 - o1].
Definition dirv2 : list R := [(e0 - o0) / rho2; (e1 - o1) / rho2].
Definition org2 : list R := [gm_origin ROps r lo0; gm_origin ROps r lo1].

Lemma rho2_pos : 0 < rho2.
Proof.
  unfold rho2, norm. cbn [fold_left nsqrt nadd nmul nzero ROps]. apply sqrt_lt_R0.
  destruct Hne as [H|H]; [assert (0 < (e0 - o0) * (e0 - o0)) by nra|assert (0 < (e1 - o1) * (e1 - o1)) by nra];
    pose proof (Rle_0_sqr (e0 - o0)); pose proof (Rle_0_sqr (e1 - o1)); unfold Rsqr in *; lra.
Qed.

(* the crossing parameters the walk needs do not overflow *)
Hypothesis Hbound : forall i, (i < 2)%nat ->
  (0 < Z.abs (nth i (rc_eidx caster2) 0 - nth i (rc_oidx caster2) 0))%Z ->
  nth i (rc_tmax caster2) 0 + IZR (Z.abs (nth i (rc_eidx caster2) 0 - nth i (rc_oidx caster2) 0)%Z) * nth i (rc_tdelta caster2) 0 <= B.
Hypothesis HB : B < M.

Theorem cast2_all :
  let cells := cast_cells ROps caster2 in
  let l1 := RayCastProofs.sumf 2 (fun i => Z.abs (nth i (rc_eidx caster2) 0 - nth i (rc_oidx caster2) 0)%Z) in
  (Z.of_nat (length cells) = l1 + 1)%Z /\
  hd [] cells = rc_oidx caster2 /\
  last cells [] = rc_eidx caster2 /\
  chain 2 (rc_oidx caster2) (tl cells) /\
  Forall (fun cl => forall i, (i < 2)%nat ->
            (Z.min (nth i (rc_oidx caster2) 0) (nth i (rc_eidx caster2) 0) <= nth i cl 0 <= Z.max (nth i (rc_oidx caster2) 0) (nth i (rc_eidx caster2) 0))%Z) cells /\
  Forall (meets 2 r rho2 org2 [o0; o1] dirv2) cells.
Proof.
  pose proof rho2_pos as Hrho.
  pose proof M_big as HM.
  (* per-axis facts *)
  pose proof (axis_step_consistent (gm_axis ROps r lo0 hi0) o0 e0 rho2 (gm_index ROps r (gm_origin ROps r lo0) o0) Hr Hrho) as S0.
  pose proof (axis_step_consistent (gm_axis ROps r lo1 hi1) o1 e1 rho2 (gm_index ROps r (gm_origin ROps r lo1) o1) Hr Hrho) as S1.
  pose proof (axis_tdelta_nonneg (gm_axis ROps r lo0 hi0) o0 (gm_index ROps r (gm_origin ROps r lo0) o0) ((e0 - o0) / rho2) Hr ltac:(lra)) as D0.
  pose proof (axis_tdelta_nonneg (gm_axis ROps r lo1 hi1) o1 (gm_index ROps r (gm_origin ROps r lo1) o1) ((e1 - o1) / rho2) Hr ltac:(lra)) as D1.
  pose proof (point_in_its_cell r lo0 hi0 o0 Hr Ho0) as Co0. pose proof (point_in_its_cell r lo1 hi1 o1 Hr Ho1) as Co1.
  pose proof (point_in_its_cell r lo0 hi0 e0 Hr He0) as Ce0. pose proof (point_in_its_cell r lo1 hi1 e1 Hr He1) as Ce1.
  pose proof (axis_setup_crossing (gm_axis ROps r lo0 hi0) o0 ((e0 - o0) / rho2) (gm_index ROps r (gm_origin ROps r lo0) o0) Hr Co0) as X0.
  pose proof (axis_setup_crossing (gm_axis ROps r lo1 hi1) o1 ((e1 - o1) / rho2) (gm_index ROps r (gm_origin ROps r lo1) o1) Hr Co1) as X1.
  cbv zeta in *.
  (* the caster's fields, computed *)
  assert (Eo : rc_oidx caster2 = [gm_index ROps r (gm_origin ROps r lo0) o0; gm_index ROps r (gm_origin ROps r lo1) o1]) by reflexivity.
  assert (Ee : rc_eidx caster2 = [gm_index ROps r (gm_origin ROps r lo0) e0; gm_index ROps r (gm_origin ROps r lo1) e1]) by reflexivity.
  set (su0 := axis_setup ROps (gm_axis ROps r lo0 hi0) o0 (gm_index ROps r (gm_origin ROps r lo0) o0) ((e0 - o0) / rho2)) in *.
  set (su1 := axis_setup ROps (gm_axis ROps r lo1 hi1) o1 (gm_index ROps r (gm_origin ROps r lo1) o1) ((e1 - o1) / rho2)) in *.
  assert (Es : rc_step caster2 = [fst (fst su0); fst (fst su1)]) by reflexivity.
  assert (Et : rc_tmax caster2 = [snd (fst su0); snd (fst su1)]) by reflexivity.
  assert (Ed : rc_tdelta caster2 = [snd su0; snd su1]) by reflexivity.
  assert (Hsign : forall i, (i < 2)%nat ->
     (nth i (rc_eidx caster2) 0 - nth i (rc_oidx caster2) 0 = nth i (rc_step caster2) 0 * Z.abs (nth i (rc_eidx caster2) 0 - nth i (rc_oidx caster2) 0))%Z).
  { intros [|[|i]] Hi; try lia; rewrite Eo, Ee, Es; cbn [nth]; [exact S0|exact S1]. }
  assert (Hdel : forall i, (i < 2)%nat -> 0 <= nth i (rc_tdelta caster2) 0).
  { intros [|[|i]] Hi; try lia; rewrite Ed; cbn [nth]; [exact D0|exact D1]. }
  destruct (cast_walk caster2 2 B (or_introl eq_refl) eq_refl eq_refl eq_refl eq_refl eq_refl HB Hdel Hsign Hbound)
    as (L & Hh & Hl & Hc & Hb).
  split; [exact L|]. split; [exact Hh|]. split; [exact Hl|]. split; [exact Hc|]. split; [exact Hb|].
  (* geometry *)
  destruct su0 as [[st0 tm0] td0] eqn:Esu0. destruct su1 as [[st1 tm1] td1] eqn:Esu1. cbn [fst snd] in *.
  destruct X0 as (X0p & X0n & X0z). destruct X1 as (X1p & X1n & X1z).
  assert (Hst0 : st0 = 1%Z \/ st0 = (-1)%Z \/ st0 = 0%Z).
  { unfold su0 in Esu0. unfold axis_setup in Esu0. cbn [nltb nzero ROps] in Esu0.
    destruct (Rltb 0 ((e0 - o0) / rho2)); [inversion Esu0; auto|]. destruct (Rltb ((e0 - o0) / rho2) 0); inversion Esu0; auto. }
  assert (Hst1 : st1 = 1%Z \/ st1 = (-1)%Z \/ st1 = 0%Z).
  { unfold su1 in Esu1. unfold axis_setup in Esu1. cbn [nltb nzero ROps] in Esu1.
    destruct (Rltb 0 ((e1 - o1) / rho2)); [inversion Esu1; auto|]. destruct (Rltb ((e1 - o1) / rho2) 0); inversion Esu1; auto. }
  apply (cast_cells_meet_segment 2 (or_introl eq_refl) r rho2 org2 [o0; o1] dirv2 (rc_eidx caster2) (rc_step caster2) (rc_tdelta caster2) B Hr);
    try reflexivity; try assumption.
  - (* the end point lies in the end cell *)
    intros [|[|i]] Hi; try lia; unfold lo, hi, pos, org2, dirv2; rewrite Ee; cbn [nth].
    + replace (o0 + rho2 * ((e0 - o0) / rho2)) with e0 by (field; lra). exact Ce0.
    + replace (o1 + rho2 * ((e1 - o1) / rho2)) with e1 by (field; lra). exact Ce1.
  - (* step = sign of the direction, increment = one cell *)
    intros [|[|i]] Hi; try lia; unfold dirv2; rewrite Es, Ed; cbn [nth].
    + destruct Hst0 as [E|[E|E]]; [left; destruct (X0p E) as (a & _ & _ & b); auto
                                  |right; left; destruct (X0n E) as (a & _ & _ & b); auto|right; right; auto].
    + destruct Hst1 as [E|[E|E]]; [left; destruct (X1p E) as (a & _ & _ & b); auto
                                  |right; left; destruct (X1n E) as (a & _ & _ & b); auto|right; right; auto].
  - (* the invariant at T = 0 *)
    unfold ginv. split; [lra|]. split.
    + intros [|[|i]] Hi; try lia; unfold lo, hi, pos, org2, dirv2; rewrite Eo; cbn [nth]; rewrite Rmult_0_l, Rplus_0_r; assumption.
    + intros [|[|i]] Hi Hne'; try lia; unfold lo, hi, pos, org2, dirv2; rewrite Eo, Es, Et; cbn [nth].
      * split; [|split]; intros; [destruct Hst0 as [E|[E|E]];
          [destruct (X0p E) as (_ & a & _); exact a|destruct (X0n E) as (_ & a & _); exact a|]
          |destruct (X0p H) as (_ & _ & a & _); exact a|destruct (X0n H) as (_ & _ & a & _); exact a].
        (* step 0 on an axis whose index still differs: impossible by the sign relation *)
        exfalso. specialize (Hsign 0%nat ltac:(lia)). rewrite Eo, Ee, Es in Hsign. cbn [nth] in Hsign. rewrite E in Hsign.
        rewrite Eo, Ee in Hne'. cbn [nth] in Hne'. lia.
      * split; [|split]; intros; [destruct Hst1 as [E|[E|E]];
          [destruct (X1p E) as (_ & a & _); exact a|destruct (X1n E) as (_ & a & _); exact a|]
          |destruct (X1p H) as (_ & _ & a & _); exact a|destruct (X1n H) as (_ & _ & a & _); exact a].
        exfalso. specialize (Hsign 1%nat ltac:(lia)). rewrite Eo, Ee, Es in Hsign. cbn [nth] in Hsign. rewrite E in Hsign.
        rewrite Eo, Ee in Hne'. cbn [nth] in Hne'. lia.
Qed.
End Assembly2.

Section Assembly3.
Variables (r lo0 hi0 lo1 hi1 lo2 hi2 o0 o1 o2 e0 e1 e2 B : R).
Hypothesis Hr : 0 < r.
Hypothesis Ho0 : lo0 <= o0 <= hi0. Hypothesis Ho1 : lo1 <= o1 <= hi1. Hypothesis Ho2 : lo2 <= o2 <= hi2.
Hypothesis He0 : lo0 <= e0 <= hi0. Hypothesis He1 : lo1 <= e1 <= hi1. Hypothesis He2 : lo2 <= e2 <= hi2.
Hypothesis Hne : o0 <> e0 \/ o1 <> e1 \/ o2 <> e2.

Definition axes3 : list (axis (T:=R)) := [gm_axis ROps r lo0 hi0; gm_axis ROps r lo1 hi1; gm_axis ROps r lo2 hi2].
Definition caster3 : caster (T:=R) := set_end ROps (set_origin ROps (rc_init ROps axes3) [o0; o1; o2]) [e0; e1; e2].
Definition rho3 : R := norm ROps [e0 - o0; e1 - o1; e2 - o2].
Definition dirv3 : list R := [(e0 - o0) / rho3; (e1 - o1) / rho3; (e2 - o2) / rho3].
Definition org3 : list R := [gm_origin ROps r lo0; gm_origin ROps r lo1; gm_origin ROps r lo2].

Lemma rho3_pos : 0 < rho3.
Proof.
  unfold rho3, norm. cbn [fold_left nsqrt nadd nmul nzero ROps]. apply sqrt_lt_R0.
  destruct Hne as [H|[H|H]]; [assert (0 < (e0 - o0) * (e0 - o0)) by nra|assert (0 < (e1 - o1) * (e1 - o1)) by nra
                             |assert (0 < (e2 - o2) * (e2 - o2)) by nra];
    pose proof (Rle_0_sqr (e0 - o0)); pose proof (Rle_0_sqr (e1 - o1)); pose proof (Rle_0_sqr (e2 - o2)); unfold Rsqr in *; lra.
Qed.

(* the crossing parameters the walk needs do not overflow *)
Hypothesis Hbound : forall i, (i < 3)%nat ->
  (0 < Z.abs (nth i (rc_eidx caster3) 0 - nth i (rc_oidx caster3) 0))%Z ->
  nth i (rc_tmax caster3) 0 + IZR (Z.abs (nth i (rc_eidx caster3) 0 - nth i (rc_oidx caster3) 0)%Z) * nth i (rc_tdelta caster3) 0 <= B.
Hypothesis HB : B < M.

Theorem cast3_all :
  let cells := cast_cells ROps caster3 in
  let l1 := RayCastProofs.sumf 3 (fun i => Z.abs (nth i (rc_eidx caster3) 0 - nth i (rc_oidx caster3) 0)%Z) in
  (Z.of_nat (length cells) = l1 + 1)%Z /\
  hd [] cells = rc_oidx caster3 /\
  last cells [] = rc_eidx caster3 /\
  chain 3 (rc_oidx caster3) (tl cells) /\
  Forall (fun cl => forall i, (i < 3)%nat ->
            (Z.min (nth i (rc_oidx caster3) 0) (nth i (rc_eidx caster3) 0) <= nth i cl 0 <= Z.max (nth i (rc_oidx caster3) 0) (nth i (rc_eidx caster3) 0))%Z) cells /\
  Forall (meets 3 r rho3 org3 [o0; o1; o2] dirv3) cells.
Proof.
  pose proof rho3_pos as Hrho.
  pose proof M_big as HM.
  (* per-axis facts *)
  pose proof (axis_step_consistent (gm_axis ROps r lo0 hi0) o0 e0 rho3 (gm_index ROps r (gm_origin ROps r lo0) o0) Hr Hrho) as S0.
  pose proof (axis_step_consistent (gm_axis ROps r lo1 hi1) o1 e1 rho3 (gm_index ROps r (gm_origin ROps r lo1) o1) Hr Hrho) as S1.
  pose proof (axis_step_consistent (gm_axis ROps r lo2 hi2) o2 e2 rho3 (gm_index ROps r (gm_origin ROps r lo2) o2) Hr Hrho) as S2.
  pose proof (axis_tdelta_nonneg (gm_axis ROps r lo0 hi0) o0 (gm_index ROps r (gm_origin ROps r lo0) o0) ((e0 - o0) / rho3) Hr ltac:(lra)) as D0.
  pose proof (axis_tdelta_nonneg (gm_axis ROps r lo1 hi1) o1 (gm_index ROps r (gm_origin ROps r lo1) o1) ((e1 - o1) / rho3) Hr ltac:(lra)) as D1.
  pose proof (axis_tdelta_nonneg (gm_axis ROps r lo2 hi2) o2 (gm_index ROps r (gm_origin ROps r lo2) o2) ((e2 - o2) / rho3) Hr ltac:(lra)) as D2.
  pose proof (point_in_its_cell r lo0 hi0 o0 Hr Ho0) as Co0. pose proof (point_in_its_cell r lo1 hi1 o1 Hr Ho1) as Co1.
  pose proof (point_in_its_cell r lo2 hi2 o2 Hr Ho2) as Co2.
  pose proof (point_in_its_cell r lo0 hi0 e0 Hr He0) as Ce0. pose proof (point_in_its_cell r lo1 hi1 e1 Hr He1) as Ce1.
  pose proof (point_in_its_cell r lo2 hi2 e2 Hr He2) as Ce2.
  pose proof (axis_setup_crossing (gm_axis ROps r lo0 hi0) o0 ((e0 - o0) / rho3) (gm_index ROps r (gm_origin ROps r lo0) o0) Hr Co0) as X0.
  pose proof (axis_setup_crossing (gm_axis ROps r lo1 hi1) o1 ((e1 - o1) / rho3) (gm_index ROps r (gm_origin ROps r lo1) o1) Hr Co1) as X1.
  pose proof (axis_setup_crossing (gm_axis ROps r lo2 hi2) o2 ((e2 - o2) / rho3) (gm_index ROps r (gm_origin ROps r lo2) o2) Hr Co2) as X2.
  cbv zeta in *.
  (* the caster's fields, computed *)
  assert (Eo : rc_oidx caster3 = [gm_index ROps r (gm_origin ROps r lo0) o0; gm_index ROps r (gm_origin ROps r lo1) o1; gm_index ROps r (gm_origin ROps r lo2) o2]) by reflexivity.
  assert (Ee : rc_eidx caster3 = [gm_index ROps r (gm_origin ROps r lo0) e0; gm_index ROps r (gm_origin ROps r lo1) e1; gm_index ROps r (gm_origin ROps r lo2) e2]) by reflexivity.
  set (su0 := axis_setup ROps (gm_axis ROps r lo0 hi0) o0 (gm_index ROps r (gm_origin ROps r lo0) o0) ((e0 - o0) / rho3)) in *.
  set (su1 := axis_setup ROps (gm_axis ROps r lo1 hi1) o1 (gm_index ROps r (gm_origin ROps r lo1) o1) ((e1 - o1) / rho3)) in *.
  set (su2 := axis_setup ROps (gm_axis ROps r lo2 hi2) o2 (gm_index ROps r (gm_origin ROps r lo2) o2) ((e2 - o2) / rho3)) in *.
  assert (Es : rc_step caster3 = [fst (fst su0); fst (fst su1); fst (fst su2)]) by reflexivity.
  assert (Et : rc_tmax caster3 = [snd (fst su0); snd (fst su1); snd (fst su2)]) by reflexivity.
  assert (Ed : rc_tdelta caster3 = [snd su0; snd su1; snd su2]) by reflexivity.
  assert (Hsign : forall i, (i < 3)%nat ->
     (nth i (rc_eidx caster3) 0 - nth i (rc_oidx caster3) 0 = nth i (rc_step caster3) 0 * Z.abs (nth i (rc_eidx caster3) 0 - nth i (rc_oidx caster3) 0))%Z).
  { intros [|[|[|i]]] Hi; try lia; rewrite Eo, Ee, Es; cbn [nth]; [exact S0|exact S1|exact S2]. }
  assert (Hdel : forall i, (i < 3)%nat -> 0 <= nth i (rc_tdelta caster3) 0).
  { intros [|[|[|i]]] Hi; try lia; rewrite Ed; cbn [nth]; [exact D0|exact D1|exact D2]. }
  destruct (cast_walk caster3 3 B (or_intror eq_refl) eq_refl eq_refl eq_refl eq_refl eq_refl HB Hdel Hsign Hbound)
    as (L & Hh & Hl & Hc & Hb).
  split; [exact L|]. split; [exact Hh|]. split; [exact Hl|]. split; [exact Hc|]. split; [exact Hb|].
  (* geometry *)
  destruct su0 as [[st0 tm0] td0] eqn:Esu0. destruct su1 as [[st1 tm1] td1] eqn:Esu1. destruct su2 as [[st2 tm2] td2] eqn:Esu2. cbn [fst snd] in *.
  destruct X0 as (X0p & X0n & X0z). destruct X1 as (X1p & X1n & X1z). destruct X2 as (X2p & X2n & X2z).
  assert (Hst0 : st0 = 1%Z \/ st0 = (-1)%Z \/ st0 = 0%Z).
  { unfold su0 in Esu0. unfold axis_setup in Esu0. cbn [nltb nzero ROps] in Esu0.
    destruct (Rltb 0 ((e0 - o0) / rho3)); [inversion Esu0; auto|]. destruct (Rltb ((e0 - o0) / rho3) 0); inversion Esu0; auto. }
  assert (Hst1 : st1 = 1%Z \/ st1 = (-1)%Z \/ st1 = 0%Z).
  { unfold su1 in Esu1. unfold axis_setup in Esu1. cbn [nltb nzero ROps] in Esu1.
    destruct (Rltb 0 ((e1 - o1) / rho3)); [inversion Esu1; auto|]. destruct (Rltb ((e1 - o1) / rho3) 0); inversion Esu1; auto. }
  assert (Hst2 : st2 = 1%Z \/ st2 = (-1)%Z \/ st2 = 0%Z).
  { unfold su2 in Esu2. unfold axis_setup in Esu2. cbn [nltb nzero ROps] in Esu2.
    destruct (Rltb 0 ((e2 - o2) / rho3)); [inversion Esu2; auto|]. destruct (Rltb ((e2 - o2) / rho3) 0); inversion Esu2; auto. }
  apply (cast_cells_meet_segment 3 (or_intror eq_refl) r rho3 org3 [o0; o1; o2] dirv3 (rc_eidx caster3) (rc_step caster3) (rc_tdelta caster3) B Hr);
    try reflexivity; try assumption.
  - (* the end point lies in the end cell *)
    intros [|[|[|i]]] Hi; try lia; unfold lo, hi, pos, org3, dirv3; rewrite Ee; cbn [nth].
    + replace (o0 + rho3 * ((e0 - o0) / rho3)) with e0 by (field; lra). exact Ce0.
    + replace (o1 + rho3 * ((e1 - o1) / rho3)) with e1 by (field; lra). exact Ce1.
    + replace (o2 + rho3 * ((e2 - o2) / rho3)) with e2 by (field; lra). exact Ce2.
  - (* step = sign of the direction, increment = one cell *)
    intros [|[|[|i]]] Hi; try lia; unfold dirv3; rewrite Es, Ed; cbn [nth].
    + destruct Hst0 as [E|[E|E]]; [left; destruct (X0p E) as (a & _ & _ & b); auto
                                  |right; left; destruct (X0n E) as (a & _ & _ & b); auto|right; right; auto].
    + destruct Hst1 as [E|[E|E]]; [left; destruct (X1p E) as (a & _ & _ & b); auto
                                  |right; left; destruct (X1n E) as (a & _ & _ & b); auto|right; right; auto].
    + destruct Hst2 as [E|[E|E]]; [left; destruct (X2p E) as (a & _ & _ & b); auto
                                  |right; left; destruct (X2n E) as (a & _ & _ & b); auto|right; right; auto].
  - (* the invariant at T = 0 *)
    unfold ginv. split; [lra|]. split.
    + intros [|[|[|i]]] Hi; try lia; unfold lo, hi, pos, org3, dirv3; rewrite Eo; cbn [nth]; rewrite Rmult_0_l, Rplus_0_r; assumption.
    + intros [|[|[|i]]] Hi Hne'; try lia; unfold lo, hi, pos, org3, dirv3; rewrite Eo, Es, Et; cbn [nth].
      * split; [|split]; intros; [destruct Hst0 as [E|[E|E]];
          [destruct (X0p E) as (_ & a & _); exact a|destruct (X0n E) as (_ & a & _); exact a|]
          |destruct (X0p H) as (_ & _ & a & _); exact a|destruct (X0n H) as (_ & _ & a & _); exact a].
        (* step 0 on an axis whose index still differs: impossible by the sign relation *)
        exfalso. specialize (Hsign 0%nat ltac:(lia)). rewrite Eo, Ee, Es in Hsign. cbn [nth] in Hsign. rewrite E in Hsign.
        rewrite Eo, Ee in Hne'. cbn [nth] in Hne'. lia.
      * split; [|split]; intros; [destruct Hst1 as [E|[E|E]];
          [destruct (X1p E) as (_ & a & _); exact a|destruct (X1n E) as (_ & a & _); exact a|]
          |destruct (X1p H) as (_ & _ & a & _); exact a|destruct (X1n H) as (_ & _ & a & _); exact a].
        exfalso. specialize (Hsign 1%nat ltac:(lia)). rewrite Eo, Ee, Es in Hsign. cbn [nth] in Hsign. rewrite E in Hsign.
        rewrite Eo, Ee in Hne'. cbn [nth] in Hne'. lia.
      * split; [|split]; intros; [destruct Hst2 as [E|[E|E]];
          [destruct (X2p E) as (_ & a & _); exact a|destruct (X2n E) as (_ & a & _); exact a|]
          |destruct (X2p H) as (_ & _ & a & _); exact a|destruct (X2n H) as (_ & _ & a & _); exact a].
        exfalso. specialize (Hsign 2%nat ltac:(lia)). rewrite Eo, Ee, Es in Hsign. cbn [nth] in Hsign. rewrite E in Hsign.
        rewrite Eo, Ee in Hne'. cbn [nth] in Hne'. lia.
Qed.
End Assembly3.
