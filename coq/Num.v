(* Num.v — one numeric dictionary, two instances.
   Models of the C++ code are written once, polymorphic in [NumOps T].
   * [ROps : NumOps R] (file NumR.v) is the instance every theorem talks about.
   * The executable instances (binary64 / binary32) are OCaml records passed to the
     *extracted* model by the driver (ocaml/numf.ml); nothing is axiomatised here. *)
From Coq Require Import ZArith List.

Record NumOps (T : Type) : Type := mkNumOps {
  nzero : T; n_one : T;
  nadd : T -> T -> T; nsub : T -> T -> T; nmul : T -> T -> T; ndiv : T -> T -> T;
  nneg : T -> T; nabs : T -> T; nsqrt : T -> T;
  nsin : T -> T; ncos : T -> T; ntan : T -> T;
  natan : T -> T; nasin : T -> T; nacos : T -> T;
  nexp : T -> T; nln : T -> T;
  natan2 : T -> T -> T; npow : T -> T -> T; nfmod : T -> T -> T;
  nfloor : T -> T; nceil : T -> T;
  ntruncZ : T -> Z;            (* C++ static_cast<integer>(x): truncation toward zero *)
  nofZ : Z -> T;               (* integer -> scalar conversion *)
  nofDec : Z -> Z -> T;        (* decimal literal m * 10^e *)
  npi : T;
  nmaxval : T;                 (* std::numeric_limits<T>::max() *)
  nminpos : T;                 (* std::numeric_limits<T>::min(): smallest positive normal *)
  nepsilon : T;                (* std::numeric_limits<T>::epsilon() *)
  nltb : T -> T -> bool; nleb : T -> T -> bool; neqb : T -> T -> bool
}.

Arguments nzero {T} _. Arguments n_one {T} _.
Arguments nadd {T} _ _ _. Arguments nsub {T} _ _ _. Arguments nmul {T} _ _ _. Arguments ndiv {T} _ _ _.
Arguments nneg {T} _ _. Arguments nabs {T} _ _. Arguments nsqrt {T} _ _.
Arguments nsin {T} _ _. Arguments ncos {T} _ _. Arguments ntan {T} _ _.
Arguments natan {T} _ _. Arguments nasin {T} _ _. Arguments nacos {T} _ _.
Arguments nexp {T} _ _. Arguments nln {T} _ _.
Arguments natan2 {T} _ _ _. Arguments npow {T} _ _ _. Arguments nfmod {T} _ _ _.
Arguments nfloor {T} _ _. Arguments nceil {T} _ _.
Arguments ntruncZ {T} _ _. Arguments nofZ {T} _ _. Arguments nofDec {T} _ _ _.
Arguments npi {T} _. Arguments nmaxval {T} _. Arguments nminpos {T} _. Arguments nepsilon {T} _.
Arguments nltb {T} _ _ _. Arguments nleb {T} _ _ _. Arguments neqb {T} _ _ _.

(* derived comparisons, as the C++ operators read *)
Definition ngtb {T} (N : NumOps T) (a b : T) : bool := nltb N b a.
Definition ngeb {T} (N : NumOps T) (a b : T) : bool := nleb N b a.
Definition nmax2 {T} (N : NumOps T) (a b : T) : T := if nltb N a b then b else a. (* std::max(a,b) *)
Definition nmin2 {T} (N : NumOps T) (a b : T) : T := if nltb N b a then b else a. (* std::min(a,b) *)
Definition ntwo {T} (N : NumOps T) : T := nadd N (n_one N) (n_one N).
Definition nhalf {T} (N : NumOps T) : T := ndiv N (n_one N) (ntwo N).
Definition nsq {T} (N : NumOps T) (a : T) : T := nmul N a a.
