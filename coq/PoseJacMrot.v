(* PoseJacMrot.v — C12: the matrix l * Rz*Ry*Rx whose entries PoseJacDx/Dy/Dz differentiate. *)
From Coq Require Import Reals.
From Romea Require Import Num NumR AnglesModel AnglesProofs PoseCovModel.
Local Open Scope R_scope.

(* entries of l * Rz*Ry*Rx and their derivatives *)
Definition Mrot (l : mat3 R) (x y z : R) : mat3 R := mmul3 ROps l (rot_zyx x y z).

