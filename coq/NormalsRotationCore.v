(* NormalsRotationCore.v — C09: rotation equivariance of the MODEL's plane estimation for either sign (no dependency on the
   terms regenerated from the source; split out of NormalsRotation.v). *)
(* NormalsRotation.v — C09: rotation equivariance of the estimated normal without the premise n.p <> 0, and at the level of the
   whole cloud for the terms generated from the source (gen/SrcNormals.v). *)
From Coq Require Import Reals ZArith List Bool Arith Lra Lia.
From Romea Require Import Num NumR NormalsModel NormalsProofs.
Import ListNotations.
Local Open Scope R_scope.

(* rotating the neighbours and the point about the sensor: lambda_0 and the curvature are unchanged and the new normal is
   +- the rotated old one whenever lambda_0 is simple; the sign is + whenever the old normal is not tangent to the line of sight
   (n . p <> 0); for n . p = 0 the code keeps the sign the solver returned, which the contract does not fix *)
Lemma rotation_equivariance_any_sign : forall eig dim size p nb normal_in normal_in' Rm,
  dim = 2%nat \/ dim = 3%nat -> is_rotation dim Rm ->
  (dim <= size)%nat -> (forall q, In q nb -> length q = size) ->
  let nb' := map (rot_point dim Rm) nb in
  let p' := rot_point dim Rm p in
  eig_contract dim (covariance ROps dim size nb) (eig (covariance ROps dim size nb)) ->
  eig_contract dim (covariance ROps dim size nb') (eig (covariance ROps dim size nb')) ->
  let e := estimate_point ROps eig false dim size p nb normal_in in
  let e' := estimate_point ROps eig false dim size p' nb' normal_in' in
  vcoord ROps (e_lambda e) 0 < vcoord ROps (e_lambda e) 1 ->
  (firstn dim (e_normal e') = rot_apply dim Rm (firstn dim (e_normal e)) \/
   firstn dim (e_normal e') = vneg ROps (rot_apply dim Rm (firstn dim (e_normal e)))) /\
  (vdot ROps (firstn dim (e_normal e)) (firstn dim p) <> 0 ->
   firstn dim (e_normal e') = rot_apply dim Rm (firstn dim (e_normal e))) /\
  vcoord ROps (e_lambda e') 0 = vcoord ROps (e_lambda e) 0 /\
  e_curvature e' = e_curvature e.
Proof.
  intros eig dim size p nb normal_in normal_in' Rm D HR Ds Hl. cbv zeta. intros H H'.
  pose proof (normal_faces_sensor eig dim size p nb normal_in D H) as F.
  pose proof (normal_faces_sensor eig dim size (rot_point dim Rm p) _ normal_in' D H') as F'.
  cbv zeta in F, F'. rewrite rot_point_firstn in F'.
  destruct (normal_cases eig dim size p nb normal_in D H) as (-> & -> & L & _ & Hn).
  destruct (normal_cases eig dim size (rot_point dim Rm p) _ normal_in' D H') as (-> & -> & L' & _ & Hn').
  pose proof (covariance_rotated dim size Rm nb D Ds Hl) as HC.
  set (C := covariance ROps dim size nb) in *.
  set (C' := covariance ROps dim size (map (rot_point dim Rm) nb)) in *.
  destruct (eig C) as [lam cols]. destruct (eig C') as [lam' cols']. cbn [fst snd] in *.
  intros Gap.
  destruct (rotation_equivariance_partial dim Rm C C' lam cols lam' cols' D HR HC H H' Gap) as (E0 & Hv).
  set (n := firstn dim (e_normal (estimate_point ROps eig false dim size p nb normal_in))) in *.
  set (n' := firstn dim (e_normal (estimate_point ROps eig false dim size (rot_point dim Rm p)
                                                  (map (rot_point dim Rm) nb) normal_in'))) in *.
  assert (length n = dim) as Ln.
  { destruct Hn as [[-> _]|[-> _]]; [exact L|rewrite vneg_length; exact L]. }
  assert (n' = rot_apply dim Rm n \/ n' = vneg ROps (rot_apply dim Rm n)) as Hc.
  { destruct Hn as [[-> _]|[-> _]]; destruct Hn' as [[-> _]|[-> _]]; destruct Hv as [->| ->];
      rewrite ?(rot_apply_vneg dim Rm _ D L), ?vneg_vneg; auto. }
  split; [exact Hc|]. split; [|split; [exact E0|]].
  - intros NZ. destruct Hc as [->|Eq]; [reflexivity|exfalso].
    rewrite Eq, vdot_vneg_l, (rot_dot dim Rm n p D HR Ln) in F'. lra.
  - unfold curvature. cbn [ndiv ROps]. rewrite E0.
    rewrite (trace_contract dim C lam cols D H), (trace_contract dim C' lam' cols' D H').
    rewrite (trace_conj dim Rm C C' D HR HC). reflexivity.
Qed.


(* ---------------------------------------------------------------- the whole cloud, on the terms generated from the source.
   Two runs of compute(): on a cloud and on the same cloud turned about the sensor by the rotation Rm ([points' i] is
   [points i] with Rm applied to its Cartesian part).  A rotation keeps distances, so an exact k-nearest-neighbour search
   returns the same indexes for both clouds when no two distances tie: that is the hypothesis [Hnb] (the search itself is
   C08's).  Then every normal whose lambda_0 is simple and which is not tangent to the line of sight is rotated by Rm,
   and every curvature is unchanged. *)
Lemma e_lambda_fst eig dim size p nb nin :
  e_lambda (estimate_point ROps eig false dim size p nb nin) = fst (eig (covariance ROps dim size nb)).
Proof. unfold estimate_point. destruct (eig (covariance ROps dim size nb)); reflexivity. Qed.


