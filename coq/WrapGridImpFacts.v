(* WrapGridImpFacts.v — program-independent facts about the interpreter of WrapGridImp.v:
   ideal evaluation (safe e s -> eval e s = Some (evalZ e s)), the loop rule with an invariant, state algebra. *)
From Coq Require Import ZArith List Bool Arith Lia.
From Romea Require Import WrapGridModel WrapGridImp.
Import ListNotations.
Local Open Scope Z_scope.

Definition inrange (t : ty) (z : Z) : Prop :=
  match t with
  | U64 => 0 <= z < two64
  | I32 => - two31 <= z < two31
  | ZZ => True
  end.

Lemma norm_inrange t z : inrange t z -> norm t z = Some z.
Proof.
  destruct t; unfold norm, inrange, two31; intros H.
  - rewrite Z.mod_small by exact H. reflexivity.
  - destruct (Z.leb_spec (Z.opp 2147483648) z), (Z.ltb_spec z 2147483648); cbn [andb]; try reflexivity; lia.
  - reflexivity.
Qed.

Definition opZ (o : bop) (x y : Z) : Z :=
  match o with
  | Add => x + y | Sub => x - y | Mul => x * y | Rem => Z.rem x y
  | Lt => b2z (x <? y) | Gt => b2z (y <? x)
  end.

Definition okop (o : bop) (t : ty) (x y : Z) : Prop :=
  match o with
  | Add | Sub | Mul => inrange t (opZ o x y)
  | Rem => y <> 0 /\ inrange t (Z.rem x y)
  | Lt | Gt => True
  end.

Lemma binop_ok o t x y : okop o t x y -> binop o t x y = Some (opZ o x y).
Proof.
  destruct o; cbn; intros H; try (apply norm_inrange; exact H); try reflexivity.
  destruct H as [H0 H]. destruct (Z.eqb_spec y 0); [contradiction|]. apply norm_inrange; exact H.
Qed.

(* induction principle for expr (the arguments of ECall are a list) *)
Section ExprInd.
Variable P : expr -> Prop.
Hypothesis HLit : forall z, P (ELit z).
Hypothesis HVar : forall v, P (EVar v).
Hypothesis HBin : forall o t a b, P a -> P b -> P (EBin o t a b).
Hypothesis HCast : forall t a, P a -> P (ECast t a).
Hypothesis HCall : forall body args, P body -> Forall P args -> P (ECall body args).
Fixpoint expr_ind' (e : expr) : P e :=
  match e with
  | ELit z => HLit z
  | EVar v => HVar v
  | EBin o t a b => HBin o t a b (expr_ind' a) (expr_ind' b)
  | ECast t a => HCast t a (expr_ind' a)
  | ECall body args =>
      HCall body args (expr_ind' body)
        ((fix go (l : list expr) : Forall P l :=
            match l with [] => Forall_nil P | a :: r => Forall_cons a (expr_ind' a) (go r) end) args)
  end.
End ExprInd.

Section Facts.
Context {V : Type}.
Notation state := (state V).

Fixpoint evalZ (e : expr) (s : state) {struct e} : Z :=
  match e with
  | ELit z => z
  | EVar v => get s v
  | EBin o t a b => opZ o (evalZ a s) (evalZ b s)
  | ECast t a => evalZ a s
  | ECall body args => evalZ body (set_args s 0 (map (fun a => evalZ a s) args))
  end.

Fixpoint safe (e : expr) (s : state) {struct e} : Prop :=
  match e with
  | ELit _ | EVar _ => True
  | EBin o t a b => safe a s /\ safe b s /\ okop o t (evalZ a s) (evalZ b s)
  | ECast t a => safe a s /\ inrange t (evalZ a s)
  | ECall body args =>
      (fix all (l : list expr) : Prop := match l with [] => True | a :: r => safe a s /\ all r end) args
      /\ safe body (set_args s 0 (map (fun a => evalZ a s) args))
  end.

Lemma safe_eval e : forall s : state, safe e s -> eval e s = Some (evalZ e s).
Proof.
  induction e as [z|v|o t a b IHa IHb|t a IHa|body args IHb IHargs] using expr_ind'; intros s H; cbn [eval evalZ].
  - reflexivity.
  - reflexivity.
  - cbn [safe] in H. destruct H as (Ha & Hb & Ho). rewrite (IHa s Ha), (IHb s Hb). apply binop_ok, Ho.
  - cbn [safe] in H. destruct H as (Ha & Hr). rewrite (IHa s Ha). apply norm_inrange, Hr.
  - cbn [safe] in H. destruct H as (Hargs & Hbody).
    match goal with |- match ?X with _ => _ end = _ =>
      assert (E : X = Some (map (fun a => evalZ a s) args)) end.
    { clear Hbody IHb. induction IHargs as [|a r Pa Pr IH]; [reflexivity|].
      destruct Hargs as [Ha Hr]. rewrite (Pa s Ha). cbn [map]. rewrite (IH Hr). reflexivity. }
    rewrite E. apply IHb, Hbody.
Qed.

(* ---------------------------------------------------------------- state algebra *)
Lemma get_set_same (s : state) v z : get (set s v z) v = z.
Proof. unfold get, set; cbn. destruct v; cbn; rewrite Nat.eqb_refl; reflexivity. Qed.

Lemma get_set_other (s : state) v w z : var_eqb w v = false -> get (set s v z) w = get s w.
Proof. unfold get, set; cbn. intros ->. reflexivity. Qed.

Lemma buf_set (s : state) v z : s_buf (set s v z) = s_buf s. Proof. reflexivity. Qed.
Lemma get_set_buf (s : state) b v : get (set_buf s b) v = get s v. Proof. reflexivity. Qed.
Lemma buf_set_buf (s : state) b : s_buf (set_buf s b) = b. Proof. reflexivity. Qed.

(* ---------------------------------------------------------------- the loop rule *)
Lemma iter_rule (f : state -> option state) (I : nat -> state -> Prop) (N : nat) :
  (forall j sj, (j < N)%nat -> I j sj -> exists s', f sj = Some s' /\ I (S j) s') ->
  forall m j sj, (j + m = N)%nat -> I j sj -> exists s', iter_opt m f sj = Some s' /\ I N s'.
Proof.
  intros Hstep. induction m as [|m IH]; intros j sj Hj HI; cbn [iter_opt].
  - replace N with j by lia. eauto.
  - destruct (Hstep j sj ltac:(lia) HI) as (s' & E & HI'). rewrite E. apply (IH (S j)); [lia|exact HI'].
Qed.

Lemma for_rule (e : V) init cond step body count (I : nat -> state -> Prop) s s0 n :
  exec e init s = Some s0 ->
  eval count s0 = Some n ->
  I O s0 ->
  (forall j sj, (j < Z.to_nat n)%nat -> I j sj ->
     check cond true sj = Some sj /\ exists s', bind (exec e body sj) (exec e step) = Some s' /\ I (S j) s') ->
  (forall sj, I (Z.to_nat n) sj -> check cond false sj = Some sj) ->
  exists s', exec e (SFor init cond step body count) s = Some s' /\ I (Z.to_nat n) s'.
Proof.
  intros Hi Hc H0 Hstep Hend. cbn [exec]. rewrite Hi. cbn [bind]. rewrite Hc.
  destruct (iter_rule (fun s1 => bind (check cond true s1) (fun s2 => bind (exec e body s2) (exec e step))) I (Z.to_nat n))
    with (m := Z.to_nat n) (j := O) (sj := s0) as (s' & E & HI'); [| lia | exact H0 |].
  - intros j sj Hj HI. destruct (Hstep j sj Hj HI) as (Hck & s' & E & HI'). rewrite Hck. cbn [bind]. eauto.
  - rewrite E. cbn [bind]. rewrite (Hend s' HI'). eauto.
Qed.

Lemma check_true c (s : state) z : eval c s = Some z -> z <> 0 -> check c true s = Some s.
Proof. unfold check. intros -> Hz. destruct (Z.eqb_spec z 0); [contradiction|reflexivity]. Qed.
Lemma check_false c (s : state) : eval c s = Some 0 -> check c false s = Some s.
Proof. unfold check. intros ->. reflexivity. Qed.

Lemma exec_if_true (e : V) c a b (s : state) z : eval c s = Some z -> z <> 0 -> exec e (SIf c a b) s = exec e a s.
Proof. cbn [exec]. intros -> Hz. destruct (Z.eqb_spec z 0); [contradiction|reflexivity]. Qed.
Lemma exec_if_false (e : V) c a b (s : state) : eval c s = Some 0 -> exec e (SIf c a b) s = exec e b s.
Proof. cbn [exec]. intros ->. reflexivity. Qed.

Lemma exec_bufset (e : V) ix (s : state) p : eval ix s = Some (Z.of_nat p) -> (p < length (s_buf s))%nat ->
  exec e (SBufSet ix) s = Some (set_buf s (set_nth p e (s_buf s))).
Proof.
  cbn [exec]. intros -> H. destruct (Z.leb_spec 0 (Z.of_nat p)); [|lia].
  destruct (Z.ltb_spec (Z.of_nat p) (Z.of_nat (length (s_buf s)))); [|lia]. cbn. rewrite Nat2Z.id. reflexivity.
Qed.

Lemma exec_set (e : V) v x (s : state) z : eval x s = Some z -> exec e (SSet v x) s = Some (set s v z).
Proof. cbn [exec]. intros ->. reflexivity. Qed.

(* ---------------------------------------------------------------- counted loops, semantic shapes
   The hypotheses about init / cond / step / count are closed statements about the concrete syntax (proved by
   computation); J is the caller's invariant after j passes, stated on the state before the counter is advanced. *)
Lemma loop_full (e : V) init cond step body count (v bnd : var) (n : nat) (J : nat -> state -> Prop) s :
  (forall s : state, exec e init s = Some (set s v 0)) ->
  (forall s : state, eval cond s = Some (b2z (get s v <? get s bnd))) ->
  (forall s : state, exec e step s = Some (set s v ((get s v + 1) mod two64))) ->
  (forall s : state, eval count s = Some (get s bnd - get s v)) ->
  var_eqb bnd v = false ->
  Z.of_nat n < two64 ->
  get s bnd = Z.of_nat n ->
  J O (set s v 0) ->
  (forall j sj, (j < n)%nat -> J j sj -> get sj v = Z.of_nat j -> get sj bnd = Z.of_nat n ->
     exists s', exec e body sj = Some s' /\ get s' v = Z.of_nat j /\ get s' bnd = Z.of_nat n /\
                J (S j) (set s' v (Z.of_nat (S j)))) ->
  exists s', exec e (SFor init cond step body count) s = Some s' /\ J n s' /\ get s' v = Z.of_nat n.
Proof.
  intros Hi Hc Hs Hn Hvb Hn64 Hb J0 Hbody.
  destruct (for_rule e init cond step body count
              (fun j sj => J j sj /\ get sj v = Z.of_nat j /\ get sj bnd = Z.of_nat n) s (set s v 0) (Z.of_nat n))
    as (s' & E & HJ & Hv' & _).
  - apply Hi.
  - rewrite Hn. rewrite get_set_same, get_set_other by exact Hvb. rewrite Hb. f_equal. lia.
  - split; [exact J0|]. rewrite get_set_same, get_set_other by exact Hvb. auto.
  - rewrite Nat2Z.id. intros j sj Hj (HJ & Hv' & Hb'). split.
    + eapply check_true; [apply Hc|]. rewrite Hv', Hb'. destruct (Z.ltb_spec (Z.of_nat j) (Z.of_nat n)); cbn; lia.
    + destruct (Hbody j sj Hj HJ Hv' Hb') as (s1 & E1 & V1 & B1 & J1). rewrite E1. cbn [bind]. rewrite Hs.
      rewrite V1. rewrite Z.mod_small by lia. replace (Z.of_nat j + 1) with (Z.of_nat (S j)) by lia.
      eexists; split; [reflexivity|]. split; [exact J1|]. rewrite get_set_same, get_set_other by exact Hvb. auto.
  - rewrite Nat2Z.id. intros sj (HJ & Hv' & Hb'). apply check_false. rewrite Hc, Hv', Hb', Z.ltb_irrefl. reflexivity.
  - rewrite Nat2Z.id in *. eauto.
Qed.

Lemma loop_up (e : V) init cond step body count (c bnd : var) (k : Z) (J : nat -> state -> Prop) s :
  (forall s : state, exec e init s = Some (set s c 0)) ->
  (forall s : state, eval cond s = Some (b2z (get s c <? get s bnd))) ->
  (forall s : state, exec e step s = match norm I32 (get s c + 1) with Some z => Some (set s c z) | None => None end) ->
  (forall s : state, eval count s = Some (get s bnd - get s c)) ->
  var_eqb bnd c = false ->
  - two31 <= k < two31 ->
  get s bnd = k ->
  J O (set s c 0) ->
  (forall j sj, (j < Z.to_nat k)%nat -> J j sj -> get sj c = Z.of_nat j -> get sj bnd = k ->
     exists s', exec e body sj = Some s' /\ get s' c = Z.of_nat j /\ get s' bnd = k /\
                J (S j) (set s' c (Z.of_nat (S j)))) ->
  exists s', exec e (SFor init cond step body count) s = Some s' /\ J (Z.to_nat k) s'.
Proof.
  intros Hi Hc Hs Hn Hvb Hk Hb J0 Hbody.
  destruct (for_rule e init cond step body count
              (fun j sj => J j sj /\ get sj c = Z.of_nat j /\ get sj bnd = k) s (set s c 0) k)
    as (s' & E & HJ & _).
  - apply Hi.
  - rewrite Hn. rewrite get_set_same, get_set_other by exact Hvb. rewrite Hb. f_equal. lia.
  - split; [exact J0|]. rewrite get_set_same, get_set_other by exact Hvb. auto.
  - intros j sj Hj (HJ & Hv' & Hb'). split.
    + eapply check_true; [apply Hc|]. rewrite Hv', Hb'. destruct (Z.ltb_spec (Z.of_nat j) k); cbn; lia.
    + destruct (Hbody j sj Hj HJ Hv' Hb') as (s1 & E1 & V1 & B1 & J1). rewrite E1. cbn [bind]. rewrite Hs.
      rewrite V1. rewrite norm_inrange by (cbn; unfold two31 in *; lia).
      replace (Z.of_nat j + 1) with (Z.of_nat (S j)) by lia.
      eexists; split; [reflexivity|]. split; [exact J1|]. rewrite get_set_same, get_set_other by exact Hvb. auto.
  - intros sj (HJ & Hv' & Hb'). apply check_false. rewrite Hc, Hv', Hb'.
    destruct (Z.ltb_spec (Z.of_nat (Z.to_nat k)) k); [lia|reflexivity].
  - eauto.
Qed.

Lemma loop_down (e : V) init cond step body count (c bnd : var) (k : Z) (J : nat -> state -> Prop) s :
  (forall s : state, exec e init s = Some (set s c 0)) ->
  (forall s : state, eval cond s = Some (b2z (get s bnd <? get s c))) ->
  (forall s : state, exec e step s = match norm I32 (get s c - 1) with Some z => Some (set s c z) | None => None end) ->
  (forall s : state, eval count s = Some (get s c - get s bnd)) ->
  var_eqb bnd c = false ->
  - two31 <= k < two31 ->
  get s bnd = k ->
  J O (set s c 0) ->
  (forall j sj, (j < Z.to_nat (- k))%nat -> J j sj -> get sj c = - Z.of_nat j -> get sj bnd = k ->
     exists s', exec e body sj = Some s' /\ get s' c = - Z.of_nat j /\ get s' bnd = k /\
                J (S j) (set s' c (- Z.of_nat (S j)))) ->
  exists s', exec e (SFor init cond step body count) s = Some s' /\ J (Z.to_nat (- k)) s'.
Proof.
  intros Hi Hc Hs Hn Hvb Hk Hb J0 Hbody.
  destruct (for_rule e init cond step body count
              (fun j sj => J j sj /\ get sj c = - Z.of_nat j /\ get sj bnd = k) s (set s c 0) (- k))
    as (s' & E & HJ & _).
  - apply Hi.
  - rewrite Hn. rewrite get_set_same, get_set_other by exact Hvb. rewrite Hb. f_equal.
  - split; [exact J0|]. rewrite get_set_same, get_set_other by exact Hvb. auto.
  - intros j sj Hj (HJ & Hv' & Hb'). split.
    + eapply check_true; [apply Hc|]. rewrite Hv', Hb'. destruct (Z.ltb_spec k (- Z.of_nat j)); cbn; lia.
    + destruct (Hbody j sj Hj HJ Hv' Hb') as (s1 & E1 & V1 & B1 & J1). rewrite E1. cbn [bind]. rewrite Hs.
      rewrite V1. rewrite norm_inrange by (cbn; unfold two31 in *; lia).
      replace (- Z.of_nat j - 1) with (- Z.of_nat (S j)) by lia.
      eexists; split; [reflexivity|]. split; [exact J1|]. rewrite get_set_same, get_set_other by exact Hvb. auto.
  - intros sj (HJ & Hv' & Hb'). apply check_false. rewrite Hc, Hv', Hb'.
    destruct (Z.ltb_spec k (- Z.of_nat (Z.to_nat (- k)))); [lia|reflexivity].
  - eauto.
Qed.

End Facts.
