(* PoseCovModel.v — executable model (definitions only) of
     include/romea_core_common/math/Matrix.hpp            toSe2Covariance / toSe3Covariance
     src/geometry/{Pose3D,Twist3D,PoseAndTwist3D}.cpp      3D -> 2D reductions, toPosition3D, operator*(Affine3d, Pose3D)
     src/geometry/Ellipse.cpp                              Ellipse(center, covariance, sigmaScale)
     src/regression/leastsquares/LeastSquares.cpp          computeEstimateCovariance
   Used by C11 (means, reductions, ellipse) and C12 (propagated covariances).
   n x n matrices are functions nat -> nat -> T read on indices < n; 3x3 rotation parts reuse AnglesModel. *)
From Coq Require Import ZArith List Bool Arith.
From Romea Require Import Num AnglesModel.

Definition mat (T : Type) : Type := nat -> nat -> T.
Definition vec (T : Type) : Type := nat -> T.

Section Generic.
Context {T : Type} (N : NumOps T).
Local Notation "x + y" := (nadd N x y) (at level 50, left associativity).
Local Notation "x - y" := (nsub N x y) (at level 50, left associativity).
Local Notation "x * y" := (nmul N x y) (at level 40, left associativity).
Local Notation "x / y" := (ndiv N x y) (at level 40, left associativity).
Local Notation "- x" := (nneg N x) (at level 35, right associativity).
Local Notation ZZ := (nzero N).
Local Notation II := (n_one N).

(* sum f 0 .. f (n-1), left to right *)
Fixpoint nsum (n : nat) (f : nat -> T) : T :=
  match n with O => ZZ | S k => nsum k f + f k end.

Definition gmul (n : nat) (a b : mat T) : mat T := fun i j => nsum n (fun k => a i k * b k j).
Definition gtrans (a : mat T) : mat T := fun i j => a j i.
Definition gscale (a : mat T) (s : T) : mat T := fun i j => a i j * s.
Definition gdiag (d : vec T) : mat T := fun i j => if Nat.eqb i j then d i else ZZ.
Definition gid : mat T := fun i j => if Nat.eqb i j then II else ZZ.

(* ---------------- Matrix.hpp ---------------- *)
(* the SE(2) components inside an SE(3) covariance: x, y, yaw = indices 0, 1, 5 *)
Definition sel3 (i : nat) : nat := match i with 0%nat => 0%nat | 1%nat => 1%nat | _ => 5%nat end.
Definition is_planar (i : nat) : bool := Nat.eqb i 0 || Nat.eqb i 1 || Nat.eqb i 5.
Definition unsel3 (i : nat) : nat := match i with 0%nat => 0%nat | 1%nat => 1%nat | _ => 2%nat end.

(* toSe2Covariance: zero 3x3, block<2,2>(0,0) copied, (0,2)<-(0,5), (1,2)<-(1,5), (2,0)<-(5,0), (2,1)<-(5,1), (2,2)<-(5,5) *)
Definition toSe2Covariance (c : mat T) : mat T := fun i j => c (sel3 i) (sel3 j).

(* toSe3Covariance: zero 6x6 and the same nine entries written back *)
Definition toSe3Covariance (c : mat T) : mat T :=
  fun i j => if is_planar i && is_planar j then c (unsel3 i) (unsel3 j) else ZZ.

(* ---------------- poses, twists ---------------- *)
Record pose3 : Type := mkPose3 { p3_pos : vec3 T; p3_ori : vec3 T; p3_cov : mat T }.      (* 6x6 *)
Record pose2 : Type := mkPose2 { p2_x : T; p2_y : T; p2_yaw : T; p2_cov : mat T }.        (* 3x3 *)
Record position3 : Type := mkPosition3 { q3_pos : vec3 T; q3_cov : mat T }.                (* 3x3 *)
Record twist3 : Type := mkTwist3 { t3_lin : vec3 T; t3_ang : vec3 T; t3_cov : mat T }.     (* 6x6 *)
Record twist2 : Type := mkTwist2 { t2_vx : T; t2_vy : T; t2_w : T; t2_cov : mat T }.       (* 3x3 *)

(* toPose2D(Pose3D) *)
Definition toPose2D (p : pose3) : pose2 :=
  mkPose2 (v0 (p3_pos p)) (v1 (p3_pos p)) (v2 (p3_ori p)) (toSe2Covariance (p3_cov p)).
(* toPosition3D(Pose3D): position and covariance.block<3,3>(0,0) *)
Definition toPosition3D (p : pose3) : position3 := mkPosition3 (p3_pos p) (fun i j => p3_cov p i j).
(* toTwist2D(Twist3D) *)
Definition toTwist2D (t : twist3) : twist2 :=
  mkTwist2 (v0 (t3_lin t)) (v1 (t3_lin t)) (v2 (t3_ang t)) (toSe2Covariance (t3_cov t)).
(* toPoseAndTwist2D = both *)
Definition toPoseAndTwist2D (pt : pose3 * twist3) : pose2 * twist2 := (toPose2D (fst pt), toTwist2D (snd pt)).

(* ---------------- Ellipse(center, covariance 2x2, sigmaScale) ----------------
   [svd] stands for Eigen::JacobiSVD<MatrixXd>(cov, ComputeThinU): singular values (s0, s1) and U.
   It is an argument; the theorems carry its contract as a hypothesis. *)
Record ellipse : Type := mkEllipse { e_orientation : T; e_major : T; e_minor : T }.

Definition ellipse_of_cov (svd : mat2 T -> (T * T) * mat2 T) (cov : mat2 T) (sigma : T) : ellipse :=
  let '((s0, s1), u) := svd cov in
  mkEllipse (natan2 N (a10 u) (a00 u)) (nsqrt N s0 * sigma) (nsqrt N s1 * sigma).

(* closed-form eigen-decomposition of a symmetric 2x2 matrix: the realisation of [svd] used when the model is
   executed (not verified; its contract is checked on every call by [svd2_residual]) *)
Definition sym_eig2 (c : mat2 T) : (T * T) * mat2 T :=
  let a := a00 c in let b := nhalf N * (a01 c + a10 c) in let d := a11 c in
  let tr := a + d in let df := a - d in
  let rt := nsqrt N (df * df + ntwo N * ntwo N * (b * b)) in
  let l0 := nhalf N * (tr + rt) in
  let l1raw := if nltb N ZZ l0 then (a * d - b * b) / l0 else ZZ in
  let l1c := if nltb N l1raw ZZ then ZZ else l1raw in
  let l1 := if nltb N l0 l1c then l0 else l1c in
  (* eigenvector of l0: (l0 - d, b) or (b, l0 - a), whichever is longer *)
  let x1 := l0 - d in let y1 := b in
  let x2 := b in let y2 := l0 - a in
  let n1 := x1 * x1 + y1 * y1 in let n2 := x2 * x2 + y2 * y2 in
  let '(x, y, n) := if nltb N n1 n2 then (x2, y2, n2) else (x1, y1, n1) in
  if nltb N ZZ n then
    let r := nsqrt N n in let cx := x / r in let cy := y / r in
    ((l0, l1), mkM2 cx (- cy) cy cx)
  else ((l0, l1), mkM2 II ZZ ZZ II).

(* contract residual: max |cov - U diag(s) U^T|, |U^T U - I| entries, and the ordering s0 >= s1 >= 0 as a flag *)
Definition svd2_residual (c : mat2 T) (r : (T * T) * mat2 T) : T * bool :=
  let '((s0, s1), u) := r in
  let m00' := a00 u * s0 * a00 u + a01 u * s1 * a01 u in
  let m01' := a00 u * s0 * a10 u + a01 u * s1 * a11 u in
  let m11' := a10 u * s0 * a10 u + a11 u * s1 * a11 u in
  let o00 := a00 u * a00 u + a10 u * a10 u - II in
  let o01 := a00 u * a01 u + a10 u * a11 u in
  let o11 := a01 u * a01 u + a11 u * a11 u - II in
  let mx := fun p q => nmax2 N p (nabs N q) in
  (mx (mx (mx (mx (mx (mx (nabs N (m00' - a00 c)) (m01' - a01 c)) (m01' - a10 c)) (m11' - a11 c)) o00) o01) o11,
   nleb N s1 s0 && nleb N ZZ s1).

(* ---------------- operator*(Affine3d, Pose3D) ----------------
   [l] is affine.rotation() and [t] affine.translation(); for a rigid transform rotation() is the linear part
   (Eigen computes it by an SVD of the linear part; contract: the linear part is a proper rotation). *)

(* derivatives of S = Rz*Ry*Rx wrt the angles, as the repaired code builds them from S and the yaw:
   dS/dx = S*[ex]x : columns (0, S.col(2), -S.col(1))
   dS/dy = [n]x*S with n = Rz*ey = (-sin yaw, cos yaw, 0) : columns n x S.col(j)
   dS/dz = [ez]x*S : rows (-S.row(1), S.row(0), 0) *)
Definition cross3 (a b : vec3 T) : vec3 T :=
  mkV3 (v1 a * v2 b - v2 a * v1 b) (v2 a * v0 b - v0 a * v2 b) (v0 a * v1 b - v1 a * v0 b).
Definition vneg3 (a : vec3 T) : vec3 T := mkV3 (- v0 a) (- v1 a) (- v2 a).
Definition dSdX_of (s : mat3 T) : mat3 T := mcols3 (mkV3 ZZ ZZ ZZ) (mcol3 s 2) (vneg3 (mcol3 s 1)).
Definition dSdY_of (s : mat3 T) (yaw : T) : mat3 T :=
  let n := mkV3 (- nsin N yaw) (ncos N yaw) ZZ in
  mcols3 (cross3 n (mcol3 s 0)) (cross3 n (mcol3 s 1)) (cross3 n (mcol3 s 2)).
Definition dSdZ_of (s : mat3 T) : mat3 T :=
  mkM3 (- m10 s) (- m11 s) (- m12 s)  (m00 s) (m01 s) (m02 s)  ZZ ZZ ZZ.

(* the angular 3x3 block of J: rows = (roll', pitch', yaw') of rotation = l*S, columns = (roll, pitch, yaw) *)
Definition pose_J_angular (l : mat3 T) (ori : vec3 T) : mat3 T :=
  let s := sR (smart_init N (v0 ori) (v1 ori) (v2 ori)) in
  let rot := mmul3 N l s in
  let r21 := m21 rot in let r22 := m22 rot in
  let a21 := r22 / (r21 * r21 + r22 * r22) in
  let a22 := r21 / (r21 * r21 + r22 * r22) in
  let r20 := m20 rot in
  let a20 := - II / nsqrt N (II - r20 * r20) in
  let r10 := m10 rot in let r00 := m00 rot in
  let a10 := r00 / (r00 * r00 + r10 * r10) in
  let a00 := r10 / (r00 * r00 + r10 * r10) in
  let d0 := mmul3 N l (dSdX_of s) in
  let d1 := mmul3 N l (dSdY_of s (v2 ori)) in
  let d2 := mmul3 N l (dSdZ_of s) in
  mkM3 (a21 * m21 d0 - a22 * m22 d0) (a21 * m21 d1 - a22 * m22 d1) (a21 * m21 d2 - a22 * m22 d2)
       (a20 * m20 d0) (a20 * m20 d1) (a20 * m20 d2)
       (a10 * m10 d0 - a00 * m00 d0) (a10 * m10 d1 - a00 * m00 d1) (a10 * m10 d2 - a00 * m00 d2).

(* 6x6 J = [ l 0 ; 0 angular ] *)
Definition block6 (a b : mat3 T) : mat T := fun i j =>
  if Nat.ltb i 3 then (if Nat.ltb j 3 then mget3 a i j else ZZ)
  else (if Nat.ltb j 3 then ZZ else mget3 b (Nat.sub i 3) (Nat.sub j 3)).

Definition pose_J (l : mat3 T) (ori : vec3 T) : mat T := block6 l (pose_J_angular l ori).

Definition pose_cov (j c : mat T) : mat T := gmul 6 (gmul 6 j c) (gtrans j).

(* --- the Jacobian of the ORIGINAL code (commit 2218971), kept for the refutation theorem ---
   J.block<3,3>(0,0) = rotation (not R); rows 3,4 use R.row(2) with SmartRotation3D's derivative members
   (which keep an identity entry); a20 = 1/(1 - r20^2); row 5 mixes R(1,0), R(0,0) with rows of `rotation`,
   and takes the Y derivative for column 3 and the X derivative for column 4. *)
Definition pose_J_angular_v0 (l : mat3 T) (ori : vec3 T) : mat3 T :=
  let sm := smart_init N (v0 ori) (v1 ori) (v2 ori) in
  let rot := mmul3 N l (sR sm) in
  let r21 := m21 rot in let r22 := m22 rot in
  let a21 := r22 / (r21 * r21 + r22 * r22) in
  let a22 := r21 / (r21 * r21 + r22 * r22) in
  let row2dot := fun (v : vec3 T) => m20 l * v0 v + m21 l * v1 v + m22 l * v2 v in
  let comb := fun (d : mat3 T) =>
    mkV3 (a21 * m01 d - a22 * m02 d) (a21 * m11 d - a22 * m12 d) (a21 * m21 d - a22 * m22 d) in
  let r20 := m20 rot in
  let a20 := II / (II - r20 * r20) in
  let sc0 := fun (d : mat3 T) => mkV3 (a20 * m00 d) (a20 * m10 d) (a20 * m20 d) in
  let r10 := m10 l in let r00 := m00 l in
  let a10 := r00 / (r00 * r00 + r10 * r10) in
  let a00 := r10 / (r00 * r00 + r10 * r10) in
  let w := mkV3 (- a00 * m00 rot + a10 * m10 rot) (- a00 * m01 rot + a10 * m11 rot) (- a00 * m02 rot + a10 * m12 rot) in
  let wdot := fun (d : mat3 T) => v0 w * m00 d + v1 w * m10 d + v2 w * m20 d in
  mkM3 (row2dot (comb (sdX sm))) (row2dot (comb (sdY sm))) (row2dot (comb (sdZ sm)))
       (row2dot (sc0 (sdX sm))) (row2dot (sc0 (sdY sm))) (row2dot (sc0 (sdZ sm)))
       (wdot (sdY sm)) (wdot (sdX sm)) (wdot (sdZ sm)).

Definition pose_J_v0 (l : mat3 T) (ori : vec3 T) : mat T :=
  block6 (mmul3 N l (sR (smart_init N (v0 ori) (v1 ori) (v2 ori)))) (pose_J_angular_v0 l ori).

(* ---------------- LeastSquares::computeEstimateCovariance ----------------
   repaired code (870e444):  Ac_ * inverseJtJ_ * Ac_.transpose() * dataVariance ;  [inv] = inverseJtJ_ is what the last
   estimate left there (LDLT solve against the identity): an argument with the contract inv * (J^T J) = I.
   [ls_covariance_old] is the code before the repair, Ac_.transpose() * inverseJtJ_ * Ac_ * dataVariance (kept for the
   _refuted theorem: the two agree for symmetric Ac only). *)
Definition ls_JtJ (m n : nat) (j : mat T) : mat T := fun a b => nsum m (fun r => j r a * j r b).
Definition ls_covariance (n : nat) (ac inv : mat T) (variance : T) : mat T :=
  gscale (gmul n (gmul n ac inv) (gtrans ac)) variance.
Definition ls_covariance_old (n : nat) (ac inv : mat T) (variance : T) : mat T :=
  gscale (gmul n (gmul n (gtrans ac) inv) ac) variance.
(* contract residual of the oracle argument: max |inv * JtJ - I| *)
Definition ls_inv_residual (n : nat) (jtj inv : mat T) : T :=
  nsum n (fun i => nsum n (fun k =>
    nabs N (nsum n (fun r => inv i r * jtj r k) - (if Nat.eqb i k then II else ZZ)))).

End Generic.

(* ---------------- the mean part of operator*(Affine3d, Pose3D) (goes through the normalisers) ---------------- *)
Section Normalised.
Context {T D : Type} (N : NumOps T) (ND : NumOps D) (up : T -> D) (down : D -> T).

Definition pose_transform_mean (l : mat3 T) (t : vec3 T) (pos ori : vec3 T) : vec3 T * option (vec3 T) :=
  (vadd3 N (mvmul3 N l pos) t,
   rotation3DToEulerAngles N ND up down (mmul3 N l (sR (smart_init N (v0 ori) (v1 ori) (v2 ori))))).

End Normalised.
