(* PoseJacProofs.v — C12, covariance part: J*C*J^T keeps symmetry and positive semi-definiteness, the local
   derivative matrices of the repaired operator*(Affine3d, Pose3D) are the true ones, the original Jacobian is
   refuted at the identity, and the least-squares covariance formula for a diagonal preconditioner. *)
From Coq Require Import Reals ZArith Lra Lia Psatz Nsatz Arith Bool.
From Coquelicot Require Import Coquelicot.
From Romea Require Import Num NumR AnglesModel AnglesProofs AnglesRoundtrip PoseCovModel PoseCovProofs DerivProofs.
Local Open Scope R_scope.

(* ---------------- J*C*J^T ---------------- *)
Definition jt_apply (n : nat) (j : mat R) (x : vec R) : vec R := fun l => rsum n (fun i => j i l * x i).

Lemma quad_as_rows n m x : quad n m x = rsum n (fun i => x i * rsum n (fun j => m i j * x j)).
Proof.
  unfold quad. apply rsum_ext. intros i _. rewrite <- rsum_scal. apply rsum_ext. intros j _. ring.
Qed.

Lemma congruence_quad n j c x :
  quad n (gmul ROps n (gmul ROps n j c) (gtrans j)) x = quad n c (jt_apply n j x).
Proof.
  set (y := jt_apply n j x). set (a := gmul ROps n j c).
  (* rows of (a j^T) x = a y *)
  assert (S2 : forall i, rsum n (fun q => gmul ROps n a (gtrans j) i q * x q) = rsum n (fun k => a i k * y k)).
  { intros i. unfold gmul at 1, gtrans.
    transitivity (rsum n (fun q => rsum n (fun k => a i k * (j q k * x q)))).
    { apply rsum_ext. intros q _. rewrite <- rsum_scal_r. apply rsum_ext. intros k _. rcbn. ring. }
    rewrite rsum_swap. apply rsum_ext. intros k _. rewrite rsum_scal. reflexivity. }
  (* x^T a = y^T c *)
  assert (S4 : forall k, rsum n (fun i => x i * a i k) = rsum n (fun m => y m * c m k)).
  { intros k. unfold a, gmul.
    transitivity (rsum n (fun i => rsum n (fun m => (j i m * x i) * c m k))).
    { apply rsum_ext. intros i _. rewrite <- rsum_scal. apply rsum_ext. intros m _. rcbn. ring. }
    rewrite rsum_swap. apply rsum_ext. intros m _. rewrite rsum_scal_r. reflexivity. }
  rewrite quad_as_rows.
  transitivity (rsum n (fun i => rsum n (fun k => (x i * a i k) * y k))).
  { apply rsum_ext. intros i _. fold a. rewrite S2, <- rsum_scal. apply rsum_ext. intros k _. ring. }
  rewrite rsum_swap.
  transitivity (rsum n (fun k => rsum n (fun m => y m * c m k * y k))).
  { apply rsum_ext. intros k _. rewrite rsum_scal_r, S4, <- rsum_scal_r. reflexivity. }
  unfold quad. rewrite rsum_swap. reflexivity.
Qed.

Lemma congruence_psd n j c : gpsd n c -> gpsd n (gmul ROps n (gmul ROps n j c) (gtrans j)).
Proof. intros H x. rewrite congruence_quad. apply H. Qed.

Lemma congruence_sym n j c : gsym n c -> gsym n (gmul ROps n (gmul ROps n j c) (gtrans j)).
Proof.
  intros H p q Hp Hq. unfold gmul, gtrans. rcbn.
  transitivity (rsum n (fun k => rsum n (fun l => j p l * c l k * j q k))).
  { apply rsum_ext. intros k _. rewrite <- rsum_scal_r. reflexivity. }
  rewrite rsum_swap. apply rsum_ext. intros l Hl. rewrite <- rsum_scal_r. apply rsum_ext. intros k Hk.
  rewrite (H l k Hl Hk). ring.
Qed.

(* ---------------- the derivative matrices built at the call site are the true ones ---------------- *)
Lemma dSd_of_true x y z :
  dSdX_of ROps (rot_zyx x y z) = dRdX_true x y z /\
  dSdY_of ROps (rot_zyx x y z) z = dRdY_true x y z /\
  dSdZ_of ROps (rot_zyx x y z) = dRdZ_true x y z.
Proof.
  rewrite rot_zyx_entries.
  unfold dSdX_of, dSdY_of, dSdZ_of, mcols3, mcol3, cross3, vneg3. cbn [v0 v1 v2]. rcbn.
  unfold dRdX_true, dRdY_true, dRdZ_true, RX, RY, RZ, dRX, dRY, dRZ, mmul3, Rx_of, Ry_of, Rz_of. rcbn.
  pose proof (sc1 z) as Hz.
  generalize dependent (sin z). generalize dependent (cos z). intros cz sz Hz.
  repeat split; f_equal; nsatz.
Qed.

(* ---------------- refutation of the original Jacobian ---------------- *)
Definition J0 : mat R := pose_J_v0 ROps (mid3 ROps) (mkV3 0 0 0).

Lemma smart0 : smart_init ROps 0 0 0 =
  mkSmart (mkM3 1 0 0  0 1 0  0 0 1) (mkM3 1 0 0  0 0 (-1)  0 1 0) (mkM3 0 0 1  0 1 0  (-1) 0 0) (mkM3 0 (-1) 0  1 0 0  0 0 1).
Proof.
  unfold smart_init. rcbn. rewrite sin_0, cos_0. unfold mmul3, Rx_of, Ry_of, Rz_of, dRx_of, dRy_of, dRz_of. rcbn.
  f_equal; f_equal; ring.
Qed.

Lemma J0_angular : pose_J_angular_v0 ROps (mid3 ROps) (mkV3 0 0 0) = mkM3 1 0 0  0 (-1) 0  0 0 1.
Proof.
  unfold pose_J_angular_v0. cbn [v0 v1 v2]. rewrite smart0. cbn [sR sdX sdY sdZ]. unfold mmul3, mid3. rcbn.
  f_equal; field_simplify; lra.
Qed.

Ltac eval_J0 := unfold J0, pose_J_v0, block6; cbn [Nat.ltb Nat.leb Nat.sub]; rewrite ?J0_angular; cbn [mget3 m00 m01 m02 m10 m11 m12 m20 m21 m22];
  try reflexivity.

Lemma J0_row3 : J0 3%nat 0%nat = 0 /\ J0 3%nat 1%nat = 0 /\ J0 3%nat 2%nat = 0 /\
                J0 3%nat 3%nat = 1 /\ J0 3%nat 4%nat = 0 /\ J0 3%nat 5%nat = 0.
Proof. repeat split; eval_J0. Qed.
Lemma J0_row4 : J0 4%nat 0%nat = 0 /\ J0 4%nat 1%nat = 0 /\ J0 4%nat 2%nat = 0 /\
                J0 4%nat 3%nat = 0 /\ J0 4%nat 4%nat = -1 /\ J0 4%nat 5%nat = 0.
Proof. repeat split; eval_J0. Qed.

(* the covariance with unit variances and a (roll, pitch) cross term 1/2 *)
Definition Cwit : mat R := fun i j =>
  if Nat.eqb i j then 1 else if (Nat.eqb i 3 && Nat.eqb j 4) || (Nat.eqb i 4 && Nat.eqb j 3) then / 2 else 0.

Lemma Cwit_sym_psd : gsym 6 Cwit /\ gpsd 6 Cwit.
Proof.
  split.
  - intros i j Hi Hj. destruct (lt6_cases i Hi) as [E|[E|[E|[E|[E|E]]]]]; subst i;
      destruct (lt6_cases j Hj) as [E|[E|[E|[E|[E|E]]]]]; subst j; reflexivity.
  - intros x. unfold quad, Cwit. cbn. nra.
Qed.

Lemma pose_cov_identity_refuted :
  J0 4%nat 4%nat <> 1 /\
  pose_cov ROps J0 Cwit 3%nat 4%nat = - / 2 /\ Cwit 3%nat 4%nat = / 2.
Proof.
  destruct J0_row3 as [A0 [A1 [A2 [A3 [A4 A5]]]]]. destruct J0_row4 as [B0 [B1 [B2 [B3 [B4 B5]]]]].
  split; [rewrite B4; lra|]. split; [|reflexivity].
  unfold pose_cov, gmul, gtrans. cbn [nsum]. rcbn.
  rewrite A0, A1, A2, A3, A4, A5, B0, B1, B2, B3, B4, B5. unfold Cwit. cbn. lra.
Qed.

(* ---------------- least squares: covariance through a diagonal preconditioner ---------------- *)
Definition gdiagonal (n : nat) (a : mat R) : Prop := forall i j, (i < n)%nat -> (j < n)%nat -> i <> j -> a i j = 0.

(* the repaired code is A * inv * A^T by definition, for EVERY configured preconditioner A *)
Lemma ls_covariance_general n (a inv : mat R) v i j :
  ls_covariance ROps n a inv v i j = v * rsum n (fun q => rsum n (fun p => a i p * inv p q) * a j q) /\
  ls_covariance ROps n a inv v = gscale ROps (gmul ROps n (gmul ROps n a inv) (gtrans a)) v.
Proof. split; [unfold ls_covariance, gscale, gmul, gtrans; rcbn; ring|reflexivity]. Qed.

(* the code before the repair (A^T * inv * A) is a different matrix as soon as A is not symmetric:
   A = [[1,1],[0,1]], inv = I, variance 1: entry (0,0) is 1 instead of 2 *)
Lemma ls_covariance_old_refuted :
  exists (a inv : mat R),
    ls_covariance_old ROps 2 a inv 1 0%nat 0%nat <> gscale ROps (gmul ROps 2 (gmul ROps 2 a inv) (gtrans a)) 1 0%nat 0%nat.
Proof.
  exists (fun i j => match i, j with 1%nat, 0%nat => 0 | _, _ => 1 end), (fun i j => if Nat.eqb i j then 1 else 0).
  unfold ls_covariance_old, gscale, gmul, gtrans. cbn. lra.
Qed.

Lemma ls_covariance_diag n a inv v i j : gdiagonal n a -> (i < n)%nat -> (j < n)%nat ->
  ls_covariance ROps n a inv v i j = v * (a i i * inv i j * a j j) /\
  ls_covariance ROps n a inv v i j = gscale ROps (gmul ROps n (gmul ROps n a inv) (gtrans a)) v i j.
Proof.
  intros Hd Hi Hj. unfold ls_covariance, gscale, gmul, gtrans. rcbn.
  assert (M : rsum n (fun k => rsum n (fun l => a i l * inv l k) * a j k) = a i i * inv i j * a j j).
  { rewrite (rsum_single n j) by (try assumption; intros k Hk Hne; rewrite (Hd j k) by auto; ring).
    rewrite (rsum_single n i) by (try assumption; intros k Hk Hne; rewrite (Hd i k) by auto; ring).
    reflexivity. }
  rewrite M. split; ring.
Qed.
