(* DiagModel.v — executable model of the diagnostics layer (C18):
   include/romea_core_common/diagnostic/{Checkup,CheckupEqualTo,CheckupGreaterThan,CheckupLowerThan}.hpp
   src/diagnostics/{CheckupReliability,DiagnosticStatus,Diagnostic,DiagnosticReport}.cpp
   Definitions only (proofs are in DiagProofs.v). *)
From Coq Require Import ZArith List Bool.
From Romea Require Import Num.
From Romea.gen Require Import RepoConstants.
Import ListNotations.

(* enum class DiagnosticStatus { OK, WARN, ERROR, STALE }: the integer values come from the source
   through the translator (gen/RepoConstants.v); operator>= on the enum is >= on these values. *)
Inductive status := OK | WARN | ERROR | STALE.

Definition status_val (s : status) : Z :=
  match s with OK => status_OK_value | WARN => status_WARN_value
             | ERROR => status_ERROR_value | STALE => status_STALE_value end.

Definition status_eqb (a b : status) : bool :=
  match a, b with OK, OK | WARN, WARN | ERROR, ERROR | STALE, STALE => true | _, _ => false end.

(* DiagnosticStatus worse(s1, s2) { return s1 >= s2 ? s1 : s2; } *)
Definition worse (s1 s2 : status) : status :=
  if Z.geb (status_val s1) (status_val s2) then s1 else s2.

(* message endings used by the check-ups *)
Inductive suffix := SNone | STooLow | STooHigh | SIsOK | STimeout | SUncertain | SIsHigh.

Record diagnostic := { d_status : status; d_suffix : suffix }.

(* Diagnostic() : status STALE, empty message *)
Definition diagnostic_default : diagnostic := {| d_status := STALE; d_suffix := SNone |}.

(* worseStatus: fold of worse from the first element (asserts non-empty; None models the assert) *)
Definition worseStatus (l : list diagnostic) : option status :=
  match l with
  | [] => None
  | d :: r => Some (fold_left (fun acc x => worse acc (d_status x)) r (d_status d))
  end.

Definition allOK (l : list diagnostic) : option bool :=
  match worseStatus l with None => None | Some s => Some (status_eqb s OK) end.

Section Checkups.
Context {T : Type} (N : NumOps T).

(* The report of a check-up has exactly one diagnostic and one info entry (name -> printed value).
   [info] = None is the empty string; Some v is the value handed to the ostream printer. *)
Record creport := { r_diag : diagnostic; r_info : option T }.

Record checkup := { c_cmp : T; c_eps : T; c_report : creport }.

Definition checkup_init (cmp eps : T) (d : diagnostic) : checkup :=
  {| c_cmp := cmp; c_eps := eps; c_report := {| r_diag := d; r_info := None |} |}.

Definition set_diag (c : checkup) (s : status) (m : suffix) (v : option T) : checkup :=
  {| c_cmp := c_cmp c; c_eps := c_eps c;
     c_report := {| r_diag := {| d_status := s; d_suffix := m |}; r_info := v |} |}.

(* CheckupEqualTo<T>::evaluate *)
Definition eval_equal_to (c : checkup) (v : T) : checkup * status :=
  let c' :=
    if nltb N v (nsub N (c_cmp c) (c_eps c)) then set_diag c ERROR STooLow (Some v)
    else if nltb N (nadd N (c_cmp c) (c_eps c)) v then set_diag c ERROR STooHigh (Some v)
    else set_diag c OK SIsOK (Some v) in
  (c', d_status (r_diag (c_report c'))).

(* CheckupGreaterThan<T>::evaluate *)
Definition eval_greater_than (c : checkup) (v : T) : checkup * status :=
  let c' :=
    if nltb N (nsub N (c_cmp c) (c_eps c)) v then set_diag c OK SIsOK (Some v)
    else set_diag c ERROR STooLow (Some v) in
  (c', d_status (r_diag (c_report c'))).

(* CheckupLowerThan<T>::evaluate *)
Definition eval_lower_than (c : checkup) (v : T) : checkup * status :=
  let c' :=
    if nltb N v (nadd N (c_cmp c) (c_eps c)) then set_diag c OK SIsOK (Some v)
    else set_diag c ERROR STooHigh (Some v) in
  (c', d_status (r_diag (c_report c'))).

(* Checkup<T>::timeout *)
Definition checkup_timeout (c : checkup) : checkup := set_diag c STALE STimeout None.

(* CheckupReliability: thresholds low/high stored in c_cmp / c_eps *)
Definition eval_reliability (c : checkup) (v : T) : checkup * status :=
  let c' :=
    if nltb N v (c_cmp c) then set_diag c ERROR STooLow (Some v)
    else if nltb N v (c_eps c) then set_diag c WARN SUncertain (Some v)
    else set_diag c OK SIsHigh (Some v) in
  (c', d_status (r_diag (c_report c'))).

Inductive kind := KEqual | KGreater | KLower | KReliability.
Inductive cop := Eval (v : T) | Timeout.

Definition cstep (k : kind) (c : checkup) (o : cop) : checkup * option status :=
  match o with
  | Timeout => (checkup_timeout c, None)
  | Eval v =>
      let '(c', s) := match k with
                      | KEqual => eval_equal_to c v
                      | KGreater => eval_greater_than c v
                      | KLower => eval_lower_than c v
                      | KReliability => eval_reliability c v end in
      (c', Some s)
  end.

(* run an op list, collecting after each op: returned status and the report *)
Fixpoint crun (k : kind) (c : checkup) (ops : list cop) : list (option status * creport) :=
  match ops with
  | [] => []
  | o :: r => let '(c', s) := cstep k c o in (s, c_report c') :: crun k c' r
  end.

Definition cfinal (k : kind) (c : checkup) (ops : list cop) : checkup :=
  fold_left (fun c o => fst (cstep k c o)) ops c.

End Checkups.

(* DiagnosticReport: list of diagnostics + ordered map name -> string.
   operator+= : list insert at end; std::map::insert(range) keeps existing keys.
   Keys and values are abstract tokens (Z) here; the map is kept as a key-sorted association list. *)
Record report := { rep_diags : list diagnostic; rep_info : list (Z * Z) }.

Fixpoint map_insert (k v : Z) (m : list (Z * Z)) : list (Z * Z) :=
  match m with
  | [] => [(k, v)]
  | (k', v') :: r =>
      if Z.ltb k k' then (k, v) :: m
      else if Z.eqb k k' then m           (* existing key wins *)
      else (k', v') :: map_insert k v r
  end.

Definition report_append (r1 r2 : report) : report :=
  {| rep_diags := rep_diags r1 ++ rep_diags r2;
     rep_info := fold_left (fun m kv => map_insert (fst kv) (snd kv) m) (rep_info r2) (rep_info r1) |}.
