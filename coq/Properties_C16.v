(* Properties_C16.v — C16: sliding-window statistics and ring buffers reflect exactly the last W items. *)
From Coq Require Import ZArith List Bool Arith Reals Lia Lra.
From Romea Require Import Num NumR OnlineStatsModel OnlineStatsProofs StatsSem SrcTieC16 GridMapFloat OnlineStatsFloat OnlineStatsFloatCode.
From Romea.gen Require Import SrcStats.
Import ListNotations.

(* For every window size W >= 1 and every history of updates/resets (samples already truncated to the
   precision): the stored window is the last min(n,W) samples since the last reset, in order; the sums are
   exactly the sums over that window (no drift); availability iff W samples since the last reset. *)
Theorem C16_window_is_last_W : forall W h, 0 < W ->
  let s := fold_left i_step h (o_init W) in
  let xs := since_reset h [] in
  o_window s = lastn W xs /\
  length (o_data s) = Nat.min W (length xs) /\
  o_sum s = zsum (lastn W xs) /\
  o_sumsq s = zsum (map (fun x => (x * x)%Z) (lastn W xs)) /\
  (o_available s = true <-> W <= length xs).
Proof. exact window_is_last_W. Qed.
Print Assumptions C16_window_is_last_W.

(* under the property's bounds (|value|/precision <= 1e8, W <= 64) the exact sums fit in 64-bit signed
   integers, so the unbounded-Z model and the long long arithmetic of the code coincide *)
Theorem C16_sums_fit_64_bits : forall W h B, 0 < W -> (W <= 64)%nat -> (0 <= B <= 100000000)%Z ->
  Forall (fun x => (Z.abs x <= B)%Z) (since_reset h []) ->
  let s := fold_left i_step h (o_init W) in
  (Z.abs (o_sum s) < 2 ^ 63)%Z /\ (Z.abs (o_sumsq s) < 2 ^ 63)%Z.
Proof. exact sums_bounded. Qed.
Print Assumptions C16_sums_fit_64_bits.

(* real-number reading of the reported average: the mean of the stored samples x_i / multiplier *)
Theorem C16_average_formula : forall (m : Z) s x xs', (0 < m)%Z -> o_data s = x :: xs' ->
  o_sum s = zsum (o_data s) ->
  o_average ROps m s = Some (rsum (map (fun z => IZR z / IZR m) (o_data s)) / INR (length (o_data s)))%R.
Proof. exact average_formula. Qed.
Print Assumptions C16_average_formula.

(* with a full window (n = W >= 2) the reported variance is the unbiased sample variance *)
Theorem C16_variance_is_unbiased_sample_variance : forall (m : Z) s x xs', (0 < m)%Z -> o_data s = x :: xs' ->
  length (o_data s) = o_W s -> (2 <= o_W s)%nat ->
  o_sum s = zsum (o_data s) -> o_sumsq s = zsum (map (fun z => (z * z)%Z) (o_data s)) ->
  let ys := map (fun z => IZR z / IZR m)%R (o_data s) in
  let mean := (rsum ys / INR (length ys))%R in
  o_variance ROps m s = Some (rsum (map (fun y => (y - mean) * (y - mean))%R ys) / (INR (length ys) - 1))%R.
Proof. exact variance_formula. Qed.
Print Assumptions C16_variance_is_unbiased_sample_variance.

(* ring buffer, size_t index arithmetic with its 2^64 wrap: for every capacity >= 1 (power of two or not)
   and every history of appends and clears, size = min(n, capacity) and entry k is the k-th most recent *)
Theorem C16_ring_kth_most_recent : forall (A : Type) cap (h : list (rop A)) k,
  (0 < cap)%nat -> (2 * Z.of_nat cap <= two64)%Z ->
  let s := fold_left r_step h (r_init cap) in
  let xs := since_clear h [] in
  r_size s = Nat.min cap (length xs) /\
  ((k < r_size s)%nat -> r_get s k = nth_error (rev xs) k).
Proof. exact @ring_kth. Qed.
Print Assumptions C16_ring_kth_most_recent.

(* ==== SYNTACTIC SOURCE TIE ====
   gen/SrcStats.v is regenerated on every run by translate/tr_C16_stats.py from the clang AST of OnlineAverage.cpp,
   OnlineVariance.cpp and RingOfEigenVector.hpp: one Gallina state transformer per member function, on a record of the
   C++ data members, with the wrap-around of size_t / long long / int explicit (StatsSem.v).  The theorems below say that
   those transformers ARE the transitions of OnlineStatsModel.v (member by member), and that therefore the statements of
   the property hold of the code as written, for every history.  N is any numeric dictionary in which the literal 1
   converts to one and the product commutes (the reals, binary64, ...): these are the only two laws the tie needs — the
   first because the source writes `1 / averagePrecision` with an int literal, the second so that a source that swaps
   the operands of a floating-point product is still recognised as the same function. *)

(* OnlineAverage, member by member: constructors (incl. multiplier_ = static_cast<int>(1 / averagePrecision)),
   setWindowSize, reset, isAvailable, getAverage preserve / read the relation to the model state *)
Theorem C16_source_tie_average_members : forall (T : Type) (N : NumOps T), nofZ N 1 = n_one N ->
  (forall prec W, avg_rel N (src_avg_ctor2 N prec (Z.of_nat W)) (o_init W) /\
                  avg_multiplier_ (src_avg_ctor2 N prec (Z.of_nat W)) = o_multiplier N prec) /\
  (forall prec W, src_avg_setWindowSize (src_avg_ctor1 N prec) W = src_avg_ctor2 N prec W) /\
  (forall c m, avg_rel N c m -> avg_rel N (src_avg_reset c) (o_reset m) /\ avg_multiplier_ (src_avg_reset c) = avg_multiplier_ c) /\
  (forall c m, avg_rel N c m -> src_avg_isAvailable c = o_available m) /\
  (forall c m, avg_rel N c m -> src_avg_getAverage c = o_average N (avg_multiplier_ c) m).
Proof. exact avg_members_tie. Qed.

(* OnlineAverage::update(value) = the model's update with the truncated sample, as long as the size_t index and the
   long long sums stay inside their types *)
Theorem C16_source_tie_average_update : forall (T : Type) (N : NumOps T), (forall a b : T, nmul N a b = nmul N b a) ->
  forall c m (v : T), avg_rel N c m ->
  let x := o_trunc N (avg_multiplier_ c) v in
  (0 < o_W m)%nat -> (Z.of_nat (o_W m) < two64)%Z -> (o_index m < o_W m)%nat ->
  in_s64 (o_sum m + x) -> in_s64 (o_sum (o_update m x)) ->
  avg_rel N (src_avg_update N c v) (o_update m x) /\ avg_multiplier_ (src_avg_update N c v) = avg_multiplier_ c.
Proof. exact @tie_avg_update. Qed.

(* OnlineVariance, member by member (constructor incl. squaredMultiplier_ computed in long long, reset, the inherited
   isAvailable / getAverage, getVariance) *)
Theorem C16_source_tie_variance_members : forall (T : Type) (N : NumOps T), nofZ N 1 = n_one N ->
  (forall prec W, in_s32 (o_multiplier N prec) ->
                  var_rel N (src_var_ctor2 N prec (Z.of_nat W)) (o_init W) /\
                  var_multiplier_ (src_var_ctor2 N prec (Z.of_nat W)) = o_multiplier N prec) /\
  (forall prec W, src_var_setWindowSize (src_var_ctor1 N prec) W = src_var_ctor2 N prec W) /\
  (forall c m, var_rel N c m -> var_rel N (src_var_reset c) (o_reset m) /\ var_multiplier_ (src_var_reset c) = var_multiplier_ c) /\
  (forall c m, var_rel N c m -> src_var_isAvailable c = o_available m) /\
  (forall c m, var_rel N c m -> src_var_getAverage c = o_average N (var_multiplier_ c) m) /\
  (forall c m, var_rel N c m -> src_var_getVariance c = o_variance N (var_multiplier_ c) m).
Proof. exact var_members_tie. Qed.

Theorem C16_source_tie_variance_update : forall (T : Type) (N : NumOps T), (forall a b : T, nmul N a b = nmul N b a) ->
  forall c m (v : T), var_rel N c m ->
  let x := o_trunc N (var_multiplier_ c) v in
  (0 < o_W m)%nat -> (Z.of_nat (o_W m) < two64)%Z -> (o_index m < o_W m)%nat -> length (o_sq m) = length (o_data m) ->
  in_s64 (x * x) -> in_s64 (o_sum m + x) -> in_s64 (o_sumsq m + x * x) ->
  in_s64 (o_sum (o_update m x)) -> in_s64 (o_sumsq (o_update m x)) ->
  var_rel N (src_var_update N c v) (o_update m x) /\ var_multiplier_ (src_var_update N c v) = var_multiplier_ c.
Proof. exact @tie_var_update. Qed.

(* RingOfEigenVector, member by member, for every object (size_t arithmetic with both wraps of operator[]) *)
Theorem C16_source_tie_ring_members : forall (A : Type),
  (forall cap, ring_abs (A:=A) (src_ring_ctor (Z.of_nat cap)) = r_init cap) /\
  (forall (c : @ring_state A) x, (0 <= ring_ringSize_ c)%Z ->
     ring_abs (src_ring_append c x) = r_append (ring_abs c) x /\ ring_ringSize_ (src_ring_append c x) = ring_ringSize_ c) /\
  (forall (c : @ring_state A) n, src_ring_get c (Z.of_nat n) = r_get (ring_abs c) n) /\
  (forall (c : @ring_state A), ring_abs (src_ring_clear c) = r_clear (ring_abs c)) /\
  (forall (c : @ring_state A), src_ring_size c = Z.of_nat (r_size (ring_abs c))).
Proof. exact ring_members_tie. Qed.

(* The property, about the OnlineAverage code as written: for every window 1..64, every precision and every history of
   update/reset whose truncated samples are bounded by 1e8 (so that nothing overflows — proved along the way), the
   stored window is the last min(n,W) truncated samples since the last reset, sumOfData_ is exactly their sum,
   isAvailable() iff W samples since the last reset, and getAverage() is that sum divided by multiplier * count (NaN
   before the first sample) *)
Theorem C16_source_tie_average_history : forall (T : Type) (N : NumOps T), nofZ N 1 = n_one N ->
  (forall a b : T, nmul N a b = nmul N b a) ->
  forall prec W (ops : list (oop T)), (0 < W)%nat -> (W <= 64)%nat ->
  let mult := o_multiplier N prec in
  ops_bounded N mult ops ->
  let c := fold_left (src_avg_step N) ops (src_avg_ctor2 N prec (Z.of_nat W)) in
  let xs := since_reset (map (trunc_op N mult) ops) [] in
  ring_logical W (avg_data_ c) (Z.to_nat (avg_index_ c)) = lastn W xs /\
  vec_size (avg_data_ c) = Z.of_nat (Nat.min W (length xs)) /\
  avg_sumOfData_ c = zsum (lastn W xs) /\
  (src_avg_isAvailable c = true <-> (W <= length xs)%nat) /\
  src_avg_getAverage c =
    match lastn W xs with
    | [] => None
    | _ => Some (ndiv N (nofZ N (zsum (lastn W xs))) (nmul N (nofZ N mult) (nofZ N (Z.of_nat (Nat.min W (length xs))))))
    end.
Proof. exact @avg_code_window. Qed.

(* the same for the OnlineVariance code; getAverage / getVariance are the model's outputs on the model state reached by
   the same (truncated) history, and the stored samples are the model's *)
Theorem C16_source_tie_variance_history : forall (T : Type) (N : NumOps T), nofZ N 1 = n_one N ->
  (forall a b : T, nmul N a b = nmul N b a) ->
  forall prec W (ops : list (oop T)), (0 < W)%nat -> (W <= 64)%nat ->
  let mult := o_multiplier N prec in
  in_s32 mult -> ops_bounded N mult ops ->
  let c := fold_left (src_var_step N) ops (src_var_ctor2 N prec (Z.of_nat W)) in
  let s := fold_left i_step (map (trunc_op N mult) ops) (o_init W) in
  let xs := since_reset (map (trunc_op N mult) ops) [] in
  ring_logical W (var_data_ c) (Z.to_nat (var_index_ c)) = lastn W xs /\
  ring_logical W (var_squaredData_ c) (Z.to_nat (var_index_ c)) = map (fun x => (x * x)%Z) (lastn W xs) /\
  var_sumOfData_ c = zsum (lastn W xs) /\
  var_sumOfSquaredData_ c = zsum (map (fun x => (x * x)%Z) (lastn W xs)) /\
  (src_var_isAvailable c = true <-> (W <= length xs)%nat) /\
  src_var_getAverage c = o_average N mult s /\ src_var_getVariance c = o_variance N mult s /\
  var_data_ c = o_data s.
Proof. exact @var_code_window. Qed.

(* no partial C++ operation is used outside its domain (`% windowSize_` with windowSize_ = W > 0, `data_[index_]` only
   with index_ < data_.size()), after any history: the totalising conventions of StatsSem.v are never exercised *)
Theorem C16_source_tie_accesses_defined : forall (T : Type) (N : NumOps T), nofZ N 1 = n_one N ->
  (forall a b : T, nmul N a b = nmul N b a) ->
  forall prec W (ops : list (oop T)), (0 < W)%nat -> (W <= 64)%nat ->
  let mult := o_multiplier N prec in
  ops_bounded N mult ops ->
  let c := fold_left (src_avg_step N) ops (src_avg_ctor2 N prec (Z.of_nat W)) in
  (avg_windowSize_ c = Z.of_nat W /\ 0 <= avg_index_ c < Z.of_nat W /\
   vec_size (avg_data_ c) <= Z.of_nat W /\
   (vec_size (avg_data_ c) = avg_windowSize_ c -> avg_index_ c < vec_size (avg_data_ c)))%Z.
Proof. exact @avg_code_defined. Qed.

Theorem C16_source_tie_variance_accesses_defined : forall (T : Type) (N : NumOps T), nofZ N 1 = n_one N ->
  (forall a b : T, nmul N a b = nmul N b a) ->
  forall prec W (ops : list (oop T)), (0 < W)%nat -> (W <= 64)%nat ->
  let mult := o_multiplier N prec in
  in_s32 mult -> ops_bounded N mult ops ->
  let c := fold_left (src_var_step N) ops (src_var_ctor2 N prec (Z.of_nat W)) in
  (var_windowSize_ c = Z.of_nat W /\ 0 <= var_index_ c < Z.of_nat W /\
   vec_size (var_squaredData_ c) = vec_size (var_data_ c) /\ vec_size (var_data_ c) <= Z.of_nat W /\
   (vec_size (var_data_ c) = var_windowSize_ c -> var_index_ c < vec_size (var_data_ c)))%Z.
Proof. exact @var_code_defined. Qed.

(* over the reals: the code's getAverage() is the mean of the last min(n,W) truncated samples ... *)
Theorem C16_source_tie_average_is_mean : forall prec W (ops : list (oop R)), (0 < W)%nat -> (W <= 64)%nat ->
  let mult := o_multiplier ROps prec in
  (0 < mult)%Z -> ops_bounded ROps mult ops ->
  let c := fold_left (src_avg_step ROps) ops (src_avg_ctor2 ROps prec (Z.of_nat W)) in
  let L := lastn W (since_reset (map (trunc_op ROps mult) ops) []) in
  L <> [] ->
  src_avg_getAverage c = Some (rsum (map (fun z => IZR z / IZR mult) L) / INR (length L))%R.
Proof. exact avg_code_real. Qed.

(* ... and its getVariance() the unbiased sample variance of the last W truncated samples once the window is full *)
Theorem C16_source_tie_variance_is_unbiased : forall prec W (ops : list (oop R)), (2 <= W)%nat -> (W <= 64)%nat ->
  let mult := o_multiplier ROps prec in
  (0 < mult)%Z -> in_s32 mult -> ops_bounded ROps mult ops ->
  let c := fold_left (src_var_step ROps) ops (src_var_ctor2 ROps prec (Z.of_nat W)) in
  let xs := since_reset (map (trunc_op ROps mult) ops) [] in
  (W <= length xs)%nat ->
  let ys := map (fun z => IZR z / IZR mult)%R (lastn W xs) in
  let mean := (rsum ys / INR (length ys))%R in
  src_var_getVariance c = Some (rsum (map (fun y => (y - mean) * (y - mean))%R ys) / (INR (length ys) - 1))%R.
Proof. exact var_code_real. Qed.

(* the ring-buffer statement about the RingOfEigenVector code as written: every capacity, every history of
   append / clear: size() = min(n, capacity) and operator[](k) is the k-th most recent item *)
Theorem C16_source_tie_ring_history : forall (A : Type) cap (h : list (rop A)) k,
  (0 < cap)%nat -> (2 * Z.of_nat cap <= two64)%Z ->
  let c := fold_left src_ring_step h (src_ring_ctor (Z.of_nat cap)) in
  let xs := since_clear h [] in
  src_ring_size c = Z.of_nat (Nat.min cap (length xs)) /\
  ((Z.of_nat k < src_ring_size c)%Z -> src_ring_get c (Z.of_nat k) = nth_error (rev xs) k).
Proof. exact @ring_code_kth. Qed.

(* ==== FLOATING POINT (IEEE-754 binary64, Flocq; coq/OnlineStatsFloat.v) ====
   B64Ops (GridMapFloat.v) rounds to nearest-even after every + - * / and every integer->double conversion; rnd64 is that
   rounding, u64 = 2^-53 the unit roundoff, eta64 = 2^-1075. *)

(* multiplier_ = static_cast<int>(1 / averagePrecision) for a precision in [1e-6, 1] (lower bound 2/2000001, so that
   the double nearest to 1e-6 — slightly below 10^-6 — is covered) *)
Theorem C16_average_binary64_multiplier : forall p : R, (2 / 2000001 <= p <= 1)%R ->
  (1 <= o_multiplier B64Ops p <= 1000000)%Z.
Proof. exact multiplier_b64. Qed.

(* the truncated sample static_cast<long long>(value * multiplier_): bounded by 1e8 when |value * multiplier| is, and
   within one unit plus one rounding of the product *)
Theorem C16_average_binary64_truncated_sample : forall (m : Z) (v : R), (Z.abs m < 2 ^ 53)%Z ->
  ((Rabs (v * IZR m) <= 100000000)%R -> (Z.abs (o_trunc B64Ops m v) <= 100000000)%Z) /\
  (Rabs (IZR (o_trunc B64Ops m v) - v * IZR m) < 1 + u64 * Rabs (v * IZR m) + eta64)%R.
Proof. exact trunc_b64_both. Qed.

(* (a) exact conversions: after every history |sumOfData_| < 2^53 and double(sumOfData_), double(multiplier_),
   double(data_.size()) and double(multiplier_) * data_.size() are computed without any rounding *)
Theorem C16_average_binary64_conversions_exact : forall W h (m : Z), (0 < W)%nat -> (W <= 64)%nat -> (0 < m <= 1000000)%Z ->
  Forall (fun x => (Z.abs x <= 100000000)%Z) (since_reset h []) ->
  let s := fold_left i_step h (o_init W) in
  let n := Z.of_nat (length (o_data s)) in
  (Z.abs (o_sum s) < 2 ^ 53)%Z /\
  nofZ B64Ops (o_sum s) = IZR (o_sum s) /\ nofZ B64Ops m = IZR m /\ nofZ B64Ops n = IZR n /\
  nmul B64Ops (nofZ B64Ops m) (nofZ B64Ops n) = IZR (m * n).
Proof. exact conversions_exact_b64. Qed.

(* NO DRIFT, in binary64: for every window 1..64, every multiplier 1..10^6 and every history of updates and resets with
   truncated samples bounded by 1e8, sumOfData_, multiplier_, data_.size() and multiplier_ * data_.size() convert /
   multiply exactly, so the reported average is the exact mean of the last min(n,W) truncated samples since the last
   reset rounded ONCE: relative error <= 2^-53, independent of the length of the history *)
Theorem C16_average_binary64_no_drift : forall W h (m : Z), (0 < W)%nat -> (W <= 64)%nat -> (0 < m <= 1000000)%Z ->
  Forall (fun x => (Z.abs x <= 100000000)%Z) (since_reset h []) ->
  let s := fold_left i_step h (o_init W) in
  let L := lastn W (since_reset h []) in
  L <> [] ->
  o_average B64Ops m s = Some (rnd64 (zmean m L)) /\
  (Rabs (rnd64 (zmean m L) - zmean m L) <= u64 * Rabs (zmean m L))%R.
Proof. exact average_b64_history. Qed.

(* the same about the OnlineAverage code as written (gen/SrcStats.v run at the binary64 dictionary), with hypotheses on
   the inputs only: precision in [1e-6, 1], window 1..64, |value * multiplier| <= 1e8 for every value fed *)
Theorem C16_source_average_binary64_code : forall (p : R) W (ops : list (oop R)), (0 < W)%nat -> (W <= 64)%nat ->
  (2 / 2000001 <= p <= 1)%R ->
  let mult := o_multiplier B64Ops p in
  values_bounded mult ops ->
  let c := fold_left (src_avg_step B64Ops) ops (src_avg_ctor2 B64Ops p (Z.of_nat W)) in
  let L := lastn W (since_reset (map (trunc_op B64Ops mult) ops) []) in
  (1 <= mult <= 1000000)%Z /\
  (L = [] -> src_avg_getAverage c = None) /\
  (L <> [] -> src_avg_getAverage c = Some (rnd64 (zmean mult L)) /\
              (Rabs (rnd64 (zmean mult L) - zmean mult L) <= u64 * Rabs (zmean mult L))%R).
Proof. exact average_b64_code. Qed.

(* the variance in binary64 (seven roundings): once the window (2 <= W <= 64) is full the reported variance is within
   2^-53 (7 A + 9 B)/(W-1) + 3*2^-1075 of the exact unbiased sample variance zvar of the last W truncated samples, with
   A = sum y_i^2 (zsqsum) and B = W mean^2 — for every history, independent of its length.  (A and B, not the variance
   itself, scale the error: the textbook cancellation of the sum-of-squares formula; the oracle allows the same shape.) *)
Theorem C16_average_binary64_variance_error : forall W h (m : Z), (2 <= W)%nat -> (W <= 64)%nat -> (0 < m <= 1000000)%Z ->
  Forall (fun x => (Z.abs x <= 100000000)%Z) (since_reset h []) ->
  (W <= length (since_reset h []))%nat ->
  let s := fold_left i_step h (o_init W) in
  let L := lastn W (since_reset h []) in
  exists v, o_variance B64Ops m s = Some v /\
    (Rabs (v - zvar m L) <= u64 * (7 * zsqsum m L + 9 * (INR W * zmean m L * zmean m L)) / (INR W - 1) + 3 * eta64)%R.
Proof. exact variance_b64_history. Qed.

(* and about the OnlineVariance code as written, hypotheses on the inputs only *)
Theorem C16_source_average_binary64_variance_code : forall (p : R) W (ops : list (oop R)), (2 <= W)%nat -> (W <= 64)%nat ->
  (2 / 2000001 <= p <= 1)%R ->
  let mult := o_multiplier B64Ops p in
  values_bounded mult ops ->
  let c := fold_left (src_var_step B64Ops) ops (src_var_ctor2 B64Ops p (Z.of_nat W)) in
  let xs := since_reset (map (trunc_op B64Ops mult) ops) [] in
  let L := lastn W xs in
  (W <= length xs)%nat ->
  exists v, src_var_getVariance c = Some v /\
    (Rabs (v - zvar mult L) <= u64 * (7 * zsqsum mult L + 9 * (INR W * zmean mult L * zmean mult L)) / (INR W - 1) + 3 * eta64)%R.
Proof. exact variance_b64_code. Qed.

(* Print Assumptions, grouped (one traversal per group instead of one per theorem: the source-tie theorems that do not
   mention the reals are closed under the global context; the others depend on the standard assumptions of the real numbers only) *)
Definition C16_source_tie_closed_group := (@C16_source_tie_average_members,
  @C16_source_tie_average_update,
  @C16_source_tie_variance_members,
  @C16_source_tie_variance_update,
  @C16_source_tie_ring_members,
  @C16_source_tie_average_history,
  @C16_source_tie_variance_history,
  @C16_source_tie_accesses_defined,
  @C16_source_tie_variance_accesses_defined,
  @C16_source_tie_ring_history).
Print Assumptions C16_source_tie_closed_group.
Definition C16_real_and_binary64_group := (@C16_source_tie_average_is_mean,
  @C16_source_tie_variance_is_unbiased,
  @C16_average_binary64_multiplier,
  @C16_average_binary64_truncated_sample,
  @C16_average_binary64_conversions_exact,
  @C16_average_binary64_no_drift,
  @C16_source_average_binary64_code,
  @C16_average_binary64_variance_error,
  @C16_source_average_binary64_variance_code).
Print Assumptions C16_real_and_binary64_group.

(* ---- the defects that were repaired (models of the code before the fix:, kept as documentation) ---- *)
(* reset() kept index_: W = 3, history 100, reset, 1, 2, 3, 10 -> window {1,3,10}, not {2,3,10} *)
Theorem C16_reset_keeps_index_refuted :
  exists W h, let s := fold_left (fun s o => match o with IUpdate x => o_update s x | IReset => o_reset_legacy s end)
                                 h (o_init W) in
              o_sum s <> zsum (lastn W (since_reset h [])).
Proof. exists 3, [IUpdate 100; IReset; IUpdate 1; IUpdate 2; IUpdate 3; IUpdate 10]%Z. vm_compute. discriminate. Qed.

(* (ringIndex_ - n) % size with capacity 3 after 1,2,3,4: entry 1 reads 4 instead of 3 *)
Theorem C16_ring_index_non_pow2_refuted :
  exists cap (h : list (rop Z)) k,
    let s := fold_left r_step h (r_init cap) in
    (k < r_size s)%nat /\ r_get_legacy s k <> nth_error (rev (since_clear h [])) k.
Proof. exists 3, [RAppend 1; RAppend 2; RAppend 3; RAppend 4]%Z, 1. vm_compute. split; [lia|discriminate]. Qed.

(* clear() kept ringIndex_ *)
Theorem C16_ring_clear_refuted :
  exists cap (h : list (rop Z)) k,
    let s := fold_left (fun s o => match o with RAppend x => r_append s x | RClear => r_clear_legacy s end) h (r_init cap) in
    (k < r_size s)%nat /\ r_get s k <> nth_error (rev (since_clear h [])) k.
Proof. exists 4, [RAppend 1; RAppend 2; RClear; RAppend 3; RAppend 4; RAppend 5]%Z, 0. vm_compute. split; [lia|discriminate]. Qed.

(* int squaredMultiplier_ for precision 1e-6: 10^12 does not fit 32 bits *)
Theorem C16_squared_scale_overflow_refuted : wrap32 (1000000 * 1000000) <> (1000000 * 1000000)%Z.
Proof. vm_compute. discriminate. Qed.

(* ---- non-vacuity ---- *)
Example C16_ex_window :
  let s := fold_left i_step [IUpdate 100; IReset; IUpdate 1; IUpdate 2; IUpdate 3; IUpdate 10]%Z (o_init 3) in
  o_window s = [2; 3; 10]%Z /\ o_sum s = 15%Z /\ o_available s = true.
Proof. vm_compute. repeat split; reflexivity. Qed.
Example C16_ex_ring :
  let s := fold_left r_step [RAppend 1; RAppend 2; RAppend 3; RAppend 4]%Z (r_init 3) in
  map (r_get s) [0; 1; 2] = [Some 4; Some 3; Some 2]%Z.
Proof. vm_compute. reflexivity. Qed.

(* the generated code, run: W = 3, precision 1, history 100, reset, 1, 2, 3, 10 (the old reset() defect's witness) *)
Example C16_ex_source_run :
  let c := fold_left (src_avg_step ROps) [OUpdate 100; OReset; OUpdate 1; OUpdate 2; OUpdate 3; OUpdate 10]%R
                     (src_avg_ctor2 ROps 1%R 3%Z) in
  avg_index_ c = 1%Z /\ avg_windowSize_ c = 3%Z.
Proof. cbn. split; reflexivity. Qed.
Example C16_ex_source_ring :
  let c := fold_left src_ring_step [RAppend 1; RAppend 2; RAppend 3; RAppend 4]%Z (src_ring_ctor 3%Z) in
  map (fun k => src_ring_get c k) [0; 1; 2]%Z = [Some 4; Some 3; Some 2]%Z.
Proof. vm_compute. reflexivity. Qed.

(* the hypotheses of the binary64 theorems are satisfiable: precision 1, window 2, samples 3 and 4 *)
Example C16_ex_binary64 :
  let mult := o_multiplier B64Ops 1%R in
  (2 / 2000001 <= 1 <= 1)%R /\ values_bounded mult [OUpdate 3%R; OUpdate 4%R].
Proof.
  cbv zeta. assert (H : (2 / 2000001 <= 1 <= 1)%R) by lra. split; [exact H|].
  pose proof (multiplier_b64 1%R H) as [L U]. apply IZR_le in L, U.
  repeat constructor; rewrite Rabs_pos_eq; nra.
Qed.
