(* Properties_C16.v — C16: sliding-window statistics and ring buffers reflect exactly the last W items. *)
From Coq Require Import ZArith List Bool Arith Reals Lia.
From Romea Require Import Num NumR OnlineStatsModel OnlineStatsProofs.
Import ListNotations.

(* For every window size W >= 1 and every history of updates/resets (samples already truncated to the
   precision): the stored window is the last min(n,W) samples since the last reset, in order; the sums are
   exactly the sums over that window (no drift); availability iff W samples since the last reset. *)
Theorem C16_window_is_last_W : forall W h, 0 < W ->
  let s := fold_left i_step h (o_init W) in
  let xs := since_reset h [] in
  o_window s = lastn W xs /\
  length (o_data s) = Nat.min W (length xs) /\
  o_sum s = zsum (lastn W xs) /\
  o_sumsq s = zsum (map (fun x => (x * x)%Z) (lastn W xs)) /\
  (o_available s = true <-> W <= length xs).
Proof. exact window_is_last_W. Qed.
Print Assumptions C16_window_is_last_W.

(* under the property's bounds (|value|/precision <= 1e8, W <= 64) the exact sums fit in 64-bit signed
   integers, so the unbounded-Z model and the long long arithmetic of the code coincide *)
Theorem C16_sums_fit_64_bits : forall W h B, 0 < W -> (W <= 64)%nat -> (0 <= B <= 100000000)%Z ->
  Forall (fun x => (Z.abs x <= B)%Z) (since_reset h []) ->
  let s := fold_left i_step h (o_init W) in
  (Z.abs (o_sum s) < 2 ^ 63)%Z /\ (Z.abs (o_sumsq s) < 2 ^ 63)%Z.
Proof. exact sums_bounded. Qed.
Print Assumptions C16_sums_fit_64_bits.

(* real-number reading of the reported average: the mean of the stored samples x_i / multiplier *)
Theorem C16_average_formula : forall (m : Z) s x xs', (0 < m)%Z -> o_data s = x :: xs' ->
  o_sum s = zsum (o_data s) ->
  o_average ROps m s = Some (rsum (map (fun z => IZR z / IZR m) (o_data s)) / INR (length (o_data s)))%R.
Proof. exact average_formula. Qed.
Print Assumptions C16_average_formula.

(* with a full window (n = W >= 2) the reported variance is the unbiased sample variance *)
Theorem C16_variance_is_unbiased_sample_variance : forall (m : Z) s x xs', (0 < m)%Z -> o_data s = x :: xs' ->
  length (o_data s) = o_W s -> (2 <= o_W s)%nat ->
  o_sum s = zsum (o_data s) -> o_sumsq s = zsum (map (fun z => (z * z)%Z) (o_data s)) ->
  let ys := map (fun z => IZR z / IZR m)%R (o_data s) in
  let mean := (rsum ys / INR (length ys))%R in
  o_variance ROps m s = Some (rsum (map (fun y => (y - mean) * (y - mean))%R ys) / (INR (length ys) - 1))%R.
Proof. exact variance_formula. Qed.
Print Assumptions C16_variance_is_unbiased_sample_variance.

(* ring buffer, size_t index arithmetic with its 2^64 wrap: for every capacity >= 1 (power of two or not)
   and every history of appends and clears, size = min(n, capacity) and entry k is the k-th most recent *)
Theorem C16_ring_kth_most_recent : forall (A : Type) cap (h : list (rop A)) k,
  (0 < cap)%nat -> (2 * Z.of_nat cap <= two64)%Z ->
  let s := fold_left r_step h (r_init cap) in
  let xs := since_clear h [] in
  r_size s = Nat.min cap (length xs) /\
  ((k < r_size s)%nat -> r_get s k = nth_error (rev xs) k).
Proof. exact @ring_kth. Qed.
Print Assumptions C16_ring_kth_most_recent.

(* ---- the defects that were repaired (models of the code before the fix:, kept as documentation) ---- *)
(* reset() kept index_: W = 3, history 100, reset, 1, 2, 3, 10 -> window {1,3,10}, not {2,3,10} *)
Theorem C16_reset_keeps_index_refuted :
  exists W h, let s := fold_left (fun s o => match o with IUpdate x => o_update s x | IReset => o_reset_legacy s end)
                                 h (o_init W) in
              o_sum s <> zsum (lastn W (since_reset h [])).
Proof. exists 3, [IUpdate 100; IReset; IUpdate 1; IUpdate 2; IUpdate 3; IUpdate 10]%Z. vm_compute. discriminate. Qed.

(* (ringIndex_ - n) % size with capacity 3 after 1,2,3,4: entry 1 reads 4 instead of 3 *)
Theorem C16_ring_index_non_pow2_refuted :
  exists cap (h : list (rop Z)) k,
    let s := fold_left r_step h (r_init cap) in
    (k < r_size s)%nat /\ r_get_legacy s k <> nth_error (rev (since_clear h [])) k.
Proof. exists 3, [RAppend 1; RAppend 2; RAppend 3; RAppend 4]%Z, 1. vm_compute. split; [lia|discriminate]. Qed.

(* clear() kept ringIndex_ *)
Theorem C16_ring_clear_refuted :
  exists cap (h : list (rop Z)) k,
    let s := fold_left (fun s o => match o with RAppend x => r_append s x | RClear => r_clear_legacy s end) h (r_init cap) in
    (k < r_size s)%nat /\ r_get s k <> nth_error (rev (since_clear h [])) k.
Proof. exists 4, [RAppend 1; RAppend 2; RClear; RAppend 3; RAppend 4; RAppend 5]%Z, 0. vm_compute. split; [lia|discriminate]. Qed.

(* int squaredMultiplier_ for precision 1e-6: 10^12 does not fit 32 bits *)
Theorem C16_squared_scale_overflow_refuted : wrap32 (1000000 * 1000000) <> (1000000 * 1000000)%Z.
Proof. vm_compute. discriminate. Qed.

(* ---- non-vacuity ---- *)
Example C16_ex_window :
  let s := fold_left i_step [IUpdate 100; IReset; IUpdate 1; IUpdate 2; IUpdate 3; IUpdate 10]%Z (o_init 3) in
  o_window s = [2; 3; 10]%Z /\ o_sum s = 15%Z /\ o_available s = true.
Proof. vm_compute. repeat split; reflexivity. Qed.
Example C16_ex_ring :
  let s := fold_left r_step [RAppend 1; RAppend 2; RAppend 3; RAppend 4]%Z (r_init 3) in
  map (r_get s) [0; 1; 2] = [Some 4; Some 3; Some 2]%Z.
Proof. vm_compute. reflexivity. Qed.
