(* RateProofs.v — lemmas about RateModel.v (C17): invariants of the rate monitor and the rate check-ups
   over arbitrary event lists. *)
From Coq Require Import Reals ZArith List Bool Lra Lia.
From Flocq Require Import Core.Raux.
From Romea Require Import Num NumR DiagModel DiagProofs RateModel.
From Romea.gen Require Import RepoConstants.
Import ListNotations.
Local Open Scope Z_scope.

(* ------------------------------------------------------------------ history vocabulary *)
(* the data stamps of an event list, in order of arrival *)
Fixpoint data_stamps (evs : list event) : list Z :=
  match evs with
  | [] => []
  | Data d :: r => d :: data_stamps r
  | Heartbeat _ :: r => data_stamps r
  end.

(* inter-stamp periods of a chronological stamp list, the first one measured from [prev] (0 = Duration::zero()) *)
Fixpoint diffs (prev : Z) (ds : list Z) : list Z :=
  match ds with [] => [] | d :: r => (d - prev) :: diffs d r end.

Definition lastn {A} (n : nat) (l : list A) : list A := skipn (length l - n) l.
Definition zsum (l : list Z) : Z := fold_right Z.add 0 l.

(* strictly increasing stamps *)
Definition increasing (ds : list Z) : Prop :=
  forall i j, (i < j < length ds)%nat -> nth i ds 0 < nth j ds 0.

Lemma last_cons {A} (l : list A) : forall a p, last (a :: l) p = last l a.
Proof.
  induction l as [|b l IH]; intros a p; [reflexivity|].
  change (last (a :: b :: l) p) with (last (b :: l) p). rewrite !IH. reflexivity.
Qed.

Lemma last_nth (l : list Z) p : l <> [] -> last l p = nth (length l - 1) l 0.
Proof.
  induction l as [|a l IH] in p |- *; [congruence|intros _].
  rewrite last_cons. destruct l as [|b l]; [reflexivity|].
  rewrite IH by congruence. cbn [length]. replace (S (S (length l)) - 1)%nat with (S (length l)) by lia.
  cbn [nth]. replace (S (length l) - 1)%nat with (length l) by lia. reflexivity.
Qed.

Lemma diffs_length p l : length (diffs p l) = length l.
Proof. revert p; induction l; intros; simpl; auto. Qed.

Lemma diffs_app l : forall p d, diffs p (l ++ [d]) = diffs p l ++ [d - last l p].
Proof.
  induction l as [|a l IH]; intros p d; [reflexivity|].
  cbn [app diffs]. rewrite IH, last_cons. reflexivity.
Qed.

Lemma zsum_app l1 l2 : zsum (l1 ++ l2) = zsum l1 + zsum l2.
Proof. induction l1; simpl; lia. Qed.

Lemma zsum_diffs l : forall p, zsum (diffs p l) = last l p - p.
Proof.
  induction l as [|a l IH]; intros p; [simpl; lia|].
  cbn [diffs zsum fold_right]. fold (zsum (diffs a l)). rewrite IH, last_cons. lia.
Qed.

Lemma firstn_diffs n : forall p l, firstn n (diffs p l) = diffs p (firstn n l).
Proof. induction n; intros p [|a l]; simpl; f_equal; auto. Qed.

Lemma last_firstn (l : list Z) : forall n p, (1 <= n <= length l)%nat -> last (firstn n l) p = nth (n - 1) l p.
Proof.
  induction l as [|a l IH]; intros n p H; simpl in H; [lia|].
  destruct n as [|n]; [lia|]. cbn [firstn]. rewrite last_cons.
  destruct n as [|n]; [reflexivity|].
  rewrite IH by lia. replace (S (S n) - 1)%nat with (S n) by lia. cbn [nth].
  replace (S n - 1)%nat with n by lia. apply nth_indep. lia.
Qed.

Lemma zsum_skipn n l : zsum (skipn n l) = zsum l - zsum (firstn n l).
Proof. rewrite <- (firstn_skipn n l) at 2. rewrite zsum_app. lia. Qed.

Lemma tl_skipn {A} n : forall l : list A, tl (skipn n l) = skipn (S n) l.
Proof. induction n; intros [|a l]; simpl; auto. apply IHn. Qed.

Lemma zsum_hd_tl l : zsum l = hd 0 l + zsum (tl l).
Proof. destruct l; simpl; lia. Qed.

(* the sum of the last W periods is the time spanned by them *)
Lemma window_sum ds (W : nat) : (W < length ds)%nat ->
  zsum (lastn W (diffs 0 ds)) = last ds 0 - nth (length ds - W - 1) ds 0.
Proof.
  intros H. unfold lastn. rewrite diffs_length, zsum_skipn, zsum_diffs, firstn_diffs, zsum_diffs.
  rewrite last_firstn by lia. replace (length ds - W - 1)%nat with (length ds - W - 1)%nat by lia. lia.
Qed.

Lemma data_stamps_app a b : data_stamps (a ++ b) = data_stamps a ++ data_stamps b.
Proof. induction a as [|[d|t] a IH]; simpl; rewrite ?IH; reflexivity. Qed.

(* ------------------------------------------------------------------ the monitor, any numeric instance *)
Section Inv.
Context {T : Type} (N : NumOps T).

(* the model's own test "silence > 0.5 s" on an integer number of nanoseconds *)
Definition late (dt : Z) : bool :=
  nltb N (nofDec N rate_timeout_s_m rate_timeout_s_e) (duration_to_second N dt).

(* summary of a history: the data stamps so far, and whether a heartbeat has found the source silent
   (a stamp had been seen and the silence exceeded 0.5 s) since the last data stamp *)
Definition hstep (h : list Z * bool) (e : event) : list Z * bool :=
  match e with
  | Data d => (fst h ++ [d], false)
  | Heartbeat t => (fst h, snd h || (negb (is_nil (fst h)) && late (t - last (fst h) 0)))
  end.

Definition hist (evs : list event) : list Z * bool := fold_left hstep evs ([], false).

(* the rate the property prescribes: 0 while stale or until W+1 stamps, then 1e9 / (span / W) *)
Definition spec_rate (W : Z) (ds : list Z) (stale : bool) : T :=
  if stale then nzero N
  else if Z.of_nat (length ds) <=? W then nzero N
  else rate_of_sum N (last ds 0 - nth (length ds - Z.to_nat W - 1) ds 0) W.

Definition Inv (W : Z) (h : list Z * bool) (s : rmon) : Prop :=
  rm_window s = W /\ rm_last s = last (fst h) 0 /\
  rm_periods s = lastn (Nat.min (length (fst h)) (Z.to_nat W)) (diffs 0 (fst h)) /\
  rm_sum s = zsum (rm_periods s) /\
  rm_rate s = spec_rate W (fst h) (snd h).

Lemma lastn_length {A} n (l : list A) : (n <= length l)%nat -> length (lastn n l) = n.
Proof. intros H. unfold lastn. rewrite skipn_length. lia. Qed.

Lemma is_nil_length {A} (l : list A) : is_nil l = true <-> length l = 0%nat.
Proof. destruct l; simpl; split; intros; try discriminate; auto. Qed.

Lemma fst_hist_step h e : fst (hstep h e) = match e with Data d => fst h ++ [d] | Heartbeat _ => fst h end.
Proof. destruct e; reflexivity. Qed.

Lemma Inv_periods_nil W h s : 1 <= W -> Inv W h s -> is_nil (rm_periods s) = is_nil (fst h).
Proof.
  intros HW (_ & _ & Hp & _). rewrite Hp.
  apply eq_true_iff_eq. rewrite !is_nil_length, lastn_length by (rewrite diffs_length; lia). lia.
Qed.

Lemma Inv_step W h s e : 1 <= W -> Inv W h s -> Inv W (hstep h e) (rm_step N s e).
Proof.
  intros HW HI. pose proof (Inv_periods_nil W h s HW HI) as Hnil.
  destruct HI as (Hw & Hl & Hp & Hs & Hr).
  destruct h as [ds stale]; cbn [fst snd] in *.
  set (k := length ds) in *. set (Wn := Z.to_nat W) in *.
  assert (HWn : Z.of_nat Wn = W) by (unfold Wn; lia).
  destruct e as [d|t].
  - (* data stamp *)
    cbn [rm_step hstep fst snd]. unfold rm_update. rewrite Hw, Hl.
    set (p := d - last ds 0).
    assert (Hq : length (rm_periods s ++ [p]) = (Nat.min k Wn + 1)%nat).
    { rewrite app_length, Hp, lastn_length by (rewrite diffs_length; fold k; lia). reflexivity. }
    assert (HL' : diffs 0 (ds ++ [d]) = diffs 0 ds ++ [p]) by apply diffs_app.
    assert (Hk' : length (ds ++ [d]) = S k) by (rewrite app_length; simpl; fold k; lia).
    destruct (Z.eqb_spec (Z.of_nat (length (rm_periods s ++ [p]))) (W + 1)) as [E|E]; rewrite Hq in E.
    + (* window full: drop the oldest period and publish the rate *)
      assert (Hfull : (Wn <= k)%nat) by lia.
      assert (Hper : tl (rm_periods s ++ [p]) = lastn (Nat.min (S k) Wn) (diffs 0 (ds ++ [d]))).
      { rewrite Hp, HL'. unfold lastn. rewrite app_length, !diffs_length. fold k. simpl length.
        replace (Nat.min k Wn) with Wn by lia. replace (Nat.min (S k) Wn) with Wn by lia.
        rewrite (skipn_app (k + 1 - Wn)), diffs_length. fold k.
        replace (k + 1 - Wn - k)%nat with 0%nat by lia. cbn [skipn].
        replace (k + 1 - Wn)%nat with (S (k - Wn)) by lia. rewrite <- tl_skipn.
        destruct (skipn (k - Wn) (diffs 0 ds)) eqn:Esk.
        - exfalso. assert (length (skipn (k - Wn) (diffs 0 ds)) = Wn) by (rewrite skipn_length, diffs_length; fold k; lia).
          rewrite Esk in H. simpl in H. lia.
        - reflexivity. }
      assert (Hsum : rm_sum s + p - hd 0 (rm_periods s ++ [p]) = zsum (tl (rm_periods s ++ [p]))).
      { pose proof (zsum_hd_tl (rm_periods s ++ [p])) as Z1. rewrite zsum_app in Z1. simpl zsum at 2 in Z1. lia. }
      repeat split; cbn [rm_window rm_last rm_periods rm_sum rm_rate fst snd].
      * rewrite last_last. reflexivity.
      * rewrite Hk'. exact Hper.
      * exact Hsum.
      * unfold spec_rate. rewrite Hk'. destruct (Z.leb_spec (Z.of_nat (S k)) W); [lia|].
        rewrite Hsum, Hper. replace (Nat.min (S k) Wn) with Wn by lia.
        rewrite window_sum by lia. rewrite Hk'. fold Wn. reflexivity.
    + (* window still filling *)
      assert (Hfill : (k < Wn)%nat) by lia.
      repeat split; cbn [rm_window rm_last rm_periods rm_sum rm_rate fst snd].
      * rewrite last_last. reflexivity.
      * rewrite Hk', Hp, HL'. unfold lastn. rewrite app_length, !diffs_length. fold k. simpl length.
        change (Z.to_nat W) with Wn.
        replace (Nat.min k Wn) with k by lia. replace (Nat.min (S k) Wn) with (S k) by lia.
        replace (k - k)%nat with 0%nat by lia. replace (k + 1 - S k)%nat with 0%nat by lia. reflexivity.
      * rewrite zsum_app, Hs. simpl. lia.
      * rewrite Hr. unfold spec_rate. rewrite Hk'. fold k.
        destruct (Z.leb_spec (Z.of_nat (S k)) W); [|lia].
        destruct (Z.leb_spec (Z.of_nat k) W); [|lia]. destruct stale; reflexivity.
  - (* heartbeat *)
    cbn [rm_step hstep fst snd]. unfold rm_timeout. rewrite Hnil, Hl. fold (late (t - last ds 0)).
    destruct (negb (is_nil ds) && late (t - last ds 0)); cbn [fst].
    + repeat split; cbn [rm_window rm_last rm_periods rm_sum rm_rate fst snd]; auto.
      rewrite orb_true_r. reflexivity.
    + rewrite orb_false_r. repeat split; auto.
Qed.

Lemma window_size_range r : rate_min_window <= window_size N r <= rate_max_window.
Proof. unfold window_size, rate_min_window, rate_max_window. lia. Qed.

Lemma Inv_init r : Inv (window_size N r) ([], false) (rm_init N r).
Proof.
  repeat split. unfold spec_rate. cbn [fst snd length rm_rate rm_init].
  pose proof (window_size_range r) as H.
  unfold rate_min_window in H. destruct (Z.leb_spec (Z.of_nat 0) (window_size N r)); [reflexivity|lia].
Qed.

Lemma Inv_run W : 1 <= W -> forall evs h s, Inv W h s -> Inv W (fold_left hstep evs h) (rm_run N s evs).
Proof.
  intros HW evs. induction evs as [|e evs IH]; intros h s HI; [exact HI|].
  cbn [fold_left rm_run]. apply IH. apply Inv_step; assumption.
Qed.

Lemma Inv_history r evs : Inv (window_size N r) (hist evs) (rm_run N (rm_init N r) evs).
Proof.
  apply Inv_run; [|apply Inv_init]. pose proof (window_size_range r). unfold rate_min_window in *. lia.
Qed.

Lemma fst_hist_gen evs : forall h, fst (fold_left hstep evs h) = fst h ++ data_stamps evs.
Proof.
  induction evs as [|[d|t] evs IH]; intros h; cbn [fold_left data_stamps]; rewrite ?IH; cbn [hstep fst].
  - rewrite app_nil_r. reflexivity.
  - rewrite <- app_assoc. reflexivity.
  - reflexivity.
Qed.

Lemma fst_hist evs : fst (hist evs) = data_stamps evs.
Proof. unfold hist. rewrite fst_hist_gen. reflexivity. Qed.

Lemma hist_snoc evs e : hist (evs ++ [e]) = hstep (hist evs) e.
Proof. unfold hist. rewrite fold_left_app. reflexivity. Qed.

(* --- statements about runs of the monitor, for every numeric instance --- *)
Lemma queue_is_last_periods r evs :
  let W := window_size N r in let ds := data_stamps evs in
  let s := rm_run N (rm_init N r) evs in
  rm_periods s = lastn (Nat.min (length ds) (Z.to_nat W)) (diffs 0 ds) /\
  rm_sum s = zsum (rm_periods s) /\ rm_last s = last ds 0 /\ rm_window s = W.
Proof.
  cbv zeta. destruct (Inv_history r evs) as (Hw & Hl & Hp & Hs & _). rewrite fst_hist in *. auto.
Qed.

Lemma sum_is_span r evs :
  let W := window_size N r in let ds := data_stamps evs in
  (Z.to_nat W < length ds)%nat ->
  rm_sum (rm_run N (rm_init N r) evs) = last ds 0 - nth (length ds - Z.to_nat W - 1) ds 0.
Proof.
  cbv zeta. intros H. destruct (queue_is_last_periods r evs) as (Hp & Hs & _).
  rewrite Hs, Hp. replace (Nat.min _ _) with (Z.to_nat (window_size N r)) by lia. apply window_sum. assumption.
Qed.

Lemma rate_follows_history r evs :
  rm_rate (rm_run N (rm_init N r) evs) = spec_rate (window_size N r) (data_stamps evs) (snd (hist evs)).
Proof. destruct (Inv_history r evs) as (_ & _ & _ & _ & Hr). rewrite fst_hist in Hr. exact Hr. Qed.

Lemma rate_zero_until_full r evs :
  Z.of_nat (length (data_stamps evs)) <= window_size N r -> rm_rate (rm_run N (rm_init N r) evs) = nzero N.
Proof.
  intros H. rewrite rate_follows_history. unfold spec_rate.
  destruct (snd (hist evs)); [reflexivity|]. destruct (Z.leb_spec (Z.of_nat (length (data_stamps evs))) (window_size N r)); [reflexivity|lia].
Qed.

(* --- the time-out call on any state --- *)
Lemma timeout_rule_gen (s : rmon) t :
  let '(s', b) := rm_timeout N s t in
  (b = true <-> rm_periods s <> [] /\ late (t - rm_last s) = true) /\
  (b = true -> s' = {| rm_window := rm_window s; rm_last := rm_last s; rm_periods := rm_periods s; rm_sum := rm_sum s; rm_rate := nzero N |}) /\
  (b = false -> s' = s).
Proof.
  unfold rm_timeout. fold (late (t - rm_last s)).
  destruct (rm_periods s) as [|x q] eqn:E; cbn [is_nil negb andb].
  - repeat split; try discriminate; auto. intros [H _]; congruence.
  - destruct (late (t - rm_last s)); repeat split; try discriminate; auto; try congruence.
    intros [_ H]; discriminate.
Qed.

(* ------------------------------------------------------------------ the rate check-ups *)
Definition verdict_report (k : kind) (cmp eps v : T) : @creport T :=
  let c0 := checkup_init cmp eps no_data_diag in
  c_report (fst (match k with KGreater => eval_greater_than N c0 v | _ => eval_equal_to N c0 v end)).

Definition no_data_report : @creport T := {| r_diag := no_data_diag; r_info := None |}.
Definition stale_report : @creport T := {| r_diag := {| d_status := STALE; d_suffix := STimeout |}; r_info := None |}.

(* the report the property prescribes for a history summary [h] and the current rate *)
Definition spec_report (k : kind) (cmp eps : T) (h : list Z * bool) (rate : T) : @creport T :=
  if is_nil (fst h) then no_data_report
  else if snd h then stale_report
  else verdict_report k cmp eps rate.

Definition CInv (k : kind) (cmp eps : T) (W : Z) (h : list Z * bool) (c : crate) : Prop :=
  Inv W h (cr_mon c) /\ c_cmp (cr_chk c) = cmp /\ c_eps (cr_chk c) = eps /\
  c_report (cr_chk c) = spec_report k cmp eps h (rm_rate (cr_mon c)).

Lemma eval_report_indep k (c : checkup) v :
  let r := match k with KGreater => eval_greater_than N c v | _ => eval_equal_to N c v end in
  c_report (fst r) = verdict_report k (c_cmp c) (c_eps c) v /\
  c_cmp (fst r) = c_cmp c /\ c_eps (fst r) = c_eps c /\ snd r = d_status (r_diag (c_report (fst r))).
Proof.
  destruct c as [cmp eps rep]. unfold verdict_report, eval_greater_than, eval_equal_to, set_diag, checkup_init.
  cbn [c_cmp c_eps c_report fst snd].
  destruct k; cbn [fst snd c_report c_cmp c_eps];
    repeat match goal with |- context [if ?b then _ else _] => destruct b end; repeat split.
Qed.

Lemma CInv_step k cmp eps W h c e : 1 <= W -> CInv k cmp eps W h c -> CInv k cmp eps W (hstep h e) (fst (cr_step N k c e)).
Proof.
  intros HW (HI & Hc & He & Hr).
  pose proof (Inv_step W h (cr_mon c) e HW HI) as HI'.
  pose proof (Inv_periods_nil W h (cr_mon c) HW HI) as Hnil.
  destruct e as [d|t].
  - cbn [cr_step]. unfold cr_evaluate.
    pose proof (eval_report_indep k (cr_chk c) (rm_rate (rm_update N (cr_mon c) d))) as Hev. cbv zeta in Hev.
    destruct (match k with KGreater => eval_greater_than N (cr_chk c) (rm_rate (rm_update N (cr_mon c) d))
                         | _ => eval_equal_to N (cr_chk c) (rm_rate (rm_update N (cr_mon c) d)) end) as [ch st] eqn:Eev.
    cbn [fst snd] in Hev. destruct Hev as (R1 & R2 & R3 & _).
    unfold CInv. cbn [fst cr_mon cr_chk]. split; [exact HI'|]. split; [congruence|]. split; [congruence|].
    rewrite R1, Hc, He. unfold spec_report. cbn [hstep fst snd].
    destruct (fst h); reflexivity.
  - cbn [cr_step]. unfold cr_heartbeat. cbn [rm_step] in HI'.
    pose proof (timeout_rule_gen (cr_mon c) t) as Ht.
    destruct (rm_timeout N (cr_mon c) t) as [m b] eqn:Etm. destruct Ht as (Hb & Htrue & Hfalse).
    cbn [fst] in HI'.
    assert (Hflag : negb (is_nil (fst h)) && late (t - last (fst h) 0) = b).
    { destruct HI as (_ & Hl & _). rewrite <- Hnil, <- Hl. unfold rm_timeout in Etm. fold (late (t - rm_last (cr_mon c))) in Etm.
      destruct (negb (is_nil (rm_periods (cr_mon c))) && late (t - rm_last (cr_mon c))); inversion Etm; reflexivity. }
    destruct b; unfold CInv; cbn [fst cr_mon cr_chk].
    + split; [exact HI'|]. unfold checkup_timeout, set_diag; cbn [c_cmp c_eps c_report].
      split; [exact Hc|]. split; [exact He|].
      unfold spec_report. cbn [hstep fst snd]. rewrite Hflag, orb_true_r.
      apply andb_true_iff in Hflag as [Hn _]. destruct (is_nil (fst h)); [discriminate|]. reflexivity.
    + split; [exact HI'|]. split; [exact Hc|]. split; [exact He|].
      rewrite (Hfalse eq_refl), Hr. unfold spec_report. cbn [hstep fst snd]. rewrite Hflag, orb_false_r. reflexivity.
Qed.

Lemma CInv_init k r eps : CInv k r eps (window_size N r) ([], false) (cr_init N r eps).
Proof. split; [apply Inv_init|]. repeat split. Qed.

Lemma CInv_run k cmp eps W : 1 <= W -> forall evs h c, CInv k cmp eps W h c ->
  CInv k cmp eps W (fold_left hstep evs h) (cr_final N k c evs).
Proof.
  intros HW evs. induction evs as [|e evs IH]; intros h c HI; [exact HI|].
  cbn [fold_left cr_final]. apply IH. apply CInv_step; assumption.
Qed.

Lemma CInv_history k r eps evs : CInv k r eps (window_size N r) (hist evs) (cr_final N k (cr_init N r eps) evs).
Proof.
  apply CInv_run; [|apply CInv_init]. pose proof (window_size_range r). unfold rate_min_window in *. lia.
Qed.

Lemma cr_mon_final k c evs : cr_mon (cr_final N k c evs) = rm_run N (cr_mon c) evs.
Proof.
  revert c; induction evs as [|e evs IH]; intros c; [reflexivity|].
  cbn [cr_final fold_left rm_run]. fold (cr_final N k (fst (cr_step N k c e)) evs). rewrite IH. f_equal.
  destruct e as [d|t]; cbn [cr_step rm_step].
  - unfold cr_evaluate. destruct (match k with KGreater => _ | _ => _ end). reflexivity.
  - unfold cr_heartbeat. destruct (rm_timeout N (cr_mon c) t) as [m b]. destruct b; reflexivity.
Qed.

(* every entry of the per-event log is the state reached after the corresponding prefix *)
Lemma cr_run_nth k : forall evs c i, (i < length evs)%nat ->
  exists o, nth_error (cr_run N k c evs) i =
    Some (o, rm_rate (cr_mon (cr_final N k c (firstn (S i) evs))), c_report (cr_chk (cr_final N k c (firstn (S i) evs)))) /\
    o = snd (cr_step N k (cr_final N k c (firstn i evs)) (nth i evs (Data 0))).
Proof.
  induction evs as [|e evs IH]; intros c i Hi; simpl in Hi; [lia|].
  cbn [cr_run]. destruct (cr_step N k c e) as [c' o] eqn:Es.
  destruct i as [|i].
  - exists o. cbn [nth_error firstn cr_final fold_left nth]. rewrite Es. auto.
  - destruct (IH c' i ltac:(lia)) as (o' & E1 & E2). exists o'.
    cbn [nth_error]. rewrite E1. cbn [firstn cr_final fold_left nth]. rewrite Es. cbn [fst]. auto.
Qed.

(* what a data event returns is the status stored in the report *)
Lemma returned_is_stored_rate k c d :
  let '(c', o) := cr_step N k c (Data d) in o = OData (d_status (r_diag (c_report (cr_chk c')))).
Proof.
  cbn [cr_step]. unfold cr_evaluate.
  pose proof (eval_report_indep k (cr_chk c) (rm_rate (rm_update N (cr_mon c) d))) as Hev. cbv zeta in Hev.
  destruct (match k with KGreater => _ | _ => _ end) as [ch st]. cbn [fst snd cr_chk] in *.
  destruct Hev as (_ & _ & _ & ->). reflexivity.
Qed.

(* a heartbeat answers "alive" exactly when it did not time out *)
Lemma heartbeat_alive_iff k c t :
  snd (cr_step N k c (Heartbeat t)) = OBeat (negb (snd (rm_timeout N (cr_mon c) t))).
Proof.
  cbn [cr_step]. unfold cr_heartbeat. destruct (rm_timeout N (cr_mon c) t) as [m b]. destruct b; reflexivity.
Qed.

(* a heartbeat that does not time out leaves the whole check-up (monitor and report) unchanged and answers "alive" *)
Lemma early_heartbeat_changes_nothing k c t :
  snd (rm_timeout N (cr_mon c) t) = false -> cr_step N k c (Heartbeat t) = (c, OBeat true).
Proof.
  intros H. cbn [cr_step]. unfold cr_heartbeat.
  pose proof (timeout_rule_gen (cr_mon c) t) as Ht.
  destruct (rm_timeout N (cr_mon c) t) as [m b]. cbn [snd] in H. subst b.
  destruct Ht as (_ & _ & Hf). rewrite (Hf eq_refl). destruct c; reflexivity.
Qed.

End Inv.

(* ------------------------------------------------------------------ the real-number instance *)
Local Open Scope R_scope.

Lemma late_R dt : late ROps dt = (500000000 <? dt)%Z.
Proof.
  unfold late, duration_to_second. cbn [nltb nofDec ndiv nofZ ROps].
  unfold rate_timeout_s_m, rate_timeout_s_e, time_ns_per_s_m, time_ns_per_s_e.
  destruct (Z.ltb_spec 500000000 dt) as [H|H].
  - apply Rltb_true. apply IZR_lt in H. simpl powerRZ. lra.
  - apply Rltb_false. apply IZR_le in H. simpl powerRZ. lra.
Qed.

Lemma rate_of_sum_R (sum w : Z) : (0 < sum)%Z -> (0 < w)%Z ->
  rate_of_sum ROps sum w = IZR w / (IZR sum / 1000000000).
Proof.
  intros Hs Hw. unfold rate_of_sum. cbn [nofDec ndiv nofZ ROps].
  unfold rate_ns_per_s_m, rate_ns_per_s_e. simpl powerRZ.
  apply IZR_lt in Hs, Hw. field. split; lra.
Qed.

Lemma window_size_R r : 0 <= r ->
  window_size ROps r = Z.min (Z.max (Zfloor (2 * r)) 4) 64.
Proof.
  intros Hr. unfold window_size. cbn [ntruncZ nmul nofDec ROps].
  unfold rate_window_factor_m, rate_window_factor_e, rate_min_window, rate_max_window.
  simpl powerRZ. rewrite Rmult_1_r. rewrite Ztrunc_floor by lra. reflexivity.
Qed.

Lemma increasing_span ds (W : nat) : increasing ds -> (1 <= W)%nat -> (W < length ds)%nat ->
  (0 < last ds 0 - nth (length ds - W - 1) ds 0)%Z.
Proof.
  intros Hinc HW Hk. rewrite (last_nth ds 0) by (destruct ds; simpl in *; [lia|congruence]).
  specialize (Hinc (length ds - W - 1)%nat (length ds - 1)%nat ltac:(lia)). lia.
Qed.

Lemma rate_is_W_over_span r evs :
  let W := window_size ROps r in let ds := data_stamps evs in
  increasing ds -> (W < Z.of_nat (length ds))%Z -> snd (hist ROps evs) = false ->
  let span := (last ds 0 - nth (length ds - Z.to_nat W - 1) ds 0)%Z in
  (0 < span)%Z /\ rm_rate (rm_run ROps (rm_init ROps r) evs) = IZR W / (IZR span / 1000000000).
Proof.
  cbv zeta. intros Hinc Hk Hst.
  pose proof (window_size_range ROps r) as HW. unfold rate_min_window, rate_max_window in HW.
  assert (Hspan : (0 < last (data_stamps evs) 0 -
             nth (length (data_stamps evs) - Z.to_nat (window_size ROps r) - 1) (data_stamps evs) 0)%Z)
    by (apply increasing_span; [assumption|lia|lia]).
  split; [exact Hspan|].
  rewrite rate_follows_history, Hst. unfold spec_rate.
  destruct (Z.leb_spec (Z.of_nat (length (data_stamps evs))) (window_size ROps r)); [lia|].
  apply rate_of_sum_R; lia.
Qed.

Lemma timeout_rule_R (s : rmon) t :
  let '(s', b) := rm_timeout ROps s t in
  (b = true <-> rm_periods s <> [] /\ (500000000 < t - rm_last s)%Z) /\
  (b = true -> s' = {| rm_window := rm_window s; rm_last := rm_last s; rm_periods := rm_periods s; rm_sum := rm_sum s; rm_rate := 0 |}) /\
  (b = false -> s' = s).
Proof.
  pose proof (timeout_rule_gen ROps s t) as H. destruct (rm_timeout ROps s t) as [s' b].
  rewrite late_R in H. destruct H as (H1 & H2 & H3). split; [|split; assumption].
  rewrite H1, Z.ltb_lt. reflexivity.
Qed.

(* a stamp has been seen  <->  the queue is not empty *)
Lemma periods_nonempty_iff r evs :
  rm_periods (rm_run ROps (rm_init ROps r) evs) <> [] <-> data_stamps evs <> [].
Proof.
  pose proof (Inv_history ROps r evs) as HI.
  pose proof (window_size_range ROps r) as HW. unfold rate_min_window in HW.
  assert (H1 : (1 <= window_size ROps r)%Z) by lia.
  pose proof (Inv_periods_nil ROps _ _ _ H1 HI) as Hn. rewrite fst_hist in Hn.
  destruct (rm_periods (rm_run ROps (rm_init ROps r) evs)), (data_stamps evs); simpl in Hn; split; intros; congruence.
Qed.

(* the verdict carried by a report, read over the reals *)
Definition verdict_R (k : kind) (cmp eps v : R) (rep : @creport R) : Prop :=
  r_info rep = Some v /\
  match k with
  | KGreater =>
      (v > cmp - eps -> d_status (r_diag rep) = OK /\ d_suffix (r_diag rep) = SIsOK) /\
      (v <= cmp - eps -> d_status (r_diag rep) = ERROR /\ d_suffix (r_diag rep) = STooLow)
  | _ =>
      (v < cmp - eps -> d_status (r_diag rep) = ERROR /\ d_suffix (r_diag rep) = STooLow) /\
      (cmp + eps < v -> d_status (r_diag rep) = ERROR /\ d_suffix (r_diag rep) = STooHigh) /\
      (cmp - eps <= v <= cmp + eps -> d_status (r_diag rep) = OK /\ d_suffix (r_diag rep) = SIsOK)
  end.

Lemma verdict_report_R k cmp eps v : 0 <= eps -> verdict_R k cmp eps v (verdict_report ROps k cmp eps v).
Proof.
  intros He. unfold verdict_R, verdict_report.
  set (c0 := checkup_init cmp eps no_data_diag).
  destruct k.
  1,3,4: pose proof (equal_to_verdicts c0 v He) as (A & B & C & D); cbn [c_cmp c_eps c0 checkup_init] in *; auto.
  pose proof (greater_verdicts c0 v) as (A & B & D); cbn [c_cmp c_eps c0 checkup_init] in *; auto.
Qed.

Lemma report_agrees_with_rate k r eps evs : 0 <= eps ->
  let c := cr_final ROps k (cr_init ROps r eps) evs in
  let ds := data_stamps evs in let stale := snd (hist ROps evs) in
  let rate := rm_rate (cr_mon c) in
  rate = spec_rate ROps (window_size ROps r) ds stale /\
  (ds = [] -> c_report (cr_chk c) = no_data_report) /\
  (ds <> [] -> stale = true -> c_report (cr_chk c) = stale_report /\ rate = 0) /\
  (ds <> [] -> stale = false -> verdict_R k r eps rate (c_report (cr_chk c))).
Proof.
  intros He. cbv zeta.
  destruct (CInv_history ROps k r eps evs) as (HI & Hc & Hee & Hr).
  destruct HI as (_ & _ & _ & _ & Hrate). rewrite fst_hist in Hrate.
  split; [exact Hrate|].
  unfold spec_report in Hr. rewrite fst_hist in Hr.
  split; [|split].
  - intros E. rewrite E in Hr. exact Hr.
  - intros Hne Hst. destruct (data_stamps evs); [congruence|]. cbn [is_nil] in Hr. rewrite Hst in Hr.
    split; [exact Hr|]. rewrite Hrate, Hst. reflexivity.
  - intros Hne Hst. destruct (data_stamps evs); [congruence|]. cbn [is_nil] in Hr. rewrite Hst in Hr.
    rewrite Hr. apply verdict_report_R. exact He.
Qed.

(* the "stale" flag of a history, spelled out: some heartbeat after the last data stamp arrived more than
   0.5 s after that stamp *)
Lemma stale_iff evs :
  snd (hist ROps evs) = true <->
  exists pre t post, evs = pre ++ Heartbeat t :: post /\ data_stamps post = [] /\ data_stamps pre <> [] /\
                     (500000000 < t - last (data_stamps pre) 0)%Z.
Proof.
  induction evs as [|e evs IH] using rev_ind.
  - split; [discriminate|]. intros (pre & t & post & E & _). destruct pre; discriminate.
  - rewrite hist_snoc. destruct e as [d|t]; cbn [hstep snd].
    + split; [discriminate|]. intros (pre & t & post & E & Hp & _). exfalso.
      destruct (exists_last (l := Heartbeat t :: post) ltac:(discriminate)) as (l' & x & El).
      rewrite El, app_assoc in E. apply app_inj_tail in E as [_ <-].
      destruct l' as [|y l']; [inversion El|]. inversion El; subst.
      rewrite data_stamps_app in Hp. destruct (data_stamps l'); discriminate.
    + rewrite orb_true_iff, IH, andb_true_iff, late_R, fst_hist, Z.ltb_lt, negb_true_iff. split.
      * intros [(pre & t' & post & E & Hp & Hne & Hl)|[Hn Hl]].
        -- exists pre, t', (post ++ [Heartbeat t]). rewrite E, <- app_assoc. cbn [app].
           rewrite data_stamps_app, Hp. auto.
        -- exists evs, t, []. repeat split; auto. destruct (data_stamps evs); [discriminate|congruence].
      * intros (pre & t' & post & E & Hp & Hne & Hl).
        destruct (exists_last (l := Heartbeat t' :: post) ltac:(discriminate)) as (l' & x & El).
        rewrite El, app_assoc in E. apply app_inj_tail in E as [E <-].
        destruct l' as [|y l'].
        -- right. inversion El; subst. rewrite app_nil_r in *. destruct (data_stamps pre); [congruence|]. auto.
        -- left. inversion El; subst. exists pre, t', l'. rewrite data_stamps_app in Hp.
           apply app_eq_nil in Hp as [Hp _]. auto.
Qed.
