(* RateProofs.v — lemmas about RateModel.v (C17). *)
From Coq Require Import Reals ZArith List Bool Lra Lia.
From Romea Require Import Num NumR DiagModel RateModel.
From Romea.gen Require Import RepoConstants.
Import ListNotations.

Lemma window_size_range {T} (N : NumOps T) r : (rate_min_window <= window_size N r <= rate_max_window)%Z.
Proof. unfold window_size, rate_min_window, rate_max_window. lia. Qed.
