(* NormalsModel.v — executable model of src/pointset/algorithms/NormalAndCurvatureEstimation.cpp (C09):
     planeEstimation_ (two-pass mean / covariance of the k nearest neighbours, DIM x DIM block handed to
     Eigen::SelfAdjointEigenSolver), the copy of the first eigenvector into the caller's normal,
     flipNormalTowardOriginCoordinate, curvature and reliability.
   The eigen-solver is an ORACLE: a function argument [eig]; theorems carry its contract as a hypothesis.
   For execution it is realised by [jacobi_eig] below (cyclic Jacobi, fuelled, not verified) and the
   contract is evaluated on every call by [eig_residual] / [eig_sorted_b].
   Definitions only (proofs are in NormalsProofs.v). *)
From Coq Require Import ZArith List Bool Arith.
From Romea Require Import Num.
Import ListNotations.

Section Normals.
Context {T : Type} (N : NumOps T).

Definition vcoord (p : list T) (i : nat) : T := nth i p (nzero N).

Fixpoint vadd (a b : list T) : list T :=
  match a, b with x :: a', y :: b' => nadd N x y :: vadd a' b' | _, _ => [] end.
Fixpoint vsub (a b : list T) : list T :=
  match a, b with x :: a', y :: b' => nsub N x y :: vsub a' b' | _, _ => [] end.
Definition vdivs (a : list T) (s : T) : list T := map (fun x => ndiv N x s) a.
Definition vneg (a : list T) : list T := map (nneg N) a.       (* v *= -1 *)
Fixpoint vdot_acc (acc : T) (a b : list T) : T :=
  match a, b with x :: a', y :: b' => vdot_acc (nadd N acc (nmul N x y)) a' b' | _, _ => acc end.
Definition vdot (a b : list T) : T := vdot_acc (nzero N) a b.
Definition vnorm (a : list T) : T := nsqrt N (vdot a a).
Definition vsum (a : list T) : T := fold_left (nadd N) a (nzero N).

(* Scalar(numberOfNeighborPoints_) *)
Definition scalar_of_nat (k : nat) : T := nofZ N (Z.of_nat k).

(* first pass: mean over the full point vectors (POINT_SIZE entries) *)
Definition mean (size : nat) (nb : list (list T)) : list T :=
  vdivs (fold_left vadd nb (repeat (nzero N) size)) (scalar_of_nat (length nb)).

(* second pass: covariance += (p-mean)(p-mean)^T, then /= k; only the DIM x DIM block is used *)
Definition cov_entry (centred : list (list T)) (k : T) (i j : nat) : T :=
  ndiv N (fold_left (fun acc c => nadd N acc (nmul N (vcoord c i) (vcoord c j))) centred (nzero N)) k.

Definition covariance (dim size : nat) (nb : list (list T)) : list (list T) :=
  let m := mean size nb in
  let centred := map (fun p => vsub p m) nb in
  let k := scalar_of_nat (length nb) in
  map (fun i => map (fun j => cov_entry centred k i j) (seq 0 dim)) (seq 0 dim).

(* the eigen-solver oracle: (eigenvalues ascending, eigenvectors as a list of COLUMNS) *)
Definition eig_result : Type := (list T * list (list T))%type.

Section WithEig.
Variable eig : list (list T) -> eig_result.

(* flipNormalTowardOriginCoordinate as in the original source: the test reads the FULL vectors
   (for homogeneous types: including w) and the whole normal is negated *)
Definition flip_full (p normal : list T) : list T :=
  if ngtb N (vdot normal (vdivs p (vnorm p))) (nzero N) then vneg normal else normal.

(* the repaired rule: only the Cartesian parts (first dim entries) are tested and negated; the
   remaining entry (w) is left as the caller supplied it *)
Definition flip_cart (dim : nat) (p normal : list T) : list T :=
  let pc := firstn dim p in
  let nc := firstn dim normal in
  if ngtb N (vdot nc (vdivs pc (vnorm pc))) (nzero N) then vneg nc ++ skipn dim normal else normal.

(* std::copy(eigenVectors_.data(), eigenVectors_.data() + DIM, normals[n].data()):
   the first column overwrites the first DIM entries, the others keep what the caller supplied *)
Definition write_normal (dim : nat) (col0 normal_in : list T) : list T :=
  firstn dim col0 ++ skipn dim normal_in.

(* curvature = eigenValues_(0) / eigenValues_.array().sum() *)
Definition curvature (lam : list T) : T := ndiv N (vcoord lam 0) (vsum lam).

(* computeNormalReliability: |l1/l0| (2D), |min(l1,l2)/l0| (3D) *)
Definition reliability (dim : nat) (lam : list T) : T :=
  if dim =? 2 then nabs N (ndiv N (vcoord lam 1) (vcoord lam 0))
  else nabs N (ndiv N (nmin2 N (vcoord lam 1) (vcoord lam 2)) (vcoord lam 0)).

Record estimate : Type := { e_normal : list T; e_curvature : T; e_reliability : T; e_lambda : list T }.

(* one iteration of the loop of compute(): [old_rule] selects the flip rule of the original source *)
Definition estimate_point (old_rule : bool) (dim size : nat) (p : list T) (nb : list (list T))
           (normal_in : list T) : estimate :=
  let '(lam, vecs) := eig (covariance dim size nb) in
  let n1 := write_normal dim (nth 0 vecs []) normal_in in
  {| e_normal := if old_rule then flip_full p n1 else flip_cart dim p n1;
     e_curvature := curvature lam;
     e_reliability := reliability dim lam;
     e_lambda := lam |}.

End WithEig.

(* ------------------------------------------------------------------------------------------------
   Realisation of the oracle for execution: cyclic Jacobi on a symmetric dim x dim matrix.
   Not verified; its contract is evaluated on every call (eig_residual, eig_sorted_b). *)
Definition mget (A : list (list T)) (i j : nat) : T := vcoord (nth i A []) j.
Definition mmake (n : nat) (f : nat -> nat -> T) : list (list T) :=
  map (fun i => map (fun j => f i j) (seq 0 n)) (seq 0 n).
Definition mmul (n : nat) (A B : list (list T)) : list (list T) :=
  mmake n (fun i j => fold_left (fun acc k => nadd N acc (nmul N (mget A i k) (mget B k j))) (seq 0 n) (nzero N)).
Definition mtrans (n : nat) (A : list (list T)) : list (list T) := mmake n (fun i j => mget A j i).
Definition mident (n : nat) : list (list T) := mmake n (fun i j => if i =? j then n_one N else nzero N).

(* Givens matrix J with J_pp = J_qq = c, J_pq = s, J_qp = -s *)
Definition givens (n p q : nat) (c s : T) : list (list T) :=
  mmake n (fun i j =>
    if (i =? p) && (j =? p) then c else if (i =? q) && (j =? q) then c
    else if (i =? p) && (j =? q) then s else if (i =? q) && (j =? p) then nneg N s
    else if i =? j then n_one N else nzero N).

Definition jacobi_rotate (n : nat) (AV : list (list T) * list (list T)) (pq : nat * nat)
  : list (list T) * list (list T) :=
  let '(A, V) := AV in
  let '(p, q) := pq in
  let apq := mget A p q in
  if neqb N apq (nzero N) then AV else
  let theta := ndiv N (nsub N (mget A q q) (mget A p p)) (nmul N (ntwo N) apq) in
  let sg := if nltb N theta (nzero N) then nneg N (n_one N) else n_one N in
  let t := ndiv N sg (nadd N (nabs N theta) (nsqrt N (nadd N (nmul N theta theta) (n_one N)))) in
  let c := ndiv N (n_one N) (nsqrt N (nadd N (nmul N t t) (n_one N))) in
  let s := nmul N t c in
  let J := givens n p q c s in
  (mmul n (mtrans n J) (mmul n A J), mmul n V J).

Definition pairs (n : nat) : list (nat * nat) :=
  flat_map (fun p => map (fun q => (p, q)) (seq (S p) (n - S p))) (seq 0 n).

Fixpoint jacobi_sweeps (fuel n : nat) (AV : list (list T) * list (list T)) : list (list T) * list (list T) :=
  match fuel with
  | O => AV
  | S f => jacobi_sweeps f n (fold_left (jacobi_rotate n) (pairs n) AV)
  end.

Fixpoint insert_pair (x : T * list T) (l : list (T * list T)) : list (T * list T) :=
  match l with
  | [] => [x]
  | y :: r => if nleb N (fst x) (fst y) then x :: l else y :: insert_pair x r
  end.

Definition jacobi_eig (sweeps n : nat) (C : list (list T)) : eig_result :=
  let '(A, V) := jacobi_sweeps sweeps n (C, mident n) in
  let prs := map (fun c => (mget A c c, map (fun i => mget V i c) (seq 0 n))) (seq 0 n) in
  let sorted := fold_right insert_pair [] prs in
  (map fst sorted, map snd sorted).

(* contract evaluation: (max |C - V diag(lam) V^T| , max of |V^T V - I| and |V V^T - I|) over the entries *)
Definition eig_residual (n : nat) (C : list (list T)) (r : eig_result) : T * T :=
  let '(lam, cols) := r in
  let recon i j := fold_left (fun acc c => nadd N acc (nmul N (nmul N (vcoord (nth c cols []) i) (vcoord lam c))
                                                             (vcoord (nth c cols []) j))) (seq 0 n) (nzero N) in
  let delta (i j : nat) := if i =? j then n_one N else nzero N in
  let e1 i j := nabs N (nsub N (mget C i j) (recon i j)) in
  let e2 i j := nabs N (nsub N (vdot (nth i cols []) (nth j cols [])) (delta i j)) in
  let e3 i j := nabs N (nsub N (fold_left (fun acc c => nadd N acc (nmul N (vcoord (nth c cols []) i)
                                                                         (vcoord (nth c cols []) j)))
                                          (seq 0 n) (nzero N)) (delta i j)) in
  let ijs := flat_map (fun i => map (fun j => (i, j)) (seq 0 n)) (seq 0 n) in
  (fold_left (fun acc ij => nmax2 N acc (e1 (fst ij) (snd ij))) ijs (nzero N),
   fold_left (fun acc ij => nmax2 N (nmax2 N acc (e2 (fst ij) (snd ij))) (e3 (fst ij) (snd ij))) ijs (nzero N)).

Fixpoint ascending_b (l : list T) : bool :=
  match l with
  | x :: ((y :: _) as r) => nleb N x y && ascending_b r
  | _ => true
  end.

Definition eig_sorted_b (n : nat) (r : eig_result) : bool :=
  (length (fst r) =? n) && (length (snd r) =? n) && ascending_b (fst r).

End Normals.
