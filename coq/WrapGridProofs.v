(* WrapGridProofs.v — lemmas about WrapGridModel.v (C15): the concrete grid refines a sliding window. *)
From Coq Require Import ZArith List Bool Arith Lia.
From Romea Require Import WrapGridModel.
Import ListNotations.

Section Proofs.
Context {V : Type}.
Notation wgrid := (wgrid V).

Definition valid (g : wgrid) : Prop :=
  0 < g_nx g /\ 0 < g_ny g /\ 0 < g_nz g /\
  g_ox g < g_nx g /\ g_oy g < g_ny g /\ g_oz g < g_nz g /\
  length (g_buf g) = g_nx g * g_ny g * g_nz g /\
  (g_dim3 g = false -> g_nz g = 1) /\
  (Z.of_nat (g_nx g) < 2 ^ 31 /\ Z.of_nat (g_ny g) < 2 ^ 31 /\ Z.of_nat (g_nz g) < 2 ^ 31)%Z.

Definition same_shape (g g' : wgrid) : Prop :=
  g_dim3 g' = g_dim3 g /\ g_nx g' = g_nx g /\ g_ny g' = g_ny g /\ g_nz g' = g_nz g.

(* ------------------------------------------------------------------ mixed-radix indexing *)
Lemma lin_lt (g : wgrid) i : valid g -> lin g i < length (g_buf g).
Proof.
  intros (Hx & Hy & Hz & _ & _ & _ & HL & _). destruct i as [[x y] z]. unfold lin. rewrite HL.
  pose proof (Nat.mod_upper_bound (x + g_ox g) (g_nx g) ltac:(lia)) as A.
  pose proof (Nat.mod_upper_bound (y + g_oy g) (g_ny g) ltac:(lia)) as B.
  pose proof (Nat.mod_upper_bound (z + g_oz g) (g_nz g) ltac:(lia)) as C.
  set (a := (x + g_ox g) mod g_nx g) in *. set (b := (y + g_oy g) mod g_ny g) in *.
  set (c := (z + g_oz g) mod g_nz g) in *.
  assert (H1 : g_nx g * (b + 1) <= g_nx g * g_ny g) by (apply Nat.mul_le_mono_l; lia).
  assert (H2 : g_nx g * g_ny g * (c + 1) <= g_nx g * g_ny g * g_nz g) by (apply Nat.mul_le_mono_l; lia).
  rewrite Nat.mul_add_distr_l in H1, H2. lia.
Qed.

Lemma radix_inj nx ny a b c a' b' c' : a < nx -> a' < nx -> b < ny -> b' < ny ->
  a + nx * b + nx * ny * c = a' + nx * b' + nx * ny * c' -> a = a' /\ b = b' /\ c = c'.
Proof.
  intros Ha Ha' Hb Hb' E.
  assert (E1 : a + nx * (b + ny * c) = a' + nx * (b' + ny * c')) by nia.
  assert (Ea : a = a').
  { assert (M : (a + nx * (b + ny * c)) mod nx = (a' + nx * (b' + ny * c')) mod nx) by (rewrite E1; reflexivity).
    rewrite !(Nat.mul_comm nx), !Nat.mod_add, !Nat.mod_small in M by lia. exact M. }
  subst a'. assert (E2 : b + ny * c = b' + ny * c') by nia.
  assert (Eb : b = b').
  { assert (M : (b + ny * c) mod ny = (b' + ny * c') mod ny) by (rewrite E2; reflexivity).
    rewrite !(Nat.mul_comm ny), !Nat.mod_add, !Nat.mod_small in M by lia. exact M. }
  subst b'. repeat split; try reflexivity. nia.
Qed.

Lemma wrap_inj n o x x' : 0 < n -> x < n -> x' < n -> (x + o) mod n = (x' + o) mod n -> x = x'.
Proof.
  intros Hn Hx Hx' E.
  pose proof (Nat.div_mod (x + o) n ltac:(lia)) as D1. pose proof (Nat.div_mod (x' + o) n ltac:(lia)) as D2.
  rewrite E in D1.
  assert ((x + o) / n = (x' + o) / n \/ (x + o) / n < (x' + o) / n \/ (x' + o) / n < (x + o) / n) as [Q|[Q|Q]] by lia.
  - rewrite Q in D1. lia.
  - pose proof (Nat.mod_upper_bound (x' + o) n ltac:(lia)). nia.
  - pose proof (Nat.mod_upper_bound (x' + o) n ltac:(lia)). nia.
Qed.

Lemma in_window_spec (g : wgrid) x y z : in_window g (x, y, z) = true <-> x < g_nx g /\ y < g_ny g /\ z < g_nz g.
Proof. unfold in_window. rewrite !andb_true_iff, !Nat.ltb_lt. tauto. Qed.

Lemma lin_inj (g : wgrid) i j : valid g -> in_window g i = true -> in_window g j = true -> lin g i = lin g j -> i = j.
Proof.
  intros (Hx & Hy & Hz & _) Hi Hj E. destruct i as [[x y] z], j as [[x' y'] z'].
  apply in_window_spec in Hi, Hj. unfold lin in E.
  apply radix_inj in E; try (apply Nat.mod_upper_bound; lia).
  destruct E as (E1 & E2 & E3).
  apply wrap_inj in E1; try lia. apply wrap_inj in E2; try lia. apply wrap_inj in E3; try lia. congruence.
Qed.

(* ------------------------------------------------------------------ buffer writes *)
Lemma set_nth_length p (v : V) l : length (set_nth p v l) = length l.
Proof. revert p. induction l as [|a l IH]; intros [|p]; cbn; auto. Qed.

Lemma nth_error_set_nth p q (v : V) l : p < length l ->
  nth_error (set_nth p v l) q = if Nat.eqb q p then Some v else nth_error l q.
Proof.
  revert p q. induction l as [|a l IH]; intros [|p] [|q] H; cbn in *; try lia; try reflexivity.
  apply IH. lia.
Qed.

Lemma idx_eqb_eq a b : idx_eqb a b = true <-> a = b.
Proof.
  destruct a as [[x y] z], b as [[x' y'] z']. unfold idx_eqb. rewrite !andb_true_iff, !Nat.eqb_eq.
  split; [intros [[-> ->] ->]; reflexivity|intros E; inversion E; auto].
Qed.

Lemma with_buf_valid (g : wgrid) b : valid g -> length b = length (g_buf g) -> valid (with_buf g b).
Proof. unfold valid, with_buf. cbn. intros (A&B&C&D&E&F&G&H&I) L. repeat split; try assumption; try lia; apply I. Qed.

Lemma fold_set_length (g : wgrid) cells e (b : list V) :
  length (fold_left (fun b c => set_nth (lin g c) e b) cells b) = length b.
Proof. revert b. induction cells as [|c cells IH]; intros b; cbn [fold_left]; [reflexivity|]. rewrite IH. apply set_nth_length. Qed.

Lemma fold_set_read (g : wgrid) cells (e : V) : valid g ->
  Forall (fun c => in_window g c = true) cells ->
  forall (b : list V) i, length b = length (g_buf g) -> in_window g i = true ->
  nth_error (fold_left (fun b c => set_nth (lin g c) e b) cells b) (lin g i)
  = if existsb (idx_eqb i) cells then Some e else nth_error b (lin g i).
Proof.
  intros Hv Hc. induction Hc as [|c cells Hcw Hcs IH]; intros b i Hb Hi; cbn [fold_left existsb]; [reflexivity|].
  rewrite IH by (rewrite ?set_nth_length; assumption).
  destruct (existsb (idx_eqb i) cells) eqn:Ex; [rewrite orb_true_r; reflexivity|]. rewrite orb_false_r.
  rewrite nth_error_set_nth by (rewrite Hb; apply lin_lt; exact Hv).
  destruct (idx_eqb i c) eqn:Eic.
  - apply idx_eqb_eq in Eic. subst c. rewrite Nat.eqb_refl. reflexivity.
  - destruct (Nat.eqb_spec (lin g i) (lin g c)) as [El|El]; [|reflexivity].
    apply lin_inj in El; try assumption. subst c.
    assert (idx_eqb i i = true) by (apply idx_eqb_eq; reflexivity). congruence.
Qed.

Lemma blank_cells_read (g : wgrid) cells e i : valid g ->
  Forall (fun c => in_window g c = true) cells -> in_window g i = true ->
  g_read (blank_cells g cells e) i = if existsb (idx_eqb i) cells then Some e else g_read g i.
Proof.
  intros Hv Hc Hi. unfold g_read, blank_cells.
  change (in_window (with_buf g _) i) with (in_window g i). rewrite Hi.
  change (lin (with_buf g ?b) i) with (lin g i). cbn [g_buf with_buf].
  apply fold_set_read; auto.
Qed.

Lemma blank_cells_valid (g : wgrid) cells e : valid g -> valid (blank_cells g cells e).
Proof. intros Hv. apply with_buf_valid; [exact Hv|apply fold_set_length]. Qed.

(* ------------------------------------------------------------------ one axis *)
Lemma in_run_up n k v : In v (run_up n k) <-> exists j, j < k /\ v = j mod n.
Proof.
  unfold run_up. rewrite in_map_iff. split.
  - intros [j [E Hj]]. apply in_seq in Hj. exists j. split; [lia|auto].
  - intros [j [Hj E]]. exists j. split; [auto|apply in_seq; lia].
Qed.

Lemma in_run_down n k v : In v (run_down n k) <-> exists j, 1 <= j <= k /\ v = (j * (n - 1)) mod n.
Proof.
  unfold run_down. rewrite in_map_iff. split.
  - intros [j [E Hj]]. apply in_seq in Hj. exists j. split; [lia|auto].
  - intros [j [Hj E]]. exists j. split; [auto|apply in_seq; lia].
Qed.

Lemma axis_run_lt n k v : 0 < n -> In v (axis_run n k) -> v < n.
Proof.
  intros Hn. destruct k as [|p|p]; cbn [axis_run]; [intros []| |].
  - intros H. apply in_run_up in H. destruct H as [j [_ ->]]. apply Nat.mod_upper_bound. lia.
  - intros H. apply in_run_down in H. destruct H as [j [_ ->]]. apply Nat.mod_upper_bound. lia.
Qed.

(* the logical coordinate (x + k) mod n of the old frame that the new coordinate x reads *)
Definition src (n x : nat) (k : Z) : nat := Z.to_nat ((Z.of_nat x + k) mod Z.of_nat n).

Lemma src_lt n x k : 0 < n -> src n x k < n.
Proof. intros Hn. unfold src. pose proof (Z.mod_pos_bound (Z.of_nat x + k) (Z.of_nat n) ltac:(lia)). lia. Qed.

Lemma down_mod n j : 0 < n -> Z.of_nat ((j * (n - 1)) mod n) = ((- Z.of_nat j) mod Z.of_nat n)%Z.
Proof.
  intros Hn. rewrite Nat2Z.inj_mod. rewrite Nat2Z.inj_mul, Nat2Z.inj_sub by lia.
  replace (Z.of_nat j * (Z.of_nat n - Z.of_nat 1))%Z with (- Z.of_nat j + Z.of_nat j * Z.of_nat n)%Z by lia.
  apply Z.mod_add. lia.
Qed.

(* the run blanks exactly the source coordinates of the cells that enter the window *)
Lemma src_in_run n x k : 0 < n -> x < n -> (In (src n x k) (axis_run n k) <-> inb n x k = false).
Proof.
  intros Hn Hx. unfold inb. rewrite andb_false_iff, Z.leb_gt, Z.ltb_ge.
  destruct k as [|p|p]; cbn [axis_run].
  - split; [intros []|lia].
  - rewrite in_run_up. unfold src. split.
    + intros [j [Hj E]]. apply (f_equal Z.of_nat) in E. rewrite Z2Nat.id in E by (apply Z.mod_pos_bound; lia).
      rewrite Nat2Z.inj_mod in E.
      destruct (Z_lt_le_dec (Z.of_nat x + Z.pos p) (Z.of_nat n)) as [L|L]; [|lia]. exfalso.
      rewrite (Z.mod_small (Z.of_nat x + Z.pos p)) in E by lia.
      assert (Hjn : (Z.of_nat j < Z.of_nat n)%Z) by lia.
      rewrite Z.mod_small in E by lia. lia.
    + intros [H|H]; [lia|].
      (* x + k >= n : source = (x + k) mod n, reached at step j = (x+k) mod n when k >= n, else x + k - n < k *)
      destruct (Z_lt_le_dec (Z.pos p) (Z.of_nat n)) as [Lk|Lk].
      * exists (Z.to_nat (Z.of_nat x + Z.pos p - Z.of_nat n)). split; [lia|].
        rewrite Nat.mod_small by lia. f_equal.
        symmetry. apply (Z.mod_unique _ _ 1); lia.
      * exists (Z.to_nat ((Z.of_nat x + Z.pos p) mod Z.of_nat n)).
        pose proof (Z.mod_pos_bound (Z.of_nat x + Z.pos p) (Z.of_nat n) ltac:(lia)). split; [lia|].
        rewrite Nat.mod_small by lia. reflexivity.
  - rewrite in_run_down. unfold src. split.
    + intros [j [Hj E]]. apply (f_equal Z.of_nat) in E. rewrite Z2Nat.id in E by (apply Z.mod_pos_bound; lia).
      rewrite down_mod in E by lia.
      destruct (Z_lt_le_dec (Z.of_nat x + Z.neg p) 0) as [L|L]; [lia|]. exfalso.
      rewrite (Z.mod_small (Z.of_nat x + Z.neg p)) in E by lia.
      (* x + k = (-j) mod n with 1 <= j <= |k| <= x < n : (-j) mod n = n - j *)
      replace (- Z.of_nat j)%Z with ((Z.of_nat n - Z.of_nat j) + (-1) * Z.of_nat n)%Z in E by lia.
      rewrite Z.mod_add in E by lia. rewrite Z.mod_small in E by lia. lia.
    + intros [H|H]; [|lia].
      destruct (Z_lt_le_dec (Z.pos p) (Z.of_nat n)) as [Lk|Lk].
      * exists (Z.to_nat (- (Z.of_nat x + Z.neg p))). split; [lia|].
        apply Nat2Z.inj. rewrite Z2Nat.id by (apply Z.mod_pos_bound; lia). rewrite down_mod by lia.
        rewrite Z2Nat.id by lia. f_equal. lia.
      * (* |k| >= n : every residue is visited; take j = n - src *)
        set (s := ((Z.of_nat x + Z.neg p) mod Z.of_nat n)%Z).
        pose proof (Z.mod_pos_bound (Z.of_nat x + Z.neg p) (Z.of_nat n) ltac:(lia)) as Hs. fold s in Hs.
        exists (Z.to_nat (Z.of_nat n - s)). split; [lia|].
        apply Nat2Z.inj. rewrite Z2Nat.id by lia. rewrite down_mod by lia. rewrite Z2Nat.id by lia.
        replace (- (Z.of_nat n - s))%Z with (s + (-1) * Z.of_nat n)%Z by lia.
        rewrite Z.mod_add by lia. symmetry. apply Z.mod_small. lia.
Qed.

Lemma src_shift n x k : inb n x k = true -> src n x k = shift x k.
Proof.
  unfold inb, src, shift. rewrite andb_true_iff, Z.leb_le, Z.ltb_lt. intros [A B]. rewrite Z.mod_small by lia. reflexivity.
Qed.

(* offset update in size_t arithmetic = (offset + k) mod n *)
Lemma new_offset_spec off n k : 0 < n -> off < n -> (Z.of_nat n < 2 ^ 31)%Z ->
  Z.of_nat (new_offset off n k) = ((Z.of_nat off + k) mod Z.of_nat n)%Z.
Proof.
  intros Hn Ho H31. unfold new_offset, two64.
  rewrite Z2Nat.id by (apply Z.mod_pos_bound; lia).
  pose proof (Z.rem_bound_abs k (Z.of_nat n) ltac:(lia)) as Hb.
  pose proof (Z.quot_rem' k (Z.of_nat n)) as Hq.
  set (r := Z.rem k (Z.of_nat n)) in *. set (q := Z.quot k (Z.of_nat n)) in *.
  assert (Hr : (- Z.of_nat n < r < Z.of_nat n)%Z) by lia.
  assert (T : (2 ^ 31 < 18446744073709551616)%Z) by reflexivity.
  rewrite (Z.mod_small (Z.of_nat off + Z.of_nat n)) by lia.
  assert (E : (((Z.of_nat off + Z.of_nat n + r mod 18446744073709551616) mod 18446744073709551616)
               = Z.of_nat off + Z.of_nat n + r)%Z).
  { destruct (Z_lt_le_dec r 0) as [Ln|Ln].
    - replace r with ((r + 18446744073709551616) + (-1) * 18446744073709551616)%Z at 1 by lia.
      rewrite Z.mod_add by lia. rewrite (Z.mod_small (r + 18446744073709551616)) by lia.
      replace (Z.of_nat off + Z.of_nat n + (r + 18446744073709551616))%Z
        with ((Z.of_nat off + Z.of_nat n + r) + 1 * 18446744073709551616)%Z by lia.
      rewrite Z.mod_add by lia. apply Z.mod_small. lia.
    - rewrite (Z.mod_small r) by lia. apply Z.mod_small. lia. }
  rewrite E. rewrite Hq.
  replace (Z.of_nat off + Z.of_nat n + r)%Z with ((Z.of_nat off + r) + 1 * Z.of_nat n)%Z by lia.
  rewrite Z.mod_add by lia.
  replace (Z.of_nat off + (Z.of_nat n * q + r))%Z with ((Z.of_nat off + r) + q * Z.of_nat n)%Z by lia.
  rewrite Z.mod_add by lia. reflexivity.
Qed.

Lemma new_offset_lt off n k : 0 < n -> new_offset off n k < n.
Proof.
  intros Hn. unfold new_offset.
  match goal with |- Z.to_nat (?a mod _) < _ => pose proof (Z.mod_pos_bound a (Z.of_nat n) ltac:(lia)) end. lia.
Qed.

(* (x + new offset) mod n = (src + old offset) mod n : the new frame reads the old frame at src *)
Lemma wrap_new_offset off n k x : 0 < n -> off < n -> (Z.of_nat n < 2 ^ 31)%Z ->
  (x + new_offset off n k) mod n = (src n x k + off) mod n.
Proof.
  intros Hn Ho H31. apply Nat2Z.inj. rewrite !Nat2Z.inj_mod, !Nat2Z.inj_add.
  rewrite new_offset_spec by assumption. unfold src. rewrite Z2Nat.id by (apply Z.mod_pos_bound; lia).
  rewrite Z.add_mod_idemp_r by lia. rewrite Z.add_mod_idemp_l by lia. f_equal. lia.
Qed.

(* ------------------------------------------------------------------ the three axis steps *)
Ltac shape_tac := unfold same_shape, translate_x, translate_y, translate_z, set_ox, set_oy, set_oz, blank_cells, with_buf;
  match goal with |- context [Z.eqb ?k 0] => destruct (Z.eqb k 0) end; cbn; repeat split; reflexivity.

Lemma translate_x_shape (g : wgrid) k e : same_shape g (translate_x g k e). Proof. shape_tac. Qed.
Lemma translate_y_shape (g : wgrid) k e : same_shape g (translate_y g k e). Proof. shape_tac. Qed.
Lemma translate_z_shape (g : wgrid) k e : same_shape g (translate_z g k e). Proof. shape_tac. Qed.

Lemma existsb_idx (i : idx) cells : existsb (idx_eqb i) cells = true <-> In i cells.
Proof.
  rewrite existsb_exists. split.
  - intros [c [Hc E]]. apply idx_eqb_eq in E. subst c. exact Hc.
  - intros H. exists i. split; [exact H|apply idx_eqb_eq; reflexivity].
Qed.

Lemma in_cells_x (g : wgrid) k x y z : In (x, y, z) (cells_x g k) <-> In x (axis_run (g_nx g) k) /\ y < g_ny g /\ z < g_nz g.
Proof.
  unfold cells_x, all. rewrite in_flat_map. split.
  - intros [z' [Hz H]]. rewrite in_flat_map in H. destruct H as [y' [Hy H]]. rewrite in_map_iff in H.
    destruct H as [x' [E Hx]]. inversion E; subst. apply in_seq in Hz, Hy. repeat split; [exact Hx|lia|lia].
  - intros (Hx & Hy & Hz). exists z. split; [apply in_seq; lia|]. rewrite in_flat_map. exists y.
    split; [apply in_seq; lia|]. rewrite in_map_iff. exists x. split; [reflexivity|exact Hx].
Qed.

Lemma in_cells_y (g : wgrid) k x y z : In (x, y, z) (cells_y g k) <-> x < g_nx g /\ In y (axis_run (g_ny g) k) /\ z < g_nz g.
Proof.
  unfold cells_y, all. rewrite in_flat_map. split.
  - intros [z' [Hz H]]. rewrite in_flat_map in H. destruct H as [y' [Hy H]]. rewrite in_map_iff in H.
    destruct H as [x' [E Hx]]. inversion E; subst. apply in_seq in Hz, Hx. repeat split; [lia|exact Hy|lia].
  - intros (Hx & Hy & Hz). exists z. split; [apply in_seq; lia|]. rewrite in_flat_map. exists y.
    split; [exact Hy|]. rewrite in_map_iff. exists x. split; [reflexivity|apply in_seq; lia].
Qed.

Lemma in_cells_z (g : wgrid) k x y z : In (x, y, z) (cells_z g k) <-> x < g_nx g /\ y < g_ny g /\ In z (axis_run (g_nz g) k).
Proof.
  unfold cells_z, all. rewrite in_flat_map. split.
  - intros [z' [Hz H]]. rewrite in_flat_map in H. destruct H as [y' [Hy H]]. rewrite in_map_iff in H.
    destruct H as [x' [E Hx]]. inversion E; subst. apply in_seq in Hy, Hx. repeat split; [lia|lia|exact Hz].
  - intros (Hx & Hy & Hz). exists z. split; [exact Hz|]. rewrite in_flat_map. exists y.
    split; [apply in_seq; lia|]. rewrite in_map_iff. exists x. split; [reflexivity|apply in_seq; lia].
Qed.

Lemma cells_x_window (g : wgrid) k : valid g -> Forall (fun c => in_window g c = true) (cells_x g k).
Proof.
  intros Hv. apply Forall_forall. intros [[x y] z] H. apply in_cells_x in H. destruct H as (Hx & Hy & Hz).
  apply in_window_spec. repeat split; try assumption. eapply axis_run_lt; [apply Hv|exact Hx].
Qed.
Lemma cells_y_window (g : wgrid) k : valid g -> Forall (fun c => in_window g c = true) (cells_y g k).
Proof.
  intros Hv. apply Forall_forall. intros [[x y] z] H. apply in_cells_y in H. destruct H as (Hx & Hy & Hz).
  apply in_window_spec. repeat split; try assumption. eapply axis_run_lt; [apply Hv|exact Hy].
Qed.
Lemma cells_z_window (g : wgrid) k : valid g -> Forall (fun c => in_window g c = true) (cells_z g k).
Proof.
  intros Hv. apply Forall_forall. intros [[x y] z] H. apply in_cells_z in H. destruct H as (Hx & Hy & Hz).
  apply in_window_spec. repeat split; try assumption. eapply axis_run_lt; [apply Hv|exact Hz].
Qed.

Lemma inb_zero n x : x < n -> inb n x 0 = true.
Proof. intros H. unfold inb. rewrite andb_true_iff, Z.leb_le, Z.ltb_lt. lia. Qed.
Lemma shift_zero x : shift x 0 = x.
Proof. unfold shift. lia. Qed.

Lemma translate_x_valid (g : wgrid) k e : valid g -> valid (translate_x g k e).
Proof.
  intros Hv. unfold translate_x. destruct (Z.eqb k 0); [exact Hv|].
  pose proof (blank_cells_valid g (cells_x g k) e Hv) as Hb.
  destruct Hb as (A&B&C&D&E&F&G&H&I). unfold valid, set_ox. cbn.
  repeat split; try assumption; try (apply I). apply new_offset_lt. exact A.
Qed.
Lemma translate_y_valid (g : wgrid) k e : valid g -> valid (translate_y g k e).
Proof.
  intros Hv. unfold translate_y. destruct (Z.eqb k 0); [exact Hv|].
  pose proof (blank_cells_valid g (cells_y g k) e Hv) as Hb.
  destruct Hb as (A&B&C&D&E&F&G&H&I). unfold valid, set_oy. cbn.
  repeat split; try assumption; try (apply I). apply new_offset_lt. exact B.
Qed.
Lemma translate_z_valid (g : wgrid) k e : valid g -> valid (translate_z g k e).
Proof.
  intros Hv. unfold translate_z. destruct (Z.eqb k 0); [exact Hv|].
  pose proof (blank_cells_valid g (cells_z g k) e Hv) as Hb.
  destruct Hb as (A&B&C&D&E&F&G&H&I). unfold valid, set_oz. cbn.
  repeat split; try assumption; try (apply I). apply new_offset_lt. exact C.
Qed.

Lemma translate_x_read (g : wgrid) k e x y z : valid g -> in_window g (x, y, z) = true ->
  g_read (translate_x g k e) (x, y, z) =
  if inb (g_nx g) x k then g_read g (shift x k, y, z) else Some e.
Proof.
  intros Hv Hi. pose proof Hi as Hi'. apply in_window_spec in Hi'. destruct Hi' as (Hx & Hy & Hz).
  unfold translate_x. destruct (Z.eqb_spec k 0) as [->|Hk].
  - rewrite inb_zero by exact Hx. rewrite shift_zero. reflexivity.
  - pose proof Hv as Hv'. destruct Hv' as (A&B&C&D&E&F&G&H&I31).
    (* reading the new frame at x = reading the blanked old frame at src *)
    assert (R : g_read (set_ox (blank_cells g (cells_x g k) e) (new_offset (g_ox g) (g_nx g) k)) (x, y, z)
                = g_read (blank_cells g (cells_x g k) e) (src (g_nx g) x k, y, z)).
    { unfold g_read. change (in_window (set_ox ?h _) ?i) with (in_window h i).
      change (in_window (blank_cells g ?c e) ?i) with (in_window g i).
      rewrite Hi. assert (Hs : in_window g (src (g_nx g) x k, y, z) = true)
        by (apply in_window_spec; repeat split; try assumption; apply src_lt; exact A).
      rewrite Hs. f_equal. unfold lin. cbn [g_ox g_oy g_oz g_nx g_ny g_nz set_ox blank_cells with_buf].
      rewrite wrap_new_offset by (try assumption; apply I31). reflexivity. }
    rewrite R. rewrite blank_cells_read; try assumption;
      [|apply cells_x_window; exact Hv|apply in_window_spec; repeat split; try assumption; apply src_lt; exact A].
    destruct (inb (g_nx g) x k) eqn:Einb.
    + replace (existsb _ _) with false.
      * rewrite src_shift by exact Einb. reflexivity.
      * symmetry. apply not_true_is_false. rewrite existsb_idx, in_cells_x. intros (Hin & _).
        apply src_in_run in Hin; try assumption. congruence.
    + replace (existsb _ _) with true; [reflexivity|]. symmetry. rewrite existsb_idx, in_cells_x.
      repeat split; try assumption. apply src_in_run; assumption.
Qed.

Lemma translate_y_read (g : wgrid) k e x y z : valid g -> in_window g (x, y, z) = true ->
  g_read (translate_y g k e) (x, y, z) =
  if inb (g_ny g) y k then g_read g (x, shift y k, z) else Some e.
Proof.
  intros Hv Hi. pose proof Hi as Hi'. apply in_window_spec in Hi'. destruct Hi' as (Hx & Hy & Hz).
  unfold translate_y. destruct (Z.eqb_spec k 0) as [->|Hk].
  - rewrite inb_zero by exact Hy. rewrite shift_zero. reflexivity.
  - pose proof Hv as Hv'. destruct Hv' as (A&B&C&D&E&F&G&H&I31).
    assert (R : g_read (set_oy (blank_cells g (cells_y g k) e) (new_offset (g_oy g) (g_ny g) k)) (x, y, z)
                = g_read (blank_cells g (cells_y g k) e) (x, src (g_ny g) y k, z)).
    { unfold g_read. change (in_window (set_oy ?h _) ?i) with (in_window h i).
      change (in_window (blank_cells g ?c e) ?i) with (in_window g i).
      rewrite Hi. assert (Hs : in_window g (x, src (g_ny g) y k, z) = true)
        by (apply in_window_spec; repeat split; try assumption; apply src_lt; exact B).
      rewrite Hs. f_equal. unfold lin. cbn [g_ox g_oy g_oz g_nx g_ny g_nz set_oy blank_cells with_buf].
      rewrite wrap_new_offset by (try assumption; apply I31). reflexivity. }
    rewrite R. rewrite blank_cells_read; try assumption;
      [|apply cells_y_window; exact Hv|apply in_window_spec; repeat split; try assumption; apply src_lt; exact B].
    destruct (inb (g_ny g) y k) eqn:Einb.
    + replace (existsb _ _) with false.
      * rewrite src_shift by exact Einb. reflexivity.
      * symmetry. apply not_true_is_false. rewrite existsb_idx, in_cells_y. intros (_ & Hin & _).
        apply src_in_run in Hin; try assumption. congruence.
    + replace (existsb _ _) with true; [reflexivity|]. symmetry. rewrite existsb_idx, in_cells_y.
      repeat split; try assumption. apply src_in_run; assumption.
Qed.

Lemma translate_z_read (g : wgrid) k e x y z : valid g -> in_window g (x, y, z) = true ->
  g_read (translate_z g k e) (x, y, z) =
  if inb (g_nz g) z k then g_read g (x, y, shift z k) else Some e.
Proof.
  intros Hv Hi. pose proof Hi as Hi'. apply in_window_spec in Hi'. destruct Hi' as (Hx & Hy & Hz).
  unfold translate_z. destruct (Z.eqb_spec k 0) as [->|Hk].
  - rewrite inb_zero by exact Hz. rewrite shift_zero. reflexivity.
  - pose proof Hv as Hv'. destruct Hv' as (A&B&C&D&E&F&G&H&I31).
    assert (R : g_read (set_oz (blank_cells g (cells_z g k) e) (new_offset (g_oz g) (g_nz g) k)) (x, y, z)
                = g_read (blank_cells g (cells_z g k) e) (x, y, src (g_nz g) z k)).
    { unfold g_read. change (in_window (set_oz ?h _) ?i) with (in_window h i).
      change (in_window (blank_cells g ?c e) ?i) with (in_window g i).
      rewrite Hi. assert (Hs : in_window g (x, y, src (g_nz g) z k) = true)
        by (apply in_window_spec; repeat split; try assumption; apply src_lt; exact C).
      rewrite Hs. f_equal. unfold lin. cbn [g_ox g_oy g_oz g_nx g_ny g_nz set_oz blank_cells with_buf].
      rewrite wrap_new_offset by (try assumption; apply I31). reflexivity. }
    rewrite R. rewrite blank_cells_read; try assumption;
      [|apply cells_z_window; exact Hv|apply in_window_spec; repeat split; try assumption; apply src_lt; exact C].
    destruct (inb (g_nz g) z k) eqn:Einb.
    + replace (existsb _ _) with false.
      * rewrite src_shift by exact Einb. reflexivity.
      * symmetry. apply not_true_is_false. rewrite existsb_idx, in_cells_z. intros (_ & _ & Hin).
        apply src_in_run in Hin; try assumption. congruence.
    + replace (existsb _ _) with true; [reflexivity|]. symmetry. rewrite existsb_idx, in_cells_z.
      repeat split; try assumption. apply src_in_run; assumption.
Qed.

(* ------------------------------------------------------------------ refinement *)
Definition refines (g : wgrid) (w : spec) : Prop :=
  forall i, in_window g i = true -> g_read g i = Some (w i).

Definition kz_eff (g : wgrid) (kz : Z) : Z := if g_dim3 g then kz else 0%Z.

Definition sstep (g : wgrid) (w : spec (V:=V)) (o : gop) : spec :=
  match o with
  | GTranslate kx ky kz e => spec_translate (g_nx g) (g_ny g) (g_nz g) w kx ky (kz_eff g kz) e
  | GWrite i v => if in_window g i then spec_write w i v else w
  end.

Lemma inb_shift_window n x k : inb n x k = true -> shift x k < n.
Proof. unfold inb, shift. rewrite andb_true_iff, Z.leb_le, Z.ltb_lt. lia. Qed.

Lemma translate_refines (g : wgrid) w kx ky kz e : valid g -> refines g w ->
  let g' := translate g kx ky kz e in
  valid g' /\ same_shape g g' /\ refines g' (sstep g w (GTranslate kx ky kz e)).
Proof.
  intros Hv Hr. cbv zeta.
  pose proof (translate_x_valid g kx e Hv) as V1. pose proof (translate_x_shape g kx e) as S1.
  set (g1 := translate_x g kx e) in *.
  pose proof (translate_y_valid g1 ky e V1) as V2. pose proof (translate_y_shape g1 ky e) as S2.
  set (g2 := translate_y g1 ky e) in *.
  pose proof (translate_z_valid g2 kz e V2) as V3. pose proof (translate_z_shape g2 kz e) as S3.
  destruct S1 as (D1 & X1 & Y1 & Z1). destruct S2 as (D2 & X2 & Y2 & Z2). destruct S3 as (D3 & X3 & Y3 & Z3).
  assert (Hw : forall h, same_shape g h -> forall i, in_window h i = in_window g i).
  { intros h (_ & A & B & C) [[x y] z]. unfold in_window. rewrite A, B, C. reflexivity. }
  unfold translate. fold g1. fold g2. unfold sstep, spec_translate, kz_eff.
  destruct (g_dim3 g) eqn:Ed.
  - split; [exact V3|]. split; [unfold same_shape; repeat split; congruence|].
    intros [[x y] z] Hi.
    assert (Hi2 : in_window g2 (x, y, z) = true).
    { rewrite <- Hi. unfold in_window. rewrite X3, Y3, Z3. reflexivity. }
    rewrite translate_z_read by assumption.
    rewrite Z2, Z1.
    destruct (inb (g_nz g) z kz) eqn:Ez; [|rewrite !andb_false_r; reflexivity].
    assert (Hi1 : in_window g1 (x, y, shift z kz) = true).
    { apply in_window_spec in Hi2. apply in_window_spec. rewrite <- X2, <- Y2. rewrite Z1.
      repeat split; try apply Hi2. apply inb_shift_window. exact Ez. }
    assert (Hi2' : in_window g2 (x, y, shift z kz) = true).
    { rewrite <- Hi1. unfold in_window. rewrite X2, Y2, Z2. reflexivity. }
    unfold g2 at 1. rewrite translate_y_read by assumption. rewrite Y1.
    destruct (inb (g_ny g) y ky) eqn:Ey; [|rewrite !andb_false_r; reflexivity].
    assert (Hi0 : in_window g (x, shift y ky, shift z kz) = true).
    { apply in_window_spec in Hi1. apply in_window_spec. rewrite <- X1, <- Z1.
      repeat split; try apply Hi1. apply inb_shift_window. exact Ey. }
    unfold g1 at 1. rewrite translate_x_read by assumption.
    destruct (inb (g_nx g) x kx) eqn:Ex; [|reflexivity]. cbn [andb].
    apply Hr. apply in_window_spec in Hi0. apply in_window_spec.
    repeat split; try apply Hi0. apply inb_shift_window. exact Ex.
  - split; [exact V2|]. split; [unfold same_shape; repeat split; congruence|].
    intros [[x y] z] Hi.
    assert (Hnz : g_nz g = 1) by (destruct Hv as (_&_&_&_&_&_&_&H1&_); apply H1; exact Ed).
    assert (Hz0 : z = 0) by (pose proof Hi as Hi'; apply in_window_spec in Hi'; rewrite Z2, Z1 in Hi'; lia).
    assert (Ez : inb (g_nz g) z 0 = true).
    { apply inb_zero. destruct Hv as (_&_&C&_). subst z. exact C. }
    rewrite Ez, andb_true_r. rewrite shift_zero.
    unfold g2 at 1.
    assert (Hi1 : in_window g1 (x, y, z) = true).
    { rewrite <- Hi. unfold in_window. rewrite X2, Y2, Z2. reflexivity. }
    rewrite translate_y_read by assumption. rewrite Y1.
    destruct (inb (g_ny g) y ky) eqn:Ey; [|rewrite !andb_false_r; reflexivity].
    assert (Hi0 : in_window g (x, shift y ky, z) = true).
    { apply in_window_spec in Hi1. apply in_window_spec. rewrite <- X1, <- Z1.
      repeat split; try apply Hi1. apply inb_shift_window. exact Ey. }
    unfold g1 at 1. rewrite translate_x_read by assumption.
    destruct (inb (g_nx g) x kx) eqn:Ex; [|reflexivity]. cbn [andb].
    apply Hr. apply in_window_spec in Hi0. apply in_window_spec.
    repeat split; try apply Hi0. apply inb_shift_window. exact Ex.
Qed.

Lemma write_refines (g : wgrid) w i v : valid g -> refines g w ->
  let g' := g_write g i v in
  valid g' /\ same_shape g g' /\ refines g' (sstep g w (GWrite i v)).
Proof.
  intros Hv Hr. cbv zeta. unfold g_write, sstep. destruct (in_window g i) eqn:Hi.
  - split; [apply with_buf_valid; [exact Hv|apply set_nth_length]|].
    split; [unfold same_shape, with_buf; cbn; repeat split; reflexivity|].
    intros j Hj. change (in_window (with_buf g _) j) with (in_window g j) in Hj.
    unfold g_read. change (in_window (with_buf g _) j) with (in_window g j). rewrite Hj.
    change (lin (with_buf g ?b) j) with (lin g j). cbn [g_buf with_buf].
    rewrite nth_error_set_nth by (apply lin_lt; exact Hv).
    unfold spec_write. destruct (idx_eqb j i) eqn:E.
    + apply idx_eqb_eq in E. subst j. rewrite Nat.eqb_refl. reflexivity.
    + destruct (Nat.eqb_spec (lin g j) (lin g i)) as [El|El].
      * apply lin_inj in El; try assumption. subst j.
        assert (idx_eqb i i = true) by (apply idx_eqb_eq; reflexivity). congruence.
      * specialize (Hr j Hj). unfold g_read in Hr. rewrite Hj in Hr. exact Hr.
  - split; [exact Hv|]. split; [unfold same_shape; repeat split; reflexivity|exact Hr].
Qed.

Lemma step_refines (g : wgrid) w o : valid g -> refines g w ->
  valid (gstep g o) /\ same_shape g (gstep g o) /\ refines (gstep g o) (sstep g w o).
Proof. destruct o as [kx ky kz e|i v]; cbn [gstep]; [apply translate_refines|apply write_refines]. Qed.

Lemma sstep_shape (g : wgrid) g' w o : same_shape g g' -> sstep g' w o = sstep g w o.
Proof.
  intros (A & B & C & D). destruct o as [kx ky kz e|i v]; unfold sstep, kz_eff.
  - rewrite A, B, C, D. reflexivity.
  - destruct i as [[x y] z]. unfold in_window. rewrite B, C, D. reflexivity.
Qed.

(* every sequence of translations and writes *)
Theorem wrap_refines_window : forall ops g w, valid g -> refines g w ->
  let g' := fold_left gstep ops g in
  valid g' /\ same_shape g g' /\ refines g' (fold_left (sstep g) ops w).
Proof.
  induction ops as [|o ops IH]; intros g w Hv Hr; cbn [fold_left].
  - split; [exact Hv|]. split; [unfold same_shape; repeat split; reflexivity|exact Hr].
  - destruct (step_refines g w o Hv Hr) as (V1 & S1 & R1).
    destruct (IH (gstep g o) (sstep g w o) V1 R1) as (V2 & S2 & R2).
    split; [exact V2|]. split.
    + destruct S1 as (a&b&c&d), S2 as (a'&b'&c'&d'). unfold same_shape. repeat split; congruence.
    + replace (fold_left (sstep g) ops (sstep g w o)) with (fold_left (sstep (gstep g o)) ops (sstep g w o)); [exact R2|].
      clear - S1. generalize (sstep g w o). induction ops as [|o' ops IH']; intros w'; cbn [fold_left]; [reflexivity|].
      rewrite (sstep_shape g (gstep g o)) by exact S1. apply IH'.
Qed.

(* ------------------------------------------------------------------ offsets *)
Definition op_k (o : gop (V:=V)) : Z * Z * Z :=
  match o with GTranslate kx ky kz _ => (kx, ky, kz) | GWrite _ _ => (0, 0, 0)%Z end.

Lemma translate_x_offset (g : wgrid) k e : valid g -> Z.of_nat (g_ox (translate_x g k e)) = ((Z.of_nat (g_ox g) + k) mod Z.of_nat (g_nx g))%Z.
Proof.
  intros (A&B&C&D&E&F&G&H&I). unfold translate_x. destruct (Z.eqb_spec k 0) as [->|Hk].
  - rewrite Z.add_0_r, Z.mod_small by lia. reflexivity.
  - cbn [g_ox set_ox]. apply new_offset_spec; try assumption. apply I.
Qed.
Lemma translate_y_offset (g : wgrid) k e : valid g -> Z.of_nat (g_oy (translate_y g k e)) = ((Z.of_nat (g_oy g) + k) mod Z.of_nat (g_ny g))%Z.
Proof.
  intros (A&B&C&D&E&F&G&H&I). unfold translate_y. destruct (Z.eqb_spec k 0) as [->|Hk].
  - rewrite Z.add_0_r, Z.mod_small by lia. reflexivity.
  - cbn [g_oy set_oy]. apply new_offset_spec; try assumption. apply I.
Qed.
Lemma translate_z_offset (g : wgrid) k e : valid g -> Z.of_nat (g_oz (translate_z g k e)) = ((Z.of_nat (g_oz g) + k) mod Z.of_nat (g_nz g))%Z.
Proof.
  intros (A&B&C&D&E&F&G&H&I). unfold translate_z. destruct (Z.eqb_spec k 0) as [->|Hk].
  - rewrite Z.add_0_r, Z.mod_small by lia. reflexivity.
  - cbn [g_oz set_oz]. apply new_offset_spec; try assumption. apply I.
Qed.

Lemma ox_translate_y (g : wgrid) k e : g_ox (translate_y g k e) = g_ox g.
Proof. unfold translate_y. destruct (Z.eqb k 0); reflexivity. Qed.
Lemma ox_translate_z (g : wgrid) k e : g_ox (translate_z g k e) = g_ox g.
Proof. unfold translate_z. destruct (Z.eqb k 0); reflexivity. Qed.
Lemma oy_translate_x (g : wgrid) k e : g_oy (translate_x g k e) = g_oy g.
Proof. unfold translate_x. destruct (Z.eqb k 0); reflexivity. Qed.
Lemma oy_translate_z (g : wgrid) k e : g_oy (translate_z g k e) = g_oy g.
Proof. unfold translate_z. destruct (Z.eqb k 0); reflexivity. Qed.
Lemma oz_translate_x (g : wgrid) k e : g_oz (translate_x g k e) = g_oz g.
Proof. unfold translate_x. destruct (Z.eqb k 0); reflexivity. Qed.
Lemma oz_translate_y (g : wgrid) k e : g_oz (translate_y g k e) = g_oz g.
Proof. unfold translate_y. destruct (Z.eqb k 0); reflexivity. Qed.

Lemma step_offsets (g : wgrid) o : valid g ->
  let '(kx, ky, kz) := op_k o in
  Z.of_nat (g_ox (gstep g o)) = ((Z.of_nat (g_ox g) + kx) mod Z.of_nat (g_nx g))%Z /\
  Z.of_nat (g_oy (gstep g o)) = ((Z.of_nat (g_oy g) + ky) mod Z.of_nat (g_ny g))%Z /\
  (g_dim3 g = true -> Z.of_nat (g_oz (gstep g o)) = ((Z.of_nat (g_oz g) + kz) mod Z.of_nat (g_nz g))%Z).
Proof.
  intros Hv. destruct o as [kx ky kz e|i v]; cbn [op_k gstep].
  - unfold translate.
    pose proof (translate_x_valid g kx e Hv) as V1. pose proof (translate_x_shape g kx e) as (D1&X1&Y1&Z1).
    pose proof (translate_y_valid _ ky e V1) as V2. pose proof (translate_y_shape (translate_x g kx e) ky e) as (D2&X2&Y2&Z2).
    destruct (g_dim3 g) eqn:Ed.
    + rewrite ox_translate_z, ox_translate_y, oy_translate_z.
      rewrite translate_x_offset by assumption. rewrite translate_y_offset by assumption.
      rewrite translate_z_offset by assumption.
      rewrite oy_translate_x, oz_translate_y, oz_translate_x, Y1, Z2, Z1. auto.
    + rewrite ox_translate_y. rewrite translate_x_offset by assumption. rewrite translate_y_offset by assumption.
      rewrite oy_translate_x, Y1. split; [reflexivity|]. split; [reflexivity|discriminate].
  - destruct Hv as (A&B&C&D&E&F&_). unfold g_write. destruct (in_window g i); cbn [g_ox g_oy g_oz with_buf];
      rewrite !Z.add_0_r, !Z.mod_small by lia; auto.
Qed.

Lemma step_valid (g : wgrid) o : valid g -> valid (gstep g o) /\ same_shape g (gstep g o).
Proof.
  intros Hv. destruct o as [kx ky kz e|i v]; cbn [gstep].
  - unfold translate.
    pose proof (translate_x_valid g kx e Hv) as V1. pose proof (translate_x_shape g kx e) as (D1&X1&Y1&Z1).
    pose proof (translate_y_valid _ ky e V1) as V2. pose proof (translate_y_shape (translate_x g kx e) ky e) as (D2&X2&Y2&Z2).
    pose proof (translate_z_valid _ kz e V2) as V3.
    pose proof (translate_z_shape (translate_y (translate_x g kx e) ky e) kz e) as (D3&X3&Y3&Z3).
    destruct (g_dim3 g) eqn:Ed; (split; [assumption|unfold same_shape; repeat split; congruence]).
  - unfold g_write. destruct (in_window g i).
    + split; [apply with_buf_valid; [exact Hv|apply set_nth_length]|unfold same_shape, with_buf; cbn; repeat split; reflexivity].
    + split; [exact Hv|unfold same_shape; repeat split; reflexivity].
Qed.

Definition acc_k (acc : Z * Z * Z) (o : gop (V:=V)) : Z * Z * Z :=
  let '(a, b, c) := acc in let '(x, y, z) := op_k o in (a + x, b + y, c + z)%Z.

Lemma offsets_congruent : forall ops g a b c, valid g ->
  Z.of_nat (g_ox g) = (a mod Z.of_nat (g_nx g))%Z -> Z.of_nat (g_oy g) = (b mod Z.of_nat (g_ny g))%Z ->
  (g_dim3 g = true -> Z.of_nat (g_oz g) = (c mod Z.of_nat (g_nz g))%Z) ->
  let g' := fold_left gstep ops g in
  let '(sx, sy, sz) := fold_left acc_k ops (a, b, c) in
  Z.of_nat (g_ox g') = (sx mod Z.of_nat (g_nx g))%Z /\
  Z.of_nat (g_oy g') = (sy mod Z.of_nat (g_ny g))%Z /\
  (g_dim3 g = true -> Z.of_nat (g_oz g') = (sz mod Z.of_nat (g_nz g))%Z).
Proof.
  induction ops as [|o ops IH]; intros g a b c Hv Ha Hb Hc; cbn [fold_left]; [cbv zeta; auto|].
  pose proof (step_offsets g o Hv) as S. unfold acc_k at 2. destruct (op_k o) as [[kx ky] kz] eqn:Ek.
  destruct S as (S1 & S2 & S3). destruct (step_valid g o Hv) as (V1 & (D1 & X1 & Y1 & Z1)).
  assert (Hx : (0 < Z.of_nat (g_nx g))%Z) by (destruct Hv as (A&_); lia).
  assert (Hy : (0 < Z.of_nat (g_ny g))%Z) by (destruct Hv as (_&B&_); lia).
  assert (Hz : (0 < Z.of_nat (g_nz g))%Z) by (destruct Hv as (_&_&C&_); lia).
  specialize (IH (gstep g o) (a + kx)%Z (b + ky)%Z (c + kz)%Z V1).
  rewrite D1, X1, Y1, Z1 in IH. apply IH.
  - rewrite S1, Ha. rewrite Z.add_mod_idemp_l by lia. reflexivity.
  - rewrite S2, Hb. rewrite Z.add_mod_idemp_l by lia. reflexivity.
  - intros Hd. rewrite (S3 Hd), (Hc Hd). rewrite Z.add_mod_idemp_l by lia. reflexivity.
Qed.

(* the reported offset is the accumulated offset modulo the grid size *)
Theorem offset_is_sum_mod : forall ops g, valid g -> g_ox g = 0 -> g_oy g = 0 -> g_oz g = 0 ->
  let g' := fold_left gstep ops g in
  let '(sx, sy, sz) := fold_left acc_k ops (0, 0, 0)%Z in
  Z.of_nat (g_ox g') = (sx mod Z.of_nat (g_nx g))%Z /\
  Z.of_nat (g_oy g') = (sy mod Z.of_nat (g_ny g))%Z /\
  (g_dim3 g = true -> Z.of_nat (g_oz g') = (sz mod Z.of_nat (g_nz g))%Z).
Proof.
  intros ops g Hv Hx Hy Hz. apply offsets_congruent; try assumption.
  - rewrite Hx. rewrite Z.mod_0_l; [reflexivity|destruct Hv as (A&_); lia].
  - rewrite Hy. rewrite Z.mod_0_l; [reflexivity|destruct Hv as (_&B&_); lia].
  - intros _. rewrite Hz. rewrite Z.mod_0_l; [reflexivity|destruct Hv as (_&_&C&_); lia].
Qed.

(* a freshly constructed grid is valid and refines the constant window *)
Lemma init_valid dim3 nx ny nz (d : V) : 0 < nx -> 0 < ny -> 0 < nz ->
  (Z.of_nat nx < 2 ^ 31)%Z -> (Z.of_nat ny < 2 ^ 31)%Z -> (Z.of_nat nz < 2 ^ 31)%Z ->
  valid (g_init dim3 nx ny nz d) /\ refines (g_init dim3 nx ny nz d) (fun _ => d).
Proof.
  intros Hx Hy Hz Bx By Bz.
  assert (Hv : valid (g_init dim3 nx ny nz d)).
  { unfold valid, g_init. cbn. rewrite repeat_length. destruct dim3; repeat split; try lia; try reflexivity; try discriminate. }
  split; [exact Hv|]. intros i Hi. unfold g_read. rewrite Hi.
  pose proof (lin_lt _ i Hv) as L. unfold g_init in *. cbn [g_buf] in *.
  destruct (nth_error (repeat d _) _) eqn:E.
  - apply nth_error_In in E. apply repeat_spec in E. subst. reflexivity.
  - apply nth_error_None in E. lia.
Qed.
End Proofs.
