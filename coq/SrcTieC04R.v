(* SrcTieC04R.v — C04 source tie, summary statements.
   (1) for every numeric dictionary with the literal laws [KabschLits]: whenever the model's guarded functions
       estimate_corr / estimate_aligned / find_* are defined (indices in range, sets of equal size), the terms generated from
       the source (gen/SrcKabsch.v) return the same matrix — all four point types, all six member functions;
   (2) [KabschLits_R]: the real dictionary satisfies the laws;
   (3) end-to-end, over the reals: the optimality / proper-rotation theorems of KabschLists.v / KabschPrecond.v stated
       directly about the generated terms. *)
From Coq Require Import Reals List Arith ZArith Bool Lia Lra.
From Romea Require Import Num NumR LinAlgBModel LinAlgBProofs LsProofs KabschModel KabschProofs KabschProper KabschLists KabschPrecond.
From Romea Require Import SrcMat SrcFold SrcTieC04.
From Romea.gen Require Import SrcKabsch.
Import ListNotations.

Lemma KabschLits_R : KabschLits ROps.
Proof. split; [reflexivity|]. intros x. cbn [nmul nofZ nneg ROps]. ring. Qed.

Section Summary.
Context {T : Type} (N : NumOps T) (L : KabschLits N).
Variable svd_of : nat -> list (list T) -> (list (list T) * list T) * list (list T).

Local Notation PS := (list (list T)).
Local Notation CS := (list (nat * nat)).

Lemma corr_tied d ps (f : PS -> PS -> CS -> PS) :
  (forall src tgt corr, f src tgt corr = estimate_pairs N svd_of true d ps (corr_pairs src tgt corr)) ->
  forall src tgt corr H, estimate_corr N svd_of true d ps src tgt corr = Some H -> f src tgt corr = H.
Proof. intros Hf src tgt corr H E. rewrite Hf. symmetry. exact (estimate_corr_Some N svd_of _ _ _ _ _ _ E). Qed.

Lemma aligned_tied d ps (f : PS -> PS -> PS) :
  (forall src tgt, length src = length tgt -> f src tgt = estimate_pairs N svd_of true d ps (combine src tgt)) ->
  forall src tgt H, estimate_aligned N svd_of true d ps src tgt = Some H -> f src tgt = H.
Proof.
  intros Hf src tgt H E. destruct (estimate_aligned_Some N svd_of _ _ _ _ _ E) as [Hl ->]. now apply Hf.
Qed.

Lemma pre_corr_tied d ps (f : PS -> PS -> PS -> PS -> CS -> PS) :
  (forall sp sm tp tm corr,
     f sp sm tp tm corr = unscale_translation N d (estimate_pairs N svd_of true d ps (corr_pairs sp tp corr)) (mcomp N tm 0 0)) ->
  forall ssrc stgt src tgt corr H Ms Mt,
    find_corr_pre N svd_of true d ps ssrc stgt src tgt corr = Some H -> mcomp N Mt 0 0 = precond_matrix00 N stgt ->
    f (precondition N ssrc src) Ms (precondition N stgt tgt) Mt corr = H.
Proof.
  intros Hf ssrc stgt src tgt corr H Ms Mt E Hm. rewrite Hf, Hm. symmetry.
  exact (find_corr_pre_Some N svd_of _ _ _ _ _ _ _ _ E).
Qed.

Lemma pre_aligned_tied d ps (f : PS -> PS -> PS -> PS -> PS) :
  (forall sp sm tp tm, length sp = length tp ->
     f sp sm tp tm = unscale_translation N d (estimate_pairs N svd_of true d ps (combine sp tp)) (mcomp N tm 0 0)) ->
  forall ssrc stgt src tgt H Ms Mt,
    find_aligned_pre N svd_of true d ps ssrc stgt src tgt = Some H -> mcomp N Mt 0 0 = precond_matrix00 N stgt ->
    f (precondition N ssrc src) Ms (precondition N stgt tgt) Mt = H.
Proof.
  intros Hf ssrc stgt src tgt H Ms Mt E Hm. destruct (find_aligned_pre_Some N svd_of _ _ _ _ _ _ _ E) as [Hl ->].
  rewrite Hf, Hm; [reflexivity|]. unfold precondition. now rewrite !map_length.
Qed.

(* both estimate_ overloads, four point types *)
Lemma source_tie_estimate_all :
  (forall src tgt corr H, estimate_corr N svd_of true 2 2 src tgt corr = Some H -> src_estimate_corr_v2 N (svd_of 2) src tgt corr = H) /\
  (forall src tgt corr H, estimate_corr N svd_of true 3 3 src tgt corr = Some H -> src_estimate_corr_v3 N (svd_of 3) src tgt corr = H) /\
  (forall src tgt corr H, estimate_corr N svd_of true 2 3 src tgt corr = Some H -> src_estimate_corr_h2 N (svd_of 2) src tgt corr = H) /\
  (forall src tgt corr H, estimate_corr N svd_of true 3 4 src tgt corr = Some H -> src_estimate_corr_h3 N (svd_of 3) src tgt corr = H) /\
  (forall src tgt H, estimate_aligned N svd_of true 2 2 src tgt = Some H -> src_estimate_aligned_v2 N (svd_of 2) src tgt = H) /\
  (forall src tgt H, estimate_aligned N svd_of true 3 3 src tgt = Some H -> src_estimate_aligned_v3 N (svd_of 3) src tgt = H) /\
  (forall src tgt H, estimate_aligned N svd_of true 2 3 src tgt = Some H -> src_estimate_aligned_h2 N (svd_of 2) src tgt = H) /\
  (forall src tgt H, estimate_aligned N svd_of true 3 4 src tgt = Some H -> src_estimate_aligned_h3 N (svd_of 3) src tgt = H).
Proof using L.
  repeat split.
  - apply corr_tied, (tie_estimate_corr_v2 N L).
  - apply corr_tied, (tie_estimate_corr_v3 N L).
  - apply corr_tied, (tie_estimate_corr_h2 N L).
  - apply corr_tied, (tie_estimate_corr_h3 N L).
  - apply aligned_tied, (tie_estimate_aligned_v2 N L).
  - apply aligned_tied, (tie_estimate_aligned_v3 N L).
  - apply aligned_tied, (tie_estimate_aligned_h2 N L).
  - apply aligned_tied, (tie_estimate_aligned_h3 N L).
Qed.

(* find(PointSet, PointSet, correspondences) and find(PointSet, PointSet) *)
Lemma source_tie_find_plain_all :
  (forall src tgt corr H, find_corr N svd_of true 2 2 src tgt corr = Some H -> src_find_corr_v2 N (svd_of 2) src tgt corr = H) /\
  (forall src tgt corr H, find_corr N svd_of true 3 3 src tgt corr = Some H -> src_find_corr_v3 N (svd_of 3) src tgt corr = H) /\
  (forall src tgt corr H, find_corr N svd_of true 2 3 src tgt corr = Some H -> src_find_corr_h2 N (svd_of 2) src tgt corr = H) /\
  (forall src tgt corr H, find_corr N svd_of true 3 4 src tgt corr = Some H -> src_find_corr_h3 N (svd_of 3) src tgt corr = H) /\
  (forall src tgt H, find_aligned N svd_of true 2 2 src tgt = Some H -> src_find_aligned_v2 N (svd_of 2) src tgt = H) /\
  (forall src tgt H, find_aligned N svd_of true 3 3 src tgt = Some H -> src_find_aligned_v3 N (svd_of 3) src tgt = H) /\
  (forall src tgt H, find_aligned N svd_of true 2 3 src tgt = Some H -> src_find_aligned_h2 N (svd_of 2) src tgt = H) /\
  (forall src tgt H, find_aligned N svd_of true 3 4 src tgt = Some H -> src_find_aligned_h3 N (svd_of 3) src tgt = H).
Proof using L.
  unfold find_corr, find_aligned. repeat split.
  - apply corr_tied, (tie_find_corr_v2 N L).
  - apply corr_tied, (tie_find_corr_v3 N L).
  - apply corr_tied, (tie_find_corr_h2 N L).
  - apply corr_tied, (tie_find_corr_h3 N L).
  - apply aligned_tied, (tie_find_aligned_v2 N L).
  - apply aligned_tied, (tie_find_aligned_v3 N L).
  - apply aligned_tied, (tie_find_aligned_h2 N L).
  - apply aligned_tied, (tie_find_aligned_h3 N L).
Qed.

(* find(PreconditionedPointSet, PreconditionedPointSet[, correspondences]): the generated functions take the data members of
   the two sets: the stored (scaled) points and the preconditioning matrix; Ms, Mt are these matrices, of which only entry
   (0,0) of the target's is read *)
Lemma source_tie_find_preconditioned_all :
  (forall ssrc stgt src tgt corr H Ms Mt, find_corr_pre N svd_of true 2 2 ssrc stgt src tgt corr = Some H -> mcomp N Mt 0 0 = precond_matrix00 N stgt ->
     src_find_pre_corr_v2 N (svd_of 2) (precondition N ssrc src) Ms (precondition N stgt tgt) Mt corr = H) /\
  (forall ssrc stgt src tgt corr H Ms Mt, find_corr_pre N svd_of true 3 3 ssrc stgt src tgt corr = Some H -> mcomp N Mt 0 0 = precond_matrix00 N stgt ->
     src_find_pre_corr_v3 N (svd_of 3) (precondition N ssrc src) Ms (precondition N stgt tgt) Mt corr = H) /\
  (forall ssrc stgt src tgt corr H Ms Mt, find_corr_pre N svd_of true 2 3 ssrc stgt src tgt corr = Some H -> mcomp N Mt 0 0 = precond_matrix00 N stgt ->
     src_find_pre_corr_h2 N (svd_of 2) (precondition N ssrc src) Ms (precondition N stgt tgt) Mt corr = H) /\
  (forall ssrc stgt src tgt corr H Ms Mt, find_corr_pre N svd_of true 3 4 ssrc stgt src tgt corr = Some H -> mcomp N Mt 0 0 = precond_matrix00 N stgt ->
     src_find_pre_corr_h3 N (svd_of 3) (precondition N ssrc src) Ms (precondition N stgt tgt) Mt corr = H) /\
  (forall ssrc stgt src tgt H Ms Mt, find_aligned_pre N svd_of true 2 2 ssrc stgt src tgt = Some H -> mcomp N Mt 0 0 = precond_matrix00 N stgt ->
     src_find_pre_aligned_v2 N (svd_of 2) (precondition N ssrc src) Ms (precondition N stgt tgt) Mt = H) /\
  (forall ssrc stgt src tgt H Ms Mt, find_aligned_pre N svd_of true 3 3 ssrc stgt src tgt = Some H -> mcomp N Mt 0 0 = precond_matrix00 N stgt ->
     src_find_pre_aligned_v3 N (svd_of 3) (precondition N ssrc src) Ms (precondition N stgt tgt) Mt = H) /\
  (forall ssrc stgt src tgt H Ms Mt, find_aligned_pre N svd_of true 2 3 ssrc stgt src tgt = Some H -> mcomp N Mt 0 0 = precond_matrix00 N stgt ->
     src_find_pre_aligned_h2 N (svd_of 2) (precondition N ssrc src) Ms (precondition N stgt tgt) Mt = H) /\
  (forall ssrc stgt src tgt H Ms Mt, find_aligned_pre N svd_of true 3 4 ssrc stgt src tgt = Some H -> mcomp N Mt 0 0 = precond_matrix00 N stgt ->
     src_find_pre_aligned_h3 N (svd_of 3) (precondition N ssrc src) Ms (precondition N stgt tgt) Mt = H).
Proof using L.
  repeat split.
  - apply pre_corr_tied, (tie_find_pre_corr_v2 N L).
  - apply pre_corr_tied, (tie_find_pre_corr_v3 N L).
  - apply pre_corr_tied, (tie_find_pre_corr_h2 N L).
  - apply pre_corr_tied, (tie_find_pre_corr_h3 N L).
  - apply pre_aligned_tied, (tie_find_pre_aligned_v2 N L).
  - apply pre_aligned_tied, (tie_find_pre_aligned_v3 N L).
  - apply pre_aligned_tied, (tie_find_pre_aligned_h2 N L).
  - apply pre_aligned_tied, (tie_find_pre_aligned_h3 N L).
Qed.

End Summary.

(* ---------- end to end, over the reals ---------- *)
Section EndToEnd.
Local Open Scope R_scope.
Variable svd_of : nat -> list (list R) -> (list (list R) * list R) * list (list R).
Local Notation PS := (list (list R)).
Local Notation CS := (list (nat * nat)).

(* what the optimality theorem says of a matrix H for the listed pairs *)
Definition optimal_proper_motion (d : nat) (pairs : list (list R * list R)) (H : list (list R)) : Prop :=
  (is_orth d (mget ROps H) /\ fdet ROps d (mget ROps H) = 1) /\
  forall Q tau, is_orth d Q -> fdet ROps d Q = 1 ->
    fcost d pairs (mget ROps H) (fun i => mget ROps H i d) <= fcost d pairs Q tau.

Lemma estimate_pairs_optimal d ps pairs : (d = 2 \/ d = 3)%nat -> (d <= ps)%nat -> pairs <> [] ->
  (let cov := cross_cov ROps d pairs (mean_of ROps ps (map fst pairs)) (mean_of ROps ps (map snd pairs)) in
   svd_contract d cov (svd_of d cov)) ->
  optimal_proper_motion d pairs (estimate_pairs ROps svd_of true d ps pairs).
Proof.
  intros Hd Hps Hne Hc. split.
  - exact (estimate_is_proper_rotation svd_of d ps pairs Hd Hc).
  - exact (estimate_optimal svd_of d ps pairs Hd Hps Hne Hc).
Qed.

Lemma src_corr_optimal d ps (f : PS -> PS -> CS -> PS) : (d = 2 \/ d = 3)%nat -> (d <= ps)%nat ->
  (forall src tgt corr, f src tgt corr = estimate_pairs ROps svd_of true d ps (corr_pairs src tgt corr)) ->
  forall src tgt corr prs, pairs_of_corr src tgt corr = Some prs -> prs <> [] ->
  (let cov := cross_cov ROps d prs (mean_of ROps ps (map fst prs)) (mean_of ROps ps (map snd prs)) in
   svd_contract d cov (svd_of d cov)) ->
  optimal_proper_motion d prs (f src tgt corr).
Proof.
  intros Hd Hps Hf src tgt corr prs E Hne Hc. rewrite Hf, <- (pairs_of_corr_Some _ _ _ _ E).
  now apply estimate_pairs_optimal.
Qed.

Lemma src_aligned_optimal d ps (f : PS -> PS -> PS) : (d = 2 \/ d = 3)%nat -> (d <= ps)%nat ->
  (forall src tgt, length src = length tgt -> f src tgt = estimate_pairs ROps svd_of true d ps (combine src tgt)) ->
  forall src tgt, length src = length tgt -> src <> [] ->
  (let prs := combine src tgt in
   let cov := cross_cov ROps d prs (mean_of ROps ps (map fst prs)) (mean_of ROps ps (map snd prs)) in
   svd_contract d cov (svd_of d cov)) ->
  optimal_proper_motion d (combine src tgt) (f src tgt).
Proof.
  intros Hd Hps Hf src tgt Hl Hne Hc. rewrite Hf by exact Hl. apply estimate_pairs_optimal; try assumption.
  destruct src as [|s src]; [congruence|]. destruct tgt as [|t tgt]; [discriminate|]. discriminate.
Qed.

(* preconditioned: optimal for the ORIGINAL pairs *)
Lemma src_pre_corr_optimal d ps (f : PS -> PS -> PS -> PS -> CS -> PS) : (d = 2 \/ d = 3)%nat -> (d <= ps)%nat ->
  (forall sp sm tp tm corr,
     f sp sm tp tm corr = unscale_translation ROps d (estimate_pairs ROps svd_of true d ps (corr_pairs sp tp corr)) (mcomp ROps tm 0 0)) ->
  forall c src tgt corr prs Ms Mt, pairs_of_corr src tgt corr = Some prs -> prs <> [] -> c <> 0 ->
  mcomp ROps Mt 0 0 = precond_matrix00 ROps c ->
  (let sp := scale_pairs c prs in
   let cov := cross_cov ROps d sp (mean_of ROps ps (map fst sp)) (mean_of ROps ps (map snd sp)) in
   svd_contract d cov (svd_of d cov)) ->
  optimal_proper_motion d prs (f (precondition ROps c src) Ms (precondition ROps c tgt) Mt corr).
Proof.
  intros Hd Hps Hf c src tgt corr prs Ms Mt E Hne Hc0 Hm Hc.
  pose proof (find_corr_pre_eq svd_of true d ps c src tgt corr prs E) as E2.
  rewrite (pre_corr_tied ROps svd_of d ps f Hf c c src tgt corr _ Ms Mt E2 Hm).
  split.
  - exact (precond_estimate_is_proper_rotation svd_of d ps prs c Hd Hc).
  - exact (precond_estimate_optimal svd_of d ps prs c Hd Hps Hne Hc0 Hc).
Qed.

End EndToEnd.
