(* P2pModel.v — executable model of romea::core::FindRigidTransformationByLeastSquares<PointType> (property C05)
   src/transform/estimation/FindRigidTransformationByLeastSquares.cpp, on top of the LeastSquares model (LsModel.v).
   Definitions only.

   The estimator object owns one LeastSquares<Scalar> (estimate size 3 in 2D, 6 in 3D) that lives across calls:
   its state is the [ls_state] threaded through [p2p_find_*].  A point / normal is the list of its POINT_SIZE
   coordinates (d Cartesian ones, plus w for homogeneous types).  Unknowns: (tau, omega): 2D (tx, ty, w),
   3D (tx, ty, tz, wx, wy, wz). *)
From Coq Require Import List Arith Bool.
From Romea Require Import Num LinAlgBModel LsModel.
Import ListNotations.

Section P2p.
Context {T : Type} (N : NumOps T).
Variable inverse_of : nat -> list (list T) -> list (list T).
Variable svd_of : nat -> list (list T) -> (list (list T) * list T) * list (list T).

Definition p2p_k (d : nat) : nat := match d with 2%nat => 3%nat | _ => 6%nat end.

(* FindRigidTransformationByLeastSquares(): leastSquares_() then setEstimateSize(3 | 6) *)
Definition p2p_new (d : nat) : ls_state (T:=T) := ls_set_estimate_size N (p2p_k d) ls_new0.

(* setPreconditioner: Ac = Identity(k); Ac.block(0,0,d,d) /= scale; leastSquares_.setPreconditionner(Ac) *)
Definition p2p_precond_matrix (d : nat) (scale : T) : list (list T) :=
  mtab (p2p_k d) (p2p_k d) (fun i j => if andb (Nat.ltb i d) (Nat.ltb j d) then ndiv N (fid N i j) scale else fid N i j).
Definition p2p_set_preconditioner (d : nat) (scale : T) (st : ls_state) : ls_state :=
  ls_set_precond_A N (p2p_precond_matrix d scale) st.

(* one row of J: [n, s x n] *)
Definition p2p_row (d : nat) (s n : list T) : list T :=
  let sc := vget N s in let nc := vget N n in
  match d with
  | 2%nat => [nc 0%nat; nc 1%nat; nsub N (nmul N (sc 0%nat) (nc 1%nat)) (nmul N (sc 1%nat) (nc 0%nat))]
  | _ => [nc 0%nat; nc 1%nat; nc 2%nat;
          nsub N (nmul N (sc 1%nat) (nc 2%nat)) (nmul N (sc 2%nat) (nc 1%nat));
          nsub N (nmul N (sc 2%nat) (nc 0%nat)) (nmul N (sc 0%nat) (nc 2%nat));
          nsub N (nmul N (sc 0%nat) (nc 1%nat)) (nmul N (sc 1%nat) (nc 0%nat))]
  end.

(* Y(n) = (targetPoint - sourcePoint).dot(targetPointNormal) over all POINT_SIZE stored coordinates *)
Definition p2p_y (ps : nat) (s t n : list T) : T :=
  sumn N ps (fun c => nmul N (nsub N (vget N t c) (vget N s c)) (vget N n c)).

(* setDataSize(numberOfPoints), then J(n,:) and Y(n) for every correspondence.  W_ is not touched by the C++ code:
   in the op language of LsModel a row write carries a weight, so the weight written back is the one already stored
   (the contents of W_ after the setDataSize). *)
Definition p2p_load (fill : T) (svd_fixed : bool) (d ps : nat) (triples : list ((list T * list T) * list T)) (st : ls_state)
  : option ls_state :=
  let n := length triples in
  let rows := map (fun tr : (list T * list T) * list T => p2p_row d (fst (fst tr)) (snd tr)) triples in
  let ys := map (fun tr : (list T * list T) * list T => p2p_y ps (fst (fst tr)) (snd (fst tr)) (snd tr)) triples in
  let ws := ls_W (fst (ls_set_data_size N fill n st)) in
  match ls_run N inverse_of svd_of fill svd_fixed (load_ops N n rows ys ws) st with
  | Some (st1, _) => Some st1
  | None => None
  end.

(* the solution scattered into Identity + skew + translation column *)
Definition p2p_scatter (d : nat) (x : list T) : list (list T) :=
  let e := vget N x in
  match d with
  | 2%nat =>
    mtab 3 3 (fun i j =>
      match i, j with
      | 0%nat, 1%nat => nneg N (e 2%nat) | 1%nat, 0%nat => e 2%nat
      | 0%nat, 2%nat => e 0%nat | 1%nat, 2%nat => e 1%nat
      | _, _ => fid N i j end)
  | _ =>
    mtab 4 4 (fun i j =>
      match i, j with
      | 0%nat, 1%nat => nneg N (e 5%nat) | 1%nat, 0%nat => e 5%nat
      | 0%nat, 2%nat => e 4%nat | 2%nat, 0%nat => nneg N (e 4%nat)
      | 1%nat, 2%nat => nneg N (e 3%nat) | 2%nat, 1%nat => e 3%nat
      | 0%nat, 3%nat => e 0%nat | 1%nat, 3%nat => e 1%nat | 2%nat, 3%nat => e 2%nat
      | _, _ => fid N i j end)
  end.

(* estimate_ : [svd_fixed] selects the repaired / original SVD path of LeastSquares (see LsModel.v) *)
Definition p2p_estimate (fill : T) (svd_fixed : bool) (d ps : nat) (triples : list ((list T * list T) * list T))
           (st : ls_state) : option (ls_state * list (list T)) :=
  match p2p_load fill svd_fixed d ps triples st with
  | None => None
  | Some st1 =>
    match (if svd_fixed then ls_estimate_svd N svd_of st1 else ls_estimate_svd_abs N svd_of st1) with
    | None => None
    | Some (st2, x) => Some (st2, p2p_scatter d x)
    end
  end.

(* correspondences: the normal is indexed by the TARGET index *)
Definition triples_of_corr (src tgt nrm : list (list T)) (corr : list (nat * nat))
  : option (list ((list T * list T) * list T)) :=
  if forallb (fun c : nat * nat => andb (Nat.ltb (fst c) (length src))
                                      (andb (Nat.ltb (snd c) (length tgt)) (Nat.ltb (snd c) (length nrm)))) corr
  then Some (map (fun c : nat * nat => ((nth (fst c) src [], nth (snd c) tgt []), nth (snd c) nrm [])) corr)
  else None.

Definition triples_aligned (src tgt nrm : list (list T)) : option (list ((list T * list T) * list T)) :=
  if andb (Nat.eqb (length src) (length tgt)) (Nat.leb (length src) (length nrm))
  then Some (combine (combine src tgt) (firstn (length src) nrm))
  else None.

Definition p2p_find_corr fill svd_fixed d ps src tgt nrm corr st :=
  match triples_of_corr src tgt nrm corr with
  | Some tr => p2p_estimate fill svd_fixed d ps tr st | None => None end.
Definition p2p_find_aligned fill svd_fixed d ps src tgt nrm st :=
  match triples_aligned src tgt nrm with
  | Some tr => p2p_estimate fill svd_fixed d ps tr st | None => None end.

(* preconditioned overloads: same code on PreconditionedPointSet::get() (every stored coordinate times the scale) *)
Definition p2p_precondition (scale : T) (pts : list (list T)) : list (list T) :=
  map (fun p => map (fun x => nmul N x scale) p) pts.

End P2p.
