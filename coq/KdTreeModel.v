(* KdTreeModel.v — executable model of the nearest-neighbour search of the vendored nanoflann index (C08):
     include/romea_core_common/pointset/kdtree/nanoflann.hpp
        KNNResultSet::init/addPoint/worstDist, L2_Adaptor::operator(), accum_dist,
        KDTreeSingleIndexAdaptor::findNeighbors / computeInitialDistances / searchLevel
     src/pointset/KdTree.cpp  findNearestNeighbor (capacity 1) / findNearestNeighbors (capacity k)
   The tree *build* (divideTree/middleSplit_/planeSplit) is not modelled: the search runs on an explicit
   tree (the real one, dumped by the harness) and [tree_ok_b] checks the invariant the search relies on.
   Definitions only (proofs are in KdTreeProofs.v). *)
From Coq Require Import ZArith List Bool Arith Sorting.Mergesort.
From Romea Require Import Num.
From Romea.gen Require Import RepoConstants.
Import ListNotations.

Module NatSort := Sort NatOrder.

Section KdTree.
Context {T : Type} (N : NumOps T).

(* struct Node: leaf = [left, right) range of positions in vind; inner node = split dimension, the two
   split values and the two children *)
Inductive node : Type :=
  | Leaf (left right : nat)
  | Split (divfeat : nat) (divlow divhigh : T) (child1 child2 : node).

(* the index: root node, vind, root bounding box (low, high per dimension), and the data set *)
Record kdtree : Type := {
  kd_root : node;
  kd_vind : list nat;
  kd_bbox : list (T * T);
  kd_pts : list (list T)       (* point i = nth i kd_pts; every point has veclen() entries *)
}.

Definition coord (p : list T) (i : nat) : T := nth i p (nzero N).
Definition point (pts : list (list T)) (i : nat) : list T := nth i pts [].
Definition vindex (vind : list nat) (i : nat) : nat := nth i vind 0.

(* distance.accum_dist(a, b, i) = (a-b)*(a-b) *)
Definition accum_dist (a b : T) : T := nsq N (nsub N a b).

(* L2_Adaptor::operator()(a, b_idx, size): result = 0; result += diff_i*diff_i in index order
   (for size 4 the four squares are summed left to right and added to 0: the same value) *)
Fixpoint sqdist_acc (acc : T) (a b : list T) : T :=
  match a, b with
  | x :: a', y :: b' => sqdist_acc (nadd N acc (nsq N (nsub N x y))) a' b'
  | _, _ => acc
  end.
Definition sqdist (a b : list T) : T := sqdist_acc (nzero N) a b.

(* ---- KNNResultSet.  The arrays dists[0..count), indices[0..count) are kept here as ONE list of
   (dist, index) pairs stored worst first (= the arrays read from position count-1 down to 0). ---- *)
Record rset : Type := { rs_cap : nat; rs_rev : list (T * nat) }.

(* init(): count = 0, dists[capacity-1] = max() *)
Definition rs_init (k : nat) : rset := {| rs_cap := k; rs_rev := [] |}.
Definition rs_full (r : rset) : bool := length (rs_rev r) =? rs_cap r.

(* worstDist() = dists[capacity-1]: max() until the set is full, then the largest kept distance *)
Definition worstDist (r : rset) : T :=
  if rs_full r then match rs_rev r with (d, _) :: _ => d | [] => nmaxval N end else nmaxval N.

(* the loop of addPoint: from the end, entries with dists[i-1] > dist move one place up *)
Fixpoint ins (d : T) (ix : nat) (l : list (T * nat)) : list (T * nat) :=
  match l with
  | [] => [(d, ix)]
  | (d', i') :: r => if ngtb N d' d then (d', i') :: ins d ix r else (d, ix) :: l
  end.

(* addPoint: what would land at position capacity is dropped (the guards [i<capacity]) *)
Definition addPoint (r : rset) (d : T) (ix : nat) : rset :=
  let l := ins d ix (rs_rev r) in
  {| rs_cap := rs_cap r; rs_rev := if rs_cap r <? length l then tl l else l |}.

(* what the caller reads: indices[0..count), dists[0..count), ascending *)
Definition rs_out (r : rset) : list (T * nat) := rev (rs_rev r).

Section Search.
Variable vind : list nat.
Variable pts : list (list T).
Variable q : list T.          (* vec[0..veclen) *)
Variable epsError : T.

(* leaf: worst_dist is read once before the loop; strict < against that cached value *)
Fixpoint leaf_loop (worst : T) (cnt i : nat) (r : rset) : rset :=
  match cnt with
  | O => r
  | S cnt' =>
      let index := vindex vind i in
      let dist := sqdist q (point pts index) in
      leaf_loop worst cnt' (S i) (if nltb N dist worst then addPoint r dist index else r)
  end.

Fixpoint set_nth (i : nat) (v : T) (l : list T) : list T :=
  match l, i with
  | [], _ => []
  | _ :: r, O => v :: r
  | x :: r, S i' => x :: set_nth i' v r
  end.

(* after the near child: mindistsq + cut_dist - dists[idx]; far child visited iff
   mindistsq*epsError <= worstDist() *)
Definition far_step (search_other : T -> list T -> rset -> rset)
           (idx : nat) (cut_dist mindistsq : T) (dists : list T) (r1 : rset) : rset :=
  let dst := coord dists idx in
  let mind' := nsub N (nadd N mindistsq cut_dist) dst in
  if nleb N (nmul N mind' epsError) (worstDist r1)
  then search_other mind' (set_nth idx cut_dist dists) r1
  else r1.

Fixpoint searchLevel (nd : node) (mindistsq : T) (dists : list T) (r : rset) : rset :=
  match nd with
  | Leaf l rgt => leaf_loop (worstDist r) (rgt - l) l r
  | Split idx divlow divhigh c1 c2 =>
      let val := coord q idx in
      let diff1 := nsub N val divlow in
      let diff2 := nsub N val divhigh in
      if nltb N (nadd N diff1 diff2) (nzero N)
      then far_step (searchLevel c2) idx (accum_dist val divhigh) mindistsq dists
                    (searchLevel c1 mindistsq dists r)
      else far_step (searchLevel c1) idx (accum_dist val divlow) mindistsq dists
                    (searchLevel c2 mindistsq dists r)
  end.

(* computeInitialDistances: two independent tests per dimension, distsq accumulated in order *)
Fixpoint initial_distances (v : list T) (bbox : list (T * T)) (distsq : T) : T * list T :=
  match v, bbox with
  | x :: v', (lo, hi) :: b' =>
      let d1 := if nltb N x lo then accum_dist x lo else nzero N in
      let s1 := if nltb N x lo then nadd N distsq d1 else distsq in
      let d2 := if ngtb N x hi then accum_dist x hi else d1 in
      let s2 := if ngtb N x hi then nadd N s1 d2 else s1 in
      let '(s, ds) := initial_distances v' b' s2 in (s, d2 :: ds)
  | _, _ => (distsq, [])
  end.

End Search.

(* float epsError = 1 + searchParams.eps, eps = the default of SearchParams (regenerated from source) *)
Definition eps_error : T := nadd N (n_one N) (nofZ N nanoflann_search_eps).

(* findNeighbors on a result set of capacity k (size()==0: nothing is written) *)
Definition findNeighbors (t : kdtree) (q : list T) (k : nat) : rset :=
  match kd_pts t with
  | [] => rs_init k
  | _ =>
    let '(distsq, dists) := initial_distances q (kd_bbox t) (nzero N) in
    searchLevel (kd_vind t) (kd_pts t) q eps_error (kd_root t) distsq dists (rs_init k)
  end.

(* KdTree::findNearestNeighbors: the (squared distance, index) pairs in ascending order *)
Definition knn (t : kdtree) (q : list T) (k : nat) : list (T * nat) := rs_out (findNeighbors t q k).
(* KdTree::findNearestNeighbor: the same with the capacity-1 result set *)
Definition nn (t : kdtree) (q : list T) : option (T * nat) :=
  match knn t q 1 with x :: _ => Some x | [] => None end.

(* ---- the invariant of the built tree that the search relies on, as a boolean checker ---- *)
Fixpoint node_positions (nd : node) : list nat :=
  match nd with
  | Leaf l r => seq l (r - l)
  | Split _ _ _ c1 c2 => node_positions c1 ++ node_positions c2
  end.

Fixpoint list_nat_eqb (a b : list nat) : bool :=
  match a, b with
  | [], [] => true
  | x :: a', y :: b' => (x =? y) && list_nat_eqb a' b'
  | _, _ => false
  end.

Section Check.
Variable vind : list nat.
Variable pts : list (list T).
Variable dim : nat.

(* left points <= divlow <= divhigh <= right points on divfeat, divfeat a valid dimension *)
Fixpoint splits_ok_b (nd : node) : bool :=
  match nd with
  | Leaf _ _ => true
  | Split f lo hi c1 c2 =>
      (f <? dim) && nleb N lo hi
      && forallb (fun pos => nleb N (coord (point pts (vindex vind pos)) f) lo) (node_positions c1)
      && forallb (fun pos => nleb N hi (coord (point pts (vindex vind pos)) f)) (node_positions c2)
      && splits_ok_b c1 && splits_ok_b c2
  end.

Fixpoint in_box_b (p : list T) (bbox : list (T * T)) : bool :=
  match p, bbox with
  | [], [] => true
  | x :: p', (lo, hi) :: b' => nleb N lo x && nleb N x hi && in_box_b p' b'
  | _, _ => false
  end.
End Check.

(* leaves partition the positions 0..n-1 (in order); vind is a permutation of 0..n-1; every point has
   [dim] entries and lies in the root box; the split invariant holds at every inner node *)
Definition tree_ok_b (dim : nat) (t : kdtree) : bool :=
  let n := length (kd_pts t) in
  (1 <=? n)
  && list_nat_eqb (node_positions (kd_root t)) (seq 0 n)
  && list_nat_eqb (NatSort.sort (kd_vind t)) (seq 0 n)
  && (length (kd_bbox t) =? dim)
  && forallb (fun p => in_box_b p (kd_bbox t)) (kd_pts t)
  && splits_ok_b (kd_vind t) (kd_pts t) dim (kd_root t).

End KdTree.
