(* SrcFold.v — list lemmas used by the source ties of C04 (SrcTieC04.v) to bring the loops of the generated terms
   (one fold_left over `seq 0 (length l)` with `nth` look-ups, state = tuple of the accumulated components) to the shape
   of the model (one fold_left per accumulated component, over the list itself).  No numeric content. *)
From Coq Require Import List Arith.
Import ListNotations.

(* an index loop whose body reads l only at the loop index is a fold over l *)
Lemma fold_seq_nth_gen {St A} (l : list A) (d : A) (G : St -> nat -> St) (F : St -> A -> St) :
  (forall st n, G st n = F st (nth n l d)) -> forall a, fold_left G (seq 0 (length l)) a = fold_left F l a.
Proof.
  intros H.
  assert (Hg : forall (l2 l1 : list A) a, l = l1 ++ l2 -> fold_left G (seq (length l1) (length l2)) a = fold_left F l2 a).
  { induction l2 as [|x l2 IH]; intros l1 a Hl; [reflexivity|].
    cbn [length seq fold_left]. rewrite H. rewrite Hl. rewrite app_nth2 by apply le_n. rewrite Nat.sub_diag. cbn [nth].
    replace (S (length l1)) with (length (l1 ++ [x])) by (rewrite app_length; cbn; apply Nat.add_1_r).
    apply IH. rewrite <- app_assoc. exact Hl. }
  intros a. exact (Hg l [] a eq_refl).
Qed.

(* an index loop over two aligned lists is a fold over their combination *)
Lemma fold_seq_nth2_gen {St A B} (la : list A) (lb : list B) (da : A) (db : B) (G : St -> nat -> St) (F : St -> A -> B -> St) :
  (forall st n, G st n = F st (nth n la da) (nth n lb db)) -> length la = length lb ->
  forall a, fold_left G (seq 0 (length la)) a = fold_left (fun st p => F st (fst p) (snd p)) (combine la lb) a.
Proof.
  intros H Hl a.
  rewrite <- (fold_seq_nth_gen (combine la lb) (da, db) G (fun st p => F st (fst p) (snd p))).
  - rewrite combine_length, <- Hl, Nat.min_id. reflexivity.
  - intros st n. rewrite H, combine_nth by exact Hl. reflexivity.
Qed.

Lemma fold_left_map_gen {St A B} (f : St -> B -> St) (g : A -> B) l a :
  fold_left f (map g l) a = fold_left (fun s x => f s (g x)) l a.
Proof. revert a. induction l as [|x l IH]; intros a; [reflexivity|]. cbn [map fold_left]. apply IH. Qed.

Lemma map_fst_combine {A B} (la : list A) (lb : list B) : length la = length lb -> map fst (combine la lb) = la.
Proof.
  revert lb. induction la as [|x la IH]; intros [|y lb] Hl; try reflexivity; try discriminate.
  cbn [combine map fst]. f_equal. apply IH. now injection Hl.
Qed.

Lemma map_snd_combine {A B} (la : list A) (lb : list B) : length la = length lb -> map snd (combine la lb) = lb.
Proof.
  revert lb. induction la as [|x la IH]; intros [|y lb] Hl; try reflexivity; try discriminate.
  cbn [combine map snd]. f_equal. apply IH. now injection Hl.
Qed.

(* a fold whose state is a tuple of independently accumulated components is the tuple of the component folds *)
Lemma fold_split2 {A S1 S2} (F : S1 * S2 -> A -> S1 * S2) (f1 : S1 -> A -> S1) (f2 : S2 -> A -> S2) :
  (forall b1 b2 x, F (b1, b2) x = (f1 b1 x, f2 b2 x)) ->
  forall l a1 a2, fold_left F l (a1, a2) = (fold_left f1 l a1, fold_left f2 l a2).
Proof. intros H. induction l as [|x l IH]; intros; [reflexivity|]. cbn [fold_left]. rewrite H. apply IH. Qed.

Lemma fold_split3 {A S1 S2 S3} (F : S1 * S2 * S3 -> A -> S1 * S2 * S3) (f1 : S1 -> A -> S1) (f2 : S2 -> A -> S2) (f3 : S3 -> A -> S3) :
  (forall b1 b2 b3 x, F (b1, b2, b3) x = (f1 b1 x, f2 b2 x, f3 b3 x)) ->
  forall l a1 a2 a3, fold_left F l (a1, a2, a3) = (fold_left f1 l a1, fold_left f2 l a2, fold_left f3 l a3).
Proof. intros H. induction l as [|x l IH]; intros; [reflexivity|]. cbn [fold_left]. rewrite H. apply IH. Qed.

Lemma fold_split4 {A S1 S2 S3 S4} (F : S1 * S2 * S3 * S4 -> A -> S1 * S2 * S3 * S4) (f1 : S1 -> A -> S1) (f2 : S2 -> A -> S2) (f3 : S3 -> A -> S3) (f4 : S4 -> A -> S4) :
  (forall b1 b2 b3 b4 x, F (b1, b2, b3, b4) x = (f1 b1 x, f2 b2 x, f3 b3 x, f4 b4 x)) ->
  forall l a1 a2 a3 a4, fold_left F l (a1, a2, a3, a4) = (fold_left f1 l a1, fold_left f2 l a2, fold_left f3 l a3, fold_left f4 l a4).
Proof. intros H. induction l as [|x l IH]; intros; [reflexivity|]. cbn [fold_left]. rewrite H. apply IH. Qed.

Lemma fold_split6 {A S1 S2 S3 S4 S5 S6} (F : S1 * S2 * S3 * S4 * S5 * S6 -> A -> S1 * S2 * S3 * S4 * S5 * S6) (f1 : S1 -> A -> S1) (f2 : S2 -> A -> S2) (f3 : S3 -> A -> S3) (f4 : S4 -> A -> S4) (f5 : S5 -> A -> S5) (f6 : S6 -> A -> S6) :
  (forall b1 b2 b3 b4 b5 b6 x, F (b1, b2, b3, b4, b5, b6) x = (f1 b1 x, f2 b2 x, f3 b3 x, f4 b4 x, f5 b5 x, f6 b6 x)) ->
  forall l a1 a2 a3 a4 a5 a6, fold_left F l (a1, a2, a3, a4, a5, a6) = (fold_left f1 l a1, fold_left f2 l a2, fold_left f3 l a3, fold_left f4 l a4, fold_left f5 l a5, fold_left f6 l a6).
Proof. intros H. induction l as [|x l IH]; intros; [reflexivity|]. cbn [fold_left]. rewrite H. apply IH. Qed.

Lemma fold_split8 {A S1 S2 S3 S4 S5 S6 S7 S8} (F : S1 * S2 * S3 * S4 * S5 * S6 * S7 * S8 -> A -> S1 * S2 * S3 * S4 * S5 * S6 * S7 * S8) (f1 : S1 -> A -> S1) (f2 : S2 -> A -> S2) (f3 : S3 -> A -> S3) (f4 : S4 -> A -> S4) (f5 : S5 -> A -> S5) (f6 : S6 -> A -> S6) (f7 : S7 -> A -> S7) (f8 : S8 -> A -> S8) :
  (forall b1 b2 b3 b4 b5 b6 b7 b8 x, F (b1, b2, b3, b4, b5, b6, b7, b8) x = (f1 b1 x, f2 b2 x, f3 b3 x, f4 b4 x, f5 b5 x, f6 b6 x, f7 b7 x, f8 b8 x)) ->
  forall l a1 a2 a3 a4 a5 a6 a7 a8, fold_left F l (a1, a2, a3, a4, a5, a6, a7, a8) = (fold_left f1 l a1, fold_left f2 l a2, fold_left f3 l a3, fold_left f4 l a4, fold_left f5 l a5, fold_left f6 l a6, fold_left f7 l a7, fold_left f8 l a8).
Proof. intros H. induction l as [|x l IH]; intros; [reflexivity|]. cbn [fold_left]. rewrite H. apply IH. Qed.

Lemma fold_split9 {A S1 S2 S3 S4 S5 S6 S7 S8 S9} (F : S1 * S2 * S3 * S4 * S5 * S6 * S7 * S8 * S9 -> A -> S1 * S2 * S3 * S4 * S5 * S6 * S7 * S8 * S9) (f1 : S1 -> A -> S1) (f2 : S2 -> A -> S2) (f3 : S3 -> A -> S3) (f4 : S4 -> A -> S4) (f5 : S5 -> A -> S5) (f6 : S6 -> A -> S6) (f7 : S7 -> A -> S7) (f8 : S8 -> A -> S8) (f9 : S9 -> A -> S9) :
  (forall b1 b2 b3 b4 b5 b6 b7 b8 b9 x, F (b1, b2, b3, b4, b5, b6, b7, b8, b9) x = (f1 b1 x, f2 b2 x, f3 b3 x, f4 b4 x, f5 b5 x, f6 b6 x, f7 b7 x, f8 b8 x, f9 b9 x)) ->
  forall l a1 a2 a3 a4 a5 a6 a7 a8 a9, fold_left F l (a1, a2, a3, a4, a5, a6, a7, a8, a9) = (fold_left f1 l a1, fold_left f2 l a2, fold_left f3 l a3, fold_left f4 l a4, fold_left f5 l a5, fold_left f6 l a6, fold_left f7 l a7, fold_left f8 l a8, fold_left f9 l a9).
Proof. intros H. induction l as [|x l IH]; intros; [reflexivity|]. cbn [fold_left]. rewrite H. apply IH. Qed.

Lemma fold_split16 {A S1 S2 S3 S4 S5 S6 S7 S8 S9 S10 S11 S12 S13 S14 S15 S16} (F : S1 * S2 * S3 * S4 * S5 * S6 * S7 * S8 * S9 * S10 * S11 * S12 * S13 * S14 * S15 * S16 -> A -> S1 * S2 * S3 * S4 * S5 * S6 * S7 * S8 * S9 * S10 * S11 * S12 * S13 * S14 * S15 * S16) (f1 : S1 -> A -> S1) (f2 : S2 -> A -> S2) (f3 : S3 -> A -> S3) (f4 : S4 -> A -> S4) (f5 : S5 -> A -> S5) (f6 : S6 -> A -> S6) (f7 : S7 -> A -> S7) (f8 : S8 -> A -> S8) (f9 : S9 -> A -> S9) (f10 : S10 -> A -> S10) (f11 : S11 -> A -> S11) (f12 : S12 -> A -> S12) (f13 : S13 -> A -> S13) (f14 : S14 -> A -> S14) (f15 : S15 -> A -> S15) (f16 : S16 -> A -> S16) :
  (forall b1 b2 b3 b4 b5 b6 b7 b8 b9 b10 b11 b12 b13 b14 b15 b16 x, F (b1, b2, b3, b4, b5, b6, b7, b8, b9, b10, b11, b12, b13, b14, b15, b16) x = (f1 b1 x, f2 b2 x, f3 b3 x, f4 b4 x, f5 b5 x, f6 b6 x, f7 b7 x, f8 b8 x, f9 b9 x, f10 b10 x, f11 b11 x, f12 b12 x, f13 b13 x, f14 b14 x, f15 b15 x, f16 b16 x)) ->
  forall l a1 a2 a3 a4 a5 a6 a7 a8 a9 a10 a11 a12 a13 a14 a15 a16, fold_left F l (a1, a2, a3, a4, a5, a6, a7, a8, a9, a10, a11, a12, a13, a14, a15, a16) = (fold_left f1 l a1, fold_left f2 l a2, fold_left f3 l a3, fold_left f4 l a4, fold_left f5 l a5, fold_left f6 l a6, fold_left f7 l a7, fold_left f8 l a8, fold_left f9 l a9, fold_left f10 l a10, fold_left f11 l a11, fold_left f12 l a12, fold_left f13 l a13, fold_left f14 l a14, fold_left f15 l a15, fold_left f16 l a16).
Proof. intros H. induction l as [|x l IH]; intros; [reflexivity|]. cbn [fold_left]. rewrite H. apply IH. Qed.
