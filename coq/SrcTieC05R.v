(* SrcTieC05R.v — C05's residual identity stated directly about the coefficients the GENERATED row-filling loops write
   (gen/SrcP2p.v through SrcTieC05.source_tie_rows_2d/_3d), real-number dictionary:
     (row r of J) . z - Y(r) = n_r . ((I + [w]x) s_r + tau - t_r),   z = (tau, w),
   for the correspondence-vector and the aligned overloads, Cartesian points (V2, V3) and homogeneous points (H2, H3; there
   under the hypothesis that source and target carry the same last coordinate, as in C05_p2p_repr_invariant_residual). *)
From Coq Require Import Reals List Arith Lia Lra.
From Romea Require Import Num NumR LinAlgBModel LinAlgBProofs LsModel LsProofs LsHistoryProofs P2pModel P2pProofs P2pSecondOrder SrcP2pLib SrcTieC05.
From Romea.gen Require Import SrcP2p.
Import ListNotations.
Local Open Scope R_scope.

Local Notation vg := (vget ROps).
Local Notation FJY := (fJY (T:=R)).

Definition lin_residual_2d (s t n : list R) (z : nat -> R) : R :=
  vg n 0 * ((vg s 0 - z 2%nat * vg s 1) + z 0%nat - vg t 0) + vg n 1 * ((vg s 1 + z 2%nat * vg s 0) + z 1%nat - vg t 1).
Definition lin_residual_3d (s t n : list R) (z : nat -> R) : R :=
  vg n 0 * ((vg s 0 + (z 4%nat * vg s 2 - z 5%nat * vg s 1)) + z 0%nat - vg t 0) +
  vg n 1 * ((vg s 1 + (z 5%nat * vg s 0 - z 3%nat * vg s 2)) + z 1%nat - vg t 1) +
  vg n 2 * ((vg s 2 + (z 3%nat * vg s 1 - z 4%nat * vg s 0)) + z 2%nat - vg t 2).

Lemma rows_residual_2d ps (tr : list ((list R * list R) * list R)) (s0 s : FJY) (z : nat -> R) r :
  rows_of_triples ROps 2 ps tr s0 s -> (r < length tr)%nat ->
  p2p_y ROps ps (tsrc tr r) (ttgt tr r) (tnrm tr r) = p2p_y ROps 2 (tsrc tr r) (ttgt tr r) (tnrm tr r) ->
  Rsum 3 (fun c => fst s r c * z c) - snd s r = lin_residual_2d (tsrc tr r) (ttgt tr r) (tnrm tr r) z.
Proof.
  intros [H _] Hr Hy. destruct (H r Hr) as [HJ HY].
  rewrite (Rsum_ext 3 _ (fun c => vg (p2p_row ROps 2 (tsrc tr r) (tnrm tr r)) c * z c)).
  2: { intros c Hc. rewrite (HJ c Hc). reflexivity. }
  rewrite HY. change (p2p_y ROps ps (fst (fst (nth r tr dtriple))) (snd (fst (nth r tr dtriple))) (snd (nth r tr dtriple)))
    with (p2p_y ROps ps (tsrc tr r) (ttgt tr r) (tnrm tr r)).
  rewrite Hy. apply p2p_residual_identity_2d.
Qed.

Lemma rows_residual_3d ps (tr : list ((list R * list R) * list R)) (s0 s : FJY) (z : nat -> R) r :
  rows_of_triples ROps 3 ps tr s0 s -> (r < length tr)%nat ->
  p2p_y ROps ps (tsrc tr r) (ttgt tr r) (tnrm tr r) = p2p_y ROps 3 (tsrc tr r) (ttgt tr r) (tnrm tr r) ->
  Rsum 6 (fun c => fst s r c * z c) - snd s r = lin_residual_3d (tsrc tr r) (ttgt tr r) (tnrm tr r) z.
Proof.
  intros [H _] Hr Hy. destruct (H r Hr) as [HJ HY].
  rewrite (Rsum_ext 6 _ (fun c => vg (p2p_row ROps 3 (tsrc tr r) (tnrm tr r)) c * z c)).
  2: { intros c Hc. rewrite (HJ c Hc). reflexivity. }
  rewrite HY. change (p2p_y ROps ps (fst (fst (nth r tr dtriple))) (snd (fst (nth r tr dtriple))) (snd (nth r tr dtriple)))
    with (p2p_y ROps ps (tsrc tr r) (ttgt tr r) (tnrm tr r)).
  rewrite Hy. apply p2p_residual_identity_3d.
Qed.

Theorem source_residual_identity_2d (src tgt nrm : list (list R)) (corr : list (nat * nat)) tr (x : list R) (s0 : FJY)
        (z : nat -> R) (r : nat) :
  (r < length tr)%nat ->
  let res (s : FJY) := Rsum 3 (fun c => fst s r c * z c) - snd s r in
  let lin := lin_residual_2d (tsrc tr r) (ttgt tr r) (tnrm tr r) z in
  let same_w := vg (tsrc tr r) 2 = vg (ttgt tr r) 2 in
  (triples_of_corr src tgt nrm corr = Some tr ->
     res (fst (src_estimate_corr_V2 ROps FJY (f_methods ROps x) src tgt nrm corr s0)) = lin /\
     (same_w -> res (fst (src_estimate_corr_H2 ROps FJY (f_methods ROps x) src tgt nrm corr s0)) = lin)) /\
  (triples_aligned src tgt nrm = Some tr ->
     res (fst (src_estimate_aligned_V2 ROps FJY (f_methods ROps x) src tgt nrm s0)) = lin /\
     (same_w -> res (fst (src_estimate_aligned_H2 ROps FJY (f_methods ROps x) src tgt nrm s0)) = lin)).
Proof.
  intros Hr res lin same_w. destruct (source_tie_rows_2d ROps src tgt nrm corr tr x s0) as [Hc Ha].
  split; intros H; [destruct (Hc H) as [HV HH]|destruct (Ha H) as [HV HH]]; split.
  - exact (rows_residual_2d 2 tr s0 _ z r HV Hr eq_refl).
  - intros Hw. exact (rows_residual_2d 3 tr s0 _ z r HH Hr (p2p_y_homogeneous 2 _ _ _ Hw)).
  - exact (rows_residual_2d 2 tr s0 _ z r HV Hr eq_refl).
  - intros Hw. exact (rows_residual_2d 3 tr s0 _ z r HH Hr (p2p_y_homogeneous 2 _ _ _ Hw)).
Qed.

Theorem source_residual_identity_3d (src tgt nrm : list (list R)) (corr : list (nat * nat)) tr (x : list R) (s0 : FJY)
        (z : nat -> R) (r : nat) :
  (r < length tr)%nat ->
  let res (s : FJY) := Rsum 6 (fun c => fst s r c * z c) - snd s r in
  let lin := lin_residual_3d (tsrc tr r) (ttgt tr r) (tnrm tr r) z in
  let same_w := vg (tsrc tr r) 3 = vg (ttgt tr r) 3 in
  (triples_of_corr src tgt nrm corr = Some tr ->
     res (fst (src_estimate_corr_V3 ROps FJY (f_methods ROps x) src tgt nrm corr s0)) = lin /\
     (same_w -> res (fst (src_estimate_corr_H3 ROps FJY (f_methods ROps x) src tgt nrm corr s0)) = lin)) /\
  (triples_aligned src tgt nrm = Some tr ->
     res (fst (src_estimate_aligned_V3 ROps FJY (f_methods ROps x) src tgt nrm s0)) = lin /\
     (same_w -> res (fst (src_estimate_aligned_H3 ROps FJY (f_methods ROps x) src tgt nrm s0)) = lin)).
Proof.
  intros Hr res lin same_w. destruct (source_tie_rows_3d ROps src tgt nrm corr tr x s0) as [Hc Ha].
  split; intros H; [destruct (Hc H) as [HV HH]|destruct (Ha H) as [HV HH]]; split.
  - exact (rows_residual_3d 3 tr s0 _ z r HV Hr eq_refl).
  - intros Hw. exact (rows_residual_3d 4 tr s0 _ z r HH Hr (p2p_y_homogeneous 3 _ _ _ Hw)).
  - exact (rows_residual_3d 3 tr s0 _ z r HV Hr eq_refl).
  - intros Hw. exact (rows_residual_3d 4 tr s0 _ z r HH Hr (p2p_y_homogeneous 3 _ _ _ Hw)).
Qed.

(* ------------------------------------------------------------------------------------------------
   The property's main claim, stated directly about the GENERATED estimate_ bodies run on the LsModel state (repaired SVD
   path): through SrcTieC05.source_tie_estimate each of them is p2p_estimate on the model's triples, so the conclusion of
   P2pProofs.p2p_estimate_correct holds of what it returns. *)
Section Correct.
Variable inverse_of : nat -> list (list R) -> list (list R).
Variable svd_of : nat -> list (list R) -> (list (list R) * list R) * list (list R).
Variable fill : R.

Definition p2p_result_spec (d ps : nat) (tr : list ((list R * list R) * list R)) (st : ls_state (T:=R))
           (res : option (ls_state (T:=R) * list (list R))) : Prop :=
  forall st2 H, res = Some (st2, H) ->
  exists st1 x,
    p2p_load ROps inverse_of svd_of fill true d ps tr st = Some st1 /\
    ls_estimate_svd ROps svd_of st1 = Some (st2, x) /\ H = p2p_scatter ROps d x /\
    (svd_contract (p2p_k d) (ls_JtJ ROps st1) (svd_of (p2p_k d) (ls_JtJ ROps st1)) -> svd_all_above svd_of st1 ->
     let n := length tr in let k := p2p_k d in
     let z := ls_z st1 (svd_pinv ROps k (svd_thr svd_of st1) (svd_of k (ls_JtJ ROps st1))) in
     (forall i, (i < k)%nat -> vg x i = Rsum k (fun l => mget ROps (ls_A st) i l * z l) + vg (ls_b st) i) /\
     (forall i, (i < k)%nat -> grad n k (Jp d tr) (Yp ps tr) z i = 0) /\
     (forall y, cost n k (Jp d tr) (Yp ps tr) z <= cost n k (Jp d tr) (Yp ps tr) y) /\
     (forall y, cost n k (Jp d tr) (Yp ps tr) y = cost n k (Jp d tr) (Yp ps tr) z -> forall i, (i < k)%nat -> y i = z i)).

Local Notation OM := (o_methods ROps svd_of fill true).

Theorem source_estimate_correct (src tgt nrm : list (list R)) (corr : list (nat * nat)) tr (st : ls_state (T:=R)) :
  (1 <= length tr)%nat ->
  (triples_of_corr src tgt nrm corr = Some tr ->
     (ready 3 st ->
        p2p_result_spec 2 2 tr st (pack (src_estimate_corr_V2 ROps (option ls_state) OM src tgt nrm corr (Some st))) /\
        p2p_result_spec 2 3 tr st (pack (src_estimate_corr_H2 ROps (option ls_state) OM src tgt nrm corr (Some st)))) /\
     (ready 6 st ->
        p2p_result_spec 3 3 tr st (pack (src_estimate_corr_V3 ROps (option ls_state) OM src tgt nrm corr (Some st))) /\
        p2p_result_spec 3 4 tr st (pack (src_estimate_corr_H3 ROps (option ls_state) OM src tgt nrm corr (Some st))))) /\
  (triples_aligned src tgt nrm = Some tr ->
     (ready 3 st ->
        p2p_result_spec 2 2 tr st (pack (src_estimate_aligned_V2 ROps (option ls_state) OM src tgt nrm (Some st))) /\
        p2p_result_spec 2 3 tr st (pack (src_estimate_aligned_H2 ROps (option ls_state) OM src tgt nrm (Some st)))) /\
     (ready 6 st ->
        p2p_result_spec 3 3 tr st (pack (src_estimate_aligned_V3 ROps (option ls_state) OM src tgt nrm (Some st))) /\
        p2p_result_spec 3 4 tr st (pack (src_estimate_aligned_H3 ROps (option ls_state) OM src tgt nrm (Some st))))).
Proof.
  intros Hn. destruct (source_tie_estimate ROps inverse_of svd_of fill true src tgt nrm corr tr st) as [Hc Ha].
  split; intros Htr; [destruct (Hc Htr) as [H2 H3]|destruct (Ha Htr) as [H2 H3]]; split; intros Hr;
    [destruct (H2 Hr) as [E1 E2]|destruct (H3 Hr) as [E1 E2]|destruct (H2 Hr) as [E1 E2]|destruct (H3 Hr) as [E1 E2]];
    rewrite E1, E2; unfold p2p_find_corr, p2p_find_aligned; rewrite Htr; split; intros st2 H E;
    first [ exact (p2p_estimate_correct inverse_of svd_of fill 2 _ tr st st2 H (or_introl eq_refl) Hr Hn E)
          | exact (p2p_estimate_correct inverse_of svd_of fill 3 _ tr st st2 H (or_intror eq_refl) Hr Hn E) ].
Qed.

End Correct.
