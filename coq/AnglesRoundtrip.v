(* AnglesRoundtrip.v — normalisers, atan2 as a polar angle, and the round-trip lemmas of C10. *)
From Coq Require Import Reals ZArith Lra Lia Psatz Nsatz.
From Flocq Require Import Core.Raux.
From Romea Require Import Num NumR AnglesModel AnglesProofs.
Local Open Scope R_scope.

Definition idR (x : R) : R := x.
(* the real-number instances (Scalar = double = R, conversions are the identity) *)
Definition b02 (x : R) : R := between0And2Pi ROps idR idR x.
Definition bpi (x : R) : R := betweenMinusPiAndPi ROps idR idR x.
Definition cong2pi (a b : R) : Prop := exists k : Z, a = b + 2 * PI * IZR k.

Lemma cong2pi_refl a : cong2pi a a.
Proof. exists 0%Z. ring. Qed.
Lemma cong2pi_trans a b c : cong2pi a b -> cong2pi b c -> cong2pi a c.
Proof. intros [k Hk] [l Hl]. exists (k + l)%Z. rewrite plus_IZR. lra. Qed.
Lemma cong2pi_sym a b : cong2pi a b -> cong2pi b a.
Proof. intros [k Hk]. exists (- k)%Z. rewrite opp_IZR. lra. Qed.

(* --- fmod(x, 2pi): same sign as x, magnitude below 2pi, congruent --- *)
Lemma fmod_2pi x :
  exists k : Z, Rfmod x (2 * PI) = x - 2 * PI * IZR k /\
    ((0 <= x -> 0 <= Rfmod x (2 * PI) < 2 * PI) /\ (x <= 0 -> - (2 * PI) < Rfmod x (2 * PI) <= 0)).
Proof.
  pose proof PI_RGT_0 as Hpi. unfold Rfmod. exists (Ztrunc (x / (2 * PI))). split; [reflexivity|].
  set (q := x / (2 * PI)).
  assert (Hx : x = 2 * PI * q) by (unfold q; field; lra).
  split; intros H.
  - assert (Hq : 0 <= q) by (unfold q; apply Rmult_le_pos; [lra|left; apply Rinv_0_lt_compat; lra]).
    rewrite (Ztrunc_floor q Hq). pose proof (Zfloor_lb q). pose proof (Zfloor_ub q).
    clearbody q. subst x. split; nra.
  - assert (Hq : q <= 0).
    { unfold q. assert (0 < / (2 * PI)) by (apply Rinv_0_lt_compat; lra). unfold Rdiv. nra. }
    rewrite (Ztrunc_ceil q Hq). pose proof (Zceil_ub q). pose proof (Zceil_lb q).
    clearbody q. subst x. split; nra.
Qed.

Lemma b02_spec x : cong2pi (b02 x) x /\ 0 <= b02 x < 2 * PI.
Proof.
  pose proof PI_RGT_0 as Hpi.
  unfold b02, between0And2Pi, m_2pi, idR. rcbn. replace (1 + 1) with 2 by lra.
  destruct (fmod_2pi x) as [k [Hk [Hpos Hneg]]].
  destruct (Rltb (Rfmod x (2 * PI)) 0) eqn:E.
  - apply Rltb_true in E. split.
    + exists (1 - k)%Z. rewrite minus_IZR, Hk. ring.
    + destruct (Rle_dec 0 x) as [P|P]; [specialize (Hpos P); lra|].
      assert (Q : x <= 0) by lra. specialize (Hneg Q). lra.
  - apply Rltb_false in E. split.
    + exists (- k)%Z. rewrite opp_IZR, Hk. ring.
    + destruct (Rle_dec 0 x) as [P|P]; [specialize (Hpos P); lra|].
      assert (Q : x <= 0) by lra. specialize (Hneg Q). lra.
Qed.

Lemma bpi_spec x : cong2pi (bpi x) x /\ - PI <= bpi x <= PI.
Proof.
  pose proof PI_RGT_0 as Hpi.
  unfold bpi, betweenMinusPiAndPi, m_2pi, idR. rcbn. replace (1 + 1) with 2 by lra.
  destruct (fmod_2pi x) as [k [Hk [Hpos Hneg]]].
  assert (Hr : - (2 * PI) < Rfmod x (2 * PI) < 2 * PI).
  { destruct (Rle_dec 0 x) as [P|P]; [specialize (Hpos P); lra|].
    assert (Q : x <= 0) by lra. specialize (Hneg Q). lra. }
  destruct (Rltb (Rfmod x (2 * PI)) (- PI)) eqn:E.
  - apply Rltb_true in E. split; [exists (1 - k)%Z; rewrite minus_IZR, Hk; ring|lra].
  - apply Rltb_false in E. destruct (Rltb PI (Rfmod x (2 * PI))) eqn:E2.
    + apply Rltb_true in E2. split; [exists (- 1 - k)%Z; rewrite minus_IZR, Hk; ring|lra].
    + apply Rltb_false in E2. split; [exists (- k)%Z; rewrite opp_IZR, Hk; ring|lra].
Qed.

(* a value already inside the interval is returned unchanged *)
Lemma b02_id x : 0 <= x < 2 * PI -> b02 x = x.
Proof.
  intros H. destruct (b02_spec x) as [[k Hk] Hr].
  assert (k = 0%Z); [|subst; lra].
  pose proof PI_RGT_0. destruct (Z_lt_le_dec k 1) as [A|A]; destruct (Z_lt_le_dec (-1) k) as [B|B]; try lia.
  - apply IZR_le in B. nra.
  - apply IZR_le in A. nra.
Qed.

Lemma Rabs_zero_inv x : Rabs x = 0 -> x = 0.
Proof. unfold Rabs. destruct (Rcase_abs x); lra. Qed.

(* --- atan2 is the polar angle: r*cos(atan2 b a) = a and r*sin(atan2 b a) = b --- *)
Lemma polar_angle_exists a b r : 0 < r -> a * a + b * b = r * r ->
  exists t, - PI < t <= PI /\ a = r * cos t /\ b = r * sin t.
Proof.
  intros Hr H. pose proof PI_RGT_0 as Hpi.
  assert (Hq : -1 <= a / r <= 1).
  { assert (a <= r /\ - r <= a) by nra. split.
    - apply Rmult_le_reg_r with r; [lra|]. unfold Rdiv. rewrite Rmult_assoc, Rinv_l by lra. lra.
    - apply Rmult_le_reg_r with r; [lra|]. unfold Rdiv. rewrite Rmult_assoc, Rinv_l by lra. lra. }
  pose proof (acos_bound (a / r)) as Hb.
  assert (Hc : cos (acos (a / r)) = a / r) by (apply cos_acos; lra).
  assert (Hs : sin (acos (a / r)) = sqrt (1 - (a / r)²)) by (apply sin_acos; lra).
  assert (Hsq : 1 - (a / r)² = (b / r)²).
  { unfold Rsqr. field_simplify; [|lra|lra]. f_equal. nra. }
  rewrite Hsq, sqrt_Rsqr_abs in Hs.
  destruct (Rle_dec 0 b) as [Hb0|Hb0].
  - exists (acos (a / r)). split; [lra|]. split.
    + rewrite Hc. field. lra.
    + rewrite Hs, Rabs_right. field. lra. apply Rle_ge. unfold Rdiv. apply Rmult_le_pos; [lra|]. left. apply Rinv_0_lt_compat. lra.
  - assert (Hbn : b < 0) by lra.
    exists (- acos (a / r)). split.
    + split; [|lra]. destruct (Req_dec (acos (a / r)) PI) as [E|E]; [|lra]. exfalso.
      rewrite E, sin_PI in Hs. symmetry in Hs. apply Rabs_zero_inv in Hs.
      assert (b = 0); [|lra]. unfold Rdiv in Hs. apply Rmult_integral in Hs. destruct Hs as [|Hs]; [assumption|].
      exfalso. assert (0 < / r) by (apply Rinv_0_lt_compat; lra). lra.
    + rewrite cos_neg, sin_neg, Hc, Hs. split; [field; lra|].
      rewrite Rabs_left. field. lra. unfold Rdiv. assert (0 < / r) by (apply Rinv_0_lt_compat; lra). nra.
Qed.

Lemma atan2_polar a b r : 0 < r -> a * a + b * b = r * r ->
  - PI < Ratan2 b a <= PI /\ r * cos (Ratan2 b a) = a /\ r * sin (Ratan2 b a) = b.
Proof.
  intros Hr H. destruct (polar_angle_exists a b r Hr H) as [t [Ht [Ea Eb]]].
  rewrite Ea, Eb. rewrite Ratan2_spec by assumption. tauto.
Qed.

(* shifting an angle by a whole turn does not change sin/cos *)
Lemma sin_shift x (k : Z) : sin (x + 2 * PI * IZR k) = sin x.
Proof.
  destruct k as [|p|p].
  - apply f_equal. simpl. ring.
  - rewrite <- (sin_period x (Pos.to_nat p)). apply f_equal. rewrite INR_IZR_INZ, positive_nat_Z. ring.
  - rewrite <- (sin_period (x + 2 * PI * IZR (Z.neg p)) (Pos.to_nat p)). apply f_equal.
    change (Z.neg p) with (- Z.pos p)%Z. rewrite opp_IZR, INR_IZR_INZ, positive_nat_Z. ring.
Qed.
Lemma cos_shift x (k : Z) : cos (x + 2 * PI * IZR k) = cos x.
Proof.
  destruct k as [|p|p].
  - apply f_equal. simpl. ring.
  - rewrite <- (cos_period x (Pos.to_nat p)). apply f_equal. rewrite INR_IZR_INZ, positive_nat_Z. ring.
  - rewrite <- (cos_period (x + 2 * PI * IZR (Z.neg p)) (Pos.to_nat p)). apply f_equal.
    change (Z.neg p) with (- Z.pos p)%Z. rewrite opp_IZR, INR_IZR_INZ, positive_nat_Z. ring.
Qed.

Lemma cong2pi_sincos a b : cong2pi a b -> sin a = sin b /\ cos a = cos b.
Proof. intros [k ->]. split; [apply sin_shift|apply cos_shift]. Qed.

(* every real has a representative in (-PI, PI] *)
Lemma principal_rep x : exists t, - PI < t <= PI /\ cong2pi t x.
Proof.
  pose proof PI_RGT_0 as Hpi.
  destruct (bpi_spec x) as [C [Hlo Hhi]].
  destruct (Req_dec (bpi x) (- PI)) as [E|E].
  - exists PI. split; [lra|]. eapply cong2pi_trans; [|exact C]. exists 1%Z. rewrite E. ring.
  - exists (bpi x). split; [lra|exact C].
Qed.

(* --- extraction from Rz*Ry*Rx --- *)
Definition r2e (m : mat3 R) : option (vec3 R) := rotation3DToEulerAngles ROps ROps idR idR m.

Lemma r2e_of_rzyx_principal x y z :
  - PI < x <= PI -> - PI / 2 < y < PI / 2 -> - PI < z <= PI ->
  r2e (rot_zyx x y z) = Some (mkV3 (b02 x) (b02 y) (b02 z)).
Proof.
  intros Hx Hy Hz. pose proof PI_RGT_0 as Hpi.
  assert (Hc : 0 < cos y) by (apply cos_gt_0; lra).
  rewrite rot_zyx_entries. unfold r2e, rotation3DToEulerAngles. rcbn.
  assert (Hs : Rabs (- sin y) <= 1).
  { apply Rabs_le. pose proof (SIN_bound y). lra. }
  replace (Rleb (Rabs (- sin y)) 1) with true by (symmetry; apply Rleb_true; exact Hs).
  fold b02.
  rewrite (Ratan2_spec (cos y) x Hc Hx).
  replace (sin z * cos y) with (cos y * sin z) by ring.
  replace (cos z * cos y) with (cos y * cos z) by ring.
  rewrite (Ratan2_spec (cos y) z Hc Hz).
  rewrite <- sin_neg, asin_sin by lra. rewrite Ropp_involutive. reflexivity.
Qed.

Lemma rot_zyx_cong x y z x' z' : cong2pi x' x -> cong2pi z' z -> rot_zyx x' y z' = rot_zyx x y z.
Proof.
  intros Cx Cz. destruct (cong2pi_sincos _ _ Cx) as [Sx Kx]. destruct (cong2pi_sincos _ _ Cz) as [Sz Kz].
  rewrite !rot_zyx_entries, Sx, Kx, Sz, Kz. reflexivity.
Qed.

(* angles -> rotation -> angles: the same angles modulo 2*pi, normalised to [0, 2*pi) *)
Lemma angles_roundtrip_rzyx x y z : - PI / 2 < y < PI / 2 ->
  exists a b c, r2e (rot_zyx x y z) = Some (mkV3 a b c) /\
    cong2pi a x /\ cong2pi b y /\ cong2pi c z /\
    0 <= a < 2 * PI /\ 0 <= b < 2 * PI /\ 0 <= c < 2 * PI.
Proof.
  intros Hy.
  destruct (principal_rep x) as [x' [Hx' Cx]]. destruct (principal_rep z) as [z' [Hz' Cz]].
  rewrite <- (rot_zyx_cong x y z x' z' Cx Cz).
  rewrite (r2e_of_rzyx_principal x' y z' Hx' Hy Hz').
  exists (b02 x'), (b02 y), (b02 z'). split; [reflexivity|].
  destruct (b02_spec x') as [C1 R1]. destruct (b02_spec y) as [C2 R2]. destruct (b02_spec z') as [C3 R3].
  repeat split; try lra; try assumption; eapply cong2pi_trans; eassumption.
Qed.

(* --- proper rotations: transpose = adjugate, rows are unit too --- *)
Definition adj3 (m : mat3 R) : mat3 R := mkM3
  (m11 m * m22 m - m12 m * m21 m) (m02 m * m21 m - m01 m * m22 m) (m01 m * m12 m - m02 m * m11 m)
  (m12 m * m20 m - m10 m * m22 m) (m00 m * m22 m - m02 m * m20 m) (m02 m * m10 m - m00 m * m12 m)
  (m10 m * m21 m - m11 m * m20 m) (m01 m * m20 m - m00 m * m21 m) (m00 m * m11 m - m01 m * m10 m).

Lemma mmul3_assoc (a b c : mat3 R) : mmul3 ROps (mmul3 ROps a b) c = mmul3 ROps a (mmul3 ROps b c).
Proof. unfold mmul3. rcbn. f_equal; ring. Qed.
Lemma mmul3_id_l (a : mat3 R) : mmul3 ROps (mid3 ROps) a = a.
Proof. destruct a. unfold mmul3, mid3. rcbn. f_equal; ring. Qed.
Lemma mmul3_id_r (a : mat3 R) : mmul3 ROps a (mid3 ROps) = a.
Proof. destruct a. unfold mmul3, mid3. rcbn. f_equal; ring. Qed.
Lemma mmul3_adj (m : mat3 R) : det3 ROps m = 1 -> mmul3 ROps m (adj3 m) = mid3 ROps.
Proof.
  intros H. unfold det3 in H. rcbn in H. unfold mmul3, adj3, mid3. rcbn.
  f_equal; try ring; rewrite <- H; ring.
Qed.

Lemma proper_transpose_is_adj m : proper_rotation m -> mtrans3 m = adj3 m.
Proof.
  intros [Ho Hd].
  rewrite <- (mmul3_id_r (mtrans3 m)), <- (mmul3_adj m Hd), <- mmul3_assoc, Ho, mmul3_id_l. reflexivity.
Qed.

Lemma proper_right_inverse m : proper_rotation m -> mmul3 ROps m (mtrans3 m) = mid3 ROps.
Proof. intros H. rewrite (proper_transpose_is_adj m H). apply mmul3_adj. apply H. Qed.

(* rotation -> angles -> rotation *)
Lemma rotation_roundtrip_lemma m : proper_rotation m -> Rabs (m20 m) < 1 ->
  exists e, r2e m = Some e /\ rot_zyx (v0 e) (v1 e) (v2 e) = m.
Proof.
  intros Hp H20. pose proof PI_RGT_0 as Hpi.
  pose proof (proper_transpose_is_adj m Hp) as Hadj.
  pose proof (proper_right_inverse m Hp) as Hri.
  destruct Hp as [Ho Hd].
  apply Rabs_def2 in H20.
  unfold r2e, rotation3DToEulerAngles. rcbn.
  replace (Rleb (Rabs (m20 m)) 1) with true by (symmetry; apply Rleb_true, Rabs_le; lra).
  eexists. split; [reflexivity|]. cbn [v0 v1 v2].
  change (between0And2Pi ROps idR idR) with b02.
  set (p := - asin (m20 m)).
  assert (Hsp : sin p = - m20 m) by (unfold p; rewrite sin_neg, sin_asin by lra; reflexivity).
  assert (Hpr : - PI / 2 < p < PI / 2).
  { unfold p. pose proof (asin_bound_lt (m20 m)) as B. lra. }
  assert (Hcp : 0 < cos p) by (apply cos_gt_0; lra).
  pose proof (sc1 p) as Hsc.
  clearbody p.
  (* the facts we need from orthogonality: unit column 0, unit row 2, four adjugate entries *)
  pose proof (f_equal m00 Ho) as Ucol. pose proof (f_equal m22 Hri) as Urow.
  pose proof (f_equal m10 Hadj) as Ab. pose proof (f_equal m21 Hadj) as Af.
  pose proof (f_equal m20 Hadj) as Ac. pose proof (f_equal m11 Hadj) as Ae.
  clear Ho Hri Hadj Hd.
  destruct m as [a b c d e f g h i].
  unfold mmul3, mtrans3, mid3, adj3 in *. rcbn in Ucol. rcbn in Urow. rcbn in Ab. rcbn in Af. rcbn in Ac. rcbn in Ae.
  cbn [m00 m01 m02 m10 m11 m12 m20 m21 m22] in *.
  assert (Q : cos p * cos p = 1 - g * g) by (clear - Hsc Hsp; nra).
  assert (Ecol : a * a + d * d = cos p * cos p) by (clear - Ucol Q; lra).
  assert (Erow : i * i + h * h = cos p * cos p) by (clear - Urow Q; lra).
  assert (Sb : (1 - g * g) * b = - a * h * g - d * i) by (clear - Ab Af; nsatz).
  assert (Sf : (1 - g * g) * f = - d * i * g - a * h) by (clear - Ab Af; nsatz).
  assert (Sc : (1 - g * g) * c = d * h - a * i * g) by (clear - Ac Ae; nsatz).
  assert (Se : (1 - g * g) * e = a * i - d * h * g) by (clear - Ac Ae; nsatz).
  destruct (atan2_polar a d (cos p) Hcp Ecol) as [Hyr [Hyc Hys]].
  destruct (atan2_polar i h (cos p) Hcp Erow) as [Hrr [Hrc Hrs]].
  destruct (b02_spec (Ratan2 h i)) as [Cr _]. destruct (b02_spec p) as [Cp _]. destruct (b02_spec (Ratan2 d a)) as [Cy _].
  destruct (cong2pi_sincos _ _ Cp) as [Sp Kp].
  rewrite (rot_zyx_cong (Ratan2 h i) (b02 p) (Ratan2 d a) _ _ Cr Cy).
  rewrite rot_zyx_entries, Sp, Kp.
  set (x := Ratan2 h i) in *. set (z := Ratan2 d a) in *. clearbody x z.
  assert (Hcp2 : 1 - g * g <> 0) by (clear - Q Hcp; nra).
  assert (E00 : cos z * cos p = a) by (clear - Hyc; lra).
  assert (E10 : sin z * cos p = d) by (clear - Hys; lra).
  assert (E21 : cos p * sin x = h) by (clear - Hrs; lra).
  assert (E22 : cos p * cos x = i) by (clear - Hrc; lra).
  assert (E20 : - sin p = g) by (clear - Hsp; lra).
  assert (Sg : sin p = - g) by (clear - Hsp; lra).
  f_equal; try assumption.
  - apply Rmult_eq_reg_l with (1 - g * g); [|assumption]. rewrite Sb, <- Q.
    transitivity ((cos z * cos p) * sin p * (cos p * sin x) - (sin z * cos p) * (cos p * cos x)); [ring|].
    rewrite E00, E10, E21, E22, Sg. ring.
  - apply Rmult_eq_reg_l with (1 - g * g); [|assumption]. rewrite Sc, <- Q.
    transitivity ((cos z * cos p) * sin p * (cos p * cos x) + (sin z * cos p) * (cos p * sin x)); [ring|].
    rewrite E00, E10, E21, E22, Sg. ring.
  - apply Rmult_eq_reg_l with (1 - g * g); [|assumption]. rewrite Se, <- Q.
    transitivity ((sin z * cos p) * sin p * (cos p * sin x) + (cos z * cos p) * (cos p * cos x)); [ring|].
    rewrite E00, E10, E21, E22, Sg. ring.
  - apply Rmult_eq_reg_l with (1 - g * g); [|assumption]. rewrite Sf, <- Q.
    transitivity ((sin z * cos p) * sin p * (cos p * cos x) - (cos z * cos p) * (cos p * sin x)); [ring|].
    rewrite E00, E10, E21, E22, Sg. ring.
Qed.
