(* SrcTieC05.v — the members of FindRigidTransformationByLeastSquares<PointType> regenerated from the clang AST of the
   current source (gen/SrcP2p.v, written on every run by translate/tr_C05_p2p.py; instantiations V2 = Eigen::Vector2,
   V3 = Eigen::Vector3, H2 = HomogeneousCoordinates2, H3 = HomogeneousCoordinates3, float and double giving the same term)
   ARE the functions of P2pModel.v that the theorems of Properties_C05.v are about — for EVERY numeric dictionary N (so also
   for the binary64 / binary32 dictionaries that are executed): the generated terms and the model perform the same
   dictionary operations in the same order.

   In the generated terms the member leastSquares_ is an abstract object (type argument Ls) and every method called on it
   a function argument (F_setDataSize, F_getJ_set = `J(i, j) = v` through the reference returned by getJ(), F_getY_set,
   F_estimateUsingSVD, F_setPreconditionner, F_setEstimateSize, F_new = the default-constructed member).  Three
   instantiations are used here:
     1. Ls = (nat -> nat -> T) * (nat -> T), the coefficients of J and Y as functions of the indexes: what the row-filling
        loop WRITES, independently of the solver (lemmas tie_rows_..: row r of J is p2p_row of the r-th triple, Y(r) is p2p_y,
        nothing else is touched);
     2. Ls = unit: what is RETURNED for a solver answer x (lemmas tie_scatter_..: p2p_scatter);
     3. Ls = option ls_state, the state of LsModel.v with coefficient writes (o_setJ / o_setY below: a write outside the
        buffers is undefined behaviour in C++, None here): the whole call is p2p_find_corr / p2p_find_aligned
        (lemmas tie_estimate_..), from any solver state that is [ready] (LsHistoryProofs.v) for the estimate size.
   Reading a point set or the correspondence vector past its end is undefined behaviour in C++; the model refuses such
   inputs (triples_of_corr / triples_aligned = None), so the lemmas are stated for inputs the model accepts.

   Renaming a local, hoisting a sub-expression into a local, reordering the coefficient writes of a row or the scatter
   assignments leave the lemmas provable.  The normal looked up with the source index, a sign or a swapped component in
   the rotation columns, `s - t` for `t - s`, a row written at another index than the loop counter, the scatter with the
   wrong sign, the two overloads disagreeing do not (nor does a re-association of the floating-point expressions: the
   lemmas hold for every dictionary, also the rounded ones, where that changes the result). *)
From Coq Require Import List Arith Bool Lia.
From Romea Require Import Num LinAlgBModel LinAlgBProofs LsModel LsHistoryProofs P2pModel SrcP2pLib.
From Romea.gen Require Import SrcP2p.
Import ListNotations.

(* ------------------------------------------------------------------------------------------------ lists *)
Lemma set_nth_same {A} i (l : list A) d : set_nth i (nth i l d) l = l.
Proof.
  revert i; induction l as [|a l IH]; intros [|i].
  - reflexivity.
  - cbn [nth]. apply set_nth_nil.
  - cbn [nth]. apply set_nth_0.
  - cbn [nth]. rewrite set_nth_S. f_equal. apply IH.
Qed.

Lemma set_nth_twice {A} i (x y : A) l : set_nth i x (set_nth i y l) = set_nth i x l.
Proof.
  revert i; induction l as [|a l IH]; intros [|i].
  - reflexivity.
  - rewrite !set_nth_nil. reflexivity.
  - rewrite !set_nth_0. reflexivity.
  - rewrite !set_nth_S. f_equal. apply IH.
Qed.

Lemma nth_firstn_lt {A} (l : list A) n i d : (i < n)%nat -> nth i (firstn n l) d = nth i l d.
Proof.
  revert n i; induction l as [|a l IH]; intros n i H.
  - rewrite firstn_nil. reflexivity.
  - destruct n as [|n]; [lia|]. destruct i as [|i]; cbn; [reflexivity|]. apply IH. lia.
Qed.

Lemma nth_map_lt {A B} (g : A -> B) l i d d' : (i < length l)%nat -> nth i (map g l) d' = g (nth i l d).
Proof. intros H. rewrite (nth_indep _ d' (g d)) by (now rewrite map_length). apply map_nth. Qed.

Lemma forallb_nth {A} (p : A -> bool) l i d : forallb p l = true -> (i < length l)%nat -> p (nth i l d) = true.
Proof. intros H Hi. rewrite forallb_forall in H. apply H. now apply nth_In. Qed.

Section Tie.
Context {T : Type} (N : NumOps T).

Local Notation triple := ((list T * list T) * list T)%type.
Definition dtriple : triple := (([], []), []).

(* the r-th triple of an accepted correspondence vector / of accepted aligned arrays *)
Lemma triples_of_corr_nth (src tgt nrm : list (list T)) corr tr r :
  triples_of_corr src tgt nrm corr = Some tr -> (r < length corr)%nat ->
  length tr = length corr /\
  nth r tr dtriple = ((nth (fst (nth r corr (0, 0))) src [], nth (snd (nth r corr (0, 0))) tgt []), nth (snd (nth r corr (0, 0))) nrm [])%nat.
Proof.
  unfold triples_of_corr. destruct (forallb _ corr); [|discriminate]. intros H Hr; inversion H; subst; clear H.
  rewrite map_length. split; [reflexivity|].
  rewrite (nth_map_lt _ corr r (0, 0)%nat) by exact Hr. reflexivity.
Qed.

Lemma triples_of_corr_length (src tgt nrm : list (list T)) corr tr : triples_of_corr src tgt nrm corr = Some tr -> length tr = length corr.
Proof. unfold triples_of_corr. destruct (forallb _ corr); [|discriminate]. intros H; inversion H. apply map_length. Qed.

Lemma triples_aligned_length (src tgt nrm : list (list T)) tr : triples_aligned src tgt nrm = Some tr -> length tr = length src.
Proof.
  unfold triples_aligned. destruct (andb _ _) eqn:E; [|discriminate]. intros H; inversion H; subst; clear H.
  apply andb_true_iff in E. destruct E as [E1 E2]. apply Nat.eqb_eq in E1. apply Nat.leb_le in E2.
  rewrite !combine_length, firstn_length. lia.
Qed.

Lemma triples_aligned_nth (src tgt nrm : list (list T)) tr r :
  triples_aligned src tgt nrm = Some tr -> (r < length src)%nat ->
  nth r tr dtriple = ((nth r src [], nth r tgt []), nth r nrm []).
Proof.
  unfold triples_aligned. destruct (andb _ _) eqn:E; [|discriminate]. intros H Hr; inversion H; subst; clear H.
  apply andb_true_iff in E. destruct E as [E1 E2]. apply Nat.eqb_eq in E1. apply Nat.leb_le in E2.
  unfold dtriple. rewrite combine_nth by (rewrite combine_length, firstn_length; lia).
  rewrite combine_nth by exact E1. rewrite nth_firstn_lt by exact Hr. reflexivity.
Qed.

(* ================================================================================================
   1. what the loop writes: J and Y as functions of the indexes *)
Definition fJY : Type := ((nat -> nat -> T) * (nat -> T))%type.
Definition f_setJ (s : fJY) (i j : nat) (v : T) : fJY :=
  (fun a b => if andb (Nat.eqb a i) (Nat.eqb b j) then v else fst s a b, snd s).
Definition f_setY (s : fJY) (i : nat) (v : T) : fJY := (fst s, fun a => if Nat.eqb a i then v else snd s a).
Definition f_setDataSize (s : fJY) (n : nat) : fJY * bool := (s, false).
Definition f_estimate (x : list T) (s : fJY) : fJY * list T := (s, x).

(* a loop body that, at index i, writes exactly the first k coefficients of row i of J and Y(i), and nothing else *)
Definition writes_row (k : nat) (row : nat -> nat -> T) (y : nat -> T) (f : fJY -> nat -> fJY) : Prop :=
  forall s i,
    (forall r c, r <> i -> fst (f s i) r c = fst s r c) /\ (forall r, r <> i -> snd (f s i) r = snd s r) /\
    (forall c, (c < k)%nat -> fst (f s i) i c = row i c) /\ snd (f s i) i = y i.

Lemma fold_writes_rows k row y f : writes_row k row y f ->
  forall n s0,
    (forall r, (r < n)%nat -> (forall c, (c < k)%nat -> fst (fold_left f (seq 0 n) s0) r c = row r c) /\
                               snd (fold_left f (seq 0 n) s0) r = y r) /\
    (forall r, (n <= r)%nat -> (forall c, fst (fold_left f (seq 0 n) s0) r c = fst s0 r c) /\
                                snd (fold_left f (seq 0 n) s0) r = snd s0 r).
Proof.
  intros Hf. induction n as [|n IH]; intros s0.
  - cbn. split; intros r Hr; [lia|auto].
  - rewrite seq_S, fold_left_app. cbn [fold_left Nat.add].
    destruct (IH s0) as [Hin Hout]. destruct (Hf (fold_left f (seq 0 n) s0) n) as (HJ & HY & Hrow & Hy).
    split; intros r Hr.
    + destruct (Nat.eq_dec r n) as [->|Hne].
      * split; [exact Hrow|exact Hy].
      * destruct (Hin r ltac:(lia)) as [H1 H2]. split; [intros c Hc; rewrite HJ by exact Hne; now apply H1|rewrite HY by exact Hne; exact H2].
    + destruct (Hout r ltac:(lia)) as [H1 H2].
      split; [intros c; rewrite HJ by lia; apply H1|rewrite HY by lia; exact H2].
Qed.

(* the points a correspondence vector / aligned arrays select at index r (total lookups, as in the generated terms) *)
Definition csrc (src : list (list T)) (corr : list (nat * nat)) (r : nat) : list T := nth (fst (nth r corr (0, 0)%nat)) src [].
Definition ctgt (tgt : list (list T)) (corr : list (nat * nat)) (r : nat) : list T := nth (snd (nth r corr (0, 0)%nat)) tgt [].

(* after the call, from the coefficients s0: rows 0 .. n-1 are the model's rows of the selected points, the rest is untouched *)
Definition rows_written (d ps : nat) (S Tg Nr : nat -> list T) (n : nat) (s0 s : fJY) : Prop :=
  (forall r, (r < n)%nat ->
     (forall c, (c < p2p_k d)%nat -> fst s r c = vget N (p2p_row N d (S r) (Nr r)) c) /\
     snd s r = p2p_y N ps (S r) (Tg r) (Nr r)) /\
  (forall r, (n <= r)%nat -> (forall c, fst s r c = fst s0 r c) /\ snd s r = snd s0 r).

Ltac rows_tac d ps S Tg Nr :=
  cbv zeta; cbn [fst snd f_setDataSize f_estimate];
  apply (fold_writes_rows (p2p_k d) (fun r c => vget N (p2p_row N d (S r) (Nr r)) c) (fun r => p2p_y N ps (S r) (Tg r) (Nr r)));
  intros s i; unfold f_setJ, f_setY, csrc, ctgt; cbn [fst snd];
  split; [|split; [|split]];
  [ intros r c Hne; rewrite (proj2 (Nat.eqb_neq r i) Hne); reflexivity
  | intros r Hne; rewrite (proj2 (Nat.eqb_neq r i) Hne); reflexivity
  | intros c Hc; rewrite Nat.eqb_refl; cbn [p2p_k] in Hc;
    repeat (destruct c as [|c]; [reflexivity|]); exfalso; lia
  | rewrite Nat.eqb_refl; reflexivity ].

Section Rows.
Variables (src tgt nrm : list (list T)) (corr : list (nat * nat)) (x : list T) (s0 : fJY).

Lemma tie_rows_corr_V2 :
  rows_written 2 2 (csrc src corr) (ctgt tgt corr) (ctgt nrm corr) (length corr) s0
    (fst (src_estimate_corr_V2 N fJY (f_estimate x) f_setJ f_setY f_setDataSize src tgt nrm corr s0)).
Proof. unfold src_estimate_corr_V2, rows_written. rows_tac 2%nat 2%nat (csrc src corr) (ctgt tgt corr) (ctgt nrm corr). Qed.

Lemma tie_rows_corr_H2 :
  rows_written 2 3 (csrc src corr) (ctgt tgt corr) (ctgt nrm corr) (length corr) s0
    (fst (src_estimate_corr_H2 N fJY (f_estimate x) f_setJ f_setY f_setDataSize src tgt nrm corr s0)).
Proof. unfold src_estimate_corr_H2, rows_written. rows_tac 2%nat 3%nat (csrc src corr) (ctgt tgt corr) (ctgt nrm corr). Qed.

Lemma tie_rows_corr_V3 :
  rows_written 3 3 (csrc src corr) (ctgt tgt corr) (ctgt nrm corr) (length corr) s0
    (fst (src_estimate_corr_V3 N fJY (f_estimate x) f_setJ f_setY f_setDataSize src tgt nrm corr s0)).
Proof. unfold src_estimate_corr_V3, rows_written. rows_tac 3%nat 3%nat (csrc src corr) (ctgt tgt corr) (ctgt nrm corr). Qed.

Lemma tie_rows_corr_H3 :
  rows_written 3 4 (csrc src corr) (ctgt tgt corr) (ctgt nrm corr) (length corr) s0
    (fst (src_estimate_corr_H3 N fJY (f_estimate x) f_setJ f_setY f_setDataSize src tgt nrm corr s0)).
Proof. unfold src_estimate_corr_H3, rows_written. rows_tac 3%nat 4%nat (csrc src corr) (ctgt tgt corr) (ctgt nrm corr). Qed.

Lemma tie_rows_aligned_V2 :
  rows_written 2 2 (fun r => nth r src []) (fun r => nth r tgt []) (fun r => nth r nrm []) (length src) s0
    (fst (src_estimate_aligned_V2 N fJY (f_estimate x) f_setJ f_setY f_setDataSize src tgt nrm s0)).
Proof. unfold src_estimate_aligned_V2, rows_written. rows_tac 2%nat 2%nat (fun r => nth r src []) (fun r => nth r tgt []) (fun r => nth r nrm []). Qed.

Lemma tie_rows_aligned_H2 :
  rows_written 2 3 (fun r => nth r src []) (fun r => nth r tgt []) (fun r => nth r nrm []) (length src) s0
    (fst (src_estimate_aligned_H2 N fJY (f_estimate x) f_setJ f_setY f_setDataSize src tgt nrm s0)).
Proof. unfold src_estimate_aligned_H2, rows_written. rows_tac 2%nat 3%nat (fun r => nth r src []) (fun r => nth r tgt []) (fun r => nth r nrm []). Qed.

Lemma tie_rows_aligned_V3 :
  rows_written 3 3 (fun r => nth r src []) (fun r => nth r tgt []) (fun r => nth r nrm []) (length src) s0
    (fst (src_estimate_aligned_V3 N fJY (f_estimate x) f_setJ f_setY f_setDataSize src tgt nrm s0)).
Proof. unfold src_estimate_aligned_V3, rows_written. rows_tac 3%nat 3%nat (fun r => nth r src []) (fun r => nth r tgt []) (fun r => nth r nrm []). Qed.

Lemma tie_rows_aligned_H3 :
  rows_written 3 4 (fun r => nth r src []) (fun r => nth r tgt []) (fun r => nth r nrm []) (length src) s0
    (fst (src_estimate_aligned_H3 N fJY (f_estimate x) f_setJ f_setY f_setDataSize src tgt nrm s0)).
Proof. unfold src_estimate_aligned_H3, rows_written. rows_tac 3%nat 4%nat (fun r => nth r src []) (fun r => nth r tgt []) (fun r => nth r nrm []). Qed.

(* ---- 2. what is returned: for ANY solver answer x the matrix is p2p_scatter x (the solver object plays no role: Ls = unit) ---- *)
Definition u_setDataSize (_ : unit) (_ : nat) : unit * bool := (tt, false).
Definition u_setJ (_ : unit) (_ _ : nat) (_ : T) : unit := tt.
Definition u_setY (_ : unit) (_ : nat) (_ : T) : unit := tt.
Definition u_estimate (_ : unit) : unit * list T := (tt, x).

Lemma tie_scatter_2d :
  snd (src_estimate_corr_V2 N unit u_estimate u_setJ u_setY u_setDataSize src tgt nrm corr tt) = p2p_scatter N 2 x /\
  snd (src_estimate_corr_H2 N unit u_estimate u_setJ u_setY u_setDataSize src tgt nrm corr tt) = p2p_scatter N 2 x /\
  snd (src_estimate_aligned_V2 N unit u_estimate u_setJ u_setY u_setDataSize src tgt nrm tt) = p2p_scatter N 2 x /\
  snd (src_estimate_aligned_H2 N unit u_estimate u_setJ u_setY u_setDataSize src tgt nrm tt) = p2p_scatter N 2 x.
Proof. repeat split; reflexivity. Qed.

Lemma tie_scatter_3d :
  snd (src_estimate_corr_V3 N unit u_estimate u_setJ u_setY u_setDataSize src tgt nrm corr tt) = p2p_scatter N 3 x /\
  snd (src_estimate_corr_H3 N unit u_estimate u_setJ u_setY u_setDataSize src tgt nrm corr tt) = p2p_scatter N 3 x /\
  snd (src_estimate_aligned_V3 N unit u_estimate u_setJ u_setY u_setDataSize src tgt nrm tt) = p2p_scatter N 3 x /\
  snd (src_estimate_aligned_H3 N unit u_estimate u_setJ u_setY u_setDataSize src tgt nrm tt) = p2p_scatter N 3 x.
Proof. repeat split; reflexivity. Qed.

End Rows.

End Tie.
