(* SrcTieC05.v — the members of FindRigidTransformationByLeastSquares<PointType> regenerated from the clang AST of the
   current source (gen/SrcP2p.v, written on every run by translate/tr_C05_p2p.py; instantiations V2 = Eigen::Vector2,
   V3 = Eigen::Vector3, H2 = HomogeneousCoordinates2, H3 = HomogeneousCoordinates3, float and double giving the same term)
   ARE the functions of P2pModel.v that the theorems of Properties_C05.v are about — for EVERY numeric dictionary N (so also
   for the binary64 / binary32 dictionaries that are executed): the generated terms and the model perform the same
   dictionary operations in the same order.

   In the generated terms the member leastSquares_ is an abstract object (type argument Ls) and the methods called on it
   are the fields — bound by NAME — of the argument M : LsMethods T Ls (SrcP2pLib.v: F_setDataSize, F_getJ_set = `J(i, j) = v`
   through the reference returned by getJ(), F_getY_set, F_estimateUsingSVD, F_setPreconditionner, F_setEstimateSize,
   F_new = the default-constructed member).  Three instantiations are used here:
     1. f_methods x: Ls = (nat -> nat -> T) * (nat -> T), the coefficients of J and Y as functions of the indexes: what the
        row-filling loop WRITES, independently of the solver (lemmas tie_rows_..: row r of J is p2p_row of the r-th triple,
        Y(r) is p2p_y, nothing else is touched);
     2. u_methods x: Ls = unit: what is RETURNED for a solver answer x (lemmas tie_scatter_..: p2p_scatter);
     3. o_methods: Ls = option ls_state, the state of LsModel.v with coefficient writes (o_setJ / o_setY below: a write
        outside the buffers is undefined behaviour in C++, None here) and the model's setDataSize / setEstimateSize /
        setPreconditionner / estimateUsingSVD: the whole call is p2p_find_corr / p2p_find_aligned (lemmas tie_estimate_..),
        from any solver state that is [ready] (LsHistoryProofs.v) for the estimate size; constructor = p2p_new,
        setPreconditioner = p2p_set_preconditioner.
   Reading a point set or the correspondence vector past its end is undefined behaviour in C++; the model refuses such
   inputs (triples_of_corr / triples_aligned = None), so the lemmas are stated for inputs the model accepts.

   Renaming a local, hoisting a sub-expression into a local, reordering the coefficient writes of a row or the scatter
   assignments leave the lemmas provable.  The normal looked up with the source index, a sign or a swapped component in
   the rotation columns, `s - t` for `t - s`, a row written at another index than the loop counter, the scatter with the
   wrong sign, the two overloads disagreeing do not (nor does a re-association of the floating-point expressions: the
   lemmas hold for every dictionary, also the rounded ones, where that changes the result). *)
From Coq Require Import List Arith Bool Lia.
From Romea Require Import Num LinAlgBModel LinAlgBProofs LsModel LsHistoryProofs P2pModel SrcP2pLib.
From Romea.gen Require Import SrcP2p.
Import ListNotations.

(* ------------------------------------------------------------------------------------------------ lists *)
Lemma set_nth_same {A} i (l : list A) d : set_nth i (nth i l d) l = l.
Proof.
  revert i; induction l as [|a l IH]; intros [|i].
  - reflexivity.
  - cbn [nth]. apply set_nth_nil.
  - cbn [nth]. apply set_nth_0.
  - cbn [nth]. rewrite set_nth_S. f_equal. apply IH.
Qed.

Lemma set_nth_twice {A} i (x y : A) l : set_nth i x (set_nth i y l) = set_nth i x l.
Proof.
  revert i; induction l as [|a l IH]; intros [|i].
  - reflexivity.
  - rewrite !set_nth_nil. reflexivity.
  - rewrite !set_nth_0. reflexivity.
  - rewrite !set_nth_S. f_equal. apply IH.
Qed.

Lemma nth_firstn_lt {A} (l : list A) n i d : (i < n)%nat -> nth i (firstn n l) d = nth i l d.
Proof.
  revert n i; induction l as [|a l IH]; intros n i H.
  - rewrite firstn_nil. reflexivity.
  - destruct n as [|n]; [lia|]. destruct i as [|i]; cbn; [reflexivity|]. apply IH. lia.
Qed.

Lemma nth_map_lt {A B} (g : A -> B) l i d d' : (i < length l)%nat -> nth i (map g l) d' = g (nth i l d).
Proof. intros H. rewrite (nth_indep _ d' (g d)) by (now rewrite map_length). apply map_nth. Qed.

Lemma forallb_nth {A} (p : A -> bool) l i d : forallb p l = true -> (i < length l)%nat -> p (nth i l d) = true.
Proof. intros H Hi. rewrite forallb_forall in H. apply H. now apply nth_In. Qed.

Section Tie.
Context {T : Type} (N : NumOps T).

Local Notation triple := ((list T * list T) * list T)%type.
Definition dtriple : triple := (([], []), []).

(* the r-th triple of an accepted correspondence vector / of accepted aligned arrays *)
Lemma triples_of_corr_nth (src tgt nrm : list (list T)) corr tr r :
  triples_of_corr src tgt nrm corr = Some tr -> (r < length corr)%nat ->
  length tr = length corr /\
  nth r tr dtriple = ((nth (fst (nth r corr (0, 0))) src [], nth (snd (nth r corr (0, 0))) tgt []), nth (snd (nth r corr (0, 0))) nrm [])%nat.
Proof.
  unfold triples_of_corr. destruct (forallb _ corr); [|discriminate]. intros H Hr; inversion H; subst; clear H.
  rewrite map_length. split; [reflexivity|].
  rewrite (nth_map_lt _ corr r (0, 0)%nat) by exact Hr. reflexivity.
Qed.

Lemma triples_of_corr_length (src tgt nrm : list (list T)) corr tr : triples_of_corr src tgt nrm corr = Some tr -> length tr = length corr.
Proof. unfold triples_of_corr. destruct (forallb _ corr); [|discriminate]. intros H; inversion H. apply map_length. Qed.

Lemma triples_aligned_length (src tgt nrm : list (list T)) tr : triples_aligned src tgt nrm = Some tr -> length tr = length src.
Proof.
  unfold triples_aligned. destruct (andb _ _) eqn:E; [|discriminate]. intros H; inversion H; subst; clear H.
  apply andb_true_iff in E. destruct E as [E1 E2]. apply Nat.eqb_eq in E1. apply Nat.leb_le in E2.
  rewrite !combine_length, firstn_length. lia.
Qed.

Lemma triples_aligned_nth (src tgt nrm : list (list T)) tr r :
  triples_aligned src tgt nrm = Some tr -> (r < length src)%nat ->
  nth r tr dtriple = ((nth r src [], nth r tgt []), nth r nrm []).
Proof.
  unfold triples_aligned. destruct (andb _ _) eqn:E; [|discriminate]. intros H Hr; inversion H; subst; clear H.
  apply andb_true_iff in E. destruct E as [E1 E2]. apply Nat.eqb_eq in E1. apply Nat.leb_le in E2.
  unfold dtriple. rewrite combine_nth by (rewrite combine_length, firstn_length; lia).
  rewrite combine_nth by exact E1. rewrite nth_firstn_lt by exact Hr. reflexivity.
Qed.

(* ================================================================================================
   1. what the loop writes: J and Y as functions of the indexes *)
Definition fJY : Type := ((nat -> nat -> T) * (nat -> T))%type.
Definition f_setJ (s : fJY) (i j : nat) (v : T) : fJY :=
  (fun a b => if andb (Nat.eqb a i) (Nat.eqb b j) then v else fst s a b, snd s).
Definition f_setY (s : fJY) (i : nat) (v : T) : fJY := (fst s, fun a => if Nat.eqb a i then v else snd s a).
Definition f_setDataSize (s : fJY) (n : nat) : fJY * bool := (s, false).
Definition f_estimate (x : list T) (s : fJY) : fJY * list T := (s, x).
(* (the constructor and setPreconditioner are not called by estimate_: the other fields play no role here) *)
Definition f_methods (x : list T) : LsMethods T fJY :=
  mkLsMethods (fun _ _ => nzero N, fun _ => nzero N) (fun s _ => s) f_setDataSize f_setJ f_setY (f_estimate x) (fun s _ => s).

(* a loop body that, at index i, writes exactly the first k coefficients of row i of J and Y(i), and nothing else *)
Definition writes_row (k : nat) (row : nat -> nat -> T) (y : nat -> T) (f : fJY -> nat -> fJY) : Prop :=
  forall s i,
    (forall r c, r <> i -> fst (f s i) r c = fst s r c) /\ (forall r, r <> i -> snd (f s i) r = snd s r) /\
    (forall c, (c < k)%nat -> fst (f s i) i c = row i c) /\ snd (f s i) i = y i.

Lemma fold_writes_rows k row y f : writes_row k row y f ->
  forall n s0,
    (forall r, (r < n)%nat -> (forall c, (c < k)%nat -> fst (fold_left f (seq 0 n) s0) r c = row r c) /\
                               snd (fold_left f (seq 0 n) s0) r = y r) /\
    (forall r, (n <= r)%nat -> (forall c, fst (fold_left f (seq 0 n) s0) r c = fst s0 r c) /\
                                snd (fold_left f (seq 0 n) s0) r = snd s0 r).
Proof.
  intros Hf. induction n as [|n IH]; intros s0.
  - cbn. split; intros r Hr; [lia|auto].
  - rewrite seq_S, fold_left_app. cbn [fold_left Nat.add].
    destruct (IH s0) as [Hin Hout]. destruct (Hf (fold_left f (seq 0 n) s0) n) as (HJ & HY & Hrow & Hy).
    split; intros r Hr.
    + destruct (Nat.eq_dec r n) as [->|Hne].
      * split; [exact Hrow|exact Hy].
      * destruct (Hin r ltac:(lia)) as [H1 H2]. split; [intros c Hc; rewrite HJ by exact Hne; now apply H1|rewrite HY by exact Hne; exact H2].
    + destruct (Hout r ltac:(lia)) as [H1 H2].
      split; [intros c; rewrite HJ by lia; apply H1|rewrite HY by lia; exact H2].
Qed.

(* the points a correspondence vector / aligned arrays select at index r (total lookups, as in the generated terms) *)
Definition csrc (src : list (list T)) (corr : list (nat * nat)) (r : nat) : list T := nth (fst (nth r corr (0, 0)%nat)) src [].
Definition ctgt (tgt : list (list T)) (corr : list (nat * nat)) (r : nat) : list T := nth (snd (nth r corr (0, 0)%nat)) tgt [].

(* after the call, from the coefficients s0: rows 0 .. n-1 are the model's rows of the selected points, the rest is untouched *)
Definition rows_written (d ps : nat) (S Tg Nr : nat -> list T) (n : nat) (s0 s : fJY) : Prop :=
  (forall r, (r < n)%nat ->
     (forall c, (c < p2p_k d)%nat -> fst s r c = vget N (p2p_row N d (S r) (Nr r)) c) /\
     snd s r = p2p_y N ps (S r) (Tg r) (Nr r)) /\
  (forall r, (n <= r)%nat -> (forall c, fst s r c = fst s0 r c) /\ snd s r = snd s0 r).

Ltac rows_tac d ps S Tg Nr :=
  cbv zeta; cbn [fst snd f_setDataSize f_estimate f_methods F_setDataSize F_getJ_set F_getY_set F_estimateUsingSVD];
  apply (fold_writes_rows (p2p_k d) (fun r c => vget N (p2p_row N d (S r) (Nr r)) c) (fun r => p2p_y N ps (S r) (Tg r) (Nr r)));
  intros s i; unfold f_setJ, f_setY, csrc, ctgt; cbn [fst snd];
  split; [|split; [|split]];
  [ intros r c Hne; rewrite (proj2 (Nat.eqb_neq r i) Hne); reflexivity
  | intros r Hne; rewrite (proj2 (Nat.eqb_neq r i) Hne); reflexivity
  | intros c Hc; rewrite Nat.eqb_refl; cbn [p2p_k] in Hc;
    repeat (destruct c as [|c]; [reflexivity|]); exfalso; lia
  | rewrite Nat.eqb_refl; reflexivity ].

Section Rows.
Variables (src tgt nrm : list (list T)) (corr : list (nat * nat)) (x : list T) (s0 : fJY).

Lemma tie_rows_corr_V2 :
  rows_written 2 2 (csrc src corr) (ctgt tgt corr) (ctgt nrm corr) (length corr) s0
    (fst (src_estimate_corr_V2 N fJY (f_methods x) src tgt nrm corr s0)).
Proof. unfold src_estimate_corr_V2, rows_written. rows_tac 2%nat 2%nat (csrc src corr) (ctgt tgt corr) (ctgt nrm corr). Qed.

Lemma tie_rows_corr_H2 :
  rows_written 2 3 (csrc src corr) (ctgt tgt corr) (ctgt nrm corr) (length corr) s0
    (fst (src_estimate_corr_H2 N fJY (f_methods x) src tgt nrm corr s0)).
Proof. unfold src_estimate_corr_H2, rows_written. rows_tac 2%nat 3%nat (csrc src corr) (ctgt tgt corr) (ctgt nrm corr). Qed.

Lemma tie_rows_corr_V3 :
  rows_written 3 3 (csrc src corr) (ctgt tgt corr) (ctgt nrm corr) (length corr) s0
    (fst (src_estimate_corr_V3 N fJY (f_methods x) src tgt nrm corr s0)).
Proof. unfold src_estimate_corr_V3, rows_written. rows_tac 3%nat 3%nat (csrc src corr) (ctgt tgt corr) (ctgt nrm corr). Qed.

Lemma tie_rows_corr_H3 :
  rows_written 3 4 (csrc src corr) (ctgt tgt corr) (ctgt nrm corr) (length corr) s0
    (fst (src_estimate_corr_H3 N fJY (f_methods x) src tgt nrm corr s0)).
Proof. unfold src_estimate_corr_H3, rows_written. rows_tac 3%nat 4%nat (csrc src corr) (ctgt tgt corr) (ctgt nrm corr). Qed.

Lemma tie_rows_aligned_V2 :
  rows_written 2 2 (fun r => nth r src []) (fun r => nth r tgt []) (fun r => nth r nrm []) (length src) s0
    (fst (src_estimate_aligned_V2 N fJY (f_methods x) src tgt nrm s0)).
Proof. unfold src_estimate_aligned_V2, rows_written. rows_tac 2%nat 2%nat (fun r => nth r src []) (fun r => nth r tgt []) (fun r => nth r nrm []). Qed.

Lemma tie_rows_aligned_H2 :
  rows_written 2 3 (fun r => nth r src []) (fun r => nth r tgt []) (fun r => nth r nrm []) (length src) s0
    (fst (src_estimate_aligned_H2 N fJY (f_methods x) src tgt nrm s0)).
Proof. unfold src_estimate_aligned_H2, rows_written. rows_tac 2%nat 3%nat (fun r => nth r src []) (fun r => nth r tgt []) (fun r => nth r nrm []). Qed.

Lemma tie_rows_aligned_V3 :
  rows_written 3 3 (fun r => nth r src []) (fun r => nth r tgt []) (fun r => nth r nrm []) (length src) s0
    (fst (src_estimate_aligned_V3 N fJY (f_methods x) src tgt nrm s0)).
Proof. unfold src_estimate_aligned_V3, rows_written. rows_tac 3%nat 3%nat (fun r => nth r src []) (fun r => nth r tgt []) (fun r => nth r nrm []). Qed.

Lemma tie_rows_aligned_H3 :
  rows_written 3 4 (fun r => nth r src []) (fun r => nth r tgt []) (fun r => nth r nrm []) (length src) s0
    (fst (src_estimate_aligned_H3 N fJY (f_methods x) src tgt nrm s0)).
Proof. unfold src_estimate_aligned_H3, rows_written. rows_tac 3%nat 4%nat (fun r => nth r src []) (fun r => nth r tgt []) (fun r => nth r nrm []). Qed.

(* ---- 2. what is returned: for ANY solver answer x the matrix is p2p_scatter x (the solver object plays no role: Ls = unit) ---- *)
Definition u_setDataSize (_ : unit) (_ : nat) : unit * bool := (tt, false).
Definition u_setJ (_ : unit) (_ _ : nat) (_ : T) : unit := tt.
Definition u_setY (_ : unit) (_ : nat) (_ : T) : unit := tt.
Definition u_estimate (_ : unit) : unit * list T := (tt, x).
Definition u_methods : LsMethods T unit := mkLsMethods tt (fun _ _ => tt) u_setDataSize u_setJ u_setY u_estimate (fun _ _ => tt).

Lemma tie_scatter_2d :
  snd (src_estimate_corr_V2 N unit u_methods src tgt nrm corr tt) = p2p_scatter N 2 x /\
  snd (src_estimate_corr_H2 N unit u_methods src tgt nrm corr tt) = p2p_scatter N 2 x /\
  snd (src_estimate_aligned_V2 N unit u_methods src tgt nrm tt) = p2p_scatter N 2 x /\
  snd (src_estimate_aligned_H2 N unit u_methods src tgt nrm tt) = p2p_scatter N 2 x.
Proof. repeat split; reflexivity. Qed.

Lemma tie_scatter_3d :
  snd (src_estimate_corr_V3 N unit u_methods src tgt nrm corr tt) = p2p_scatter N 3 x /\
  snd (src_estimate_corr_H3 N unit u_methods src tgt nrm corr tt) = p2p_scatter N 3 x /\
  snd (src_estimate_aligned_V3 N unit u_methods src tgt nrm tt) = p2p_scatter N 3 x /\
  snd (src_estimate_aligned_H3 N unit u_methods src tgt nrm tt) = p2p_scatter N 3 x.
Proof. repeat split; reflexivity. Qed.

End Rows.

(* the same, in terms of the triples the model builds from an accepted input *)
Definition rows_of_triples (d ps : nat) (tr : list triple) (s0 s : fJY) : Prop :=
  rows_written d ps (fun r => fst (fst (nth r tr dtriple))) (fun r => snd (fst (nth r tr dtriple))) (fun r => snd (nth r tr dtriple))
               (length tr) s0 s.

Lemma rows_written_ext d ps S Tg Nr S' Tg' Nr' n s0 s :
  (forall r, (r < n)%nat -> S r = S' r /\ Tg r = Tg' r /\ Nr r = Nr' r) ->
  rows_written d ps S Tg Nr n s0 s -> rows_written d ps S' Tg' Nr' n s0 s.
Proof. intros E [H1 H2]. split; [|exact H2]. intros r Hr. destruct (E r Hr) as (<- & <- & <-). apply H1, Hr. Qed.

Ltac rows_corr_tac H lem :=
  unfold rows_of_triples; rewrite (triples_of_corr_length _ _ _ _ _ H);
  eapply rows_written_ext; [|apply lem];
  intros r Hr; destruct (triples_of_corr_nth _ _ _ _ _ r H Hr) as [_ ->]; repeat split; reflexivity.
Ltac rows_aligned_tac H lem :=
  unfold rows_of_triples; rewrite (triples_aligned_length _ _ _ _ H);
  eapply rows_written_ext; [|apply lem];
  intros r Hr; rewrite (triples_aligned_nth _ _ _ _ r H Hr); repeat split; reflexivity.

Theorem source_tie_rows_2d (src tgt nrm : list (list T)) (corr : list (nat * nat)) (tr : list triple) (x : list T) (s0 : fJY) :
  (triples_of_corr src tgt nrm corr = Some tr ->
     rows_of_triples 2 2 tr s0 (fst (src_estimate_corr_V2 N fJY (f_methods x) src tgt nrm corr s0)) /\
     rows_of_triples 2 3 tr s0 (fst (src_estimate_corr_H2 N fJY (f_methods x) src tgt nrm corr s0))) /\
  (triples_aligned src tgt nrm = Some tr ->
     rows_of_triples 2 2 tr s0 (fst (src_estimate_aligned_V2 N fJY (f_methods x) src tgt nrm s0)) /\
     rows_of_triples 2 3 tr s0 (fst (src_estimate_aligned_H2 N fJY (f_methods x) src tgt nrm s0))).
Proof.
  split; intros H; split.
  - rows_corr_tac H tie_rows_corr_V2.
  - rows_corr_tac H tie_rows_corr_H2.
  - rows_aligned_tac H tie_rows_aligned_V2.
  - rows_aligned_tac H tie_rows_aligned_H2.
Qed.

Theorem source_tie_rows_3d (src tgt nrm : list (list T)) (corr : list (nat * nat)) (tr : list triple) (x : list T) (s0 : fJY) :
  (triples_of_corr src tgt nrm corr = Some tr ->
     rows_of_triples 3 3 tr s0 (fst (src_estimate_corr_V3 N fJY (f_methods x) src tgt nrm corr s0)) /\
     rows_of_triples 3 4 tr s0 (fst (src_estimate_corr_H3 N fJY (f_methods x) src tgt nrm corr s0))) /\
  (triples_aligned src tgt nrm = Some tr ->
     rows_of_triples 3 3 tr s0 (fst (src_estimate_aligned_V3 N fJY (f_methods x) src tgt nrm s0)) /\
     rows_of_triples 3 4 tr s0 (fst (src_estimate_aligned_H3 N fJY (f_methods x) src tgt nrm s0))).
Proof.
  split; intros H; split.
  - rows_corr_tac H tie_rows_corr_V3.
  - rows_corr_tac H tie_rows_corr_H3.
  - rows_aligned_tac H tie_rows_aligned_V3.
  - rows_aligned_tac H tie_rows_aligned_H3.
Qed.

(* the scatter, all eight estimate_ bodies at once *)
Theorem source_tie_scatter (src tgt nrm : list (list T)) (corr : list (nat * nat)) (x : list T) :
  (snd (src_estimate_corr_V2 N unit (u_methods x) src tgt nrm corr tt) = p2p_scatter N 2 x /\
   snd (src_estimate_corr_H2 N unit (u_methods x) src tgt nrm corr tt) = p2p_scatter N 2 x /\
   snd (src_estimate_aligned_V2 N unit (u_methods x) src tgt nrm tt) = p2p_scatter N 2 x /\
   snd (src_estimate_aligned_H2 N unit (u_methods x) src tgt nrm tt) = p2p_scatter N 2 x) /\
  (snd (src_estimate_corr_V3 N unit (u_methods x) src tgt nrm corr tt) = p2p_scatter N 3 x /\
   snd (src_estimate_corr_H3 N unit (u_methods x) src tgt nrm corr tt) = p2p_scatter N 3 x /\
   snd (src_estimate_aligned_V3 N unit (u_methods x) src tgt nrm tt) = p2p_scatter N 3 x /\
   snd (src_estimate_aligned_H3 N unit (u_methods x) src tgt nrm tt) = p2p_scatter N 3 x).
Proof. split; [exact (tie_scatter_2d src tgt nrm corr x)|exact (tie_scatter_3d src tgt nrm corr x)]. Qed.

(* the public find overloads are estimate_; the PreconditionedPointSet overloads are estimate_ on the sets returned by get()
   (free variables sourcePoints_get / targetPoints_get of the generated terms) — whatever the solver object is *)
Theorem source_tie_find (Ls : Type) (M : LsMethods T Ls) (src tgt nrm : list (list T)) (corr : list (nat * nat)) (ls : Ls) :
  (src_find_corr_V2 N Ls M src tgt nrm corr ls = src_estimate_corr_V2 N Ls M src tgt nrm corr ls /\
   src_find_aligned_V2 N Ls M src tgt nrm ls = src_estimate_aligned_V2 N Ls M src tgt nrm ls /\
   src_find_pre_corr_V2 N Ls M nrm corr ls src tgt = src_estimate_corr_V2 N Ls M src tgt nrm corr ls /\
   src_find_pre_aligned_V2 N Ls M nrm ls src tgt = src_estimate_aligned_V2 N Ls M src tgt nrm ls) /\
  (src_find_corr_H2 N Ls M src tgt nrm corr ls = src_estimate_corr_H2 N Ls M src tgt nrm corr ls /\
   src_find_aligned_H2 N Ls M src tgt nrm ls = src_estimate_aligned_H2 N Ls M src tgt nrm ls /\
   src_find_pre_corr_H2 N Ls M nrm corr ls src tgt = src_estimate_corr_H2 N Ls M src tgt nrm corr ls /\
   src_find_pre_aligned_H2 N Ls M nrm ls src tgt = src_estimate_aligned_H2 N Ls M src tgt nrm ls) /\
  (src_find_corr_V3 N Ls M src tgt nrm corr ls = src_estimate_corr_V3 N Ls M src tgt nrm corr ls /\
   src_find_aligned_V3 N Ls M src tgt nrm ls = src_estimate_aligned_V3 N Ls M src tgt nrm ls /\
   src_find_pre_corr_V3 N Ls M nrm corr ls src tgt = src_estimate_corr_V3 N Ls M src tgt nrm corr ls /\
   src_find_pre_aligned_V3 N Ls M nrm ls src tgt = src_estimate_aligned_V3 N Ls M src tgt nrm ls) /\
  (src_find_corr_H3 N Ls M src tgt nrm corr ls = src_estimate_corr_H3 N Ls M src tgt nrm corr ls /\
   src_find_aligned_H3 N Ls M src tgt nrm ls = src_estimate_aligned_H3 N Ls M src tgt nrm ls /\
   src_find_pre_corr_H3 N Ls M nrm corr ls src tgt = src_estimate_corr_H3 N Ls M src tgt nrm corr ls /\
   src_find_pre_aligned_H3 N Ls M nrm ls src tgt = src_estimate_aligned_H3 N Ls M src tgt nrm ls).
Proof. repeat split; reflexivity. Qed.

(* ================================================================================================
   3. the member object as the state of LsModel.v *)
Section Solver.
Variable inverse_of : nat -> list (list T) -> list (list T).
Variable svd_of : nat -> list (list T) -> (list (list T) * list T) * list (list T).
Variable fill : T.
Variable svd_fixed : bool.

Local Notation zr := (nzero N).

(* coefficient writes through the references returned by getJ() / getY(): outside the buffers = undefined behaviour = None *)
Definition with_J (s : ls_state (T:=T)) (J : list (list T)) : ls_state :=
  mk_ls (ls_n s) (ls_k s) (ls_A s) (ls_b s) (ls_jcols s) J (ls_Y s) (ls_W s) (ls_inv s).
Definition with_Y (s : ls_state (T:=T)) (Y : list T) : ls_state :=
  mk_ls (ls_n s) (ls_k s) (ls_A s) (ls_b s) (ls_jcols s) (ls_J s) Y (ls_W s) (ls_inv s).

Definition o_setDataSize (s : option (ls_state (T:=T))) (n : nat) : option ls_state * bool :=
  match s with
  | Some st => (Some (fst (ls_set_data_size N fill n st)), snd (ls_set_data_size N fill n st))
  | None => (None, false)
  end.
Definition o_setJ (s : option (ls_state (T:=T))) (i j : nat) (v : T) : option ls_state :=
  match s with
  | Some st => if andb (Nat.ltb i (length (ls_J st))) (Nat.ltb j (ls_jcols st))
               then Some (with_J st (set_nth i (set_nth j v (nth i (ls_J st) [])) (ls_J st))) else None
  | None => None
  end.
Definition o_setY (s : option (ls_state (T:=T))) (i : nat) (v : T) : option ls_state :=
  match s with
  | Some st => if Nat.ltb i (length (ls_Y st)) then Some (with_Y st (set_nth i v (ls_Y st))) else None
  | None => None
  end.
Definition o_estimate (s : option (ls_state (T:=T))) : option ls_state * list T :=
  match s with
  | Some st => match (if svd_fixed then ls_estimate_svd N svd_of st else ls_estimate_svd_abs N svd_of st) with
               | Some (st2, x) => (Some st2, x)
               | None => (None, [])
               end
  | None => (None, [])
  end.
(* the methods of the solver object on the state of LsModel.v *)
Definition o_methods : LsMethods T (option (ls_state (T:=T))) :=
  mkLsMethods (Some ls_new0) (fun s k => option_map (ls_set_estimate_size N k) s) o_setDataSize o_setJ o_setY o_estimate
              (fun s A => option_map (ls_set_precond_A N A) s).

(* constructor and setPreconditioner: total operations of the model *)
Lemma tie_new :
  src_new_V2 (option ls_state) o_methods = Some (p2p_new N 2) /\
  src_new_H2 (option ls_state) o_methods = Some (p2p_new N 2) /\
  src_new_V3 (option ls_state) o_methods = Some (p2p_new N 3) /\
  src_new_H3 (option ls_state) o_methods = Some (p2p_new N 3).
Proof. repeat split; reflexivity. Qed.

(* the scale is the (0,0) coefficient of the TARGET set's preconditioning matrix *)
Lemma tie_setPreconditioner (st : ls_state (T:=T)) (P : list (list T)) :
  src_setPreconditioner_V2 N (option ls_state) o_methods (Some st) P = Some (p2p_set_preconditioner N 2 (mget N P 0 0) st) /\
  src_setPreconditioner_H2 N (option ls_state) o_methods (Some st) P = Some (p2p_set_preconditioner N 2 (mget N P 0 0) st) /\
  src_setPreconditioner_V3 N (option ls_state) o_methods (Some st) P = Some (p2p_set_preconditioner N 3 (mget N P 0 0) st) /\
  src_setPreconditioner_H3 N (option ls_state) o_methods (Some st) P = Some (p2p_set_preconditioner N 3 (mget N P 0 0) st).
Proof. repeat split; reflexivity. Qed.

(* the result of a call: the solver state after it and the returned matrix, or None (undefined) *)
Definition pack {A : Type} (r : option (ls_state (T:=T)) * A) : option (ls_state * A) :=
  match fst r with Some st => Some (st, snd r) | None => None end.

(* a state whose row i of J and coefficient i of Y have been replaced *)
Definition row_st (s : ls_state (T:=T)) (i : nat) (r : list T) (y : T) : ls_state :=
  mk_ls (ls_n s) (ls_k s) (ls_A s) (ls_b s) (ls_jcols s) (set_nth i r (ls_J s)) (set_nth i y (ls_Y s)) (ls_W s) (ls_inv s).

Lemma o_setJ_start (s : ls_state (T:=T)) i j v : (i < length (ls_J s))%nat -> (j < ls_jcols s)%nat ->
  o_setJ (Some s) i j v = Some (row_st s i (set_nth j v (nth i (ls_J s) [])) (nth i (ls_Y s) zr)).
Proof.
  intros Hi Hj. unfold o_setJ. rewrite (proj2 (Nat.ltb_lt _ _) Hi), (proj2 (Nat.ltb_lt _ _) Hj). cbn [andb].
  unfold with_J, row_st. rewrite set_nth_same. reflexivity.
Qed.

Lemma o_setY_start (s : ls_state (T:=T)) i v : (i < length (ls_Y s))%nat ->
  o_setY (Some s) i v = Some (row_st s i (nth i (ls_J s) []) v).
Proof.
  intros Hi. unfold o_setY. rewrite (proj2 (Nat.ltb_lt _ _) Hi). unfold with_Y, row_st. rewrite set_nth_same. reflexivity.
Qed.

Lemma o_setJ_row (s : ls_state (T:=T)) i j v r y : (i < length (ls_J s))%nat -> (j < ls_jcols s)%nat ->
  o_setJ (Some (row_st s i r y)) i j v = Some (row_st s i (set_nth j v r) y).
Proof.
  intros Hi Hj. unfold o_setJ, row_st; cbn [ls_J ls_jcols]. rewrite length_set_nth.
  rewrite (proj2 (Nat.ltb_lt _ _) Hi), (proj2 (Nat.ltb_lt _ _) Hj). cbn [andb].
  unfold with_J; cbn [ls_n ls_k ls_A ls_b ls_jcols ls_J ls_Y ls_W ls_inv].
  rewrite nth_set_nth_eq by exact Hi. rewrite set_nth_twice. reflexivity.
Qed.

Lemma o_setY_row (s : ls_state (T:=T)) i v r y : (i < length (ls_Y s))%nat ->
  o_setY (Some (row_st s i r y)) i v = Some (row_st s i r v).
Proof.
  intros Hi. unfold o_setY, row_st; cbn [ls_Y]. rewrite length_set_nth. rewrite (proj2 (Nat.ltb_lt _ _) Hi).
  unfold with_Y; cbn [ls_n ls_k ls_A ls_b ls_jcols ls_J ls_Y ls_W ls_inv]. rewrite set_nth_twice. reflexivity.
Qed.

Lemma set_row_row_st (s : ls_state (T:=T)) i row y : (i < length (ls_Y s))%nat -> length row = ls_jcols s ->
  ls_set_row i row y (nth i (ls_W s) zr) s = Some (row_st s i row y).
Proof.
  intros Hi Hl. unfold ls_set_row, ls_row_ok. rewrite (proj2 (Nat.ltb_lt _ _) Hi), (proj2 (Nat.eqb_eq _ _) Hl). cbn [andb].
  unfold row_st. rewrite set_nth_same. reflexivity.
Qed.

Lemma wf_row_st (s : ls_state (T:=T)) i row y : ls_wf s -> (i < length (ls_Y s))%nat -> length row = ls_jcols s -> ls_wf (row_st s i row y).
Proof.
  intros Hwf Hi Hl. apply (step_wf N inverse_of svd_of fill svd_fixed s (OpSetRow i row y (nth i (ls_W s) zr)) _ OutNone Hwf).
  cbn [ls_step]. rewrite set_row_row_st by assumption. reflexivity.
Qed.

Lemma wf_row_length (s : ls_state (T:=T)) i : ls_wf s -> (i < length (ls_Y s))%nat -> length (nth i (ls_J s) []) = ls_jcols s.
Proof.
  intros (HJ & _ & _ & HF) Hi. rewrite Forall_forall in HF. apply HF. apply nth_In. lia.
Qed.

(* a loop whose body, at index i, amounts to the model's row write (row, y, weight kept) is the model's sequence of row ops *)
Lemma fold_set_rows (f : option ls_state -> nat -> option ls_state) rows ys k n :
  (forall i, (i < n)%nat -> length (nth i rows []) = k) ->
  (forall s i, (i < n)%nat -> ls_wf s -> ls_jcols s = k -> (i < length (ls_Y s))%nat ->
     f (Some s) i = ls_set_row i (nth i rows []) (nth i ys zr) (nth i (ls_W s) zr) s) ->
  forall m a s, (a + m <= n)%nat -> ls_wf s -> ls_jcols s = k -> (n <= length (ls_Y s))%nat ->
    fold_left f (seq a m) (Some s) =
    match ls_run N inverse_of svd_of fill svd_fixed (row_ops N rows ys (ls_W s) a m) s with
    | Some (s', _) => Some s' | None => None end.
Proof.
  intros Hrows Hf. induction m as [|m IH]; intros a s Ham Hwf Hk Hn.
  - reflexivity.
  - unfold row_ops. cbn [seq map fold_left ls_run ls_step]. fold (row_ops N rows ys (ls_W s) (S a) m).
    rewrite Hf by (try assumption; lia).
    rewrite set_row_row_st by (rewrite ?Hrows, ?Hk; lia).
    set (s1 := row_st s a (nth a rows []) (nth a ys zr)).
    assert (Hwf1 : ls_wf s1) by (apply wf_row_st; [assumption|lia|rewrite Hrows, Hk; lia]).
    rewrite (IH (S a) s1) by (try assumption; subst s1; cbn [row_st ls_jcols ls_Y]; rewrite ?length_set_nth; lia).
    change (ls_W s1) with (ls_W s).
    destruct (ls_run N inverse_of svd_of fill svd_fixed (row_ops N rows ys (ls_W s) (S a) m) s1) as [[s2 outs]|]; reflexivity.
Qed.

(* setDataSize then the loop = p2p_load, from any state ready for the estimate size *)
Lemma load_generic d ps (tr : list triple) st (f : option ls_state -> nat -> option ls_state) :
  (d = 2 \/ d = 3)%nat -> ready (p2p_k d) st ->
  (forall s i, (i < length tr)%nat -> ls_wf s -> ls_jcols s = p2p_k d -> (i < length (ls_Y s))%nat ->
     f (Some s) i = ls_set_row i (p2p_row N d (fst (fst (nth i tr dtriple))) (snd (nth i tr dtriple)))
                               (p2p_y N ps (fst (fst (nth i tr dtriple))) (snd (fst (nth i tr dtriple))) (snd (nth i tr dtriple)))
                               (nth i (ls_W s) zr) s) ->
  fold_left f (seq 0 (length tr)) (fst (o_setDataSize (Some st) (length tr)))
  = p2p_load N inverse_of svd_of fill svd_fixed d ps tr st.
Proof.
  intros Hd (Hwf & Hk & Hj) Hf. unfold p2p_load, load_ops, o_setDataSize. cbn [fst ls_run ls_step].
  set (rows := map (fun t : triple => p2p_row N d (fst (fst t)) (snd t)) tr).
  set (ys := map (fun t : triple => p2p_y N ps (fst (fst t)) (snd (fst t)) (snd t)) tr).
  destruct (ls_set_data_size N fill (length tr) st) as [st' fl] eqn:E. cbn [fst].
  assert (Hwf' : ls_wf st').
  { apply (step_wf N inverse_of svd_of fill svd_fixed st (OpSetDataSize (length tr)) st' (OutFlag fl) Hwf). cbn [ls_step]. rewrite E. reflexivity. }
  destruct (length tr) as [|n0] eqn:En.
  - cbn [seq fold_left row_ops map ls_run]. reflexivity.
  - rewrite <- En in *.
    assert (Hst' : ls_jcols st' = p2p_k d /\ (length tr <= length (ls_Y st'))%nat).
    { unfold ls_set_data_size in E. destruct (Nat.ltb (length (ls_Y st)) (length tr)) eqn:El; inversion E; subst; clear E; cbn [ls_jcols ls_Y].
      - rewrite length_tab. split; [exact Hk|lia].
      - apply Nat.ltb_ge in El. split; [|exact El]. destruct Hj as [Hj|Hj]; [exact Hj|lia]. }
    destruct Hst' as [Hj' Hn'].
    rewrite (fold_set_rows f rows ys (p2p_k d) (length tr)); try assumption; try lia.
    + destruct (ls_run N inverse_of svd_of fill svd_fixed (row_ops N rows ys (ls_W st') 0 (length tr)) st') as [[s2 outs]|]; reflexivity.
    + intros i Hi. subst rows. rewrite (nth_map_lt _ tr i dtriple) by exact Hi.
      destruct Hd as [-> | ->]; reflexivity.
    + intros s i Hi Hs Hjs Hys. rewrite (Hf s i) by assumption. subst rows ys.
      rewrite (nth_map_lt _ tr i dtriple) by exact Hi. rewrite (nth_map_lt _ tr i dtriple) by exact Hi. reflexivity.
Qed.

(* the body of a generated loop at index i, on a state with jcols = k columns, IS the model's row write: every coefficient
   write is folded into [row_st] (in whatever order the source makes them), then the old row — of k coefficients by the
   shape invariant — is destructed so that the written row is an explicit list *)
Ltac side_tac Hs Hjs Hys :=
  first [ exact Hys
        | (destruct Hs as (HJ_ & _); rewrite HJ_; exact Hys)
        | (rewrite Hjs; cbn [p2p_k]; lia) ].
Ltac explicit_row r k :=
  lazymatch k with
  | O => destruct r as [|? ?]; [|discriminate]
  | S ?k' => destruct r as [|? r]; [discriminate|]; explicit_row r k'
  end.
Ltac step_tac k Hs Hjs Hys :=
  cbv beta zeta;
  first [ rewrite o_setJ_start by side_tac Hs Hjs Hys | rewrite o_setY_start by side_tac Hs Hjs Hys ];
  repeat first [ rewrite o_setJ_row by side_tac Hs Hjs Hys | rewrite o_setY_row by side_tac Hs Hjs Hys ];
  rewrite set_row_row_st by (first [ exact Hys | (rewrite Hjs; reflexivity) ]);
  let Hl := fresh "Hl" in
  match goal with |- context [nth ?i (ls_J ?s) []] =>
    pose proof (wf_row_length s i Hs Hys) as Hl; rewrite Hjs in Hl; cbn [p2p_k] in Hl;
    let r := fresh "r" in
    set (r := nth i (ls_J s) []) in *; clearbody r; explicit_row r k
  end;
  reflexivity.

Ltac estimate_tac d ps tr st Hready Hlen Hnth :=
  cbv zeta; cbn [fst snd o_methods F_setDataSize F_getJ_set F_getY_set F_estimateUsingSVD];
  rewrite Hlen;
  rewrite (load_generic d ps tr st); [ | first [left; reflexivity | right; reflexivity] | exact Hready | ];
  [ unfold p2p_estimate;
    destruct (p2p_load N inverse_of svd_of fill svd_fixed d ps tr st) as [st1|]; [|reflexivity];
    unfold o_estimate;
    destruct (if svd_fixed then ls_estimate_svd N svd_of st1 else ls_estimate_svd_abs N svd_of st1) as [[st2 x]|]; reflexivity
  | let s := fresh "s" in let i := fresh "i" in let Hi := fresh "Hi" in let Hs := fresh "Hs" in
    let Hjs := fresh "Hjs" in let Hys := fresh "Hys" in
    intros s i Hi Hs Hjs Hys; rewrite (Hnth i Hi); cbn [fst snd];
    let k := eval cbv in (p2p_k d) in step_tac k Hs Hjs Hys ].

Section Calls.
Variables (src tgt nrm : list (list T)) (corr : list (nat * nat)) (tr : list triple) (st : ls_state (T:=T)).

Lemma corr_nth : triples_of_corr src tgt nrm corr = Some tr ->
  forall i, (i < length tr)%nat -> nth i tr dtriple = ((csrc src corr i, ctgt tgt corr i), ctgt nrm corr i).
Proof.
  intros H i Hi. rewrite (triples_of_corr_length _ _ _ _ _ H) in Hi.
  destruct (triples_of_corr_nth _ _ _ _ _ i H Hi) as [_ E]. exact E.
Qed.

Lemma aligned_nth : triples_aligned src tgt nrm = Some tr ->
  forall i, (i < length tr)%nat -> nth i tr dtriple = ((nth i src [], nth i tgt []), nth i nrm []).
Proof. intros H i Hi. rewrite (triples_aligned_length _ _ _ _ H) in Hi. exact (triples_aligned_nth _ _ _ _ i H Hi). Qed.

Lemma tie_estimate_corr_V2 : triples_of_corr src tgt nrm corr = Some tr -> ready 3 st ->
  pack (src_estimate_corr_V2 N (option ls_state) o_methods src tgt nrm corr (Some st))
  = p2p_find_corr N inverse_of svd_of fill svd_fixed 2 2 src tgt nrm corr st.
Proof.
  intros Htr Hready. unfold p2p_find_corr. rewrite Htr. unfold src_estimate_corr_V2, pack, csrc, ctgt.
  pose proof (eq_sym (triples_of_corr_length _ _ _ _ _ Htr)) as Hlen. pose proof (corr_nth Htr) as Hnth. unfold csrc, ctgt in Hnth.
  estimate_tac 2%nat 2%nat tr st Hready Hlen Hnth.
Qed.

Lemma tie_estimate_corr_H2 : triples_of_corr src tgt nrm corr = Some tr -> ready 3 st ->
  pack (src_estimate_corr_H2 N (option ls_state) o_methods src tgt nrm corr (Some st))
  = p2p_find_corr N inverse_of svd_of fill svd_fixed 2 3 src tgt nrm corr st.
Proof.
  intros Htr Hready. unfold p2p_find_corr. rewrite Htr. unfold src_estimate_corr_H2, pack, csrc, ctgt.
  pose proof (eq_sym (triples_of_corr_length _ _ _ _ _ Htr)) as Hlen. pose proof (corr_nth Htr) as Hnth. unfold csrc, ctgt in Hnth.
  estimate_tac 2%nat 3%nat tr st Hready Hlen Hnth.
Qed.

Lemma tie_estimate_corr_V3 : triples_of_corr src tgt nrm corr = Some tr -> ready 6 st ->
  pack (src_estimate_corr_V3 N (option ls_state) o_methods src tgt nrm corr (Some st))
  = p2p_find_corr N inverse_of svd_of fill svd_fixed 3 3 src tgt nrm corr st.
Proof.
  intros Htr Hready. unfold p2p_find_corr. rewrite Htr. unfold src_estimate_corr_V3, pack, csrc, ctgt.
  pose proof (eq_sym (triples_of_corr_length _ _ _ _ _ Htr)) as Hlen. pose proof (corr_nth Htr) as Hnth. unfold csrc, ctgt in Hnth.
  estimate_tac 3%nat 3%nat tr st Hready Hlen Hnth.
Qed.

Lemma tie_estimate_corr_H3 : triples_of_corr src tgt nrm corr = Some tr -> ready 6 st ->
  pack (src_estimate_corr_H3 N (option ls_state) o_methods src tgt nrm corr (Some st))
  = p2p_find_corr N inverse_of svd_of fill svd_fixed 3 4 src tgt nrm corr st.
Proof.
  intros Htr Hready. unfold p2p_find_corr. rewrite Htr. unfold src_estimate_corr_H3, pack, csrc, ctgt.
  pose proof (eq_sym (triples_of_corr_length _ _ _ _ _ Htr)) as Hlen. pose proof (corr_nth Htr) as Hnth. unfold csrc, ctgt in Hnth.
  estimate_tac 3%nat 4%nat tr st Hready Hlen Hnth.
Qed.

Lemma tie_estimate_aligned_V2 : triples_aligned src tgt nrm = Some tr -> ready 3 st ->
  pack (src_estimate_aligned_V2 N (option ls_state) o_methods src tgt nrm (Some st))
  = p2p_find_aligned N inverse_of svd_of fill svd_fixed 2 2 src tgt nrm st.
Proof.
  intros Htr Hready. unfold p2p_find_aligned. rewrite Htr. unfold src_estimate_aligned_V2, pack.
  pose proof (eq_sym (triples_aligned_length _ _ _ _ Htr)) as Hlen. pose proof (aligned_nth Htr) as Hnth.
  estimate_tac 2%nat 2%nat tr st Hready Hlen Hnth.
Qed.

Lemma tie_estimate_aligned_H2 : triples_aligned src tgt nrm = Some tr -> ready 3 st ->
  pack (src_estimate_aligned_H2 N (option ls_state) o_methods src tgt nrm (Some st))
  = p2p_find_aligned N inverse_of svd_of fill svd_fixed 2 3 src tgt nrm st.
Proof.
  intros Htr Hready. unfold p2p_find_aligned. rewrite Htr. unfold src_estimate_aligned_H2, pack.
  pose proof (eq_sym (triples_aligned_length _ _ _ _ Htr)) as Hlen. pose proof (aligned_nth Htr) as Hnth.
  estimate_tac 2%nat 3%nat tr st Hready Hlen Hnth.
Qed.

Lemma tie_estimate_aligned_V3 : triples_aligned src tgt nrm = Some tr -> ready 6 st ->
  pack (src_estimate_aligned_V3 N (option ls_state) o_methods src tgt nrm (Some st))
  = p2p_find_aligned N inverse_of svd_of fill svd_fixed 3 3 src tgt nrm st.
Proof.
  intros Htr Hready. unfold p2p_find_aligned. rewrite Htr. unfold src_estimate_aligned_V3, pack.
  pose proof (eq_sym (triples_aligned_length _ _ _ _ Htr)) as Hlen. pose proof (aligned_nth Htr) as Hnth.
  estimate_tac 3%nat 3%nat tr st Hready Hlen Hnth.
Qed.

Lemma tie_estimate_aligned_H3 : triples_aligned src tgt nrm = Some tr -> ready 6 st ->
  pack (src_estimate_aligned_H3 N (option ls_state) o_methods src tgt nrm (Some st))
  = p2p_find_aligned N inverse_of svd_of fill svd_fixed 3 4 src tgt nrm st.
Proof.
  intros Htr Hready. unfold p2p_find_aligned. rewrite Htr. unfold src_estimate_aligned_H3, pack.
  pose proof (eq_sym (triples_aligned_length _ _ _ _ Htr)) as Hlen. pose proof (aligned_nth Htr) as Hnth.
  estimate_tac 3%nat 4%nat tr st Hready Hlen Hnth.
Qed.

End Calls.

(* the whole call, every estimate_ body: for inputs the model accepts, from any solver state ready for the estimate size *)
Theorem source_tie_estimate (src tgt nrm : list (list T)) (corr : list (nat * nat)) (tr : list triple) (st : ls_state (T:=T)) :
  (triples_of_corr src tgt nrm corr = Some tr ->
     (ready 3 st ->
        pack (src_estimate_corr_V2 N (option ls_state) o_methods src tgt nrm corr (Some st))
        = p2p_find_corr N inverse_of svd_of fill svd_fixed 2 2 src tgt nrm corr st /\
        pack (src_estimate_corr_H2 N (option ls_state) o_methods src tgt nrm corr (Some st))
        = p2p_find_corr N inverse_of svd_of fill svd_fixed 2 3 src tgt nrm corr st) /\
     (ready 6 st ->
        pack (src_estimate_corr_V3 N (option ls_state) o_methods src tgt nrm corr (Some st))
        = p2p_find_corr N inverse_of svd_of fill svd_fixed 3 3 src tgt nrm corr st /\
        pack (src_estimate_corr_H3 N (option ls_state) o_methods src tgt nrm corr (Some st))
        = p2p_find_corr N inverse_of svd_of fill svd_fixed 3 4 src tgt nrm corr st)) /\
  (triples_aligned src tgt nrm = Some tr ->
     (ready 3 st ->
        pack (src_estimate_aligned_V2 N (option ls_state) o_methods src tgt nrm (Some st))
        = p2p_find_aligned N inverse_of svd_of fill svd_fixed 2 2 src tgt nrm st /\
        pack (src_estimate_aligned_H2 N (option ls_state) o_methods src tgt nrm (Some st))
        = p2p_find_aligned N inverse_of svd_of fill svd_fixed 2 3 src tgt nrm st) /\
     (ready 6 st ->
        pack (src_estimate_aligned_V3 N (option ls_state) o_methods src tgt nrm (Some st))
        = p2p_find_aligned N inverse_of svd_of fill svd_fixed 3 3 src tgt nrm st /\
        pack (src_estimate_aligned_H3 N (option ls_state) o_methods src tgt nrm (Some st))
        = p2p_find_aligned N inverse_of svd_of fill svd_fixed 3 4 src tgt nrm st)).
Proof.
  split; intros H; split; intros Hr; split.
  - exact (tie_estimate_corr_V2 src tgt nrm corr tr st H Hr).
  - exact (tie_estimate_corr_H2 src tgt nrm corr tr st H Hr).
  - exact (tie_estimate_corr_V3 src tgt nrm corr tr st H Hr).
  - exact (tie_estimate_corr_H3 src tgt nrm corr tr st H Hr).
  - exact (tie_estimate_aligned_V2 src tgt nrm tr st H Hr).
  - exact (tie_estimate_aligned_H2 src tgt nrm tr st H Hr).
  - exact (tie_estimate_aligned_V3 src tgt nrm tr st H Hr).
  - exact (tie_estimate_aligned_H3 src tgt nrm tr st H Hr).
Qed.

End Solver.

End Tie.
