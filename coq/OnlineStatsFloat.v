(* OnlineStatsFloat.v — C16 at the floating-point level (IEEE-754 binary64).
   The SAME model (OnlineStatsModel.v) and the SAME generated code (gen/SrcStats.v) are instantiated at the rounded
   dictionary B64Ops of GridMapFloat.v: + - * / and integer->double conversions are the real operation followed by ONE
   rounding to nearest-even in FLT(-1074, 53); truncation toward zero and comparisons are exact.  (The format has no
   largest exponent; every quantity below is smaller than 2^64 in magnitude, far from the overflow threshold.)

   Under the property's bounds (window 1..64, precision in [1e-6, 1], |value| / precision <= 1e8):
   (a) multiplier_ = static_cast<int>(1 / averagePrecision) lies in 1..10^6; the truncated samples are at most 1e8 in
       magnitude and within one unit (plus one rounding of the product) of value * multiplier; the integer sums are
       exact (proved in Z: C16_window_is_last_W, C16_sums_fit_64_bits) and |sumOfData_| < 2^53, so double(sumOfData_),
       double(multiplier_), double(data_.size()) and the product double(multiplier_) * data_.size() are all EXACT;
   (b) hence average_ = sumOfData_ / (double(multiplier_) * data_.size()) is the exact mean of the truncated samples
       rounded ONCE: relative error at most 2^-53 (half an ulp), whatever the length of the history — no drift;
   (c) variance_: seven roundings on the way ( double(sumOfSquaredData_), / double(squaredMultiplier_), the average,
       size*average, *average, the subtraction, / windowSizeMinusOne_ ); with A = sum y_i^2 and B = n*mean^2 (y_i the
       truncated samples divided by the multiplier) |variance_ - exact unbiased variance| <= 2^-53 (7A + 9B)/(W-1) + 3*2^-1075,
       again independent of the history length. *)
From Coq Require Import Reals ZArith List Lra Lia.
From Flocq Require Import Core Relative.
From Romea Require Import Num NumR OnlineStatsModel OnlineStatsProofs GridMapFloat StatsSem SrcTieC16.
From Romea.gen Require Import SrcStats.
Import ListNotations.
Local Open Scope R_scope.

Local Instance prec53_os : Prec_gt_0 53.
Proof. now unfold Prec_gt_0. Qed.

Local Notation bp := (bpow radix2).
Definition u64 : R := bp (-53).          (* unit roundoff of binary64: half an ulp of 1 *)
Definition eta64 : R := bp (-1075).      (* half the smallest subnormal *)

(* ------------------------------------------------------------------ basic facts about rnd64 *)
Lemma rnd64_fix x : b64 x -> rnd64 x = x.
Proof. apply rnd_id. Qed.

Lemma b64_int k : (Z.abs k < 2 ^ 53)%Z -> b64 (IZR k).
Proof. intros H. apply (fmt_int 53 (-1074) k); [lia|exact H]. Qed.

Lemma rnd64_int k : (Z.abs k < 2 ^ 53)%Z -> rnd64 (IZR k) = IZR k.
Proof. intros H. apply rnd64_fix, b64_int, H. Qed.

Lemma nofZ_b64 k : (Z.abs k < 2 ^ 53)%Z -> nofZ B64Ops k = IZR k.
Proof. intros H. unfold B64Ops. cbn [nofZ FlOps]. apply rnd64_int, H. Qed.

Lemma B64_one : nofZ B64Ops 1 = n_one B64Ops.
Proof. rewrite nofZ_b64 by (simpl; lia). reflexivity. Qed.

Lemma rnd64_mono x y : x <= y -> rnd64 x <= rnd64 y.
Proof. apply rnd_le; exact prec53_os. Qed.

Lemma rnd64_le_b64 x y : b64 y -> x <= y -> rnd64 x <= y.
Proof. intros Fy H. rewrite <- (rnd64_fix y Fy). apply rnd64_mono. exact H. Qed.
Lemma rnd64_ge_b64 x y : b64 y -> y <= x -> y <= rnd64 x.
Proof. intros Fy H. rewrite <- (rnd64_fix y Fy). apply rnd64_mono. exact H. Qed.

Lemma rnd64_abs_le x y : b64 y -> Rabs x <= y -> Rabs (rnd64 x) <= y.
Proof. apply rnd_abs_le; exact prec53_os. Qed.

Lemma rnd64_abs_ge x y : b64 y -> y <= Rabs x -> y <= Rabs (rnd64 x).
Proof. unfold b64, ffmt, rnd64, frnd. apply abs_round_ge_generic; auto with typeclass_instances. Qed.

Lemma rnd64_0 : rnd64 0 = 0.
Proof. unfold rnd64, frnd. apply round_0. auto with typeclass_instances. Qed.

Lemma b64_bpow e : (-1074 <= e)%Z -> b64 (bp e).
Proof.
  intros He. apply (fmt_dyadic 53 (-1074) _ 1 e); [simpl; ring|simpl; lia|exact He].
Qed.

(* one rounding, relative form: no underflow when x = 0 or |x| >= 2^-1022 *)
Lemma rnd64_rel x : x = 0 \/ bp (-1022) <= Rabs x -> Rabs (rnd64 x - x) <= u64 * Rabs x.
Proof.
  intros [->|H].
  - rewrite rnd64_0, Rminus_0_r, Rabs_R0. lra.
  - pose proof (relative_error_N_FLT radix2 (-1074) 53 prec53_os (fun z => negb (Z.even z)) x H) as E.
    replace (/ 2 * bp (- (53) + 1)) with u64 in E; [exact E|].
    unfold u64. change (/ 2) with (bp (-1)). rewrite <- bpow_plus. reflexivity.
Qed.

(* one rounding, general form *)
Lemma rnd64_abs_err x : Rabs (rnd64 x - x) <= u64 * Rabs x + eta64.
Proof. exact (rnd_err 53 (-1074) x). Qed.

Lemma u64_val : u64 = / 9007199254740992.
Proof. unfold u64. change (bp (-53)) with (/ IZR (Z.pow_pos 2 53)). f_equal. Qed.

(* ------------------------------------------------------------------ (a) the multiplier and the truncated samples *)
(* precision in [1e-6, 1]: the lower bound is stated as 2/2000001 (< the double nearest to 1e-6, which is itself
   slightly below 10^-6) so that the double literal 1e-6 is covered *)
Lemma multiplier_b64 p : 2 / 2000001 <= p <= 1 -> (1 <= o_multiplier B64Ops p <= 1000000)%Z.
Proof.
  intros [Hlo Hhi]. unfold o_multiplier, B64Ops. cbn [ntruncZ ndiv n_one FlOps]. unfold fl_div.
  fold rnd64.
  assert (Hp : 0 < p) by lra.
  assert (H1 : 1 <= 1 / p).
  { apply div_ge_l; lra. }
  assert (H2 : 1 / p <= 2000001 / 2).
  { apply div_le_l; [exact Hp|]. lra. }
  assert (F1 : b64 1) by (apply (b64_int 1); simpl; lia).
  assert (F2 : b64 (2000001 / 2)).
  { apply (fmt_dyadic 53 (-1074) _ 2000001 (-1)); [simpl; lra|simpl; lia|lia]. }
  assert (R1 : 1 <= rnd64 (1 / p)) by (apply rnd64_ge_b64; assumption).
  assert (R2 : rnd64 (1 / p) <= 2000001 / 2) by (apply rnd64_le_b64; assumption).
  rewrite Ztrunc_floor by lra. split.
  - apply Zfloor_lub. exact R1.
  - assert (Zfloor (rnd64 (1 / p)) < 1000001)%Z; [|lia].
    apply lt_IZR. eapply Rle_lt_trans; [apply Zfloor_lb|]. lra.
Qed.

(* static_cast<long long>(value * multiplier_): the conversion of the multiplier is exact *)
Lemma trunc_b64_unf m v : (Z.abs m < 2 ^ 53)%Z -> o_trunc B64Ops m v = Ztrunc (rnd64 (v * IZR m)).
Proof.
  intros Hm. unfold o_trunc. rewrite (nofZ_b64 m Hm). reflexivity.
Qed.

(* |value| * multiplier <= 1e8  (the property's |value| / precision <= 1e8)  =>  |truncated sample| <= 1e8 *)
Lemma trunc_b64_bound m v : (Z.abs m < 2 ^ 53)%Z -> Rabs (v * IZR m) <= 100000000 ->
  (Z.abs (o_trunc B64Ops m v) <= 100000000)%Z.
Proof.
  intros Hm Hv. rewrite (trunc_b64_unf m v Hm).
  assert (F : b64 100000000) by (apply (b64_int 100000000); simpl; lia).
  pose proof (rnd64_abs_le _ _ F Hv) as Hr.
  rewrite <- Ztrunc_abs. rewrite <- (Ztrunc_IZR 100000000). apply Ztrunc_le. exact Hr.
Qed.

(* the truncated sample is the product value * multiplier rounded once, then cut toward zero *)
Lemma trunc_b64_err m v : (Z.abs m < 2 ^ 53)%Z ->
  Rabs (IZR (o_trunc B64Ops m v) - v * IZR m) < 1 + u64 * Rabs (v * IZR m) + eta64.
Proof.
  intros Hm. rewrite (trunc_b64_unf m v Hm). set (x := v * IZR m).
  pose proof (rnd64_abs_err x) as E.
  assert (T : Rabs (IZR (Ztrunc (rnd64 x)) - rnd64 x) < 1).
  { unfold Ztrunc. destruct (Rlt_bool_spec (rnd64 x) 0) as [Hn|Hn].
    - pose proof (Zceil_ub (rnd64 x)). pose proof (Zceil_lb (rnd64 x)) as L. apply Rabs_def1; lra.
    - pose proof (Zfloor_lb (rnd64 x)). pose proof (Zfloor_ub (rnd64 x)). apply Rabs_def1; lra. }
  replace (IZR (Ztrunc (rnd64 x)) - x) with ((IZR (Ztrunc (rnd64 x)) - rnd64 x) + (rnd64 x - x)) by ring.
  eapply Rle_lt_trans; [apply Rabs_triang|]. lra.
Qed.

Lemma trunc_b64_both (m : Z) (v : R) : (Z.abs m < 2 ^ 53)%Z ->
  (Rabs (v * IZR m) <= 100000000 -> (Z.abs (o_trunc B64Ops m v) <= 100000000)%Z) /\
  Rabs (IZR (o_trunc B64Ops m v) - v * IZR m) < 1 + u64 * Rabs (v * IZR m) + eta64.
Proof. intros Hm. split; [exact (trunc_b64_bound m v Hm)|exact (trunc_b64_err m v Hm)]. Qed.

(* ------------------------------------------------------------------ (b) the average: ONE rounding of the exact mean *)
Definition zmean (m : Z) (l : list Z) : R := rsum (map (fun z => IZR z / IZR m) l) / INR (length l).

Lemma zmean_unf m l : (0 < m)%Z -> l <> [] -> zmean m l = IZR (zsum l) / (IZR m * IZR (Z.of_nat (length l))).
Proof.
  intros Hm Hl. unfold zmean. rewrite IZR_zsum, <- INR_IZR_INZ.
  replace (map (fun z => IZR z / IZR m) l) with (map (fun x => x / IZR m) (map IZR l)) by (rewrite map_map; reflexivity).
  rewrite rsum_scale.
  assert (IZR m <> 0) by (apply not_0_IZR; lia).
  assert (INR (length l) <> 0) by (destruct l; [congruence|cbn [length]; apply not_0_INR; lia]).
  field. split; assumption.
Qed.

(* a quotient of integers is 0 or not tiny *)
Lemma int_quot_normal s d : (0 < d < 2 ^ 53)%Z -> IZR s / IZR d = 0 \/ bp (-1022) <= Rabs (IZR s / IZR d).
Proof.
  intros Hd. destruct (Z.eq_dec s 0) as [->|Hs]; [left; unfold Rdiv; ring|right].
  assert (Hd' : 0 < IZR d) by (apply IZR_lt; lia).
  unfold Rdiv. rewrite Rabs_mult, (Rabs_pos_eq (/ IZR d)) by (left; apply Rinv_0_lt_compat; exact Hd').
  assert (1 <= Rabs (IZR s)).
  { rewrite <- abs_IZR. apply IZR_le. lia. }
  assert (IZR d <= bp 53).
  { change (bp 53) with (IZR (2 ^ 53)). apply IZR_le. lia. }
  assert (bp (-53) <= / IZR d).
  { change (bp (-53)) with (/ bp 53). apply Rinv_le_contravar; assumption. }
  assert (bp (-1022) <= bp (-53)) by (apply bpow_le; lia).
  pose proof (bpow_gt_0 radix2 (-53)). nra.
Qed.

(* the formula of the code in binary64: conversions and the product in the denominator are exact *)
Lemma average_b64_unf (m : Z) s : (0 < m)%Z -> o_data s <> [] ->
  (m * Z.of_nat (length (o_data s)) < 2 ^ 53)%Z -> (Z.abs (o_sum s) < 2 ^ 53)%Z ->
  o_average B64Ops m s = Some (rnd64 (IZR (o_sum s) / (IZR m * IZR (Z.of_nat (length (o_data s)))))).
Proof.
  intros Hm Hne Hmn Hs. unfold o_average. destruct (o_data s) as [|a l] eqn:E; [congruence|]. rewrite <- E in *.
  assert (Hn : (0 < Z.of_nat (length (o_data s)))%Z) by (rewrite E; cbn [length]; lia).
  f_equal. rewrite (nofZ_b64 (o_sum s) Hs), (nofZ_b64 m) by nia.
  rewrite (nofZ_b64 (Z.of_nat (length (o_data s)))) by nia.
  unfold B64Ops. cbn [ndiv nmul FlOps]. unfold fl_div, fl_mul. change (frnd 53 (-1074)) with rnd64.
  rewrite <- mult_IZR. rewrite (rnd64_int (m * Z.of_nat (length (o_data s)))) by lia. reflexivity.
Qed.

(* for every history of updates and resets: the reported average is the exact mean of the last min(n,W) truncated
   samples rounded once — its relative error is at most 2^-53 and does not depend on the history *)
Lemma average_b64_history W h (m : Z) : (0 < W)%nat -> (W <= 64)%nat -> (0 < m <= 1000000)%Z ->
  Forall (fun x => (Z.abs x <= 100000000)%Z) (since_reset h []) ->
  let s := fold_left i_step h (o_init W) in
  let L := lastn W (since_reset h []) in
  L <> [] ->
  o_average B64Ops m s = Some (rnd64 (zmean m L)) /\
  Rabs (rnd64 (zmean m L) - zmean m L) <= u64 * Rabs (zmean m L).
Proof.
  intros HW0 HW Hm HB s L HL.
  destruct (window_is_last_W W h HW0) as (V1 & V2 & V3 & _ & _). fold s L in V1, V2, V3.
  destruct (sums_bounded W h 100000000 HW0 HW ltac:(lia) HB) as [S1 _]. fold s in S1.
  pose proof (lastn_length W (since_reset h [])) as Len. fold L in Len.
  assert (HLn : (0 < length L <= 64)%nat) by (destruct L; [congruence|cbn [length] in *; lia]).
  assert (Hlen : length (o_data s) = length L) by lia.
  assert (Hs53 : (Z.abs (o_sum s) < 2 ^ 53)%Z).
  { rewrite V3. pose proof (zsum_bound L 100000000 ltac:(lia) (Forall_skipn _ _ _ HB)) as Bd.
    assert (Z.of_nat (length L) * 100000000 <= 6400000000)%Z by nia.
    assert (6400000000 < 2 ^ 53)%Z by (simpl; lia). lia. }
  assert (Hmn : (m * Z.of_nat (length (o_data s)) < 2 ^ 53)%Z).
  { rewrite Hlen. assert (m * Z.of_nat (length L) <= 64000000)%Z by nia. assert (64000000 < 2 ^ 53)%Z by (simpl; lia). lia. }
  assert (Hne : o_data s <> []) by (intros E; rewrite E in Hlen; cbn in Hlen; lia).
  rewrite (average_b64_unf m s ltac:(lia) Hne Hmn Hs53).
  rewrite (zmean_unf m L ltac:(lia) HL). rewrite V3, Hlen.
  split; [reflexivity|].
  apply rnd64_rel. rewrite <- mult_IZR. apply int_quot_normal. rewrite <- Hlen. nia.
Qed.

(* ------------------------------------------------------------------ the same about the code as written *)
(* the generated OnlineAverage code run in binary64 on values with |value * multiplier| <= 1e8 *)
Definition values_bounded (mult : Z) (ops : list (oop R)) : Prop :=
  Forall (fun o => match o with OUpdate v => Rabs (v * IZR mult) <= 100000000 | OReset => True end) ops.

Lemma values_ops_bounded mult ops : (Z.abs mult < 2 ^ 53)%Z -> values_bounded mult ops -> ops_bounded B64Ops mult ops.
Proof.
  intros Hm. unfold values_bounded, ops_bounded. apply Forall_impl. intros [v|] H; [|exact I].
  apply trunc_b64_bound; assumption.
Qed.

Lemma since_reset_bounded (mult : Z) ops : ops_bounded B64Ops mult ops -> forall acc,
  Forall (fun x => (Z.abs x <= 100000000)%Z) acc ->
  Forall (fun x => (Z.abs x <= 100000000)%Z) (since_reset (map (trunc_op B64Ops mult) ops) acc).
Proof.
  induction 1 as [|o ops Ho Hops IH]; intros acc Hacc; [exact Hacc|].
  destruct o as [v|]; cbn [map trunc_op since_reset].
  - apply IH. apply Forall_app. split; [exact Hacc|]. constructor; [exact Ho|constructor].
  - apply IH. constructor.
Qed.

Lemma average_b64_code p W (ops : list (oop R)) : (0 < W)%nat -> (W <= 64)%nat -> 2 / 2000001 <= p <= 1 ->
  let mult := o_multiplier B64Ops p in
  values_bounded mult ops ->
  let c := fold_left (src_avg_step B64Ops) ops (src_avg_ctor2 B64Ops p (Z.of_nat W)) in
  let L := lastn W (since_reset (map (trunc_op B64Ops mult) ops) []) in
  (1 <= mult <= 1000000)%Z /\
  (L = [] -> src_avg_getAverage c = None) /\
  (L <> [] -> src_avg_getAverage c = Some (rnd64 (zmean mult L)) /\
              Rabs (rnd64 (zmean mult L) - zmean mult L) <= u64 * Rabs (zmean mult L)).
Proof.
  intros HW0 HW Hp mult Hv c L.
  pose proof (multiplier_b64 p Hp) as Hm. fold mult in Hm. split; [exact Hm|].
  assert (Hm53 : (Z.abs mult < 2 ^ 53)%Z).
  { assert (1000000 < 2 ^ 53)%Z by (simpl; lia). lia. }
  pose proof (values_ops_bounded mult ops Hm53 Hv) as Hops.
  destruct (avg_code_model B64Ops B64_one p W ops HW0 HW Hops) as [Hrel Hmc]. fold mult c in Hrel, Hmc.
  pose proof (tie_avg_getAverage B64Ops c _ Hrel) as G. rewrite Hmc in G. rewrite G.
  set (h := map (trunc_op B64Ops mult) ops) in *.
  destruct (window_is_last_W W h HW0) as (_ & V2 & _). fold L in V2.
  split.
  - intros E. unfold o_average.
    destruct (o_data (fold_left i_step h (o_init W))) as [|a l]; [reflexivity|].
    pose proof (lastn_length W (since_reset h [])) as Len. fold L in Len. rewrite E in Len. cbn [length] in *. lia.
  - intros HL. apply (average_b64_history W h mult HW0 HW ltac:(lia)); [|exact HL].
    apply since_reset_bounded; [exact Hops|constructor].
Qed.
