(* OnlineStatsFloat.v — C16 at the floating-point level (IEEE-754 binary64).
   The SAME model (OnlineStatsModel.v) and the SAME generated code (gen/SrcStats.v) are instantiated at the rounded
   dictionary B64Ops of GridMapFloat.v: + - * / and integer->double conversions are the real operation followed by ONE
   rounding to nearest-even in FLT(-1074, 53); truncation toward zero and comparisons are exact.  (The format has no
   largest exponent; every quantity below is smaller than 2^64 in magnitude, far from the overflow threshold.)

   Under the property's bounds (window 1..64, precision in [1e-6, 1], |value| / precision <= 1e8):
   (a) multiplier_ = static_cast<int>(1 / averagePrecision) lies in 1..10^6; the truncated samples are at most 1e8 in
       magnitude and within one unit (plus one rounding of the product) of value * multiplier; the integer sums are
       exact (proved in Z: C16_window_is_last_W, C16_sums_fit_64_bits) and |sumOfData_| < 2^53, so double(sumOfData_),
       double(multiplier_), double(data_.size()) and the product double(multiplier_) * data_.size() are all EXACT;
   (b) hence average_ = sumOfData_ / (double(multiplier_) * data_.size()) is the exact mean of the truncated samples
       rounded ONCE: relative error at most 2^-53 (half an ulp), whatever the length of the history — no drift;
   (c) variance_: seven roundings on the way ( double(sumOfSquaredData_), / double(squaredMultiplier_), the average,
       size*average, *average, the subtraction, / windowSizeMinusOne_ ); with A = sum y_i^2 and B = n*mean^2 (y_i the
       truncated samples divided by the multiplier) |variance_ - exact unbiased variance| <= 2^-53 (7A + 9B)/(W-1) + 3*2^-1075,
       again independent of the history length. *)
From Coq Require Import Reals ZArith List Lra Lia.
From Flocq Require Import Core Relative.
From Romea Require Import Num NumR OnlineStatsModel OnlineStatsProofs GridMapFloat StatsSem.
Import ListNotations.
Local Open Scope R_scope.

Local Instance prec53_os : Prec_gt_0 53.
Proof. now unfold Prec_gt_0. Qed.

Local Notation bp := (bpow radix2).
Definition u64 : R := bp (-53).          (* unit roundoff of binary64: half an ulp of 1 *)
Definition eta64 : R := bp (-1075).      (* half the smallest subnormal *)

(* ------------------------------------------------------------------ basic facts about rnd64 *)
Lemma rnd64_fix x : b64 x -> rnd64 x = x.
Proof. apply rnd_id. Qed.

Lemma b64_int k : (Z.abs k < 2 ^ 53)%Z -> b64 (IZR k).
Proof. intros H. apply (fmt_int 53 (-1074) k); [lia|exact H]. Qed.

Lemma rnd64_int k : (Z.abs k < 2 ^ 53)%Z -> rnd64 (IZR k) = IZR k.
Proof. intros H. apply rnd64_fix, b64_int, H. Qed.

Lemma nofZ_b64 k : (Z.abs k < 2 ^ 53)%Z -> nofZ B64Ops k = IZR k.
Proof. intros H. unfold B64Ops. cbn [nofZ FlOps]. apply rnd64_int, H. Qed.

Lemma B64_one : nofZ B64Ops 1 = n_one B64Ops.
Proof. rewrite nofZ_b64 by (simpl; lia). reflexivity. Qed.

Lemma B64_comm : forall a b : R, nmul B64Ops a b = nmul B64Ops b a.
Proof. intros a b. unfold B64Ops. cbn [nmul FlOps]. unfold fl_mul. rewrite Rmult_comm. reflexivity. Qed.

Lemma rnd64_mono x y : x <= y -> rnd64 x <= rnd64 y.
Proof. apply rnd_le; exact prec53_os. Qed.

Lemma rnd64_le_b64 x y : b64 y -> x <= y -> rnd64 x <= y.
Proof. intros Fy H. rewrite <- (rnd64_fix y Fy). apply rnd64_mono. exact H. Qed.
Lemma rnd64_ge_b64 x y : b64 y -> y <= x -> y <= rnd64 x.
Proof. intros Fy H. rewrite <- (rnd64_fix y Fy). apply rnd64_mono. exact H. Qed.

Lemma rnd64_abs_le x y : b64 y -> Rabs x <= y -> Rabs (rnd64 x) <= y.
Proof. apply rnd_abs_le; exact prec53_os. Qed.

Lemma rnd64_abs_ge x y : b64 y -> y <= Rabs x -> y <= Rabs (rnd64 x).
Proof. unfold b64, ffmt, rnd64, frnd. apply abs_round_ge_generic; auto with typeclass_instances. Qed.

Lemma rnd64_0 : rnd64 0 = 0.
Proof. unfold rnd64, frnd. apply round_0. auto with typeclass_instances. Qed.

Lemma b64_bpow e : (-1074 <= e)%Z -> b64 (bp e).
Proof.
  intros He. apply (fmt_dyadic 53 (-1074) _ 1 e); [simpl; ring|simpl; lia|exact He].
Qed.

(* one rounding, relative form: no underflow when x = 0 or |x| >= 2^-1022 *)
Lemma rnd64_rel x : x = 0 \/ bp (-1022) <= Rabs x -> Rabs (rnd64 x - x) <= u64 * Rabs x.
Proof.
  intros [->|H].
  - rewrite rnd64_0, Rminus_0_r, Rabs_R0. lra.
  - pose proof (relative_error_N_FLT radix2 (-1074) 53 prec53_os (fun z => negb (Z.even z)) x H) as E.
    replace (/ 2 * bp (- (53) + 1)) with u64 in E; [exact E|].
    unfold u64. change (/ 2) with (bp (-1)). rewrite <- bpow_plus. reflexivity.
Qed.

(* one rounding, general form *)
Lemma rnd64_abs_err x : Rabs (rnd64 x - x) <= u64 * Rabs x + eta64.
Proof. exact (rnd_err 53 (-1074) x). Qed.

Lemma u64_val : u64 = / 9007199254740992.
Proof. unfold u64. change (bp (-53)) with (/ IZR (Z.pow_pos 2 53)). f_equal. Qed.

(* ------------------------------------------------------------------ (a) the multiplier and the truncated samples *)
(* precision in [1e-6, 1]: the lower bound is stated as 2/2000001 (< the double nearest to 1e-6, which is itself
   slightly below 10^-6) so that the double literal 1e-6 is covered *)
Lemma multiplier_b64 p : 2 / 2000001 <= p <= 1 -> (1 <= o_multiplier B64Ops p <= 1000000)%Z.
Proof.
  intros [Hlo Hhi]. unfold o_multiplier, B64Ops. cbn [ntruncZ ndiv n_one FlOps]. unfold fl_div.
  fold rnd64.
  assert (Hp : 0 < p) by lra.
  assert (H1 : 1 <= 1 / p).
  { apply div_ge_l; lra. }
  assert (H2 : 1 / p <= 2000001 / 2).
  { apply div_le_l; [exact Hp|]. lra. }
  assert (F1 : b64 1) by (apply (b64_int 1); simpl; lia).
  assert (F2 : b64 (2000001 / 2)).
  { apply (fmt_dyadic 53 (-1074) _ 2000001 (-1)); [simpl; lra|simpl; lia|lia]. }
  assert (R1 : 1 <= rnd64 (1 / p)) by (apply rnd64_ge_b64; assumption).
  assert (R2 : rnd64 (1 / p) <= 2000001 / 2) by (apply rnd64_le_b64; assumption).
  rewrite Ztrunc_floor by lra. split.
  - apply Zfloor_lub. exact R1.
  - assert (Zfloor (rnd64 (1 / p)) < 1000001)%Z; [|lia].
    apply lt_IZR. eapply Rle_lt_trans; [apply Zfloor_lb|]. lra.
Qed.

(* static_cast<long long>(value * multiplier_): the conversion of the multiplier is exact *)
Lemma trunc_b64_unf m v : (Z.abs m < 2 ^ 53)%Z -> o_trunc B64Ops m v = Ztrunc (rnd64 (v * IZR m)).
Proof.
  intros Hm. unfold o_trunc. rewrite (nofZ_b64 m Hm). reflexivity.
Qed.

(* |value| * multiplier <= 1e8  (the property's |value| / precision <= 1e8)  =>  |truncated sample| <= 1e8 *)
Lemma trunc_b64_bound m v : (Z.abs m < 2 ^ 53)%Z -> Rabs (v * IZR m) <= 100000000 ->
  (Z.abs (o_trunc B64Ops m v) <= 100000000)%Z.
Proof.
  intros Hm Hv. rewrite (trunc_b64_unf m v Hm).
  assert (F : b64 100000000) by (apply (b64_int 100000000); simpl; lia).
  pose proof (rnd64_abs_le _ _ F Hv) as Hr.
  rewrite <- Ztrunc_abs. rewrite <- (Ztrunc_IZR 100000000). apply Ztrunc_le. exact Hr.
Qed.

(* the truncated sample is the product value * multiplier rounded once, then cut toward zero *)
Lemma trunc_b64_err m v : (Z.abs m < 2 ^ 53)%Z ->
  Rabs (IZR (o_trunc B64Ops m v) - v * IZR m) < 1 + u64 * Rabs (v * IZR m) + eta64.
Proof.
  intros Hm. rewrite (trunc_b64_unf m v Hm). set (x := v * IZR m).
  pose proof (rnd64_abs_err x) as E.
  assert (T : Rabs (IZR (Ztrunc (rnd64 x)) - rnd64 x) < 1).
  { unfold Ztrunc. destruct (Rlt_bool_spec (rnd64 x) 0) as [Hn|Hn].
    - pose proof (Zceil_ub (rnd64 x)). pose proof (Zceil_lb (rnd64 x)) as L. apply Rabs_def1; lra.
    - pose proof (Zfloor_lb (rnd64 x)). pose proof (Zfloor_ub (rnd64 x)). apply Rabs_def1; lra. }
  replace (IZR (Ztrunc (rnd64 x)) - x) with ((IZR (Ztrunc (rnd64 x)) - rnd64 x) + (rnd64 x - x)) by ring.
  eapply Rle_lt_trans; [apply Rabs_triang|]. lra.
Qed.

Lemma trunc_b64_both (m : Z) (v : R) : (Z.abs m < 2 ^ 53)%Z ->
  (Rabs (v * IZR m) <= 100000000 -> (Z.abs (o_trunc B64Ops m v) <= 100000000)%Z) /\
  Rabs (IZR (o_trunc B64Ops m v) - v * IZR m) < 1 + u64 * Rabs (v * IZR m) + eta64.
Proof. intros Hm. split; [exact (trunc_b64_bound m v Hm)|exact (trunc_b64_err m v Hm)]. Qed.

(* ------------------------------------------------------------------ (b) the average: ONE rounding of the exact mean *)
Definition zmean (m : Z) (l : list Z) : R := rsum (map (fun z => IZR z / IZR m) l) / INR (length l).

Lemma zmean_unf m l : (0 < m)%Z -> l <> [] -> zmean m l = IZR (zsum l) / (IZR m * IZR (Z.of_nat (length l))).
Proof.
  intros Hm Hl. unfold zmean. rewrite IZR_zsum, <- INR_IZR_INZ.
  replace (map (fun z => IZR z / IZR m) l) with (map (fun x => x / IZR m) (map IZR l)) by (rewrite map_map; reflexivity).
  rewrite rsum_scale.
  assert (IZR m <> 0) by (apply not_0_IZR; lia).
  assert (INR (length l) <> 0) by (destruct l; [congruence|cbn [length]; apply not_0_INR; lia]).
  field. split; assumption.
Qed.

(* a quotient of integers is 0 or not tiny *)
Lemma int_quot_normal s d : (0 < d < 2 ^ 53)%Z -> IZR s / IZR d = 0 \/ bp (-1022) <= Rabs (IZR s / IZR d).
Proof.
  intros Hd. destruct (Z.eq_dec s 0) as [->|Hs]; [left; unfold Rdiv; ring|right].
  assert (Hd' : 0 < IZR d) by (apply IZR_lt; lia).
  unfold Rdiv. rewrite Rabs_mult, (Rabs_pos_eq (/ IZR d)) by (left; apply Rinv_0_lt_compat; exact Hd').
  assert (1 <= Rabs (IZR s)).
  { rewrite <- abs_IZR. apply IZR_le. lia. }
  assert (IZR d <= bp 53).
  { change (bp 53) with (IZR (2 ^ 53)). apply IZR_le. lia. }
  assert (bp (-53) <= / IZR d).
  { change (bp (-53)) with (/ bp 53). apply Rinv_le_contravar; assumption. }
  assert (bp (-1022) <= bp (-53)) by (apply bpow_le; lia).
  pose proof (bpow_gt_0 radix2 (-53)). nra.
Qed.

(* (a) for every history: the integer sum is below 2^53 in magnitude and every integer->double conversion of the
   average formula, and the product double(multiplier_) * data_.size(), is exact *)
Lemma conversions_exact_b64 W h (m : Z) : (0 < W)%nat -> (W <= 64)%nat -> (0 < m <= 1000000)%Z ->
  Forall (fun x => (Z.abs x <= 100000000)%Z) (since_reset h []) ->
  let s := fold_left i_step h (o_init W) in
  let n := Z.of_nat (length (o_data s)) in
  (Z.abs (o_sum s) < 2 ^ 53)%Z /\
  nofZ B64Ops (o_sum s) = IZR (o_sum s) /\ nofZ B64Ops m = IZR m /\ nofZ B64Ops n = IZR n /\
  nmul B64Ops (nofZ B64Ops m) (nofZ B64Ops n) = IZR (m * n).
Proof.
  intros HW0 HW Hm HB s n.
  destruct (window_is_last_W W h HW0) as (_ & V2 & V3 & _ & _). fold s in V2, V3.
  assert (Hn : (0 <= n <= 64)%Z) by (unfold n; lia).
  assert (P53 : (2 ^ 53 = 9007199254740992)%Z) by reflexivity.
  assert (Hs53 : (Z.abs (o_sum s) < 2 ^ 53)%Z).
  { rewrite V3. pose proof (zsum_bound _ 100000000 ltac:(lia) (Forall_skipn _ (length (since_reset h []) - W) _ HB)) as Bd.
    fold (lastn W (since_reset h [])) in Bd. rewrite lastn_length in Bd. nia. }
  split; [exact Hs53|]. rewrite (nofZ_b64 _ Hs53), (nofZ_b64 m), (nofZ_b64 n) by lia.
  repeat split. unfold B64Ops. cbn [nmul FlOps]. unfold fl_mul. change (frnd 53 (-1074)) with rnd64.
  rewrite <- mult_IZR. apply rnd64_int. nia.
Qed.

(* the formula of the code in binary64: conversions and the product in the denominator are exact *)
Lemma average_b64_unf (m : Z) s : (0 < m)%Z -> o_data s <> [] ->
  (m * Z.of_nat (length (o_data s)) < 2 ^ 53)%Z -> (Z.abs (o_sum s) < 2 ^ 53)%Z ->
  o_average B64Ops m s = Some (rnd64 (IZR (o_sum s) / (IZR m * IZR (Z.of_nat (length (o_data s)))))).
Proof.
  intros Hm Hne Hmn Hs. unfold o_average. destruct (o_data s) as [|a l] eqn:E; [congruence|]. rewrite <- E in *.
  assert (Hn : (0 < Z.of_nat (length (o_data s)))%Z) by (rewrite E; cbn [length]; lia).
  f_equal. rewrite (nofZ_b64 (o_sum s) Hs), (nofZ_b64 m) by nia.
  rewrite (nofZ_b64 (Z.of_nat (length (o_data s)))) by nia.
  unfold B64Ops. cbn [ndiv nmul FlOps]. unfold fl_div, fl_mul. change (frnd 53 (-1074)) with rnd64.
  rewrite <- mult_IZR. rewrite (rnd64_int (m * Z.of_nat (length (o_data s)))) by lia. reflexivity.
Qed.

(* for every history of updates and resets: the reported average is the exact mean of the last min(n,W) truncated
   samples rounded once — its relative error is at most 2^-53 and does not depend on the history *)
Lemma average_b64_history W h (m : Z) : (0 < W)%nat -> (W <= 64)%nat -> (0 < m <= 1000000)%Z ->
  Forall (fun x => (Z.abs x <= 100000000)%Z) (since_reset h []) ->
  let s := fold_left i_step h (o_init W) in
  let L := lastn W (since_reset h []) in
  L <> [] ->
  o_average B64Ops m s = Some (rnd64 (zmean m L)) /\
  Rabs (rnd64 (zmean m L) - zmean m L) <= u64 * Rabs (zmean m L).
Proof.
  intros HW0 HW Hm HB s L HL.
  destruct (window_is_last_W W h HW0) as (V1 & V2 & V3 & _ & _). fold s L in V1, V2, V3.
  destruct (sums_bounded W h 100000000 HW0 HW ltac:(lia) HB) as [S1 _]. fold s in S1.
  pose proof (lastn_length W (since_reset h [])) as Len. fold L in Len.
  assert (HLn : (0 < length L <= 64)%nat) by (destruct L; [congruence|cbn [length] in *; lia]).
  assert (Hlen : length (o_data s) = length L) by lia.
  assert (Hs53 : (Z.abs (o_sum s) < 2 ^ 53)%Z).
  { rewrite V3. pose proof (zsum_bound L 100000000 ltac:(lia) (Forall_skipn _ _ _ HB)) as Bd.
    assert (Z.of_nat (length L) * 100000000 <= 6400000000)%Z by nia.
    assert (6400000000 < 2 ^ 53)%Z by (simpl; lia). lia. }
  assert (Hmn : (m * Z.of_nat (length (o_data s)) < 2 ^ 53)%Z).
  { rewrite Hlen. assert (m * Z.of_nat (length L) <= 64000000)%Z by nia. assert (64000000 < 2 ^ 53)%Z by (simpl; lia). lia. }
  assert (Hne : o_data s <> []) by (intros E; rewrite E in Hlen; cbn in Hlen; lia).
  rewrite (average_b64_unf m s ltac:(lia) Hne Hmn Hs53).
  rewrite (zmean_unf m L ltac:(lia) HL). rewrite V3, Hlen.
  split; [reflexivity|].
  apply rnd64_rel. rewrite <- mult_IZR. apply int_quot_normal. rewrite <- Hlen. nia.
Qed.

(* ------------------------------------------------------------------ the same about the code as written *)
(* the generated OnlineAverage code run in binary64 on values with |value * multiplier| <= 1e8 *)
Definition values_bounded (mult : Z) (ops : list (oop R)) : Prop :=
  Forall (fun o => match o with OUpdate v => Rabs (v * IZR mult) <= 100000000 | OReset => True end) ops.




(* ------------------------------------------------------------------ (c) the variance: forward error analysis *)
(* relative perturbation *)
Definition rel (x' x d : R) : Prop := Rabs (x' - x) <= d * Rabs x.

Lemma rel_weaken x' x d d' : rel x' x d -> d <= d' -> rel x' x d'.
Proof. unfold rel. intros H Hd. pose proof (Rabs_pos x). nra. Qed.

Lemma rel_mul x' x y' y d1 d2 : rel x' x d1 -> rel y' y d2 -> 0 <= d1 -> 0 <= d2 ->
  rel (x' * y') (x * y) (d1 + d2 + d1 * d2).
Proof.
  unfold rel. intros Hx Hy H1 H2.
  replace (x' * y' - x * y) with ((x' - x) * y + x * (y' - y) + (x' - x) * (y' - y)) by ring.
  eapply Rle_trans; [apply Rabs_triang|]. eapply Rle_trans; [apply Rplus_le_compat_r, Rabs_triang|].
  rewrite !Rabs_mult. pose proof (Rabs_pos x). pose proof (Rabs_pos y).
  pose proof (Rabs_pos (x' - x)). pose proof (Rabs_pos (y' - y)). nra.
Qed.

Lemma rel_scale c x' x d : rel x' x d -> rel (c * x') (c * x) d.
Proof.
  unfold rel. intros H. replace (c * x' - c * x) with (c * (x' - x)) by ring.
  rewrite !Rabs_mult. pose proof (Rabs_pos c). nra.
Qed.

Lemma rel_div c x' x d : rel x' x d -> rel (x' / c) (x / c) d.
Proof. unfold Rdiv. rewrite !(Rmult_comm _ (/ c)). apply rel_scale. Qed.

Definition normal64 (x : R) : Prop := x = 0 \/ bp (-1022) <= Rabs x.

Lemma rel_rnd x' x d : rel x' x d -> normal64 x' -> 0 <= d -> rel (rnd64 x') x (d + u64 + u64 * d).
Proof.
  unfold rel. intros H Hn Hd. pose proof (rnd64_rel x' Hn) as E.
  replace (rnd64 x' - x) with ((rnd64 x' - x') + (x' - x)) by ring.
  eapply Rle_trans; [apply Rabs_triang|].
  assert (Rabs x' <= Rabs x + d * Rabs x).
  { replace x' with (x + (x' - x)) at 1 by ring. eapply Rle_trans; [apply Rabs_triang|]. lra. }
  assert (0 < u64) by apply bpow_gt_0. pose proof (Rabs_pos x). nra.
Qed.

Lemma rel_refl x : rel x x 0.
Proof. unfold rel. rewrite Rminus_diag_eq by reflexivity. rewrite Rabs_R0. lra. Qed.

(* quantities that are zero or at least 2^-53 in magnitude stay away from the subnormal range through the formula *)
Definition nz53 (x : R) : Prop := x = 0 \/ bp (-53) <= Rabs x.

Lemma nz53_normal x : nz53 x -> normal64 x.
Proof. intros [H|H]; [left; exact H|right]. eapply Rle_trans; [|exact H]. apply bpow_le. lia. Qed.

Lemma nz53_rnd x : nz53 x -> nz53 (rnd64 x).
Proof.
  intros [->|H]; [left; apply rnd64_0|right]. apply rnd64_abs_ge; [apply b64_bpow; lia|exact H].
Qed.

Lemma nz53_int_quot s d : (0 < d < 2 ^ 53)%Z -> nz53 (IZR s / IZR d).
Proof.
  intros Hd. destruct (Z.eq_dec s 0) as [->|Hs]; [left; unfold Rdiv; ring|right].
  assert (Hd' : 0 < IZR d) by (apply IZR_lt; lia).
  unfold Rdiv. rewrite Rabs_mult, (Rabs_pos_eq (/ IZR d)) by (left; apply Rinv_0_lt_compat; exact Hd').
  assert (1 <= Rabs (IZR s)) by (rewrite <- abs_IZR; apply IZR_le; lia).
  assert (IZR d <= bp 53) by (change (bp 53) with (IZR (2 ^ 53)); apply IZR_le; lia).
  assert (bp (-53) <= / IZR d) by (change (bp (-53)) with (/ bp 53); apply Rinv_le_contravar; assumption).
  pose proof (bpow_gt_0 radix2 (-53)). nra.
Qed.

Lemma ge1_quot_normal x d : x = 0 \/ 1 <= Rabs x -> (0 < d < 2 ^ 53)%Z -> normal64 (x / IZR d).
Proof.
  intros [->|Hx] Hd; [left; unfold Rdiv; ring|right].
  assert (Hd' : 0 < IZR d) by (apply IZR_lt; lia).
  unfold Rdiv. rewrite Rabs_mult, (Rabs_pos_eq (/ IZR d)) by (left; apply Rinv_0_lt_compat; exact Hd').
  assert (IZR d <= bp 53) by (change (bp 53) with (IZR (2 ^ 53)); apply IZR_le; lia).
  assert (bp (-53) <= / IZR d) by (change (bp (-53)) with (/ bp 53); apply Rinv_le_contravar; assumption).
  assert (bp (-1022) <= bp (-53)) by (apply bpow_le; lia).
  pose proof (bpow_gt_0 radix2 (-53)). nra.
Qed.

Lemma int_ge1 k : IZR k = 0 \/ 1 <= Rabs (IZR k).
Proof.
  destruct (Z.eq_dec k 0) as [->|H]; [left; reflexivity|right]. rewrite <- abs_IZR. apply IZR_le. lia.
Qed.

Lemma rnd_ge1 x : x = 0 \/ 1 <= Rabs x -> rnd64 x = 0 \/ 1 <= Rabs (rnd64 x).
Proof.
  intros [->|H]; [left; apply rnd64_0|right]. apply rnd64_abs_ge; [apply (b64_int 1); simpl; lia|exact H].
Qed.

Lemma nz53_int_mul n x : (1 <= n)%Z -> nz53 x -> nz53 (IZR n * x).
Proof.
  intros Hn [->|H]; [left; ring|right]. rewrite Rabs_mult.
  assert (1 <= Rabs (IZR n)) by (rewrite <- abs_IZR; apply IZR_le; lia).
  pose proof (bpow_gt_0 radix2 (-53)). nra.
Qed.

Lemma nz53_mul_normal x y : nz53 x -> nz53 y -> normal64 (x * y).
Proof.
  intros [->|Hx] [->|Hy]; try (left; ring). right. rewrite Rabs_mult.
  assert (bp (-1022) <= bp (-53) * bp (-53)) by (rewrite <- bpow_plus; apply bpow_le; lia).
  pose proof (bpow_gt_0 radix2 (-53)). nra.
Qed.

Lemma u64_pos : 0 < u64. Proof. apply bpow_gt_0. Qed.
Lemma eta64_pos : 0 < eta64. Proof. apply bpow_gt_0. Qed.

(* the code's formula, operation by operation *)
Lemma variance_b64_unf (m : Z) s : (0 < m <= 1000000)%Z -> o_data s <> [] ->
  (length (o_data s) <= 64)%nat -> (2 <= o_W s <= 64)%nat ->
  (Z.abs (o_sum s) < 2 ^ 53)%Z ->
  let n := IZR (Z.of_nat (length (o_data s))) in
  let a := rnd64 (IZR (o_sum s) / (IZR m * n)) in
  o_variance B64Ops m s =
    Some (rnd64 (rnd64 (rnd64 (rnd64 (IZR (o_sumsq s)) / IZR (m * m)) - rnd64 (rnd64 (n * a) * a)) / (IZR (Z.of_nat (o_W s)) - 1))).
Proof.
  intros Hm Hne Hlen HW Hs n a.
  assert (Hn : (0 < Z.of_nat (length (o_data s)) <= 64)%Z).
  { destruct (o_data s); [congruence|cbn [length] in *; lia]. }
  assert (P53 : (2 ^ 53 = 9007199254740992)%Z) by reflexivity.
  unfold o_variance. rewrite (average_b64_unf m s ltac:(lia) Hne ltac:(nia) Hs). fold n a.
  f_equal. rewrite (nofZ_b64 (m * m)) by nia. rewrite (nofZ_b64 (Z.of_nat (length (o_data s)))) by lia.
  rewrite (nofZ_b64 (Z.of_nat (o_W s) - 1)) by lia. rewrite minus_IZR.
  unfold B64Ops. cbn [ndiv nmul nsub nofZ FlOps]. unfold fl_div, fl_mul, fl_sub. reflexivity.
Qed.

Lemma variance_b64_err (m : Z) s : (0 < m <= 1000000)%Z -> o_data s <> [] ->
  (length (o_data s) <= 64)%nat -> (2 <= o_W s <= 64)%nat ->
  (Z.abs (o_sum s) < 2 ^ 53)%Z -> (0 <= o_sumsq s)%Z ->
  let n := IZR (Z.of_nat (length (o_data s))) in
  let k := IZR (Z.of_nat (o_W s)) - 1 in
  let A := IZR (o_sumsq s) / IZR (m * m) in
  let mu := IZR (o_sum s) / (IZR m * n) in
  let B := n * mu * mu in
  exists v, o_variance B64Ops m s = Some v /\
            Rabs (v - (A - B) / k) <= u64 * (7 * A + 9 * B) / k + 3 * eta64.
Proof.
  intros Hm Hne Hlen HW Hs Hq n k A mu B.
  rewrite (variance_b64_unf m s Hm Hne Hlen HW Hs). fold n. eexists. split; [reflexivity|].
  assert (Hn : (1 <= Z.of_nat (length (o_data s)) <= 64)%Z).
  { destruct (o_data s); [congruence|cbn [length] in *; lia]. }
  assert (P53 : (2 ^ 53 = 9007199254740992)%Z) by reflexivity.
  assert (Hn1 : 1 <= n) by (apply IZR_le; lia).
  assert (Hk : 1 <= k) by (unfold k; assert (2 <= IZR (Z.of_nat (o_W s))) by (apply IZR_le; lia); lra).
  assert (Hmm : 0 < IZR (m * m)) by (apply IZR_lt; nia).
  assert (HA : 0 <= A) by (unfold A; apply Rmult_le_pos; [apply IZR_le; exact Hq|left; apply Rinv_0_lt_compat; exact Hmm]).
  assert (HB : 0 <= B) by (unfold B; rewrite Rmult_assoc; apply Rmult_le_pos; [lra|nra]).
  pose proof u64_pos as Hu. pose proof eta64_pos as He. pose proof u64_val as Uv.
  (* sqavg *)
  set (sqavg := rnd64 (rnd64 (IZR (o_sumsq s)) / IZR (m * m))).
  assert (R1 : rel sqavg A (3 * u64)).
  { eapply rel_weaken.
    - apply rel_rnd; [apply rel_div; eapply rel_rnd; [apply rel_refl| |lra]| |].
      + destruct (int_ge1 (o_sumsq s)) as [E|E]; [left; exact E|right].
        eapply Rle_trans; [|exact E]. apply (bpow_le radix2 (-1022) 0). lia.
      + apply ge1_quot_normal; [apply rnd_ge1, int_ge1|nia].
      + lra.
    - rewrite Uv. lra. }
  (* average, size * average * average *)
  set (a := rnd64 (IZR (o_sum s) / (IZR m * n))).
  assert (Hmu : nz53 mu).
  { unfold mu, n. rewrite <- mult_IZR. apply nz53_int_quot. nia. }
  assert (Ra : rel a mu u64).
  { eapply rel_weaken; [apply rel_rnd; [apply rel_refl|apply nz53_normal; exact Hmu|lra]|lra]. }
  assert (Hna : nz53 a) by (apply nz53_rnd; exact Hmu).
  set (t1 := rnd64 (n * a)).
  assert (Rt1 : rel t1 (n * mu) (21 / 10 * u64)).
  { eapply rel_weaken.
    - apply rel_rnd; [apply rel_scale; exact Ra|apply nz53_normal, nz53_int_mul; [lia|exact Hna]|lra].
    - rewrite Uv. lra. }
  assert (Hnt1 : nz53 t1) by (apply nz53_rnd, nz53_int_mul; [lia|exact Hna]).
  set (t2 := rnd64 (t1 * a)).
  assert (R2 : rel t2 B (5 * u64)).
  { unfold B. eapply rel_weaken.
    - apply rel_rnd; [apply rel_mul; [exact Rt1|exact Ra|lra|lra]|apply nz53_mul_normal; assumption|nra].
    - rewrite Uv. lra. }
  (* subtraction and final division: general rounding bound *)
  set (d := rnd64 (sqavg - t2)).
  pose proof (rnd64_abs_err (sqavg - t2)) as E3. fold d in E3.
  pose proof (rnd64_abs_err (d / k)) as E4.
  unfold rel in R1, R2. rewrite (Rabs_pos_eq A HA) in R1. rewrite (Rabs_pos_eq B HB) in R2.
  apply Rabs_le_inv in R1, R2.
  assert (X : Rabs (sqavg - t2) <= A + B + 3 * u64 * A + 5 * u64 * B) by (apply Rabs_le; lra).
  assert (Y : Rabs (d - (A - B)) <= u64 * (A + B + 3 * u64 * A + 5 * u64 * B) + eta64 + 3 * u64 * A + 5 * u64 * B).
  { replace (d - (A - B)) with ((d - (sqavg - t2)) + ((sqavg - A) - (t2 - B))) by ring.
    eapply Rle_trans; [apply Rabs_triang|].
    assert (Rabs (sqavg - A - (t2 - B)) <= 3 * u64 * A + 5 * u64 * B) by (apply Rabs_le; lra).
    nra. }
  assert (Y' : Rabs (d - (A - B)) <= 5 * u64 * A + 7 * u64 * B + eta64).
  { eapply Rle_trans; [exact Y|]. rewrite Uv. nra. }
  assert (D : Rabs d <= A + B + (5 * u64 * A + 7 * u64 * B + eta64)).
  { replace d with ((A - B) + (d - (A - B))) at 1 by ring. eapply Rle_trans; [apply Rabs_triang|].
    assert (Rabs (A - B) <= A + B) by (apply Rabs_le; lra). lra. }
  assert (Hik : 0 < / k <= 1).
  { split; [apply Rinv_0_lt_compat; lra|]. rewrite <- Rinv_1. apply Rinv_le_contravar; lra. }
  assert (Dk : Rabs (d / k) = Rabs d * / k).
  { unfold Rdiv. rewrite Rabs_mult, (Rabs_pos_eq (/ k)) by lra. reflexivity. }
  rewrite Dk in E4. fold k.
  replace (rnd64 (d / k) - (A - B) / k) with ((rnd64 (d / k) - d / k) + (d - (A - B)) * / k) by (unfold Rdiv; ring).
  eapply Rle_trans; [apply Rabs_triang|]. rewrite (Rabs_mult (d - (A - B))), (Rabs_pos_eq (/ k)) by lra.
  set (ik := / k) in *. unfold Rdiv. fold ik.
  set (Ak := A * ik). set (Bk := B * ik).
  assert (HAk : 0 <= Ak) by (unfold Ak; nra). assert (HBk : 0 <= Bk) by (unfold Bk; nra).
  assert (Dk' : Rabs d * ik <= Ak + Bk + (5 * u64 * Ak + 7 * u64 * Bk + eta64 * ik)).
  { unfold Ak, Bk. pose proof (Rabs_pos d). nra. }
  assert (Yk : Rabs (d - (A - B)) * ik <= 5 * u64 * Ak + 7 * u64 * Bk + eta64 * ik).
  { unfold Ak, Bk. pose proof (Rabs_pos (d - (A - B))). nra. }
  assert (Ek : eta64 * ik <= eta64) by nra.
  replace (u64 * (7 * A + 9 * B) * ik) with (u64 * (7 * Ak + 9 * Bk)) by (unfold Ak, Bk; ring).
  assert (U2 : u64 * (Rabs d * ik) <= u64 * (Ak + Bk + (5 * u64 * Ak + 7 * u64 * Bk + eta64 * ik))) by nra.
  change (d / k) with (d * ik) in E4. clearbody Ak Bk ik. rewrite Uv in *. lra.
Qed.

(* exact statistics of a list of truncated samples z_i, read as y_i = z_i / m *)
Definition zsqsum (m : Z) (l : list Z) : R := rsum (map (fun z => (IZR z / IZR m) * (IZR z / IZR m)) l).
Definition zvar (m : Z) (l : list Z) : R :=
  rsum (map (fun z => (IZR z / IZR m - zmean m l) * (IZR z / IZR m - zmean m l)) l) / (INR (length l) - 1).

Lemma zsqsum_unf m l : (0 < m)%Z -> zsqsum m l = IZR (zsum (map (fun z => (z * z)%Z) l)) / IZR (m * m).
Proof.
  intros Hm. assert (IZR m <> 0) by (apply not_0_IZR; lia). unfold zsqsum. rewrite mult_IZR.
  induction l as [|z l IH]; cbn [map rsum zsum]; [unfold Rdiv; ring|].
  rewrite IH, plus_IZR, mult_IZR. field. assumption.
Qed.

Lemma zsum_sq_nonneg l : (0 <= zsum (map (fun z => (z * z)%Z) l))%Z.
Proof. induction l as [|z l IH]; cbn [map zsum]; nia. Qed.

Lemma zvar_unf m l : (2 <= length l)%nat ->
  zvar m l = (zsqsum m l - INR (length l) * zmean m l * zmean m l) / (INR (length l) - 1).
Proof.
  intros Hl. unfold zvar. f_equal.
  replace (map (fun z => (IZR z / IZR m - zmean m l) * (IZR z / IZR m - zmean m l)) l)
    with (map (fun y => (y - zmean m l) * (y - zmean m l)) (map (fun z => IZR z / IZR m) l)) by (rewrite map_map; reflexivity).
  rewrite rsum_sq_shift. rewrite map_length. unfold zsqsum.
  replace (map (fun y => y * y) (map (fun z => IZR z / IZR m) l)) with (map (fun z => IZR z / IZR m * (IZR z / IZR m)) l)
    by (rewrite map_map; reflexivity).
  assert (Hn : INR (length l) <> 0) by (apply not_0_INR; lia).
  assert (E : rsum (map (fun z => IZR z / IZR m) l) = INR (length l) * zmean m l) by (unfold zmean; field; exact Hn).
  rewrite E. ring.
Qed.

(* for every history, once the window (2 <= W <= 64) is full: the reported variance is within
   2^-53 (7 A + 9 B)/(W-1) + 3*2^-1075 of the exact unbiased sample variance of the last W truncated samples, where
   A = sum y_i^2 and B = W mean^2 — a bound that does not depend on the history length *)
Lemma variance_b64_history W h (m : Z) : (2 <= W)%nat -> (W <= 64)%nat -> (0 < m <= 1000000)%Z ->
  Forall (fun x => (Z.abs x <= 100000000)%Z) (since_reset h []) ->
  (W <= length (since_reset h []))%nat ->
  let s := fold_left i_step h (o_init W) in
  let L := lastn W (since_reset h []) in
  exists v, o_variance B64Ops m s = Some v /\
    Rabs (v - zvar m L) <= u64 * (7 * zsqsum m L + 9 * (INR W * zmean m L * zmean m L)) / (INR W - 1) + 3 * eta64.
Proof.
  intros HW2 HW Hm HB Hfull s L. assert (HW0 : (0 < W)%nat) by lia.
  destruct (window_is_last_W W h HW0) as (V1 & V2 & V3 & V4 & _). fold s L in V1, V2, V3, V4.
  destruct (o_inv_run W HW0 h) as (HWs & _). fold s in HWs.
  destruct (sums_bounded W h 100000000 HW0 HW ltac:(lia) HB) as [S1 _]. fold s in S1.
  pose proof (lastn_length W (since_reset h [])) as Len. fold L in Len.
  assert (HLW : length L = W) by lia.
  assert (Hlen : length (o_data s) = W) by lia.
  assert (Hne : o_data s <> []) by (intros E; rewrite E in Hlen; cbn in Hlen; lia).
  assert (HL : L <> []) by (intros E; rewrite E in HLW; cbn in HLW; lia).
  assert (Hs53 : (Z.abs (o_sum s) < 2 ^ 53)%Z).
  { rewrite V3. pose proof (zsum_bound L 100000000 ltac:(lia) (Forall_skipn _ _ _ HB)) as Bd.
    assert (Z.of_nat (length L) * 100000000 <= 6400000000)%Z by nia.
    assert (6400000000 < 2 ^ 53)%Z by (simpl; lia). lia. }
  destruct (variance_b64_err m s Hm Hne ltac:(lia) ltac:(lia) Hs53 ltac:(rewrite V4; apply zsum_sq_nonneg))
    as (v & Ev & Bv).
  exists v. split; [exact Ev|].
  rewrite HWs, Hlen in Bv. rewrite <- !INR_IZR_INZ in Bv.
  rewrite V4, V3 in Bv. rewrite <- (zsqsum_unf m L ltac:(lia)) in Bv.
  assert (Emu : IZR (zsum L) / (IZR m * INR W) = zmean m L).
  { rewrite (zmean_unf m L ltac:(lia) HL), HLW, <- INR_IZR_INZ. reflexivity. }
  rewrite Emu in Bv.
  rewrite (zvar_unf m L ltac:(lia)), HLW. exact Bv.
Qed.

