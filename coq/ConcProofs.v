(* ConcProofs.v — serial specifications of the shared variables (C19). *)
From Coq Require Import List ZArith Lia.
From Romea Require Import ConcModel.
Import ListNotations.

Section P.
Context {V : Type}.

(* ---- SharedVariable: a load returns the most recently stored value (or the initial one) ---- *)
Fixpoint last_store (s : V) (ops : list (svop (V:=V))) : V :=
  match ops with [] => s | SvStore v :: r => last_store v r | SvLoad :: r => last_store s r end.

Lemma sv_load_reads_last_store : forall pre s,
  sv_run s (pre ++ [SvLoad]) = sv_run s pre ++ [Some (last_store s pre)].
Proof.
  induction pre as [|o pre IH]; intros s; cbn; [reflexivity|]. destruct o as [v|]; cbn; rewrite IH; reflexivity.
Qed.

(* every loaded value is the initial value or one that was stored *)
Fixpoint stores_sv (ops : list (svop (V:=V))) : list V :=
  match ops with [] => [] | SvStore v :: r => v :: stores_sv r | SvLoad :: r => stores_sv r end.

Lemma sv_loads_are_stored : forall ops s x, In (Some x) (sv_run s ops) -> x = s \/ In x (stores_sv ops).
Proof.
  induction ops as [|o ops IH]; intros s x H; cbn in *; [contradiction|]. destruct o as [v|]; cbn in H.
  - destruct H as [H|H]; [discriminate|]. destruct (IH v x H) as [->|H']; [right; left; reflexivity|right; right; exact H'].
  - destruct H as [H|H]; [left; congruence|]. exact (IH s x H).
Qed.

(* ---- SharedOptionalVariable: consumed values form a subsequence of the stored values ---- *)
Inductive subseq : list V -> list V -> Prop :=
| ss_nil l : subseq [] l
| ss_take x a b : subseq a b -> subseq (x :: a) (x :: b)
| ss_skip x a b : subseq a b -> subseq a (x :: b).

Fixpoint stores (ops : list (soop (V:=V))) : list V :=
  match ops with [] => [] | SoStore v :: r => v :: stores r | SoConsume :: r => stores r end.

Fixpoint consumed (outs : list (option (option V))) : list V :=
  match outs with [] => [] | Some (Some v) :: r => v :: consumed r | _ :: r => consumed r end.

Definition pending (s : option V) : list V := match s with Some v => [v] | None => [] end.

Lemma subseq_app_skip a b c : subseq a b -> subseq a (c ++ b).
Proof. induction c as [|x c IH]; intros H; cbn; [exact H|apply ss_skip, IH, H]. Qed.

Lemma subseq_pending s a b : subseq a b -> subseq (pending s ++ a) (pending s ++ b).
Proof. destruct s; cbn; intros H; [apply ss_take|]; exact H. Qed.

Lemma so_consumed_subseq : forall ops s, subseq (consumed (so_run s ops)) (pending s ++ stores ops).
Proof.
  induction ops as [|o ops IH]; intros s; cbn [so_run consumed stores]; [constructor|].
  destruct o as [v|]; cbn [so_step consumed].
  - (* store: an unconsumed pending value is dropped; v becomes pending *)
    specialize (IH (Some v)). cbn [pending app] in IH. apply subseq_app_skip. exact IH.
  - specialize (IH None). cbn [pending app] in IH.
    destruct s as [x|]; cbn [consumed pending app]; [apply ss_take|]; exact IH.
Qed.

(* a subsequence of a duplicate-free list is duplicate-free: with distinct stored values, every consumed value was
   stored exactly once and is handed out at most once, in store order *)
Lemma subseq_in a b x : subseq a b -> In x a -> In x b.
Proof. induction 1 as [l|y a b S IH|y a b S IH]; intros Hin; cbn in *; [contradiction|destruct Hin; auto|right; auto]. Qed.

Lemma subseq_nodup a b : subseq a b -> NoDup b -> NoDup a.
Proof.
  induction 1 as [l|x a b H IH|x a b H IH]; intros N; [constructor| |].
  - inversion N; subst. constructor; [|apply IH; assumption]. intros Hin. apply (subseq_in _ _ _ H) in Hin. contradiction.
  - inversion N; subst. apply IH. assumption.
Qed.

Theorem so_exactly_once_in_order ops : NoDup (stores ops) ->
  subseq (consumed (so_run None ops)) (stores ops) /\ NoDup (consumed (so_run None ops)).
Proof.
  intros N. pose proof (so_consumed_subseq ops None) as S. cbn [pending app] in S. split; [exact S|exact (subseq_nodup _ _ S N)].
Qed.
End P.
