(* GeodesyContraction.v — the latitude iteration of ECEFConverter::toWGS84 is a contraction (C01). *)
From Coq Require Import Reals ZArith List Bool Lra Lia Psatz.
From Coquelicot Require Import Coquelicot.
From Interval Require Import Tactic.
From Romea Require Import Num NumR GeodesyModel GeodesyProofs.
From Romea.gen Require Import RepoConstants.
Local Open Scope R_scope.

Section Body.
Variable el : ellipsoid (T:=R).
Hypothesis Ha : 0 < el_a el.
Hypothesis He2 : 0 <= el_e2 el < 1.
Variables Z rho : R.
Hypothesis Hrho : 0 < rho.

Local Notation a := (el_a el).
Local Notation e2 := (el_e2 el).

Definition Wf (x : R) : R := sqrt (1 - e2 * sin x * sin x).
(* denominator of the loop body: 1 - a e2 cos(lat) / (norm W(lat)) *)
Definition lat_den (x : R) : R := 1 - a * e2 * cos x / (rho * Wf x).

Lemma lat_body_eq x : lat_body ROps el Z rho x = atan ((Z / rho) / lat_den x).
Proof.
  unfold lat_body, lat_den, Wf. cbn.
  replace (1 - e2 * (sin x * sin x)) with (1 - e2 * sin x * sin x) by ring. reflexivity.
Qed.

Definition lat_body_deriv (x : R) : R :=
  - (Z * (e2 * a * (1 - e2)) * sin x) / (Wf x * Wf x * Wf x * ((rho * lat_den x) * (rho * lat_den x) + Z * Z)).

Lemma lat_body_is_derive x : lat_den x <> 0 ->
  is_derive (lat_body ROps el Z rho) x (lat_body_deriv x).
Proof.
  intros HD.
  pose proof (w2_pos e2 x He2) as W2.
  pose proof (w_pos e2 x He2) as Wp. pose proof (w_sq e2 x He2) as Ws.
  apply (is_derive_ext (fun y => atan ((Z / rho) / (1 - a * e2 * cos y / (rho * sqrt (1 - e2 * sin y * sin y)))))).
  { intros t. rewrite lat_body_eq. reflexivity. }
  unfold lat_den, Wf in HD.
  auto_derive.
  - replace (1 + - (e2 * sin x * sin x)) with (1 - e2 * sin x * sin x) by ring.
    set (w := sqrt (1 - e2 * sin x * sin x)) in *.
    split; [lra|]. split; [nra|]. split; [|exact I].
    unfold Rdiv in HD. lra.
  - unfold lat_body_deriv, lat_den, Wf.
    replace (1 + - (e2 * sin x * sin x)) with (1 - e2 * sin x * sin x) by ring.
    set (w := sqrt (1 - e2 * sin x * sin x)) in *.
    set (s := sin x) in *. set (c := cos x) in *.
    assert (Cs : c * c = 1 - s * s) by (apply cos_sq_eq).
    replace (1 + - (a * e2 * c * / (rho * w))) with (1 - a * e2 * c / (rho * w)) by (unfold Rdiv; ring).
    set (D := 1 - a * e2 * c / (rho * w)) in *.
    match goal with |- _ * (- - ?A * _) * _ = _ => set (AA := A) end.
    assert (EA : AA = - (a * e2 * (1 - e2) * s) / (rho * (w * w * w))).
    { unfold AA.
      transitivity ((a * e2 * s / (rho * (w * w * w))) * (e2 * (c * c) - w * w)).
      - field. split; lra.
      - rewrite Ws, Cs. field. split; lra. }
    rewrite EA. clearbody D AA w s c.
    assert (P : 0 < rho * D * (rho * D) + Z * Z).
    { assert (0 < rho * D * (rho * D)); [|nra]. assert (rho * D <> 0) by nra. nra. }
    replace (1 + Z / rho * / D * (Z / rho * / D * 1))
      with ((rho * D * (rho * D) + Z * Z) / (rho * D * (rho * D))) by (field; split; lra).
    set (Q := rho * D * (rho * D) + Z * Z) in *. clearbody Q.
    field. repeat split; lra.
Qed.
(* ---- bound of the derivative ---- *)
Definition rnorm : R := sqrt (rho * rho + Z * Z).
(* contraction factor for the point (rho, Z): e2 a / (sqrt(1-e2) (|p| - e2 a)) *)
Definition lat_q : R := e2 * a / (sqrt (1 - e2) * (rnorm - e2 * a)).

Lemma rnorm_sq : rnorm * rnorm = rho * rho + Z * Z.
Proof. unfold rnorm. apply sqrt_sqrt. nra. Qed.

Lemma rnorm_ge_rho : rho <= rnorm.
Proof.
  unfold rnorm. rewrite <- (sqrt_square rho) at 1 by lra. apply sqrt_le_1_alt. nra.
Qed.

Lemma Wf_ge x : sqrt (1 - e2) <= Wf x.
Proof. unfold Wf. apply sqrt_le_1_alt. pose proof (sin_sq_le_1 x). nra. Qed.

Lemma cos_le_Wf x : Rabs (cos x) <= Wf x.
Proof.
  unfold Wf. rewrite <- sqrt_Rsqr_abs. apply sqrt_le_1_alt.
  unfold Rsqr. rewrite cos_sq_eq. pose proof (sin_sq_le_1 x). assert (0 <= sin x * sin x) by nra. nra.
Qed.

Hypothesis Hfar : e2 * a < rnorm.

Lemma lat_q_nonneg : 0 <= lat_q.
Proof.
  unfold lat_q. assert (0 < sqrt (1 - e2)) by (apply sqrt_lt_R0; lra).
  apply Rmult_le_pos; [nra|]. left. apply Rinv_0_lt_compat. nra.
Qed.

(* (rho D)^2 + Z^2 >= (|p| - e2 a)^2 *)
Lemma body_den_lower x :
  (rnorm - e2 * a) * (rnorm - e2 * a) <= (rho * lat_den x) * (rho * lat_den x) + Z * Z.
Proof.
  pose proof (w_pos e2 x He2) as Wp. fold (Wf x) in Wp.
  pose proof (cos_le_Wf x) as Cw. pose proof rnorm_sq as Rs. pose proof rnorm_ge_rho as Rr.
  set (cc := a * e2 * (cos x / Wf x)).
  assert (Ecc : rho * lat_den x = rho - cc). { unfold lat_den, cc. field. split; lra. }
  rewrite Ecc.
  assert (Hf : Rabs (cos x / Wf x) <= 1).
  { unfold Rdiv. rewrite Rabs_mult, Rabs_inv, (Rabs_pos_eq (Wf x)) by lra.
    apply (Rmult_le_reg_r (Wf x)); [lra|]. rewrite Rmult_assoc, Rinv_l by lra. lra. }
  set (f := cos x / Wf x) in *. clearbody f. apply Rabs_le_between in Hf.
  assert (Hae : 0 <= a * e2) by nra.
  assert (Hcc : - (e2 * a) <= cc <= e2 * a) by (unfold cc; split; nra).
  clearbody cc. set (r := rnorm) in *. clearbody r. set (m := e2 * a) in *.
  assert (0 <= m) by (unfold m; nra). clearbody m.
  (* (rho-cc)^2 + Z^2 = r^2 - 2 rho cc + cc^2 >= r^2 - 2 r |cc| + cc^2 >= (r-m)^2 *)
  assert (Hm : m < r) by exact Hfar.
  destruct (Rle_dec 0 cc) as [Cp|Cn].
  - assert (S1 : rho * cc <= r * cc) by nra.
    assert (S2 : 0 <= (m - cc) * (2 * r - m - cc)) by (apply Rmult_le_pos; lra).
    nra.
  - assert (S1 : rho * cc <= 0) by nra.
    assert (S2 : 0 <= m * (2 * r - m)) by (apply Rmult_le_pos; lra).
    nra.
Qed.

Lemma lat_body_deriv_bound x : Rabs (lat_body_deriv x) <= lat_q.
Proof.
  pose proof (w_pos e2 x He2) as Wp. fold (Wf x) in Wp.
  pose proof (Wf_ge x) as Wk. pose proof (body_den_lower x) as Q.
  assert (Kp : 0 < sqrt (1 - e2)) by (apply sqrt_lt_R0; lra).
  assert (Ks : sqrt (1 - e2) * sqrt (1 - e2) = 1 - e2) by (apply sqrt_sqrt; lra).
  unfold lat_body_deriv, lat_q.
  set (w := Wf x) in *. set (k := sqrt (1 - e2)) in *. set (m := rnorm - e2 * a) in *.
  set (QQ := rho * lat_den x * (rho * lat_den x) + Z * Z) in *.
  assert (Mp : 0 < m) by (unfold m; lra).
  assert (QZ : Z * Z <= QQ) by (unfold QQ; nra).
  assert (Qp : 0 < QQ) by nra.
  assert (ZQ : Rabs Z * m <= QQ).
  { pose proof (Rabs_pos Z) as Zp. assert (Z2 : Rabs Z * Rabs Z = Z * Z).
    { unfold Rabs. destruct (Rcase_abs Z); ring. }
    destruct (Rle_dec (Rabs Z) m); nra. }
  assert (W3 : k * (1 - e2) <= w * w * w).
  { rewrite <- Ks. assert (k * k <= w * w) by nra. nra. }
  assert (W3p : 0 < w * w * w) by (apply Rmult_lt_0_compat; [nra|lra]).
  unfold Rdiv. rewrite Rabs_mult, Rabs_Ropp, Rabs_inv, !Rabs_mult.
  rewrite (Rabs_pos_eq QQ), (Rabs_pos_eq w), (Rabs_pos_eq e2), (Rabs_pos_eq a), (Rabs_pos_eq (1 - e2)) by lra.
  pose proof (Rabs_pos Z) as Zp. pose proof (Rabs_pos (sin x)) as Sp.
  assert (S1 : Rabs (sin x) <= 1).
  { apply Rabs_le. pose proof (SIN_bound x). lra. }
  set (az := Rabs Z) in *. set (s := Rabs (sin x)) in *. clearbody az s QQ w k m.
  apply (Rmult_le_reg_r (w * w * w * QQ)); [nra|].
  rewrite Rmult_assoc, Rinv_l by nra.
  apply (Rmult_le_reg_r (k * m)); [nra|].
  replace (e2 * a * / (k * m) * (w * w * w * QQ) * (k * m)) with (e2 * a * (w * w * w * QQ)) by (field; split; lra).
  (* az * (e2 a (1-e2)) * s * (k m) <= e2 a (w^3 QQ) *)
  assert (T1 : (k * (1 - e2)) * (az * m) <= (w * w * w) * QQ).
  { apply Rmult_le_compat; nra. }
  assert (T2 : s * ((k * (1 - e2)) * (az * m)) <= (k * (1 - e2)) * (az * m)).
  { assert (0 <= (k * (1 - e2)) * (az * m)) by (apply Rmult_le_pos; nra). nra. }
  assert (E0 : 0 <= e2 * a) by nra.
  replace (az * (e2 * a * (1 - e2)) * s * 1 * (k * m)) with ((e2 * a) * (s * ((k * (1 - e2)) * (az * m)))) by ring.
  apply Rmult_le_compat_l; lra.
Qed.

(* ---- mean value theorem: the body is lat_q-Lipschitz on every segment where its denominator does not vanish ---- *)
Lemma lat_body_lipschitz x y :
  (forall z, Rmin x y <= z <= Rmax x y -> lat_den z <> 0) ->
  Rabs (lat_body ROps el Z rho y - lat_body ROps el Z rho x) <= lat_q * Rabs (y - x).
Proof.
  intros HD.
  destruct (MVT_gen (lat_body ROps el Z rho) x y lat_body_deriv) as [c [Hc E]].
  - intros z Hz. apply lat_body_is_derive. apply HD. lra.
  - intros z Hz. apply continuity_pt_filterlim. apply (ex_derive_continuous (lat_body ROps el Z rho)).
    exists (lat_body_deriv z). apply lat_body_is_derive. apply HD. exact Hz.
  - rewrite E, Rabs_mult. apply Rmult_le_compat_r; [apply Rabs_pos|apply lat_body_deriv_bound].
Qed.

(* ---- the invariant interval: latitudes between the geocentric latitude atan(Z/rho) and the pole on the side of Z ---- *)
Definition lat_psi : R := atan (Z / rho).
Definition lat_J (x : R) : Prop :=
  - PI / 2 < x < PI / 2 /\ (0 <= Z -> lat_psi <= x) /\ (Z <= 0 -> x <= lat_psi).

Lemma atan_le x y : x <= y -> atan x <= atan y.
Proof. intros [H| ->]; [left; apply atan_increasing; exact H|right; reflexivity]. Qed.

Lemma lat_psi_sign : (0 <= Z -> 0 <= lat_psi) /\ (Z <= 0 -> lat_psi <= 0).
Proof.
  unfold lat_psi. split; intros Hz; rewrite <- atan_0; apply atan_le.
  - apply Rmult_le_pos; [lra|]. left. apply Rinv_0_lt_compat. lra.
  - assert (0 <= (- Z) * / rho); [|unfold Rdiv; lra].
    apply Rmult_le_pos; [lra|]. left. apply Rinv_0_lt_compat. lra.
Qed.

Lemma cos_psi_sq : cos lat_psi * cos lat_psi * (rho * rho + Z * Z) = rho * rho.
Proof.
  unfold lat_psi. rewrite cos_atan. unfold Rsqr.
  assert (P : 0 < 1 + Z / rho * (Z / rho)) by nra.
  pose proof (sqrt_lt_R0 _ P) as Sp. pose proof (sqrt_sqrt _ (Rlt_le _ _ P)) as Ss.
  set (q := sqrt (1 + Z / rho * (Z / rho))) in *.
  assert (E : 1 / q * (1 / q) = 1 / (q * q)) by (field; lra).
  rewrite E, Ss. field. split; [lra|].
  replace (rho * rho + Z * Z) with (rho * rho * (1 + Z / rho * (Z / rho))) by (field; lra). nra.
Qed.

Lemma lat_J_cos x : lat_J x -> 0 < cos x <= cos lat_psi.
Proof.
  intros [Hx [Hp Hn]]. split; [apply cos_pos_lat; exact Hx|].
  pose proof (atan_bound (Z / rho)) as Pb. fold lat_psi in Pb.
  destruct lat_psi_sign as [Sp Sn]. pose proof PI_RGT_0.
  destruct (Rle_dec 0 Z) as [Hz|Hz].
  - specialize (Hp Hz). specialize (Sp Hz). apply cos_decr_1; lra.
  - assert (Hz' : Z <= 0) by lra. specialize (Hn Hz'). specialize (Sn Hz').
    rewrite <- (cos_neg x), <- (cos_neg lat_psi). apply cos_decr_1; lra.
Qed.

Hypothesis HJ : (e2 * a) * (e2 * a) < rho * rho + (1 - e2) * (Z * Z).

(* on the interval the denominator of the body is in (0, 1] *)
Lemma lat_J_den x : lat_J x -> 0 < lat_den x <= 1.
Proof.
  intros HJx. destruct (lat_J_cos x HJx) as [Cp Cl]. pose proof cos_psi_sq as Cq.
  pose proof (w_pos e2 x He2) as Wp. pose proof (w_sq e2 x He2) as Ws. fold (Wf x) in Wp, Ws.
  assert (Ws' : Wf x * Wf x = 1 - e2 + e2 * (cos x * cos x)).
  { rewrite Ws, cos_sq_eq. ring. }
  unfold lat_den.
  set (w := Wf x) in *. set (c := cos x) in *. set (cp := cos lat_psi) in *. clearbody w c cp.
  assert (Key : (a * e2 * c) * (a * e2 * c) < (rho * w) * (rho * w)).
  { replace (rho * w * (rho * w)) with (rho * rho * (w * w)) by ring. rewrite Ws'.
    (* c^2 (a^2 e2^2 - rho^2 e2) < rho^2 (1 - e2) *)
    assert (C2 : c * c <= cp * cp) by nra.
    set (K := a * e2 * (a * e2) - rho * rho * e2).
    assert (G : c * c * K < rho * rho * (1 - e2)); [|unfold K in G; nra].
    assert (R0 : 0 < rho * rho * (1 - e2)) by (apply Rmult_lt_0_compat; nra).
    assert (C0 : 0 <= c * c) by nra.
    destruct (Rle_dec K 0) as [Kn|Kp].
    - assert (c * c * K <= 0); [|lra]. clearbody K. nra.
    - assert (S1 : c * c * K <= cp * cp * K) by nra.
      assert (S2 : cp * cp * K * (rho * rho + Z * Z) < rho * rho * (1 - e2) * (rho * rho + Z * Z)).
      { replace (cp * cp * K * (rho * rho + Z * Z)) with (cp * cp * (rho * rho + Z * Z) * K) by ring.
        rewrite Cq. unfold K. nra. }
      assert (Pq : 0 < rho * rho + Z * Z) by nra.
      assert (S3 : cp * cp * K < rho * rho * (1 - e2)).
      { apply (Rmult_lt_reg_r (rho * rho + Z * Z)); [exact Pq|exact S2]. }
      lra. }
  assert (Lt : a * e2 * c < rho * w).
  { assert (0 <= a * e2 * c) by (apply Rmult_le_pos; nra). assert (0 < rho * w) by nra. nra. }
  assert (Pw : 0 < rho * w) by nra.
  assert (Q1 : a * e2 * c / (rho * w) < 1).
  { apply (Rmult_lt_reg_r (rho * w)); [exact Pw|]. unfold Rdiv. rewrite Rmult_assoc, Rinv_l by lra. lra. }
  assert (Q0 : 0 <= a * e2 * c / (rho * w)).
  { apply Rmult_le_pos; [apply Rmult_le_pos; nra|]. left. apply Rinv_0_lt_compat. exact Pw. }
  lra.
Qed.

(* a body value computed with a denominator in (0,1] lies in the interval *)
Lemma lat_J_of_quot d : 0 < d <= 1 -> lat_J (atan ((Z / rho) / d)).
Proof.
  intros Hd. split; [apply atan_bound|]. unfold lat_psi.
  assert (Id : 1 <= / d). { rewrite <- Rinv_1. apply Rinv_le_contravar; lra. }
  split; intros Hz; apply atan_le.
  - assert (0 <= Z / rho). { apply Rmult_le_pos; [lra|]. left. apply Rinv_0_lt_compat. lra. }
    unfold Rdiv at 1. nra.
  - assert (0 <= (- Z) / rho). { apply Rmult_le_pos; [lra|]. left. apply Rinv_0_lt_compat. lra. }
    assert (Z / rho <= 0) by (unfold Rdiv in *; lra).
    unfold Rdiv at 1. nra.
Qed.

Lemma lat_J_body x : lat_J x -> lat_J (lat_body ROps el Z rho x).
Proof. intros Hx. rewrite lat_body_eq. apply lat_J_of_quot. apply lat_J_den. exact Hx. Qed.

(* any latitude strictly inside (-PI/2, PI/2) whose denominator is positive is sent into the interval *)
Lemma lat_J_body_pos x : - PI / 2 < x < PI / 2 -> 0 < lat_den x -> lat_J (lat_body ROps el Z rho x).
Proof.
  intros Hx Hd. rewrite lat_body_eq. apply lat_J_of_quot. split; [exact Hd|].
  unfold lat_den. pose proof (cos_pos_lat x Hx). pose proof (w_pos e2 x He2) as Wp. fold (Wf x) in Wp.
  assert (0 <= a * e2 * cos x / (rho * Wf x)); [|lra].
  apply Rmult_le_pos; [apply Rmult_le_pos; nra|]. left. apply Rinv_0_lt_compat. nra.
Qed.

Lemma lat_J_convex x y z : lat_J x -> lat_J y -> Rmin x y <= z <= Rmax x y -> lat_J z.
Proof.
  intros [Hx [Px Nx]] [Hy [Py Ny]] Hz.
  unfold Rmin, Rmax in Hz.
  destruct (Rle_dec x y); (split; [lra|]); split; intros Hs;
    try (specialize (Px Hs); specialize (Py Hs)); try (specialize (Nx Hs); specialize (Ny Hs)); lra.
Qed.

(* the body is lat_q-Lipschitz on the interval *)
Lemma lat_body_contraction_J x y : lat_J x -> lat_J y ->
  Rabs (lat_body ROps el Z rho y - lat_body ROps el Z rho x) <= lat_q * Rabs (y - x).
Proof.
  intros Hx Hy. apply lat_body_lipschitz. intros z Hz.
  pose proof (lat_J_den z (lat_J_convex x y z Hx Hy Hz)). lra.
Qed.

(* ---- the loop ---- *)
Local Notation g := (lat_body ROps el Z rho).

(* exit of the loop, carrying an invariant of the iterates *)
Lemma lat_loop_exit_inv (P : R -> Prop) : (forall x, P x -> P (g x)) ->
  forall fuel lat delta r, P lat ->
  lat_loop ROps fuel el Z rho lat delta = Some r ->
  (r = lat /\ delta <= ecef_eps ROps) \/
  (exists prev, P prev /\ r = g prev /\ Rabs (r - prev) <= ecef_eps ROps).
Proof.
  intros HP. induction fuel as [|f IH]; intros lat delta r Hl; cbn [lat_loop]; cbn [nltb ROps].
  - destruct (Rltb (ecef_eps ROps) delta) eqn:E; [discriminate|].
    intros H; inversion H; subst. left. split; [reflexivity|apply Rltb_false; exact E].
  - destruct (Rltb (ecef_eps ROps) delta) eqn:E.
    + intros H. destruct (IH _ _ _ (HP _ Hl) H) as [[Hr Hd]|Hex].
      * right. exists lat. subst r. split; [exact Hl|]. split; [reflexivity|exact Hd].
      * right. exact Hex.
    + intros H; inversion H; subst. left. split; [reflexivity|apply Rltb_false; exact E].
Qed.

Hypothesis Hq : lat_q < 1.

(* accuracy of the exit: started in the interval with delta > eps, a returned latitude is within
   q eps/(1-q) of any fixed point of the body that lies in the interval *)
Lemma lat_loop_exit_accuracy fuel lat delta r fx :
  lat_J lat -> ecef_eps ROps < delta -> lat_J fx -> g fx = fx ->
  lat_loop ROps fuel el Z rho lat delta = Some r ->
  Rabs (r - fx) <= lat_q * ecef_eps ROps / (1 - lat_q).
Proof.
  intros Hl Hd Hfx Hfix H.
  destruct (lat_loop_exit_inv lat_J lat_J_body fuel lat delta r Hl H) as [[_ Hc]|[prev [Hp [Er Hs]]]]; [lra|].
  subst r. apply (contraction_exit_error g lat_q (ecef_eps ROps) prev fx).
  - split; [apply lat_q_nonneg|exact Hq].
  - exact Hfix.
  - apply lat_body_contraction_J; assumption.
  - exact Hs.
Qed.

(* termination: the step shrinks by lat_q at every pass *)
Lemma lat_loop_terminates_from n : forall fuel prev,
  lat_J prev -> Rabs (g prev - prev) * lat_q ^ n <= ecef_eps ROps -> (n <= fuel)%nat ->
  exists r, lat_loop ROps fuel el Z rho (g prev) (Rabs (g prev - prev)) = Some r.
Proof.
  pose proof lat_q_nonneg as Q0.
  induction n as [|n IH]; intros fuel prev Hp Hs Hf.
  - cbn [pow] in Hs. rewrite Rmult_1_r in Hs.
    exists (g prev). destruct fuel; cbn [lat_loop nltb ROps]; rewrite (proj2 (Rltb_false _ _) Hs); reflexivity.
  - destruct fuel as [|f]; [lia|]. cbn [lat_loop nltb ROps].
    destruct (Rltb (ecef_eps ROps) (Rabs (g prev - prev))) eqn:E; [|eexists; reflexivity].
    cbn [nabs nsub ROps]. apply IH; [apply lat_J_body; exact Hp| |lia].
    pose proof (lat_body_contraction_J prev (g prev) Hp (lat_J_body prev Hp)) as L.
    assert (Pn : 0 <= lat_q ^ n) by (apply pow_le; exact Q0).
    cbn [pow] in Hs.
    apply Rle_trans with (lat_q * Rabs (g prev - prev) * lat_q ^ n); [|lra].
    apply Rmult_le_compat_r; [exact Pn|exact L].
Qed.

Lemma lat_loop_terminates n fuel lat delta :
  lat_J lat -> PI * lat_q ^ n <= ecef_eps ROps -> (S n <= fuel)%nat ->
  exists r, lat_loop ROps fuel el Z rho lat delta = Some r.
Proof.
  intros Hl Hn Hf. destruct fuel as [|f]; [lia|]. cbn [lat_loop nltb ROps].
  destruct (Rltb (ecef_eps ROps) delta); [|eexists; reflexivity].
  cbn [nabs nsub ROps]. apply (lat_loop_terminates_from n); [exact Hl| |lia].
  assert (Pn : 0 <= lat_q ^ n) by (apply pow_le; apply lat_q_nonneg).
  apply Rle_trans with (PI * lat_q ^ n); [|exact Hn].
  apply Rmult_le_compat_r; [exact Pn|].
  destruct Hl as [Hl _]. pose proof (atan_bound (Z / rho / lat_den lat)) as Hg.
  rewrite <- lat_body_eq in Hg. apply Rabs_le. lra.
Qed.

End Body.
