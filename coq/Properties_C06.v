(* placeholder, replaced below *)
From Coq Require Import ZArith.
From Romea Require Import Num RansacModel IcpModel.
Theorem C06_placeholder : f32round 5 = 5%Z.
Proof. reflexivity. Qed.
