(* Properties_C06.v — C06: ICP + RANSAC recover every small displacement of the reference scan.   PARTIAL.
   Only statements, each closed by [exact <lemma>] and followed by Print Assumptions; Examples show the
   hypotheses are satisfiable.

   What is proved (for all inputs / all update, draw and iteration sequences, about the models in
   coq/RansacModel.v and coq/IcpModel.v, which are tied to the code by the correspondence run):
     iterations_monotone, iterations_formula, estimate_logic, inliers_are_3sigma_filter,
     best_consensus_invariant, success_error_below_sigma, outliers_no_influence, one_to_one_filter,
     icp_returns_true_iff_break, icp_best_is_min_rmse,
     zero_displacement_estimate_identity, zero_displacement_icp_identity ("with zero displacement it returns the identity").

   C06_convergence_partial — what NO theorem here covers:
     * that FindRigidTransformationByICP::find converges to within 0.015 (Frobenius) of the true motion for every
       displacement |tx|,|ty| <= 0.2 m, |theta| <= 0.05 rad of test/data/scan2d.txt.  That depends on the data
       file, kd-tree matching, normal estimation, the least-squares estimator and floating-point dynamics; the
       per-iteration outcome is an abstract argument of the ICP model.  It is SAMPLED by the check (grid incl.
       corners and zero, random interior points; groups named "(testing)" in the evidence).  The sampling found
       a corner of the envelope where find() returns false (known_findings.d/C06.json).
     * that RANSAC's random draws DO hit an outlier-free minimal sample (the luck of the draws): the theorems
       below hold for every draw sequence and say what follows IF no drawn model puts an outlier inside the gate;
       success on the synthetic outlier sets is sampled.
     * the rigid estimators (SVD / least squares), Eigen and <random>. *)
From Coq Require Import Reals ZArith List Bool Lra Lia Sorted Permutation.
From Flocq Require Import Core.Raux.
From Romea Require Import Num NumR RansacModel IcpModel RansacProofs EstimateProofs RigidProofs IcpProofs RansacProbability.
From Romea Require Import LinAlgBModel LinAlgBProofs LsModel LsProofs LsHistoryProofs P2pModel P2pProofs ZeroDispProofs ZeroDispRansac.
From Romea Require Import SrcTieC06.
From Romea.gen Require Import RepoConstants SrcRansac.
Import ListNotations.

(* ------------------------------------------------------------------------------------------------ RansacIterations *)
(* For every numeric dictionary (so also for the executed binary64 instance), every (points, p, max, draw size) and
   every sequence of updates: the successive values of get() never increase, start at the configured maximum and
   never exceed it. *)
Theorem C06_iterations_monotone : forall (T : Type) (N : NumOps T) (npoints : Z) (p : T) (maxit sdraw : Z) (ks : list Z),
  let bounds := iters_run N (iters_init N npoints p maxit) sdraw ks in
  StronglySorted Z.ge bounds /\ Forall (fun b => (b <= maxit)%Z) bounds /\ hd 0%Z bounds = maxit /\
  last bounds 0%Z = iters_get (iters_fold N (iters_init N npoints p maxit) sdraw ks).
Proof.
  intros T N npoints p maxit sdraw ks bounds. unfold bounds.
  split; [apply iters_run_sorted|]. split; [apply (iters_run_bounded N ks (iters_init N npoints p maxit) sdraw)|].
  split; [apply iters_run_head | apply iters_run_last].
Qed.
Print Assumptions C06_iterations_monotone.

(* Over the reals: after update(k inliers) the bound is min(previous, floor(ln(1-p) / ln q)) where q is
   1 - (k/n)^s clamped to [EPSILON, 1 - EPSILON]; the quotient is positive (so the size_t conversion is a floor). *)
Theorem C06_iterations_formula : forall (s : iters R) (npoints : Z) (p : R) (k sdraw : Z),
  it_logopp s = ln (1 - p) -> it_oneovern s = (/ IZR npoints)%R ->
  (0 < p < 1)%R -> (1 <= npoints)%Z -> (1 <= k)%Z -> (0 <= sdraw)%Z ->
  let w := (IZR k / IZR npoints)%R in
  let q := Rmin (1 - Reps) (Rmax Reps (1 - w ^ Z.to_nat sdraw)) in
  (0 < ln (1 - p) / ln q)%R /\
  iters_get (iters_update ROps s k sdraw) = Z.min (iters_get s) (Zfloor (ln (1 - p) / ln q)).
Proof. exact iters_formula_R. Qed.
Print Assumptions C06_iterations_formula.

(* no clamp active: the textbook bound floor(ln(1-p)/ln(1-w^s)) *)
Theorem C06_iterations_formula_unclamped : forall (w : R) (sd : nat),
  (Reps <= 1 - w ^ sd <= 1 - Reps)%R -> q_clamped w sd = (1 - w ^ sd)%R.
Proof. exact q_clamped_inactive. Qed.
Print Assumptions C06_iterations_formula_unclamped.

(* the constructor establishes the hypotheses of the formula, every update keeps them, and the bound stays >= 0 *)
Theorem C06_iterations_reachable : forall npoints p maxit sdraw ks,
  let s := iters_fold ROps (iters_init ROps npoints p maxit) sdraw ks in
  it_logopp s = ln (1 - p) /\ it_oneovern s = (/ IZR npoints)%R /\
  ((0 < p < 1)%R -> (1 <= npoints)%Z -> (0 <= sdraw)%Z -> (0 <= maxit)%Z -> Forall (fun k => (1 <= k)%Z) ks ->
   (0 <= iters_get s)%Z).
Proof.
  intros npoints p maxit sdraw ks s. unfold s.
  destruct (iters_fold_fields ROps ks (iters_init ROps npoints p maxit) sdraw) as [A B].
  destruct (iters_init_R npoints p maxit) as (A' & B' & _).
  split; [rewrite A; exact A'|]. split; [rewrite B; exact B'|]. apply iters_fold_nonneg.
Qed.
Print Assumptions C06_iterations_reachable.

(* What the bound means (pure real analysis about the formula; independence of the draws is the textbook idealisation):
   with q the probability that a draw is contaminated and p the requested confidence, the kept count K = floor(L),
   L = ln(1-p)/ln q, satisfies  q^(K+1) < 1-p <= q^K : after K draws the probability that every draw was contaminated is
   still at least 1-p (the confidence reached is 1 - q^K, in (1-(1-p)/q, p]); one more draw would reach p.  The size_t
   conversion truncates where the textbook rule rounds up. *)
Theorem C06_iterations_probability_bracket : forall q p : R,
  (0 < q < 1)%R -> (0 < p < 1)%R ->
  let L := (ln (1 - p) / ln q)%R in
  let K := Z.to_nat (Zfloor L) in
  (0 < L)%R /\ (q ^ (S K) < 1 - p <= q ^ K)%R.
Proof. exact iterations_bracket. Qed.
Print Assumptions C06_iterations_probability_bracket.

(* the same for the count RansacIterations::update stores, whenever the update lowers it *)
Theorem C06_iterations_update_probability : forall (s : iters R) (npoints : Z) (p : R) (k sdraw : Z),
  it_logopp s = ln (1 - p) -> it_oneovern s = (/ IZR npoints)%R ->
  (0 < p < 1)%R -> (1 <= npoints)%Z -> (1 <= k)%Z -> (0 <= sdraw)%Z ->
  let q := q_clamped (IZR k / IZR npoints) (Z.to_nat sdraw) in
  (iters_get (iters_update ROps s k sdraw) < iters_get s)%Z ->
  let K := Z.to_nat (iters_get (iters_update ROps s k sdraw)) in
  (q ^ (S K) < 1 - p <= q ^ K)%R.
Proof. exact iterations_update_bracket. Qed.
Print Assumptions C06_iterations_update_probability.

Example C06_iterations_example :
  iters_run ROps (iters_init ROps 100 (99/100)%R 1000) 3 [] = [1000%Z] /\ (0 < 99/100 < 1)%R.
Proof. split; [reflexivity | lra]. Qed.

(* ------------------------------------------------------------------------------------------------ Ransac::estimateModel *)
(* Fewer points than the minimal number of inliers: false, and the model object is not touched. *)
Theorem C06_estimate_too_few_points : forall (T : Type) (N : NumOps T) (S : Type) draw count refine sdraw
    npoints mininl (p : T) maxit (s : S),
  (npoints < mininl)%Z ->
  estimate N draw count refine sdraw npoints mininl p maxit s = Some (mkEst false 0 0 None [] s).
Proof. intros. apply estimate_too_few. assumption. Qed.
Print Assumptions C06_estimate_too_few_points.

(* Otherwise, for every model object (any draw / countInliers / refine behaviour), the run ends within the
   configured maximum of draws; the result is true iff the largest value countInliers returned (as seen through the
   float variable) exceeds the draw size; refine is called exactly once, as the very last call, iff the result is
   true, and never otherwise. *)
Theorem C06_estimate_logic : forall (T : Type) (N : NumOps T) (S : Type) (draw : S -> S * bool) (count : S -> S * Z)
    (refine : S -> S) sdraw npoints mininl (p : T) maxit (s : S),
  (forall s, 0 <= snd (count s))%Z -> (mininl <= npoints)%Z -> (0 <= maxit)%Z ->
  exists r loop_calls s_loop,
    estimate N draw count refine sdraw npoints mininl p maxit s = Some r /\
    ~ In EvRefine loop_calls /\
    er_best r = max_rounded 0 (counts_of loop_calls) /\
    (er_ok r = true <-> (sdraw < er_best r)%Z) /\
    er_events r = loop_calls ++ (if er_ok r then [EvRefine] else []) /\
    er_state r = (if er_ok r then refine s_loop else s_loop) /\
    er_iters r = draws_of loop_calls /\ (er_iters r <= maxit)%Z.
Proof. intros. apply estimate_logic_lemma; assumption. Qed.
Print Assumptions C06_estimate_logic.

(* max_rounded is the maximum: it dominates every returned count and is attained (or is 0) *)
Theorem C06_estimate_best_is_max : forall cs,
  (forall c, In c cs -> (f32round c <= max_rounded 0 cs)%Z) /\
  (max_rounded 0 cs = 0%Z \/ exists c, In c cs /\ max_rounded 0 cs = f32round c) /\
  (forall c, (c < 2 ^ 24)%Z -> f32round c = c).
Proof.
  intros cs. split; [intros c H; apply max_rounded_all; exact H|]. split; [apply max_rounded_in | exact f32round_small].
Qed.
Print Assumptions C06_estimate_best_is_max.

Example C06_estimate_example :
  exists r, estimate ROps (fun s : unit => (s, true)) (fun s => (s, 7%Z)) (fun s => s) 3 10 6 (99/100)%R 1 tt = Some r /\
            er_ok r = true /\ er_events r = [EvDraw; EvCount 7; EvRefine] /\ er_iters r = 1%Z.
Proof.
  unfold estimate. change (10 <? 6)%Z with false. cbv iota.
  change (Z.to_nat 1) with 1%nat.
  rewrite est_loop_unfold. cbn [iters_init it_n]. change (0 <? 1)%Z with true. cbv iota beta zeta.
  change (f32round 0 <? f32round 7)%Z with true. cbv iota.
  change (f32round 7) with 7%Z. rewrite est_loop_unfold.
  match goal with |- context [ (0 + 1 <? it_n ?X)%Z ] => destruct (Z.ltb_spec (0 + 1) (it_n X)) as [H|H] end.
  - exfalso. cbn [iters_update iters_init it_n] in H. lia.
  - cbv beta iota zeta delta [lr_best lr_iters lr_chosen lr_events lr_state Z.leb Z.compare Pos.compare Pos.compare_cont].
    eexists. split; [reflexivity|]. cbn. auto.
Qed.

(* ------------------------------------------------------------------------------------------------ rigid model: inliers *)
(* The factor in the source is 9 (checked against the regenerated constant): the consensus candidates are exactly
   the correspondences whose residual distance is below 3 sigma, in sorted order. *)
Theorem C06_inliers_are_3sigma_filter : forall hom dim M src tgt (sigma : R) sorted,
  (0 < sigma)%R ->
  inliers ROps hom dim M src tgt sigma sorted =
    filter (fun c => Rltb (sqrt (c_sq c)) (3 * sigma)) (with_residuals ROps hom dim M src tgt sorted) /\
  (forall c, In c (with_residuals ROps hom dim M src tgt sorted) ->
     exists c0, In c0 sorted /\ c_src c = c_src c0 /\ c_tgt c = c_tgt c0 /\
                c_sq c = residual ROps hom dim M src tgt c0 /\ (0 <= c_sq c)%R).
Proof.
  intros hom dim M src tgt sigma sorted Hs. split.
  - apply inliers_3sigma; [reflexivity | exact Hs].
  - intros c Hc. destruct (with_residuals_sq _ _ _ _ _ _ _ Hc) as (c0 & A & B & C & D).
    exists c0. repeat split; try assumption. rewrite D. apply residual_nonneg.
Qed.
Print Assumptions C06_inliers_are_3sigma_filter.

(* std::unique's result is discarded in countInliers: the consensus vector keeps the size of the filter output, only
   contains filter outputs, and is the filter output itself when no two neighbours share a target index (always the
   case for the one-to-one correspondences ICP and the property's synthetic sets hand over). *)
Theorem C06_consensus_is_filter_output : forall hom dim M src tgt (sigma : R) sorted,
  let inl := inliers ROps hom dim M src tgt sigma sorted in
  let cs := consensus ROps hom dim M src tgt sigma sorted in
  length cs = length inl /\ (forall c, In c cs -> In c inl) /\
  ((forall pre x y post, inl = pre ++ x :: y :: post -> eq_tgt x y = false) -> cs = inl).
Proof.
  intros hom dim M src tgt sigma sorted inl cs. unfold cs, consensus. fold inl.
  split; [apply unique_inplace_length|]. split; [intros c; apply unique_inplace_incl | apply unique_inplace_id].
Qed.
Print Assumptions C06_consensus_is_filter_output.

(* ------------------------------------------------------------------------------------------------ rigid model: best consensus *)
(* For every sequence of candidate matrices applied to a fresh model object: either no candidate passes the two
   gates (size >= minimum, rmse < sigma) and the object is still in its initial state, or the stored consensus is
   one of the candidates, passes both gates, and no passing candidate is better in the code's order
   (more inliers, or as many and a strictly lower rmse). *)
Theorem C06_best_consensus_invariant : forall hom dim mininl src tgt (sigma : R) sorted (Ms : list (list (list R))),
  (1 <= mininl)%Z ->
  let cands := map (cand_of_matrix hom dim src tgt sigma sorted) Ms in
  let final := rigid_fold ROps hom dim mininl src tgt sigma sorted Ms (rigid_init ROps) in
  (final = rigid_init ROps /\ forall c, In c cands -> ~ passes mininl sigma c) \/
  (In (cand_of final) cands /\ passes mininl sigma (cand_of final) /\
   forall c, In c cands -> passes mininl sigma c -> ~ beats c (cand_of final)).
Proof.
  intros hom dim mininl src tgt sigma sorted Ms Hm cands final. unfold final. rewrite rigid_fold_store.
  apply best_consensus_lemma. exact Hm.
Qed.
Print Assumptions C06_best_consensus_invariant.

(* the hypothesis 1 <= mininl holds for the constants of the sources (2 x draw size, draw size 3 / 4) *)
Example C06_min_inliers_positive : (1 <= rigid_min_inliers 2)%Z /\ (1 <= rigid_min_inliers 3)%Z.
Proof. vm_compute. split; discriminate. Qed.

(* ------------------------------------------------------------------------------------------------ success => error < sigma *)
(* The real Ransac::estimateModel driving the rigid model object, for every script of drawn candidates: if it
   returns true, the reported consensus error is below sigma, the consensus has at least the minimal size, and the
   refit was given exactly the stored consensus.  (The reported error is that of the drawn candidate which
   produced the consensus, not of the refitted transformation: that is what the code reports.) *)
Theorem C06_success_error_below_sigma : forall hom dim src tgt (sigma : R) corrs npoints p maxit script r,
  estimate_rigid ROps hom dim src tgt sigma corrs npoints p maxit script = Some r ->
  er_ok r = true ->
  (rs_rmse (ro_st (er_state r)) < sigma)%R /\
  (rigid_min_inliers (Z.of_nat dim) <= Z.of_nat (length (rs_best (ro_st (er_state r)))))%Z.
Proof. exact success_error_lemma. Qed.
Print Assumptions C06_success_error_below_sigma.

(* ------------------------------------------------------------------------------------------------ outliers *)
(* [keep s t] marks the pairs that are not outliers.  If no drawn model puts an outlier inside the gate, then for the
   same sequence of drawn models the object evolves exactly as on the outlier-free input, and the consensus handed
   to the refit contains no outlier.  (Stated on the sorted correspondence list the object holds; the number of
   draws Ransac makes additionally depends on numberOfPoints, which is a separate argument of loadCorrespondences.) *)
Theorem C06_outliers_no_influence : forall hom dim src tgt (sigma : R) mininl (keep : Z -> Z -> bool)
    (Ms : list (list (list R))) (sorted : list (corr R)),
  (forall M c, In M Ms -> In c sorted -> keepc keep c = false -> outside_gate hom dim src tgt sigma M c) ->
  rigid_fold ROps hom dim mininl src tgt sigma sorted Ms (rigid_init ROps) =
    rigid_fold ROps hom dim mininl src tgt sigma (filter (keepc keep) sorted) Ms (rigid_init ROps) /\
  Forall (fun c => keepc keep c = true)
    (rs_best (rigid_fold ROps hom dim mininl src tgt sigma sorted Ms (rigid_init ROps))).
Proof.
  intros. apply rigid_fold_keep; [assumption | constructor].
Qed.
Print Assumptions C06_outliers_no_influence.

(* ------------------------------------------------------------------------------------------------ ICP: one-to-one filter *)
(* For ANY arrangement std::sort may return (a permutation of the matches in which no later element precedes an
   earlier one under sortBySourceIndexAndDistancePredicate), std::unique on the source index keeps every source
   index exactly once, keeps only matches that were there, and the kept match of a source has a minimal distance. *)
Theorem C06_one_to_one_filter : forall (l l' : list (corr R)),
  Permutation l l' -> sorted_by_src_dist l' ->
  let u := unique_by (eq_src (T:=R)) l' in
  NoDup (map c_src u) /\
  (forall c, In c l -> exists y, In y u /\ c_src y = c_src c) /\
  (forall y, In y u -> In y l /\ forall c, In c l -> c_src c = c_src y -> (c_sq y <= c_sq c)%R).
Proof. exact one_to_one_lemma. Qed.
Print Assumptions C06_one_to_one_filter.

(* ... in particular for the filter exactly as the model executes it in the correspondence run *)
Theorem C06_one_to_one_filter_model : forall (l : list (corr R)),
  let u := one_to_one ROps l in
  NoDup (map c_src u) /\
  (forall c, In c l -> exists y, In y u /\ c_src y = c_src c) /\
  (forall y, In y u -> In y l /\ forall c, In c l -> c_src c = c_src y -> (c_sq y <= c_sq c)%R).
Proof.
  intros l. destruct (sort_by_spec l) as [P S]. exact (one_to_one_lemma l _ P S).
Qed.
Print Assumptions C06_one_to_one_filter_model.

Example C06_one_to_one_example :
  let a := mkCorr 1 5 (1/4)%R in let b := mkCorr 1 7 (1/2)%R in let c := mkCorr 2 6 0%R in
  Permutation [b; c; a] [a; b; c] /\ sorted_by_src_dist [a; b; c] /\
  unique_by (eq_src (T:=R)) [a; b; c] = [a; c].
Proof.
  cbv zeta. split; [|split].
  - apply Permutation_sym. apply (Permutation_cons_app [_; _] [] _). apply Permutation_refl.
  - assert (H : forall x y : corr R, ((c_src x < c_src y)%Z \/ (c_src x = c_src y /\ (c_sq x <= c_sq y)%R)) ->
                src_dist_lt ROps y x = false).
    { intros x y H. unfold src_dist_lt. cbn [nltb ROps]. apply orb_false_iff. split.
      - apply Z.ltb_ge. destruct H as [H|[H _]]; lia.
      - apply andb_false_iff. destruct H as [H|[H1 H2]].
        + left. apply Z.eqb_neq. lia.
        + right. apply Rltb_false. exact H2. }
    repeat constructor; apply H; cbn; try (left; lia); right; split; [reflexivity | lra].
  - reflexivity.
Qed.

(* ------------------------------------------------------------------------------------------------ ICP: loop exit *)
(* For every sequence of per-iteration outcomes (RANSAC success, rmse, matrix): find() returns true iff some
   iteration k < maximalNumberOfIterations succeeded with a matrix whose entrywise L1 distance to the previous
   successful matrix (identity at the start) is below epsilon; the loop counter at exit is the first such k, no
   earlier iteration met the test, and it is the configured maximum when the result is false. *)
Theorem C06_icp_returns_true_iff_break : forall (eps : R) maxit id (os : list (icp_outcome R)) r,
  (0 <= maxit)%Z -> icp_run ROps eps maxit id os = Some r ->
  (ir_found r = true <->
     exists pre o post, os = pre ++ o :: post /\ (Z.of_nat (length pre) < maxit)%Z /\ breaks eps id pre o) /\
  (ir_found r = true ->
     exists pre o post, os = pre ++ o :: post /\ ir_n r = Z.of_nat (length pre) /\ (ir_n r < maxit)%Z /\
       breaks eps id pre o /\ forall pre1 o1 post1, pre = pre1 ++ o1 :: post1 -> ~ breaks eps id pre1 o1) /\
  (ir_found r = false -> ir_n r = maxit).
Proof. exact icp_run_spec. Qed.
Print Assumptions C06_icp_returns_true_iff_break.

(* The best estimate kept by the loop (used to project the target points) has the minimal consensus rmse among the
   successful iterations that ran (all iterations up to and including the breaking one, or all of them). *)
Theorem C06_icp_best_is_min_rmse : forall (eps : R) maxit id (os : list (icp_outcome R)) r,
  icp_run ROps eps maxit id os = Some r ->
  exists ran rest, os = ran ++ rest /\
    Z.of_nat (length ran) = (if ir_found r then ir_n r + 1 else ir_n r)%Z /\
    (forall o, In o ran -> io_ok o = true -> (is_best_rmse (ir_state r) <= io_rmse o)%R) /\
    match is_best (ir_state r) with
    | None => is_best_rmse (ir_state r) = nmaxval ROps
    | Some k => exists o, nth_error ran (Z.to_nat k) = Some o /\ io_ok o = true /\ io_rmse o = is_best_rmse (ir_state r)
    end.
Proof. exact icp_best_lemma. Qed.
Print Assumptions C06_icp_best_is_min_rmse.

Example C06_icp_example :
  let o := mkOutcome true (1/10)%R [1; 0; 0; 1]%R in
  exists r, icp_run ROps (1/1000)%R 10 [1; 0; 0; 1]%R [o] = Some r /\ ir_found r = true /\ ir_n r = 0%Z.
Proof.
  cbv zeta. unfold icp_run. change (Z.to_nat 10) with 10%nat. cbn [icp_loop io_ok].
  unfold icp_step. cbn [io_M io_rmse icp_init is_prev is_best_rmse is_best].
  assert (E : mat_absdiff ROps [1; 0; 0; 1]%R [1; 0; 0; 1]%R = 0%R).
  { unfold mat_absdiff. cbn. rewrite !Rminus_diag_eq by reflexivity. rewrite Rabs_R0. lra. }
  rewrite E. cbn [nltb ROps].
  replace (Rltb 0 (1 / 1000)) with true by (symmetry; apply Rltb_true; lra).
  eexists. split; [reflexivity|]. split; reflexivity.
Qed.

(* ------------------------------------------------------------------------------------------------ zero displacement *)
(* "with zero displacement it returns the identity" — the point-to-plane estimator (P2pModel.v on LsModel.v, the models
   of C05 / C07), over the reals, for ANY LDLT / SVD oracle (no contract is needed: J^T Y = 0 makes the answer Bc whatever
   matrix the oracle returns), for both SVD thresholds ([svd_fixed]), 2D and 3D, Cartesian and homogeneous points
   ([ps] = number of stored coordinates), from any state of the estimator object the code can configure
   ([p2p_configured]: the constructor, any setPreconditioner, any earlier find).
   If every correspondence pairs a target point with an identical source point (any normals; any subset, order or
   multiplicity of correspondences) then estimate_ returns EXACTLY the identity matrix — and it does return. *)
Theorem C06_zero_displacement_estimate_identity :
  forall inverse_of svd_of (fill : R) (svd_fixed : bool) d ps,
  (d = 2 \/ d = 3)%nat ->
  (* estimate_ on the triples (source, target, normal) *)
  (forall triples st, p2p_configured d st -> (1 <= length triples)%nat -> zero_disp triples ->
     exists st2, p2p_estimate ROps inverse_of svd_of fill svd_fixed d ps triples st = Some (st2, midentity ROps (S d)) /\
                 p2p_configured d st2) /\
  (* find(source, target, normals, correspondences) *)
  (forall src tgt nrm corr st tr, p2p_configured d st -> (1 <= length corr)%nat -> corr_zero_disp src tgt corr ->
     triples_of_corr src tgt nrm corr = Some tr ->
     exists st2, p2p_find_corr ROps inverse_of svd_of fill svd_fixed d ps src tgt nrm corr st = Some (st2, midentity ROps (S d)) /\
                 p2p_configured d st2) /\
  (* find(points, points, normals) *)
  (forall pts nrm st, p2p_configured d st -> (1 <= length pts)%nat -> (length pts <= length nrm)%nat ->
     exists st2, p2p_find_aligned ROps inverse_of svd_of fill svd_fixed d ps pts pts nrm st = Some (st2, midentity ROps (S d)) /\
                 p2p_configured d st2).
Proof.
  intros inv svd fill fx d ps Hd. split; [|split].
  - intros. now apply zero_disp_estimate_identity.
  - intros. now apply (zero_disp_find_corr_identity inv svd fill fx d ps src tgt nrm corr st tr).
  - intros. now apply zero_disp_find_aligned_identity.
Qed.
Print Assumptions C06_zero_displacement_estimate_identity.

(* every estimator path of the solver on the loaded zero-displacement problem (Cholesky, repaired SVD, original SVD)
   returns the parameter vector 0; the un-preconditioned solution inv * J^T Y is 0 for every matrix inv; and under the
   right-inverse contract of C07 the normal equations J^T J z = 0 have no other solution *)
Theorem C06_zero_displacement_all_solver_paths :
  forall inverse_of svd_of (fill : R) (svd_fixed : bool) d ps triples st st1,
  (d = 2 \/ d = 3)%nat -> p2p_configured d st -> (1 <= length triples)%nat -> zero_disp triples ->
  p2p_load ROps inverse_of svd_of fill svd_fixed d ps triples st = Some st1 ->
  (exists st2 x, ls_estimate_chol ROps inverse_of st1 = Some (st2, x) /\ forall i, (i < p2p_k d)%nat -> vget ROps x i = 0%R) /\
  (exists st2 x, ls_estimate_svd ROps svd_of st1 = Some (st2, x) /\ forall i, (i < p2p_k d)%nat -> vget ROps x i = 0%R) /\
  (exists st2 x, ls_estimate_svd_abs ROps svd_of st1 = Some (st2, x) /\ forall i, (i < p2p_k d)%nat -> vget ROps x i = 0%R) /\
  (forall inv i, ls_z st1 inv i = 0%R) /\
  (forall inv z, inv_contract (ls_k st1) (ls_JtJ ROps st1) inv ->
     (forall i, (i < p2p_k d)%nat -> grad (ls_n st1) (p2p_k d) (Jf st1) (Yf st1) z i = 0%R) ->
     forall i, (i < p2p_k d)%nat -> z i = 0%R).
Proof. exact zero_disp_all_paths. Qed.
Print Assumptions C06_zero_displacement_all_solver_paths.

(* the configured states: the constructor's, and closed under setPreconditioner with any scale (the theorem above closes
   them under estimate_ / find); identical points stay identical under the preconditioned overloads *)
Theorem C06_zero_displacement_configurations : forall d, (d = 2 \/ d = 3)%nat ->
  p2p_configured d (p2p_new ROps d) /\
  (forall scale st, p2p_configured d st -> p2p_configured d (p2p_set_preconditioner ROps d scale st)) /\
  (forall c src tgt corr,
     Forall (fun p : nat * nat => (fst p < length src)%nat /\ (snd p < length tgt)%nat) corr ->
     corr_zero_disp src tgt corr -> corr_zero_disp (p2p_precondition ROps c src) (p2p_precondition ROps c tgt) corr).
Proof.
  intros d Hd. split; [now apply p2p_configured_new|]. split.
  - intros. now apply p2p_configured_set_preconditioner.
  - exact corr_zero_disp_precondition.
Qed.
Print Assumptions C06_zero_displacement_configurations.

(* non-vacuity: a 2D zero-displacement problem with two correspondences of one point pair and one of another *)
Example C06_zero_displacement_example :
  corr_zero_disp [[1; 2]; [3; 5]]%R [[3; 5]; [1; 2]]%R [(0, 1); (1, 0); (0, 1)]%nat /\
  triples_of_corr [[1; 2]; [3; 5]]%R [[3; 5]; [1; 2]]%R [[0; 1]; [1; 0]]%R [(0, 1); (1, 0); (0, 1)]%nat <> None.
Proof. split; [repeat constructor | discriminate]. Qed.

(* The ICP loop model: if the transformation of every iteration in which RANSAC succeeds is the identity (which the
   theorem above gives for the refit on zero-displacement matches: [concat (midentity (d+1))] are the entries), then
   find() reports success iff RANSAC succeeds in one of the iterations it may run; it stops AT the first such iteration
   — the first one whose step-difference test is evaluated — and the transformation it hands out is the identity.
   For every positive epsilon (the source's 0.001 included) and every sequence of outcomes. *)
Theorem C06_zero_displacement_icp_identity : forall (eps : R) maxit id (os : list (icp_outcome R)) r,
  (0 < eps)%R -> (0 <= maxit)%Z ->
  (forall o, In o os -> io_ok o = true -> io_M o = id) ->
  icp_run ROps eps maxit id os = Some r ->
  (ir_found r = true <-> exists o, In o (firstn (Z.to_nat maxit) os) /\ io_ok o = true) /\
  (ir_found r = true ->
     exists pre o post, os = pre ++ o :: post /\ ir_n r = Z.of_nat (length pre) /\ (ir_n r < maxit)%Z /\
       Forall (fun o' => io_ok o' = false) pre /\ io_ok o = true /\
       icp_returned_iteration r = Some (ir_n r) /\ nth_error os (Z.to_nat (ir_n r)) = Some o /\ io_M o = id) /\
  (forall o rest, os = o :: rest -> io_ok o = true -> (1 <= maxit)%Z -> ir_found r = true /\ ir_n r = 0%Z).
Proof. exact zero_disp_icp_identity. Qed.
Print Assumptions C06_zero_displacement_icp_identity.

(* the two statements meet: the row-major entries of the estimator's identity are the loop model's identity, and the
   source's epsilon is positive *)
Example C06_zero_displacement_glue :
  (forall n, concat (midentity ROps n) = identity_entries ROps n) /\ (0 < icp_epsilon ROps)%R /\ (1 <= icp_maxit)%Z.
Proof.
  split; [exact concat_midentity|]. split.
  - unfold icp_epsilon, icp_transformation_epsilon_m, icp_transformation_epsilon_e. cbn [nofDec ROps].
    apply Rmult_lt_0_compat; [apply IZR_lt; reflexivity | apply powerRZ_lt; lra].
  - vm_compute. discriminate.
Qed.

(* ------------------------------------------------------------------------------------------------ zero displacement: RANSAC *)
(* The RANSAC rigid-motion model at zero displacement.  [pair_zero]: the correspondence pairs a target point with an
   identical source point (dim stored coordinates, + 1 for homogeneous types).  With the identity as drawn candidate (what
   the estimator returns on any sample of such pairs, C06_zero_displacement_estimate_identity): every residual is 0, the
   consensus countInliers builds has as many entries as there are correspondences, all with residual 0, its rmse is 0,
   check_ accepts the sample, and countInliers returns the number of correspondences (fresh object: stores the
   consensus; an object that already holds it: unchanged). *)
Theorem C06_zero_displacement_rigid_consensus : forall hom dim src tgt (sigma : R) sorted sample mininl,
  (dim = 2 \/ dim = 3)%nat -> (0 < sigma)%R ->
  Forall (pair_zero hom dim src tgt) sorted -> Forall (pair_zero hom dim src tgt) sample ->
  let Id := midentity ROps (S dim) in
  let cs := consensus ROps hom dim Id src tgt sigma sorted in
  (forall c, In c sorted -> residual ROps hom dim Id src tgt c = 0%R) /\
  length cs = length sorted /\ Forall (fun c => c_sq c = 0%R) cs /\ rmse_of ROps cs = 0%R /\
  check_sample ROps hom dim Id src tgt sigma sample = true /\
  ((1 <= mininl <= Z.of_nat (length sorted))%Z ->
   let r := rigid_count ROps hom dim mininl src tgt sigma sorted Id (rigid_init ROps) in
   snd r = Z.of_nat (length sorted) /\ rs_best (fst r) = cs /\ rs_rmse (fst r) = 0%R).
Proof.
  intros hom dim src tgt sigma sorted sample mininl Hd Hs Hz Hsm Id cs.
  destruct (consensus_all hom dim src tgt sigma Hd Hs sorted Hz) as (A & B & C). cbv zeta in A, B, C.
  split; [intros c Hc; apply residual_zero; [exact Hd | rewrite Forall_forall in Hz; now apply Hz]|].
  split; [exact A|]. split; [eapply Forall_impl; [|exact B]; intros c [E _]; exact E|]. split; [exact C|].
  split; [now apply check_sample_zero|].
  intros Hm r.
  destruct (rigid_count_zero hom dim src tgt sigma Hd Hs mininl sorted (rigid_init ROps) Hz Hm (or_introl eq_refl)) as (X1 & _ & X3 & X4 & _).
  split; [exact X1|]. split; [now apply X4 | exact X3].
Qed.
Print Assumptions C06_zero_displacement_rigid_consensus.

(* ... and driven by Ransac::estimateModel (the model the source tie above is about): if every drawn candidate is the
   identity and every sample consists of such pairs, with at least the minimal number of correspondences (2 x draw size)
   and fewer than 2^24, estimateModel returns TRUE whatever the number of further draws; the reported consensus error is 0,
   the consensus has the size of the correspondence list and is what refine() hands to the estimator — whose answer is
   again the identity (C06_zero_displacement_estimate_identity), which the ICP loop then returns at its first iteration
   (C06_zero_displacement_icp_identity).  What stays outside: that the kd-tree pairs every point with itself (C08). *)
Theorem C06_zero_displacement_ransac_succeeds : forall hom dim src tgt (sigma : R) corrs npoints p maxit sample script,
  (dim = 2 \/ dim = 3)%nat -> (0 < sigma)%R ->
  Forall (pair_zero hom dim src tgt) corrs -> Forall (pair_zero hom dim src tgt) sample ->
  Forall (fun e : list (list R) * list (corr R) => fst e = midentity ROps (S dim) /\ Forall (pair_zero hom dim src tgt) (snd e)) script ->
  (rigid_min_inliers (Z.of_nat dim) <= npoints)%Z ->
  (rigid_min_inliers (Z.of_nat dim) <= Z.of_nat (length corrs) < 2 ^ 24)%Z -> (1 <= maxit)%Z ->
  exists r, estimate_rigid ROps hom dim src tgt sigma corrs npoints p maxit ((midentity ROps (S dim), sample) :: script) = Some r /\
    er_ok r = true /\ rs_rmse (ro_st (er_state r)) = 0%R /\
    length (rs_best (ro_st (er_state r))) = length corrs /\
    ro_refit (er_state r) = Some (rs_best (ro_st (er_state r))).
Proof. intros hom dim src tgt sigma corrs npoints p maxit sample script Hd Hs. now apply zero_disp_ransac_succeeds. Qed.
Print Assumptions C06_zero_displacement_ransac_succeeds.

Example C06_zero_displacement_ransac_example :
  let pts := [[0; 0]; [1; 0]; [0; 1]; [1; 1]; [2; 0]; [0; 2]]%R in
  let corrs := map (fun i => mkCorr i i 0%R) [0; 1; 2; 3; 4; 5]%Z in
  Forall (pair_zero false 2 pts pts) corrs /\ (rigid_min_inliers 2 <= Z.of_nat (length corrs) < 2 ^ 24)%Z.
Proof. cbv zeta. split; [repeat constructor | vm_compute; split; [discriminate | reflexivity]]. Qed.

(* ------------------------------------------------------------------------------------------------ SOURCE TIE (syntactic) *)
(* coq/gen/SrcRansac.v is regenerated on every run by translate/tr_C06_ransac.py from the clang AST of
   RansacIterations.cpp, Ransac.cpp and FindRigidTransformationByICP.cpp; the theorems below say that the regenerated
   terms ARE the models the theorems above talk about.  An edit of the C++ that changes the meaning makes them unprovable. *)

(* RansacIterations — constructor, get, update — for EVERY numeric dictionary (by conversion: the same term is what the
   binary64 instance executes).  The object is the tuple of its three members; the model keeps the iteration bound as the
   integer the double holds ([iters_rep]).  update: same EPSILON clamps, same quotient, truncation (ntruncZ), std::min. *)
Theorem C06_source_tie_iterations : forall (T : Type) (N : NumOps T) (s : iters T) (npoints : Z) (p : T) (maxit k sdraw : Z),
  src_iters_init N npoints p maxit = iters_rep N (iters_init N npoints p maxit) /\
  src_iters_get N (iters_rep N s) = nofZ N (iters_get s) /\
  src_iters_update N (iters_rep N s) k sdraw =
    (it_logopp s, it_oneovern s, nmin2 N (nofZ N (it_n s)) (nofZ N (ntruncZ N (iters_ratio N s k sdraw)))) /\
  (int_order_embedding N -> src_iters_update N (iters_rep N s) k sdraw = iters_rep N (iters_update N s k sdraw)).
Proof.
  intros. split; [apply tie_iters_init|]. split; [apply tie_iters_get|]. split; [apply tie_iters_update_raw|].
  intros H. now apply tie_iters_update.
Qed.
Print Assumptions C06_source_tie_iterations.

(* the hypothesis of the last clause holds for the reals (and for binary64 on |integers| <= 2^53) *)
Theorem C06_source_tie_iterations_R : forall (s : iters R) (k sdraw : Z),
  int_order_embedding ROps /\
  src_iters_update ROps (iters_rep ROps s) k sdraw = iters_rep ROps (iters_update ROps s k sdraw).
Proof. intros. split; [exact int_order_embedding_R | apply tie_iters_update; exact int_order_embedding_R]. Qed.
Print Assumptions C06_source_tie_iterations_R.

(* Ransac::estimateModel — the regenerated program over an abstract RansacModel (every virtual call on ransacModel_ is an
   argument; the model object is a state threaded through them) run with the source's own maximum as fuel returns exactly
   what RansacModel.estimate returns: the boolean and the final model object.  Every dictionary whose integer -> scalar
   conversion is order preserving (needed only for `iteration < ransacIterations.get()` and std::min). *)
Theorem C06_source_tie_estimateModel : forall (T : Type) (N : NumOps T), int_order_embedding N ->
  forall (S : Type) (draw : T -> S -> S * bool) (countInliers : T -> S -> S * Z) (refine : S -> S)
         (getNumberOfPoints getNumberOfPointsToDrawModel getMinimalNumberOfInliers : S -> Z) (p sigma : T) (s : S),
  src_estimateModel N draw countInliers refine getNumberOfPoints getNumberOfPointsToDrawModel getMinimalNumberOfInliers
                    (Z.to_nat ransac_maxit) p sigma s =
  match estimate N (draw sigma) (countInliers sigma) refine (getNumberOfPointsToDrawModel s)
                 (getNumberOfPoints s) (getMinimalNumberOfInliers s) p ransac_maxit s with
  | None => None
  | Some r => Some (er_ok r, er_state r)
  end.
Proof. intros T N H S. exact (tie_estimateModel N H). Qed.
Print Assumptions C06_source_tie_estimateModel.

(* ... hence C06_estimate_logic holds of the regenerated program itself (reals): it terminates within the source's
   maximum, returns true iff the largest count seen through the float variable exceeds the draw size, and the object it
   leaves is refine(...) of the loop's object iff it returns true *)
Theorem C06_source_estimateModel_logic : forall (S : Type) (draw : R -> S -> S * bool) (countInliers : R -> S -> S * Z)
    (refine : S -> S) (gnp gsd gmi : S -> Z) (p sigma : R) (s : S),
  (forall x, 0 <= snd (countInliers sigma x))%Z -> (gmi s <= gnp s)%Z ->
  exists (ok : bool) (s_loop : S) (loop_calls : list rcall),
    src_estimateModel ROps draw countInliers refine gnp gsd gmi (Z.to_nat ransac_maxit) p sigma s =
      Some (ok, if ok then refine s_loop else s_loop) /\
    (ok = true <-> (gsd s < max_rounded 0 (counts_of loop_calls))%Z) /\ (draws_of loop_calls <= ransac_maxit)%Z.
Proof.
  intros S draw cnt refine gnp gsd gmi p sigma s Hc Hm.
  rewrite (tie_estimateModel ROps int_order_embedding_R).
  destruct (C06_estimate_logic R ROps S (draw sigma) (cnt sigma) refine (gsd s) (gnp s) (gmi s) p ransac_maxit s Hc Hm)
    as (r & calls & sl & E & _ & Hb & Hok & _ & Hst & Hit & Hle); [vm_compute; discriminate|].
  rewrite E. exists (er_ok r), sl, calls. rewrite Hst. split; [reflexivity|]. rewrite <- Hb. split; [exact Hok | lia].
Qed.
Print Assumptions C06_source_estimateModel_logic.

(* FindRigidTransformationByICP::find — the block run when ransac_.estimateModel() succeeded (difference with the
   PREVIOUS estimate, best-estimate backup, break test, previous := current) is icp_step, for every dictionary; the
   model's is_best names the iteration whose matrix bestRigidTransformation then holds.  Loop header and return
   statement: n < max, n + 1, n != max. *)
Theorem C06_source_tie_icp_exit : forall (T : Type) (N : NumOps T) (eps : T) (n : Z) (st : icp_state T) (o : icp_outcome T)
    (bestM : list T) (maxit : Z),
  (src_icp_block N (io_rmse o) (io_M o) eps (is_best_rmse st) bestM (is_prev st) =
     (let st' := fst (icp_step N eps n st o) in
      (is_best_rmse st', (if nltb N (io_rmse o) (is_best_rmse st) then io_M o else bestM), is_prev st'),
      snd (icp_step N eps n st o)) /\
   is_best (fst (icp_step N eps n st o)) = (if nltb N (io_rmse o) (is_best_rmse st) then Some n else is_best st)) /\
  src_icp_continue maxit n = (n <? maxit)%Z /\ src_icp_next n = (n + 1)%Z /\ src_icp_return maxit n = negb (n =? maxit)%Z.
Proof. intros. split; [apply tie_icp_block | apply tie_icp_header]. Qed.
Print Assumptions C06_source_tie_icp_exit.

(* the for loop assembled from those regenerated pieces (SrcTieC06.src_icp_loop: skip when RANSAC failed, else the block;
   leave on break; the source's continuation test, increment and return expression) computes icp_run: same return value,
   same loop counter, same rmse / previous matrix, and bestRigidTransformation is the matrix of iteration is_best *)
Theorem C06_source_tie_icp_loop : forall (T : Type) (N : NumOps T) (eps : T) (maxit : Z) (identity : list T)
    (os : list (icp_outcome T)), (0 <= maxit)%Z ->
  match icp_run N eps maxit identity os with
  | None => src_icp_loop N eps maxit (S (Z.to_nat maxit)) 0 (nmaxval N) identity identity os = None
  | Some r =>
    src_icp_loop N eps maxit (S (Z.to_nat maxit)) 0 (nmaxval N) identity identity os =
    Some (ir_found r, ir_n r, (is_best_rmse (ir_state r), best_matrix identity os (is_best (ir_state r)), is_prev (ir_state r)))
  end.
Proof. intros T N. exact (tie_icp_run N). Qed.
Print Assumptions C06_source_tie_icp_loop.

(* obligations on the constants regenerated from the sources that the statements above rely on *)
Example C06_constants :
  rigid_gate_factor = 9%Z /\ (0 <= ransac_maxit)%Z /\ (0 <= icp_maxit)%Z /\
  (0 <= rigid_draw_size 2)%Z /\ (0 <= rigid_draw_size 3)%Z.
Proof. vm_compute. repeat split; discriminate. Qed.
