(* OnlineStatsFloatCode.v — C16: the binary64 theorems of OnlineStatsFloat.v restated on the member functions regenerated from
   the source (gen/SrcStats.v through SrcTieC16.v).  Kept apart from OnlineStatsFloat.v so that the float theorems about the
   model do not depend on the syntactic source tie. *)
From Coq Require Import Reals ZArith List Lra Lia.
From Flocq Require Import Core Relative.
From Romea Require Import Num NumR OnlineStatsModel OnlineStatsProofs GridMapFloat StatsSem SrcTieC16 OnlineStatsFloat.
From Romea.gen Require Import SrcStats.
Import ListNotations.
Local Open Scope R_scope.

Lemma values_ops_bounded mult ops : (Z.abs mult < 2 ^ 53)%Z -> values_bounded mult ops -> ops_bounded B64Ops mult ops.
Proof.
  intros Hm. unfold values_bounded, ops_bounded. apply Forall_impl. intros [v|] H; [|exact I].
  apply trunc_b64_bound; assumption.
Qed.

Lemma since_reset_bounded (mult : Z) ops : ops_bounded B64Ops mult ops -> forall acc,
  Forall (fun x => (Z.abs x <= 100000000)%Z) acc ->
  Forall (fun x => (Z.abs x <= 100000000)%Z) (since_reset (map (trunc_op B64Ops mult) ops) acc).
Proof.
  induction 1 as [|o ops Ho Hops IH]; intros acc Hacc; [exact Hacc|].
  destruct o as [v|]; cbn [map trunc_op since_reset].
  - apply IH. apply Forall_app. split; [exact Hacc|]. constructor; [exact Ho|constructor].
  - apply IH. constructor.
Qed.

Lemma average_b64_code p W (ops : list (oop R)) : (0 < W)%nat -> (W <= 64)%nat -> 2 / 2000001 <= p <= 1 ->
  let mult := o_multiplier B64Ops p in
  values_bounded mult ops ->
  let c := fold_left (src_avg_step B64Ops) ops (src_avg_ctor2 B64Ops p (Z.of_nat W)) in
  let L := lastn W (since_reset (map (trunc_op B64Ops mult) ops) []) in
  (1 <= mult <= 1000000)%Z /\
  (L = [] -> src_avg_getAverage c = None) /\
  (L <> [] -> src_avg_getAverage c = Some (rnd64 (zmean mult L)) /\
              Rabs (rnd64 (zmean mult L) - zmean mult L) <= u64 * Rabs (zmean mult L)).
Proof.
  intros HW0 HW Hp mult Hv c L.
  pose proof (multiplier_b64 p Hp) as Hm. fold mult in Hm. split; [exact Hm|].
  assert (Hm53 : (Z.abs mult < 2 ^ 53)%Z).
  { assert (1000000 < 2 ^ 53)%Z by (simpl; lia). lia. }
  pose proof (values_ops_bounded mult ops Hm53 Hv) as Hops.
  destruct (avg_code_model B64Ops B64_one B64_comm p W ops HW0 HW Hops) as [Hrel Hmc]. fold mult c in Hrel, Hmc.
  pose proof (tie_avg_getAverage B64Ops c _ Hrel) as G. rewrite Hmc in G. rewrite G.
  set (h := map (trunc_op B64Ops mult) ops) in *.
  destruct (window_is_last_W W h HW0) as (_ & V2 & _). fold L in V2.
  split.
  - intros E. unfold o_average.
    destruct (o_data (fold_left i_step h (o_init W))) as [|a l]; [reflexivity|].
    pose proof (lastn_length W (since_reset h [])) as Len. fold L in Len. rewrite E in Len. cbn [length] in *. lia.
  - intros HL. apply (average_b64_history W h mult HW0 HW ltac:(lia)); [|exact HL].
    apply since_reset_bounded; [exact Hops|constructor].
Qed.

(* the same about the OnlineVariance code as written, hypotheses on the inputs only *)
Lemma variance_b64_code p W (ops : list (oop R)) : (2 <= W)%nat -> (W <= 64)%nat -> 2 / 2000001 <= p <= 1 ->
  let mult := o_multiplier B64Ops p in
  values_bounded mult ops ->
  let c := fold_left (src_var_step B64Ops) ops (src_var_ctor2 B64Ops p (Z.of_nat W)) in
  let xs := since_reset (map (trunc_op B64Ops mult) ops) [] in
  let L := lastn W xs in
  (W <= length xs)%nat ->
  exists v, src_var_getVariance c = Some v /\
    Rabs (v - zvar mult L) <= u64 * (7 * zsqsum mult L + 9 * (INR W * zmean mult L * zmean mult L)) / (INR W - 1) + 3 * eta64.
Proof.
  intros HW2 HW Hp mult Hv c xs L Hfull. assert (HW0 : (0 < W)%nat) by lia.
  pose proof (multiplier_b64 p Hp) as Hm. fold mult in Hm.
  assert (Hm53 : (Z.abs mult < 2 ^ 53)%Z).
  { assert (1000000 < 2 ^ 53)%Z by (simpl; lia). lia. }
  assert (Hm32 : in_s32 mult) by (unfold in_s32; lia).
  pose proof (values_ops_bounded mult ops Hm53 Hv) as Hops.
  destruct (var_code_window B64Ops B64_one B64_comm p W ops HW0 HW Hm32 Hops) as (_ & _ & _ & _ & _ & _ & Gv & _).
  fold mult c in Gv. rewrite Gv.
  apply (variance_b64_history W (map (trunc_op B64Ops mult) ops) mult HW2 HW ltac:(lia)); [|exact Hfull].
  apply since_reset_bounded; [exact Hops|constructor].
Qed.
