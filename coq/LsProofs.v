(* LsProofs.v — lemmas about the LeastSquares model (LsModel.v).  Real-number instance for the minimisation
   theorems; every numeric dictionary for the structural ones (history independence). *)
From Coq Require Import Reals List Arith Lia Lra Bool Psatz.
From Romea Require Import Num NumR LinAlgBModel LinAlgBProofs LsModel.
Import ListNotations.
Local Open Scope R_scope.

(* ---------------- views of a state (real instance) ---------------- *)
Definition Jf (s : ls_state (T:=R)) : nat -> nat -> R := mget ROps (ls_J s).
Definition Yf (s : ls_state (T:=R)) : nat -> R := vget ROps (ls_Y s).
Definition Wf (s : ls_state (T:=R)) : nat -> R := vget ROps (ls_W s).
Definition Af (s : ls_state (T:=R)) : nat -> nat -> R := mget ROps (ls_A s).
Definition bf (s : ls_state (T:=R)) : nat -> R := vget ROps (ls_b s).

(* contract of the LDLT oracle: the returned matrix is a right inverse of the normal matrix *)
Definition inv_contract (k : nat) (M inv : list (list R)) : Prop :=
  forall i j, (i < k)%nat -> (j < k)%nat ->
    Rsum k (fun l => mget ROps M i l * mget ROps inv l j) = delta i j.

(* contract of the SVD oracle: M = U diag(sigma) V^T, U and V orthogonal, sigma non-negative and non-increasing *)
Definition svd_contract (k : nat) (M : list (list R)) (usv : (list (list R) * list R) * list (list R)) : Prop :=
  let '(U, sg, V) := usv in
  (forall i j, (i < k)%nat -> (j < k)%nat ->
      mget ROps M i j = Rsum k (fun a => mget ROps U i a * vget ROps sg a * mget ROps V j a)) /\
  (forall a b, (a < k)%nat -> (b < k)%nat -> Rsum k (fun l => mget ROps U l a * mget ROps U l b) = delta a b) /\
  (forall i j, (i < k)%nat -> (j < k)%nat -> Rsum k (fun a => mget ROps U i a * mget ROps U j a) = delta i j) /\
  (forall a b, (a < k)%nat -> (b < k)%nat -> Rsum k (fun l => mget ROps V l a * mget ROps V l b) = delta a b) /\
  (forall i j, (i < k)%nat -> (j < k)%nat -> Rsum k (fun a => mget ROps V i a * mget ROps V j a) = delta i j) /\
  (forall a, (a < k)%nat -> 0 <= vget ROps sg a) /\
  (forall a b, (a <= b)%nat -> (b < k)%nat -> vget ROps sg b <= vget ROps sg a).

Lemma ls_JtJ_get s i j : (i < ls_k s)%nat -> (j < ls_k s)%nat ->
  mget ROps (ls_JtJ ROps s) i j = nM (ls_n s) (Jf s) i j.
Proof. intros Hi Hj. unfold ls_JtJ. rewrite mget_mtab by assumption. reflexivity. Qed.

Lemma ls_JtY_get s i : (i < ls_k s)%nat -> vget ROps (ls_JtY ROps s) i = nv (ls_n s) (Jf s) (Yf s) i.
Proof. intros Hi. unfold ls_JtY. rewrite vget_tab by assumption. reflexivity. Qed.

(* Ac * inv * JtY + Bc, entry by entry *)
Lemma ls_apply_get s inv i : (i < ls_k s)%nat ->
  vget ROps (ls_apply ROps s inv) i =
  Rsum (ls_k s) (fun l => Af s i l * Rsum (ls_k s) (fun m => mget ROps inv l m * nv (ls_n s) (Jf s) (Yf s) m)) + bf s i.
Proof.
  intros Hi. unfold ls_apply, vadd, mvmul, mmul. rewrite vget_tab by exact Hi. rewrite vget_tab by exact Hi.
  rsimpl. f_equal. unfold fmvmul. rsimpl.
  rewrite (Rsum_ext (ls_k s) _ (fun l => Rsum (ls_k s) (fun m => Af s i m * mget ROps inv m l) * nv (ls_n s) (Jf s) (Yf s) l)).
  - exact (fmmul_assoc (ls_k s) (ls_k s) (Af s) (mget ROps inv) (fun l _ => nv (ls_n s) (Jf s) (Yf s) l) i O).
  - intros l Hl. rewrite mget_mtab by assumption. rewrite ls_JtY_get by exact Hl. reflexivity.
Qed.

(* the un-preconditioned solution computed from an inverse *)
Definition ls_z (s : ls_state (T:=R)) (inv : list (list R)) : nat -> R :=
  x0 (ls_n s) (ls_k s) (Jf s) (Yf s) (mget ROps inv).

Lemma inv_contract_nM s inv : inv_contract (ls_k s) (ls_JtJ ROps s) inv ->
  forall i j, (i < ls_k s)%nat -> (j < ls_k s)%nat ->
    Rsum (ls_k s) (fun l => nM (ls_n s) (Jf s) i l * mget ROps inv l j) = delta i j.
Proof.
  intros H i j Hi Hj. rewrite <- (H i j Hi Hj). apply Rsum_ext. intros l Hl.
  rewrite ls_JtJ_get by assumption. reflexivity.
Qed.

(* ---- the Cholesky path ---- *)
Section Chol.
Variable inverse_of : nat -> list (list R) -> list (list R).
Variable svd_of : nat -> list (list R) -> (list (list R) * list R) * list (list R).

Lemma chol_result s st x : ls_estimate_chol ROps inverse_of s = Some (st, x) ->
  ls_est_ok s = true /\ x = ls_apply ROps s (inverse_of (ls_k s) (ls_JtJ ROps s)) /\
  st = ls_with_inv s (inverse_of (ls_k s) (ls_JtJ ROps s)).
Proof.
  unfold ls_estimate_chol. destruct (ls_est_ok s); [|discriminate]. intros H. inversion H. auto.
Qed.

Theorem ls_chol_correct s st x :
  inv_contract (ls_k s) (ls_JtJ ROps s) (inverse_of (ls_k s) (ls_JtJ ROps s)) ->
  ls_estimate_chol ROps inverse_of s = Some (st, x) ->
  let n := ls_n s in let k := ls_k s in
  let z := ls_z s (inverse_of k (ls_JtJ ROps s)) in
  (forall i, (i < k)%nat -> vget ROps x i = Rsum k (fun l => Af s i l * z l) + bf s i) /\
  (forall i, (i < k)%nat -> grad n k (Jf s) (Yf s) z i = 0) /\
  (forall y, cost n k (Jf s) (Yf s) y =
             cost n k (Jf s) (Yf s) z + Rsum n (fun r => Jx k (Jf s) (fun c => y c - z c) r * Jx k (Jf s) (fun c => y c - z c) r)) /\
  (forall y, cost n k (Jf s) (Yf s) z <= cost n k (Jf s) (Yf s) y) /\
  (forall y, cost n k (Jf s) (Yf s) y = cost n k (Jf s) (Yf s) z -> forall i, (i < k)%nat -> y i = z i).
Proof.
  intros Hc He n k z. apply chol_result in He. destruct He as (Hok & -> & _).
  pose proof (inv_contract_nM s _ Hc) as Hinv.
  split; [|split; [|split; [|split]]].
  - intros i Hi. now rewrite ls_apply_get.
  - intros i Hi. now apply normal_equations.
  - intros y. now apply pythagoras.
  - intros y. now apply minimiser.
  - intros y. now apply unique_minimiser.
Qed.

End Chol.

(* ---- the SVD path: under the SVD contract, with every singular value above the threshold, the
        "pseudo-inverse" V diag(1/sigma) U^T is a right inverse of the normal matrix ---- *)
Lemma svd_pinv_get k thr U sg V l j : (l < k)%nat -> (j < k)%nat ->
  mget ROps (svd_pinv ROps k thr (U, sg, V)) l j =
  Rsum k (fun b => mget ROps V l b * svd_inv_diag ROps thr sg b * mget ROps U j b).
Proof.
  intros Hl Hj. unfold svd_pinv, mmul, mtrans. rewrite mget_mtab by assumption. unfold fmmul. rsimpl.
  apply Rsum_ext. intros b Hb. rewrite !mget_mtab by assumption. unfold ftr. f_equal.
  unfold fmmul. rsimpl.
  rewrite (Rsum_ext k _ (fun a => (mget ROps V l a * svd_inv_diag ROps thr sg a) * delta a b)).
  - now rewrite Rsum_delta_r.
  - intros a Ha. rewrite mget_mtab by assumption. unfold fdiag, delta. rsimpl. destruct (Nat.eqb a b); lra.
Qed.

Lemma svd_inv_diag_inverts thr sg a : thr < vget ROps sg a -> 0 <= thr ->
  vget ROps sg a * svd_inv_diag ROps thr sg a = 1.
Proof.
  intros H H0. unfold svd_inv_diag. rsimpl.
  assert (E : Rltb thr (vget ROps sg a) = true) by (apply Rltb_true; exact H).
  rewrite E. field. lra.
Qed.

Lemma svd_pinv_contract k M U sg V thr :
  svd_contract k M (U, sg, V) -> 0 <= thr -> (forall a, (a < k)%nat -> thr < vget ROps sg a) ->
  inv_contract k M (svd_pinv ROps k thr (U, sg, V)).
Proof.
  intros (HM & _ & HUUt & HVtV & _ & _ & _) Hthr Habove i j Hi Hj.
  set (d := svd_inv_diag ROps thr sg).
  set (al := fun a => mget ROps U i a * vget ROps sg a).
  set (be := fun b => d b * mget ROps U j b).
  transitivity (Rsum k (fun l => Rsum k (fun a => Rsum k (fun b => (al a * be b) * (mget ROps V l a * mget ROps V l b))))).
  { apply Rsum_ext. intros l Hl. rewrite HM by assumption. rewrite svd_pinv_get by assumption.
    rewrite <- Rsum_scal_r. apply Rsum_ext. intros a Ha. rewrite <- Rsum_scal_l. apply Rsum_ext. intros b Hb.
    unfold al, be, d. ring. }
  rewrite Rsum_swap.
  transitivity (Rsum k (fun a => al a * be a)).
  { apply Rsum_ext. intros a Ha. rewrite Rsum_swap.
    rewrite (Rsum_ext k _ (fun b => (al a * be b) * delta a b)).
    - now rewrite Rsum_delta_r'.
    - intros b Hb. rewrite Rsum_scal_l. now rewrite HVtV. }
  rewrite <- (HUUt i j Hi Hj). apply Rsum_ext. intros a Ha. unfold al, be, d.
  transitivity (mget ROps U i a * (vget ROps sg a * svd_inv_diag ROps thr sg a) * mget ROps U j a); [ring|].
  rewrite svd_inv_diag_inverts by auto. ring.
Qed.

Section Svd.
Variable inverse_of : nat -> list (list R) -> list (list R).
Variable svd_of : nat -> list (list R) -> (list (list R) * list R) * list (list R).

Definition svd_thr (s : ls_state (T:=R)) : R :=
  nepsilon ROps * vget ROps (snd (fst (svd_of (ls_k s) (ls_JtJ ROps s)))) 0.

Lemma svd_result s st x : ls_estimate_svd ROps svd_of s = Some (st, x) ->
  ls_est_ok s = true /\
  x = ls_apply ROps s (svd_pinv ROps (ls_k s) (svd_thr s) (svd_of (ls_k s) (ls_JtJ ROps s))).
Proof.
  unfold ls_estimate_svd. destruct (ls_est_ok s); [|discriminate]. intros H. inversion H. auto.
Qed.

(* all singular values above the relative threshold epsilon * sigma_0 (true whenever cond(J^T J) < 1/epsilon) *)
Definition svd_all_above (s : ls_state (T:=R)) : Prop :=
  forall a, (a < ls_k s)%nat -> svd_thr s < vget ROps (snd (fst (svd_of (ls_k s) (ls_JtJ ROps s)))) a.

Lemma eps_pos : 0 < nepsilon ROps.
Proof. unfold nepsilon, ROps. apply powerRZ_lt. lra. Qed.

Lemma svd_pinv_is_inverse s :
  svd_contract (ls_k s) (ls_JtJ ROps s) (svd_of (ls_k s) (ls_JtJ ROps s)) -> svd_all_above s ->
  inv_contract (ls_k s) (ls_JtJ ROps s) (svd_pinv ROps (ls_k s) (svd_thr s) (svd_of (ls_k s) (ls_JtJ ROps s))).
Proof.
  intros Hc Hab. unfold svd_all_above, svd_thr in *.
  destruct (svd_of (ls_k s) (ls_JtJ ROps s)) as [[U sg] V] eqn:E. cbn [fst snd] in *.
  destruct (Nat.eq_dec (ls_k s) 0) as [Hk0|Hk0].
  { intros i j Hi. lia. }
  apply svd_pinv_contract; [exact Hc| |exact Hab].
  destruct Hc as (_ & _ & _ & _ & _ & Hnn & _).
  pose proof eps_pos. assert (0 <= vget ROps sg 0) by (apply Hnn; lia). nra.
Qed.

Theorem ls_svd_correct s st x :
  svd_contract (ls_k s) (ls_JtJ ROps s) (svd_of (ls_k s) (ls_JtJ ROps s)) -> svd_all_above s ->
  ls_estimate_svd ROps svd_of s = Some (st, x) ->
  let n := ls_n s in let k := ls_k s in
  let z := ls_z s (svd_pinv ROps k (svd_thr s) (svd_of k (ls_JtJ ROps s))) in
  (forall i, (i < k)%nat -> vget ROps x i = Rsum k (fun l => Af s i l * z l) + bf s i) /\
  (forall i, (i < k)%nat -> grad n k (Jf s) (Yf s) z i = 0) /\
  (forall y, cost n k (Jf s) (Yf s) z <= cost n k (Jf s) (Yf s) y) /\
  (forall y, cost n k (Jf s) (Yf s) y = cost n k (Jf s) (Yf s) z -> forall i, (i < k)%nat -> y i = z i).
Proof.
  intros Hc Hab He n k z. apply svd_result in He. destruct He as (Hok & ->).
  pose proof (inv_contract_nM s _ (svd_pinv_is_inverse s Hc Hab)) as Hinv.
  split; [|split; [|split]].
  - intros i Hi. now rewrite ls_apply_get.
  - intros i Hi. now apply normal_equations.
  - intros y. now apply minimiser.
  - intros y. now apply unique_minimiser.
Qed.

(* Cholesky path = SVD path when both oracles meet their contracts *)
Theorem ls_chol_eq_svd s st1 x1 st2 x2 :
  inv_contract (ls_k s) (ls_JtJ ROps s) (inverse_of (ls_k s) (ls_JtJ ROps s)) ->
  svd_contract (ls_k s) (ls_JtJ ROps s) (svd_of (ls_k s) (ls_JtJ ROps s)) -> svd_all_above s ->
  ls_estimate_chol ROps inverse_of s = Some (st1, x1) ->
  ls_estimate_svd ROps svd_of s = Some (st2, x2) ->
  forall i, (i < ls_k s)%nat -> vget ROps x1 i = vget ROps x2 i.
Proof.
  intros Hc Hs Hab E1 E2 i Hi.
  apply chol_result in E1. destruct E1 as (_ & -> & _).
  apply svd_result in E2. destruct E2 as (_ & ->).
  rewrite !ls_apply_get by exact Hi. f_equal. apply Rsum_ext. intros l Hl. f_equal.
  pose proof (inv_contract_nM s _ Hc) as H1.
  pose proof (inv_contract_nM s _ (svd_pinv_is_inverse s Hs Hab)) as H2.
  change (x0 (ls_n s) (ls_k s) (Jf s) (Yf s) (mget ROps (inverse_of (ls_k s) (ls_JtJ ROps s))) l =
          x0 (ls_n s) (ls_k s) (Jf s) (Yf s) (mget ROps (svd_pinv ROps (ls_k s) (svd_thr s) (svd_of (ls_k s) (ls_JtJ ROps s)))) l).
  symmetry. apply (normal_solution_unique (ls_n s) (ls_k s) (Jf s) (Yf s) _ H1); [|exact Hl].
  intros a Ha. now apply normal_system.
Qed.

End Svd.

(* ---- the original SVD path (absolute test sigma > epsilon) does not solve a tiny-scale problem ---- *)
From Interval Require Import Tactic.

Lemma eps_lt1 : nepsilon ROps < 1.
Proof. unfold nepsilon, ROps. interval. Qed.

Definition wit_a : R := nepsilon ROps.
(* estimate size 1, data size 1, J = [eps], Y = [eps]: full rank, condition number 1, exact solution x = 1 *)
Definition wit_state : ls_state (T:=R) := mk_ls 1 1 [[1]] [0] 1 [[wit_a]] [wit_a] [1] [[0]].
(* an SVD of a 1x1 non-negative matrix: U = V = [1], sigma = the entry *)
Definition wit_svd (k : nat) (M : list (list R)) : (list (list R) * list R) * list (list R) :=
  (([[1]], [mget ROps M 0 0]), [[1]]).

Lemma wit_JtJ : ls_JtJ ROps wit_state = [[0 + wit_a * wit_a]].
Proof. reflexivity. Qed.

Lemma wit_svd_contract : svd_contract 1 (ls_JtJ ROps wit_state) (wit_svd 1 (ls_JtJ ROps wit_state)).
Proof.
  rewrite wit_JtJ. unfold wit_svd, svd_contract.
  pose proof eps_pos. unfold wit_a.
  repeat split; intros;
    repeat match goal with
           | i : nat |- _ => destruct i as [|i]; [|try lia]
           end; try lia; cbn; unfold delta; cbn; try lra; try nra.
Qed.

Lemma wit_refuted :
  exists st x, ls_estimate_svd_abs ROps wit_svd wit_state = Some (st, x) /\
               vget ROps x 0 = (wit_a * wit_a) * (wit_a * wit_a) /\
               grad 1 1 (Jf wit_state) (Yf wit_state) (vget ROps x) 0 <> 0.
Proof.
  pose proof eps_pos as Hp. pose proof eps_lt1 as Hl. fold wit_a in Hp, Hl.
  assert (Hnot : Rltb wit_a (0 + wit_a * wit_a) = false).
  { apply Rltb_false. nra. }
  set (x := ls_apply ROps wit_state (svd_pinv ROps 1 (nepsilon ROps) (wit_svd 1 (ls_JtJ ROps wit_state)))).
  exists (ls_with_inv wit_state (svd_pinv ROps 1 (nepsilon ROps) (wit_svd 1 (ls_JtJ ROps wit_state)))), x.
  split; [reflexivity|].
  assert (Hx : vget ROps x 0 = (wit_a * wit_a) * (wit_a * wit_a)).
  { subst x. cbn. unfold svd_inv_diag, vget. cbn. change (/ 2 ^ Pos.to_nat 52) with wit_a. rewrite Hnot. lra. }
  clearbody x.
  split; [exact Hx|].
  unfold grad, Jx. cbn [sumn]. rewrite Hx. rsimpl. unfold Jf, Yf, mget, vget. cbn. change (/ 2 ^ Pos.to_nat 52) with wit_a.
  assert (H1 : wit_a * wit_a < 1) by nra. assert (H0 : 0 < wit_a * wit_a) by nra.
  assert (H2 : wit_a * wit_a * (wit_a * wit_a) < 1) by nra.
  assert (H3 : wit_a * (0 + wit_a * (wit_a * wit_a * (wit_a * wit_a)) - wit_a) = (wit_a * wit_a) * (wit_a * wit_a * (wit_a * wit_a) - 1)) by ring.
  intros H. rewrite Rplus_0_l in H. rewrite H3 in H. nra.
Qed.
