(* ConcModel.v — serial specifications of the shared-variable classes (C19), executable.
   include/romea_core_common/concurrency/{SharedVariable,SharedOptionalVariable}.hpp *)
From Coq Require Import List ZArith.
Import ListNotations.

Section Serial.
Context {V : Type}.

(* SharedVariable<T>: store / load *)
Inductive svop := SvStore (v : V) | SvLoad.
Definition sv_step (s : V) (o : svop) : V * option V :=
  match o with SvStore v => (v, None) | SvLoad => (s, Some s) end.
Fixpoint sv_run (s : V) (ops : list svop) : list (option V) :=
  match ops with [] => [] | o :: r => let '(s', out) := sv_step s o in out :: sv_run s' r end.

(* SharedOptionalVariable<T>: store / consume (consume hands the value over and empties the slot) *)
Inductive soop := SoStore (v : V) | SoConsume.
Definition so_step (s : option V) (o : soop) : option V * option (option V) :=
  match o with SoStore v => (Some v, None) | SoConsume => (None, Some s) end.
Fixpoint so_run (s : option V) (ops : list soop) : list (option (option V)) :=
  match ops with [] => [] | o :: r => let '(s', out) := so_step s o in out :: so_run s' r end.
End Serial.
