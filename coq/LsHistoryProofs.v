(* LsHistoryProofs.v — history independence of the LeastSquares state machine (LsModel.v), for EVERY numeric
   dictionary (so it also holds, bit for bit, for the float instances of the model).
   1. [ls_wf] is an invariant of every op sequence.
   2. The estimate ops read only the "problem" (sizes, A, b, first dataSize rows of J/Y/W).
   3. Loading a problem (setDataSize n, rows 0..n-1, preconditioner) from ANY reachable state yields the same
      problem, hence the same estimate as on a fresh solver. *)
From Coq Require Import List Arith Lia Bool.
From Romea Require Import Num LinAlgBModel LinAlgBProofs LsModel.
Import ListNotations.

(* ---- set_nth ---- *)
Lemma set_nth_0 {A} (x a : A) l : set_nth 0 x (a :: l) = x :: l.
Proof. reflexivity. Qed.
Lemma set_nth_S {A} i (x a : A) l : set_nth (S i) x (a :: l) = a :: set_nth i x l.
Proof. reflexivity. Qed.
Lemma set_nth_nil {A} i (x : A) : set_nth i x [] = [].
Proof. unfold set_nth. destruct i; reflexivity. Qed.

Lemma length_set_nth {A} i (x : A) l : length (set_nth i x l) = length l.
Proof.
  revert i. induction l as [|a l IH]; intros i; [now rewrite set_nth_nil|].
  destruct i; [reflexivity|]. rewrite set_nth_S. cbn. now rewrite IH.
Qed.

Lemma nth_set_nth_eq {A} i (x d : A) l : (i < length l)%nat -> nth i (set_nth i x l) d = x.
Proof.
  revert i. induction l as [|a l IH]; intros i H; [cbn in H; lia|].
  destruct i; [reflexivity|]. rewrite set_nth_S. cbn. apply IH. cbn in H. lia.
Qed.

Lemma nth_set_nth_neq {A} i j (x d : A) l : i <> j -> nth j (set_nth i x l) d = nth j l d.
Proof.
  revert i j. induction l as [|a l IH]; intros i j H; [now rewrite set_nth_nil|].
  destruct i, j; try reflexivity; try lia. rewrite set_nth_S. cbn. apply IH. lia.
Qed.

Lemma Forall_set_nth {A} (P : A -> Prop) i x l : Forall P l -> P x -> Forall P (set_nth i x l).
Proof.
  revert i. induction l as [|a l IH]; intros i Hl Hx; [now rewrite set_nth_nil|].
  inversion Hl; subst. destruct i; [now constructor|]. rewrite set_nth_S. constructor; auto.
Qed.

(* nth of an indexed map *)
Lemma nth_map_indexed {A B} (f : nat * A -> B) (l : list A) i (da : A) (db : B) : (i < length l)%nat ->
  nth i (map f (combine (seq 0 (length l)) l)) db = f (i, nth i l da).
Proof.
  intros H.
  assert (G : forall (l : list A) a i, (i < length l)%nat ->
             nth i (map f (combine (seq a (length l)) l)) db = f ((a + i)%nat, nth i l da)).
  { clear. induction l as [|x l IH]; intros a i H; [cbn in H; lia|].
    cbn [length seq combine map]. destruct i.
    - cbn. now rewrite Nat.add_0_r.
    - cbn [nth]. rewrite IH by (cbn in H; lia). f_equal. f_equal. lia. }
  now rewrite G.
Qed.

Lemma Forall_mtab {T} n m (f : nat -> nat -> T) : Forall (fun r => length r = m) (mtab n m f).
Proof.
  unfold mtab. apply Forall_forall. intros r Hr. unfold tab at 1 in Hr. apply in_map_iff in Hr.
  destruct Hr as (i & <- & _). apply length_tab.
Qed.

Section History.
Context {T : Type} (N : NumOps T).
Variable inverse_of : nat -> list (list T) -> list (list T).
Variable svd_of : nat -> list (list T) -> (list (list T) * list T) * list (list T).
Variable fill : T.
Variable svd_fixed : bool.

Local Notation step := (ls_step N inverse_of svd_of fill svd_fixed).
Local Notation run := (ls_run N inverse_of svd_of fill svd_fixed).

(* ---------------- 1. the shape invariant ---------------- *)
Definition ls_wf (s : ls_state (T:=T)) : Prop :=
  length (ls_J s) = length (ls_Y s) /\ length (ls_W s) = length (ls_Y s) /\
  (ls_n s <= length (ls_Y s))%nat /\ Forall (fun r => length r = ls_jcols s) (ls_J s).

Lemma wf_new0 : ls_wf ls_new0.
Proof. repeat split; cbn; auto. Qed.
Lemma wf_new1 k : ls_wf (ls_new1 N k).
Proof. repeat split; cbn; auto. Qed.
Lemma wf_new2 k n : ls_wf (ls_new2 N k n).
Proof.
  unfold ls_new2, ls_wf; cbn. unfold mzero, vzero. rewrite length_mtab, !length_tab. repeat split; auto.
  apply Forall_mtab.
Qed.

Lemma wf_weight s : ls_wf s -> ls_wf (ls_weight N s).
Proof.
  intros (HJ & HW & Hn & HF). unfold ls_weight, ls_wf; cbn.
  rewrite !map_length, !combine_length, !seq_length, !Nat.min_id. repeat split; auto.
  apply Forall_forall. intros r Hr. apply in_map_iff in Hr. destruct Hr as ([i r0] & <- & Hin).
  apply in_combine_r in Hin. rewrite Forall_forall in HF. specialize (HF r0 Hin).
  cbv beta iota. match goal with |- context [if ?c then _ else _] => destruct c end; [now rewrite map_length|assumption].
Qed.

Lemma wf_with_inv s inv : ls_wf s -> ls_wf (ls_with_inv s inv).
Proof. intros H. exact H. Qed.

Lemma chol_state s st x : ls_estimate_chol N inverse_of s = Some (st, x) -> exists inv, st = ls_with_inv s inv.
Proof. unfold ls_estimate_chol. destruct (ls_est_ok s); [|discriminate]. intros H; inversion H; eauto. Qed.

Lemma step_wf s o s' out : ls_wf s -> step s o = Some (s', out) -> ls_wf s'.
Proof.
  intros Hwf. pose proof Hwf as (HJ & HW & Hn & HF). destruct o; cbn [ls_step].
  - intros H; inversion H; subst. exact Hwf.
  - unfold ls_set_data_size. destruct (Nat.ltb (length (ls_Y s)) n) eqn:E; intros H; inversion H; subst; clear H.
    + unfold ls_wf; cbn. rewrite length_mtab, !length_tab. repeat split; auto.
      apply Forall_mtab.
    + apply Nat.ltb_ge in E. unfold ls_wf; cbn. repeat split; auto.
  - unfold ls_set_row. destruct (ls_row_ok i row s) eqn:E; [|discriminate]. intros H; inversion H; subst; clear H.
    unfold ls_row_ok in E. apply andb_true_iff in E. destruct E as [E1 E2]. apply Nat.eqb_eq in E2.
    unfold ls_wf; cbn. rewrite !length_set_nth. repeat split; auto. now apply Forall_set_nth.
  - intros H; inversion H; subst. exact Hwf.
  - intros H; inversion H; subst. exact Hwf.
  - destruct (ls_estimate_chol N inverse_of s) as [[st x]|] eqn:E; [|discriminate].
    intros H; inversion H; subst. apply chol_state in E. destruct E as (inv & ->). exact Hwf.
  - destruct svd_fixed.
    + unfold ls_estimate_svd. destruct (ls_est_ok s); [|discriminate]. intros H; inversion H; subst. exact Hwf.
    + unfold ls_estimate_svd_abs. destruct (ls_est_ok s); [|discriminate]. intros H; inversion H; subst. exact Hwf.
  - unfold ls_weighted_estimate. destruct (ls_est_ok s); [|discriminate].
    destruct (ls_estimate_chol N inverse_of (ls_weight N s)) as [[st x]|] eqn:E; [|discriminate].
    intros H; inversion H; subst. apply chol_state in E. destruct E as (inv & ->). now apply wf_weight.
  - intros H; inversion H; subst. exact Hwf.
Qed.

Theorem run_wf ops : forall s s' outs, ls_wf s -> run ops s = Some (s', outs) -> ls_wf s'.
Proof.
  induction ops as [|o r IH]; intros s s' outs Hwf H; cbn [ls_run] in H.
  - inversion H; subst; exact Hwf.
  - destruct (step s o) as [[s1 out]|] eqn:E; [|discriminate].
    destruct (run r s1) as [[s2 outs2]|] eqn:E2; [|discriminate]. inversion H; subst.
    eapply IH; [|exact E2]. eapply step_wf; eauto.
Qed.

Lemma run_app ops1 : forall ops2 s, run (ops1 ++ ops2) s =
  match run ops1 s with
  | None => None
  | Some (s1, o1) => match run ops2 s1 with None => None | Some (s2, o2) => Some (s2, o1 ++ o2) end
  end.
Proof.
  induction ops1 as [|o r IH]; intros ops2 s; cbn [app ls_run].
  - destruct (run ops2 s) as [[s2 o2]|]; reflexivity.
  - destruct (step s o) as [[s1 out]|]; [|reflexivity]. rewrite IH.
    destruct (run r s1) as [[s2 o2]|]; [|reflexivity].
    destruct (run ops2 s2) as [[s3 o3]|]; reflexivity.
Qed.

(* ---------------- 2. the estimate ops read only the problem ---------------- *)
Definition same_problem (s1 s2 : ls_state (T:=T)) : Prop :=
  ls_n s1 = ls_n s2 /\ ls_k s1 = ls_k s2 /\ ls_A s1 = ls_A s2 /\ ls_b s1 = ls_b s2 /\
  forall r, (r < ls_n s1)%nat ->
    nth r (ls_J s1) [] = nth r (ls_J s2) [] /\ nth r (ls_Y s1) (nzero N) = nth r (ls_Y s2) (nzero N) /\
    nth r (ls_W s1) (nzero N) = nth r (ls_W s2) (nzero N).

Lemma same_JtJ s1 s2 : same_problem s1 s2 -> ls_JtJ N s1 = ls_JtJ N s2.
Proof.
  intros (Hn & Hk & _ & _ & Hr). unfold ls_JtJ. rewrite <- Hk, <- Hn. apply mtab_ext. intros i j _ _.
  apply sumn_ext. intros r Hlt. unfold mget. destruct (Hr r Hlt) as (-> & _). reflexivity.
Qed.

Lemma same_JtY s1 s2 : same_problem s1 s2 -> ls_JtY N s1 = ls_JtY N s2.
Proof.
  intros (Hn & Hk & _ & _ & Hr). unfold ls_JtY. rewrite <- Hk, <- Hn. apply tab_ext. intros i _.
  apply sumn_ext. intros r Hlt. unfold mget, vget. destruct (Hr r Hlt) as (-> & -> & _). reflexivity.
Qed.

Lemma same_apply s1 s2 inv : same_problem s1 s2 -> ls_apply N s1 inv = ls_apply N s2 inv.
Proof.
  intros H. pose proof (same_JtY _ _ H) as E. destruct H as (_ & Hk & HA & Hb & _).
  unfold ls_apply. now rewrite E, Hk, HA, Hb.
Qed.

Definition out_of (r : option (ls_state (T:=T) * list T)) : option (list T) :=
  match r with Some (_, x) => Some x | None => None end.

Lemma same_chol s1 s2 : same_problem s1 s2 -> ls_est_ok s1 = ls_est_ok s2 ->
  out_of (ls_estimate_chol N inverse_of s1) = out_of (ls_estimate_chol N inverse_of s2).
Proof.
  intros H Hok. unfold ls_estimate_chol. rewrite <- Hok. destruct (ls_est_ok s1); [|reflexivity]. cbn.
  rewrite (same_JtJ _ _ H), (same_apply _ _ _ H). destruct H as (_ & -> & _). reflexivity.
Qed.

Lemma same_svd s1 s2 : same_problem s1 s2 -> ls_est_ok s1 = ls_est_ok s2 ->
  out_of (ls_estimate_svd N svd_of s1) = out_of (ls_estimate_svd N svd_of s2) /\
  out_of (ls_estimate_svd_abs N svd_of s1) = out_of (ls_estimate_svd_abs N svd_of s2).
Proof.
  intros H Hok. unfold ls_estimate_svd, ls_estimate_svd_abs. rewrite <- Hok. destruct (ls_est_ok s1); [|split; reflexivity]. cbn.
  rewrite (same_JtJ _ _ H). pose proof (fun inv => same_apply s1 s2 inv H) as E. destruct H as (Hn & Hk & HA & Hb & Hr).
  rewrite <- Hk. split; f_equal; apply E.
Qed.

Lemma same_weight s1 s2 : ls_wf s1 -> ls_wf s2 -> same_problem s1 s2 -> same_problem (ls_weight N s1) (ls_weight N s2).
Proof.
  intros (HJ1 & HW1 & Hn1 & _) (HJ2 & HW2 & Hn2 & _) (Hn & Hk & HA & Hb & Hr).
  unfold same_problem, ls_weight; cbn [ls_n ls_k ls_A ls_b ls_J ls_Y ls_W]. repeat split; auto; destruct (Hr r H) as (E1 & E2 & E3).
  - rewrite (nth_map_indexed _ (ls_J s1) r []) by lia. rewrite (nth_map_indexed _ (ls_J s2) r []) by lia.
    cbv beta iota. rewrite <- Hn. apply Nat.ltb_lt in H. rewrite H. unfold vget. now rewrite E1, E3.
  - rewrite (nth_map_indexed _ (ls_Y s1) r (nzero N)) by lia. rewrite (nth_map_indexed _ (ls_Y s2) r (nzero N)) by lia.
    cbv beta iota. rewrite <- Hn. apply Nat.ltb_lt in H. rewrite H. unfold vget. now rewrite E2, E3.
  - exact E3.
Qed.

Lemma est_ok_weight s : ls_wf s -> ls_est_ok (ls_weight N s) = ls_est_ok s.
Proof.
  intros _. unfold ls_est_ok, ls_weight; cbn. now rewrite map_length, combine_length, seq_length, Nat.min_id.
Qed.

Lemma same_weighted s1 s2 : ls_wf s1 -> ls_wf s2 -> same_problem s1 s2 -> ls_est_ok s1 = ls_est_ok s2 ->
  out_of (ls_weighted_estimate N inverse_of s1) = out_of (ls_weighted_estimate N inverse_of s2).
Proof.
  intros W1 W2 H Hok. unfold ls_weighted_estimate. rewrite <- Hok. destruct (ls_est_ok s1) eqn:E; [|reflexivity].
  apply same_chol; [now apply same_weight|]. rewrite !est_ok_weight by assumption. congruence.
Qed.

(* ---------------- 3. loading a problem erases the history ---------------- *)
Local Notation row_ops := (row_ops N).
Local Notation load_ops := (load_ops N).

Lemma run_row_ops rows ys ws m : forall a s,
  ls_wf s -> (a + m <= length (ls_Y s))%nat ->
  (forall i, (a <= i < a + m)%nat -> length (nth i rows []) = ls_jcols s) ->
  exists s' outs, run (row_ops rows ys ws a m) s = Some (s', outs) /\
    ls_wf s' /\ ls_n s' = ls_n s /\ ls_k s' = ls_k s /\ ls_A s' = ls_A s /\ ls_b s' = ls_b s /\
    ls_jcols s' = ls_jcols s /\ length (ls_Y s') = length (ls_Y s) /\
    (forall i, (a <= i < a + m)%nat ->
       nth i (ls_J s') [] = nth i rows [] /\ nth i (ls_Y s') (nzero N) = nth i ys (nzero N) /\
       nth i (ls_W s') (nzero N) = nth i ws (nzero N)) /\
    (forall i, (i < a)%nat ->
       nth i (ls_J s') [] = nth i (ls_J s) [] /\ nth i (ls_Y s') (nzero N) = nth i (ls_Y s) (nzero N) /\
       nth i (ls_W s') (nzero N) = nth i (ls_W s) (nzero N)).
Proof.
  induction m as [|m IH]; intros a s Hwf Hlen Hrows.
  - exists s, []. split; [reflexivity|]. split; [exact Hwf|]. repeat split; auto; exfalso; lia.
  - unfold row_ops. cbn [seq map ls_run ls_step].
    assert (Hok : ls_row_ok a (nth a rows []) s = true).
    { unfold ls_row_ok. apply andb_true_iff. split; [apply Nat.ltb_lt; lia|apply Nat.eqb_eq; apply Hrows; lia]. }
    unfold ls_set_row. rewrite Hok.
    set (s1 := mk_ls (ls_n s) (ls_k s) (ls_A s) (ls_b s) (ls_jcols s) (set_nth a (nth a rows []) (ls_J s))
                     (set_nth a (nth a ys (nzero N)) (ls_Y s)) (set_nth a (nth a ws (nzero N)) (ls_W s)) (ls_inv s)).
    assert (Hwf1 : ls_wf s1).
    { eapply (step_wf s (OpSetRow a (nth a rows []) (nth a ys (nzero N)) (nth a ws (nzero N)))); [exact Hwf|].
      cbn [ls_step]. unfold ls_set_row. rewrite Hok. reflexivity. }
    destruct Hwf as (HJ & HW & Hn & HF).
    destruct (IH (S a) s1 Hwf1) as (s' & outs & Hrun & Hwf' & E1 & E2 & E3 & E4 & E5 & E6 & Hin & Hout).
    { subst s1; cbn. rewrite length_set_nth. lia. }
    { intros i Hi. subst s1; cbn. apply Hrows. lia. }
    fold (row_ops rows ys ws (S a) m). rewrite Hrun.
    exists s', (OutNone :: outs). split; [reflexivity|].
    subst s1; cbn in *. rewrite length_set_nth in E6.
    repeat (split; [solve [auto|congruence|lia]|]).
    split; intros i Hi.
    + destruct (Nat.eq_dec i a) as [->|Hne].
      * destruct (Hout a) as (-> & -> & ->); [lia|]. repeat split; apply nth_set_nth_eq; lia.
      * destruct (Hin i) as (-> & -> & ->); [lia|]. auto.
    + destruct (Hout i) as (-> & -> & ->); [lia|]. repeat split; apply nth_set_nth_neq; lia.
Qed.

(* a state is ready for problems of estimate size k: either J_ already has k columns or nothing was allocated yet *)
Definition ready (k : nat) (s : ls_state (T:=T)) : Prop :=
  ls_wf s /\ ls_k s = k /\ (ls_jcols s = k \/ length (ls_Y s) = 0%nat).

Lemma run_load k n rows ys ws s : ready k s -> (1 <= n)%nat ->
  (forall i, (i < n)%nat -> length (nth i rows []) = k) ->
  exists s' outs, run (load_ops n rows ys ws) s = Some (s', outs) /\
    ls_wf s' /\ ls_n s' = n /\ ls_k s' = k /\ ls_A s' = ls_A s /\ ls_b s' = ls_b s /\ ls_est_ok s' = true /\
    (forall i, (i < n)%nat ->
       nth i (ls_J s') [] = nth i rows [] /\ nth i (ls_Y s') (nzero N) = nth i ys (nzero N) /\
       nth i (ls_W s') (nzero N) = nth i ws (nzero N)).
Proof.
  intros (Hwf & Hk & Hj) Hn Hrows. unfold load_ops. cbn [ls_run ls_step].
  destruct (ls_set_data_size N fill n s) as [s1 f] eqn:E.
  assert (H1 : ls_wf s1 /\ ls_n s1 = n /\ ls_k s1 = k /\ ls_A s1 = ls_A s /\ ls_b s1 = ls_b s /\ ls_jcols s1 = k /\
               (n <= length (ls_Y s1))%nat).
  { assert (Hs : step s (OpSetDataSize n) = Some (s1, OutFlag f)) by (cbn [ls_step]; now rewrite E).
    pose proof (step_wf _ _ _ _ Hwf Hs) as Hwf1.
    unfold ls_set_data_size in E. destruct (Nat.ltb (length (ls_Y s)) n) eqn:El; inversion E; subst;
      (split; [exact Hwf1|]); cbn [ls_n ls_k ls_A ls_b ls_jcols ls_Y].
    - rewrite length_tab. repeat split; auto.
    - apply Nat.ltb_ge in El. repeat split; auto. destruct Hj as [Hj|Hj]; [exact Hj|lia]. }
  destruct H1 as (Hwf1 & En & Ek & EA & Eb & Ej & El).
  destruct (run_row_ops rows ys ws n 0 s1 Hwf1) as (s' & outs & Hrun & Hwf' & F1 & F2 & F3 & F4 & F5 & F6 & Hin & _).
  { cbn. lia. }
  { intros i Hi. rewrite Ej. apply Hrows. lia. }
  rewrite Hrun. exists s', (OutFlag f :: outs). split; [reflexivity|].
  split; [exact Hwf'|]. repeat (split; [congruence|]). split.
  - unfold ls_est_ok. apply andb_true_iff. split; [apply Nat.eqb_eq; congruence|apply Nat.leb_le; lia].
  - intros i Hi. apply Hin. lia.
Qed.

(* reachable states stay ready as long as the estimate size is not changed *)
Definition keeps_estimate_size (o : ls_op (T:=T)) : bool :=
  match o with OpSetEstimateSize _ => false | _ => true end.

Lemma step_ready k s o s' out : ready k s -> keeps_estimate_size o = true -> step s o = Some (s', out) -> ready k s'.
Proof.
  intros (Hwf & Hk & Hj) Hkeep Hs. split; [eapply step_wf; eauto|].
  destruct o; cbn [ls_step keeps_estimate_size] in *; try discriminate.
  - unfold ls_set_data_size in Hs. destruct (Nat.ltb (length (ls_Y s)) n); inversion Hs; subst; cbn; auto.
  - unfold ls_set_row in Hs. destruct (ls_row_ok i row s) eqn:E; [|discriminate]. inversion Hs; subst; cbn.
    rewrite length_set_nth. auto.
  - inversion Hs; subst; cbn; auto.
  - inversion Hs; subst; cbn; auto.
  - destruct (ls_estimate_chol N inverse_of s) as [[st x]|] eqn:E; [|discriminate]. inversion Hs; subst.
    apply chol_state in E. destruct E as (inv & ->). cbn. auto.
  - destruct svd_fixed.
    + unfold ls_estimate_svd in Hs. destruct (ls_est_ok s); [|discriminate]. inversion Hs; subst. cbn. auto.
    + unfold ls_estimate_svd_abs in Hs. destruct (ls_est_ok s); [|discriminate]. inversion Hs; subst. cbn. auto.
  - unfold ls_weighted_estimate in Hs. destruct (ls_est_ok s); [|discriminate].
    destruct (ls_estimate_chol N inverse_of (ls_weight N s)) as [[st x]|] eqn:E; [|discriminate]. inversion Hs; subst.
    apply chol_state in E. destruct E as (inv & ->). cbn.
    rewrite map_length, combine_length, seq_length, Nat.min_id. auto.
  - inversion Hs; subst; auto.
Qed.

Lemma run_ready k ops : forall s s' outs, ready k s -> forallb keeps_estimate_size ops = true ->
  run ops s = Some (s', outs) -> ready k s'.
Proof.
  induction ops as [|o r IH]; intros s s' outs Hr Hall H; cbn [ls_run] in H.
  - inversion H; subst; exact Hr.
  - cbn in Hall. apply andb_true_iff in Hall. destruct Hall as [Ho Hall].
    destruct (step s o) as [[s1 out]|] eqn:E; [|discriminate].
    destruct (run r s1) as [[s2 outs2]|] eqn:E2; [|discriminate]. inversion H; subst.
    eapply IH; [|exact Hall|exact E2]. eapply step_ready; eauto.
Qed.

Lemma ready_new1 k : ready k (ls_new1 N k).
Proof. split; [apply wf_new1|]. cbn. auto. Qed.

(* the estimate of a problem loaded into two ready states is the same *)
Definition est_out (o : ls_op (T:=T)) (s : ls_state (T:=T)) : option (list T) :=
  match o with
  | OpEstimateChol => out_of (ls_estimate_chol N inverse_of s)
  | OpEstimateSVD => out_of (if svd_fixed then ls_estimate_svd N svd_of s else ls_estimate_svd_abs N svd_of s)
  | OpWeightedEstimate => out_of (ls_weighted_estimate N inverse_of s)
  | _ => None
  end.

Theorem load_then_estimate_history_free k n rows ys ws A b est s1 s2 :
  ready k s1 -> ready k s2 -> (1 <= n)%nat -> (forall i, (i < n)%nat -> length (nth i rows []) = k) ->
  exists t1 o1 t2 o2,
    run (load_ops n rows ys ws ++ [OpSetPrecond A b]) s1 = Some (t1, o1) /\
    run (load_ops n rows ys ws ++ [OpSetPrecond A b]) s2 = Some (t2, o2) /\
    est_out est t1 = est_out est t2.
Proof.
  intros R1 R2 Hn Hrows.
  destruct (run_load k n rows ys ws s1 R1 Hn Hrows) as (u1 & p1 & Hrun1 & W1 & N1 & K1 & _ & _ & Ok1 & D1).
  destruct (run_load k n rows ys ws s2 R2 Hn Hrows) as (u2 & p2 & Hrun2 & W2 & N2 & K2 & _ & _ & Ok2 & D2).
  rewrite !run_app, Hrun1, Hrun2. cbn [ls_run ls_step].
  do 4 eexists. split; [reflexivity|]. split; [reflexivity|].
  set (t1 := ls_set_precond A b u1). set (t2 := ls_set_precond A b u2).
  assert (SP : same_problem t1 t2).
  { subst t1 t2. unfold same_problem, ls_set_precond; cbn. repeat split; try congruence;
      destruct (D1 r) as (E1 & E2 & E3); try lia; destruct (D2 r) as (G1 & G2 & G3); try lia; congruence. }
  assert (OK : ls_est_ok t1 = ls_est_ok t2) by (subst t1 t2; unfold ls_est_ok, ls_set_precond in *; cbn; congruence).
  assert (WF1 : ls_wf t1) by exact W1. assert (WF2 : ls_wf t2) by exact W2.
  destruct est; cbn [est_out]; try reflexivity.
  - now apply same_chol.
  - destruct svd_fixed; now apply same_svd.
  - now apply same_weighted.
Qed.

(* headline: whatever was solved before with the object, a problem gives the estimate a fresh solver gives *)
Theorem history_independent k hist s outs n rows ys ws A b est :
  forallb keeps_estimate_size hist = true ->
  run hist (ls_new1 N k) = Some (s, outs) ->
  (1 <= n)%nat -> (forall i, (i < n)%nat -> length (nth i rows []) = k) ->
  exists t1 o1 t2 o2,
    run (load_ops n rows ys ws ++ [OpSetPrecond A b]) s = Some (t1, o1) /\
    run (load_ops n rows ys ws ++ [OpSetPrecond A b]) (ls_new1 N k) = Some (t2, o2) /\
    est_out est t1 = est_out est t2.
Proof.
  intros Hkeep Hrun Hn Hrows. apply (load_then_estimate_history_free k); auto.
  - eapply run_ready; [apply ready_new1|exact Hkeep|exact Hrun].
  - apply ready_new1.
Qed.

End History.
