(* WrapGridImp.v — a small deeply-embedded imperative language with a total interpreter (C15 source tie).
   translate/tr_C15_wrapgrid.py regenerates, from the clang AST of WrappableGrid.hpp / Grid.hpp, the bodies of
   translate / computeCellLinearIndex_ / operator() as VALUES of these types (coq/gen/SrcWrapGrid.v); SrcTieC15.v proves
   that running them yields exactly the states of WrapGridModel.

   Values are Z.  Every arithmetic node carries its C++ type:
     U64 (size_t, unsigned long): result reduced mod 2^64  (the wrap the property is about);
     I32 (int): a result outside [-2^31, 2^31) is signed overflow = undefined behaviour -> None (never totalised).
   `%` is C++ remainder (Z.rem, truncation toward zero); a zero divisor is None.
   A conversion to U64 is reduction mod 2^64 (usual arithmetic conversions); a conversion to I32 of a value outside the
   int range (implementation-defined before C++20) is None.
   Loops: SFor init cond step body count.  `count` is the closed-form trip count supplied by the translator for the loop
   shapes it recognises; the interpreter is structurally recursive on Z.to_nat of it (no fuel) and CHECKS the real loop
   condition before every pass (must hold) and after the last one (must fail): whenever the interpreter answers Some,
   the C++ loop ran exactly like that, whatever count the translator wrote; any disagreement is None. *)
From Coq Require Import ZArith List Bool Arith Lia.
From Romea Require Import WrapGridModel.
Import ListNotations.
Local Open Scope Z_scope.

Inductive ty := U64 | I32 | ZZ.   (* ZZ: unbounded integer — only in the trip counts written by the translator *)

(* variables: the translator resolves C++ references (size_t & xIndex = cellIndexes[0]; ...) to what they alias *)
Inductive var :=
| VIdx (i : nat)     (* the local CellIndexes vector (cellIndexes[i]) *)
| VArg (i : nat)     (* component i of the CellIndexes parameter of a called method *)
| VOff (i : nat)     (* this->indexOffsetsAlongAxes_[i] *)
| VN (i : nat)       (* this->numberOfCellsAlongAxes_[i] *)
| VNm1 (i : nat)     (* this->numberOfCellsAlongAxesMinusOne_[i] *)
| VCoef (i : nat)    (* this->indexCoefficients_[i] *)
| VPar (i : nat)     (* indexOffset[i]  (parameter of translate, int) *)
| VCnt (d : nat)     (* int loop counter declared in the for-init of the d-th enclosing such loop *)
| VLoc (k : nat).    (* other scalar local, numbered in declaration order *)

Definition var_eqb (a b : var) : bool :=
  match a, b with
  | VIdx i, VIdx j | VArg i, VArg j | VOff i, VOff j | VN i, VN j | VNm1 i, VNm1 j
  | VCoef i, VCoef j | VPar i, VPar j | VCnt i, VCnt j | VLoc i, VLoc j => Nat.eqb i j
  | _, _ => false
  end.

Inductive bop := Add | Sub | Mul | Rem | Lt | Gt.

Inductive expr :=
| ELit (z : Z)
| EVar (v : var)
| EBin (o : bop) (t : ty) (a b : expr)     (* t = type of the (converted) operands *)
| ECast (t : ty) (a : expr)
| ECall (body : expr) (args : list expr).  (* body evaluated with VArg i := value of args[i] *)

Inductive stmt :=
| SSkip
| SSeq (a b : stmt)
| SSet (v : var) (e : expr)
| SBufSet (ix : expr)                      (* this->buffer_[ix] = emptyValue *)
| SIf (c : expr) (a b : stmt)
| SFor (init : stmt) (cond : expr) (step body : stmt) (count : expr).

Definition two31 : Z := 2147483648.

Definition norm (t : ty) (z : Z) : option Z :=
  match t with
  | U64 => Some (z mod two64)
  | I32 => if (- two31 <=? z) && (z <? two31) then Some z else None
  | ZZ => Some z
  end.

Definition b2z (b : bool) : Z := if b then 1 else 0.

Definition binop (o : bop) (t : ty) (x y : Z) : option Z :=
  match o with
  | Add => norm t (x + y)
  | Sub => norm t (x - y)
  | Mul => norm t (x * y)
  | Rem => if y =? 0 then None else norm t (Z.rem x y)
  | Lt => Some (b2z (x <? y))
  | Gt => Some (b2z (y <? x))
  end.

Section Interp.
Context {V : Type}.

Record state := { s_var : var -> Z; s_buf : list V }.

Definition get (s : state) (v : var) : Z := s_var s v.
Definition set (s : state) (v : var) (z : Z) : state :=
  {| s_var := fun w => if var_eqb w v then z else s_var s w; s_buf := s_buf s |}.
Definition set_buf (s : state) (b : list V) : state := {| s_var := s_var s; s_buf := b |}.

Fixpoint set_args (s : state) (i : nat) (l : list Z) : state :=
  match l with
  | [] => s
  | z :: r => set_args (set s (VArg i) z) (S i) r
  end.

Fixpoint eval (e : expr) (s : state) {struct e} : option Z :=
  match e with
  | ELit z => Some z
  | EVar v => Some (get s v)
  | EBin o t a b =>
      match eval a s, eval b s with
      | Some x, Some y => binop o t x y
      | _, _ => None
      end
  | ECast t a => match eval a s with Some x => norm t x | None => None end
  | ECall body args =>
      match (fix evl (l : list expr) : option (list Z) :=
               match l with
               | [] => Some []
               | a :: r => match eval a s, evl r with Some x, Some xs => Some (x :: xs) | _, _ => None end
               end) args with
      | Some vs => eval body (set_args s 0 vs)
      | None => None
      end
  end.

Fixpoint iter_opt (n : nat) (f : state -> option state) (s : state) : option state :=
  match n with
  | O => Some s
  | S n' => match f s with Some s' => iter_opt n' f s' | None => None end
  end.

Definition bind (o : option state) (f : state -> option state) : option state :=
  match o with Some s => f s | None => None end.

(* cond must evaluate to want (true: non-zero) *)
Definition check (c : expr) (want : bool) (s : state) : option state :=
  match eval c s with
  | Some z => if Bool.eqb (negb (z =? 0)) want then Some s else None
  | None => None
  end.

Fixpoint exec (e : V) (p : stmt) (s : state) {struct p} : option state :=
  match p with
  | SSkip => Some s
  | SSeq a b => bind (exec e a s) (exec e b)
  | SSet v x => match eval x s with Some z => Some (set s v z) | None => None end
  | SBufSet ix =>
      match eval ix s with
      | Some p => if (0 <=? p) && (p <? Z.of_nat (length (s_buf s)))
                  then Some (set_buf s (set_nth (Z.to_nat p) e (s_buf s))) else None
      | None => None
      end
  | SIf c a b =>
      match eval c s with
      | Some z => if z =? 0 then exec e b s else exec e a s
      | None => None
      end
  | SFor init cond step body count =>
      bind (exec e init s) (fun s0 =>
        match eval count s0 with
        | Some n =>
            bind (iter_opt (Z.to_nat n)
                    (fun s1 => bind (check cond true s1) (fun s2 => bind (exec e body s2) (exec e step))) s0)
                 (check cond false)
        | None => None
        end)
  end.

End Interp.
Arguments state : clear implicits.
