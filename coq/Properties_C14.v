(* Properties_C14.v — C14: ray casting visits a connected, in-bounds chain of cells covering the segment. *)
From Coq Require Import Reals ZArith List Bool Arith Lia Lra.
From Romea Require Import Num NumR GridMapModel GridMapProofs RayCastModel RayCastProofs RayCastMerge RayCastSegment RayCastAssembly RayCastBounds.
From Romea Require Import SrcEigen SrcTieC14 SrcTieC14Cast.
From Romea.gen Require Import SrcRayCast.
Import ListNotations.

(* The walk of cast(), over exact arithmetic, for a 2D or 3D caster whose per-axis steps point from the origin
   index to the end index and whose needed crossing parameters stay below numeric_limits::max():
   - exactly (L1 distance between origin and end cells) + 1 cells,
   - it starts in the origin cell and ENDS IN THE END CELL,
   - consecutive cells are face-adjacent (one coordinate moves by +-1),
   - every visited cell lies in the index box spanned by the origin and end cells (hence inside the grid whenever
     both end points are: C13_index_in_bounds). *)
Theorem C14_cast_walk : forall (c : caster (T:=R)) d B, (d = 2 \/ d = 3) ->
  length (rc_oidx c) = d -> length (rc_eidx c) = d -> length (rc_tmax c) = d ->
  length (rc_step c) = d -> length (rc_tdelta c) = d ->
  (B < M)%R -> (forall i, i < d -> (0 <= nth i (rc_tdelta c) 0)%R) ->
  (forall i, i < d -> (nth i (rc_eidx c) 0 - nth i (rc_oidx c) 0 = nth i (rc_step c) 0 * Z.abs (nth i (rc_eidx c) 0 - nth i (rc_oidx c) 0))%Z) ->
  (forall i, i < d -> (0 < Z.abs (nth i (rc_eidx c) 0 - nth i (rc_oidx c) 0))%Z ->
     (nth i (rc_tmax c) 0 + IZR (Z.abs (nth i (rc_eidx c) 0 - nth i (rc_oidx c) 0)%Z) * nth i (rc_tdelta c) 0 <= B)%R) ->
  let cells := cast_cells ROps c in
  let l1 := RayCastProofs.sumf d (fun i => Z.abs (nth i (rc_eidx c) 0 - nth i (rc_oidx c) 0)%Z) in
  Z.of_nat (length cells) = (l1 + 1)%Z /\
  hd [] cells = rc_oidx c /\
  last cells [] = rc_eidx c /\
  chain d (rc_oidx c) (tl cells) /\
  Forall (fun cl => forall i, i < d ->
            (Z.min (nth i (rc_oidx c) 0) (nth i (rc_eidx c) 0) <= nth i cl 0 <= Z.max (nth i (rc_oidx c) 0) (nth i (rc_eidx c) 0))%Z) cells.
Proof. exact cast_walk. Qed.
Print Assumptions C14_cast_walk.

(* the choice made by next() never lands on an axis that already reached the end index while another has not *)
Theorem C14_choice_skips_finished_axes : forall d cell e tmax, (d = 2 \/ d = 3) ->
  length cell = d -> length e = d -> length tmax = d ->
  (forall i, i < d -> nth i cell 0%Z <> nth i e 0%Z -> (nth i tmax 0%R < M)%R) ->
  (exists j, j < d /\ nth j cell 0%Z <> nth j e 0%Z) ->
  let i := pick ROps (eff_tmax ROps cell e tmax) in
  i < d /\ nth i cell 0%Z <> nth i e 0%Z.
Proof. exact pick_not_exhausted. Qed.

(* premises of C14_cast_walk, per axis, for the state that setEndPoint builds *)
Theorem C14_step_points_to_end_index : forall (a : axis (T:=R)) o e range oi,
  (0 < ax_r a)%R -> (0 < range)%R ->
  let step := fst (fst (axis_setup ROps a o oi ((e - o) / range)%R)) in
  let ei := gm_index ROps (ax_r a) (ax_org a) e in
  let oi' := gm_index ROps (ax_r a) (ax_org a) o in
  (ei - oi' = step * Z.abs (ei - oi'))%Z.
Proof. exact axis_step_consistent. Qed.

Theorem C14_increment_nonnegative : forall (a : axis (T:=R)) o oi dir, (0 < ax_r a)%R -> (0 < M)%R ->
  (0 <= snd (axis_setup ROps a o oi dir))%R.
Proof. exact axis_tdelta_nonneg. Qed.

(* start and end cells contain the origin / end point in their closed extent (per axis; from C13) *)
Theorem C14_cell_of_point_contains_it : forall r lo hi p, (0 < r)%R -> (lo <= p <= hi)%R ->
  let org := gm_origin ROps r lo in
  (Rabs (p - gm_centre ROps r org (gm_index ROps r org p)) <= r / 2)%R.
Proof. intros r lo hi p Hr. exact (point_within_half r lo hi Hr p). Qed.

(* a cast that specifies its end point depends only on the grid, the stored origin and the end point: the
   state left behind by earlier casts (advanced crossing parameters, old end indexes, old steps) is not read *)
Theorem C14_cast_end_history_independent : forall (c1 c2 : caster (T:=R)) e,
  rc_axes c1 = rc_axes c2 -> rc_origin c1 = rc_origin c2 -> rc_oidx c1 = rc_oidx c2 ->
  cast_cells ROps (set_end ROps c1 e) = cast_cells ROps (set_end ROps c2 e).
Proof. exact set_end_depends_only. Qed.

Theorem C14_cast_origin_end_history_independent : forall (c1 c2 : caster (T:=R)) o e, rc_axes c1 = rc_axes c2 ->
  cast_cells ROps (set_end ROps (set_origin ROps c1 o) e) = cast_cells ROps (set_end ROps (set_origin ROps c2 o) e).
Proof. exact cast_oe_depends_only. Qed.

Theorem C14_operations_keep_the_grid : forall (c : caster (T:=R)) o, rc_axes (fst (rc_step_op ROps c o)) = rc_axes c.
Proof. exact step_keeps_axes. Qed.
Print Assumptions C14_cast_origin_end_history_independent.

(* why, in exact arithmetic, the walk advances each axis exactly |delta index| times even without the budget rule:
   the abstract merge of the per-axis crossing sequences (see RayCastMerge.v) *)
Theorem C14_merge_counts : forall (d : nat) (m : nat -> nat) (c : nat -> nat -> R) (range : R) (pick : (nat -> nat) -> nat),
  (forall k, (pick k < d)%nat) ->
  (forall i j, (i < d)%nat -> (1 <= j <= m i)%nat -> (c i j <= range)%R) ->
  (forall i j, (i < d)%nat -> (m i < j)%nat -> (range <= c i j)%R) ->
  (forall k i, (i < d)%nat -> (c (pick k) (S (k (pick k))) <= c i (S (k i)))%R) ->
  ~ tie d m c range -> forall s, (s <= RayCastMerge.sumf d m)%nat ->
  (forall i, (i < d)%nat -> (steps pick s i <= m i)%nat) /\ RayCastMerge.sumf d (steps pick s) = s.
Proof. exact merge_counts. Qed.
Print Assumptions C14_merge_counts.

(* Every cell visited by cast() is met by the segment (closed cell, closed segment), over exact arithmetic.
   org/r: grid origin and resolution per axis; o: origin point; dirv: unit direction; rho: length of the segment, so that
   pos i t = o_i + t * dirv_i is the ray and t in [0, rho] the segment.  Premises: the end point lies in the closed end
   cell (C13), step = sign of the direction and increment * |direction| = r (C14_setup_establishes_invariant), the
   invariant holds at T = 0 (the origin lies in its cell and every stored crossing parameter is where the ray meets the
   border of the origin cell in the direction of travel — C14_setup_establishes_invariant again), plus the premises of
   C14_cast_walk. *)
Theorem C14_cells_meet_segment : forall d, (d = 2 \/ d = 3) ->
  forall (r rho : R) (org o dirv : list R) (eidx step : list Z) (tdelta : list R) (B : R),
  (0 < r)%R -> length eidx = d -> length step = d -> length tdelta = d -> (B < M)%R ->
  (forall i, i < d -> (0 <= nth i tdelta 0)%R) ->
  (forall i, i < d -> (lo r org i (nth i eidx 0%Z) <= pos o dirv i rho <= hi r org i (nth i eidx 0%Z))%R) ->
  (forall i, i < d ->
     (nth i step 0%Z = 1%Z /\ (0 < nth i dirv 0)%R /\ (nth i tdelta 0 * nth i dirv 0 = r)%R) \/
     (nth i step 0%Z = (-1)%Z /\ (nth i dirv 0 < 0)%R /\ (nth i tdelta 0 * nth i dirv 0 = - r)%R) \/
     (nth i step 0%Z = 0%Z /\ nth i dirv 0%R = 0%R)) ->
  forall c : caster (T:=R),
  length (rc_oidx c) = d -> length (rc_tmax c) = d -> rc_eidx c = eidx -> rc_step c = step -> rc_tdelta c = tdelta ->
  (forall i, i < d -> (nth i eidx 0 - nth i (rc_oidx c) 0 = nth i step 0 * Z.abs (nth i eidx 0 - nth i (rc_oidx c) 0))%Z) ->
  (forall i, i < d -> (0 < Z.abs (nth i eidx 0 - nth i (rc_oidx c) 0))%Z ->
     (nth i (rc_tmax c) 0 + IZR (Z.abs (nth i eidx 0 - nth i (rc_oidx c) 0)%Z) * nth i tdelta 0 <= B)%R) ->
  ginv d r rho org o dirv eidx step 0%R (rc_oidx c, rc_tmax c) ->
  Forall (meets d r rho org o dirv) (cast_cells ROps c).
Proof. exact cast_cells_meet_segment. Qed.
Print Assumptions C14_cells_meet_segment.

(* what setEndPoint computes per axis establishes those premises: the sign/increment relation and, for an origin
   inside its cell, a non-negative first crossing parameter at which the ray meets the border of the origin cell *)
Theorem C14_setup_establishes_invariant : forall (a : axis (T:=R)) (oc dirc : R) (oi : Z),
  (0 < ax_r a)%R ->
  (ax_org a + IZR oi * ax_r a <= oc <= ax_org a + (IZR oi + 1) * ax_r a)%R ->
  let '(st, tm, td) := axis_setup ROps a oc oi dirc in
  (st = 1%Z -> (0 < dirc /\ 0 <= tm /\ oc + tm * dirc = ax_org a + (IZR oi + 1) * ax_r a /\ td * dirc = ax_r a)%R) /\
  (st = (-1)%Z -> (dirc < 0 /\ 0 <= tm /\ oc + tm * dirc = ax_org a + IZR oi * ax_r a /\ td * dirc = - ax_r a)%R) /\
  (st = 0%Z -> dirc = 0%R).
Proof. exact axis_setup_crossing. Qed.

(* END TO END, 2D and 3D: for a grid of resolution r > 0 over the extent [lo_i, hi_i], an origin o and an end point e
   inside the extent with o <> e, the caster that cast(o, e) builds — set_end (set_origin (rc_init axes) o) e — visits
   L1+1 cells, from the origin cell to the END CELL, by face-adjacent steps, inside the index box of the two cells, and
   every visited cell is met by the segment [o, e].  The only hypothesis left is that the crossing parameters needed by
   the walk do not exceed numeric_limits::max() (bound B < M on the computed fields). *)
Theorem C14_cast_2d_end_to_end : forall (r lo0 hi0 lo1 hi1 o0 o1 e0 e1 B : R),
  (0 < r)%R -> (lo0 <= o0 <= hi0)%R -> (lo1 <= o1 <= hi1)%R -> (lo0 <= e0 <= hi0)%R -> (lo1 <= e1 <= hi1)%R ->
  (o0 <> e0 \/ o1 <> e1) ->
  let c := caster2 r lo0 hi0 lo1 hi1 o0 o1 e0 e1 in
  (forall i, i < 2 -> (0 < Z.abs (nth i (rc_eidx c) 0 - nth i (rc_oidx c) 0))%Z ->
     (nth i (rc_tmax c) 0 + IZR (Z.abs (nth i (rc_eidx c) 0 - nth i (rc_oidx c) 0)%Z) * nth i (rc_tdelta c) 0 <= B)%R) ->
  (B < M)%R ->
  let cells := cast_cells ROps c in
  let l1 := RayCastProofs.sumf 2 (fun i => Z.abs (nth i (rc_eidx c) 0 - nth i (rc_oidx c) 0)%Z) in
  (Z.of_nat (length cells) = l1 + 1)%Z /\
  hd [] cells = rc_oidx c /\ last cells [] = rc_eidx c /\ chain 2 (rc_oidx c) (tl cells) /\
  Forall (fun cl => forall i, i < 2 ->
            (Z.min (nth i (rc_oidx c) 0) (nth i (rc_eidx c) 0) <= nth i cl 0 <= Z.max (nth i (rc_oidx c) 0) (nth i (rc_eidx c) 0))%Z) cells /\
  Forall (meets 2 r (rho2 o0 o1 e0 e1) (org2 r lo0 lo1) [o0; o1] (dirv2 o0 o1 e0 e1)) cells.
Proof. exact cast2_all. Qed.

Theorem C14_cast_3d_end_to_end : forall (r lo0 hi0 lo1 hi1 lo2 hi2 o0 o1 o2 e0 e1 e2 B : R),
  (0 < r)%R -> (lo0 <= o0 <= hi0)%R -> (lo1 <= o1 <= hi1)%R -> (lo2 <= o2 <= hi2)%R ->
  (lo0 <= e0 <= hi0)%R -> (lo1 <= e1 <= hi1)%R -> (lo2 <= e2 <= hi2)%R ->
  (o0 <> e0 \/ o1 <> e1 \/ o2 <> e2) ->
  let c := caster3 r lo0 hi0 lo1 hi1 lo2 hi2 o0 o1 o2 e0 e1 e2 in
  (forall i, i < 3 -> (0 < Z.abs (nth i (rc_eidx c) 0 - nth i (rc_oidx c) 0))%Z ->
     (nth i (rc_tmax c) 0 + IZR (Z.abs (nth i (rc_eidx c) 0 - nth i (rc_oidx c) 0)%Z) * nth i (rc_tdelta c) 0 <= B)%R) ->
  (B < M)%R ->
  let cells := cast_cells ROps c in
  let l1 := RayCastProofs.sumf 3 (fun i => Z.abs (nth i (rc_eidx c) 0 - nth i (rc_oidx c) 0)%Z) in
  (Z.of_nat (length cells) = l1 + 1)%Z /\
  hd [] cells = rc_oidx c /\ last cells [] = rc_eidx c /\ chain 3 (rc_oidx c) (tl cells) /\
  Forall (fun cl => forall i, i < 3 ->
            (Z.min (nth i (rc_oidx c) 0) (nth i (rc_eidx c) 0) <= nth i cl 0 <= Z.max (nth i (rc_oidx c) 0) (nth i (rc_eidx c) 0))%Z) cells /\
  Forall (meets 3 r (rho3 o0 o1 o2 e0 e1 e2) (org3 r lo0 lo1 lo2) [o0; o1; o2] (dirv3 o0 o1 o2 e0 e1 e2)) cells.
Proof. exact cast3_all. Qed.
Print Assumptions C14_cast_3d_end_to_end.

(* ---- the "no-overflow bound B" premise removed (RayCastBounds.v) ----
   The premise  tmax_i + |delta index|_i * tdelta_i <= B < max()  of the theorems above bounds the parameter stored AFTER the last
   step of an axis (where the ray leaves the END cell); next() never compares that value, and it is not bounded by the geometry
   (it exceeds r * rho / |e_i - o_i|).  The parameters next() does compare belong to axes that have not reached the end index, and the
   ghost-parameter invariant gives them <= rho.  Proving walk and geometry together needs only  rho < max(). *)

(* generic caster: all six conclusions from the per-axis premises, the invariant at T = 0 and rho < max() *)
Theorem C14_cast_walk_and_segment_without_bound : forall d, (d = 2 \/ d = 3) ->
  forall (r rho : R) (org o dirv : list R) (eidx step : list Z) (tdelta : list R),
  (0 < r)%R -> (rho < M)%R -> length eidx = d -> length step = d -> length tdelta = d ->
  (forall i, i < d -> (0 <= nth i tdelta 0)%R) ->
  (forall i, i < d -> (lo r org i (nth i eidx 0%Z) <= pos o dirv i rho <= hi r org i (nth i eidx 0%Z))%R) ->
  (forall i, i < d ->
     (nth i step 0%Z = 1%Z /\ (0 < nth i dirv 0)%R /\ (nth i tdelta 0 * nth i dirv 0 = r)%R) \/
     (nth i step 0%Z = (-1)%Z /\ (nth i dirv 0 < 0)%R /\ (nth i tdelta 0 * nth i dirv 0 = - r)%R) \/
     (nth i step 0%Z = 0%Z /\ nth i dirv 0%R = 0%R)) ->
  forall c : caster (T:=R),
  length (rc_oidx c) = d -> length (rc_tmax c) = d -> rc_eidx c = eidx -> rc_step c = step -> rc_tdelta c = tdelta ->
  (forall i, i < d -> (nth i eidx 0 - nth i (rc_oidx c) 0 = nth i step 0 * Z.abs (nth i eidx 0 - nth i (rc_oidx c) 0))%Z) ->
  ginv d r rho org o dirv eidx step 0%R (rc_oidx c, rc_tmax c) ->
  (Z.of_nat (length (cast_cells ROps c)) = RayCastProofs.sumf d (fun i => Z.abs (nth i (rc_eidx c) 0 - nth i (rc_oidx c) 0)%Z) + 1)%Z /\
  hd [] (cast_cells ROps c) = rc_oidx c /\
  last (cast_cells ROps c) [] = rc_eidx c /\
  chain d (rc_oidx c) (tl (cast_cells ROps c)) /\
  Forall (fun cl => forall i, i < d ->
            (Z.min (nth i (rc_oidx c) 0) (nth i (rc_eidx c) 0) <= nth i cl 0 <= Z.max (nth i (rc_oidx c) 0) (nth i (rc_eidx c) 0))%Z)
         (cast_cells ROps c) /\
  Forall (meets d r rho org o dirv) (cast_cells ROps c).
Proof. exact cast_walk_geo. Qed.
Print Assumptions C14_cast_walk_and_segment_without_bound.

(* END TO END without the bound: the only numeric premise is |e - o| < numeric_limits::max() *)
Theorem C14_cast_2d_end_to_end_without_bound : forall (r lo0 hi0 lo1 hi1 o0 o1 e0 e1 : R),
  (0 < r)%R -> (lo0 <= o0 <= hi0)%R -> (lo1 <= o1 <= hi1)%R -> (lo0 <= e0 <= hi0)%R -> (lo1 <= e1 <= hi1)%R ->
  (o0 <> e0 \/ o1 <> e1) -> (rho2 o0 o1 e0 e1 < M)%R ->
  let c := caster2 r lo0 hi0 lo1 hi1 o0 o1 e0 e1 in
  let cells := cast_cells ROps c in
  let l1 := RayCastProofs.sumf 2 (fun i => Z.abs (nth i (rc_eidx c) 0 - nth i (rc_oidx c) 0)%Z) in
  (Z.of_nat (length cells) = l1 + 1)%Z /\
  hd [] cells = rc_oidx c /\ last cells [] = rc_eidx c /\ chain 2 (rc_oidx c) (tl cells) /\
  Forall (fun cl => forall i, i < 2 ->
            (Z.min (nth i (rc_oidx c) 0) (nth i (rc_eidx c) 0) <= nth i cl 0 <= Z.max (nth i (rc_oidx c) 0) (nth i (rc_eidx c) 0))%Z) cells /\
  Forall (meets 2 r (rho2 o0 o1 e0 e1) (org2 r lo0 lo1) [o0; o1] (dirv2 o0 o1 e0 e1)) cells.
Proof. exact cast2_free. Qed.

Theorem C14_cast_3d_end_to_end_without_bound : forall (r lo0 hi0 lo1 hi1 lo2 hi2 o0 o1 o2 e0 e1 e2 : R),
  (0 < r)%R -> (lo0 <= o0 <= hi0)%R -> (lo1 <= o1 <= hi1)%R -> (lo2 <= o2 <= hi2)%R ->
  (lo0 <= e0 <= hi0)%R -> (lo1 <= e1 <= hi1)%R -> (lo2 <= e2 <= hi2)%R ->
  (o0 <> e0 \/ o1 <> e1 \/ o2 <> e2) -> (rho3 o0 o1 o2 e0 e1 e2 < M)%R ->
  let c := caster3 r lo0 hi0 lo1 hi1 lo2 hi2 o0 o1 o2 e0 e1 e2 in
  let cells := cast_cells ROps c in
  let l1 := RayCastProofs.sumf 3 (fun i => Z.abs (nth i (rc_eidx c) 0 - nth i (rc_oidx c) 0)%Z) in
  (Z.of_nat (length cells) = l1 + 1)%Z /\
  hd [] cells = rc_oidx c /\ last cells [] = rc_eidx c /\ chain 3 (rc_oidx c) (tl cells) /\
  Forall (fun cl => forall i, i < 3 ->
            (Z.min (nth i (rc_oidx c) 0) (nth i (rc_eidx c) 0) <= nth i cl 0 <= Z.max (nth i (rc_oidx c) 0) (nth i (rc_eidx c) 0))%Z) cells /\
  Forall (meets 3 r (rho3 o0 o1 o2 e0 e1 e2) (org3 r lo0 lo1 lo2) [o0; o1; o2] (dirv3 o0 o1 o2 e0 e1 e2)) cells.
Proof. exact cast3_free. Qed.
Print Assumptions C14_cast_3d_end_to_end_without_bound.

(* the property's envelope (at most 2000 cells of resolution <= 1 per axis, so an extent of side <= 2000): NO numeric premise left *)
Theorem C14_cast_2d_end_to_end_envelope : forall (r lo0 hi0 lo1 hi1 o0 o1 e0 e1 : R),
  (0 < r)%R -> (lo0 <= o0 <= hi0)%R -> (lo1 <= o1 <= hi1)%R -> (lo0 <= e0 <= hi0)%R -> (lo1 <= e1 <= hi1)%R ->
  (o0 <> e0 \/ o1 <> e1) -> (hi0 - lo0 <= 2000)%R -> (hi1 - lo1 <= 2000)%R ->
  let c := caster2 r lo0 hi0 lo1 hi1 o0 o1 e0 e1 in
  let cells := cast_cells ROps c in
  let l1 := RayCastProofs.sumf 2 (fun i => Z.abs (nth i (rc_eidx c) 0 - nth i (rc_oidx c) 0)%Z) in
  (Z.of_nat (length cells) = l1 + 1)%Z /\
  hd [] cells = rc_oidx c /\ last cells [] = rc_eidx c /\ chain 2 (rc_oidx c) (tl cells) /\
  Forall (fun cl => forall i, i < 2 ->
            (Z.min (nth i (rc_oidx c) 0) (nth i (rc_eidx c) 0) <= nth i cl 0 <= Z.max (nth i (rc_oidx c) 0) (nth i (rc_eidx c) 0))%Z) cells /\
  Forall (meets 2 r (rho2 o0 o1 e0 e1) (org2 r lo0 lo1) [o0; o1] (dirv2 o0 o1 e0 e1)) cells.
Proof. exact cast2_box. Qed.

Theorem C14_cast_3d_end_to_end_envelope : forall (r lo0 hi0 lo1 hi1 lo2 hi2 o0 o1 o2 e0 e1 e2 : R),
  (0 < r)%R -> (lo0 <= o0 <= hi0)%R -> (lo1 <= o1 <= hi1)%R -> (lo2 <= o2 <= hi2)%R ->
  (lo0 <= e0 <= hi0)%R -> (lo1 <= e1 <= hi1)%R -> (lo2 <= e2 <= hi2)%R ->
  (o0 <> e0 \/ o1 <> e1 \/ o2 <> e2) -> (hi0 - lo0 <= 2000)%R -> (hi1 - lo1 <= 2000)%R -> (hi2 - lo2 <= 2000)%R ->
  let c := caster3 r lo0 hi0 lo1 hi1 lo2 hi2 o0 o1 o2 e0 e1 e2 in
  let cells := cast_cells ROps c in
  let l1 := RayCastProofs.sumf 3 (fun i => Z.abs (nth i (rc_eidx c) 0 - nth i (rc_oidx c) 0)%Z) in
  (Z.of_nat (length cells) = l1 + 1)%Z /\
  hd [] cells = rc_oidx c /\ last cells [] = rc_eidx c /\ chain 3 (rc_oidx c) (tl cells) /\
  Forall (fun cl => forall i, i < 3 ->
            (Z.min (nth i (rc_oidx c) 0) (nth i (rc_eidx c) 0) <= nth i cl 0 <= Z.max (nth i (rc_oidx c) 0) (nth i (rc_eidx c) 0))%Z) cells /\
  Forall (meets 3 r (rho3 o0 o1 o2 e0 e1 e2) (org3 r lo0 lo1 lo2) [o0; o1; o2] (dirv3 o0 o1 o2 e0 e1 e2)) cells.
Proof. exact cast3_box. Qed.
Print Assumptions C14_cast_3d_end_to_end_envelope.

(* ---- the integer side.  C++: indexes are size_t, computeRayNumberOfCells casts them to int and sums |difference| in int, next()
   adds an int step (+-1) to a size_t index.  If the grid has n_i cells on axis i and sum n_i <= 2^31 - 1, every index visited by the
   model's (unbounded Z) walk lies in [0, n_i) and below 2^31, every partial sum of the count is in [0, 2^31 - 2], and the count
   is in [1, 2^31 - 1] and equals the number of cells returned: no cast, sum or modular step of the C++ can differ from the model. *)
Theorem C14_indexes_and_count_fit_int : forall (d : nat) (oidx eidx : list Z) (nc : nat -> Z) (cells : list (list Z)),
  (forall i, i < d -> (0 <= nth i oidx 0 < nc i)%Z) ->
  (forall i, i < d -> (0 <= nth i eidx 0 < nc i)%Z) ->
  (RayCastProofs.sumf d nc <= 2147483647)%Z ->
  Forall (fun cl => forall i, i < d ->
            (Z.min (nth i oidx 0) (nth i eidx 0) <= nth i cl 0 <= Z.max (nth i oidx 0) (nth i eidx 0))%Z) cells ->
  Forall (fun cl => forall i, i < d -> (0 <= nth i cl 0 < nc i)%Z /\ (nth i cl 0 <= 2147483647)%Z) cells /\
  (forall m, m <= d ->
     (0 <= RayCastProofs.sumf m (fun i => Z.abs (nth i eidx 0 - nth i oidx 0)) <= 2147483647 - 1)%Z) /\
  (1 <= RayCastProofs.sumf d (fun i => Z.abs (nth i eidx 0 - nth i oidx 0)) + 1 <= 2147483647)%Z.
Proof. exact cast_indexes_fit_int. Qed.

Theorem C14_cast_2d_indexes_fit : forall (r lo0 hi0 lo1 hi1 o0 o1 e0 e1 : R),
  (0 < r)%R -> (lo0 <= o0 <= hi0)%R -> (lo1 <= o1 <= hi1)%R -> (lo0 <= e0 <= hi0)%R -> (lo1 <= e1 <= hi1)%R ->
  (o0 <> e0 \/ o1 <> e1) -> (rho2 o0 o1 e0 e1 < M)%R ->
  (gm_ncells ROps r lo0 hi0 + gm_ncells ROps r lo1 hi1 <= 2147483647)%Z ->
  let c := caster2 r lo0 hi0 lo1 hi1 o0 o1 e0 e1 in
  Forall (fun cl => forall i, i < 2 -> (0 <= nth i cl 0 < nc2 r lo0 hi0 lo1 hi1 i)%Z /\ (nth i cl 0 <= 2147483647)%Z)
         (cast_cells ROps c) /\
  (forall m, m <= 2 ->
     (0 <= RayCastProofs.sumf m (fun i => Z.abs (nth i (rc_eidx c) 0 - nth i (rc_oidx c) 0)) <= 2147483647 - 1)%Z) /\
  ncells c = Z.of_nat (length (cast_cells ROps c)) /\ (1 <= ncells c <= 2147483647)%Z.
Proof. exact cast2_int. Qed.

Theorem C14_cast_3d_indexes_fit : forall (r lo0 hi0 lo1 hi1 lo2 hi2 o0 o1 o2 e0 e1 e2 : R),
  (0 < r)%R -> (lo0 <= o0 <= hi0)%R -> (lo1 <= o1 <= hi1)%R -> (lo2 <= o2 <= hi2)%R ->
  (lo0 <= e0 <= hi0)%R -> (lo1 <= e1 <= hi1)%R -> (lo2 <= e2 <= hi2)%R ->
  (o0 <> e0 \/ o1 <> e1 \/ o2 <> e2) -> (rho3 o0 o1 o2 e0 e1 e2 < M)%R ->
  (gm_ncells ROps r lo0 hi0 + gm_ncells ROps r lo1 hi1 + gm_ncells ROps r lo2 hi2 <= 2147483647)%Z ->
  let c := caster3 r lo0 hi0 lo1 hi1 lo2 hi2 o0 o1 o2 e0 e1 e2 in
  Forall (fun cl => forall i, i < 3 -> (0 <= nth i cl 0 < nc3 r lo0 hi0 lo1 hi1 lo2 hi2 i)%Z /\ (nth i cl 0 <= 2147483647)%Z)
         (cast_cells ROps c) /\
  (forall m, m <= 3 ->
     (0 <= RayCastProofs.sumf m (fun i => Z.abs (nth i (rc_eidx c) 0 - nth i (rc_oidx c) 0)) <= 2147483647 - 1)%Z) /\
  ncells c = Z.of_nat (length (cast_cells ROps c)) /\ (1 <= ncells c <= 2147483647)%Z.
Proof. exact cast3_int. Qed.
Print Assumptions C14_cast_3d_indexes_fit.

(* What stays outside the theorems: floating-point rounding (the walk of the float instance is observed, and the budget
   rule makes C14_cast_walk independent of the values of the crossing parameters; the parameter stored after the last
   step of an axis is never compared, see above),
   the coincident case o = e (one cell, no step; trivial in the model: ncells = 1), and casts on a caster whose crossing
   parameters were advanced by an earlier cast() (operation K, outside the property). *)

(* non-vacuity: a 2D caster on a 3-cell axis pair, origin cell (0,0), end cell (2,1) *)
Example C14_ex :
  let c := {| rc_axes := []; rc_origin := []; rc_oidx := [0; 0]%Z; rc_eidx := [2; 1]%Z;
              rc_tmax := [1; 2]%R; rc_tdelta := [2; 4]%R; rc_step := [1; 1]%Z |} in
  length (cast_cells ROps c) = 4 /\ last (cast_cells ROps c) [] = [2; 1]%Z.
Proof.
  intros c.
  pose proof M_big as HM.
  destruct (C14_cast_walk c 2 100%R (or_introl eq_refl) eq_refl eq_refl eq_refl eq_refl eq_refl HM) as (L & _ & E & _).
  - intros [|[|i]] Hi; cbn; try lra; lia.
  - intros [|[|i]] Hi; cbn; try lia.
  - intros [|[|i]] Hi Hp; cbn in *; try lra; try lia.
  - split; [|exact E]. apply Nat2Z.inj. rewrite L. reflexivity.
Qed.

(* non-vacuity of the bound-free end-to-end theorem: 3 x 3 grid of resolution 1 over [0,3]^2, from (1/2, 1/2) to (5/2, 3/2) *)
Example C14_ex_without_bound :
  let c := caster2 1 0 3 0 3 (1/2) (1/2) (5/2) (3/2) in
  last (cast_cells ROps c) [] = rc_eidx c /\ Forall (fun cl => forall i, i < 2 -> (nth i cl 0 <= 2147483647)%Z) (cast_cells ROps c).
Proof.
  intros c.
  destruct (C14_cast_2d_end_to_end_envelope 1 0 3 0 3 (1/2) (1/2) (5/2) (3/2)) as (_ & _ & E & _); try lra.
  split; [exact E|].
  assert (HM : (rho2 (1/2) (1/2) (5/2) (3/2) < M)%R).
  { pose proof (rho2_le 0 3 0 3 (1/2) (1/2) (5/2) (3/2) 3). pose proof M_big. lra. }
  assert (Hn : (gm_ncells ROps 1%R 0%R 3%R + gm_ncells ROps 1%R 0%R 3%R <= 2147483647)%Z).
  { assert (gm_ncells ROps 1%R 0%R 3%R = 4%Z) as ->; [|lia].
    unfold gm_ncells. cbn [ntruncZ nadd nsub nceil nfloor ndiv n_one ROps].
    replace (3 / 1)%R with 3%R by lra. replace (0 / 1)%R with 0%R by lra.
    rewrite Raux.Zceil_IZR, Raux.Zfloor_IZR. replace (3 - 0 + 1)%R with 4%R by lra.
    apply Raux.Ztrunc_IZR. }
  destruct (C14_cast_2d_indexes_fit 1 0 3 0 3 (1/2) (1/2) (5/2) (3/2)) as (F & _); try lra; try assumption.
  eapply Forall_impl; [|exact F]. cbn. intros cl H i Hi. apply (H i Hi).
Qed.

(* ====================================================================================================
   SYNTACTIC SOURCE TIE.  gen/SrcRayCast.v is regenerated on every run from the clang AST of the current
   src/containers/grid/RayTracing.cpp (+ GridIndexMapping.cpp for the calls into the grid) by symbolic execution of the
   instantiated member functions (translate/tr_C14_raycast.py, translate/eigsym.py).  The theorems below say that the
   generated terms ARE the functions of RayCastModel.v that every theorem above is about — for every numeric dictionary
   N (hence at ROps, the instance of the theorems, and at the float dictionaries the correspondence run executes), by
   computation and case analysis only: the source and the model perform the same operations in the same order.
   Integers: IdealInt reads size_t / int conversions as the identity (the model's unbounded Z); MachInt wraps.
   ==================================================================================================== *)

(* the four hand-written specialisations RayCasting<float|double, 2|3>::next, each translated separately, are the model's
   [next] on 2- resp. 3-element lists: outputs (cellIndexes, rayTMax_) *)
Theorem C14_source_tie_next : forall (T : Type) (N : NumOps T) (c0 c1 c2 e0 e1 e2 s0 s1 s2 : Z) (d0 d1 d2 t0 t1 t2 : T),
  src_next_f2 N IdealInt c0 c1 e0 e1 s0 s1 d0 d1 t0 t1 = next N [e0; e1] [s0; s1] [d0; d1] ([c0; c1], [t0; t1]) /\
  src_next_d2 N IdealInt c0 c1 e0 e1 s0 s1 d0 d1 t0 t1 = next N [e0; e1] [s0; s1] [d0; d1] ([c0; c1], [t0; t1]) /\
  src_next_f3 N IdealInt c0 c1 c2 e0 e1 e2 s0 s1 s2 d0 d1 d2 t0 t1 t2
    = next N [e0; e1; e2] [s0; s1; s2] [d0; d1; d2] ([c0; c1; c2], [t0; t1; t2]) /\
  src_next_d3 N IdealInt c0 c1 c2 e0 e1 e2 s0 s1 s2 d0 d1 d2 t0 t1 t2
    = next N [e0; e1; e2] [s0; s1; s2] [d0; d1; d2] ([c0; c1; c2], [t0; t1; t2]).
Proof. exact tie_next_all. Qed.
Print Assumptions C14_source_tie_next.

(* with machine integers (size_t += int wraps modulo 2^64) the same holds whenever the advanced index is a size_t value —
   which C14_cast_2d_indexes_fit / C14_cast_3d_indexes_fit prove for every index of a walk *)
Theorem C14_source_tie_next_machine_integers : forall (T : Type) (N : NumOps T) (c0 c1 c2 e0 e1 e2 s0 s1 s2 : Z) (d0 d1 d2 t0 t1 t2 : T),
  (0 <= c0 + s0 < 2 ^ 64)%Z -> (0 <= c1 + s1 < 2 ^ 64)%Z -> (0 <= c2 + s2 < 2 ^ 64)%Z ->
  src_next_f2 N MachInt c0 c1 e0 e1 s0 s1 d0 d1 t0 t1 = next N [e0; e1] [s0; s1] [d0; d1] ([c0; c1], [t0; t1]) /\
  src_next_d2 N MachInt c0 c1 e0 e1 s0 s1 d0 d1 t0 t1 = next N [e0; e1] [s0; s1] [d0; d1] ([c0; c1], [t0; t1]) /\
  src_next_f3 N MachInt c0 c1 c2 e0 e1 e2 s0 s1 s2 d0 d1 d2 t0 t1 t2
    = next N [e0; e1; e2] [s0; s1; s2] [d0; d1; d2] ([c0; c1; c2], [t0; t1; t2]) /\
  src_next_d3 N MachInt c0 c1 c2 e0 e1 e2 s0 s1 s2 d0 d1 d2 t0 t1 t2
    = next N [e0; e1; e2] [s0; s1; s2] [d0; d1; d2] ([c0; c1; c2], [t0; t1; t2]).
Proof. exact next_machine_all. Qed.

(* computeRayNumberOfCells (DIM = 2, 3; float and double instantiations give the same term) is the model's [ncells] *)
Theorem C14_source_tie_ncells : forall (T : Type) (c : caster (T:=T)),
  (forall e0 e1 o0 o1, rc_eidx c = [e0; e1] -> rc_oidx c = [o0; o1] -> src_ncells_2 IdealInt e0 e1 o0 o1 = ncells c) /\
  (forall e0 e1 e2 o0 o1 o2, rc_eidx c = [e0; e1; e2] -> rc_oidx c = [o0; o1; o2] ->
     src_ncells_3 IdealInt e0 e1 e2 o0 o1 o2 = ncells c).
Proof. exact tie_ncells_all. Qed.

(* ... and with machine integers (cast<int>(), int arithmetic, conversion of the count to size_t) as soon as the indexes fit int *)
Theorem C14_source_tie_ncells_machine_integers : forall e0 e1 e2 o0 o1 o2,
  (0 <= e0 < 2 ^ 31)%Z -> (0 <= e1 < 2 ^ 31)%Z -> (0 <= e2 < 2 ^ 31)%Z ->
  (0 <= o0 < 2 ^ 31)%Z -> (0 <= o1 < 2 ^ 31)%Z -> (0 <= o2 < 2 ^ 31)%Z ->
  src_ncells_2 MachInt e0 e1 o0 o1 = src_ncells_2 IdealInt e0 e1 o0 o1 /\
  src_ncells_3 MachInt e0 e1 e2 o0 o1 o2 = src_ncells_3 IdealInt e0 e1 e2 o0 o1 o2.
Proof. intros. split; [apply ncells_2_machine | apply ncells_3_machine]; assumption. Qed.

(* setOriginPoint, with gridIndexMapping_->computeCellIndexes inlined from GridIndexMapping.cpp: outputs
   (rayOriginIndexes_, rayOriginPoint_) are those of the model's [set_origin].  The C++ grid has one resolution r. *)
Theorem C14_source_tie_set_origin_2d : forall (T : Type) (N : NumOps T) (c : caster (T:=T)) a0 a1 r p0 p1,
  rc_axes c = [a0; a1] -> ax_r a0 = r -> ax_r a1 = r ->
  src_setOrigin_2 N p0 p1 r (ax_org a0) (ax_org a1)
  = (rc_oidx (set_origin N c [p0; p1]), rc_origin (set_origin N c [p0; p1])).
Proof. exact @tie_setOrigin_2. Qed.

Theorem C14_source_tie_set_origin_3d : forall (T : Type) (N : NumOps T) (c : caster (T:=T)) a0 a1 a2 r p0 p1 p2,
  rc_axes c = [a0; a1; a2] -> ax_r a0 = r -> ax_r a1 = r -> ax_r a2 = r ->
  src_setOrigin_3 N p0 p1 p2 r (ax_org a0) (ax_org a1) (ax_org a2)
  = (rc_oidx (set_origin N c [p0; p1; p2]), rc_origin (set_origin N c [p0; p1; p2])).
Proof. exact @tie_setOrigin_3. Qed.

(* setEndPoint (computeCellIndexes, computeCellCenterPosition, getCellResolution inlined; the per-axis loop unrolled):
   outputs (rayDirection_, rayEndIndexes_, rayEndPoint_, rayStep_, rayTDelta_, rayTMax_); the ones the model keeps are those
   of [set_end].  LitOK N: the dictionary reads the literals 0 and 0.5 as nzero and nhalf (true of ROps: LitOK_R, and of
   the rounded dictionaries: C13's LitOK_B64 / LitOK_B32).  tab_i: the cell-centre table of axis i, read at the origin
   index; C13_source_tie_constructor proves that the constructor stores gm_centre there. *)
Theorem C14_source_tie_set_end_2d : forall (T : Type) (N : NumOps T), LitOK N ->
  forall (c : caster (T:=T)) a0 a1 r o0 o1 oi0 oi1 e0 e1 (tab0 tab1 : Z -> T),
  rc_axes c = [a0; a1] -> rc_origin c = [o0; o1] -> rc_oidx c = [oi0; oi1] -> ax_r a0 = r -> ax_r a1 = r ->
  tab0 oi0 = gm_centre N r (ax_org a0) oi0 -> tab1 oi1 = gm_centre N r (ax_org a1) oi1 ->
  let '(dir, eidx, ep, step, tdelta, tmax) := src_setEnd_2 N e0 e1 tab0 tab1 r (ax_org a0) (ax_org a1) oi0 oi1 o0 o1 in
  let c' := set_end N c [e0; e1] in
  eidx = rc_eidx c' /\ ep = [e0; e1] /\ step = rc_step c' /\ tdelta = rc_tdelta c' /\ tmax = rc_tmax c'.
Proof. exact @tie_setEnd_2. Qed.

Theorem C14_source_tie_set_end_3d : forall (T : Type) (N : NumOps T), LitOK N ->
  forall (c : caster (T:=T)) a0 a1 a2 r o0 o1 o2 oi0 oi1 oi2 e0 e1 e2 (tab0 tab1 tab2 : Z -> T),
  rc_axes c = [a0; a1; a2] -> rc_origin c = [o0; o1; o2] -> rc_oidx c = [oi0; oi1; oi2] ->
  ax_r a0 = r -> ax_r a1 = r -> ax_r a2 = r ->
  tab0 oi0 = gm_centre N r (ax_org a0) oi0 -> tab1 oi1 = gm_centre N r (ax_org a1) oi1 ->
  tab2 oi2 = gm_centre N r (ax_org a2) oi2 ->
  let '(dir, eidx, ep, step, tdelta, tmax) :=
    src_setEnd_3 N e0 e1 e2 tab0 tab1 tab2 r (ax_org a0) (ax_org a1) (ax_org a2) oi0 oi1 oi2 o0 o1 o2 in
  let c' := set_end N c [e0; e1; e2] in
  eidx = rc_eidx c' /\ ep = [e0; e1; e2] /\ step = rc_step c' /\ tdelta = rc_tdelta c' /\ tmax = rc_tmax c'.
Proof. exact @tie_setEnd_3. Qed.
Print Assumptions C14_source_tie_set_end_3d.

(* non-vacuity: the real dictionary reads the literals as the model does *)
Example C14_source_tie_ex : LitOK ROps.
Proof. exact LitOK_R. Qed.

(* cast(): the `while (++n != rayNumberOfCells) { next(cur); ray[n] = cur; }` loop is translated to a local fix on a fuel
   argument (None = the C++ loop would still be running), the returned std::vector to (size, function of the index), with
   computeRayNumberOfCells and the specialisation of next inlined.  With fuel >= number of cells the generated cast() returns
   exactly the model's [cast_cells] (the list C14_cast_walk, C14_cells_meet_segment, ... are about) and leaves rayTMax_ as
   [after_cast] says — for every numeric dictionary. *)
Theorem C14_source_tie_cast_loop_2d : forall (T : Type) (N : NumOps T) (c : caster (T:=T)) e0 e1 o0 o1 s0 s1 d0 d1 t0 t1 fuel,
  rc_eidx c = [e0; e1] -> rc_oidx c = [o0; o1] -> rc_step c = [s0; s1] -> rc_tdelta c = [d0; d1] -> rc_tmax c = [t0; t1] ->
  (Z.to_nat (ncells c) <= fuel)%nat ->
  match src_cast_2 N IdealInt fuel e0 e1 o0 o1 s0 s1 d0 d1 t0 t1 with
  | None => False
  | Some ((k, ray), tmax) =>
      k = ncells c /\ tmax = rc_tmax (after_cast N c) /\
      forall j, (j < length (cast_cells N c))%nat -> ray (Z.of_nat j) = nth j (cast_cells N c) []
  end.
Proof. exact @tie_cast_2. Qed.

Theorem C14_source_tie_cast_loop_3d : forall (T : Type) (N : NumOps T) (c : caster (T:=T))
    e0 e1 e2 o0 o1 o2 s0 s1 s2 d0 d1 d2 t0 t1 t2 fuel,
  rc_eidx c = [e0; e1; e2] -> rc_oidx c = [o0; o1; o2] -> rc_step c = [s0; s1; s2] -> rc_tdelta c = [d0; d1; d2] ->
  rc_tmax c = [t0; t1; t2] -> (Z.to_nat (ncells c) <= fuel)%nat ->
  match src_cast_3 N IdealInt fuel e0 e1 e2 o0 o1 o2 s0 s1 s2 d0 d1 d2 t0 t1 t2 with
  | None => False
  | Some ((k, ray), tmax) =>
      k = ncells c /\ tmax = rc_tmax (after_cast N c) /\
      forall j, (j < length (cast_cells N c))%nat -> ray (Z.of_nat j) = nth j (cast_cells N c) []
  end.
Proof. exact @tie_cast_3. Qed.
Print Assumptions C14_source_tie_cast_loop_3d.

(* cast(origin, end) — the operation the property is about — with setOriginPoint, setEndPoint, cast() and everything they call
   inlined from the two source files, is the model's OpCastOE: the cells are cast_cells of
   set_end (set_origin c origin) end, the state left behind is after_cast of it.  tab_i: contents of the grid's cell-centre
   table of axis i (C13_source_tie_constructor: the constructor stores gm_centre there). *)
Theorem C14_source_tie_cast_origin_end_2d : forall (T : Type) (N : NumOps T), LitOK N ->
  forall (c : caster (T:=T)) a0 a1 r p0 p1 e0 e1 (tab0 tab1 : Z -> T) fuel,
  rc_axes c = [a0; a1] -> ax_r a0 = r -> ax_r a1 = r ->
  (forall k, tab0 k = gm_centre N r (ax_org a0) k) -> (forall k, tab1 k = gm_centre N r (ax_org a1) k) ->
  let c' := set_end N (set_origin N c [p0; p1]) [e0; e1] in
  (Z.to_nat (ncells c') <= fuel)%nat ->
  match src_castOE_2 N IdealInt fuel p0 p1 e0 e1 tab0 tab1 r (ax_org a0) (ax_org a1) with
  | None => False
  | Some ((k, ray), dir, eidx, ep, oidx, op, step, td, tm) =>
      (k = ncells c' /\ tm = rc_tmax (after_cast N c') /\
       forall j, (j < length (cast_cells N c'))%nat -> ray (Z.of_nat j) = nth j (cast_cells N c') []) /\
      oidx = rc_oidx c' /\ op = rc_origin c' /\ eidx = rc_eidx c' /\ step = rc_step c' /\ td = rc_tdelta c'
  end.
Proof.
  intros T N L c a0 a1 r p0 p1 e0 e1 tab0 tab1 fuel Ha R0 R1 T0 T1 c' Hf.
  pose proof (tie_castOE_2 N L c a0 a1 r p0 p1 e0 e1 tab0 tab1 fuel Ha R0 R1 T0 T1 Hf) as H.
  unfold castOE_result, cast_result in H.
  destruct (src_castOE_2 N IdealInt fuel p0 p1 e0 e1 tab0 tab1 r (ax_org a0) (ax_org a1))
    as [[[[[[[[[[k ray] dir] eidx] ep] oidx] op] step] td] tm]|]; exact H.
Qed.

Theorem C14_source_tie_cast_origin_end_3d : forall (T : Type) (N : NumOps T), LitOK N ->
  forall (c : caster (T:=T)) a0 a1 a2 r p0 p1 p2 e0 e1 e2 (tab0 tab1 tab2 : Z -> T) fuel,
  rc_axes c = [a0; a1; a2] -> ax_r a0 = r -> ax_r a1 = r -> ax_r a2 = r ->
  (forall k, tab0 k = gm_centre N r (ax_org a0) k) -> (forall k, tab1 k = gm_centre N r (ax_org a1) k) ->
  (forall k, tab2 k = gm_centre N r (ax_org a2) k) ->
  let c' := set_end N (set_origin N c [p0; p1; p2]) [e0; e1; e2] in
  (Z.to_nat (ncells c') <= fuel)%nat ->
  match src_castOE_3 N IdealInt fuel p0 p1 p2 e0 e1 e2 tab0 tab1 tab2 r (ax_org a0) (ax_org a1) (ax_org a2) with
  | None => False
  | Some ((k, ray), dir, eidx, ep, oidx, op, step, td, tm) =>
      (k = ncells c' /\ tm = rc_tmax (after_cast N c') /\
       forall j, (j < length (cast_cells N c'))%nat -> ray (Z.of_nat j) = nth j (cast_cells N c') []) /\
      oidx = rc_oidx c' /\ op = rc_origin c' /\ eidx = rc_eidx c' /\ step = rc_step c' /\ td = rc_tdelta c'
  end.
Proof.
  intros T N L c a0 a1 a2 r p0 p1 p2 e0 e1 e2 tab0 tab1 tab2 fuel Ha R0 R1 R2 T0 T1 T2 c' Hf.
  pose proof (tie_castOE_3 N L c a0 a1 a2 r p0 p1 p2 e0 e1 e2 tab0 tab1 tab2 fuel Ha R0 R1 R2 T0 T1 T2 Hf) as H.
  unfold castOE_result, cast_result in H.
  destruct (src_castOE_3 N IdealInt fuel p0 p1 p2 e0 e1 e2 tab0 tab1 tab2 r (ax_org a0) (ax_org a1) (ax_org a2))
    as [[[[[[[[[[k ray] dir] eidx] ep] oidx] op] step] td] tm]|]; exact H.
Qed.
Print Assumptions C14_source_tie_cast_origin_end_3d.

(* cast(end): the model's OpCastEnd *)
Theorem C14_source_tie_cast_end_2d : forall (T : Type) (N : NumOps T), LitOK N ->
  forall (c : caster (T:=T)) a0 a1 r o0 o1 oi0 oi1 e0 e1 (tab0 tab1 : Z -> T) fuel,
  rc_axes c = [a0; a1] -> rc_origin c = [o0; o1] -> rc_oidx c = [oi0; oi1] -> ax_r a0 = r -> ax_r a1 = r ->
  tab0 oi0 = gm_centre N r (ax_org a0) oi0 -> tab1 oi1 = gm_centre N r (ax_org a1) oi1 ->
  (Z.to_nat (ncells (set_end N c [e0; e1])) <= fuel)%nat ->
  castE_result N (set_end N c [e0; e1]) (src_castE_2 N IdealInt fuel e0 e1 tab0 tab1 r (ax_org a0) (ax_org a1) oi0 oi1 o0 o1).
Proof. exact @tie_castE_2. Qed.

Theorem C14_source_tie_cast_end_3d : forall (T : Type) (N : NumOps T), LitOK N ->
  forall (c : caster (T:=T)) a0 a1 a2 r o0 o1 o2 oi0 oi1 oi2 e0 e1 e2 (tab0 tab1 tab2 : Z -> T) fuel,
  rc_axes c = [a0; a1; a2] -> rc_origin c = [o0; o1; o2] -> rc_oidx c = [oi0; oi1; oi2] ->
  ax_r a0 = r -> ax_r a1 = r -> ax_r a2 = r ->
  tab0 oi0 = gm_centre N r (ax_org a0) oi0 -> tab1 oi1 = gm_centre N r (ax_org a1) oi1 ->
  tab2 oi2 = gm_centre N r (ax_org a2) oi2 ->
  (Z.to_nat (ncells (set_end N c [e0; e1; e2])) <= fuel)%nat ->
  castE_result N (set_end N c [e0; e1; e2])
    (src_castE_3 N IdealInt fuel e0 e1 e2 tab0 tab1 tab2 r (ax_org a0) (ax_org a1) (ax_org a2) oi0 oi1 oi2 o0 o1 o2).
Proof. exact @tie_castE_3. Qed.

(* non-vacuity: the generated cast() on the caster of C14_ex, with 4 units of fuel, returns its 4 cells, the last being (2,1) *)
Example C14_source_tie_cast_ex :
  match src_cast_2 ROps IdealInt 4 2 1 0 0 1 1 2%R 4%R 1%R 2%R with
  | None => False
  | Some ((k, ray), _) => k = 4%Z /\ ray 0%Z = [0; 0]%Z /\ ray 3%Z = [2; 1]%Z
  end.
Proof.
  pose (c := {| rc_axes := []; rc_origin := []; rc_oidx := [0; 0]%Z; rc_eidx := [2; 1]%Z;
                rc_tmax := [1; 2]%R; rc_tdelta := [2; 4]%R; rc_step := [1; 1]%Z |}).
  pose proof (C14_source_tie_cast_loop_2d R ROps c 2 1 0 0 1 1 2%R 4%R 1%R 2%R 4 eq_refl eq_refl eq_refl eq_refl eq_refl) as H.
  assert (Hn : ncells c = 4%Z) by reflexivity.
  destruct (src_cast_2 ROps IdealInt 4 2 1 0 0 1 1 2%R 4%R 1%R 2%R) as [[[k ray] tm]|]; [|apply H; rewrite Hn; lia].
  destruct H as (Hk & _ & Hr); [rewrite Hn; lia|].
  destruct C14_ex as (Hlen & Hlast). fold c in Hlen, Hlast.
  split; [rewrite Hk; exact Hn|]. split.
  - replace (ray 0%Z) with (ray (Z.of_nat 0)) by reflexivity. rewrite (Hr 0%nat) by (rewrite Hlen; lia). reflexivity.
  - replace (ray 3%Z) with (ray (Z.of_nat 3)) by reflexivity. rewrite (Hr 3%nat) by (rewrite Hlen; lia).
    rewrite <- Hlast.
    assert (HL : forall (l : list (list Z)), length l = 4%nat -> nth 3 l [] = last l []).
    { intros [|a [|b [|c0 [|d [|x l]]]]] Hl; try discriminate Hl. reflexivity. }
    apply HL. exact Hlen.
Qed.
