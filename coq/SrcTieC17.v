(* SrcTieC17.v — the rate monitor and the rate check-up regenerated from the clang AST of the current source
   (gen/SrcRate.v, written on every run by translate/tr_C17_rate.py) ARE the functions of RateModel.v that the theorems of
   Properties_C17.v are about — for EVERY numeric dictionary N (so also for the binary64 one that is executed and for the
   rounded dictionary of RateFloat.v): the generated terms and the model perform the same dictionary operations in the
   same order; the integer (nanosecond) arithmetic is compared up to the ring laws of Z.

   What is generated (vocabulary: translate/imptrans.py): durationToNanoSecond, durationToSecond (Time.hpp);
   RateMonitoring::initialize / update / timeout / getRate as transformers of the fields windowSize_, lastDuration_,
   periods_ (the std::queue as a list, front first), periodsSum_, rate_ — lastPeriod_ is written by update and read by no
   method: the model has no such field, the lemma says what is stored there; CheckupRate<CheckupEqualTo<double>> and
   CheckupRate<CheckupGreaterThan<double>>::evaluate / heartBeatCallback / getReport, in which the member objects
   rateMonitoring_ and checkup_ are abstract states and their methods abstract transformers (arguments F_..): they are
   instantiated here with the model's transformers (tied to the source by the lemmas of this file and of SrcTieC18.v).
   Not generated: the constructors (initial field values 0 / empty queue / Duration::zero(), the "no data received"
   diagnostic) — they stay tied by the correspondence run only.

   Renaming a local, reordering independent statements, `1 + windowSize_`, `b < a` for `a > b` leave the lemmas provable;
   `windowSize_ + 1` -> `windowSize_`, dropping `periods_.pop()`, moving `2 *` outside the cast, `>` -> `>=` in the
   time-out test, a different constant do not. *)
From Coq Require Import ZArith List Bool Lia.
From Romea Require Import Num DiagModel RateModel.
From Romea.gen Require Import RepoConstants SrcRate.
Import ListNotations.
Local Open Scope Z_scope.

(* integer tests met in the goal are split and decided by lia; what remains must be equal up to the ring laws of Z *)
Ltac split_ztests :=
  repeat match goal with
         | |- context [Z.eqb ?a ?b] => destruct (Z.eqb_spec a b)
         | |- context [Z.ltb ?a ?b] => destruct (Z.ltb_spec a b)
         | |- context [Z.leb ?a ?b] => destruct (Z.leb_spec a b)
         end.
Ltac zeq := first [ reflexivity | lia | (progress f_equal; zeq) ].
Ltac zfields := repeat split; cbn [rm_window rm_last rm_periods rm_sum rm_rate]; zeq.

Section Tie.
Context {T : Type} (N : NumOps T).

(* ---- Time.hpp ---- *)
Lemma tie_durationToNanoSecond d : src_durationToNanoSecond d = d.
Proof. reflexivity. Qed.

Lemma tie_durationToSecond d : src_durationToSecond N d = duration_to_second N d.
Proof. reflexivity. Qed.

(* ---- RateMonitoring::initialize: the window size ---- *)
Lemma tie_initialize r : src_rm_initialize N r = window_size N r.
Proof. reflexivity. Qed.

(* ---- RateMonitoring::update: arguments = duration, lastDuration_, periodsSum_, periods_, rate_, windowSize_;
        result = (lastDuration_, lastPeriod_, periodsSum_, periods_, rate_, returned value) ---- *)
Lemma tie_update (s : rmon (T:=T)) d :
  let '(last, lastPeriod, sum, periods, rate, ret) :=
    src_rm_update N d (rm_last s) (rm_sum s) (rm_periods s) (rm_rate s) (rm_window s) in
  {| rm_window := rm_window s; rm_last := last; rm_periods := periods; rm_sum := sum; rm_rate := rate |} = rm_update N s d
  /\ ret = rm_rate (rm_update N s d) /\ lastPeriod = d - rm_last s.
Proof.
  unfold src_rm_update, rm_update, rate_of_sum, src_durationToNanoSecond. cbv zeta.
  split_ztests; try lia; zfields.
Qed.

(* ---- RateMonitoring::timeout: arguments = duration, lastDuration_, periods_, rate_; result = (rate_, returned value) ---- *)
Lemma tie_timeout (s : rmon (T:=T)) d :
  (let '(rate, fired) := src_rm_timeout N d (rm_last s) (rm_periods s) (rm_rate s) in
   ({| rm_window := rm_window s; rm_last := rm_last s; rm_periods := rm_periods s; rm_sum := rm_sum s; rm_rate := rate |}, fired))
  = rm_timeout N s d.
Proof.
  unfold src_rm_timeout, rm_timeout, src_durationToSecond, duration_to_second, is_nil. cbv zeta.
  destruct s as [w l q sm rt]; cbn [rm_window rm_last rm_periods rm_sum rm_rate].
  change rate_timeout_s_m with 5; change rate_timeout_s_e with (-1); change time_ns_per_s_m with 1; change time_ns_per_s_e with 9.
  destruct q as [|p q]; cbn [negb andb orb];
    repeat match goal with |- context [nltb N ?a ?b] => destruct (nltb N a b) end;
    repeat match goal with |- context [nleb N ?a ?b] => destruct (nleb N a b) end; reflexivity.
Qed.

Lemma tie_getRate (s : rmon (T:=T)) : src_rm_getRate (rm_rate s) = rm_rate s.
Proof. reflexivity. Qed.

(* ---- the monitor as a member object: its methods as state transformers on the model's record ---- *)
Definition mon_update (m : rmon (T:=T)) (d : Z) : rmon * T := (rm_update N m d, rm_rate (rm_update N m d)).
Definition chk_getReport (c : checkup (T:=T)) : checkup * creport := (c, c_report c).

(* the generated update, packed into the record, is that transformer *)
Lemma tie_mon_update (m : rmon (T:=T)) d :
  (let '(last, _, sum, periods, rate, ret) :=
     src_rm_update N d (rm_last m) (rm_sum m) (rm_periods m) (rm_rate m) (rm_window m) in
   ({| rm_window := rm_window m; rm_last := last; rm_periods := periods; rm_sum := sum; rm_rate := rate |}, ret))
  = mon_update m d.
Proof.
  pose proof (tie_update m d) as H. unfold mon_update.
  destruct (src_rm_update N d (rm_last m) (rm_sum m) (rm_periods m) (rm_rate m) (rm_window m)) as [[[[[a b] c] e] f] g].
  destruct H as (H1 & H2 & _). rewrite H1, H2. reflexivity.
Qed.

(* ---- CheckupRate<CheckupType>::evaluate / heartBeatCallback / getReport ---- *)
Lemma tie_cr_evaluate_equal (c : crate (T:=T)) stamp :
  (let '(chk, mon, st) := src_cr_evaluate_equal checkup rmon (eval_equal_to N) mon_update stamp (cr_chk c) (cr_mon c) in
   ({| cr_mon := mon; cr_chk := chk |}, st)) = cr_evaluate N KEqual c stamp.
Proof.
  unfold src_cr_evaluate_equal, cr_evaluate, mon_update. cbv zeta. cbn [fst snd].
  destruct (eval_equal_to N (cr_chk c) (rm_rate (rm_update N (cr_mon c) stamp))); reflexivity.
Qed.

Lemma tie_cr_evaluate_greater (c : crate (T:=T)) stamp :
  (let '(chk, mon, st) := src_cr_evaluate_greater checkup rmon (eval_greater_than N) mon_update stamp (cr_chk c) (cr_mon c) in
   ({| cr_mon := mon; cr_chk := chk |}, st)) = cr_evaluate N KGreater c stamp.
Proof.
  unfold src_cr_evaluate_greater, cr_evaluate, mon_update. cbv zeta. cbn [fst snd].
  destruct (eval_greater_than N (cr_chk c) (rm_rate (rm_update N (cr_mon c) stamp))); reflexivity.
Qed.

Lemma tie_cr_heartbeat_equal (c : crate (T:=T)) stamp :
  (let '(chk, mon, alive) := src_cr_heartbeat_equal checkup rmon checkup_timeout (rm_timeout N) stamp (cr_chk c) (cr_mon c) in
   ({| cr_mon := mon; cr_chk := chk |}, alive)) = cr_heartbeat N c stamp.
Proof.
  unfold src_cr_heartbeat_equal, cr_heartbeat. cbv zeta.
  destruct (rm_timeout N (cr_mon c) stamp) as [m b]; cbn [fst snd]. destruct b; reflexivity.
Qed.

Lemma tie_cr_heartbeat_greater (c : crate (T:=T)) stamp :
  (let '(chk, mon, alive) := src_cr_heartbeat_greater checkup rmon checkup_timeout (rm_timeout N) stamp (cr_chk c) (cr_mon c) in
   ({| cr_mon := mon; cr_chk := chk |}, alive)) = cr_heartbeat N c stamp.
Proof.
  unfold src_cr_heartbeat_greater, cr_heartbeat. cbv zeta.
  destruct (rm_timeout N (cr_mon c) stamp) as [m b]; cbn [fst snd]. destruct b; reflexivity.
Qed.

(* getReport returns the report of the check-up member and changes nothing *)
Lemma tie_cr_getReport (c : crate (T:=T)) :
  src_cr_getReport_equal checkup chk_getReport (cr_chk c) = (cr_chk c, c_report (cr_chk c)) /\
  src_cr_getReport_greater checkup chk_getReport (cr_chk c) = (cr_chk c, c_report (cr_chk c)).
Proof. split; reflexivity. Qed.

End Tie.
