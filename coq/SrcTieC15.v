(* SrcTieC15.v — C15 syntactic source tie: the programs regenerated from the clang AST (gen/SrcWrapGrid.v), run by the
   interpreter of WrapGridImp.v, compute exactly the states of WrapGridModel — for every grid size, offset and state
   (loop invariants, induction on the trip counts; nothing here is a computation on samples). *)
From Coq Require Import ZArith List Bool Arith Lia.
From Romea Require Import WrapGridModel WrapGridProofs WrapGridImp WrapGridImpFacts.
From Romea.gen Require Import SrcWrapGrid.
Import ListNotations.
Local Open Scope Z_scope.

Ltac sg := unfold get, set, set_buf in *; cbn [s_var s_buf var_eqb Nat.eqb] in *.
Ltac gs := repeat (rewrite get_set_same || rewrite get_set_other by reflexivity).

Section Tie.
Context {V : Type}.
Notation state := (state V).
Notation wgrid := (wgrid V).

(* the flat buffer is addressable with size_t indexes (std::vector cannot be larger) *)
Definition fits (g : wgrid) : Prop := Z.of_nat (g_nx g * g_ny g * g_nz g) < two64.

(* how a C++ object state represents a model grid: members of Grid / WrappableGrid *)
Definition frame2 (g : wgrid) (s : state) : Prop :=
  get s (VN 0) = Z.of_nat (g_nx g) /\ get s (VN 1) = Z.of_nat (g_ny g) /\
  get s (VNm1 0) = Z.of_nat (g_nx g) - 1 /\ get s (VNm1 1) = Z.of_nat (g_ny g) - 1 /\
  get s (VCoef 0) = 1 /\ get s (VCoef 1) = Z.of_nat (g_nx g) /\
  get s (VOff 0) = Z.of_nat (g_ox g) /\ get s (VOff 1) = Z.of_nat (g_oy g).

Definition frame3 (g : wgrid) (s : state) : Prop :=
  frame2 g s /\
  get s (VN 2) = Z.of_nat (g_nz g) /\ get s (VNm1 2) = Z.of_nat (g_nz g) - 1 /\
  get s (VCoef 2) = Z.of_nat (g_ny g) * Z.of_nat (g_nx g) /\ get s (VOff 2) = Z.of_nat (g_oz g).

Definition frame (g : wgrid) (s : state) : Prop := if g_dim3 g then frame3 g s else frame2 g s.
Definition represents (s : state) (g : wgrid) : Prop := frame g s /\ s_buf s = g_buf g.

Lemma two64_pos : 0 < two64. Proof. reflexivity. Qed.

Lemma lin_Z (g : wgrid) x y z :
  Z.of_nat (lin g (x, y, z)) =
  (Z.of_nat x + Z.of_nat (g_ox g)) mod Z.of_nat (g_nx g)
  + Z.of_nat (g_nx g) * ((Z.of_nat y + Z.of_nat (g_oy g)) mod Z.of_nat (g_ny g))
  + Z.of_nat (g_nx g) * Z.of_nat (g_ny g) * ((Z.of_nat z + Z.of_nat (g_oz g)) mod Z.of_nat (g_nz g)).
Proof. unfold lin. rewrite !Nat2Z.inj_add, !Nat2Z.inj_mul, !Nat2Z.inj_mod, !Nat2Z.inj_add. reflexivity. Qed.

(* bounds used to show that no size_t operation of the index computation wraps *)
Lemma lin_parts (g : wgrid) a b c : valid g -> fits g ->
  0 <= a < Z.of_nat (g_nx g) -> 0 <= b < Z.of_nat (g_ny g) -> 0 <= c < Z.of_nat (g_nz g) ->
  0 <= Z.of_nat (g_nx g) * b /\ 0 <= Z.of_nat (g_nx g) * Z.of_nat (g_ny g) * c /\
  a + Z.of_nat (g_nx g) * b + Z.of_nat (g_nx g) * Z.of_nat (g_ny g) * c < two64 /\
  Z.of_nat (g_nx g) * Z.of_nat (g_ny g) < two64 /\ Z.of_nat (g_nx g) < two64 /\ Z.of_nat (g_ny g) < two64
  /\ Z.of_nat (g_nz g) < two64.
Proof.
  intros (Hx & Hy & Hz & _) Hf Ha Hb Hc. unfold fits in Hf. rewrite !Nat2Z.inj_mul in Hf.
  set (nx := Z.of_nat (g_nx g)) in *. set (ny := Z.of_nat (g_ny g)) in *. set (nz := Z.of_nat (g_nz g)) in *.
  assert (Qx : 0 < nx) by lia. assert (Qy : 0 < ny) by lia. assert (Qz : 0 < nz) by lia.
  assert (H1 : nx * (b + 1) <= nx * ny) by (apply Z.mul_le_mono_nonneg_l; lia).
  assert (H2 : nx * ny * (c + 1) <= nx * ny * nz) by (apply Z.mul_le_mono_nonneg_l; nia).
  assert (H3 : nx * ny * 1 <= nx * ny * nz) by (apply Z.mul_le_mono_nonneg_l; nia).
  assert (H4 : nx * 1 <= nx * ny) by (apply Z.mul_le_mono_nonneg_l; lia).
  assert (H5 : ny * 1 <= ny * nx) by (apply Z.mul_le_mono_nonneg_l; lia).
  assert (H6 : 1 * nz <= nx * ny * nz) by (apply Z.mul_le_mono_nonneg_r; nia).
  repeat split; nia.
Qed.

(* ------------------------------------------------------------------ computeCellLinearIndex_ *)
Lemma linear_index_2d (g : wgrid) (s : state) x y :
  valid g -> g_dim3 g = false -> fits g -> frame2 g s ->
  (x < g_nx g)%nat -> (y < g_ny g)%nat ->
  get s (VArg 0) = Z.of_nat x -> get s (VArg 1) = Z.of_nat y ->
  eval src_linear_index_2d s = Some (Z.of_nat (lin g (x, y, 0%nat))).
Proof.
  intros Hv Hd Hf (N0 & N1 & M0 & M1 & C0 & C1 & O0 & O1) Hx Hy A0 A1.
  pose proof Hv as (Px & Py & Pz & Pox & Poy & Poz & HL & H2d & Hb).
  rewrite lin_Z. rewrite (H2d Hd). change (Z.of_nat 1) with 1. rewrite Z.mod_1_r, Z.mul_0_r, Z.add_0_r.
  set (a := (Z.of_nat x + Z.of_nat (g_ox g)) mod Z.of_nat (g_nx g)).
  set (b := (Z.of_nat y + Z.of_nat (g_oy g)) mod Z.of_nat (g_ny g)).
  assert (Ha : 0 <= a < Z.of_nat (g_nx g)) by (apply Z.mod_pos_bound; lia).
  assert (Hb' : 0 <= b < Z.of_nat (g_ny g)) by (apply Z.mod_pos_bound; lia).
  pose proof (lin_parts g a b 0 Hv Hf Ha Hb' ltac:(lia)) as (B1 & B2 & B3 & B4 & B5 & B6 & B7).
  assert (Ra : Z.rem (Z.of_nat x + Z.of_nat (g_ox g)) (Z.of_nat (g_nx g)) = a) by (apply Z.rem_mod_nonneg; lia).
  assert (Rb : Z.rem (Z.of_nat y + Z.of_nat (g_oy g)) (Z.of_nat (g_ny g)) = b) by (apply Z.rem_mod_nonneg; lia).
  rewrite safe_eval.
  - f_equal. unfold src_linear_index_2d. cbn [evalZ opZ]. rewrite A0, A1, O0, O1, N0, N1, C0, C1, Ra, Rb. lia.
  - unfold src_linear_index_2d. cbn [safe evalZ okop opZ inrange]. rewrite A0, A1, O0, O1, N0, N1, C0, C1, Ra, Rb.
    pose proof two64_pos. assert (T : 2 ^ 32 < two64) by reflexivity. repeat split; try lia; timeout 20 nia.
Qed.

Lemma linear_index_3d (g : wgrid) (s : state) x y z :
  valid g -> fits g -> frame3 g s ->
  (x < g_nx g)%nat -> (y < g_ny g)%nat -> (z < g_nz g)%nat ->
  get s (VArg 0) = Z.of_nat x -> get s (VArg 1) = Z.of_nat y -> get s (VArg 2) = Z.of_nat z ->
  eval src_linear_index_3d s = Some (Z.of_nat (lin g (x, y, z))).
Proof.
  intros Hv Hf ((N0 & N1 & M0 & M1 & C0 & C1 & O0 & O1) & N2 & M2 & C2 & O2) Hx Hy Hz A0 A1 A2.
  pose proof Hv as (Px & Py & Pz & Pox & Poy & Poz & HL & H2d & Hb).
  rewrite lin_Z.
  set (a := (Z.of_nat x + Z.of_nat (g_ox g)) mod Z.of_nat (g_nx g)).
  set (b := (Z.of_nat y + Z.of_nat (g_oy g)) mod Z.of_nat (g_ny g)).
  set (c := (Z.of_nat z + Z.of_nat (g_oz g)) mod Z.of_nat (g_nz g)).
  assert (Ha : 0 <= a < Z.of_nat (g_nx g)) by (apply Z.mod_pos_bound; lia).
  assert (Hb' : 0 <= b < Z.of_nat (g_ny g)) by (apply Z.mod_pos_bound; lia).
  assert (Hc : 0 <= c < Z.of_nat (g_nz g)) by (apply Z.mod_pos_bound; lia).
  pose proof (lin_parts g a b c Hv Hf Ha Hb' Hc) as (B1 & B2 & B3 & B4 & B5 & B6 & B7).
  assert (Ra : Z.rem (Z.of_nat x + Z.of_nat (g_ox g)) (Z.of_nat (g_nx g)) = a) by (apply Z.rem_mod_nonneg; lia).
  assert (Rb : Z.rem (Z.of_nat y + Z.of_nat (g_oy g)) (Z.of_nat (g_ny g)) = b) by (apply Z.rem_mod_nonneg; lia).
  assert (Rc : Z.rem (Z.of_nat z + Z.of_nat (g_oz g)) (Z.of_nat (g_nz g)) = c) by (apply Z.rem_mod_nonneg; lia).
  rewrite safe_eval.
  - f_equal. unfold src_linear_index_3d. cbn [evalZ opZ]. rewrite A0, A1, A2, O0, O1, O2, N0, N1, N2, C0, C1, C2, Ra, Rb, Rc. lia.
  - unfold src_linear_index_3d. cbn [safe evalZ okop opZ inrange].
    rewrite A0, A1, A2, O0, O1, O2, N0, N1, N2, C0, C1, C2, Ra, Rb, Rc.
    pose proof two64_pos. assert (T : 2 ^ 32 < two64) by reflexivity. repeat split; try lia; timeout 20 nia.
Qed.

(* ================================================================== loop nests, generic in the write statement W *)
Definition local (v : var) : bool := match v with VIdx _ | VCnt _ | VArg _ | VLoc _ => true | _ => false end.

Lemma frame_set (g : wgrid) (s : state) v z : local v = true -> frame g s -> frame g (set s v z).
Proof.
  intros L. unfold frame, frame3, frame2. destruct v; try discriminate L; destruct (g_dim3 g); sg; exact (fun H => H).
Qed.
Lemma frame_set_buf (g : wgrid) (s : state) b : frame g s -> frame g (set_buf s b).
Proof. unfold frame, frame3, frame2. destruct (g_dim3 g); sg; exact (fun H => H). Qed.

Lemma run_up_S n i : run_up n (S i) = run_up n i ++ [(i mod n)%nat].
Proof. unfold run_up. rewrite seq_S, map_app. reflexivity. Qed.
Lemma run_down_S n i : run_down n (S i) = run_down n i ++ [((S i * (n - 1)) mod n)%nat].
Proof. unfold run_down. rewrite seq_S, map_app. reflexivity. Qed.
Lemma all_S n : all (S n) = all n ++ [n]. Proof. unfold all. rewrite seq_S. reflexivity. Qed.

Section Generic.
Variables (g : wgrid) (e : V) (kx ky kz : Z).
Hypothesis Hv : valid g.
Hypothesis Hk : - two31 <= kx < two31 /\ - two31 <= ky < two31 /\ - two31 <= kz < two31.

Definition blank (cells : list idx) : list V := fold_left (fun b c => set_nth (lin g c) e b) cells (g_buf g).
Definition pars (s : state) : Prop :=
  get s (VPar 0) = kx /\ get s (VPar 1) = ky /\ (g_dim3 g = true -> get s (VPar 2) = kz).
Definition St (cells : list idx) (s : state) : Prop := frame g s /\ pars s /\ s_buf s = blank cells.
Definition yz_at (s : state) (y z : nat) : Prop :=
  get s (VIdx 1) = Z.of_nat y /\ (if g_dim3 g then get s (VIdx 2) = Z.of_nat z else z = 0%nat).
Definition z_at (s : state) (z : nat) : Prop := if g_dim3 g then get s (VIdx 2) = Z.of_nat z else z = 0%nat.

Lemma St_set cells s v z : local v = true -> St cells s -> St cells (set s v z).
Proof.
  intros L (F & P & B). split; [apply frame_set; assumption|]. split; [|exact B].
  unfold pars in *. destruct v; try discriminate L; sg; exact P.
Qed.

Lemma frame_N0 s : frame g s -> get s (VN 0) = Z.of_nat (g_nx g).
Proof. unfold frame, frame3, frame2. destruct (g_dim3 g); tauto. Qed.
Lemma frame_N1 s : frame g s -> get s (VN 1) = Z.of_nat (g_ny g).
Proof. unfold frame, frame3, frame2. destruct (g_dim3 g); tauto. Qed.
Lemma frame_M0 s : frame g s -> get s (VNm1 0) = Z.of_nat (g_nx g) - 1.
Proof. unfold frame, frame3, frame2. destruct (g_dim3 g); tauto. Qed.
Lemma frame_M1 s : frame g s -> get s (VNm1 1) = Z.of_nat (g_ny g) - 1.
Proof. unfold frame, frame3, frame2. destruct (g_dim3 g); tauto. Qed.

Lemma n_bounds : (0 < g_nx g)%nat /\ (0 < g_ny g)%nat /\ (0 < g_nz g)%nat /\
  Z.of_nat (g_nx g) < 2 ^ 31 /\ Z.of_nat (g_ny g) < 2 ^ 31 /\ Z.of_nat (g_nz g) < 2 ^ 31.
Proof. destruct Hv as (A & B & C & _ & _ & _ & _ & _ & D). tauto. Qed.

(* the write statement: buffer_[computeCellLinearIndex_(cellIndexes)] = emptyValue *)
Variable W : stmt.
Hypothesis HW : forall cells s x y z, St cells s -> get s (VIdx 0) = Z.of_nat x -> yz_at s y z ->
  (x < g_nx g)%nat -> (y < g_ny g)%nat -> (z < g_nz g)%nat ->
  exists s', exec e W s = Some s' /\ St (cells ++ [(x, y, z)]) s' /\ (forall v, get s' v = get s v).

Definition row (y z : nat) (xs : list nat) : list idx := map (fun x => (x, y, z)) xs.

(* advance statements  i = (i + 1) % n  and  i = (i + n - 1) % n  on axis a (semantic shape) *)
Definition adv_up_spec (A : stmt) (a : nat) : Prop :=
  forall (s : state) i n, get s (VN a) = Z.of_nat n -> get s (VIdx a) = Z.of_nat i -> (i < n)%nat -> Z.of_nat n < 2 ^ 31 ->
    exec e A s = Some (set s (VIdx a) (Z.of_nat ((i + 1) mod n))).
Definition adv_down_spec (A : stmt) (a : nat) : Prop :=
  forall (s : state) i n, get s (VN a) = Z.of_nat n -> get s (VNm1 a) = Z.of_nat n - 1 ->
    get s (VIdx a) = Z.of_nat i -> (i < n)%nat -> Z.of_nat n < 2 ^ 31 ->
    exec e A s = Some (set s (VIdx a) (Z.of_nat ((i + (n - 1)) mod n))).

Lemma up_idx n j : (0 < n)%nat -> ((j mod n + 1) mod n = (S j) mod n)%nat.
Proof. intros H. rewrite Nat.add_mod_idemp_l by lia. f_equal. lia. Qed.
Lemma down_idx n j : (0 < n)%nat -> (((j * (n - 1)) mod n + (n - 1)) mod n = (S j * (n - 1)) mod n)%nat.
Proof. intros H. rewrite Nat.add_mod_idemp_l by lia. f_equal. lia. Qed.

(* the coordinates of the enclosing loops *)
Definition at_outer (a : nat) (s : state) (y z : nat) : Prop :=
  match a with O => yz_at s y z | S O => z_at s z | _ => True end.
Lemma at_outer_ext a s s' y z :
  (forall b, (a < b)%nat -> get s' (VIdx b) = get s (VIdx b)) -> at_outer a s y z -> at_outer a s' y z.
Proof.
  intros H. destruct a as [|[|a]]; cbn; unfold yz_at, z_at; [| |tauto].
  - rewrite (H 1%nat), (H 2%nat) by lia. tauto.
  - rewrite (H 2%nat) by lia. tauto.
Qed.

Section Axis.
Variables (a n : nat) (k : Z) (B : stmt) (cellsof : nat -> list idx) (m : var -> bool) (y z : nat).
Hypothesis Hn : (0 < n)%nat /\ Z.of_nat n < 2 ^ 31.
Hypothesis HNa : forall s, frame g s -> get s (VN a) = Z.of_nat n /\ get s (VNm1 a) = Z.of_nat n - 1.
Hypothesis Hka : forall s, pars s -> get s (VPar a) = k.
Hypothesis Hkr : - two31 <= k < two31.
Hypothesis Hm_outer : forall b, (a < b)%nat -> m (VIdx b) = false.
Hypothesis Hm_a : m (VIdx a) = false.
Hypothesis HB : forall cells s i, St cells s -> get s (VIdx a) = Z.of_nat i -> at_outer a s y z -> (i < n)%nat ->
  exists s', exec e B s = Some s' /\ St (cells ++ cellsof i) s' /\ (forall v, m v = false -> get s' v = get s v).

Lemma flat_map_snoc {X Y} (f : X -> list Y) l x : flat_map f (l ++ [x]) = flat_map f l ++ f x.
Proof. rewrite flat_map_app. cbn. rewrite app_nil_r. reflexivity. Qed.

Lemma outer_keep (s s' : state) (P : var -> Prop) :
  (forall v, P v -> get s' v = get s v) -> (forall b, (a < b)%nat -> P (VIdx b)) ->
  at_outer a s y z -> at_outer a s' y z.
Proof. intros H1 H2. apply at_outer_ext. intros b Hb. apply H1, H2, Hb. Qed.

(* ---- for (i = 0; i < n; i++) B *)
Lemma axis_full init cond step count cells s :
  (forall s : state, exec e init s = Some (set s (VIdx a) 0)) ->
  (forall s : state, eval cond s = Some (b2z (get s (VIdx a) <? get s (VN a)))) ->
  (forall s : state, exec e step s = Some (set s (VIdx a) ((get s (VIdx a) + 1) mod two64))) ->
  (forall s : state, eval count s = Some (get s (VN a) - get s (VIdx a))) ->
  St cells s -> at_outer a s y z ->
  exists s', exec e (SFor init cond step B count) s = Some s' /\ St (cells ++ flat_map cellsof (all n)) s' /\
             (forall v, m v = false -> var_eqb v (VIdx a) = false -> get s' v = get s v).
Proof.
  intros Hi Hc Hs Hcn HSt Hout.
  destruct (loop_full e init cond step B count (VIdx a) (VN a) n
              (fun j sj => St (cells ++ flat_map cellsof (all j)) sj /\
                           (forall v, m v = false -> var_eqb v (VIdx a) = false -> get sj v = get s v)) s Hi Hc Hs Hcn eq_refl)
    as (s' & E & (HS' & Hk') & _).
  - assert (T : 2 ^ 31 < two64) by reflexivity. lia.
  - apply HNa, HSt.
  - cbn. rewrite app_nil_r. split; [apply St_set; [reflexivity|exact HSt]|]. intros v _ Hva. apply get_set_other, Hva.
  - intros j sj Hj (HSj & Hkj) Hvj Hbj.
    assert (Houtj : at_outer a sj y z).
    { apply (outer_keep s sj (fun v => m v = false /\ var_eqb v (VIdx a) = false)); [intros v [? ?]; auto| |exact Hout].
      intros b Hb. split; [apply Hm_outer, Hb|]. cbn. apply Nat.eqb_neq. lia. }
    destruct (HB _ sj j HSj Hvj Houtj Hj) as (s1 & E1 & S1 & G1).
    exists s1. split; [exact E1|]. rewrite (G1 _ Hm_a). split; [exact Hvj|].
    assert (Mn : m (VN a) = false \/ True) by tauto.
    split. { destruct (HNa s1 (proj1 S1)) as [-> _]. reflexivity. }
    rewrite all_S, flat_map_snoc, app_assoc. split; [apply St_set; [reflexivity|exact S1]|].
    intros v Hmv Hva. rewrite get_set_other by exact Hva. rewrite G1 by exact Hmv. apply Hkj; assumption.
  - eauto.
Qed.

Hypothesis Hm_cnt : m (VCnt 0) = false.

(* ---- for (c = 0; c < k; c++) { B; i = (i + 1) % n; }   entered with i = 0 *)
Lemma axis_up init cond step count A cells s :
  (forall s : state, exec e init s = Some (set s (VCnt 0) 0)) ->
  (forall s : state, eval cond s = Some (b2z (get s (VCnt 0) <? get s (VPar a)))) ->
  (forall s : state, exec e step s = match norm I32 (get s (VCnt 0) + 1) with Some z => Some (set s (VCnt 0) z) | None => None end) ->
  (forall s : state, eval count s = Some (get s (VPar a) - get s (VCnt 0))) ->
  adv_up_spec A a ->
  St cells s -> at_outer a s y z -> get s (VIdx a) = 0 ->
  exists s', exec e (SFor init cond step (SSeq B A) count) s = Some s' /\
             St (cells ++ flat_map cellsof (run_up n (Z.to_nat k))) s' /\
             (forall v, m v = false -> var_eqb v (VIdx a) = false -> var_eqb v (VCnt 0) = false -> get s' v = get s v) /\
             (k <= 0 -> get s' (VIdx a) = 0).
Proof.
  intros Hi Hc Hs Hcn HA HSt Hout Hx0. destruct Hn as [Pn Bn].
  destruct (loop_up e init cond step (SSeq B A) count (VCnt 0) (VPar a) k
              (fun j sj => St (cells ++ flat_map cellsof (run_up n j)) sj /\
                 (forall v, m v = false -> var_eqb v (VIdx a) = false -> var_eqb v (VCnt 0) = false -> get sj v = get s v) /\
                 get sj (VIdx a) = Z.of_nat (j mod n)) s Hi Hc Hs Hcn eq_refl Hkr)
    as (s' & E & (HS' & Hk' & Hx')).
  - apply Hka, HSt.
  - cbn. rewrite app_nil_r. split; [apply St_set; [reflexivity|exact HSt]|].
    split; [intros v _ _ Hvc; apply get_set_other, Hvc|]. gs. rewrite Nat.mod_0_l by lia. exact Hx0.
  - intros j sj Hj (HSj & Hkj & Hxj) Hcj Hbj.
    assert (Hlt : (j mod n < n)%nat) by (apply Nat.mod_upper_bound; lia).
    assert (Houtj : at_outer a sj y z).
    { apply (outer_keep s sj (fun v => m v = false /\ var_eqb v (VIdx a) = false /\ var_eqb v (VCnt 0) = false));
        [intros v (? & ? & ?); auto| |exact Hout].
      intros b Hb. split; [apply Hm_outer, Hb|]. split; [|reflexivity]. cbn. apply Nat.eqb_neq. lia. }
    destruct (HB _ sj _ HSj Hxj Houtj Hlt) as (s1 & E1 & S1 & G1).
    cbn [exec]. rewrite E1. cbn [bind].
    rewrite (HA s1 (j mod n)%nat n); [| apply HNa, S1 | rewrite (G1 _ Hm_a); exact Hxj | exact Hlt | exact Bn].
    eexists; split; [reflexivity|]. gs. rewrite (G1 _ Hm_cnt). split; [exact Hcj|].
    split. { rewrite <- Hbj. rewrite !(Hka _ (proj1 (proj2 S1))), !(Hka _ (proj1 (proj2 HSj))). reflexivity. }
    rewrite run_up_S, flat_map_snoc, app_assoc.
    split; [apply (St_set _ _ (VCnt 0)); [reflexivity|]; apply (St_set _ _ (VIdx a)); [reflexivity|exact S1]|].
    split.
    + intros v Hmv Hva Hvc. rewrite get_set_other by exact Hvc. rewrite get_set_other by exact Hva.
      rewrite G1 by exact Hmv. apply Hkj; assumption.
    + rewrite up_idx by lia. reflexivity.
  - exists s'. split; [exact E|]. split; [exact HS'|]. split; [exact Hk'|].
    intros Hle. rewrite Hx'. replace (Z.to_nat k) with O by lia. rewrite Nat.mod_0_l by lia. reflexivity.
Qed.

(* ---- for (c = 0; c > k; c--) { i = (i + n - 1) % n; B; }   entered with i = 0 when it runs at all *)
Lemma axis_down init cond step count A cells s :
  (forall s : state, exec e init s = Some (set s (VCnt 0) 0)) ->
  (forall s : state, eval cond s = Some (b2z (get s (VPar a) <? get s (VCnt 0)))) ->
  (forall s : state, exec e step s = match norm I32 (get s (VCnt 0) - 1) with Some z => Some (set s (VCnt 0) z) | None => None end) ->
  (forall s : state, eval count s = Some (get s (VCnt 0) - get s (VPar a))) ->
  adv_down_spec A a ->
  St cells s -> at_outer a s y z -> (k < 0 -> get s (VIdx a) = 0) ->
  exists s', exec e (SFor init cond step (SSeq A B) count) s = Some s' /\
             St (cells ++ flat_map cellsof (run_down n (Z.to_nat (- k)))) s' /\
             (forall v, m v = false -> var_eqb v (VIdx a) = false -> var_eqb v (VCnt 0) = false -> get s' v = get s v).
Proof.
  intros Hi Hc Hs Hcn HA HSt Hout Hx0. destruct Hn as [Pn Bn].
  destruct (loop_down e init cond step (SSeq A B) count (VCnt 0) (VPar a) k
              (fun j sj => St (cells ++ flat_map cellsof (run_down n j)) sj /\
                 (forall v, m v = false -> var_eqb v (VIdx a) = false -> var_eqb v (VCnt 0) = false -> get sj v = get s v) /\
                 ((0 < Z.to_nat (- k))%nat -> get sj (VIdx a) = Z.of_nat ((j * (n - 1)) mod n))) s Hi Hc Hs Hcn eq_refl Hkr)
    as (s' & E & (HS' & Hk' & Hx')).
  - apply Hka, HSt.
  - cbn. rewrite app_nil_r. split; [apply St_set; [reflexivity|exact HSt]|].
    split; [intros v _ _ Hvc; apply get_set_other, Hvc|]. intros Hpos. gs. rewrite Nat.mod_0_l by lia. apply Hx0. lia.
  - intros j sj Hj (HSj & Hkj & Hxj) Hcj Hbj. specialize (Hxj ltac:(lia)).
    assert (Hlt : ((j * (n - 1)) mod n < n)%nat) by (apply Nat.mod_upper_bound; lia).
    assert (Hlt' : ((S j * (n - 1)) mod n < n)%nat) by (apply Nat.mod_upper_bound; lia).
    cbn [exec].
    rewrite (HA sj _ n (proj1 (HNa _ (proj1 HSj))) (proj2 (HNa _ (proj1 HSj))) Hxj Hlt Bn). cbn [bind].
    rewrite down_idx by lia.
    set (sj' := set sj (VIdx a) (Z.of_nat ((S j * (n - 1)) mod n))).
    assert (Houtj : at_outer a sj' y z).
    { apply (outer_keep s sj' (fun v => m v = false /\ var_eqb v (VIdx a) = false /\ var_eqb v (VCnt 0) = false));
        [intros v (? & Hva & ?); unfold sj'; rewrite get_set_other by exact Hva; auto| |exact Hout].
      intros b Hb. split; [apply Hm_outer, Hb|]. split; [|reflexivity]. cbn. apply Nat.eqb_neq. lia. }
    destruct (HB (cells ++ flat_map cellsof (run_down n j)) sj' ((S j * (n - 1)) mod n)%nat)
      as (s1 & E1 & S1 & G1); [apply St_set; [reflexivity|exact HSj] | apply get_set_same | exact Houtj | exact Hlt' |].
    rewrite E1. eexists; split; [reflexivity|]. rewrite (G1 _ Hm_cnt).
    assert (Hne : var_eqb (VCnt 0) (VIdx a) = false) by reflexivity.
    unfold sj' at 1. rewrite (get_set_other _ (VIdx a) (VCnt 0)) by exact Hne. split; [exact Hcj|].
    split. { rewrite <- Hbj. rewrite !(Hka _ (proj1 (proj2 S1))), !(Hka _ (proj1 (proj2 HSj))). reflexivity. }
    rewrite run_down_S, flat_map_snoc, app_assoc.
    split; [apply (St_set _ _ (VCnt 0)); [reflexivity|exact S1]|].
    split.
    + intros v Hmv Hva Hvc. rewrite get_set_other by exact Hvc. rewrite G1 by exact Hmv.
      unfold sj'. rewrite get_set_other by exact Hva. apply Hkj; assumption.
    + intros _. assert (Hne' : var_eqb (VIdx a) (VCnt 0) = false) by reflexivity.
      rewrite (get_set_other _ (VCnt 0) (VIdx a)) by exact Hne'. rewrite (G1 _ Hm_a). unfold sj'. apply get_set_same.
  - eauto.
Qed.

Lemma axis_run_split : flat_map cellsof (run_up n (Z.to_nat k)) ++ flat_map cellsof (run_down n (Z.to_nat (- k)))
                       = flat_map cellsof (axis_run n k).
Proof. destruct k; cbn [axis_run Z.to_nat Z.opp]; cbn; rewrite ?app_nil_r; reflexivity. Qed.

(* ---- i = 0; up-loop; [i = 0;] down-loop *)
Lemma axis_runs R0 i1 c1 s1 n1 A1 R i2 c2 s2 n2 A2 cells s :
  (forall s : state, exec e R0 s = Some (set s (VIdx a) 0)) ->
  (forall s : state, exec e i1 s = Some (set s (VCnt 0) 0)) ->
  (forall s : state, eval c1 s = Some (b2z (get s (VCnt 0) <? get s (VPar a)))) ->
  (forall s : state, exec e s1 s = match norm I32 (get s (VCnt 0) + 1) with Some z => Some (set s (VCnt 0) z) | None => None end) ->
  (forall s : state, eval n1 s = Some (get s (VPar a) - get s (VCnt 0))) ->
  adv_up_spec A1 a ->
  ((forall s : state, exec e R s = Some (set s (VIdx a) 0)) \/ (forall s : state, exec e R s = Some s)) ->
  (forall s : state, exec e i2 s = Some (set s (VCnt 0) 0)) ->
  (forall s : state, eval c2 s = Some (b2z (get s (VPar a) <? get s (VCnt 0)))) ->
  (forall s : state, exec e s2 s = match norm I32 (get s (VCnt 0) - 1) with Some z => Some (set s (VCnt 0) z) | None => None end) ->
  (forall s : state, eval n2 s = Some (get s (VCnt 0) - get s (VPar a))) ->
  adv_down_spec A2 a ->
  St cells s -> at_outer a s y z ->
  exists s', exec e (SSeq R0 (SSeq (SFor i1 c1 s1 (SSeq B A1) n1) (SSeq R (SFor i2 c2 s2 (SSeq A2 B) n2)))) s = Some s' /\
             St (cells ++ flat_map cellsof (axis_run n k)) s' /\
             (forall v, m v = false -> var_eqb v (VIdx a) = false -> var_eqb v (VCnt 0) = false -> get s' v = get s v).
Proof.
  intros HR0 Hi1 Hc1 Hs1 Hn1 HA1 HR Hi2 Hc2 Hs2 Hn2 HA2 HSt Hout.
  cbn [exec]. rewrite HR0. cbn [bind].
  assert (Hout0 : at_outer a (set s (VIdx a) 0) y z).
  { apply (outer_keep s _ (fun v => var_eqb v (VIdx a) = false)); [intros v Hva; apply get_set_other, Hva| |exact Hout].
    intros b Hb. cbn. apply Nat.eqb_neq. lia. }
  destruct (axis_up i1 c1 s1 n1 A1 cells (set s (VIdx a) 0) Hi1 Hc1 Hs1 Hn1 HA1) as (sa & Ea & Sa & Ka & Xa);
    [apply St_set; [reflexivity|exact HSt] | exact Hout0 | apply get_set_same |].
  change (exec e (SFor i1 c1 s1 (SSeq B A1) n1) (set s (VIdx a) 0)) with
         (exec e (SFor i1 c1 s1 (SSeq B A1) n1) (set s (VIdx a) 0)) in Ea.
  match goal with |- exists s', bind ?X _ = _ /\ _ => replace X with (Some sa) end.
  cbn [bind].
  assert (Houta : at_outer a sa y z).
  { apply (outer_keep (set s (VIdx a) 0) sa (fun v => m v = false /\ var_eqb v (VIdx a) = false /\ var_eqb v (VCnt 0) = false));
      [intros v (? & ? & ?); auto| |exact Hout0].
    intros b Hb. split; [apply Hm_outer, Hb|]. split; [|reflexivity]. cbn. apply Nat.eqb_neq. lia. }
  assert (Hfin : forall sb, St (cells ++ flat_map cellsof (run_up n (Z.to_nat k))) sb -> at_outer a sb y z ->
            (k < 0 -> get sb (VIdx a) = 0) ->
            (forall v, m v = false -> var_eqb v (VIdx a) = false -> var_eqb v (VCnt 0) = false -> get sb v = get s v) ->
            exists s', exec e (SFor i2 c2 s2 (SSeq A2 B) n2) sb = Some s' /\
              St (cells ++ flat_map cellsof (axis_run n k)) s' /\
              (forall v, m v = false -> var_eqb v (VIdx a) = false -> var_eqb v (VCnt 0) = false -> get s' v = get s v)).
  { intros sb Sb Ob Xb Kb.
    destruct (axis_down i2 c2 s2 n2 A2 _ sb Hi2 Hc2 Hs2 Hn2 HA2 Sb Ob Xb) as (sd & Ed & Sd & Kd).
    exists sd. split; [exact Ed|]. rewrite <- app_assoc, axis_run_split in Sd. split; [exact Sd|].
    intros v Hm1 Hv1 Hv2. rewrite Kd by assumption. apply Kb; assumption. }
  destruct HR as [HR|HR]; rewrite HR; cbn [bind].
  - apply Hfin.
    + apply St_set; [reflexivity|exact Sa].
    + apply (outer_keep sa _ (fun v => var_eqb v (VIdx a) = false)); [intros v Hva; apply get_set_other, Hva| |exact Houta].
      intros b Hb. cbn. apply Nat.eqb_neq. lia.
    + intros _. apply get_set_same.
    + intros v Hm1 Hv1 Hv2. rewrite get_set_other by exact Hv1. rewrite Ka by assumption. apply get_set_other, Hv1.
  - apply Hfin; [exact Sa | exact Houta | intros Hneg; apply Xa; lia |].
    intros v Hm1 Hv1 Hv2. rewrite Ka by assumption. apply get_set_other, Hv1.
Qed.

End Axis.

End Generic.

(* ================================================================== concrete statements of the generated programs *)
Lemma exec_seq (e : V) a b (s : state) : exec e (SSeq a b) s = bind (exec e a s) (exec e b).
Proof. reflexivity. Qed.

Lemma adv_up_syn (e : V) a :
  adv_up_spec e (SSet (VIdx a) (EBin Rem U64 (EBin Add U64 (EVar (VIdx a)) (ECast U64 (ELit 1))) (EVar (VN a)))) a.
Proof.
  intros s i n HN HI Hlt Hb. apply exec_set.
  assert (T : 2 ^ 31 < two64) by reflexivity. pose proof two64_pos.
  assert (R : Z.rem (Z.of_nat i + 1) (Z.of_nat n) = Z.of_nat ((i + 1) mod n)).
  { rewrite Z.rem_mod_nonneg by lia. rewrite Nat2Z.inj_mod, Nat2Z.inj_add. reflexivity. }
  assert (Hm : (0 <= (i + 1) mod n < n)%nat) by (split; [lia|apply Nat.mod_upper_bound; lia]).
  rewrite safe_eval.
  - cbn [evalZ opZ]. rewrite HN, HI, R. reflexivity.
  - cbn [safe evalZ okop opZ inrange]. rewrite HN, HI, R. repeat split; lia.
Qed.

Lemma adv_down_syn (e : V) a :
  adv_down_spec e (SSet (VIdx a) (EBin Rem U64 (EBin Add U64 (EVar (VIdx a)) (EVar (VNm1 a))) (EVar (VN a)))) a.
Proof.
  intros s i n HN HM HI Hlt Hb. apply exec_set.
  assert (T : 2 ^ 32 < two64) by reflexivity. pose proof two64_pos.
  assert (R : Z.rem (Z.of_nat i + (Z.of_nat n - 1)) (Z.of_nat n) = Z.of_nat ((i + (n - 1)) mod n)).
  { rewrite Z.rem_mod_nonneg by lia. rewrite Nat2Z.inj_mod, Nat2Z.inj_add, Nat2Z.inj_sub by lia. reflexivity. }
  assert (Hm : (0 <= (i + (n - 1)) mod n < n)%nat) by (split; [lia|apply Nat.mod_upper_bound; lia]).
  rewrite safe_eval.
  - cbn [evalZ opZ]. rewrite HN, HM, HI, R. reflexivity.
  - cbn [safe evalZ okop opZ inrange]. rewrite HN, HM, HI, R. repeat split; lia.
Qed.

(* the offset update  (off + n + k % static_cast<int>(n)) % n  with its int -> size_t conversion: this is new_offset *)
Definition offset_expr (a : nat) : expr :=
  EBin Rem U64 (EBin Add U64 (EBin Add U64 (EVar (VOff a)) (EVar (VN a)))
                             (ECast U64 (EBin Rem I32 (EVar (VPar a)) (ECast I32 (EVar (VN a)))))) (EVar (VN a)).

Lemma offset_update (s : state) a off n k :
  get s (VOff a) = Z.of_nat off -> get s (VN a) = Z.of_nat n -> get s (VPar a) = k ->
  (0 < n)%nat -> Z.of_nat n < 2 ^ 31 -> - two31 <= k < two31 ->
  eval (offset_expr a) s = Some (Z.of_nat (new_offset off n k)).
Proof.
  intros HO HN HK Pn Bn Hk. unfold offset_expr. cbn [eval]. rewrite HO, HN, HK.
  assert (T : 2 ^ 31 = two31) by reflexivity.
  rewrite (norm_inrange I32 (Z.of_nat n)) by (cbn; unfold two31 in *; lia).
  pose proof (Z.rem_bound_abs k (Z.of_nat n) ltac:(lia)) as Hb.
  rewrite (binop_ok Rem I32 k (Z.of_nat n)) by (cbn; split; [lia|unfold two31 in *; lia]).
  cbn [binop norm opZ].
  destruct (Z.eqb_spec (Z.of_nat n) 0) as [E0|_]; [lia|]. f_equal.
  unfold new_offset. rewrite Z2Nat.id by (apply Z.mod_pos_bound; lia).
  set (S := ((Z.of_nat off + Z.of_nat n) mod two64 + Z.rem k (Z.of_nat n) mod two64) mod two64).
  assert (HS : 0 <= S) by (apply Z.mod_pos_bound; reflexivity).
  rewrite Z.rem_mod_nonneg by lia. apply Z.mod_small.
  pose proof (Z.mod_pos_bound S (Z.of_nat n) ltac:(lia)). assert (T2 : 2 ^ 31 < two64) by reflexivity. lia.
Qed.

(* the same value for any association / order of the three summands: the argument T of the final % n is their sum mod 2^64 *)
Lemma offset_value off n k T : (0 < n)%nat -> (off < n)%nat -> Z.of_nat n < 2 ^ 31 ->
  T = (Z.of_nat off + Z.of_nat n + Z.rem k (Z.of_nat n)) mod two64 ->
  Z.rem T (Z.of_nat n) mod two64 = Z.of_nat (new_offset off n k).
Proof.
  intros Pn Po Bn ->. unfold new_offset. rewrite Z2Nat.id by (apply Z.mod_pos_bound; lia).
  rewrite <- Zplus_mod. set (S := (Z.of_nat off + Z.of_nat n + Z.rem k (Z.of_nat n)) mod two64).
  assert (HS : 0 <= S) by (apply Z.mod_pos_bound; reflexivity).
  rewrite Z.rem_mod_nonneg by lia. apply Z.mod_small.
  pose proof (Z.mod_pos_bound S (Z.of_nat n) ltac:(lia)). assert (T2 : 2 ^ 31 < two64) by reflexivity. lia.
Qed.

Ltac offset_solve off n k HO HN HK :=
  cbn [eval]; rewrite ?HO, ?HN, ?HK;
  rewrite (norm_inrange I32 (Z.of_nat n)) by (cbn; unfold two31 in *; lia);
  rewrite (binop_ok Rem I32 k (Z.of_nat n))
    by (cbn; split; [lia | pose proof (Z.rem_bound_abs k (Z.of_nat n) ltac:(lia)); unfold two31 in *; lia]);
  cbn [binop norm opZ];
  destruct (Z.eqb_spec (Z.of_nat n) 0) as [?E0|_]; [lia|];
  apply (f_equal Some); apply (offset_value off n k);
    [lia | lia | lia | generalize (Z.rem k (Z.of_nat n)); intro; unfold two64; Z.div_mod_to_equations; lia].

Definition seq1 (p : stmt) : stmt := match p with SSeq a _ => a | _ => SSkip end.
Definition seq2 (p : stmt) : stmt := match p with SSeq _ b => b | _ => SSkip end.

Lemma blank_app (g : wgrid) (e : V) cells c : blank g e (cells ++ [c]) = set_nth (lin g c) e (blank g e cells).
Proof. unfold blank. rewrite fold_left_app. reflexivity. Qed.
Lemma blank_length (g : wgrid) (e : V) cells : length (blank g e cells) = length (g_buf g).
Proof. apply fold_set_length. Qed.

Lemma flat_map_single {X Y} (f : X -> Y) l : flat_map (fun x => [f x]) l = map f l.
Proof. induction l as [|x l IH]; cbn; [reflexivity|]. rewrite IH. reflexivity. Qed.


Lemma ex_imp {A} (P Q : A -> Prop) : (exists x, P x) -> (forall x, P x -> Q x) -> exists x, Q x.
Proof. intros [x H] HI. exists x. auto. Qed.

Lemma reassoc_runs (e : V) r u d o (s : state) :
  exec e (SSeq r (SSeq u (SSeq d o))) s = bind (exec e (SSeq r (SSeq u (SSeq SSkip d))) s) (exec e o).
Proof. cbn [exec]. destruct (exec e r s) as [s1|]; cbn [bind]; [|reflexivity]. destruct (exec e u s1) as [s2|]; cbn [bind]; [|reflexivity]. reflexivity. Qed.

Definition for_body (p : stmt) : stmt := match p with SFor _ _ _ b _ => b | _ => SSkip end.
Definition if_then (p : stmt) : stmt := match p with SIf _ a _ => a | _ => SSkip end.

Definition mod_x (v : var) : bool := match v with VIdx 0 | VCnt 0 => true | _ => false end.
Definition mod_none (v : var) : bool := false.
Definition mod_x0 (v : var) : bool := match v with VIdx 0 => true | _ => false end.
Definition mod_xy (v : var) : bool := match v with VIdx 0 | VIdx 1 | VCnt 0 => true | _ => false end.
Definition mod_xy0 (v : var) : bool := match v with VIdx 0 | VIdx 1 => true | _ => false end.

(* the state after one axis: blanked buffer + updated offset = the model's translate step *)
Lemma St_after_x (g : wgrid) (e : V) kx ky kz s : valid g -> kx <> 0 -> St g e kx ky kz (cells_x g kx) s ->
  St (translate_x g kx e) e kx ky kz [] (set s (VOff 0) (Z.of_nat (new_offset (g_ox g) (g_nx g) kx))).
Proof.
  intros Hv Hne (F & P & Bf). unfold translate_x. destruct (Z.eqb_spec kx 0) as [|_]; [contradiction|].
  split; [|split].
  - unfold frame, frame3, frame2 in *. cbn [set_ox blank_cells with_buf g_dim3 g_nx g_ny g_nz g_ox g_oy g_oz].
    destruct (g_dim3 g); gs; tauto.
  - unfold pars in *. cbn [set_ox blank_cells with_buf g_dim3]. gs. exact P.
  - rewrite buf_set, Bf. reflexivity.
Qed.
Lemma St_after_y (g : wgrid) (e : V) kx ky kz s : valid g -> ky <> 0 -> St g e kx ky kz (cells_y g ky) s ->
  St (translate_y g ky e) e kx ky kz [] (set s (VOff 1) (Z.of_nat (new_offset (g_oy g) (g_ny g) ky))).
Proof.
  intros Hv Hne (F & P & Bf). unfold translate_y. destruct (Z.eqb_spec ky 0) as [|_]; [contradiction|].
  split; [|split].
  - unfold frame, frame3, frame2 in *. cbn [set_oy blank_cells with_buf g_dim3 g_nx g_ny g_nz g_ox g_oy g_oz].
    destruct (g_dim3 g); gs; tauto.
  - unfold pars in *. cbn [set_oy blank_cells with_buf g_dim3]. gs. exact P.
  - rewrite buf_set, Bf. reflexivity.
Qed.
Lemma St_after_z (g : wgrid) (e : V) kx ky kz s : valid g -> kz <> 0 -> St g e kx ky kz (cells_z g kz) s ->
  St (translate_z g kz e) e kx ky kz [] (set s (VOff 2) (Z.of_nat (new_offset (g_oz g) (g_nz g) kz))).
Proof.
  intros Hv Hne (F & P & Bf). unfold translate_z. destruct (Z.eqb_spec kz 0) as [|_]; [contradiction|].
  split; [|split].
  - unfold frame, frame3, frame2 in *. cbn [set_oz blank_cells with_buf g_dim3 g_nx g_ny g_nz g_ox g_oy g_oz].
    destruct (g_dim3 g); gs; tauto.
  - unfold pars in *. cbn [set_oz blank_cells with_buf g_dim3]. gs. exact P.
  - rewrite buf_set, Bf. reflexivity.
Qed.

Ltac sem := first [ apply adv_up_syn | apply adv_down_syn | intros; reflexivity | left; intros; reflexivity | right; intros; reflexivity | (unfold two31; lia) ].

(* ================================================================== 2D *)
Section TwoD.
Variables (g : wgrid) (e : V) (kx ky : Z).
Hypothesis Hv : valid g.
Hypothesis Hd : g_dim3 g = false.
Hypothesis Hf : fits g.
Hypothesis Hk : - two31 <= kx < two31 /\ - two31 <= ky < two31.

Definition W2 : stmt := SBufSet (ECall src_linear_index_2d [EVar (VIdx 0); EVar (VIdx 1)]).

Lemma HW2 : forall cells s x y z, St g e kx ky 0 cells s -> get s (VIdx 0) = Z.of_nat x -> yz_at g s y z ->
  (x < g_nx g)%nat -> (y < g_ny g)%nat -> (z < g_nz g)%nat ->
  exists s', exec e W2 s = Some s' /\ St g e kx ky 0 (cells ++ [(x, y, z)]) s' /\ (forall v, get s' v = get s v).
Proof.
  intros cells s x y z (F & P & Bf) Hx (Hy & Hz) Lx Ly Lz. unfold yz_at in *. rewrite Hd in Hz. subst z.
  assert (Fr : frame2 g s) by (unfold frame in F; rewrite Hd in F; exact F).
  assert (E : eval (ECall src_linear_index_2d [EVar (VIdx 0); EVar (VIdx 1)]) s = Some (Z.of_nat (lin g (x, y, 0%nat)))).
  { change (eval (ECall src_linear_index_2d [EVar (VIdx 0); EVar (VIdx 1)]) s)
      with (eval src_linear_index_2d (set (set s (VArg 0) (get s (VIdx 0))) (VArg 1) (get s (VIdx 1)))).
    apply linear_index_2d; try assumption. }
  assert (Hlen : (lin g (x, y, 0%nat) < length (s_buf s))%nat) by (rewrite Bf, blank_length; apply lin_lt, Hv).
  unfold W2. rewrite (exec_bufset e _ s _ E Hlen). eexists; split; [reflexivity|]. split; [|reflexivity].
  split; [apply frame_set_buf, F|]. split; [exact P|]. rewrite buf_set_buf, Bf, blank_app. reflexivity.
Qed.

Definition x_if_2d : stmt := seq1 src_translate_2d.
Definition y_if_2d : stmt := seq2 src_translate_2d.
Lemma split_2d : src_translate_2d = SSeq x_if_2d y_if_2d. Proof. reflexivity. Qed.

Lemma nz_1 : g_nz g = 1%nat. Proof. destruct Hv as (_ & _ & _ & _ & _ & _ & _ & H & _). exact (H Hd). Qed.

Lemma cells_x_2d k : cells_x g k = flat_map (fun y => row y 0 (axis_run (g_nx g) k)) (all (g_ny g)).
Proof. unfold cells_x. rewrite nz_1. cbn. rewrite app_nil_r. reflexivity. Qed.
Lemma cells_y_2d k : cells_y g k = flat_map (fun y => row y 0 (all (g_nx g))) (axis_run (g_ny g) k).
Proof. unfold cells_y. rewrite nz_1. cbn. rewrite app_nil_r. reflexivity. Qed.

Lemma Hk3 : - two31 <= kx < two31 /\ - two31 <= ky < two31 /\ - two31 <= 0 < two31.
Proof. unfold two31 in *. lia. Qed.

Lemma frame2_of s : frame g s -> frame2 g s. Proof. unfold frame. rewrite Hd. tauto. Qed.

Lemma HN0 s : frame g s -> get s (VN 0) = Z.of_nat (g_nx g) /\ get s (VNm1 0) = Z.of_nat (g_nx g) - 1.
Proof. intros F. apply frame2_of in F. unfold frame2 in F. tauto. Qed.
Lemma HN1 s : frame g s -> get s (VN 1) = Z.of_nat (g_ny g) /\ get s (VNm1 1) = Z.of_nat (g_ny g) - 1.
Proof. intros F. apply frame2_of in F. unfold frame2 in F. tauto. Qed.

Definition x_body_2d : stmt := for_body (seq1 (if_then x_if_2d)).

Lemma nb : (0 < g_nx g)%nat /\ (0 < g_ny g)%nat /\ (0 < g_nz g)%nat /\
  Z.of_nat (g_nx g) < 2 ^ 31 /\ Z.of_nat (g_ny g) < 2 ^ 31 /\ Z.of_nat (g_nz g) < 2 ^ 31.
Proof. destruct Hv as (A & B & C & _ & _ & _ & _ & _ & D). tauto. Qed.

Lemma mod_x_keep v : mod_x v = false -> var_eqb v (VIdx 0) = false /\ var_eqb v (VCnt 0) = false.
Proof. destruct v as [[|?]|?|?|?|?|?|?|[|?]|?]; cbn; intros H; try discriminate H; split; reflexivity. Qed.

Lemma x_body_2d_ok cells s i : St g e kx ky 0 cells s -> get s (VIdx 1) = Z.of_nat i -> (i < g_ny g)%nat ->
  exists s', exec e x_body_2d s = Some s' /\ St g e kx ky 0 (cells ++ row i 0 (axis_run (g_nx g) kx)) s' /\
             (forall v, mod_x v = false -> get s' v = get s v).
Proof.
  intros HSt Hi Li. pose proof nb as (Px & Py & Pz & Bx & By & Bz).
  unfold x_body_2d, x_if_2d, src_translate_2d. cbn [for_body seq1 if_then].
  edestruct (axis_runs g e kx ky 0 Hk3 0%nat (g_nx g) kx W2 (fun x => [(x, i, 0%nat)]) mod_none i 0%nat)
    as (s' & E & S' & K); revgoals.
  1: { exists s'. split; [exact E|]. rewrite flat_map_single in S'. split; [exact S'|].
       intros v Hm. destruct (mod_x_keep v Hm). apply K; [reflexivity|assumption|assumption]. }
  all: try sem. all: try exact HSt. all: try exact HN0. all: try (apply Hk). all: try (intros s0 P0; apply P0).
  all: try (split; assumption).
  - split; [exact Hi|]. rewrite Hd. reflexivity.
  - intros cells0 s0 x S0 X0 O0 L0.
    destruct (HW2 cells0 s0 x i 0%nat S0 X0 O0 L0 Li ltac:(rewrite nz_1; lia)) as (s1 & E' & S1 & G').
    exists s1. split; [exact E'|]. split; [exact S1|]. intros v _. apply G'.
Qed.

Lemma X2 s : St g e kx ky 0 [] s -> exists s', exec e x_if_2d s = Some s' /\ St (translate_x g kx e) e kx ky 0 [] s'.
Proof.
  intros HSt. pose proof nb as (Px & Py & Pz & Bx & By & Bz).
  assert (HP : get s (VPar 0) = kx) by apply HSt.
  unfold x_if_2d, src_translate_2d. cbn [seq1].
  destruct (Z.eq_dec kx 0) as [Z0|NZ].
  - rewrite exec_if_false by (cbn [eval]; rewrite HP, Z0; reflexivity). cbn [exec].
    exists s. split; [reflexivity|]. replace (translate_x g kx e) with g by (unfold translate_x; rewrite Z0; reflexivity). exact HSt.
  - rewrite (exec_if_true e _ _ _ s kx) by first [exact NZ | (cbn [eval]; rewrite HP; reflexivity)]. rewrite exec_seq.
    edestruct (axis_full g e kx ky 0 Hk3 1%nat (g_ny g) 0 x_body_2d (fun y => row y 0 (axis_run (g_nx g) kx)) mod_x 0%nat 0%nat)
      with (cells := @nil idx) (s := s) as (s1 & E1 & S1 & K1); revgoals.
    1: { unfold x_body_2d, x_if_2d, src_translate_2d in E1. cbn [for_body seq1 if_then] in E1. rewrite E1. cbn [bind].
      destruct S1 as (F1 & P1 & B1). pose proof (frame2_of _ F1) as (N0 & N1 & M0 & M1 & C0 & C1 & O0 & O1).
      pose proof Hv as (_ & _ & _ & Hox & Hoy & Hoz & _). pose proof (proj1 P1) as HPx.
      erewrite exec_set; [| offset_solve (g_ox g) (g_nx g) kx O0 N0 HPx].
      eexists; split; [reflexivity|]. apply St_after_x; [exact Hv|exact NZ|]. rewrite cells_x_2d. split; [exact F1|]. split; [exact P1|exact B1]. }
    all: try sem. all: try exact HSt. all: try exact HN1. all: try (split; assumption).
    + cbn. unfold z_at. rewrite Hd. reflexivity.
    + intros cells0 s0 i S0 I0 _ L0. apply x_body_2d_ok; assumption.
    + intros b Hb. destruct b as [|[|b]]; [lia|lia|reflexivity].
Qed.

Lemma mod_x0_keep v : mod_x0 v = false -> var_eqb v (VIdx 0) = false.
Proof. destruct v as [[|?]|?|?|?|?|?|?|?|?]; cbn; intros H; try discriminate H; reflexivity. Qed.

(* the row loop  for (x = 0; x < nx; x++) W  at row i *)
Lemma row_2d_ok init cond step count cells s i :
  (forall s : state, exec e init s = Some (set s (VIdx 0) 0)) ->
  (forall s : state, eval cond s = Some (b2z (get s (VIdx 0) <? get s (VN 0)))) ->
  (forall s : state, exec e step s = Some (set s (VIdx 0) ((get s (VIdx 0) + 1) mod two64))) ->
  (forall s : state, eval count s = Some (get s (VN 0) - get s (VIdx 0))) ->
  St g e kx ky 0 cells s -> get s (VIdx 1) = Z.of_nat i -> (i < g_ny g)%nat ->
  exists s', exec e (SFor init cond step W2 count) s = Some s' /\ St g e kx ky 0 (cells ++ row i 0 (all (g_nx g))) s' /\
             (forall v, mod_x0 v = false -> get s' v = get s v).
Proof.
  intros H1 H2 H3 H4 HSt Hi Li. pose proof nb as (Px & Py & Pz & Bx & By & Bz).
  destruct (axis_full g e kx ky 0 Hk3 0%nat (g_nx g) 0 W2 (fun x => [(x, i, 0%nat)]) mod_none i 0%nat) with
    (init := init) (cond := cond) (step := step) (count := count) (cells := cells) (s := s) as (s' & E & S' & K); try assumption.
  - split; assumption.
  - exact HN0.
  - unfold two31; lia.
  - reflexivity.
  - reflexivity.
  - intros cells0 s0 x S0 X0 O0 L0.
    destruct (HW2 cells0 s0 x i 0%nat S0 X0 O0 L0 Li ltac:(rewrite nz_1; lia)) as (s1 & E' & S1 & G').
    exists s1. split; [exact E'|]. split; [exact S1|]. intros v _. apply G'.
  - split; [exact Hi|]. rewrite Hd. reflexivity.
  - exists s'. split; [exact E|]. rewrite flat_map_single in S'. split; [exact S'|].
    intros v Hm. apply K; [reflexivity|apply mod_x0_keep, Hm].
Qed.

Lemma Y2 s : St g e kx ky 0 [] s -> exists s', exec e y_if_2d s = Some s' /\ St (translate_y g ky e) e kx ky 0 [] s'.
Proof.
  intros HSt. pose proof nb as (Px & Py & Pz & Bx & By & Bz).
  assert (HP : get s (VPar 1) = ky) by apply HSt.
  unfold y_if_2d, src_translate_2d. cbn [seq2].
  destruct (Z.eq_dec ky 0) as [Z0|NZ].
  - rewrite exec_if_false by (cbn [eval]; rewrite HP, Z0; reflexivity). cbn [exec].
    exists s. split; [reflexivity|]. replace (translate_y g ky e) with g by (unfold translate_y; rewrite Z0; reflexivity). exact HSt.
  - rewrite (exec_if_true e _ _ _ s ky) by first [exact NZ | (cbn [eval]; rewrite HP; reflexivity)]. rewrite reassoc_runs.
    match goal with |- context [SSeq (SFor ?i ?c ?st ?b ?n) (SSet (VIdx 1) _)] =>
      edestruct (axis_runs g e kx ky 0 Hk3 1%nat (g_ny g) ky (SFor i c st b n) (fun y => row y 0 (all (g_nx g))) mod_x0 0%nat 0%nat)
        with (cells := @nil idx) (s := s) as (s1 & E1 & S1 & K1) end; revgoals.
    1: { rewrite E1. cbn [bind].
      destruct S1 as (F1 & P1 & B1). pose proof (frame2_of _ F1) as (N0 & N1 & M0 & M1 & C0 & C1 & O0 & O1).
      pose proof Hv as (_ & _ & _ & Hox & Hoy & Hoz & _). pose proof (proj1 (proj2 P1)) as HPy.
      erewrite exec_set; [| offset_solve (g_oy g) (g_ny g) ky O1 N1 HPy].
      eexists; split; [reflexivity|]. apply St_after_y; [exact Hv|exact NZ|]. rewrite cells_y_2d. split; [exact F1|]. split; [exact P1|exact B1]. }
    all: try sem. all: try exact HSt. all: try exact HN1. all: try (apply Hk). all: try (intros s0 P0; apply P0).
    all: try (split; assumption).
    + cbn. unfold z_at. rewrite Hd. reflexivity.
    + intros cells0 s0 i S0 I0 _ L0. apply row_2d_ok; try assumption; sem.
    + intros b Hb. destruct b as [|[|b]]; [lia|lia|reflexivity].
Qed.

End TwoD.

(* ------------------------------------------------------------------ translate, DIM == 2 *)
Lemma fits_shape (g g' : wgrid) : same_shape g g' -> fits g -> fits g'.
Proof. intros (_ & A & B & C). unfold fits. rewrite A, B, C. tauto. Qed.

Theorem translate_2d_tie (g : wgrid) (e : V) (kx ky kz : Z) (s : state) :
  valid g -> g_dim3 g = false -> fits g ->
  - two31 <= kx < two31 -> - two31 <= ky < two31 ->
  represents s g -> get s (VPar 0) = kx -> get s (VPar 1) = ky ->
  exists s', exec e src_translate_2d s = Some s' /\ represents s' (translate g kx ky kz e).
Proof.
  intros Hv Hd Hf Hkx Hky (F & Bf) Px Py.
  assert (HSt : St g e kx ky 0 [] s).
  { split; [exact F|]. split; [|exact Bf]. split; [exact Px|]. split; [exact Py|]. rewrite Hd. discriminate. }
  destruct (X2 g e kx ky Hv Hd Hf (conj Hkx Hky) s HSt) as (s1 & E1 & S1).
  pose proof (translate_x_valid g kx e Hv) as Hv1. pose proof (translate_x_shape g kx e) as Sh1.
  assert (Hd1 : g_dim3 (translate_x g kx e) = false) by (destruct Sh1 as (D & _); rewrite D; exact Hd).
  destruct (Y2 (translate_x g kx e) e kx ky Hv1 Hd1 (fits_shape _ _ Sh1 Hf) (conj Hkx Hky) s1 S1) as (s2 & E2 & S2).
  exists s2. rewrite split_2d, exec_seq, E1. cbn [bind]. split; [exact E2|].
  unfold translate. cbn zeta. rewrite Hd. destruct S2 as (F2 & _ & B2). split; [exact F2|exact B2].
Qed.

(* ================================================================== 3D *)
Section ThreeD.
Variables (g : wgrid) (e : V) (kx ky kz : Z).
Hypothesis Hv : valid g.
Hypothesis Hd : g_dim3 g = true.
Hypothesis Hf : fits g.
Hypothesis Hk : - two31 <= kx < two31 /\ - two31 <= ky < two31 /\ - two31 <= kz < two31.

Definition W3 : stmt := SBufSet (ECall src_linear_index_3d [EVar (VIdx 0); EVar (VIdx 1); EVar (VIdx 2)]).

Lemma frame3_of s : frame g s -> frame3 g s. Proof. unfold frame. rewrite Hd. tauto. Qed.

Lemma HW3 : forall cells s x y z, St g e kx ky kz cells s -> get s (VIdx 0) = Z.of_nat x -> yz_at g s y z ->
  (x < g_nx g)%nat -> (y < g_ny g)%nat -> (z < g_nz g)%nat ->
  exists s', exec e W3 s = Some s' /\ St g e kx ky kz (cells ++ [(x, y, z)]) s' /\ (forall v, get s' v = get s v).
Proof.
  intros cells s x y z (F & P & Bf) Hx (Hy & Hz) Lx Ly Lz. unfold yz_at in *. rewrite Hd in Hz.
  pose proof (frame3_of _ F) as Fr.
  assert (E : eval (ECall src_linear_index_3d [EVar (VIdx 0); EVar (VIdx 1); EVar (VIdx 2)]) s = Some (Z.of_nat (lin g (x, y, z)))).
  { change (eval (ECall src_linear_index_3d [EVar (VIdx 0); EVar (VIdx 1); EVar (VIdx 2)]) s)
      with (eval src_linear_index_3d (set (set (set s (VArg 0) (get s (VIdx 0))) (VArg 1) (get s (VIdx 1))) (VArg 2) (get s (VIdx 2)))).
    apply linear_index_3d; try assumption. }
  assert (Hlen : (lin g (x, y, z) < length (s_buf s))%nat) by (rewrite Bf, blank_length; apply lin_lt, Hv).
  unfold W3. rewrite (exec_bufset e _ s _ E Hlen). eexists; split; [reflexivity|]. split; [|reflexivity].
  split; [apply frame_set_buf, F|]. split; [exact P|]. rewrite buf_set_buf, Bf, blank_app. reflexivity.
Qed.

Lemma nb3 : (0 < g_nx g)%nat /\ (0 < g_ny g)%nat /\ (0 < g_nz g)%nat /\
  Z.of_nat (g_nx g) < 2 ^ 31 /\ Z.of_nat (g_ny g) < 2 ^ 31 /\ Z.of_nat (g_nz g) < 2 ^ 31.
Proof. destruct Hv as (A & B & C & _ & _ & _ & _ & _ & D). tauto. Qed.

Lemma H3N0 s : frame g s -> get s (VN 0) = Z.of_nat (g_nx g) /\ get s (VNm1 0) = Z.of_nat (g_nx g) - 1.
Proof. intros F. apply frame3_of in F. unfold frame3, frame2 in F. tauto. Qed.
Lemma H3N1 s : frame g s -> get s (VN 1) = Z.of_nat (g_ny g) /\ get s (VNm1 1) = Z.of_nat (g_ny g) - 1.
Proof. intros F. apply frame3_of in F. unfold frame3, frame2 in F. tauto. Qed.
Lemma H3N2 s : frame g s -> get s (VN 2) = Z.of_nat (g_nz g) /\ get s (VNm1 2) = Z.of_nat (g_nz g) - 1.
Proof. intros F. apply frame3_of in F. unfold frame3, frame2 in F. tauto. Qed.
Lemma Hkz s : pars g kx ky kz s -> get s (VPar 2) = kz. Proof. intros (_ & _ & H). exact (H Hd). Qed.

Lemma mod_xy_keep v : mod_xy v = false -> mod_x v = false /\ var_eqb v (VIdx 1) = false.
Proof. destruct v as [[|[|?]]|?|?|?|?|?|?|[|?]|?]; cbn; intros H; try discriminate H; split; reflexivity. Qed.
Lemma mod_xy0_keep v : mod_xy0 v = false -> mod_x0 v = false /\ var_eqb v (VIdx 1) = false.
Proof. destruct v as [[|[|?]]|?|?|?|?|?|?|?|?]; cbn; intros H; try discriminate H; split; reflexivity. Qed.
Lemma mod_xy_keep' v : mod_xy v = false -> mod_x0 v = false /\ var_eqb v (VIdx 1) = false /\ var_eqb v (VCnt 0) = false.
Proof. destruct v as [[|[|?]]|?|?|?|?|?|?|[|?]|?]; cbn; intros H; try discriminate H; repeat split; reflexivity. Qed.
Lemma outer_b1 : forall b, (1 < b)%nat -> mod_x (VIdx b) = false.
Proof. intros [|[|b]] Hb; [lia|lia|reflexivity]. Qed.

(* row loop at (y, z) *)
Lemma row_3d_ok init cond step count cells s y z :
  (forall s : state, exec e init s = Some (set s (VIdx 0) 0)) ->
  (forall s : state, eval cond s = Some (b2z (get s (VIdx 0) <? get s (VN 0)))) ->
  (forall s : state, exec e step s = Some (set s (VIdx 0) ((get s (VIdx 0) + 1) mod two64))) ->
  (forall s : state, eval count s = Some (get s (VN 0) - get s (VIdx 0))) ->
  St g e kx ky kz cells s -> get s (VIdx 1) = Z.of_nat y -> get s (VIdx 2) = Z.of_nat z -> (y < g_ny g)%nat -> (z < g_nz g)%nat ->
  exists s', exec e (SFor init cond step W3 count) s = Some s' /\ St g e kx ky kz (cells ++ row y z (all (g_nx g))) s' /\
             (forall v, mod_x0 v = false -> get s' v = get s v).
Proof.
  intros H1 H2 H3 H4 HSt Hy Hz Ly Lz. pose proof nb3 as (Px & Py & Pz & Bx & By & Bz).
  destruct (axis_full g e kx ky kz Hk 0%nat (g_nx g) 0 W3 (fun x => [(x, y, z)]) mod_none y z) with
    (init := init) (cond := cond) (step := step) (count := count) (cells := cells) (s := s) as (s' & E & S' & K); try assumption.
  - split; assumption.
  - exact H3N0.
  - unfold two31; lia.
  - reflexivity.
  - reflexivity.
  - intros cells0 s0 x S0 X0 O0 L0.
    destruct (HW3 cells0 s0 x y z S0 X0 O0 L0 Ly Lz) as (s1 & E' & S1 & G').
    exists s1. split; [exact E'|]. split; [exact S1|]. intros v _. apply G'.
  - split; [exact Hy|]. rewrite Hd. exact Hz.
  - exists s'. split; [exact E|]. rewrite flat_map_single in S'. split; [exact S'|].
    intros v Hm. apply K; [reflexivity|apply mod_x0_keep, Hm].
Qed.

(* slab loop at z:  for (y ..) for (x ..) W *)
Lemma slab_3d_ok i1 c1 s1 n1 i2 c2 s2 n2 cells s z :
  (forall s : state, exec e i1 s = Some (set s (VIdx 1) 0)) ->
  (forall s : state, eval c1 s = Some (b2z (get s (VIdx 1) <? get s (VN 1)))) ->
  (forall s : state, exec e s1 s = Some (set s (VIdx 1) ((get s (VIdx 1) + 1) mod two64))) ->
  (forall s : state, eval n1 s = Some (get s (VN 1) - get s (VIdx 1))) ->
  (forall s : state, exec e i2 s = Some (set s (VIdx 0) 0)) ->
  (forall s : state, eval c2 s = Some (b2z (get s (VIdx 0) <? get s (VN 0)))) ->
  (forall s : state, exec e s2 s = Some (set s (VIdx 0) ((get s (VIdx 0) + 1) mod two64))) ->
  (forall s : state, eval n2 s = Some (get s (VN 0) - get s (VIdx 0))) ->
  St g e kx ky kz cells s -> get s (VIdx 2) = Z.of_nat z -> (z < g_nz g)%nat ->
  exists s', exec e (SFor i1 c1 s1 (SFor i2 c2 s2 W3 n2) n1) s = Some s' /\
             St g e kx ky kz (cells ++ flat_map (fun y => row y z (all (g_nx g))) (all (g_ny g))) s' /\
             (forall v, mod_xy0 v = false -> get s' v = get s v).
Proof.
  intros A1 A2 A3 A4 B1 B2 B3 B4 HSt Hz Lz. pose proof nb3 as (Px & Py & Pz & Bx & By & Bz).
  destruct (axis_full g e kx ky kz Hk 1%nat (g_ny g) 0 (SFor i2 c2 s2 W3 n2) (fun y => row y z (all (g_nx g))) mod_x0 0%nat z) with
    (init := i1) (cond := c1) (step := s1) (count := n1) (cells := cells) (s := s) as (s' & E & S' & K); try assumption.
  - split; assumption.
  - exact H3N1.
  - unfold two31; lia.
  - intros [|[|b]] Hb; [lia|lia|reflexivity].
  - reflexivity.
  - intros cells0 s0 y S0 Y0 O0 L0. cbn in O0. unfold z_at in O0. rewrite Hd in O0.
    apply row_3d_ok; assumption.
  - cbn. unfold z_at. rewrite Hd. exact Hz.
  - exists s'. split; [exact E|]. split; [exact S'|].
    intros v Hm. destruct (mod_xy0_keep v Hm). apply K; assumption.
Qed.

Definition x_if_3d : stmt := seq1 src_translate_3d.
Definition y_if_3d : stmt := seq1 (seq2 src_translate_3d).
Definition z_if_3d : stmt := seq2 (seq2 src_translate_3d).
Lemma split_3d : src_translate_3d = SSeq x_if_3d (SSeq y_if_3d z_if_3d). Proof. reflexivity. Qed.

Definition x_body_3d : stmt := for_body (for_body (seq1 (if_then x_if_3d))).
Definition x_ybody_3d : stmt := for_body (seq1 (if_then x_if_3d)).

Lemma x_body_3d_ok cells s y z : St g e kx ky kz cells s -> get s (VIdx 1) = Z.of_nat y -> get s (VIdx 2) = Z.of_nat z ->
  (y < g_ny g)%nat -> (z < g_nz g)%nat ->
  exists s', exec e x_body_3d s = Some s' /\ St g e kx ky kz (cells ++ row y z (axis_run (g_nx g) kx)) s' /\
             (forall v, mod_x v = false -> get s' v = get s v).
Proof.
  intros HSt Hy Hz Ly Lz. pose proof nb3 as (Px & Py & Pz & Bx & By & Bz).
  unfold x_body_3d, x_if_3d, src_translate_3d. cbn [for_body seq1 if_then].
  match goal with |- exists s', exec e (SSeq ?r (SSeq ?u ?d)) ?s = _ /\ _ =>
    change (exec e (SSeq r (SSeq u d)) s) with (exec e (SSeq r (SSeq u (SSeq SSkip d))) s) end.
  edestruct (axis_runs g e kx ky kz Hk 0%nat (g_nx g) kx W3 (fun x => [(x, y, z)]) mod_none y z)
    with (cells := cells) (s := s) as (s' & E & S' & K); revgoals.
  1: { exists s'. split; [exact E|]. rewrite flat_map_single in S'. split; [exact S'|].
       intros v Hm. destruct (mod_x_keep v Hm). apply K; [reflexivity|assumption|assumption]. }
  all: try sem. all: try exact HSt. all: try exact H3N0. all: try (apply Hk). all: try (intros s0 P0; apply P0).
  all: try (split; assumption).
  - split; [exact Hy|]. rewrite Hd. exact Hz.
  - intros cells0 s0 x S0 X0 O0 L0.
    destruct (HW3 cells0 s0 x y z S0 X0 O0 L0 Ly Lz) as (s1 & E' & S1 & G').
    exists s1. split; [exact E'|]. split; [exact S1|]. intros v _. apply G'.
Qed.

Lemma x_ybody_3d_ok cells s z : St g e kx ky kz cells s -> get s (VIdx 2) = Z.of_nat z -> (z < g_nz g)%nat ->
  exists s', exec e x_ybody_3d s = Some s' /\
             St g e kx ky kz (cells ++ flat_map (fun y => row y z (axis_run (g_nx g) kx)) (all (g_ny g))) s' /\
             (forall v, mod_xy v = false -> get s' v = get s v).
Proof.
  intros HSt Hz Lz. pose proof nb3 as (Px & Py & Pz & Bx & By & Bz).
  unfold x_ybody_3d, x_if_3d, src_translate_3d. cbn [for_body seq1 if_then].
  edestruct (axis_full g e kx ky kz Hk 1%nat (g_ny g) 0 x_body_3d (fun y => row y z (axis_run (g_nx g) kx)) mod_x 0%nat z)
    with (cells := cells) (s := s) as (s' & E & S' & K); revgoals.
  1: { unfold x_body_3d, x_if_3d, src_translate_3d in E. cbn [for_body seq1 if_then] in E.
       exists s'. split; [exact E|]. split; [exact S'|]. intros v Hm. destruct (mod_xy_keep v Hm). apply K; assumption. }
  all: try sem. all: try exact HSt. all: try exact H3N1. all: try (split; assumption). all: try exact outer_b1.
  - cbn. unfold z_at. rewrite Hd. exact Hz.
  - intros cells0 s0 y S0 Y0 O0 L0. cbn in O0. unfold z_at in O0. rewrite Hd in O0. apply x_body_3d_ok; assumption.
Qed.

Lemma X3 s : St g e kx ky kz [] s -> exists s', exec e x_if_3d s = Some s' /\ St (translate_x g kx e) e kx ky kz [] s'.
Proof.
  intros HSt. pose proof nb3 as (Px & Py & Pz & Bx & By & Bz).
  assert (HP : get s (VPar 0) = kx) by apply HSt.
  unfold x_if_3d, src_translate_3d. cbn [seq1].
  destruct (Z.eq_dec kx 0) as [Z0|NZ].
  - rewrite exec_if_false by (cbn [eval]; rewrite HP, Z0; reflexivity). cbn [exec].
    exists s. split; [reflexivity|]. replace (translate_x g kx e) with g by (unfold translate_x; rewrite Z0; reflexivity). exact HSt.
  - rewrite (exec_if_true e _ _ _ s kx) by first [exact NZ | (cbn [eval]; rewrite HP; reflexivity)]. rewrite exec_seq.
    edestruct (axis_full g e kx ky kz Hk 2%nat (g_nz g) 0 x_ybody_3d
                 (fun z => flat_map (fun y => row y z (axis_run (g_nx g) kx)) (all (g_ny g))) mod_xy 0%nat 0%nat)
      with (cells := @nil idx) (s := s) as (s1 & E1 & S1 & K1); revgoals.
    1: { unfold x_ybody_3d, x_if_3d, src_translate_3d in E1. cbn [for_body seq1 if_then] in E1. rewrite E1. cbn [bind].
      destruct S1 as (F1 & P1 & B1). pose proof (frame3_of _ F1) as ((N0 & N1 & M0 & M1 & C0 & C1 & O0 & O1) & _).
      pose proof Hv as (_ & _ & _ & Hox & Hoy & Hoz & _). pose proof (proj1 P1) as HPx.
      erewrite exec_set; [| offset_solve (g_ox g) (g_nx g) kx O0 N0 HPx].
      eexists; split; [reflexivity|]. apply St_after_x; [exact Hv|exact NZ|]. split; [exact F1|]. split; [exact P1|exact B1]. }
    all: try sem. all: try exact HSt. all: try exact H3N2. all: try (split; assumption).
    + intros cells0 s0 z S0 Z0 _ L0. apply x_ybody_3d_ok; assumption.
    + intros b Hb. destruct b as [|[|[|b]]]; try lia; reflexivity.
Qed.

Definition y_zbody_3d : stmt := for_body (seq1 (if_then y_if_3d)).

Lemma y_zbody_3d_ok cells s z : St g e kx ky kz cells s -> get s (VIdx 2) = Z.of_nat z -> (z < g_nz g)%nat ->
  exists s', exec e y_zbody_3d s = Some s' /\
             St g e kx ky kz (cells ++ flat_map (fun y => row y z (all (g_nx g))) (axis_run (g_ny g) ky)) s' /\
             (forall v, mod_xy v = false -> get s' v = get s v).
Proof.
  intros HSt Hz Lz. pose proof nb3 as (Px & Py & Pz & Bx & By & Bz).
  unfold y_zbody_3d, y_if_3d, src_translate_3d. cbn [for_body seq1 seq2 if_then].
  match goal with |- exists s', exec e (SSeq ?r (SSeq ?u ?d)) ?s = _ /\ _ =>
    change (exec e (SSeq r (SSeq u d)) s) with (exec e (SSeq r (SSeq u (SSeq SSkip d))) s) end.
  match goal with |- context [SSeq (SFor ?i ?c ?st ?b ?n) (SSet (VIdx 1) _)] =>
    edestruct (axis_runs g e kx ky kz Hk 1%nat (g_ny g) ky (SFor i c st b n) (fun y => row y z (all (g_nx g))) mod_x0 0%nat z)
      with (cells := cells) (s := s) as (s' & E & S' & K) end; revgoals.
  1: { exists s'. split; [exact E|]. split; [exact S'|].
       intros v Hm. destruct (mod_xy_keep' v Hm) as (? & ? & ?). apply K; assumption. }
  all: try sem. all: try exact HSt. all: try exact H3N1. all: try (apply Hk). all: try (intros s0 P0; apply P0).
  all: try (split; assumption).
  - cbn. unfold z_at. rewrite Hd. exact Hz.
  - intros cells0 s0 y S0 Y0 O0 L0. cbn in O0. unfold z_at in O0. rewrite Hd in O0. apply row_3d_ok; try assumption; sem.
  - intros [|[|b]] Hb; [lia|lia|reflexivity].
Qed.

Lemma Y3 s : St g e kx ky kz [] s -> exists s', exec e y_if_3d s = Some s' /\ St (translate_y g ky e) e kx ky kz [] s'.
Proof.
  intros HSt. pose proof nb3 as (Px & Py & Pz & Bx & By & Bz).
  assert (HP : get s (VPar 1) = ky) by apply HSt.
  unfold y_if_3d, src_translate_3d. cbn [seq1 seq2].
  destruct (Z.eq_dec ky 0) as [Z0|NZ].
  - rewrite exec_if_false by (cbn [eval]; rewrite HP, Z0; reflexivity). cbn [exec].
    exists s. split; [reflexivity|]. replace (translate_y g ky e) with g by (unfold translate_y; rewrite Z0; reflexivity). exact HSt.
  - rewrite (exec_if_true e _ _ _ s ky) by first [exact NZ | (cbn [eval]; rewrite HP; reflexivity)]. rewrite exec_seq.
    edestruct (axis_full g e kx ky kz Hk 2%nat (g_nz g) 0 y_zbody_3d
                 (fun z => flat_map (fun y => row y z (all (g_nx g))) (axis_run (g_ny g) ky)) mod_xy 0%nat 0%nat)
      with (cells := @nil idx) (s := s) as (s1 & E1 & S1 & K1); revgoals.
    1: { unfold y_zbody_3d, y_if_3d, src_translate_3d in E1. cbn [for_body seq1 seq2 if_then] in E1. rewrite E1. cbn [bind].
      destruct S1 as (F1 & P1 & B1). pose proof (frame3_of _ F1) as ((N0 & N1 & M0 & M1 & C0 & C1 & O0 & O1) & _).
      pose proof Hv as (_ & _ & _ & Hox & Hoy & Hoz & _). pose proof (proj1 (proj2 P1)) as HPy.
      erewrite exec_set; [| offset_solve (g_oy g) (g_ny g) ky O1 N1 HPy].
      eexists; split; [reflexivity|]. apply St_after_y; [exact Hv|exact NZ|]. split; [exact F1|]. split; [exact P1|exact B1]. }
    all: try sem. all: try exact HSt. all: try exact H3N2. all: try (split; assumption).
    + intros cells0 s0 z S0 Z0 _ L0. apply y_zbody_3d_ok; assumption.
    + intros b Hb. destruct b as [|[|[|b]]]; try lia; reflexivity.
Qed.

Lemma Z3 s : St g e kx ky kz [] s -> exists s', exec e z_if_3d s = Some s' /\ St (translate_z g kz e) e kx ky kz [] s'.
Proof.
  intros HSt. pose proof nb3 as (Px & Py & Pz & Bx & By & Bz).
  assert (HP : get s (VPar 2) = kz) by (apply Hkz, HSt).
  unfold z_if_3d, src_translate_3d. cbn [seq2].
  destruct (Z.eq_dec kz 0) as [Z0|NZ].
  - rewrite exec_if_false by (cbn [eval]; rewrite HP, Z0; reflexivity). cbn [exec].
    exists s. split; [reflexivity|]. replace (translate_z g kz e) with g by (unfold translate_z; rewrite Z0; reflexivity). exact HSt.
  - rewrite (exec_if_true e _ _ _ s kz) by first [exact NZ | (cbn [eval]; rewrite HP; reflexivity)]. rewrite reassoc_runs.
    match goal with |- context [SSeq (SFor ?i ?c ?st ?b ?n) (SSet (VIdx 2) _)] =>
      edestruct (axis_runs g e kx ky kz Hk 2%nat (g_nz g) kz (SFor i c st b n)
                   (fun z => flat_map (fun y => row y z (all (g_nx g))) (all (g_ny g))) mod_xy0 0%nat 0%nat)
        with (cells := @nil idx) (s := s) as (s1 & E1 & S1 & K1) end; revgoals.
    1: { rewrite E1. cbn [bind].
      destruct S1 as (F1 & P1 & B1). pose proof (frame3_of _ F1) as (_ & N2 & M2 & C2 & O2).
      pose proof Hv as (_ & _ & _ & Hox & Hoy & Hoz & _). pose proof (Hkz _ P1) as HPz.
      erewrite exec_set; [| offset_solve (g_oz g) (g_nz g) kz O2 N2 HPz].
      eexists; split; [reflexivity|]. apply St_after_z; [exact Hv|exact NZ|]. split; [exact F1|]. split; [exact P1|exact B1]. }
    all: try sem. all: try exact HSt. all: try exact H3N2. all: try (apply Hk). all: try exact Hkz.
    all: try (split; assumption).
    + intros cells0 s0 z S0 Z0 _ L0. apply slab_3d_ok; try assumption; sem.
    + intros b Hb. destruct b as [|[|[|b]]]; try lia; reflexivity.
Qed.

End ThreeD.

Theorem translate_3d_tie (g : wgrid) (e : V) (kx ky kz : Z) (s : state) :
  valid g -> g_dim3 g = true -> fits g ->
  - two31 <= kx < two31 -> - two31 <= ky < two31 -> - two31 <= kz < two31 ->
  represents s g -> get s (VPar 0) = kx -> get s (VPar 1) = ky -> get s (VPar 2) = kz ->
  exists s', exec e src_translate_3d s = Some s' /\ represents s' (translate g kx ky kz e).
Proof.
  intros Hv Hd Hf Hkx Hky Hkz' (F & Bf) Px Py Pz.
  assert (HSt : St g e kx ky kz [] s).
  { split; [exact F|]. split; [|exact Bf]. split; [exact Px|]. split; [exact Py|]. intros _. exact Pz. }
  pose proof (conj Hkx (conj Hky Hkz')) as Hk.
  destruct (X3 g e kx ky kz Hv Hd Hf Hk s HSt) as (s1 & E1 & S1).
  pose proof (translate_x_valid g kx e Hv) as Hv1. pose proof (translate_x_shape g kx e) as Sh1.
  assert (Hd1 : g_dim3 (translate_x g kx e) = true) by (destruct Sh1 as (D & _); rewrite D; exact Hd).
  set (g1 := translate_x g kx e) in *.
  destruct (Y3 g1 e kx ky kz Hv1 Hd1 (fits_shape _ _ Sh1 Hf) Hk s1 S1) as (s2 & E2 & S2).
  pose proof (translate_y_valid g1 ky e Hv1) as Hv2. pose proof (translate_y_shape g1 ky e) as Sh2.
  assert (Hd2 : g_dim3 (translate_y g1 ky e) = true) by (destruct Sh2 as (D & _); rewrite D; exact Hd1).
  set (g2 := translate_y g1 ky e) in *.
  destruct (Z3 g2 e kx ky kz Hv2 Hd2 (fits_shape _ _ Sh2 (fits_shape _ _ Sh1 Hf)) Hk s2 S2) as (s3 & E3 & S3).
  exists s3. rewrite split_3d, exec_seq, E1. cbn [bind]. rewrite exec_seq, E2. cbn [bind]. split; [exact E3|].
  unfold translate. cbn zeta. rewrite Hd. destruct S3 as (F3 & _ & B3). split; [exact F3|exact B3].
Qed.

(* ================================================================== operator()(cellIndexes): the buffer_ index *)
Lemma cell_index_2d (g : wgrid) (s : state) x y :
  valid g -> g_dim3 g = false -> fits g -> frame g s -> (x < g_nx g)%nat -> (y < g_ny g)%nat ->
  get s (VArg 0) = Z.of_nat x -> get s (VArg 1) = Z.of_nat y ->
  eval src_cell_index_2d s = Some (Z.of_nat (lin g (x, y, 0%nat))) /\
  eval src_cell_index_const_2d s = Some (Z.of_nat (lin g (x, y, 0%nat))).
Proof.
  intros Hv Hd Hf F Lx Ly A0 A1. unfold frame in F. rewrite Hd in F.
  assert (E : eval src_linear_index_2d (set (set s (VArg 0) (get s (VArg 0))) (VArg 1) (get s (VArg 1)))
              = Some (Z.of_nat (lin g (x, y, 0%nat)))) by (apply linear_index_2d; assumption).
  split; exact E.
Qed.

Lemma cell_index_3d (g : wgrid) (s : state) x y z :
  valid g -> g_dim3 g = true -> fits g -> frame g s -> (x < g_nx g)%nat -> (y < g_ny g)%nat -> (z < g_nz g)%nat ->
  get s (VArg 0) = Z.of_nat x -> get s (VArg 1) = Z.of_nat y -> get s (VArg 2) = Z.of_nat z ->
  eval src_cell_index_3d s = Some (Z.of_nat (lin g (x, y, z))) /\
  eval src_cell_index_const_3d s = Some (Z.of_nat (lin g (x, y, z))).
Proof.
  intros Hv Hd Hf F Lx Ly Lz A0 A1 A2. unfold frame in F. rewrite Hd in F.
  assert (E : eval src_linear_index_3d (set (set (set s (VArg 0) (get s (VArg 0))) (VArg 1) (get s (VArg 1))) (VArg 2) (get s (VArg 2)))
              = Some (Z.of_nat (lin g (x, y, z)))) by (apply linear_index_3d; assumption).
  split; exact E.
Qed.

(* reading / writing buffer_ at that index is the model's g_read / g_write *)
Lemma cell_access (g : wgrid) (s : state) (i : idx) : represents s g -> in_window g i = true ->
  nth_error (s_buf s) (lin g i) = g_read g i /\
  forall v, represents (set_buf s (set_nth (lin g i) v (s_buf s))) (g_write g i v).
Proof.
  intros (F & B) Hw. unfold g_read, g_write. rewrite Hw, B. split; [reflexivity|]. intros v. split; [|reflexivity].
  unfold frame, frame3, frame2 in *. cbn [with_buf g_dim3 g_nx g_ny g_nz g_ox g_oy g_oz]. exact F.
Qed.

(* ================================================================== constructor: Grid::init, then the member initialisers *)
Lemma ctor_2d (e : V) (s : state) nx ny nz (d : V) :
  (0 < nx)%nat -> (0 < ny)%nat -> Z.of_nat nx < 2 ^ 31 -> Z.of_nat ny < 2 ^ 31 ->
  get s (VArg 0) = Z.of_nat nx -> get s (VArg 1) = Z.of_nat ny ->
  exists s', exec e (SSeq src_init_2d src_ctor_2d) s = Some s' /\ frame (g_init false nx ny nz d) s'.
Proof.
  intros Px Py Bx By A0 A1. eexists. split; [reflexivity|].
  assert (T : 2 ^ 31 < two64) by reflexivity.
  unfold frame, frame2. cbn [g_init g_dim3 g_nx g_ny g_nz g_ox g_oy g_oz]. gs. cbn [eval norm binop]. gs.
  rewrite A0, A1. rewrite !(Z.mod_small 1), !(Z.mod_small 0) by (unfold two64; lia).
  rewrite !Z.mod_small by lia. repeat split; reflexivity.
Qed.

Lemma ctor_3d (e : V) (s : state) nx ny nz (d : V) :
  (0 < nx)%nat -> (0 < ny)%nat -> (0 < nz)%nat -> Z.of_nat nx < 2 ^ 31 -> Z.of_nat ny < 2 ^ 31 -> Z.of_nat nz < 2 ^ 31 ->
  get s (VArg 0) = Z.of_nat nx -> get s (VArg 1) = Z.of_nat ny -> get s (VArg 2) = Z.of_nat nz ->
  exists s', exec e (SSeq src_init_3d src_ctor_3d) s = Some s' /\ frame (g_init true nx ny nz d) s'.
Proof.
  intros Px Py Pz Bx By Bz A0 A1 A2. eexists. split; [reflexivity|].
  assert (T : 2 ^ 62 < two64) by reflexivity.
  assert (M : 0 <= Z.of_nat ny * Z.of_nat nx < 2 ^ 62) by nia.
  unfold frame, frame3, frame2. cbn [g_init g_dim3 g_nx g_ny g_nz g_ox g_oy g_oz]. gs. cbn [eval norm binop]. gs.
  rewrite A0, A1, A2. rewrite !(Z.mod_small 1), !(Z.mod_small 0) by (unfold two64; lia).
  rewrite !Z.mod_small by lia. repeat split; reflexivity.
Qed.

End Tie.
