(* SrcTieC15.v — C15 syntactic source tie: the programs regenerated from the clang AST (gen/SrcWrapGrid.v), run by the
   interpreter of WrapGridImp.v, compute exactly the states of WrapGridModel — for every grid size, offset and state
   (loop invariants, induction on the trip counts; nothing here is a computation on samples). *)
From Coq Require Import ZArith List Bool Arith Lia.
From Romea Require Import WrapGridModel WrapGridProofs WrapGridImp WrapGridImpFacts.
From Romea.gen Require Import SrcWrapGrid.
Import ListNotations.
Open Scope Z_scope.

Ltac sg := unfold get, set, set_buf in *; cbn [s_var s_buf var_eqb Nat.eqb] in *.

Section Tie.
Context {V : Type}.
Notation state := (state V).
Notation wgrid := (wgrid V).

(* the flat buffer is addressable with size_t indexes (std::vector cannot be larger) *)
Definition fits (g : wgrid) : Prop := Z.of_nat (g_nx g * g_ny g * g_nz g) < two64.

(* how a C++ object state represents a model grid: members of Grid / WrappableGrid *)
Definition frame2 (g : wgrid) (s : state) : Prop :=
  get s (VN 0) = Z.of_nat (g_nx g) /\ get s (VN 1) = Z.of_nat (g_ny g) /\
  get s (VNm1 0) = Z.of_nat (g_nx g) - 1 /\ get s (VNm1 1) = Z.of_nat (g_ny g) - 1 /\
  get s (VCoef 0) = 1 /\ get s (VCoef 1) = Z.of_nat (g_nx g) /\
  get s (VOff 0) = Z.of_nat (g_ox g) /\ get s (VOff 1) = Z.of_nat (g_oy g).

Definition frame3 (g : wgrid) (s : state) : Prop :=
  frame2 g s /\
  get s (VN 2) = Z.of_nat (g_nz g) /\ get s (VNm1 2) = Z.of_nat (g_nz g) - 1 /\
  get s (VCoef 2) = Z.of_nat (g_ny g) * Z.of_nat (g_nx g) /\ get s (VOff 2) = Z.of_nat (g_oz g).

Definition frame (g : wgrid) (s : state) : Prop := if g_dim3 g then frame3 g s else frame2 g s.
Definition represents (s : state) (g : wgrid) : Prop := frame g s /\ s_buf s = g_buf g.

Lemma two64_pos : 0 < two64. Proof. reflexivity. Qed.

Lemma lin_Z (g : wgrid) x y z :
  Z.of_nat (lin g (x, y, z)) =
  (Z.of_nat x + Z.of_nat (g_ox g)) mod Z.of_nat (g_nx g)
  + Z.of_nat (g_nx g) * ((Z.of_nat y + Z.of_nat (g_oy g)) mod Z.of_nat (g_ny g))
  + Z.of_nat (g_nx g) * Z.of_nat (g_ny g) * ((Z.of_nat z + Z.of_nat (g_oz g)) mod Z.of_nat (g_nz g)).
Proof. unfold lin. rewrite !Nat2Z.inj_add, !Nat2Z.inj_mul, !Nat2Z.inj_mod, !Nat2Z.inj_add. reflexivity. Qed.

(* bounds used to show that no size_t operation of the index computation wraps *)
Lemma lin_parts (g : wgrid) a b c : valid g -> fits g ->
  0 <= a < Z.of_nat (g_nx g) -> 0 <= b < Z.of_nat (g_ny g) -> 0 <= c < Z.of_nat (g_nz g) ->
  0 <= Z.of_nat (g_nx g) * b /\ 0 <= Z.of_nat (g_nx g) * Z.of_nat (g_ny g) * c /\
  a + Z.of_nat (g_nx g) * b + Z.of_nat (g_nx g) * Z.of_nat (g_ny g) * c < two64 /\
  Z.of_nat (g_nx g) * Z.of_nat (g_ny g) < two64 /\ Z.of_nat (g_nx g) < two64 /\ Z.of_nat (g_ny g) < two64
  /\ Z.of_nat (g_nz g) < two64.
Proof.
  intros (Hx & Hy & Hz & _) Hf Ha Hb Hc. unfold fits in Hf. rewrite !Nat2Z.inj_mul in Hf.
  set (nx := Z.of_nat (g_nx g)) in *. set (ny := Z.of_nat (g_ny g)) in *. set (nz := Z.of_nat (g_nz g)) in *.
  assert (Qx : 0 < nx) by lia. assert (Qy : 0 < ny) by lia. assert (Qz : 0 < nz) by lia.
  assert (H1 : nx * (b + 1) <= nx * ny) by (apply Z.mul_le_mono_nonneg_l; lia).
  assert (H2 : nx * ny * (c + 1) <= nx * ny * nz) by (apply Z.mul_le_mono_nonneg_l; nia).
  assert (H3 : nx * ny * 1 <= nx * ny * nz) by (apply Z.mul_le_mono_nonneg_l; nia).
  assert (H4 : nx * 1 <= nx * ny) by (apply Z.mul_le_mono_nonneg_l; lia).
  assert (H5 : ny * 1 <= ny * nx) by (apply Z.mul_le_mono_nonneg_l; lia).
  assert (H6 : 1 * nz <= nx * ny * nz) by (apply Z.mul_le_mono_nonneg_r; nia).
  repeat split; nia.
Qed.

(* ------------------------------------------------------------------ computeCellLinearIndex_ *)
Lemma linear_index_2d (g : wgrid) (s : state) x y :
  valid g -> g_dim3 g = false -> fits g -> frame2 g s ->
  (x < g_nx g)%nat -> (y < g_ny g)%nat ->
  get s (VArg 0) = Z.of_nat x -> get s (VArg 1) = Z.of_nat y ->
  eval src_linear_index_2d s = Some (Z.of_nat (lin g (x, y, 0%nat))).
Proof.
  intros Hv Hd Hf (N0 & N1 & M0 & M1 & C0 & C1 & O0 & O1) Hx Hy A0 A1.
  pose proof Hv as (Px & Py & Pz & Pox & Poy & Poz & HL & H2d & Hb).
  rewrite lin_Z. rewrite (H2d Hd). change (Z.of_nat 1) with 1. rewrite Z.mod_1_r, Z.mul_0_r, Z.add_0_r.
  set (a := (Z.of_nat x + Z.of_nat (g_ox g)) mod Z.of_nat (g_nx g)).
  set (b := (Z.of_nat y + Z.of_nat (g_oy g)) mod Z.of_nat (g_ny g)).
  assert (Ha : 0 <= a < Z.of_nat (g_nx g)) by (apply Z.mod_pos_bound; lia).
  assert (Hb' : 0 <= b < Z.of_nat (g_ny g)) by (apply Z.mod_pos_bound; lia).
  pose proof (lin_parts g a b 0 Hv Hf Ha Hb' ltac:(lia)) as (B1 & B2 & B3 & B4 & B5 & B6 & B7).
  assert (Ra : Z.rem (Z.of_nat x + Z.of_nat (g_ox g)) (Z.of_nat (g_nx g)) = a) by (apply Z.rem_mod_nonneg; lia).
  assert (Rb : Z.rem (Z.of_nat y + Z.of_nat (g_oy g)) (Z.of_nat (g_ny g)) = b) by (apply Z.rem_mod_nonneg; lia).
  rewrite safe_eval.
  - f_equal. unfold src_linear_index_2d. cbn [evalZ opZ]. rewrite A0, A1, O0, O1, N0, N1, C0, C1, Ra, Rb. lia.
  - unfold src_linear_index_2d. cbn [safe evalZ okop opZ inrange]. rewrite A0, A1, O0, O1, N0, N1, C0, C1, Ra, Rb.
    pose proof two64_pos. assert (T : 2 ^ 32 < two64) by reflexivity. repeat split; try lia; timeout 20 nia.
Qed.

Lemma linear_index_3d (g : wgrid) (s : state) x y z :
  valid g -> fits g -> frame3 g s ->
  (x < g_nx g)%nat -> (y < g_ny g)%nat -> (z < g_nz g)%nat ->
  get s (VArg 0) = Z.of_nat x -> get s (VArg 1) = Z.of_nat y -> get s (VArg 2) = Z.of_nat z ->
  eval src_linear_index_3d s = Some (Z.of_nat (lin g (x, y, z))).
Proof.
  intros Hv Hf ((N0 & N1 & M0 & M1 & C0 & C1 & O0 & O1) & N2 & M2 & C2 & O2) Hx Hy Hz A0 A1 A2.
  pose proof Hv as (Px & Py & Pz & Pox & Poy & Poz & HL & H2d & Hb).
  rewrite lin_Z.
  set (a := (Z.of_nat x + Z.of_nat (g_ox g)) mod Z.of_nat (g_nx g)).
  set (b := (Z.of_nat y + Z.of_nat (g_oy g)) mod Z.of_nat (g_ny g)).
  set (c := (Z.of_nat z + Z.of_nat (g_oz g)) mod Z.of_nat (g_nz g)).
  assert (Ha : 0 <= a < Z.of_nat (g_nx g)) by (apply Z.mod_pos_bound; lia).
  assert (Hb' : 0 <= b < Z.of_nat (g_ny g)) by (apply Z.mod_pos_bound; lia).
  assert (Hc : 0 <= c < Z.of_nat (g_nz g)) by (apply Z.mod_pos_bound; lia).
  pose proof (lin_parts g a b c Hv Hf Ha Hb' Hc) as (B1 & B2 & B3 & B4 & B5 & B6 & B7).
  assert (Ra : Z.rem (Z.of_nat x + Z.of_nat (g_ox g)) (Z.of_nat (g_nx g)) = a) by (apply Z.rem_mod_nonneg; lia).
  assert (Rb : Z.rem (Z.of_nat y + Z.of_nat (g_oy g)) (Z.of_nat (g_ny g)) = b) by (apply Z.rem_mod_nonneg; lia).
  assert (Rc : Z.rem (Z.of_nat z + Z.of_nat (g_oz g)) (Z.of_nat (g_nz g)) = c) by (apply Z.rem_mod_nonneg; lia).
  rewrite safe_eval.
  - f_equal. unfold src_linear_index_3d. cbn [evalZ opZ]. rewrite A0, A1, A2, O0, O1, O2, N0, N1, N2, C0, C1, C2, Ra, Rb, Rc. lia.
  - unfold src_linear_index_3d. cbn [safe evalZ okop opZ inrange].
    rewrite A0, A1, A2, O0, O1, O2, N0, N1, N2, C0, C1, C2, Ra, Rb, Rc.
    pose proof two64_pos. assert (T : 2 ^ 32 < two64) by reflexivity. repeat split; try lia; timeout 20 nia.
Qed.

End Tie.
