(* drv_C05.ml — runs the extracted P2pModel on a case file; one output line per case.
   case line:  p2p <f32|f64> <d:2|3> <hom:0|1> NCALLS { <mode:a|c> <pre:-|scale> NS <NS*d> NT <NT*d> NN <NN*d normals> [NC (si ti)*NC] }*
   one estimator object per case, the calls are made in order (pre != "-": setPreconditioner(ps, pt) then find(ps, pt, ..)).
   output   :  per call the (d+1)^2 entries of H row-major, calls separated by ";" ; "undef" ends the case
               then " | res <max svd contract residual> <converged>"   (model side only)
   Environment C07_SVD_ABS=1 selects the original absolute-epsilon SVD path of LeastSquares. *)
open Numf
open Datatypes
open LinAlgBModel
open LsModel
open P2pModel

let rec nat_of_int n = if n <= 0 then O else S (nat_of_int (n - 1))
let svd_fixed = (try Sys.getenv "C07_SVD_ABS" <> "1" with Not_found -> true)

let () =
  iter_lines stdin (fun line ->
    match split_ws line with
    | "p2p" :: ty :: ds :: homs :: ncalls :: rest ->
      let n = dict_of_string ty in
      let rd s = let x = rf s in if ty = "f32" then r32 x else x in
      let d = int_of_string ds in
      let hom = homs = "1" in
      let ps = if hom then d + 1 else d in
      let dn = nat_of_int d and psn = nat_of_int ps in
      let toks = ref rest in
      let next () = match !toks with t :: r -> toks := r; t | [] -> failwith "short case" in
      let read_pts w =
        let cnt = int_of_string (next ()) in
        Stdlib.List.init cnt (fun _ ->
            let c = Stdlib.List.init d (fun _ -> rd (next ())) in
            if hom then c @ [w] else c) in
      let maxres = ref 0.0 and allconv = ref true in
      let svd_of k m =
        let (((u, s), v), c) = jacobi_svd n (nat_of_int 60) k m in
        if not c then allconv := false;
        let r = svd_residual n k m u s v in
        if Float.is_nan r || not (sorted_desc_nonneg n s) then maxres := infinity else if r > !maxres then maxres := r;
        ((u, s), v) in
      let inverse_of k m = gj_inverse n k m in   (* not used by the SVD path *)
      let st = ref (p2p_new n dn) in
      let outs = ref [] in
      let stop = ref false in
      for _ = 1 to int_of_string ncalls do
        if not !stop then begin
          let mode = next () in
          let pre = next () in
          let src = read_pts 1.0 in
          let tgt = read_pts 1.0 in
          let nrm = read_pts 0.0 in          (* the harness stores normals of homogeneous types with w = 0 *)
          let corr = if mode = "c" then begin
              let nc = int_of_string (next ()) in
              Stdlib.List.init nc (fun _ ->
                  let a = int_of_string (next ()) in let b = int_of_string (next ()) in (nat_of_int a, nat_of_int b))
            end else [] in
          let src, tgt =
            if pre = "-" then src, tgt
            else begin
              let s = rd pre in
              st := p2p_set_preconditioner n dn s !st;
              p2p_precondition n s src, p2p_precondition n s tgt
            end in
          let r = if mode = "a" then p2p_find_aligned n inverse_of svd_of nan svd_fixed dn psn src tgt nrm !st
            else p2p_find_corr n inverse_of svd_of nan svd_fixed dn psn src tgt nrm corr !st in
          match r with
          | None -> outs := "undef" :: !outs; stop := true
          | Some (st', h) ->
            st := st';
            outs := String.concat " " (Stdlib.List.map (fun r -> String.concat " " (Stdlib.List.map pf r)) h) :: !outs
        end
      done;
      print_endline (String.concat " ; " (Stdlib.List.rev !outs)
                     ^ Printf.sprintf " | res %s %d" (pf !maxres) (if !allconv then 1 else 0))
    | _ -> print_endline "?")
