(* drv_C17.ml — runs the extracted RateModel on a case file; one output line per case.
   case line:   rate <eq|gt> <expected hexfloat> <epsilon hexfloat> <event>...     event = D:<ns> | H:<ns>  (decimal integers)
   output   :   I <status> <message> i=<info>   then per event
                D <rate> <returned> <status> <message> i=<info>
                H <timeout 0|1> <rate> <alive 0|1> <status> <message> i=<info> *)
open Numf
open DiagModel
open RateModel

let st_name = function OK -> "OK" | WARN -> "WARN" | ERROR -> "ERROR" | STALE -> "STALE"
let msg_text = function
  | SNone -> "no_data_received_from_x"        (* the constructor-supplied initial message *)
  | STooLow -> "x_rate_is_too_low." | STooHigh -> "x_rate_is_too_high." | SIsOK -> "x_rate_is_OK."
  | STimeout -> "x_rate_timeout." | SUncertain -> "x_rate_is_uncertain." | SIsHigh -> "x_rate_is_high."

let show (r : float creport) =
  Printf.sprintf "%s %s i=%s" (st_name r.r_diag.d_status) (msg_text r.r_diag.d_suffix)
    (match r.r_info with None -> "" | Some v -> pg v)

let () =
  iter_lines stdin (fun line ->
    match split_ws line with
    | "rate" :: k :: expected :: eps :: evs ->
      let kind = (match k with "eq" -> KEqual | "gt" -> KGreater | s -> failwith ("kind " ^ s)) in
      let c0 = cr_init f64 (rf expected) (rf eps) in
      let ev s =
        let z = z_of_string (String.sub s 2 (String.length s - 2)) in
        if s.[0] = 'D' then Data z else Heartbeat z in
      let res = cr_run f64 kind c0 (Stdlib.List.map ev evs) in
      let out = Stdlib.List.map (fun ((o, rate), rep) ->
          match o with
          | OData s -> Printf.sprintf "D %s %s %s" (pf rate) (st_name s) (show rep)
          | OBeat alive -> Printf.sprintf "H %s %s %s %s" (if alive then "0" else "1") (pf rate) (if alive then "1" else "0") (show rep)) res in
      print_endline (String.concat " " (("I " ^ show c0.cr_chk.c_report) :: out))
    | _ -> print_endline "?")
