(* drv_C03.ml — runs the extracted LambertModel (binary64 dictionary); format: see harness/C03.cpp. *)
open Numf
open GeodesyModel
open LambertModel

let rec nat_of_int n = if n <= 0 then Datatypes.O else Datatypes.S (nat_of_int (n - 1))
let fuel = nat_of_int 500
let n = f64
let join l = String.concat " " (Stdlib.List.map pf l)

let emit pp e lat0 lon0 lat lon d =
  let fw la lo = let v = toLambert n pp e { w_lat = la; w_lon = lo } in [v.v2x; v.v2y] in
  let p = toLambert n pp e { w_lat = lat; w_lon = lon } in
  let back = match toWGS84 n fuel pp e p with
    | None -> "HANG HANG"
    | Some w -> join [w.w_lat; w.w_lon] in
  let ks = [-2.0; -1.0; 1.0; 2.0] in
  let r = Stdlib.List.concat
      (Stdlib.List.map (fun k -> fw (lat +. k *. d) lon) ks
       @ Stdlib.List.map (fun k -> fw lat (lon +. k *. d)) ks
       @ [fw lat0 lon0; fw lat lon0]) in
  print_endline (join [pp.p_n; pp.p_c; pp.p_xs; pp.p_ys] ^ " " ^ join [p.v2x; p.v2y] ^ " " ^ back ^ " " ^ join r)

let () =
  iter_lines stdin (fun line ->
    match split_ws line with
    | "sec" :: r when Stdlib.List.length r = 11 ->
      let f = Array.of_list (Stdlib.List.map rf r) in
      let el = make_ellipsoid n f.(0) f.(1) in
      let sp = { sp_lon0 = f.(2); sp_lat0 = f.(3); sp_lat1 = f.(4); sp_lat2 = f.(5); sp_x0 = f.(6); sp_y0 = f.(7) } in
      emit (secant_projection n sp el) el.el_e f.(3) f.(2) f.(8) f.(9) f.(10)
    | "tan" :: r when Stdlib.List.length r = 10 ->
      let f = Array.of_list (Stdlib.List.map rf r) in
      let el = make_ellipsoid n f.(0) f.(1) in
      let tp = { tp_lat0 = f.(2); tp_lon0 = f.(3); tp_k0 = f.(4); tp_x0 = f.(5); tp_y0 = f.(6) } in
      emit (tangent_projection n tp el) el.el_e f.(2) f.(3) f.(7) f.(8) f.(9)
    | ["iso"; lat; e] ->
      let l = isometricLatitude n (rf lat) (rf e) in
      print_endline (pf l ^ " " ^ (match computeLatitude n fuel l (rf e) with None -> "HANG" | Some x -> pf x))
    | _ -> print_endline "?")
