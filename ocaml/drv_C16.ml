(* drv_C16.ml — extracted OnlineStatsModel on a case file.
   avg <precision> <W> <op>...   op = U:<hexfloat> | R     -> per op: <avail> <average> <sum> <len>
   var <precision> <W> <op>...                             -> per op: <avail> <average> <variance> <sum> <len>
   ring <cap> <op>...            op = A:<int> | C          -> per op: <size>:<e0>,<e1>,... *)
open Numf
open OnlineStatsModel

let nat_of_int n = let rec go k acc = if k = 0 then acc else go (k - 1) (Datatypes.S acc) in go n Datatypes.O
let rec int_of_nat = function Datatypes.O -> 0 | Datatypes.S n -> 1 + int_of_nat n
let popt = function None -> "nan" | Some x -> pf x

let () =
  iter_lines stdin (fun line ->
    match split_ws line with
    | (("avg" | "var" | "avg2" | "var2") as kind0) :: prec :: w :: ops ->
      let kind = String.sub kind0 0 3 in
      let n = f64 in
      let mult = o_multiplier n (rf prec) in
      let s = ref (o_init (nat_of_int (int_of_string w))) in
      let out = Stdlib.List.map (fun o ->
          let op = if o = "R" then OReset else OUpdate (rf (String.sub o 2 (String.length o - 2))) in
          s := o_step n mult !s op;
          let av = if o_available !s then "1" else "0" in
          let len = int_of_nat (Datatypes.length !s.o_data) in
          if kind = "avg" then
            Printf.sprintf "%s %s %s %d" av (popt (o_average n mult !s)) (string_of_z !s.o_sum) len
          else
            Printf.sprintf "%s %s %s %s %d" av (popt (o_average n mult !s)) (popt (o_variance n mult !s))
              (string_of_z !s.o_sum) len) ops in
      print_endline (String.concat " ; " out)
    | "ring" :: cap :: ops ->
      let s = ref (r_init (nat_of_int (int_of_string cap))) in
      let out = Stdlib.List.map (fun o ->
          let op = if o = "C" then RClear else RAppend (int_of_string (String.sub o 2 (String.length o - 2))) in
          s := r_step !s op;
          let sz = int_of_nat (r_size !s) in
          let es = Stdlib.List.init sz (fun k -> match r_get !s (nat_of_int k) with None -> "none" | Some v -> string_of_int v) in
          Printf.sprintf "%d:%s" sz (String.concat "," es)) ops in
      print_endline (String.concat " " out)
    | _ -> print_endline "?")
