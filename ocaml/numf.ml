(* numf.ml — executable numeric dictionaries for the extracted models, and I/O helpers.
   Trusted (not verified): this file, OCaml's float arithmetic and libm.
   f64 : every operation is OCaml's binary64 operation (same libm as the C++ build).
   f32 : every operation is computed in binary64 and rounded to binary32. *)
open BinNums
open Num

(* ---------- Z <-> OCaml ---------- *)
let rec pos_of_int (n : int) : positive =
  if n = 1 then Coq_xH
  else if n land 1 = 0 then Coq_xO (pos_of_int (n lsr 1))
  else Coq_xI (pos_of_int (n lsr 1))

let z_of_int (n : int) : coq_Z =
  if n = 0 then Z0 else if n > 0 then Zpos (pos_of_int n) else Zneg (pos_of_int (-n))

let rec int_of_pos = function
  | Coq_xH -> 1
  | Coq_xO p -> 2 * int_of_pos p
  | Coq_xI p -> 2 * int_of_pos p + 1

let int_of_z = function Z0 -> 0 | Zpos p -> int_of_pos p | Zneg p -> - (int_of_pos p)

let rec float_of_pos = function
  | Coq_xH -> 1.0
  | Coq_xO p -> 2.0 *. float_of_pos p
  | Coq_xI p -> 2.0 *. float_of_pos p +. 1.0

(* integer -> double: correctly rounded (one rounding) below 2^62 as the C++ conversion; beyond that the
   bit-by-bit accumulation may round more than once *)
let rec pos_bits = function Coq_xH -> 1 | Coq_xO p | Coq_xI p -> 1 + pos_bits p
let float_of_z = function
  | Z0 -> 0.0
  | Zpos p -> if pos_bits p <= 62 then float_of_int (int_of_pos p) else float_of_pos p
  | Zneg p -> if pos_bits p <= 62 then -. (float_of_int (int_of_pos p)) else -. (float_of_pos p)

(* arbitrary-size Z printed as sign + hex digits, e.g. -0x1f ; parsed by python int(s,16) *)
let hex_of_pos p =
  let rec bits p acc = match p with
    | Coq_xH -> 1 :: acc
    | Coq_xO q -> bits q (0 :: acc)
    | Coq_xI q -> bits q (1 :: acc) in
  let bl = bits p [] in   (* most significant first *)
  let n = Stdlib.List.length bl in
  let pad = (4 - n mod 4) mod 4 in
  let bl = Stdlib.List.init pad (fun _ -> 0) @ bl in
  let buf = Buffer.create 16 in
  let rec go = function
    | a :: b :: c :: d :: r -> Buffer.add_char buf "0123456789abcdef".[a*8+b*4+c*2+d]; go r
    | _ -> () in
  go bl; Buffer.contents buf

let string_of_z = function
  | Z0 -> "0x0" | Zpos p -> "0x" ^ hex_of_pos p | Zneg p -> "-0x" ^ hex_of_pos p

(* decimal or 0x-hex integer literal of any size -> Z *)
let z_of_string (s : string) : coq_Z =
  let neg, s = if String.length s > 0 && s.[0] = '-' then true, String.sub s 1 (String.length s - 1) else false, s in
  let base, s =
    if String.length s > 2 && s.[0] = '0' && (s.[1] = 'x' || s.[1] = 'X') then 16, String.sub s 2 (String.length s - 2) else 10, s in
  let acc = ref Z0 in
  String.iter (fun c ->
    let d = match c with
      | '0'..'9' -> Char.code c - 48 | 'a'..'f' -> Char.code c - 87 | 'A'..'F' -> Char.code c - 55
      | _ -> failwith ("z_of_string: " ^ s) in
    acc := BinInt.Z.add (BinInt.Z.mul !acc (z_of_int base)) (z_of_int d)) s;
  if neg then BinInt.Z.opp !acc else !acc

(* C++ static_cast<integer>(x): truncation toward zero (undefined outside the integer range;
   we saturate at +-2^62 and the harness reports such inputs as out of domain) *)
let z_of_float_trunc (x : float) : coq_Z =
  if Float.is_nan x then Z0
  else if Float.abs x >= 4.0e18 then (if x > 0.0 then z_of_int max_int else z_of_int min_int)
  else z_of_int (int_of_float x)

(* ---------- dictionaries ---------- *)
let r32 (x : float) : float = Int32.float_of_bits (Int32.bits_of_float x)

let fmod_c (x : float) (y : float) : float = Float.rem x y   (* C fmod *)

let mk (rnd : float -> float) ~(maxv : float) ~(minp : float) ~(eps : float) : float coq_NumOps =
  let u1 f = fun x -> rnd (f x) and u2 f = fun x y -> rnd (f x y) in
  { nzero = 0.0; n_one = 1.0;
    nadd = u2 ( +. ); nsub = u2 ( -. ); nmul = u2 ( *. ); ndiv = u2 ( /. );
    nneg = (fun x -> -. x); nabs = Float.abs; nsqrt = u1 sqrt;
    nsin = u1 sin; ncos = u1 cos; ntan = u1 tan;
    natan = u1 atan; nasin = u1 asin; nacos = u1 acos;
    nexp = u1 exp; nln = u1 log;
    natan2 = u2 Float.atan2; npow = u2 Float.pow; nfmod = u2 fmod_c;
    nfloor = Float.floor; nceil = Float.ceil;
    ntruncZ = z_of_float_trunc;
    nofZ = (fun z -> rnd (float_of_z z));
    nofDec = (fun m e -> rnd (float_of_string (Printf.sprintf "%se%d" (string_of_int (int_of_z m)) (int_of_z e))));
    npi = rnd (4.0 *. atan 1.0);
    nmaxval = maxv; nminpos = minp; nepsilon = eps;
    nltb = (fun a b -> a < b); nleb = (fun a b -> a <= b); neqb = (fun a b -> a = b) }

let f64 : float coq_NumOps = mk (fun x -> x) ~maxv:max_float ~minp:min_float ~eps:epsilon_float
let f32 : float coq_NumOps =
  mk r32 ~maxv:(Int32.float_of_bits 0x7f7fffffl) ~minp:(Int32.float_of_bits 0x00800000l)
    ~eps:(Int32.float_of_bits 0x34000000l)

let dict_of_string = function "f64" | "d" | "double" -> f64 | "f32" | "f" | "float" -> f32
  | s -> failwith ("unknown scalar type " ^ s)

(* ---------- text I/O ---------- *)
let pf (x : float) : string =
  if Float.is_nan x then "nan" else if x = infinity then "inf" else if x = neg_infinity then "-inf"
  else Printf.sprintf "%h" x

let rf (s : string) : float = match s with
  | "nan" -> nan | "inf" -> infinity | "-inf" -> neg_infinity | _ -> float_of_string s

let split_ws (s : string) : string list =
  Stdlib.List.filter (fun t -> t <> "") (String.split_on_char ' ' (String.trim s))

let iter_lines (ic : in_channel) (f : string -> unit) : unit =
  try while true do
      let l = input_line ic in
      if String.length l > 0 && l.[0] <> '#' then f l
    done with End_of_file -> ()

let rec coq_list_of_list = function [] -> [] | x :: r -> x :: coq_list_of_list r

(* printf "%g" as std::ostream prints a double by default *)
let pg (x : float) : string =
  if Float.is_nan x then (if Int64.bits_of_float x < 0L then "-nan" else "nan")
  else if x = infinity then "inf" else if x = neg_infinity then "-inf"
  else Printf.sprintf "%g" x
