(* drv_C09.ml — runs the extracted NormalsModel on a case file, with the neighbour lists the implementation's own
   kd-tree produced (side file written by harness/C09.cpp) and the Gallina cyclic Jacobi as eigen oracle.
   case line: see harness/C09.cpp.
   output   : per cloud, per point "P <SIZE normal entries> <curv|-> <rel|-> E <contract residual / max|C|> <sorted 0|1>
              <l0> <l1> [<l2>]"   (the E group is diagnostics for the comparator: contract check of the oracle call)
   C09_OLD_RULE=1 in the environment runs the flip rule of the original source (full vectors). *)
open Numf
open Datatypes
open NormalsModel

let rec nat_of_int n = if n <= 0 then O else S (nat_of_int (n - 1))

let read_lines path =
  let ic = open_in path in
  let rec go acc = match input_line ic with l -> go (l :: acc) | exception End_of_file -> close_in ic; Stdlib.List.rev acc in
  go []

let old_rule = match Sys.getenv_opt "C09_OLD_RULE" with Some "1" -> true | _ -> false
let sweeps = nat_of_int 12

let () =
  iter_lines stdin (fun line ->
    try
      let t = Array.of_list (split_ws line) in
      if Array.length t < 11 || t.(0) <> "nc" then print_endline "?" else begin
        let ty = t.(1) and dim = int_of_string t.(2) and hom = t.(3) = "1" and n = int_of_string t.(4) in
        let ov = int_of_string t.(6) and zero = t.(7) = "z" in
        let nclouds = int_of_string t.(9) in
        let dict = dict_of_string ty in
        let rd s = let x = rf s in if ty = "f32" then r32 x else x in
        let size = if hom then dim + 1 else dim in
        let ndim = nat_of_int dim and nsize = nat_of_int size in
        let side = Array.of_list (read_lines t.(8)) in
        let at = ref 10 in
        let buf = Buffer.create 4096 in
        let normal_in =
          if zero then Stdlib.List.init size (fun _ -> 0.0)
          else if hom then Stdlib.List.init size (fun i -> if i = dim then 1.0 else 0.0)
          else Stdlib.List.init size (fun _ -> 7.0) in
        let eig = jacobi_eig dict sweeps ndim in
        for c = 0 to nclouds - 1 do
          if c = 1 then at := !at + dim * dim;
          let pts = Array.init n (fun i ->
              let p = Stdlib.List.init dim (fun d -> rd t.(!at + i * dim + d)) in
              if hom then p @ [1.0] else p) in
          at := !at + n * dim;
          for i = 0 to n - 1 do
            let nbidx = Stdlib.List.map int_of_string (split_ws side.(c * n + i)) in
            let nb = Stdlib.List.map (fun j -> pts.(j)) nbidx in
            let cov = covariance dict ndim nsize nb in
            let er = eig cov in
            let est = estimate_point dict (fun _ -> er) old_rule ndim nsize pts.(i) nb normal_in in
            let scale = Stdlib.List.fold_left (fun a row -> Stdlib.List.fold_left (fun a x -> Float.max a (Float.abs x)) a row) 0.0 cov in
            let (r_recon, r_orth) = eig_residual dict ndim cov er in
            let rr = Float.max (if scale > 0.0 then r_recon /. scale else r_recon) r_orth in
            Buffer.add_string buf (if Buffer.length buf = 0 then "P" else " P");
            Stdlib.List.iter (fun x -> Buffer.add_string buf (" " ^ pf x)) est.e_normal;
            Buffer.add_string buf (" " ^ (if ov >= 2 then pf est.e_curvature else "-"));
            Buffer.add_string buf (" " ^ (if ov >= 4 then pf est.e_reliability else "-"));
            Buffer.add_string buf (Printf.sprintf " E %s %d" (pf rr) (if eig_sorted_b dict ndim er then 1 else 0));
            Stdlib.List.iter (fun x -> Buffer.add_string buf (" " ^ pf x)) est.e_lambda
          done
        done;
        print_endline (Buffer.contents buf)
      end
    with e -> print_endline ("error " ^ Printexc.to_string e))
