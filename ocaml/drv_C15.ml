(* drv_C15.ml — extracted WrapGridModel on a case file.
   grid <2|3> <nx> <ny> <nz> <op>...   op = T:<kx>,<ky>,<kz>,<empty>  |  W:<x>,<y>,<z>,<value>
   output: after each op  "<ox>,<oy>,<oz>:<v0>,<v1>,..."  (cells in logical order, z outer / y / x inner) *)
open Numf
open WrapGridModel

let nat_of_int n = let rec go k acc = if k = 0 then acc else go (k - 1) (Datatypes.S acc) in go n Datatypes.O
let rec int_of_nat = function Datatypes.O -> 0 | Datatypes.S n -> 1 + int_of_nat n
let ints s = Stdlib.List.map int_of_string (String.split_on_char ',' s)

let () =
  iter_lines stdin (fun line ->
    match split_ws line with
    | "grid" :: d :: nx :: ny :: nz :: ops ->
      let g = ref (g_init (d = "3") (nat_of_int (int_of_string nx)) (nat_of_int (int_of_string ny))
                     (nat_of_int (int_of_string nz)) 0) in
      let out = Stdlib.List.map (fun o ->
          let body = String.sub o 2 (String.length o - 2) in
          (match o.[0], ints body with
           | 'T', [kx; ky; kz; e] -> g := gstep !g (GTranslate (z_of_int kx, z_of_int ky, z_of_int kz, e))
           | 'W', [x; y; z; v] -> g := gstep !g (GWrite (((nat_of_int x, nat_of_int y), nat_of_int z), v))
           | _ -> failwith "op");
          let ((ox, oy), oz), cells = dump !g in
          Printf.sprintf "%d,%d,%d:%s" (int_of_nat ox) (int_of_nat oy) (int_of_nat oz)
            (String.concat "," (Stdlib.List.map (function None -> "none" | Some v -> string_of_int v) cells))) ops in
      print_endline (String.concat " " out)
    | _ -> print_endline "?")
