(* drv_C10.ml — runs the extracted AnglesModel on a case file; one output line per case.
   case lines (numbers are hex floats; <ty> = f32 | f64):
     n02 <ty> <x>                 between0And2Pi(x)
     npi <ty> <x>                 betweenMinusPiAndPi(x)
     r2  <ty> <a>                 eulerAngleToRotation2D(a) (4, row major) ; rotation2DToEulerAngle of it
     r2m <ty> <4 entries>         rotation2DToEulerAngle(m) ; eulerAngleToRotation2D of it (4)
     e2r <ty> <roll pitch yaw>    R (9) ; quaternion w x y z ; rotation3DToEulerAngles(R) (3) ;
                                  quaternionToEulerAngles(q) (3) ; [f64 only] SmartRotation3D::R (9)
     r2e <ty> <9 entries>         rotation3DToEulerAngles (3) ; eulerAnglesToRotation3D of them (9)
     q2e <ty> <w x y z>           q.normalized().toRotationMatrix() (9) ; quaternionToEulerAngles (3)
     pol <ty> <x y>               range azimut ; back x y
     sph <ty> <x y z>             range azimut elevation ; back x y z
   a non-finite result prints "none" (as the harness does). *)
open Numf
open AnglesModel

let () =
  iter_lines stdin (fun line ->
    match split_ws line with
    | k :: ty :: args ->
      let n = dict_of_string ty in
      let is32 = (ty = "f32") in
      let down = if is32 then r32 else (fun x -> x) in
      let up = fun (x : float) -> x in
      let a = Array.of_list (Stdlib.List.map (fun s -> down (rf s)) args) in
      let buf = ref [] and bad = ref false in
      let put x = if Float.is_nan x || Float.abs x = infinity then bad := true; buf := pf x :: !buf in
      let putm (m : float mat3) =
        Stdlib.List.iter put [m.m00; m.m01; m.m02; m.m10; m.m11; m.m12; m.m20; m.m21; m.m22] in
      let putm2 (m : float mat2) = Stdlib.List.iter put [m.a00; m.a01; m.a10; m.a11] in
      let putv (v : float vec3) = put v.v0; put v.v1; put v.v2 in
      let putov = function None -> bad := true | Some v -> putv v in
      let r2e = rotation3DToEulerAngles n f64 up down in
      (match k with
       | "n02" -> put (between0And2Pi f64 up down a.(0))
       | "npi" -> put (betweenMinusPiAndPi f64 up down a.(0))
       | "r2" ->
         let r = eulerAngleToRotation2D n a.(0) in
         putm2 r; put (rotation2DToEulerAngle n f64 up down r)
       | "r2m" ->
         let r = { a00 = a.(0); a01 = a.(1); a10 = a.(2); a11 = a.(3) } in
         let an = rotation2DToEulerAngle n f64 up down r in
         put an; putm2 (eulerAngleToRotation2D n an)
       | "e2r" ->
         let e = { v0 = a.(0); v1 = a.(1); v2 = a.(2) } in
         let r = eulerAnglesToRotation3D n e in
         let q = eulerAnglesToQuaternion n e in
         putm r; put q.qw; put q.qx; put q.qy; put q.qz;
         putov (r2e r);
         putov (quaternionToEulerAngles n f64 up down q);
         if not is32 then putm (smart_init n a.(0) a.(1) a.(2)).sR
       | "r2e" ->
         let r = { m00 = a.(0); m01 = a.(1); m02 = a.(2); m10 = a.(3); m11 = a.(4); m12 = a.(5);
                   m20 = a.(6); m21 = a.(7); m22 = a.(8) } in
         (match r2e r with
          | None -> bad := true
          | Some an -> putv an; putm (eulerAnglesToRotation3D n an))
       | "q2e" ->
         let q = { qw = a.(0); qx = a.(1); qy = a.(2); qz = a.(3) } in
         putm (quat_to_mat n (qnormalized n q));
         putov (quaternionToEulerAngles n f64 up down q)
       | "pol" ->
         let (r, az) = toPolar n a.(0) a.(1) in
         put r; put az;
         let (x, y) = polarToCartesian n r az in put x; put y
       | "sph" ->
         (match toSpherical n a.(0) a.(1) a.(2) with
          | None -> bad := true
          | Some ((r, az), el) ->
            put r; put az; put el; putv (sphericalToCartesian n r az el))
       | _ -> buf := ["?"]);
      print_endline (if !bad then "none" else String.concat " " (Stdlib.List.rev !buf))
    | _ -> print_endline "?")
