(* drv_C06.ml — runs the extracted RansacModel / IcpModel on a case file; one output line per case.
   case lines (numbers: hex floats / integers):
     it   <npoints> <p (binary32 value)> <maxit> <sdraw> <k>...
     est  <npoints> <sdraw> <mininl> <sigma> <d:c>...                 d = draw result 0/1, c = value countInliers returns
     rig|cmp <kind c2|c3|h2|h3> <sigma> <ncand> <npts> <ncorr> <nsample> <numberOfPoints>
             M(ncand*(D+1)^2, row major)  samples(ncand*nsample correspondence positions)  src(npts*SIZE)  tgt(npts*SIZE)
             corr(ncorr * (s t d))
     icp  <c|h> <tx> <ty> <theta> <sigma> | <ntrace> (<it> <ok> <rmse> <pairs> M(9))...        recorded hook trace, replayed
     icpd <c|h> <tx> <ty> <theta> <sigma> | <ntrace> (<it> <ok> <rmse> <pairs> M(9) <ncand> (s t d)... <nkept> (s t)...)...
     syn  ...                                                          (oracle only: the model prints "-")
   The last token of rig/cmp/icp/icpd lines is "m=<margin>": the smallest relative distance of any compared value
   to a threshold it is compared with (tie-prone cases are recognised by it). *)
open Numf
open RansacModel
open IcpModel

let n64 = f64
let zi = z_of_int
let iz = int_of_z
let rec nat_of_int n = if n <= 0 then Datatypes.O else Datatypes.S (nat_of_int (n - 1))
let zs s = z_of_string s
let b01 b = if b then "1" else "0"
let fz z = float_of_z z
let margin = ref infinity
let note_margin a b scale =
  let m = if scale = 0.0 then infinity else Float.abs (a -. b) /. Float.abs scale in
  if m < !margin then margin := m

let show_corrs (l : float corr list) =
  String.concat " " (string_of_int (Stdlib.List.length l) ::
                     Stdlib.List.map (fun c -> Printf.sprintf "%d:%d:%s" (iz c.c_src) (iz c.c_tgt) (pf c.c_sq)) l)

(* ---------- it ---------- *)
let run_it = function
  | np :: p :: maxit :: sd :: ks ->
    let s0 = iters_init n64 (zs np) (r32 (rf p)) (zs maxit) in
    let sd = zs sd in
    let buf = Buffer.create 64 and rb = Buffer.create 64 in
    Buffer.add_string buf (pf (fz s0.it_n));
    let _ = Stdlib.List.fold_left (fun s k ->
        let k = zs k in
        let r = iters_ratio n64 s k sd in
        let s' = iters_update n64 s k sd in
        Buffer.add_string buf (" " ^ pf (fz s'.it_n));
        Buffer.add_string rb (" " ^ pf r);
        s') s0 ks in
    print_endline (Buffer.contents buf ^ " |" ^ Buffer.contents rb)
  | _ -> print_endline "?"

(* ---------- est ---------- *)
let run_est = function
  | np :: sd :: mi :: _sigma :: script ->
    let script = Stdlib.List.map (fun t -> match String.split_on_char ':' t with
        | [d; c] -> (d = "1", zs c) | _ -> failwith "script") script in
    let p = ransac_probability f32 in
    (match estimate_scripted n64 (zs np) (zs sd) (zs mi) p ransac_maxit script with
     | None -> print_endline "none"
     | Some r ->
       let ev = r.er_events in
       let cnt x = Stdlib.List.length (Stdlib.List.filter (fun e -> match e, x with
           | EvCount _, EvCount _ -> true | EvRefine, EvRefine -> true | EvDraw, EvDraw -> true | _ -> false) ev) in
       let rec after = function [] -> 0 | EvRefine :: rest -> Stdlib.List.length rest | _ :: rest -> after rest in
       Printf.printf "%s %d %d %d %d 1\n" (b01 r.er_ok) (iz r.er_iters) (cnt (EvCount BinNums.Z0)) (cnt EvRefine) (after ev))
  | _ -> print_endline "?"

(* ---------- rig / cmp ---------- *)
let take n l =
  let rec go n acc l = if n = 0 then (Stdlib.List.rev acc, l) else match l with
      | x :: r -> go (n - 1) (x :: acc) r | [] -> failwith "short line" in
  go n [] l

let rec chunks k = function [] -> [] | l -> let (a, r) = take k l in a :: chunks k r

let run_rig composed toks =
  match toks with
  | kind :: sigma :: ncand :: npts :: ncorr :: nsample :: numpoints :: rest ->
    let hom = kind.[0] = 'h' and d = Char.code kind.[1] - 48 in
    let sz = if hom then d + 1 else d in
    let sigma = rf sigma and ncand = int_of_string ncand and npts = int_of_string npts
    and ncorr = int_of_string ncorr and nsample = int_of_string nsample in
    let (mt, rest) = take (ncand * (d + 1) * (d + 1)) rest in
    let ms = Stdlib.List.map (fun m -> chunks (d + 1) m) (chunks ((d + 1) * (d + 1)) (Stdlib.List.map rf mt)) in
    let (st, rest) = take (ncand * nsample) rest in
    let samples = if nsample = 0 then Stdlib.List.map (fun _ -> []) ms else chunks nsample (Stdlib.List.map int_of_string st) in
    let (sp, rest) = take (npts * sz) rest in
    let (tp, rest) = take (npts * sz) rest in
    let src = chunks sz (Stdlib.List.map rf sp) and tgt = chunks sz (Stdlib.List.map rf tp) in
    let (ct, _) = take (ncorr * 3) rest in
    let corrs = Stdlib.List.map (function [s; t; dd] -> { c_src = zs s; c_tgt = zs t; c_sq = rf dd } | _ -> failwith "corr")
        (chunks 3 ct) in
    let carr = Array.of_list corrs in
    let samples = Stdlib.List.map (fun s -> Stdlib.List.map (fun i -> carr.(i)) s) samples in
    let dn = nat_of_int d and dz = zi d in
    let mininl = rigid_min_inliers dz in
    let sorted = sort_by (tgt_dist_lt n64) corrs in
    margin := infinity;
    (* ties of the sort predicate: the order std::sort gives is unspecified *)
    let rec ties = function
      | a :: (b :: _ as r) -> if a.c_tgt = b.c_tgt && a.c_sq = b.c_sq then margin := 0.0; ties r
      | _ -> () in
    ties sorted;
    let thr = gate n64 sigma in
    let note_candidate m sample st =
      Stdlib.List.iter (fun c -> note_margin (residual n64 hom dn m src tgt c) thr thr) sorted;
      let inl = consensus n64 hom dn m src tgt sigma sorted in
      let len = Stdlib.List.length inl in
      if len >= iz mininl then begin
        let r = rmse_of n64 inl in
        note_margin r sigma sigma;
        if len = Stdlib.List.length st.rs_best then note_margin r st.rs_rmse sigma
      end;
      if sample <> [] then begin
        let mse = Stdlib.List.fold_left (fun a c -> a +. residual n64 hom dn m src tgt c) 0.0 sample
                  /. float_of_int (Stdlib.List.length sample) in
        (* check_ accumulates in binary32 in the C++: widen the band accordingly *)
        note_margin mse (sigma *. sigma) (sigma *. sigma *. 1e4)
      end in
    let buf = Buffer.create 4096 in
    Buffer.add_string buf ("S " ^ show_corrs sorted);
    if not composed then begin
      let st = Stdlib.List.fold_left2 (fun st m sample ->
          note_candidate m sample st;
          let ck = if sample = [] then false else check_sample n64 hom dn m src tgt sigma sample in
          let (st', ret) = rigid_count n64 hom dn mininl src tgt sigma sorted m st in
          let changed = not (st'.rs_best = st.rs_best && st'.rs_rmse = st.rs_rmse) in
          Buffer.add_string buf (Printf.sprintf " C %s %d %s %s %s" (b01 ck) (iz ret) (b01 changed) (pf st'.rs_rmse)
                                   (show_corrs (consensus n64 hom dn m src tgt sigma sorted)));
          st') (rigid_init n64) ms samples in
      Buffer.add_string buf (Printf.sprintf " B %s %s" (pf st.rs_rmse) (show_corrs st.rs_best))
    end else begin
      (* margins along the trajectory the model follows *)
      let script = Stdlib.List.combine ms samples in
      let p = ransac_probability f32 in
      (match estimate_rigid n64 hom dn src tgt sigma corrs (zs numpoints) p ransac_maxit script with
       | None -> Buffer.add_string buf " none"
       | Some r ->
         let o = r.er_state in
         (* replay for margins: candidates actually drawn *)
         let ndraw = iz r.er_iters in
         let st = ref (rigid_init n64) in
         Stdlib.List.iteri (fun i (m, sample) ->
             if i < ndraw then begin
               note_candidate m sample !st;
               if check_sample n64 hom dn m src tgt sigma sample then
                 st := fst (rigid_count n64 hom dn mininl src tgt sigma sorted m !st)
             end) script;
         Buffer.add_string buf (Printf.sprintf " R %s %d %d %s %s A %s" (b01 r.er_ok) ndraw
                                  (Stdlib.List.length (Stdlib.List.filter (fun e -> e = EvRefine) r.er_events))
                                  (pf o.ro_st.rs_rmse) (show_corrs o.ro_st.rs_best)
                                  (match o.ro_refit with None -> "0" | Some l -> show_corrs l)))
    end;
    Buffer.add_string buf (Printf.sprintf " m=%s" (pf !margin));
    print_endline (Buffer.contents buf)
  | _ -> print_endline "?"

(* ---------- icp / icpd ---------- *)
let rec drop_until_bar = function [] -> [] | "|" :: r -> r | _ :: r -> drop_until_bar r

let run_icp detail toks =
  match drop_until_bar toks with
  | nt :: rest ->
    let nt = int_of_string nt in
    if nt < 0 then print_endline "notrace" else begin
      margin := infinity;
      let eps = icp_epsilon n64 in
      let rest = ref rest in
      let next () = match !rest with x :: r -> rest := r; x | [] -> failwith "short trace" in
      let kept_out = Buffer.create 256 in
      let outcomes = Stdlib.List.init nt (fun _ ->
          let _it = next () in
          let ok = next () = "1" in
          let rmse = rf (next ()) in
          let _pairs = next () in
          let m = Stdlib.List.init 9 (fun _ -> rf (next ())) in
          if detail then begin
            let nc = int_of_string (next ()) in
            let cands = Stdlib.List.init nc (fun _ ->
                let s = zs (next ()) in let t = zs (next ()) in let d = rf (next ()) in
                { c_src = s; c_tgt = t; c_sq = d }) in
            let nk = int_of_string (next ()) in
            for _ = 1 to 2 * nk do ignore (next ()) done;
            let kept = one_to_one n64 cands in
            (* equal (source, distance) pairs are not ordered by the predicate *)
            let sorted = sort_by (src_dist_lt n64) cands in
            let rec ties = function
              | a :: (b :: _ as r) -> if a.c_src = b.c_src && a.c_sq = b.c_sq then margin := 0.0; ties r
              | _ -> () in
            ties sorted;
            Buffer.add_string kept_out (Printf.sprintf " K %d" (Stdlib.List.length kept));
            Stdlib.List.iter (fun c -> Buffer.add_string kept_out (Printf.sprintf " %d:%d" (iz c.c_src) (iz c.c_tgt))) kept
          end;
          { io_ok = ok; io_rmse = rmse; io_M = m }) in
      let ident = identity_entries n64 (nat_of_int 3) in
      (* margins of the break test along the replay *)
      let prev = ref ident in
      (try Stdlib.List.iter (fun o -> if o.io_ok then begin
            let d = mat_absdiff n64 o.io_M !prev in
            note_margin d eps eps;
            if d < eps then raise Exit;
            prev := o.io_M end) outcomes with Exit -> ());
      match icp_run n64 eps icp_maxit ident outcomes with
      | None -> print_endline ("incomplete" ^ Buffer.contents kept_out)
      | Some r ->
        let ri = match icp_returned_iteration r with None -> -1 | Some z -> iz z in
        let mret = if ri >= 0 && ri < nt then (Stdlib.List.nth outcomes ri).io_M else ident in
        Printf.printf "%s %d %d %s %s%s m=%s\n" (b01 r.ir_found) (iz r.ir_n) ri
          (match r.ir_state.is_best with None -> "-" | Some z -> string_of_int (iz z))
          (String.concat " " (Stdlib.List.map pf mret)) (Buffer.contents kept_out) (pf !margin)
    end
  | [] -> print_endline "notrace"

let () =
  iter_lines stdin (fun line ->
      match split_ws line with
      | "it" :: r -> run_it r
      | "est" :: r -> run_est r
      | "rig" :: r -> run_rig false r
      | "cmp" :: r -> run_rig true r
      | "icp" :: r -> run_icp false r
      | "icpd" :: r -> run_icp true r
      | "syn" :: _ -> print_endline "-"
      | _ -> print_endline "?")
