(* drv_C01.ml — runs the extracted GeodesyModel (binary64 dictionary) on a case file; one line per case.
   Case-line format: see harness/C01.cpp.  A model result None (fuel exhausted) prints HANG. *)
open Numf
open GeodesyModel

let rec nat_of_int n = if n <= 0 then Datatypes.O else Datatypes.S (nat_of_int (n - 1))
let fuel = nat_of_int 200
let n = f64
let join l = String.concat " " (Stdlib.List.map pf l)

let () =
  iter_lines stdin (fun line ->
    match split_ws line with
    | ["fwd"; a; b; lat; lon; h] ->
      let el = make_ellipsoid n (rf a) (rf b) in
      let p = toECEF n el { g_lat = rf lat; g_lon = rf lon; g_alt = rf h } in
      let back = match toWGS84 n fuel el p with
        | None -> "HANG HANG HANG"
        | Some g -> join [g.g_lat; g.g_lon; g.g_alt] in
      print_endline (join [p.vx; p.vy; p.vz] ^ " " ^ back)
    | ["inv"; a; b; x; y; z] ->
      let el = make_ellipsoid n (rf a) (rf b) in
      (match toWGS84 n fuel el { vx = rf x; vy = rf y; vz = rf z } with
       | None -> print_endline "HANG HANG HANG HANG HANG HANG"
       | Some g ->
         let q = toECEF n el g in
         print_endline (join [g.g_lat; g.g_lon; g.g_alt; q.vx; q.vy; q.vz]))
    | ["rad"; a; b; lat] ->
      let el = make_ellipsoid n (rf a) (rf b) in
      print_endline (join [meridionalRadius n el (rf lat); transversalRadius n el (rf lat); el.el_e2; el.el_e])
    | _ -> print_endline "?")
