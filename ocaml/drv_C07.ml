(* drv_C07.ml — runs the extracted LsModel (state machine of LeastSquares<T>) on a case file.
   case line:   ls <f32|f64> <ctor> <op> ...
     ctor : C0 | C1 k | C2 k n
     op   : E k | D n | R i m v1..vm y w | Q i m v1..vm y (row and y only, weight untouched) | P k a11..akk b1..bk | A k a11..akk | XC | XS | XW | V var
   output line: one token group per op that returns something:
     D -> "f0"/"f1" ; XC/XS/XW -> "x k v1..vk" ; V -> "m k v11..vkk" ; first undefined op -> "undef" and stop
   followed by " | res <max contract residual of the oracle realisations> <conv>"  (model side only).
   Oracles: LDLT solve := Gauss-Jordan inverse, JacobiSVD := one-sided Jacobi (both from LinAlgBModel,
   unverified, contract-checked here on every call).
   Environment C07_SVD_ABS=1 selects the original absolute-epsilon SVD path (for the refutation replay). *)
open Numf
open Datatypes
open LinAlgBModel
open LsModel

let rec nat_of_int n = if n <= 0 then O else S (nat_of_int (n - 1))
let rec int_of_nat = function O -> 0 | S m -> 1 + int_of_nat m

let svd_fixed = (try Sys.getenv "C07_SVD_ABS" <> "1" with Not_found -> true)

let dbg = (try Sys.getenv "C07_DEBUG" = "1" with Not_found -> false)

let () =
  iter_lines stdin (fun line ->
    match split_ws line with
    | "ls" :: ty :: rest ->
      let n = dict_of_string ty in
      let rd s = let x = rf s in if ty = "f32" then r32 x else x in
      let maxres = ref 0.0 and allconv = ref true in
      let upd r = if Float.is_nan r then maxres := infinity else if r > !maxres then maxres := r in
      let inverse_of k m =
        let inv = gj_inverse n k m in
        upd (inv_residual n k m inv);
        if dbg then prerr_endline (Printf.sprintf "inv k=%d res=%g" (int_of_nat k) (inv_residual n k m inv));
        inv in
      let svd_of k m =
        let (((u, s), v), conv) = jacobi_svd n (nat_of_int 60) k m in
        if not conv then allconv := false;
        upd (svd_residual n k m u s v);
        if dbg then prerr_endline (Printf.sprintf "svd k=%d res=%g conv=%b sigma=%s" (int_of_nat k) (svd_residual n k m u s v) conv
                                     (String.concat " " (Stdlib.List.map (Printf.sprintf "%g") s)));
        if not (sorted_desc_nonneg n s) then upd infinity;
        ((u, s), v) in
      let buf = Buffer.create 256 in
      let toks = ref rest in
      let next () = match !toks with t :: r -> toks := r; t | [] -> failwith "short case" in
      let nexti () = int_of_string (next ()) in
      let take k = Stdlib.List.init k (fun _ -> rd (next ())) in
      let st = ref (match next () with
          | "C0" -> ls_new0
          | "C1" -> let k = nexti () in ls_new1 n (nat_of_int k)
          | "C2" -> let k = nexti () in let d = nexti () in ls_new2 n (nat_of_int k) (nat_of_int d)
          | s -> failwith ("ctor " ^ s)) in
      let stop = ref false in
      let pv l = String.concat " " (Stdlib.List.map pf l) in
      while not !stop && !toks <> [] do
        let op = match next () with
          | "E" -> OpSetEstimateSize (nat_of_int (nexti ()))
          | "D" -> OpSetDataSize (nat_of_int (nexti ()))
          | "R" -> let i = nexti () in let m = nexti () in let row = take m in
            let y = rd (next ()) in let w = rd (next ()) in OpSetRow (nat_of_int i, row, y, w)
          | "Q" -> let i = nexti () in let m = nexti () in let row = take m in      (* J(i,:) and Y(i) only: W_ untouched *)
            let y = rd (next ()) in
            let w = (try Stdlib.List.nth (!st).ls_W i with _ -> 0.0) in OpSetRow (nat_of_int i, row, y, w)
          | "P" -> let k = nexti () in let a = Stdlib.List.init k (fun _ -> take k) in let b = take k in OpSetPrecond (a, b)
          | "A" -> let k = nexti () in let a = Stdlib.List.init k (fun _ -> take k) in OpSetPrecondA a
          | "XC" -> OpEstimateChol | "XS" -> OpEstimateSVD | "XW" -> OpWeightedEstimate
          | "V" -> OpCovariance (rd (next ()))
          | s -> failwith ("op " ^ s) in
        match ls_step n inverse_of svd_of nan svd_fixed !st op with
        | None -> Buffer.add_string buf " undef"; stop := true
        | Some (s', out) ->
          st := s';
          (match out with
           | OutNone -> ()
           | OutFlag b -> Buffer.add_string buf (if b then " f1" else " f0")
           | OutVec x -> Buffer.add_string buf (Printf.sprintf " x %d %s" (Stdlib.List.length x) (pv x))
           | OutMat m -> Buffer.add_string buf (Printf.sprintf " m %d %s" (Stdlib.List.length m)
                                                  (String.concat " " (Stdlib.List.map pv m))))
      done;
      print_endline (String.trim (Buffer.contents buf) ^ Printf.sprintf " | res %s %d" (pf !maxres) (if !allconv then 1 else 0))
    | _ -> print_endline "?")
