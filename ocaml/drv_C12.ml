(* drv_C12.ml — runs the extracted AnglesModel / PoseCovModel on a C12 case file; one output line per case.
   case lines (hex floats, binary64 only):
     smart <x y z> <t0 t1 t2>
        -> R (9) dRdAngleX (9) dRdAngleY (9) dRdAngleZ (9) dRTdAngles(t) (9), then R at
           (x+h,y,z) (x-h,y,z) (x,y+h,z) (x,y-h,z) (x,y,z+h) (x,y,z-h), h = 2^-17   (6 x 9)
     pose <L 9> <T 3> <position 3> <orientation 3> <covariance 36>
        -> position (3) orientation (3) covariance (36), then the mean (6) at component k +h_k and -h_k,
           k = 0..5, h = 1 for positions and 2^-17 for angles   (12 x 6)
     ls <m> <n> <J m*n> <diagonal of Ac n> <variance> <inverse of J^T J, n*n (oracle argument)>
     lsg <m> <n> <J m*n> <Ac n*n row-major> <variance> <inverse of J^T J, n*n>
        -> computeEstimateCovariance (n*n); "contract" if the oracle argument is not the inverse
   a non-finite result prints "none". *)
open Numf
open AnglesModel
open PoseCovModel

let rec nat_of_int n = if n <= 0 then Datatypes.O else Datatypes.S (nat_of_int (n - 1))
let rec int_of_nat = function Datatypes.O -> 0 | Datatypes.S k -> 1 + int_of_nat k

let mat_of_array n (a : float array) off : float mat =
  fun i j -> let i = int_of_nat i and j = int_of_nat j in
    if i < n && j < n then a.(off + i * n + j) else 0.0
let memo n (m : float mat) : float mat =
  let arr = Array.init (n * n) (fun k -> m (nat_of_int (k / n)) (nat_of_int (k mod n))) in
  mat_of_array n arr 0
let rect_of_array rows cols (a : float array) off : float mat =
  fun i j -> let i = int_of_nat i and j = int_of_nat j in
    if i < rows && j < cols then a.(off + i * cols + j) else 0.0

let h_angle = ldexp 1.0 (-17)
let h_pos = 1.0

let () =
  let n = f64 in
  let id = fun (x : float) -> x in
  iter_lines stdin (fun line ->
    match split_ws line with
    | k :: args ->
      let a = Array.of_list (Stdlib.List.map rf args) in
      let buf = ref [] and bad = ref false in
      let put x = if Float.is_nan x || Float.abs x = infinity then bad := true; buf := pf x :: !buf in
      let putm (m : float mat3) =
        Stdlib.List.iter put [m.m00; m.m01; m.m02; m.m10; m.m11; m.m12; m.m20; m.m21; m.m22] in
      let putv (v : float vec3) = put v.v0; put v.v1; put v.v2 in
      let putg sz (m : float mat) =
        for i = 0 to sz - 1 do for j = 0 to sz - 1 do put (m (nat_of_int i) (nat_of_int j)) done done in
      let m3 off = { m00 = a.(off); m01 = a.(off+1); m02 = a.(off+2); m10 = a.(off+3); m11 = a.(off+4);
                     m12 = a.(off+5); m20 = a.(off+6); m21 = a.(off+7); m22 = a.(off+8) } in
      let v3 off = { v0 = a.(off); v1 = a.(off+1); v2 = a.(off+2) } in
      (match k with
       | "smart" when Array.length a = 6 ->
         let s = smart_init n a.(0) a.(1) a.(2) in
         putm s.sR; putm s.sdX; putm s.sdY; putm s.sdZ;
         putm (smart_dRTdAngles n s (v3 3));
         for kk = 0 to 2 do
           Stdlib.List.iter (fun sg ->
               let e = [| a.(0); a.(1); a.(2) |] in
               e.(kk) <- e.(kk) +. sg *. h_angle;
               putm (smart_init n e.(0) e.(1) e.(2)).sR) [1.0; -1.0]
         done
       | "pose" when Array.length a = 54 ->
         let l = m3 0 and t = v3 9 in
         let mean (v : float array) =
           let (p, o) = pose_transform_mean n n id id l t
               { v0 = v.(0); v1 = v.(1); v2 = v.(2) } { v0 = v.(3); v1 = v.(4); v2 = v.(5) } in
           putv p; (match o with None -> bad := true | Some o -> putv o) in
         let v = Array.sub a 12 6 in
         mean v;
         let j = memo 6 (pose_J n l (v3 15)) in
         let c = mat_of_array 6 a 18 in
         putg 6 (pose_cov n j c);
         for kk = 0 to 5 do
           Stdlib.List.iter (fun sg ->
               let w = Array.copy v in
               w.(kk) <- w.(kk) +. sg *. (if kk < 3 then h_pos else h_angle);
               mean w) [1.0; -1.0]
         done
       | "ls" when Array.length a >= 2 ->
         let m = int_of_float a.(0) and nn = int_of_float a.(1) in
         if Array.length a <> 2 + m * nn + nn + 1 + nn * nn then buf := ["?"] else begin
           let j = rect_of_array m nn a 2 in
           let d = Array.sub a (2 + m * nn) nn in
           let ac : float mat = fun i k -> let i = int_of_nat i and k = int_of_nat k in if i = k && i < nn then d.(i) else 0.0 in
           let var = a.(2 + m * nn + nn) in
           let inv = mat_of_array nn a (2 + m * nn + nn + 1) in
           let jtj = memo nn (ls_JtJ n (nat_of_int m) (nat_of_int nn) j) in
           let res = ls_inv_residual n (nat_of_int nn) jtj inv in
           if not (res <= 1e-9) then buf := ["contract"]
           else putg nn (ls_covariance n (nat_of_int nn) ac inv var)
         end
       | "lsg" when Array.length a >= 2 ->
         let m = int_of_float a.(0) and nn = int_of_float a.(1) in
         if Array.length a <> 2 + m * nn + nn * nn + 1 + nn * nn then buf := ["?"] else begin
           let j = rect_of_array m nn a 2 in
           let ac = mat_of_array nn a (2 + m * nn) in
           let var = a.(2 + m * nn + nn * nn) in
           let inv = mat_of_array nn a (2 + m * nn + nn * nn + 1) in
           let jtj = memo nn (ls_JtJ n (nat_of_int m) (nat_of_int nn) j) in
           let res = ls_inv_residual n (nat_of_int nn) jtj inv in
           if not (res <= 1e-9) then buf := ["contract"]
           else putg nn (ls_covariance n (nat_of_int nn) ac inv var)
         end
       | _ -> buf := ["?"]);
      print_endline (if !bad then "none" else String.concat " " (Stdlib.List.rev !buf))
    | _ -> print_endline "?")
