(* drv_C11.ml — runs the extracted PoseCovModel on a C11 case file; one output line per case (binary64).
     red <pose position 3> <orientation 3> <pose covariance 36> <linear 3> <angular 3> <twist covariance 36>
        -> toPose2D: x y yaw cov(9) ; toPosition3D: position(3) cov(9) ; toTwist2D: vx vy w cov(9) ;
           toPoseAndTwist2D: pose(12) twist(12) ; toSe3Covariance(toSe2Covariance(C)) (36) ; toSe2Covariance of that (9)
     act <L 9> <T 3> <L' 9> <T' 3> <position 3> <orientation 3>
        -> mean (6) of A*p ; of B*(A*p) ; of (B*A)*p           (A = (L,T), B = (L',T'))
     ell <c00 c01 c10 c11> <sigma> <cx cy>
        -> centre(2) orientation major minor (from a Position2D) ; the same from a Pose2D carrying that block
   a non-finite result prints "none"; a failed SVD-oracle contract prints "contract". *)
open Numf
open AnglesModel
open PoseCovModel

let rec nat_of_int n = if n <= 0 then Datatypes.O else Datatypes.S (nat_of_int (n - 1))
let rec int_of_nat = function Datatypes.O -> 0 | Datatypes.S k -> 1 + int_of_nat k
let mat_of_array n (a : float array) off : float mat =
  fun i j -> let i = int_of_nat i and j = int_of_nat j in
    if i < n && j < n then a.(off + i * n + j) else 0.0

let () =
  let n = f64 in
  let id = fun (x : float) -> x in
  iter_lines stdin (fun line ->
    match split_ws line with
    | k :: args ->
      let a = Array.of_list (Stdlib.List.map rf args) in
      let buf = ref [] and bad = ref false and contract = ref false in
      let put x = if Float.is_nan x || Float.abs x = infinity then bad := true; buf := pf x :: !buf in
      let putv (v : float vec3) = put v.v0; put v.v1; put v.v2 in
      let putg sz (m : float mat) =
        for i = 0 to sz - 1 do for j = 0 to sz - 1 do put (m (nat_of_int i) (nat_of_int j)) done done in
      let m3 off = { m00 = a.(off); m01 = a.(off+1); m02 = a.(off+2); m10 = a.(off+3); m11 = a.(off+4);
                     m12 = a.(off+5); m20 = a.(off+6); m21 = a.(off+7); m22 = a.(off+8) } in
      let v3 off = { v0 = a.(off); v1 = a.(off+1); v2 = a.(off+2) } in
      let put_pose2 (p : float pose2) = put p.p2_x; put p.p2_y; put p.p2_yaw; putg 3 p.p2_cov in
      let put_twist2 (t : float twist2) = put t.t2_vx; put t.t2_vy; put t.t2_w; putg 3 t.t2_cov in
      (match k with
       | "red" when Array.length a = 84 ->
         let p = { p3_pos = v3 0; p3_ori = v3 3; p3_cov = mat_of_array 6 a 6 } in
         let t = { t3_lin = v3 42; t3_ang = v3 45; t3_cov = mat_of_array 6 a 48 } in
         put_pose2 (toPose2D p);
         let q = toPosition3D p in putv q.q3_pos; putg 3 q.q3_cov;
         put_twist2 (toTwist2D t);
         let (p2, t2) = toPoseAndTwist2D (p, t) in put_pose2 p2; put_twist2 t2;
         let c3 = toSe3Covariance n (toSe2Covariance p.p3_cov) in
         putg 6 c3; putg 3 (toSe2Covariance c3)
       | "act" when Array.length a = 30 ->
         let la = m3 0 and ta = v3 9 and lb = m3 12 and tb = v3 21 in
         let mean l t pos ori =
           let (p, o) = pose_transform_mean n n id id l t pos ori in
           putv p; (match o with None -> bad := true; (p, ori) | Some o -> putv o; (p, o)) in
         let (p1, o1) = mean la ta (v3 24) (v3 27) in
         ignore (mean lb tb p1 o1);
         (* Eigen: (B*A).linear = L'*L, (B*A).translation = L'*T + T' *)
         ignore (mean (mmul3 n lb la) (vadd3 n (mvmul3 n lb ta) tb) (v3 24) (v3 27))
       | "ell" when Array.length a = 7 ->
         let c = { a00 = a.(0); a01 = a.(1); a10 = a.(2); a11 = a.(3) } in
         let svd = sym_eig2 n in
         let (res, ok) = svd2_residual n c (svd c) in
         let scale = Float.abs a.(0) +. Float.abs a.(3) +. 1e-300 in
         if not (ok && res <= 1e-9 *. (1.0 +. scale)) then contract := true;
         let e = ellipse_of_cov n svd c a.(4) in
         for _ = 1 to 2 do
           put a.(5); put a.(6); put e.e_orientation; put e.e_major; put e.e_minor
         done
       | _ -> buf := ["?"]);
      print_endline (if !contract then "contract" else if !bad then "none" else String.concat " " (Stdlib.List.rev !buf))
    | _ -> print_endline "?")
