(* drv_C13.ml — extracted GridMapModel on a case file.
   map <f32|f64> <dim> <r> <lo_1..lo_dim> <hi_1..hi_dim> {P <p_1..p_dim>}* {C <a>/<b>}*
   sym <f32|f64> <dim> <range> <r> {P ...}* {C ...}*
   output:  N n_1..n_dim  {P i_1..i_dim c_1..c_dim}*  {C {k centre idx(centre) spacing}_per_axis}* *)
open Numf
open GridMapModel

let () =
  iter_lines stdin (fun line ->
    match split_ws line with
    | kind :: ty :: dim :: rest ->
      let n = dict_of_string ty in
      let rd s = let x = rf s in if ty = "f32" then r32 x else x in
      let dim = int_of_string dim in
      let take k l = (Stdlib.List.filteri (fun i _ -> i < k) l, Stdlib.List.filteri (fun i _ -> i >= k) l) in
      let r, los, his, rest =
        if kind = "map" then
          let r = rd (Stdlib.List.hd rest) in
          let los, rest = take dim (Stdlib.List.tl rest) in
          let his, rest = take dim rest in
          (r, Stdlib.List.map rd los, Stdlib.List.map rd his, rest)
        else
          let range = rd (Stdlib.List.hd rest) in
          let r = rd (Stdlib.List.nth rest 1) in
          let _, rest = take 2 rest in
          (r, Stdlib.List.init dim (fun _ -> gm_sym_lo n range), Stdlib.List.init dim (fun _ -> range), rest) in
      let axes = Stdlib.List.map2 (fun lo hi -> gm_axis n r lo hi) los his in
      let buf = Buffer.create 256 in
      Buffer.add_string buf "N";
      Stdlib.List.iter (fun a -> Buffer.add_string buf (" " ^ string_of_int (int_of_z a.ax_n))) axes;
      let rec go = function
        | [] -> ()
        | "P" :: rest ->
          let ps, rest = take dim rest in
          let idxs = Stdlib.List.map2 (fun a p -> gm_index n a.ax_r a.ax_org (rd p)) axes ps in
          Buffer.add_string buf " P";
          Stdlib.List.iter (fun i -> Buffer.add_string buf (" " ^ string_of_int (int_of_z i))) idxs;
          let oob = Stdlib.List.exists2 (fun a i -> int_of_z i < 0 || int_of_z i >= int_of_z a.ax_n) axes idxs in
          if oob then Buffer.add_string buf " OOB"
          else Stdlib.List.iter2 (fun a i -> Buffer.add_string buf (" " ^ pf (gm_centre n a.ax_r a.ax_org i))) axes idxs;
          go rest
        | "C" :: f :: rest ->
          let (a, b) = match String.split_on_char '/' f with [a; b] -> (int_of_string a, int_of_string b) | _ -> failwith "frac" in
          Buffer.add_string buf " C";
          Stdlib.List.iter (fun ax ->
              let nn = int_of_z ax.ax_n in
              let k = if nn <= 0 then 0 else a * (nn - 1) / b in
              let c = gm_centre n ax.ax_r ax.ax_org (z_of_int k) in
              let back = gm_index n ax.ax_r ax.ax_org c in
              let sp = if k + 1 < nn then pf (n.Num.nsub (gm_centre n ax.ax_r ax.ax_org (z_of_int (k + 1))) c) else "nan" in
              Buffer.add_string buf (Printf.sprintf " %d %s %d %s" k (pf c) (int_of_z back) sp)) axes;
          go rest
        | _ -> Buffer.add_string buf " ?" in
      go rest;
      print_endline (Buffer.contents buf)
    | _ -> print_endline "?")
