(* drv_C20.ml — runs the extracted BoxModel on a case file; one output line per case.
   case lines (all reals as hex floats, ty = f32|f64, n = dimension):
     aabbi ty n lo*n hi*n k p*(n*k)            -> c*n h*n lo*n hi*n  b*k
     aabbc ty n c*n h*n k p*(n*k)              -> lo*n hi*n  b*k
     obb   ty n c*n h*n R*(n*n, row major) k p*(n*k)  -> ac*n ah*n  (bo ba)*k
     ival  ty n lo1*n hi1*n lo2*n hi2*n k v*(n*k)     -> lo*n hi*n  (b1 bu)*k
     cext  ty cont n N p*(n*N)                 -> min*n max*n mean*n      (Eigen::Array element types)
     cmean ty cont n N p*(n*N)                 -> mean*n                  (Eigen::Matrix element types)
     pre   ty c|h cdim N p*(cdim*N)            -> min*size max*size mean*size scale tr*cdim *)
open Numf
open BoxModel

let rec nat_of_int n = if n <= 0 then Datatypes.O else Datatypes.S (nat_of_int (n - 1))

let rec take k l = if k = 0 then ([], l) else match l with
  | [] -> failwith "short case line"
  | x :: r -> let (a, b) = take (k - 1) r in (x :: a, b)

let rec chunks n k l = if k = 0 then [] else let (a, b) = take n l in a :: chunks n (k - 1) b

let bs b = if b then "1" else "0"
let pv v = String.concat " " (Stdlib.List.map pf v)

let () =
  iter_lines stdin (fun line ->
    match split_ws line with
    | kind :: ty :: rest when Stdlib.List.mem kind ["aabbi"; "aabbc"; "obb"; "ival"; "cext"; "cmean"; "pre"] ->
      let nd = dict_of_string ty in
      let rd s = let x = rf s in if ty = "f32" then r32 x else x in
      (match kind, rest with
       | "aabbi", n :: r ->
         let n = int_of_string n in
         let (lo, r1) = take n r in
         let (hi, r2) = take n r1 in
         let k = int_of_string (Stdlib.List.hd r2) in
         let ps = chunks n k (Stdlib.List.tl r2) in
         let lo = Stdlib.List.map rd lo and hi = Stdlib.List.map rd hi in
         let b = aabb_of_interval nd { i_lower = lo; i_upper = hi } in
         let i = aabb_to_interval nd b in
         let bits = Stdlib.List.map (fun p -> bs (aabb_inside nd b (Stdlib.List.map rd p))) ps in
         print_endline (String.concat " " ([pv b.a_center; pv b.a_half; pv i.i_lower; pv i.i_upper] @ bits))
       | "aabbc", n :: r ->
         let n = int_of_string n in
         let (c, r1) = take n r in
         let (h, r2) = take n r1 in
         let k = int_of_string (Stdlib.List.hd r2) in
         let ps = chunks n k (Stdlib.List.tl r2) in
         let b = { a_center = Stdlib.List.map rd c; a_half = Stdlib.List.map rd h } in
         let i = aabb_to_interval nd b in
         let bits = Stdlib.List.map (fun p -> bs (aabb_inside nd b (Stdlib.List.map rd p))) ps in
         print_endline (String.concat " " ([pv i.i_lower; pv i.i_upper] @ bits))
       | "obb", n :: r ->
         let n = int_of_string n in
         let (c, r1) = take n r in
         let (h, r2) = take n r1 in
         let (m, r3) = take (n * n) r2 in
         let k = int_of_string (Stdlib.List.hd r3) in
         let ps = chunks n k (Stdlib.List.tl r3) in
         let o = { o_center = Stdlib.List.map rd c; o_half = Stdlib.List.map rd h;
                   o_rot = Stdlib.List.map (Stdlib.List.map rd) (chunks n n m) } in
         let a = obb_to_aabb nd o in
         let bits = Stdlib.List.map (fun p -> let p = Stdlib.List.map rd p in
                                      bs (obb_inside nd o p) ^ " " ^ bs (aabb_inside nd a p)) ps in
         print_endline (String.concat " " ([pv a.a_center; pv a.a_half] @ bits))
       | "ival", n :: r ->
         let n = int_of_string n in
         let (lo1, r1) = take n r in
         let (hi1, r2) = take n r1 in
         let (lo2, r3) = take n r2 in
         let (hi2, r4) = take n r3 in
         let k = int_of_string (Stdlib.List.hd r4) in
         let vs = chunks n k (Stdlib.List.tl r4) in
         let f = Stdlib.List.map rd in
         let i1 = { i_lower = f lo1; i_upper = f hi1 } and i2 = { i_lower = f lo2; i_upper = f hi2 } in
         let u = interval_include nd i1 i2 in
         let bits = Stdlib.List.map (fun v -> let v = f v in
                                      bs (interval_inside nd i1 v) ^ " " ^ bs (interval_inside nd u v)) vs in
         print_endline (String.concat " " ([pv u.i_lower; pv u.i_upper] @ bits))
       | ("cext" | "cmean"), _ :: n :: cnt :: r ->
         let n = int_of_string n and cnt = int_of_string cnt in
         let pts = Stdlib.List.map (Stdlib.List.map rd) (chunks n cnt r) in
         let dn = nat_of_int n in
         if kind = "cext" then
           print_endline (String.concat " " [pv (cont_min nd dn pts); pv (cont_max nd dn pts); pv (cont_mean nd dn pts)])
         else print_endline (pv (cont_mean nd dn pts))
       | "pre", pt :: cdim :: cnt :: r ->
         let cdim = int_of_string cdim and cnt = int_of_string cnt in
         let pts = Stdlib.List.map (Stdlib.List.map rd) (chunks cdim cnt r) in
         let pts = if pt = "h" then Stdlib.List.map (fun p -> p @ [1.0]) pts else pts in
         let size = if pt = "h" then cdim + 1 else cdim in
         let pc = precond_compute nd (nat_of_int size) (nat_of_int cdim) pts in
         print_endline (String.concat " " [pv pc.pc_min; pv pc.pc_max; pv pc.pc_mean; pf pc.pc_scale; pv pc.pc_translation])
       | _ -> print_endline "?")
    | _ -> print_endline "?")
