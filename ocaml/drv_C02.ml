(* drv_C02.ml — runs the extracted EnuModel (binary64 dictionary) on operation sequences.
   Case-line and output format: see harness/C02.cpp. *)
open Numf
open GeodesyModel
open EnuModel

let rec nat_of_int n = if n <= 0 then Datatypes.O else Datatypes.S (nat_of_int (n - 1))
let fuel = nat_of_int 200
let n = f64
let join l = String.concat " " (Stdlib.List.map pf l)

let fields tok = match String.split_on_char ':' tok with
  | k :: r -> (k, Stdlib.List.map rf r)
  | [] -> ("", [])

let geo = function [a; b; c] -> { g_lat = a; g_lon = b; g_alt = c } | _ -> failwith "geo"
let v3 = function [a; b; c] -> { vx = a; vy = b; vz = c } | _ -> failwith "vec"

let op_of tok = match fields tok with
  | ("SA", f) -> OpSetAnchor (geo f)
  | ("R", _) -> OpReset
  | ("EG", f) -> OpToEnuGeo (geo f)
  | ("EW", [a; b]) -> OpToEnuWgs (a, b)
  | ("EE", f) -> OpToEnuEcef (v3 f)
  | ("TE", f) -> OpToEcef (v3 f)
  | ("TW", f) -> OpToWgs (v3 f)
  | ("IA", _) -> OpIsAnchored
  | ("GT", _) -> OpGetTransform
  | ("GA", _) -> OpGetAnchor
  | _ -> failwith ("op " ^ tok)

let show = function
  | OutNone -> "-"
  | OutVec v -> "v " ^ join [v.vx; v.vy; v.vz]
  | OutGeo g -> "g " ^ join [g.g_lat; g.g_lon; g.g_alt]
  | OutBool b -> if b then "b 1" else "b 0"
  | OutTransform (m, t) ->
    "m " ^ join [m.m00; m.m01; m.m02; m.m10; m.m11; m.m12; m.m20; m.m21; m.m22; t.vx; t.vy; t.vz]
  | OutAssert -> "assert"
  | OutHang -> "HANG"

let () =
  iter_lines stdin (fun line ->
    match split_ws line with
    | "seq" :: ctor :: ops ->
      let s0 = match fields ctor with
        | ("C", _) -> enu_init n
        | ("CA", f) -> set_anchor n (enu_init n) (geo f)
        | _ -> failwith "ctor" in
      (* RT / RW are compositions of two model operations: the output of the first is the input of the second *)
      let st = ref s0 in
      let one o = let (s1, x) = step n fuel !st o in st := s1; x in
      let outs = Stdlib.List.map (fun tok -> match fields tok with
          | ("RT", f) -> (match one (OpToEcef (v3 f)) with OutVec p -> one (OpToEnuEcef p) | x -> x)
          | ("RW", f) -> (match one (OpToWgs (v3 f)) with OutGeo g -> one (OpToEnuGeo g) | x -> x)
          | _ -> one (op_of tok)) ops in
      print_endline (String.concat " " (Stdlib.List.map show outs))
    | _ -> print_endline "?")
