(* drv_C04.ml — runs the extracted KabschModel on a case file; one output line per case.
   case line:  kab <f32|f64> <d:2|3> <hom:0|1> <mode:a|c> <pre:-|scale> NS <NS*d coords> NT <NT*d coords> [NC (si ti)*NC]
   output   :  the (d+1)^2 entries of H, row-major  |  "undef" (size mismatch / index out of range)
               then " | sig <sigma_1..sigma_d> res <svd contract residual> <converged>"   (model side only)
   JacobiSVD := one-sided Jacobi from LinAlgBModel (unverified, contract-checked here on every call).
   Environment C04_NO_DET_FIX=1 selects the original code (determinant correction commented out). *)
open Numf
open Datatypes
open LinAlgBModel
open KabschModel

let rec nat_of_int n = if n <= 0 then O else S (nat_of_int (n - 1))
let fixed = (try Sys.getenv "C04_NO_DET_FIX" <> "1" with Not_found -> true)

let () =
  iter_lines stdin (fun line ->
    match split_ws line with
    | "kab" :: ty :: ds :: homs :: mode :: pre :: rest ->
      let n = dict_of_string ty in
      let rd s = let x = rf s in if ty = "f32" then r32 x else x in
      let d = int_of_string ds in
      let hom = homs = "1" in
      let ps = if hom then d + 1 else d in
      let toks = ref rest in
      let next () = match !toks with t :: r -> toks := r; t | [] -> failwith "short case" in
      let read_pts () =
        let cnt = int_of_string (next ()) in
        Stdlib.List.init cnt (fun _ ->
            let c = Stdlib.List.init d (fun _ -> rd (next ())) in
            if hom then c @ [1.0] else c) in
      let src = read_pts () in
      let tgt = read_pts () in
      let sig_ = ref [] and res = ref 0.0 and conv = ref true in
      let svd_of k m =
        let (((u, s), v), c) = jacobi_svd n (nat_of_int 60) k m in
        sig_ := s; conv := c;
        res := svd_residual n k m u s v;
        if not (sorted_desc_nonneg n s) then res := infinity;
        ((u, s), v) in
      let dn = nat_of_int d and psn = nat_of_int ps in
      let h =
        if mode = "a" then
          (if pre = "-" then find_aligned n svd_of fixed dn psn src tgt
           else let s = rd pre in find_aligned_pre n svd_of fixed dn psn s s src tgt)
        else begin
          let nc = int_of_string (next ()) in
          let corr = Stdlib.List.init nc (fun _ ->
              let a = int_of_string (next ()) in let b = int_of_string (next ()) in (nat_of_int a, nat_of_int b)) in
          if pre = "-" then find_corr n svd_of fixed dn psn src tgt corr
          else let s = rd pre in find_corr_pre n svd_of fixed dn psn s s src tgt corr
        end in
      (match h with
       | None -> print_endline "undef"
       | Some h ->
         print_endline (String.concat " " (Stdlib.List.map (fun r -> String.concat " " (Stdlib.List.map pf r)) h)
                        ^ " | sig " ^ String.concat " " (Stdlib.List.map pf !sig_)
                        ^ Printf.sprintf " res %s %d" (pf !res) (if !conv then 1 else 0)))
    | _ -> print_endline "?")
