(* drv_C08.ml — runs the extracted KdTreeModel search on the tree dumped by harness/C08.cpp.
   case line:  kd <f32|f64> <dim> <hom> <n> <dumpfile> <n*dim coords> <nq> { <mode:n|k> <k> <dim coords> }*
   output   :  "T<0|1>" (extracted tree_ok_b on the dumped tree) then per query "Q <index> <sqdist> ..." *)
open Numf
open Datatypes
open KdTreeModel

let rec nat_of_int n = if n <= 0 then O else S (nat_of_int (n - 1))
let rec int_of_nat = function O -> 0 | S m -> 1 + int_of_nat m

let read_lines path =
  let ic = open_in path in
  let rec go acc = match input_line ic with l -> go (l :: acc) | exception End_of_file -> close_in ic; Stdlib.List.rev acc in
  go []

(* preorder tokens -> node *)
let rec parse_node rd toks = match toks with
  | "L" :: l :: r :: rest -> (Leaf (nat_of_int (int_of_string l), nat_of_int (int_of_string r)), rest)
  | "S" :: f :: lo :: hi :: rest ->
    let (c1, rest) = parse_node rd rest in
    let (c2, rest) = parse_node rd rest in
    (Split (nat_of_int (int_of_string f), rd lo, rd hi, c1, c2), rest)
  | _ -> failwith "tree dump"

let () =
  iter_lines stdin (fun line ->
    try
      let t = Array.of_list (split_ws line) in
      if Array.length t < 7 || t.(0) <> "kd" then print_endline "?" else begin
        let ty = t.(1) and dim = int_of_string t.(2) and hom = t.(3) = "1" and n = int_of_string t.(4) in
        let dict = dict_of_string ty in
        let rd s = let x = rf s in if ty = "f32" then r32 x else x in
        let at = ref 6 in
        let rdpoint () =
          let p = Stdlib.List.init dim (fun i -> rd t.(!at + i)) in
          at := !at + dim;
          if hom then p @ [1.0] else p in
        let pts = Stdlib.List.init n (fun _ -> rdpoint ()) in
        let size = if hom then dim + 1 else dim in
        let tree = match read_lines t.(5) with
          | [lv; lb; lt] ->
            let vind = Stdlib.List.map (fun s -> nat_of_int (int_of_string s)) (split_ws lv) in
            let bb = Array.of_list (Stdlib.List.map rd (split_ws lb)) in
            let bbox = Stdlib.List.init (Array.length bb / 2) (fun i -> (bb.(2 * i), bb.(2 * i + 1))) in
            let (root, rest) = parse_node rd (split_ws lt) in
            if rest <> [] then failwith "trailing tree tokens";
            { kd_root = root; kd_vind = vind; kd_bbox = bbox; kd_pts = pts }
          | _ -> failwith "dump file shape" in
        let ok = tree_ok_b dict (nat_of_int size) tree in
        let nq = int_of_string t.(!at) in
        incr at;
        let buf = Buffer.create 256 in
        Buffer.add_string buf (if ok then "T1" else "T0");
        for _ = 1 to nq do
          let mode = t.(!at) and k = int_of_string t.(!at + 1) in
          at := !at + 2;
          let q = rdpoint () in
          let res = if mode = "n" then (match nn dict tree q with Some x -> [x] | None -> [])
            else knn dict tree q (nat_of_int k) in
          Buffer.add_string buf " Q";
          Stdlib.List.iter (fun (d, i) -> Buffer.add_string buf (Printf.sprintf " %d %s" (int_of_nat i) (pf d))) res
        done;
        print_endline (Buffer.contents buf)
      end
    with e -> print_endline ("error " ^ Printexc.to_string e))
