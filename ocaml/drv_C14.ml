(* drv_C14.ml — extracted RayCastModel on a case file.
   ray <f32|f64> <dim> <r> <lo_1..lo_dim> <hi_1..hi_dim> {O p.. | E e.. | OE o.. e.. | K}*
   output: N n_1..n_dim, then for every cast  "[ <len> <gap> c c c ... ]"  with c = i,j[,k];
   <gap> = smallest relative gap between the chosen crossing parameter and another axis' parameter (model side only) *)
open Numf
open GridMapModel
open RayCastModel

let cell_str c = String.concat "," (Stdlib.List.map (fun z -> string_of_int (int_of_z z)) c)

let () =
  iter_lines stdin (fun line ->
    match split_ws line with
    | "ray" :: ty :: dim :: r :: rest ->
      let n = dict_of_string ty in
      let rd s = let x = rf s in if ty = "f32" then r32 x else x in
      let dim = int_of_string dim in
      let take k l = (Stdlib.List.filteri (fun i _ -> i < k) l, Stdlib.List.filteri (fun i _ -> i >= k) l) in
      let r = rd r in
      let los, rest = take dim rest in
      let his, rest = take dim rest in
      let axes = Stdlib.List.map2 (fun lo hi -> gm_axis n r (rd lo) (rd hi)) los his in
      let buf = Buffer.create 1024 in
      Buffer.add_string buf "N";
      Stdlib.List.iter (fun a -> Buffer.add_string buf (" " ^ string_of_int (int_of_z a.ax_n))) axes;
      Buffer.add_string buf " G";
      Stdlib.List.iter (fun a -> Buffer.add_string buf (" " ^ pf (gm_centre n a.ax_r a.ax_org (z_of_int 0)))) axes;
      let c = ref (rc_init n axes) in
      let emit_cast (c0 : float caster) =
        (* recompute the tie gap by replaying the model's own steps *)
        let steps = int_of_z (ncells c0) - 1 in
        let gap = ref infinity in
        let st = ref (c0.rc_oidx, c0.rc_tmax) in
        for _ = 1 to steps do
          let tm = eff_tmax n (fst !st) c0.rc_eidx (snd !st) in
          let i = let rec idx = function Datatypes.O -> 0 | Datatypes.S k -> 1 + idx k in idx (pick n tm) in
          let ti = Stdlib.List.nth tm i in
          Stdlib.List.iteri (fun j tj -> if j <> i then
                                 let g = Float.abs (tj -. ti) /. (Float.max (Float.abs ti) 1e-300) in
                                 if g < !gap then gap := g) tm;
          st := next n c0.rc_eidx c0.rc_step c0.rc_tdelta !st
        done;
        let cells = cast_cells n c0 in
        Buffer.add_string buf (Printf.sprintf " [ %d %s" (Stdlib.List.length cells) (pf !gap));
        Stdlib.List.iter (fun cl -> Buffer.add_char buf ' '; Buffer.add_string buf (cell_str cl)) cells;
        Buffer.add_string buf " ]" in
      let rec go = function
        | [] -> ()
        | "O" :: rest -> let p, rest = take dim rest in
          c := set_origin n !c (Stdlib.List.map rd p); go rest
        | ("SE" | "IT") :: rest -> let e, rest = take dim rest in
          let c' = set_end n !c (Stdlib.List.map rd e) in
          emit_cast c'; c := after_cast n c'; go rest
        | "E" :: rest -> let e, rest = take dim rest in
          let c' = set_end n !c (Stdlib.List.map rd e) in
          emit_cast c'; c := after_cast n c'; go rest
        | "OE" :: rest -> let p, rest = take dim rest in let e, rest = take dim rest in
          let c' = set_end n (set_origin n !c (Stdlib.List.map rd p)) (Stdlib.List.map rd e) in
          emit_cast c'; c := after_cast n c'; go rest
        | "K" :: rest -> emit_cast !c; c := after_cast n !c; go rest
        | _ -> Buffer.add_string buf " ?" in
      go rest;
      print_endline (Buffer.contents buf)
    | _ -> print_endline "?")
