(* drv_C19.ml — extracted serial specifications (ConcModel) on a case file.
   sv <init> <op>...   op = S:<int> | L          -> one token per op: "-" for store, value for load
   so <op>...          op = S:<int> | C          -> "-" for store, value or "none" for consume *)
open Numf
open ConcModel

let () =
  iter_lines stdin (fun line ->
    match split_ws line with
    | "sv" :: init :: ops ->
      let ops = Stdlib.List.map (fun o -> if o = "L" then SvLoad else SvStore (int_of_string (String.sub o 2 (String.length o - 2)))) ops in
      print_endline (String.concat " " (Stdlib.List.map (function None -> "-" | Some v -> string_of_int v) (sv_run (int_of_string init) ops)))
    | "so" :: ops ->
      let ops = Stdlib.List.map (fun o -> if o = "C" then SoConsume else SoStore (int_of_string (String.sub o 2 (String.length o - 2)))) ops in
      print_endline (String.concat " " (Stdlib.List.map (function None -> "-" | Some None -> "none" | Some (Some v) -> string_of_int v)
                                          (so_run None ops)))
    | _ -> print_endline "?")
