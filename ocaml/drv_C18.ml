(* drv_C18.ml — runs the extracted DiagModel on a case file; one output line per case.
   case lines:
     chk <f32|f64> <kind:eq|gt|lt|rel> <cmp> <eps> <op>...      op = E:<hexfloat> | T
     worse <s1> <s2>            worst <s>...        allok <s>...
     append <s>... | <k>=<v>... ; <s>... | <k>=<v>...        (statuses; info key/value integer tokens) *)
open Numf
open DiagModel

let st_name = function OK -> "OK" | WARN -> "WARN" | ERROR -> "ERROR" | STALE -> "STALE"
let st_of = function "OK" -> OK | "WARN" -> WARN | "ERROR" -> ERROR | "STALE" -> STALE | s -> failwith ("status " ^ s)
let suf_text = function
  | SNone -> "" | STooLow -> "_is_too_low." | STooHigh -> "_is_too_high." | SIsOK -> "_is_OK."
  | STimeout -> "_timeout." | SUncertain -> "_is_uncertain." | SIsHigh -> "_is_high."

let kind_of = function "eq" -> KEqual | "gt" -> KGreater | "lt" -> KLower | "rel" -> KReliability
  | s -> failwith ("kind " ^ s)

let diag_of s = { d_status = st_of s; d_suffix = SNone }

let split_on tok l =
  let rec go acc = function
    | [] -> (Stdlib.List.rev acc, [])
    | x :: r when x = tok -> (Stdlib.List.rev acc, r)
    | x :: r -> go (x :: acc) r in
  go [] l

let parse_report toks =
  let (ds, kvs) = split_on "|" toks in
  { rep_diags = Stdlib.List.map diag_of ds;
    rep_info = Stdlib.List.map (fun kv -> match String.split_on_char '=' kv with
        | [k; v] -> (z_of_string k, z_of_string v) | _ -> failwith "kv") kvs }

let () =
  iter_lines stdin (fun line ->
    match split_ws line with
    | "chk" :: ty :: k :: cmp :: eps :: ops ->
      let n = dict_of_string ty in
      let rd s = let x = rf s in if ty = "f32" then r32 x else x in
      let c = checkup_init (rd cmp) (rd eps) diagnostic_default in
      let ops = Stdlib.List.map (fun o -> if o = "T" then Timeout else
                                 Eval (rd (String.sub o 2 (String.length o - 2)))) ops in
      let res = crun n (kind_of k) c ops in
      let out = Stdlib.List.map (fun (s, r) ->
          let ret = match s with None -> "-" | Some s -> st_name s in
          let info = match r.r_info with None -> "" | Some v -> pg v in
          Printf.sprintf "%s|%s|x%s|%s" ret (st_name r.r_diag.d_status) (suf_text r.r_diag.d_suffix) info) res in
      print_endline (String.concat " " out)
    | ["worse"; a; b] -> print_endline (st_name (worse (st_of a) (st_of b)))
    | "worst" :: l ->
      print_endline (match worseStatus (Stdlib.List.map diag_of l) with None -> "assert" | Some s -> st_name s)
    | "allok" :: l ->
      print_endline (match allOK (Stdlib.List.map diag_of l) with None -> "assert" | Some b -> if b then "1" else "0")
    | "append" :: rest ->
      let (a, b) = split_on ";" rest in
      let r = report_append (parse_report a) (parse_report b) in
      print_endline (String.concat " " (Stdlib.List.map (fun d -> st_name d.d_status) r.rep_diags)
                     ^ " | " ^ String.concat " " (Stdlib.List.map (fun (k, v) ->
                         Printf.sprintf "%d=%d" (int_of_z k) (int_of_z v)) r.rep_info))
    | _ -> print_endline "?")
