// harness/C16.cpp — drives OnlineAverage / OnlineVariance / RingOfEigenVector (format: ocaml/drv_C16.ml)
#include <iostream>
#include <memory>
#include <string>
#include <vector>
#include <Eigen/Core>
#include "vh.hpp"
#include "romea_core_common/monitoring/OnlineAverage.hpp"
#include "romea_core_common/monitoring/OnlineVariance.hpp"
#include "romea_core_common/containers/Eigen/RingOfEigenVector.hpp"

using namespace romea::core;

struct AvgView : public OnlineAverage
{
  using OnlineAverage::OnlineAverage;
  long long sum() const {return sumOfData_;}
  size_t len() const {return data_.size();}
};
struct VarView : public OnlineVariance
{
  using OnlineVariance::OnlineVariance;
  long long sum() const {return sumOfData_;}
  size_t len() const {return data_.size();}
};

static std::string hexll(long long v)
{
  char b[64];
  if (v < 0) {std::snprintf(b, sizeof b, "-0x%llx", static_cast<unsigned long long>(-v));} else {
    std::snprintf(b, sizeof b, "0x%llx", static_cast<unsigned long long>(v));
  }
  return b;
}

int main()
{
  std::string line;
  while (std::getline(std::cin, line)) {
    if (line.empty() || line[0] == '#') {continue;}
    auto t = vh::split(line);
    if (t[0] == "avg2" || t[0] == "var2") {
      // the other public way to configure the window: one-argument constructor, then setWindowSize(W)
      t[0] = t[0].substr(0, 3);
      t.push_back("#setWindowSize");
    }
    bool viaSet = !t.empty() && t.back() == "#setWindowSize";
    if (viaSet) {t.pop_back();}
    if (t[0] == "avg" || t[0] == "var") {
      double prec = vh::rf(t[1]);
      size_t W = vh::ru(t[2]);
      AvgView a0(prec, W), a1(prec);
      VarView v0(prec, W), v1(prec);
      if (viaSet) {a1.setWindowSize(W); v1.setWindowSize(W);}
      AvgView * pa = viaSet ? &a1 : &a0;
      VarView * pv = viaSet ? &v1 : &v0;
      std::unique_ptr<AvgView> ca;
      std::unique_ptr<VarView> cv;
      std::string sep;
      for (size_t i = 3; i < t.size(); ++i) {
        if (t.size() % 4 == 1 && i == 3 + (t.size() - 3) / 2) {
          // the classes are copy-constructible (user-written copy constructors): half-way through, the history continues on
          // a COPY and the original is reset — the copy must carry the whole state and be independent of the original
          ca.reset(new AvgView(*pa)); cv.reset(new VarView(*pv));
          pa->reset(); pv->reset();
          pa = ca.get(); pv = cv.get();
        }
        AvgView & a = *pa;
        VarView & v = *pv;
        if (t[i] == "R") {
          a.reset(); v.reset();
        } else {
          double x = vh::rf(t[i].substr(2));
          if (t[0] == "avg") {a.update(x);} else {v.update(x);}
        }
        if (t[0] == "avg") {
          std::cout << sep << (a.isAvailable() ? 1 : 0) << " " << vh::pf(a.getAverage()) << " " << hexll(a.sum()) << " " << a.len();
        } else {
          std::cout << sep << (v.isAvailable() ? 1 : 0) << " " << vh::pf(v.getAverage()) << " " << vh::pf(v.getVariance()) << " "
                    << hexll(v.sum()) << " " << v.len();
        }
        sep = " ; ";
      }
      std::cout << "\n";
    } else if (t[0] == "ring") {
      RingOfEigenVector<Eigen::Vector2d> r(vh::ru(t[1]));
      std::string sep;
      for (size_t i = 2; i < t.size(); ++i) {
        if (t[i] == "C") {r.clear();} else {
          double x = static_cast<double>(vh::ri(t[i].substr(2)));
          r.append(Eigen::Vector2d(x, -x));
        }
        std::cout << sep << r.size() << ":";
        for (size_t k = 0; k < r.size(); ++k) {
          const Eigen::Vector2d & e = r[k];
          std::cout << (k ? "," : "") << static_cast<long long>(e[0]);
          if (e[1] != -e[0]) {std::cout << "!";}
        }
        sep = " ";
      }
      std::cout << "\n";
    } else {
      std::cout << "?\n";
    }
  }
  return 0;
}
