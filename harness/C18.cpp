// harness/C18.cpp — drives the real diagnostics classes of /repo on a case file (see ocaml/drv_C18.ml
// for the format); prints one line per case in the same canonical form as the model driver.
#include <iostream>
#include <sstream>
#include <string>
#include <vector>
#include <list>
#include <memory>
#include "vh.hpp"
#include "romea_core_common/diagnostic/CheckupEqualTo.hpp"
#include "romea_core_common/diagnostic/CheckupGreaterThan.hpp"
#include "romea_core_common/diagnostic/CheckupLowerThan.hpp"
#include "romea_core_common/diagnostic/CheckupReliability.hpp"

using namespace romea::core;

static DiagnosticStatus st_of(const std::string & s)
{
  if (s == "OK") {return DiagnosticStatus::OK;}
  if (s == "WARN") {return DiagnosticStatus::WARN;}
  if (s == "ERROR") {return DiagnosticStatus::ERROR;}
  return DiagnosticStatus::STALE;
}

static std::string us(std::string s)
{
  for (auto & c : s) {if (c == ' ') {c = '_';}}
  return s;
}

static std::string show(const std::string & ret, const DiagnosticReport & r)
{
  std::ostringstream os;
  os << ret << "|" << toString(r.diagnostics.front().status) << "|" << us(r.diagnostics.front().message)
     << "|" << r.info.begin()->second;
  if (r.diagnostics.size() != 1 || r.info.size() != 1 || r.info.begin()->first != "x") {os << "|SHAPE";}
  return os.str();
}

template<typename T>
static void run_chk(const std::string & kind, const std::vector<std::string> & t)
{
  T cmp = static_cast<T>(vh::rf(t[3])), eps = static_cast<T>(vh::rf(t[4]));
  std::unique_ptr<Checkup<T>> c;
  if (kind == "eq") {c.reset(new CheckupEqualTo<T>("x", cmp, eps));}
  if (kind == "gt") {c.reset(new CheckupGreaterThan<T>("x", cmp, eps));}
  if (kind == "lt") {c.reset(new CheckupLowerThan<T>("x", cmp, eps));}
  std::string sep;
  for (size_t i = 5; i < t.size(); ++i) {
    std::string ret = "-";
    if (t[i] == "T") {
      c->timeout();
    } else {
      ret = toString(c->evaluate(static_cast<T>(vh::rf(t[i].substr(2)))));
    }
    std::cout << sep << show(ret, c->getReport());
    sep = " ";
  }
  std::cout << "\n";
}

static void run_rel(const std::vector<std::string> & t)
{
  CheckupReliability c("x", vh::rf(t[3]), vh::rf(t[4]));
  std::string sep;
  for (size_t i = 5; i < t.size(); ++i) {
    std::string ret = "-";
    if (t[i] == "T") {
      std::cout << sep << "unsupported";
    } else {
      ret = toString(c.evaluate(vh::rf(t[i].substr(2))));
      std::cout << sep << show(ret, c.getReport());
    }
    sep = " ";
  }
  std::cout << "\n";
}

static DiagnosticReport parse_report(const std::vector<std::string> & t, size_t & i)
{
  DiagnosticReport r;
  for (; i < t.size() && t[i] != "|" && t[i] != ";"; ++i) {
    r.diagnostics.push_back(Diagnostic(st_of(t[i]), ""));
  }
  if (i < t.size() && t[i] == "|") {
    for (++i; i < t.size() && t[i] != ";"; ++i) {
      auto p = t[i].find('=');
      // keys are small non-negative integers; zero-pad so that std::map's string order is numeric order
      std::string k = t[i].substr(0, p);
      while (k.size() < 6) {k = "0" + k;}
      r.info[k] = t[i].substr(p + 1);
    }
  }
  return r;
}

int main()
{
  std::string line;
  while (std::getline(std::cin, line)) {
    if (line.empty() || line[0] == '#') {continue;}
    auto t = vh::split(line);
    if (t[0] == "chk") {
      if (t[2] == "rel") {
        run_rel(t);
      } else if (t[1] == "f32") {
        run_chk<float>(t[2], t);
      } else {
        run_chk<double>(t[2], t);
      }
    } else if (t[0] == "worse") {
      std::cout << toString(worse(st_of(t[1]), st_of(t[2]))) << "\n";
    } else if (t[0] == "worst" || t[0] == "allok") {
      std::list<Diagnostic> l;
      for (size_t i = 1; i < t.size(); ++i) {l.push_back(Diagnostic(st_of(t[i]), ""));}
      if (l.empty()) {
        std::cout << "assert\n";   // precondition (assert(!diagnostics.empty())); not executed
      } else if (t[0] == "worst") {
        std::cout << toString(worseStatus(l)) << "\n";
      } else {
        std::cout << (allOK(l) ? "1" : "0") << "\n";
      }
    } else if (t[0] == "append") {
      size_t i = 1;
      DiagnosticReport a = parse_report(t, i);
      ++i;
      DiagnosticReport b = parse_report(t, i);
      a += b;
      std::string sep;
      for (const auto & d : a.diagnostics) {std::cout << sep << toString(d.status); sep = " ";}
      std::cout << " |";
      for (const auto & kv : a.info) {std::cout << " " << std::stoll(kv.first) << "=" << kv.second;}
      std::cout << "\n";
    } else {
      std::cout << "?\n";
    }
  }
  return 0;
}
