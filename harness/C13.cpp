// harness/C13.cpp — drives GridIndexMapping<Scalar,DIM> (format: ocaml/drv_C13.ml)
#include <iostream>
#include <string>
#include <vector>
#include "vh.hpp"
#include "romea_core_common/containers/grid/GridIndexMapping.hpp"

using namespace romea::core;

template<typename S, size_t DIM>
static void run(const std::vector<std::string> & t)
{
  using M = GridIndexMapping<S, DIM>;
  using P = typename M::PointType;
  size_t i = 3;
  M * mp = nullptr;
  if (t[0] == "map") {
    S r = static_cast<S>(vh::rf(t[i++]));
    P lo, hi;
    for (size_t d = 0; d < DIM; ++d) {lo[d] = static_cast<S>(vh::rf(t[i++]));}
    for (size_t d = 0; d < DIM; ++d) {hi[d] = static_cast<S>(vh::rf(t[i++]));}
    mp = new M(typename M::IntervalType(lo, hi), r);
  } else {
    S range = static_cast<S>(vh::rf(t[i++]));
    S r = static_cast<S>(vh::rf(t[i++]));
    mp = new M(range, r);
  }
  const M & m = *mp;
  auto n = m.getNumberOfCellsAlongAxes();
  std::cout << "N";
  for (size_t d = 0; d < DIM; ++d) {std::cout << " " << static_cast<long long>(n[d]);}
  while (i < t.size()) {
    if (t[i] == "P") {
      ++i;
      P p;
      for (size_t d = 0; d < DIM; ++d) {p[d] = static_cast<S>(vh::rf(t[i++]));}
      // replicate the cast on the scalar quotient, but report through the library call
      auto idx = m.computeCellIndexes(p);
      std::cout << " P";
      bool oob = false;
      for (size_t d = 0; d < DIM; ++d) {
        std::cout << " " << static_cast<long long>(idx[d]);
        if (idx[d] >= n[d]) {oob = true;}
      }
      if (oob) {
        std::cout << " OOB";
      } else {
        P c = m.computeCellCenterPosition(idx);
        for (size_t d = 0; d < DIM; ++d) {std::cout << " " << vh::pf(static_cast<double>(c[d]));}
      }
    } else if (t[i] == "C") {
      ++i;
      auto pos = t[i].find('/');
      long long a = std::stoll(t[i].substr(0, pos)), b = std::stoll(t[i].substr(pos + 1));
      ++i;
      std::cout << " C";
      for (size_t d = 0; d < DIM; ++d) {
        long long nn = static_cast<long long>(n[d]);
        long long k = nn <= 0 ? 0 : a * (nn - 1) / b;
        const std::vector<S> & cs = m.getCellCentersPositionAlong(d);
        S c = cs[k];
        P q = P::Zero();
        for (size_t e = 0; e < DIM; ++e) {q[e] = m.getCellCentersPositionAlong(e)[0];}
        q[d] = c;
        auto back = m.computeCellIndexes(q);
        std::cout << " " << k << " " << vh::pf(static_cast<double>(c)) << " " << static_cast<long long>(back[d]) << " ";
        if (k + 1 < nn) {std::cout << vh::pf(static_cast<double>(static_cast<S>(cs[k + 1] - c)));} else {std::cout << "nan";}
      }
    } else {
      std::cout << " ?";
      break;
    }
  }
  std::cout << "\n";
  delete mp;
}

int main()
{
  std::string line;
  while (std::getline(std::cin, line)) {
    if (line.empty() || line[0] == '#') {continue;}
    auto t = vh::split(line);
    bool f = t[1] == "f32";
    bool d3 = t[2] == "3";
    if (f && d3) {run<float, 3>(t);} else if (f) {run<float, 2>(t);} else if (d3) {run<double, 3>(t);} else {run<double, 2>(t);}
  }
  return 0;
}
