// harness/C05.cpp — drives romea::core::FindRigidTransformationByLeastSquares<PointType> (eight point types, four find
// overloads, setPreconditioner) on a case file; format: see ocaml/drv_C05.ml.  One estimator object per case.
#include <iostream>
#include <string>
#include <vector>
#include "vh.hpp"
#include "romea_core_common/transform/estimation/FindRigidTransformationByLeastSquares.hpp"

using namespace romea::core;

template<class P>
static void run(const std::vector<std::string> & t)
{
  using S = typename P::Scalar;
  constexpr int D = PointTraits<P>::DIM;
  constexpr int PS = PointTraits<P>::SIZE;
  size_t p = 4;
  long ncalls = vh::ri(t.at(p++));
  FindRigidTransformationByLeastSquares<P> est;
  std::string out;
  for (long call = 0; call < ncalls; ++call) {
    const std::string mode = t.at(p++), pre = t.at(p++);
    auto read_pts = [&](VectorOfEigenVector<P> & v, S w) {
        long cnt = vh::ri(t.at(p++));
        for (long i = 0; i < cnt; ++i) {
          P q = P::Zero();
          for (int j = 0; j < D; ++j) {q(j) = static_cast<S>(vh::rf(t.at(p++)));}
          if (PS > D) {q(D) = w;}
          v.push_back(q);
        }
      };
    PointSet<P> src, tgt;
    NormalSet<P> nrm;
    read_pts(src, S(1));
    read_pts(tgt, S(1));
    read_pts(nrm, S(0));
    std::vector<Correspondence> corr;
    bool ok = true;
    if (mode == "c") {
      long nc = vh::ri(t.at(p++));
      for (long i = 0; i < nc; ++i) {
        size_t a = vh::ru(t.at(p++)), b = vh::ru(t.at(p++));
        if (a >= src.size() || b >= tgt.size() || b >= nrm.size()) {ok = false;}
        corr.emplace_back(a, b);
      }
    } else {
      ok = src.size() == tgt.size() && src.size() <= nrm.size();
    }
    if (!ok) {out += (out.empty() ? "" : " ; ") + std::string("undef"); break;}
    typename FindRigidTransformationByLeastSquares<P>::TransformationMatrixType H;
    typename FindRigidTransformationByLeastSquares<P>::TransformationMatrixType H2;
    if (pre == "-") {
      H = mode == "a" ? est.find(src, tgt, nrm) : est.find(src, tgt, nrm, corr);
      H2 = mode == "a" ? est.find(src, tgt, nrm) : est.find(src, tgt, nrm, corr);
    } else {
      S s = static_cast<S>(vh::rf(pre));
      PreconditionedPointSet<P> ps(src, s), pt(tgt, s);
      est.setPreconditioner(ps, pt);
      H = mode == "a" ? est.find(ps, pt, nrm) : est.find(ps, pt, nrm, corr);
      H2 = mode == "a" ? est.find(ps, pt, nrm) : est.find(ps, pt, nrm, corr);
    }
    // asking the same question twice must give the same answer (nothing a call leaves behind may change the next one);
    // the SECOND answer is the one reported when they differ, so that the oracle judges it
    if (!(H.array() == H2.array()).all() && !(H.array() != H.array()).any()) {H = H2;}
    std::string one;
    for (int i = 0; i <= D; ++i) {for (int j = 0; j <= D; ++j) {one += (one.empty() ? "" : " ") + vh::pf(H(i, j));}}
    out += (out.empty() ? "" : " ; ") + one;
  }
  std::cout << out << "\n";
}

int main()
{
  std::string line;
  while (std::getline(std::cin, line)) {
    if (line.empty() || line[0] == '#') {continue;}
    std::vector<std::string> t = vh::split(line);
    if (t.size() < 6 || t[0] != "p2p") {std::cout << "?\n"; continue;}
    const bool f32 = t[1] == "f32", d3 = t[2] == "3", hom = t[3] == "1";
    if (!hom && !d3 && f32) {run<Eigen::Vector2f>(t);}
    if (!hom && !d3 && !f32) {run<Eigen::Vector2d>(t);}
    if (!hom && d3 && f32) {run<Eigen::Vector3f>(t);}
    if (!hom && d3 && !f32) {run<Eigen::Vector3d>(t);}
    if (hom && !d3 && f32) {run<HomogeneousCoordinates2f>(t);}
    if (hom && !d3 && !f32) {run<HomogeneousCoordinates2d>(t);}
    if (hom && d3 && f32) {run<HomogeneousCoordinates3f>(t);}
    if (hom && d3 && !f32) {run<HomogeneousCoordinates3d>(t);}
  }
  return 0;
}
