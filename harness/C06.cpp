// harness/C06.cpp — drives the real RANSAC / ICP classes of the repo working tree on a case file.
// One result line per case line (formats documented in ocaml/drv_C06.ml and checks/C06.py).
//   it   : RansacIterations directly
//   est  : real Ransac::estimateModel over a scripted RansacModel subclass
//   rig  : RansacRigidTransformationModel through a derived class (candidate transformation set from the case,
//          protected inlier vectors read back), candidates applied in sequence to one object
//   cmp  : real Ransac::estimateModel over a derived rigid model whose draw() takes scripted candidates
//   icp  : FindRigidTransformationByICP on test/data/scan2d.txt displaced by (tx,ty,theta); per-iteration trace (hook H1)
//   syn  : synthetic correspondence set -> fresh RansacRigidTransformationModel + Ransac (SVD refit)
#include <algorithm>
#include <cmath>
#include <fstream>
#include <iostream>
#include <memory>
#include <sstream>
#include <stdexcept>
#include <string>
#include <vector>
#include "vh.hpp"
#include "romea_core_common/regression/ransac/Ransac.hpp"
#include "romea_core_common/regression/ransac/RansacIterations.hpp"
#include "romea_core_common/transform/estimation/RansacRigidTransformationModel.hpp"
#include "romea_core_common/transform/estimation/FindRigidTransformationByICP.hpp"

#ifndef C06_SCAN_PATH
#define C06_SCAN_PATH "/repo/test/data/scan2d.txt"
#endif

using namespace romea::core;
using vh::pf;
using vh::rf;
using vh::ru;

// ------------------------------------------------------------------------------------------------ it
static void run_it(const std::vector<std::string> & t)
{
  size_t npoints = ru(t[1]);
  float p = static_cast<float>(rf(t[2]));
  size_t maxit = ru(t[3]);
  size_t sdraw = ru(t[4]);
  RansacIterations it(npoints, p, maxit);
  std::cout << pf(it.get());
  for (size_t i = 5; i < t.size(); ++i) {
    it.update(ru(t[i]), sdraw);
    std::cout << " " << pf(it.get());
  }
  std::cout << "\n";
}

// ------------------------------------------------------------------------------------------------ est
struct ScriptedModel : public RansacModel
{
  size_t npoints = 0, sdraw = 0, mininl = 0;
  std::vector<std::pair<bool, size_t>> script;   // per draw: (draw result, value countInliers returns)
  size_t draws = 0, counts = 0, refines = 0, calls_after_refine = 0;
  bool sigma_ok = true;
  double sigma = 0;
  bool draw(const double & s) override
  {
    if (refines) {++calls_after_refine;}
    if (s != sigma) {sigma_ok = false;}
    size_t i = draws++;
    if (draws > 200000) {throw std::runtime_error("runaway");}   // a broken iteration bound must not hang the run
    return i < script.size() ? script[i].first : false;
  }
  size_t countInliers(const double & s) override
  {
    if (refines) {++calls_after_refine;}
    if (s != sigma) {sigma_ok = false;}
    ++counts;
    size_t i = draws - 1;
    return i < script.size() ? script[i].second : 0;
  }
  void refine() override {++refines;}
  size_t getNumberOfPoints() const override {return npoints;}
  size_t getNumberOfPointsToDrawModel() const override {return sdraw;}
  size_t getMinimalNumberOfInliers() const override {return mininl;}
  double getRootMeanSquareError() const override {return 0;}
};

static void run_est(const std::vector<std::string> & t)
{
  ScriptedModel m;
  m.npoints = ru(t[1]); m.sdraw = ru(t[2]); m.mininl = ru(t[3]); m.sigma = rf(t[4]);
  for (size_t i = 5; i < t.size(); ++i) {
    size_t c = t[i].find(':');
    m.script.emplace_back(t[i].substr(0, c) == "1", ru(t[i].substr(c + 1)));
  }
  Ransac r(&m, m.sigma);
  bool ok = false;
  try {
    ok = r.estimateModel();
  } catch (const std::runtime_error &) {
    std::cout << "runaway ";
  }
  std::cout << (ok ? 1 : 0) << " " << m.draws << " " << m.counts << " " << m.refines << " "
            << m.calls_after_refine << " " << (m.sigma_ok ? 1 : 0) << "\n";
}

// ------------------------------------------------------------------------------------------------ rig / cmp
template<class P>
struct RigidProbe : public RansacRigidTransformationModel<P>
{
  using Base = RansacRigidTransformationModel<P>;
  using M = typename Base::TransformationMatrixType;
  // scripted candidates for cmp
  std::vector<M> cands;
  std::vector<std::vector<size_t>> samples;
  size_t ndraw = 0, nrefine = 0;
  bool scripted = false;
  std::vector<int> chosen_log;   // draw index at which the stored best consensus changed
  std::vector<Correspondence> best_at_refine;
  void setM(const M & m) {this->transformation_ = m;}
  const std::vector<Correspondence> & inl() const {return this->inlierCorrespondences_;}
  const std::vector<Correspondence> & best() const {return this->bestInlierCorrespondences_;}
  const std::vector<Correspondence> & sorted() const {return this->sortedCorrespondences_;}
  bool chk(const std::vector<Correspondence> & s, double sigma)
  {
    return this->check_(*this->sourcePoints_, *this->targetPoints_, s, sigma);
  }
  std::vector<Correspondence> sample(size_t i) const
  {
    std::vector<Correspondence> s;
    for (size_t k : samples[i]) {s.push_back((*this->correspondences_)[k]);}
    return s;
  }
  bool draw(const double & sigma) override
  {
    if (!scripted) {return Base::draw(sigma);}
    size_t i = ndraw++;
    if (i >= cands.size()) {return false;}
    setM(cands[i]);
    return chk(sample(i), sigma);
  }
  void refine() override
  {
    ++nrefine;
    best_at_refine = best();
    Base::refine();
  }
};

static std::string show_corrs(const std::vector<Correspondence> & v)
{
  std::ostringstream os;
  os << v.size();
  for (const auto & c : v) {os << " " << c.sourcePointIndex << ":" << c.targetPointIndex << ":" << pf(c.squareDistanceBetweenPoints);}
  return os.str();
}

static bool same_corrs(const std::vector<Correspondence> & a, const std::vector<Correspondence> & b)
{
  if (a.size() != b.size()) {return false;}
  for (size_t i = 0; i < a.size(); ++i) {
    if (a[i].sourcePointIndex != b[i].sourcePointIndex || a[i].targetPointIndex != b[i].targetPointIndex ||
      a[i].squareDistanceBetweenPoints != b[i].squareDistanceBetweenPoints) {return false;}
  }
  return true;
}

// rig|cmp <kind> <sigma> <ncand> <npts> <ncorr> <nsample> <numberOfPoints>  M...  samples...  src...  tgt...  corr(s t d)...
template<class P>
static void run_rig(const std::vector<std::string> & t, bool composed)
{
  using Probe = RigidProbe<P>;
  using M = typename Probe::M;
  using S = typename P::Scalar;
  constexpr int D = PointTraits<P>::DIM, SZ = PointTraits<P>::SIZE;
  double sigma = rf(t[2]);
  size_t ncand = ru(t[3]), npts = ru(t[4]), ncorr = ru(t[5]), nsample = ru(t[6]), numpoints = ru(t[7]);
  size_t k = 8;
  Probe pr;
  for (size_t c = 0; c < ncand; ++c) {
    M m;
    for (int i = 0; i <= D; ++i) {for (int j = 0; j <= D; ++j) {m(i, j) = static_cast<S>(rf(t[k++]));}}
    pr.cands.push_back(m);
  }
  for (size_t c = 0; c < ncand; ++c) {
    std::vector<size_t> s;
    for (size_t i = 0; i < nsample; ++i) {s.push_back(ru(t[k++]));}
    pr.samples.push_back(s);
  }
  PointSet<P> src(npts), tgt(npts);
  for (size_t n = 0; n < npts; ++n) {for (int i = 0; i < SZ; ++i) {src[n][i] = static_cast<S>(rf(t[k++]));}}
  for (size_t n = 0; n < npts; ++n) {for (int i = 0; i < SZ; ++i) {tgt[n][i] = static_cast<S>(rf(t[k++]));}}
  std::vector<Correspondence> corrs;
  for (size_t n = 0; n < ncorr; ++n) {
    size_t s = ru(t[k]), g = ru(t[k + 1]);
    double d = rf(t[k + 2]);
    k += 3;
    corrs.emplace_back(s, g, d);
  }
  pr.loadPointSets(&src, &tgt);
  pr.loadCorrespondences(&corrs, numpoints);
  pr.loadTargetNormalSet(nullptr);
  std::cout << "S " << show_corrs(pr.sorted());
  if (!composed) {
    for (size_t c = 0; c < ncand; ++c) {
      pr.setM(pr.cands[c]);
      bool ck = pr.chk(pr.sample(c), sigma);
      std::vector<Correspondence> before = pr.best();
      double rb = pr.getRootMeanSquareError();
      size_t ret = pr.countInliers(sigma);
      bool changed = !same_corrs(before, pr.best()) || rb != pr.getRootMeanSquareError();
      std::cout << " C " << (ck ? 1 : 0) << " " << ret << " " << (changed ? 1 : 0) << " " << pf(pr.getRootMeanSquareError())
                << " " << show_corrs(pr.inl());
    }
    std::cout << " B " << pf(pr.getRootMeanSquareError()) << " " << show_corrs(pr.best()) << "\n";
  } else {
    pr.scripted = true;
    Ransac r(&pr, sigma);
    bool ok = r.estimateModel();
    std::cout << " R " << (ok ? 1 : 0) << " " << pr.ndraw << " " << pr.nrefine << " " << pf(pr.getRootMeanSquareError())
              << " " << show_corrs(pr.best()) << " A " << show_corrs(pr.best_at_refine) << "\n";
  }
}

// ------------------------------------------------------------------------------------------------ icp
static std::vector<std::pair<double, double>> & scan()
{
  static std::vector<std::pair<double, double>> pts;
  if (pts.empty()) {
    std::ifstream f(C06_SCAN_PATH);
    double x, y;
    while (f >> x >> y) {pts.emplace_back(x, y);}
  }
  return pts;
}

template<class P>
static void run_icp(const std::vector<std::string> & t, bool detail)
{
  using Icp = FindRigidTransformationByICP<P>;
  using M = typename Icp::TransformationMatrixType;
  using S = typename P::Scalar;
  double tx = rf(t[2]), ty = rf(t[3]), th = rf(t[4]), sigma = rf(t[5]);
  const auto & sc = scan();
  if (sc.empty()) {std::cout << "noscan\n"; return;}
  double c = std::cos(th), s = std::sin(th);
  PointSet<P> src(sc.size(), P::Zero()), tgt(sc.size(), P::Zero());
  for (size_t n = 0; n < sc.size(); ++n) {
    src[n][0] = static_cast<S>(sc[n].first); src[n][1] = static_cast<S>(sc[n].second);
    tgt[n][0] = static_cast<S>(c * sc[n].first - s * sc[n].second + tx);
    tgt[n][1] = static_cast<S>(s * sc[n].first + c * sc[n].second + ty);
    if (PointTraits<P>::SIZE == 3) {src[n][2] = 1; tgt[n][2] = 1;}
  }
  Icp icp(static_cast<S>(sigma));
#ifdef ROMEA_CORE_COMMON_VERIF_ICP_TRACE
  verif::icpTrace().clear();
  verif::icpTraceDetail() = detail;
#endif
  bool found = icp.find(src, tgt, M::Identity(), Icp::EstimationMethod::LEAST_SQUARES);
  M r = icp.getTransformation();
  std::cout << (found ? 1 : 0) << " " << sc.size();
  for (int i = 0; i < 3; ++i) {for (int j = 0; j < 3; ++j) {std::cout << " " << pf(r(i, j));}}
#ifdef ROMEA_CORE_COMMON_VERIF_ICP_TRACE
  const auto & tr = verif::icpTrace();
  std::cout << " T " << tr.size();
  for (const auto & e : tr) {
    std::cout << " " << e.iteration << " " << (e.success ? 1 : 0) << " " << pf(e.rmse) << " " << e.matchedPairs;
    for (double v : e.transformation) {std::cout << " " << pf(v);}
    if (detail) {
      std::cout << " " << e.candidateSources.size();
      for (size_t i = 0; i < e.candidateSources.size(); ++i) {
        std::cout << " " << e.candidateSources[i] << " " << e.candidateTargets[i] << " " << pf(e.candidateSquareDistances[i]);
      }
      std::cout << " " << e.keptSources.size();
      for (size_t i = 0; i < e.keptSources.size(); ++i) {std::cout << " " << e.keptSources[i] << " " << e.keptTargets[i];}
    }
  }
#else
  std::cout << " T -1";
#endif
  std::cout << "\n";
}

// ------------------------------------------------------------------------------------------------ syn
// syn <kind> <sigma> <n>  src(n*D) tgt(n*D)       (i <-> i correspondences, SVD refit as in the ICP SVD mode)
template<class P>
static void run_syn(const std::vector<std::string> & t)
{
  using S = typename P::Scalar;
  constexpr int D = PointTraits<P>::DIM, SZ = PointTraits<P>::SIZE;
  double sigma = rf(t[2]);
  size_t n = ru(t[3]);
  size_t k = 4;
  PointSet<P> src(n, P::Zero()), tgt(n, P::Zero());
  for (size_t i = 0; i < n; ++i) {
    for (int j = 0; j < D; ++j) {src[i][j] = static_cast<S>(rf(t[k++]));}
    if (SZ > D) {src[i][D] = 1;}
  }
  for (size_t i = 0; i < n; ++i) {
    for (int j = 0; j < D; ++j) {tgt[i][j] = static_cast<S>(rf(t[k++]));}
    if (SZ > D) {tgt[i][D] = 1;}
  }
  std::vector<Correspondence> corrs;
  for (size_t i = 0; i < n; ++i) {corrs.emplace_back(i, i, 0.0);}
  RigidProbe<P> model;
  model.loadPointSets(&src, &tgt);
  model.loadCorrespondences(&corrs, n);
  model.loadTargetNormalSet(nullptr);
  Ransac r(&model, sigma);
  bool ok = r.estimateModel();
  auto m = model.getTransformation();
  std::cout << (ok ? 1 : 0) << " " << pf(model.getRootMeanSquareError()) << " " << model.best().size();
  for (int i = 0; i <= D; ++i) {for (int j = 0; j <= D; ++j) {std::cout << " " << pf(m(i, j));}}
  std::cout << " I";
  for (const auto & c : model.best()) {std::cout << " " << c.sourcePointIndex;}
  std::cout << "\n";
}

int main()
{
  std::string line;
  while (std::getline(std::cin, line)) {
    if (line.empty() || line[0] == '#') {continue;}
    auto t = vh::split(line);
    const std::string & c = t[0];
    if (c == "it") {
      run_it(t);
    } else if (c == "est") {
      run_est(t);
    } else if (c == "rig" || c == "cmp") {
      bool comp = c == "cmp";
      if (t[1] == "c2") {run_rig<Eigen::Vector2d>(t, comp);} else if (t[1] == "c3") {
        run_rig<Eigen::Vector3d>(t, comp);
      } else if (t[1] == "h2") {run_rig<HomogeneousCoordinates2d>(t, comp);} else {
        run_rig<HomogeneousCoordinates3d>(t, comp);
      }
    } else if (c == "icp" || c == "icpd") {
      bool det = c == "icpd";
      if (t[1] == "c") {run_icp<Eigen::Vector2d>(t, det);} else {run_icp<HomogeneousCoordinates2d>(t, det);}
    } else if (c == "syn") {
      if (t[1] == "c2") {run_syn<Eigen::Vector2d>(t);} else if (t[1] == "c3") {
        run_syn<Eigen::Vector3d>(t);
      } else if (t[1] == "h2") {run_syn<HomogeneousCoordinates2d>(t);} else {
        run_syn<HomogeneousCoordinates3d>(t);
      }
    } else {
      std::cout << "?\n";
    }
  }
  return 0;
}
