// harness/C15.cpp — drives WrappableGrid<int,2> / WrappableGrid<int,3> (format: ocaml/drv_C15.ml)
#include <iostream>
#include <memory>
#include <string>
#include <vector>
#include "vh.hpp"
#include "romea_core_common/containers/grid/WrappableGrid.hpp"

using namespace romea::core;

static std::vector<long long> ints(const std::string & s)
{
  std::vector<long long> v;
  size_t p = 0;
  while (p <= s.size()) {
    size_t q = s.find(',', p);
    if (q == std::string::npos) {q = s.size();}
    v.push_back(std::stoll(s.substr(p, q - p)));
    p = q + 1;
  }
  return v;
}

template<size_t DIM>
static void run(const std::vector<std::string> & t)
{
  using G = WrappableGrid<int, DIM>;
  typename G::CellIndexes n;
  size_t nx = vh::ru(t[2]), ny = vh::ru(t[3]), nz = DIM == 3 ? vh::ru(t[4]) : 1;
  n[0] = nx; n[1] = ny;
  if (DIM == 3) {n[2] = nz;}
  std::unique_ptr<G> gp(new G(n));
  gp->setValue(0);
  std::string sep;
  for (size_t i = 5; i < t.size(); ++i) {
    if (t.size() % 4 == 2 && i == 5 + (t.size() - 5) / 2) {
      // a grid is a value: half-way through, the history continues on a copy; the original is scribbled over and destroyed
      std::unique_ptr<G> cp(new G(*gp));
      gp->setValue(-777);
      gp = std::move(cp);
    }
    G & g = *gp;
    auto a = ints(t[i].substr(2));
    if (t[i][0] == 'T') {
      typename G::CellIndexesOffset o;
      o[0] = static_cast<int>(a[0]); o[1] = static_cast<int>(a[1]);
      if (DIM == 3) {o[2] = static_cast<int>(a[2]);}
      g.translate(o, static_cast<int>(a[3]));
    } else {
      typename G::CellIndexes c;
      c[0] = a[0]; c[1] = a[1];
      if (DIM == 3) {c[2] = a[2];}
      g(c) = static_cast<int>(a[3]);
    }
    auto off = g.getIndexOffsetAlongAxes();
    std::cout << sep << off[0] << "," << off[1] << "," << (DIM == 3 ? off[2] : 0) << ":";
    bool first = true;
    for (size_t z = 0; z < nz; ++z) {
      for (size_t y = 0; y < ny; ++y) {
        for (size_t x = 0; x < nx; ++x) {
          typename G::CellIndexes c;
          c[0] = x; c[1] = y;
          if (DIM == 3) {c[2] = z;}
          std::cout << (first ? "" : ",") << static_cast<const G &>(g)(c);
          first = false;
        }
      }
    }
    sep = " ";
  }
  std::cout << "\n";
}

int main()
{
  std::string line;
  while (std::getline(std::cin, line)) {
    if (line.empty() || line[0] == '#') {continue;}
    auto t = vh::split(line);
    if (t[0] == "grid" && t[1] == "2") {run<2>(t);} else if (t[0] == "grid") {run<3>(t);} else {std::cout << "?\n";}
  }
  return 0;
}
