// harness/C10.cpp — drives the real angle / rotation / coordinate conversions of /repo on a case file
// (format: see ocaml/drv_C10.ml); prints one line per case in the same canonical form as the model driver.
#include <iostream>
#include <string>
#include <vector>
#include "vh.hpp"
#include "romea_core_common/math/EulerAngles.hpp"
#include "romea_core_common/transform/SmartRotation3D.hpp"
#include "romea_core_common/coordinates/PolarCoordinates.hpp"
#include "romea_core_common/coordinates/SphericalCoordinates.hpp"

using namespace romea::core;

static bool g_bad = false;
static std::string g_out;
static void put(double x)
{
  if (!std::isfinite(x)) {g_bad = true;}
  g_out += (g_out.empty() ? "" : " ") + vh::pf(x);
}
template<typename M> static void putm(const M & m)
{
  for (int i = 0; i < m.rows(); ++i) {for (int j = 0; j < m.cols(); ++j) {put(m(i, j));}}
}
static void flush()
{
  std::cout << (g_bad ? std::string("none") : g_out) << "\n";
  g_out.clear();
  g_bad = false;
}

template<typename S> static S arg(const std::vector<std::string> & t, size_t i)
{
  return static_cast<S>(vh::rf(t[i]));
}

template<typename S, bool IsDouble> static void run(const std::vector<std::string> & t)
{
  using V3 = Eigen::Matrix<S, 3, 1>;
  using M3 = Eigen::Matrix<S, 3, 3>;
  using M2 = Eigen::Matrix<S, 2, 2>;
  const std::string & k = t[0];
  if (k == "n02") {
    put(between0And2Pi<S>(arg<S>(t, 2)));
  } else if (k == "npi") {
    put(betweenMinusPiAndPi<S>(arg<S>(t, 2)));
  } else if (k == "r2") {
    S a = arg<S>(t, 2);
    M2 r = eulerAngleToRotation2D<S>(a);
    putm(r);
    put(rotation2DToEulerAngle<S>(r));
  } else if (k == "r2m") {
    M2 r;
    r << arg<S>(t, 2), arg<S>(t, 3), arg<S>(t, 4), arg<S>(t, 5);
    S a = rotation2DToEulerAngle<S>(r);
    put(a);
    putm(eulerAngleToRotation2D<S>(a));
  } else if (k == "e2r") {
    V3 e(arg<S>(t, 2), arg<S>(t, 3), arg<S>(t, 4));
    M3 r = eulerAnglesToRotation3D<S>(e);
    Eigen::Quaternion<S> q = eulerAnglesToQuaternion<S>(e);
    putm(r);
    put(q.w()); put(q.x()); put(q.y()); put(q.z());
    V3 a = rotation3DToEulerAngles<S>(r);
    put(a[0]); put(a[1]); put(a[2]);
    V3 b = quaternionToEulerAngles<S>(q);
    put(b[0]); put(b[1]); put(b[2]);
    if constexpr (IsDouble) {
      SmartRotation3D s(0.4 + e[2], -e[0], 0.1 + e[1]);   // reused object: re-initialised with the case's angles
      (void)s.R();
      s.init(e[0], e[1], e[2]);
      putm(s.R());
    }
  } else if (k == "r2e") {
    M3 r;
    for (int i = 0; i < 9; ++i) {r(i / 3, i % 3) = arg<S>(t, 2 + i);}
    V3 a = rotation3DToEulerAngles<S>(r);
    put(a[0]); put(a[1]); put(a[2]);
    putm(eulerAnglesToRotation3D<S>(a));
  } else if (k == "q2e") {
    Eigen::Quaternion<S> q(arg<S>(t, 2), arg<S>(t, 3), arg<S>(t, 4), arg<S>(t, 5));   // (w, x, y, z)
    M3 r = q.normalized().toRotationMatrix();
    putm(r);
    V3 a = quaternionToEulerAngles<S>(q);
    put(a[0]); put(a[1]); put(a[2]);
  } else if (k == "pol") {
    static int alt = 0;
    if (++alt % 2) {
      CartesianCoordinates2<S> p(arg<S>(t, 2), arg<S>(t, 3));
      PolarCoordinates<S> pc = toPolar<S>(p);
      put(pc.getRange()); put(pc.getAzimut());
      CartesianCoordinates2<S> b = toCartesian<S>(pc);
      put(b.x()); put(b.y());
    } else {
      // the homogeneous overloads (w = 1) must give the same numbers
      HomogeneousCoordinates2<S> p(arg<S>(t, 2), arg<S>(t, 3));
      PolarCoordinates<S> pc = toHomogeneous<S>(p);
      put(pc.getRange()); put(pc.getAzimut());
      HomogeneousCoordinates2<S> b = toHomogeneous<S>(pc);
      put(b.x()); put(b.y());
      if (b[2] != S(1)) {g_out = "homogeneous-w-not-1";}
    }
  } else if (k == "sph") {
    static int alt3 = 0;
    if (++alt3 % 2 == 0) {
      // homogeneous overloads (w = 1): range / azimut / elevation and the way back must ignore w
      HomogeneousCoordinates3<S> p(arg<S>(t, 2), arg<S>(t, 3), arg<S>(t, 4));
      S r = SphericalTransform::range(p);
      SphericalCoordinates<S> sc(r, SphericalTransform::azimut(p), SphericalTransform::elevation(p));
      if constexpr (IsDouble) {sc = toSpherical<S>(p);}   // the public conversion itself where it instantiates
      put(sc.getRange()); put(sc.getAzimut()); put(sc.getElevation());
      HomogeneousCoordinates3<S> b = toHomogeneous<S>(sc);
      put(b.x()); put(b.y()); put(b.z());
      if (b[3] != S(1)) {g_out = "homogeneous-w-not-1";}
      flush();
      return;
    }
    CartesianCoordinates3<S> p(arg<S>(t, 2), arg<S>(t, 3), arg<S>(t, 4));
    if constexpr (IsDouble) {
      SphericalCoordinates<S> sc = toSpherical<S>(p);
      put(sc.getRange()); put(sc.getAzimut()); put(sc.getElevation());
      CartesianCoordinates3<S> b = toCartesian<S>(sc);
      put(b.x()); put(b.y()); put(b.z());
    } else {
      // toSpherical<float> does not instantiate (elevation(float, double) has no match): use the
      // component functions it is made of
      S r = SphericalTransform::range(p);
      SphericalCoordinates<S> sc(r, SphericalTransform::azimut(p), SphericalTransform::elevation(p.z(), r));
      put(sc.getRange()); put(sc.getAzimut()); put(sc.getElevation());
      CartesianCoordinates3<S> b = toCartesian<S>(sc);
      put(b.x()); put(b.y()); put(b.z());
    }
  } else {
    g_out = "?";
  }
  flush();
}

int main()
{
  std::string line;
  while (std::getline(std::cin, line)) {
    if (line.empty() || line[0] == '#') {continue;}
    auto t = vh::split(line);
    if (t.size() < 3) {std::cout << "?\n"; continue;}
    if (t[1] == "f32") {run<float, false>(t);} else {run<double, true>(t);}
  }
  return 0;
}
