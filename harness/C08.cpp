// harness/C08.cpp — drives romea::core::KdTree on a case file; one output line per case.
// case line:  kd <f32|f64> <dim:2|3> <hom:0|1> <n> <dumpfile> <n*dim coords> <nq> { <mode:n|k> <k> <dim coords> }*
//   mode n = findNearestNeighbor (k is 1), mode k = findNearestNeighbors with k
// output   :  for each query  "Q <index> <sqdist> ..." (k pairs);  the real tree (vind, root box, nodes) is
//             written to <dumpfile> for the model driver, which runs the modelled search on it.
#include <iostream>
#include <string>
#include <vector>
#include "vh.hpp"
#include "C08_peek.hpp"
#include "romea_core_common/pointset/KdTree.hpp"

using namespace romea::core;

template<class PointType, int DIM>
static PointType mk(const std::vector<std::string> & t, size_t at)
{
  using S = typename PointType::Scalar;
  if constexpr (DIM == 2) {
    return PointType(static_cast<S>(vh::rf(t[at])), static_cast<S>(vh::rf(t[at + 1])));
  } else {
    return PointType(static_cast<S>(vh::rf(t[at])), static_cast<S>(vh::rf(t[at + 1])), static_cast<S>(vh::rf(t[at + 2])));
  }
}

template<class PointType, int DIM>
static void run(const std::vector<std::string> & t)
{
  using S = typename PointType::Scalar;
  size_t n = vh::ru(t[4]);
  const std::string & dumpfile = t[5];
  size_t at = 6;
  PointSet<PointType> points;
  points.reserve(n);
  for (size_t i = 0; i < n; ++i, at += DIM) {points.push_back(mk<PointType, DIM>(t, at));}
  KdTree<PointType> kd(points);
  if (dumpfile != "-" && !c08::write_file(dumpfile, c08::dump_tree(kd))) {
    std::cout << "cannot-write-dump\n";
    return;
  }
  size_t nq = vh::ru(t[at++]);
  std::string out;
  for (size_t j = 0; j < nq; ++j) {
    std::string mode = t[at++];
    size_t k = vh::ru(t[at++]);
    PointType q = mk<PointType, DIM>(t, at);
    at += DIM;
    out += j ? " Q" : "Q";
    if (mode == "n") {
      size_t idx = 0;
      S d = 0;
      kd.findNearestNeighbor(q, idx, d);
      out += " " + std::to_string(idx) + " " + vh::pf(d);
    } else {
      std::vector<size_t> idx(k);
      std::vector<S> d(k);
      kd.findNearestNeighbors(q, k, idx, d);
      for (size_t i = 0; i < k; ++i) {out += " " + std::to_string(idx[i]) + " " + vh::pf(d[i]);}
    }
  }
  std::cout << out << "\n";
}

int main()
{
  std::string line;
  while (std::getline(std::cin, line)) {
    if (line.empty() || line[0] == '#') {continue;}
    std::vector<std::string> t = vh::split(line);
    if (t.size() < 7 || t[0] != "kd") {std::cout << "?\n"; continue;}
    bool f32 = t[1] == "f32", d3 = t[2] == "3", hom = t[3] == "1";
    if (!hom && !d3 && f32) {run<Eigen::Vector2f, 2>(t);}
    if (!hom && !d3 && !f32) {run<Eigen::Vector2d, 2>(t);}
    if (!hom && d3 && f32) {run<Eigen::Vector3f, 3>(t);}
    if (!hom && d3 && !f32) {run<Eigen::Vector3d, 3>(t);}
    if (hom && !d3 && f32) {run<HomogeneousCoordinates2f, 2>(t);}
    if (hom && !d3 && !f32) {run<HomogeneousCoordinates2d, 2>(t);}
    if (hom && d3 && f32) {run<HomogeneousCoordinates3f, 3>(t);}
    if (hom && d3 && !f32) {run<HomogeneousCoordinates3d, 3>(t);}
  }
  return 0;
}
