// harness/C11.cpp — drives the pose/twist reductions, the SE(3) action on a pose and the uncertainty ellipse
// of /repo on a case file (format: see ocaml/drv_C11.ml).
#include <iostream>
#include <string>
#include <vector>
#include "vh.hpp"
#include "romea_core_common/math/Matrix.hpp"
#include "romea_core_common/geometry/Pose3D.hpp"
#include "romea_core_common/geometry/Pose2D.hpp"
#include "romea_core_common/geometry/Position2D.hpp"
#include "romea_core_common/geometry/Position3D.hpp"
#include "romea_core_common/geometry/Twist3D.hpp"
#include "romea_core_common/geometry/Twist2D.hpp"
#include "romea_core_common/geometry/PoseAndTwist3D.hpp"
#include "romea_core_common/geometry/PoseAndTwist2D.hpp"
#include "romea_core_common/geometry/Ellipse.hpp"

using namespace romea::core;

static bool g_bad = false;
static std::string g_out;
static void put(double x)
{
  if (!std::isfinite(x)) {g_bad = true;}
  g_out += (g_out.empty() ? "" : " ") + vh::pf(x);
}
template<typename M> static void putm(const M & m)
{
  for (int i = 0; i < m.rows(); ++i) {for (int j = 0; j < m.cols(); ++j) {put(m(i, j));}}
}
static void flush()
{
  std::cout << (g_bad ? std::string("none") : g_out) << "\n";
  g_out.clear();
  g_bad = false;
}
static void put_pose2(const Pose2D & p) {put(p.position.x()); put(p.position.y()); put(p.yaw); putm(p.covariance);}
static void put_twist2(const Twist2D & t) {put(t.linearSpeeds.x()); put(t.linearSpeeds.y()); put(t.angularSpeed); putm(t.covariance);}
static Eigen::Affine3d affine_of(const std::vector<double> & a, size_t off)
{
  Eigen::Affine3d A = Eigen::Affine3d::Identity();
  for (int i = 0; i < 9; ++i) {A.linear()(i / 3, i % 3) = a[off + i];}
  A.translation() = Eigen::Vector3d(a[off + 9], a[off + 10], a[off + 11]);
  return A;
}
static void put_mean(const Pose3D & p) {putm(p.position); putm(p.orientation);}

int main()
{
  std::string line;
  while (std::getline(std::cin, line)) {
    if (line.empty() || line[0] == '#') {continue;}
    auto t = vh::split(line);
    std::vector<double> a;
    for (size_t i = 1; i < t.size(); ++i) {a.push_back(vh::rf(t[i]));}
    if (t[0] == "red" && a.size() == 6 + 36 + 6 + 36) {
      PoseAndTwist3D pt;
      pt.pose.position = Eigen::Vector3d(a[0], a[1], a[2]);
      pt.pose.orientation = Eigen::Vector3d(a[3], a[4], a[5]);
      for (int i = 0; i < 36; ++i) {pt.pose.covariance(i / 6, i % 6) = a[6 + i];}
      pt.twist.linearSpeeds = Eigen::Vector3d(a[42], a[43], a[44]);
      pt.twist.angularSpeeds = Eigen::Vector3d(a[45], a[46], a[47]);
      for (int i = 0; i < 36; ++i) {pt.twist.covariance(i / 6, i % 6) = a[48 + i];}
      put_pose2(toPose2D(pt.pose));                       // 12
      Position3D q = toPosition3D(pt.pose);
      putm(q.position); putm(q.covariance);               // 12
      put_twist2(toTwist2D(pt.twist));                    // 12
      PoseAndTwist2D pt2 = toPoseAndTwist2D(pt);
      put_pose2(pt2.pose); put_twist2(pt2.twist);         // 24
      Eigen::Matrix3d c2 = toSe2Covariance(pt.pose.covariance);
      Eigen::Matrix<double, 6, 6> c3 = toSe3Covariance(c2);
      putm(c3);                                           // 36
      putm(toSe2Covariance(c3));                          // 9
    } else if (t[0] == "act" && a.size() == 12 + 12 + 6) {
      Eigen::Affine3d A = affine_of(a, 0), B = affine_of(a, 12);
      Pose3D p;
      p.position = Eigen::Vector3d(a[24], a[25], a[26]);
      p.orientation = Eigen::Vector3d(a[27], a[28], a[29]);
      Pose3D ap = A * p;
      put_mean(ap);
      put_mean(B * ap);
      Eigen::Affine3d BA = B * A;
      put_mean(BA * p);
    } else if (t[0] == "ell" && a.size() == 7) {
      Position2D p;
      p.position = Eigen::Vector2d(a[5], a[6]);
      p.covariance << a[0], a[1], a[2], a[3];
      Ellipse e = uncertaintyEllipse(p, a[4]);
      putm(e.getCenterPosition()); put(e.getOrientation()); put(e.getMajorRadius()); put(e.getMinorRadius());
      Pose2D q;
      q.position = p.position;
      q.yaw = 0.3;
      q.covariance.setZero();
      q.covariance.block<2, 2>(0, 0) = p.covariance;
      q.covariance(2, 2) = 1.0;
      Ellipse f = uncertaintyEllipse(q, a[4]);
      putm(f.getCenterPosition()); put(f.getOrientation()); put(f.getMajorRadius()); put(f.getMinorRadius());
    } else {
      g_out = "?";
    }
    flush();
  }
  return 0;
}
