// harness/C19.cpp — sequential behaviour of SharedVariable / SharedOptionalVariable (format: ocaml/drv_C19.ml)
#include <iostream>
#include <string>
#include "vh.hpp"
#include "romea_core_common/concurrency/SharedVariable.hpp"
#include "romea_core_common/concurrency/SharedOptionalVariable.hpp"
using namespace romea::core;
int main()
{
  std::string line;
  while (std::getline(std::cin, line)) {
    if (line.empty() || line[0] == '#') {continue;}
    auto t = vh::split(line);
    std::string sep;
    if (t[0] == "sv") {
      SharedVariable<long long> v(vh::ri(t[1]));
      for (size_t i = 2; i < t.size(); ++i) {
        if (t[i] == "L") {
          long long x = (i % 2) ? v.load() : static_cast<long long>(v);
          std::cout << sep << x;
        } else {
          if (i % 2) {v.store(vh::ri(t[i].substr(2)));} else {v = vh::ri(t[i].substr(2));}
          std::cout << sep << "-";
        }
        sep = " ";
      }
    } else if (t[0] == "so") {
      SharedOptionalVariable<long long> v;
      for (size_t i = 1; i < t.size(); ++i) {
        if (t[i] == "C") {
          auto x = v.consume();
          if (x.has_value()) {std::cout << sep << *x;} else {std::cout << sep << "none";}
        } else {
          v.store(vh::ri(t[i].substr(2)));
          std::cout << sep << "-";
        }
        sep = " ";
      }
    } else {
      std::cout << "?";
    }
    std::cout << "\n";
  }
  return 0;
}
