// harness/C01.cpp — drives ECEFConverter / EarthEllipsoid of the working tree.
// case lines (numbers are hex floats):
//   fwd <a> <b> <lat> <lon> <h>   ->  X Y Z  lat' lon' h'      (toECEF, then toWGS84 of that result)
//   inv <a> <b> <X> <Y> <Z>       ->  lat lon h  X' Y' Z'      (toWGS84, then toECEF of that result)
//   rad <a> <b> <lat>             ->  meridionalRadius transversalRadius e2 e
// a call that does not return within the time limit prints HANG for its outputs.
#include <iostream>
#include <string>
#include <vector>
#include "geoA.hpp"
#include "romea_core_common/geodesy/ECEFConverter.hpp"
#include "romea_core_common/geodesy/EarthEllipsoid.hpp"

using namespace romea::core;

int main()
{
  std::string line;
  while (std::getline(std::cin, line)) {
    if (line.empty() || line[0] == '#') {continue;}
    auto t = vh::split(line);
    if (t[0] == "fwd" && t.size() == 6) {
      // the converter must own its ellipsoid: the variable it was built from is reused for another datum right after
      // construction (as a caller looping over datums would), which must not change the converter
      EarthEllipsoid el(vh::rf(t[1]), vh::rf(t[2]));
      ECEFConverter conv(el);
      el = EarthEllipsoid(6371000.0, 6371000.0);
      GeodeticCoordinates g;
      g.latitude = vh::rf(t[3]); g.longitude = vh::rf(t[4]); g.altitude = vh::rf(t[5]);
      Eigen::Vector3d p = conv.toECEF(g);
      GeodeticCoordinates r;
      bool ok = geoA::guarded([&]() {r = conv.toWGS84(p);});
      std::cout << geoA::join({p[0], p[1], p[2]}) << " ";
      if (ok) {std::cout << geoA::join({r.latitude, r.longitude, r.altitude});} else {std::cout << "HANG HANG HANG";}
      std::cout << "\n";
    } else if (t[0] == "inv" && t.size() == 6) {
      // the converter must own its ellipsoid: the variable it was built from is reused for another datum right after
      // construction (as a caller looping over datums would), which must not change the converter
      EarthEllipsoid el(vh::rf(t[1]), vh::rf(t[2]));
      ECEFConverter conv(el);
      el = EarthEllipsoid(6371000.0, 6371000.0);
      Eigen::Vector3d p(vh::rf(t[3]), vh::rf(t[4]), vh::rf(t[5]));
      GeodeticCoordinates r;
      bool ok = geoA::guarded([&]() {r = conv.toWGS84(p);});
      if (ok) {
        Eigen::Vector3d q = conv.toECEF(r);
        std::cout << geoA::join({r.latitude, r.longitude, r.altitude, q[0], q[1], q[2]}) << "\n";
      } else {
        std::cout << "HANG HANG HANG HANG HANG HANG\n";
      }
    } else if (t[0] == "rad" && t.size() == 4) {
      EarthEllipsoid el(vh::rf(t[1]), vh::rf(t[2]));
      double lat = vh::rf(t[3]);
      std::cout << geoA::join({el.meridionalRadius(lat), el.transversalRadius(lat), el.e2, el.e}) << "\n";
    } else {
      std::cout << "?\n";
    }
  }
  return 0;
}
