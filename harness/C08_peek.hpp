// C08_peek.hpp — read-only view of the protected members of the vendored nanoflann index (root node,
// vind, root bounding box) through a harness-side derived class: pointers to the protected members are
// formed inside the derived class (allowed) and applied to the real index object.  No change to /repo.
#ifndef VERIF_C08_PEEK_HPP_
#define VERIF_C08_PEEK_HPP_
#include <cstdio>
#include <filesystem>
#include <string>
#include <vector>
#include "vh.hpp"
#include "romea_core_common/pointset/KdTree.hpp"

namespace c08
{
template<class Index>
struct Peek : public Index
{
  using NodeT = typename Index::Node;
  static const NodeT * get_root(const Index & i) {return i.*(&Peek::root_node);}
  static const std::vector<size_t> & get_vind(const Index & i) {return i.*(&Peek::vind);}
  static size_t bbox_size(const Index & i) {return (i.*(&Peek::root_bbox)).size();}
  static double bbox_low(const Index & i, size_t d) {return (i.*(&Peek::root_bbox))[d].low;}
  static double bbox_high(const Index & i, size_t d) {return (i.*(&Peek::root_bbox))[d].high;}

  static void dump_node(const NodeT * n, std::string & out)
  {
    if (n->child1 == nullptr && n->child2 == nullptr) {
      out += " L " + std::to_string(n->lr.left) + " " + std::to_string(n->lr.right);
      return;
    }
    out += " S " + std::to_string(n->sub.divfeat) + " " + vh::pf(n->sub.divlow) + " " + vh::pf(n->sub.divhigh);
    dump_node(n->child1, out);
    dump_node(n->child2, out);
  }

  // three lines: vind / bbox (low high per dimension) / tree in preorder
  static std::string dump(const Index & i)
  {
    std::string out;
    for (size_t v : get_vind(i)) {out += std::to_string(v) + " ";}
    out += "\n";
    for (size_t d = 0; d < bbox_size(i); ++d) {out += vh::pf(bbox_low(i, d)) + " " + vh::pf(bbox_high(i, d)) + " ";}
    out += "\n";
    std::string t;
    if (get_root(i) != nullptr) {dump_node(get_root(i), t);}
    out += t + "\n";
    return out;
  }
};

template<class PointType>
std::string dump_tree(const romea::core::KdTree<PointType> & kd)
{
  using Index = typename romea::core::NanoFlannAdaptor<PointType, nanoflann::metric_L2>::Index;
  return Peek<Index>::dump(*kd.kdtree_.index);
}

inline bool write_file(const std::string & path, const std::string & text)
{
  // a replayed case names the scratch directory of the run that recorded it: recreate it if needed
  std::error_code ec;
  std::filesystem::create_directories(std::filesystem::path(path).parent_path(), ec);
  FILE * f = std::fopen(path.c_str(), "w");
  if (!f) {return false;}
  std::fwrite(text.data(), 1, text.size(), f);
  std::fclose(f);
  return true;
}
}  // namespace c08
#endif  // VERIF_C08_PEEK_HPP_
