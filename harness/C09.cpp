// harness/C09.cpp — drives romea::core::NormalAndCurvatureEstimation on a case file; one output line per case.
// case line:  nc <f32|f64> <dim:2|3> <hom:0|1> <n> <k> <overload:0..5> <init:d|z> <sidefile> <nclouds:1|2>
//                <n*dim coords of cloud 1> [ <dim*dim rotation entries (ignored here)> <n*dim coords of cloud 2> ]
//   overload: 0 (points,normals) 1 (points,kdtree,normals) 2 (points,normals,curv) 3 (points,kdtree,normals,curv)
//             4 (points,normals,curv,rel) 5 (points,kdtree,normals,curv,rel)
//   init    : d = NormalSet default-constructed (homogeneous: w = 1), z = every normal zero-initialised (w = 0)
// output   :  per cloud, per point  "P <SIZE normal entries> <curvature|-> <reliability|->"
// side file:  per cloud, per point, the k neighbour indexes the implementation's own kd-tree returns (the model
//             driver and the oracle read it).
#include <iostream>
#include <string>
#include <vector>
#include "vh.hpp"
#include "C08_peek.hpp"
#include "romea_core_common/pointset/KdTree.hpp"
#include "romea_core_common/pointset/algorithms/NormalAndCurvatureEstimation.hpp"

using namespace romea::core;

template<class PointType, int DIM>
static PointType mk(const std::vector<std::string> & t, size_t at)
{
  using S = typename PointType::Scalar;
  if constexpr (DIM == 2) {
    return PointType(static_cast<S>(vh::rf(t[at])), static_cast<S>(vh::rf(t[at + 1])));
  } else {
    return PointType(static_cast<S>(vh::rf(t[at])), static_cast<S>(vh::rf(t[at + 1])), static_cast<S>(vh::rf(t[at + 2])));
  }
}

template<class PointType, int DIM>
static void run(const std::vector<std::string> & t)
{
  using S = typename PointType::Scalar;
  constexpr int SIZE = PointTraits<PointType>::SIZE;
  size_t n = vh::ru(t[4]), k = vh::ru(t[5]);
  int ov = static_cast<int>(vh::ri(t[6]));
  bool zero = t[7] == "z";
  const std::string & side = t[8];
  size_t nclouds = vh::ru(t[9]);
  size_t at = 10;
  std::string out, sidetext;
  // ONE estimator object and ONE point-set object for both clouds of a case: the second cloud (the rotated one) is
  // written over the first IN PLACE — same address, same size, new coordinates — and the same estimator is asked again.
  // Nothing the estimator keeps between calls (a cached kd-tree, neighbourhood buffers) may depend on the first cloud.
  PointSet<PointType> points;
  points.reserve(n);
  NormalAndCurvatureEstimation<PointType> est(k);
  for (size_t c = 0; c < nclouds; ++c) {
    if (c == 1) {at += DIM * DIM;}
    for (size_t i = 0; i < n; ++i, at += DIM) {
      if (c == 0) {points.push_back(mk<PointType, DIM>(t, at));} else {points[i] = mk<PointType, DIM>(t, at);}
    }
    NormalSet<PointType> normals(n);
    if (zero) {
      for (auto & v : normals) {v = PointType(PointType::Zero());}
    } else if (SIZE == DIM) {
      // default-constructed Eigen vectors are uninitialised: give them a recognisable finite content
      for (auto & v : normals) {v.setConstant(static_cast<S>(7));}
    }
    std::vector<S> curv(n, static_cast<S>(0)), rel(n, static_cast<S>(0));
    KdTree<PointType> kd(points);
    if (k >= 2) {
      // the tree object is reused: a user may query one tree with several neighbourhood sizes; a smaller query first
      // must not influence the k-neighbour queries that follow (stale per-tree state would)
      size_t ks = k / 3 + 1;
      std::vector<size_t> idx0(ks);
      std::vector<S> d0(ks);
      kd.findNearestNeighbors(points[0], ks, idx0, d0);
    }
    {
      std::vector<size_t> idx(k);
      std::vector<S> d(k);
      for (size_t i = 0; i < n; ++i) {
        kd.findNearestNeighbors(points[i], k, idx, d);
        for (size_t j = 0; j < k; ++j) {sidetext += std::to_string(idx[j]) + " ";}
        sidetext += "\n";
      }
    }
    switch (ov) {
      case 0: est.compute(points, normals); break;
      case 1: est.compute(points, kd, normals); break;
      case 2: est.compute(points, normals, curv); break;
      case 3: est.compute(points, kd, normals, curv); break;
      case 4: est.compute(points, normals, curv, rel); break;
      default: est.compute(points, kd, normals, curv, rel); break;
    }
    for (size_t i = 0; i < n; ++i) {
      out += (out.empty() ? "P" : " P");
      for (int j = 0; j < SIZE; ++j) {out += " " + vh::pf(normals[i][j]);}
      out += " " + (ov >= 2 ? vh::pf(curv[i]) : std::string("-"));
      out += " " + (ov >= 4 ? vh::pf(rel[i]) : std::string("-"));
    }
  }
  if (side != "-" && !c08::write_file(side, sidetext)) {
    std::cout << "cannot-write-side-file\n";
    return;
  }
  std::cout << out << "\n";
}

int main()
{
  std::string line;
  while (std::getline(std::cin, line)) {
    if (line.empty() || line[0] == '#') {continue;}
    std::vector<std::string> t = vh::split(line);
    if (t.size() < 11 || t[0] != "nc") {std::cout << "?\n"; continue;}
    bool f32 = t[1] == "f32", d3 = t[2] == "3", hom = t[3] == "1";
    if (!hom && !d3 && f32) {run<Eigen::Vector2f, 2>(t);}
    if (!hom && !d3 && !f32) {run<Eigen::Vector2d, 2>(t);}
    if (!hom && d3 && f32) {run<Eigen::Vector3f, 3>(t);}
    if (!hom && d3 && !f32) {run<Eigen::Vector3d, 3>(t);}
    if (hom && !d3 && f32) {run<HomogeneousCoordinates2f, 2>(t);}
    if (hom && !d3 && !f32) {run<HomogeneousCoordinates2d, 2>(t);}
    if (hom && d3 && f32) {run<HomogeneousCoordinates3f, 3>(t);}
    if (hom && d3 && !f32) {run<HomogeneousCoordinates3d, 3>(t);}
  }
  return 0;
}
