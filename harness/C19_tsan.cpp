// harness/C19_tsan.cpp — ThreadSanitizer schedule search for C19 (built with clang++ -fsanitize=thread).
// usage: C19_tsan <scenario> <readers> <ops> <seed>
// Prints "OK <scenario> checks=<n>" or "FAIL <scenario> <what>"; a data race makes TSan print its report on stderr and
// the process exit with status 66 (TSAN_OPTIONS=halt_on_error=1:exitcode=66).
#include <atomic>
#include <array>
#include <cmath>
#include <cstdio>
#include <cstdlib>
#include <algorithm>
#include <iostream>
#include <mutex>
#include <random>
#include <set>
#include <sstream>
#include <string>
#include <thread>
#include <vector>
#include "romea_core_common/concurrency/SharedVariable.hpp"
#include "romea_core_common/concurrency/SharedOptionalVariable.hpp"
#include "romea_core_common/monitoring/OnlineAverage.hpp"
#include "romea_core_common/monitoring/OnlineVariance.hpp"
#include "romea_core_common/monitoring/RateMonitoring.hpp"
#include "romea_core_common/diagnostic/CheckupEqualTo.hpp"
#include "romea_core_common/diagnostic/CheckupGreaterThan.hpp"
#include "romea_core_common/diagnostic/CheckupLowerThan.hpp"
#include "romea_core_common/diagnostic/CheckupReliability.hpp"
#include "romea_core_common/diagnostic/CheckupRate.hpp"

using namespace romea::core;

static std::atomic<long> g_checks{0};
static std::atomic<bool> g_fail{false};
static std::mutex g_msg_mutex;
static std::string g_msg;

static void fail(const std::string & m)
{
  std::lock_guard<std::mutex> l(g_msg_mutex);
  if (!g_fail.exchange(true)) {g_msg = m;}
}

struct Quad
{
  long a, b, c, d;
};

// 1 writer + R readers on a SharedVariable holding a 4-word value: never observed half written, never goes backwards
static void sc_shared_variable(int readers, long ops)
{
  SharedVariable<Quad> sv(Quad{0, 0, 0, 0});
  std::atomic<bool> done{false};
  std::vector<std::thread> th;
  for (int r = 0; r < readers; ++r) {
    th.emplace_back([&, r] {
        long last = 0;
        while (!done.load()) {
          Quad q = (r % 2) ? sv.load() : static_cast<Quad>(sv);
          if (!(q.a == q.b && q.b == q.c && q.c == q.d)) {fail("SharedVariable observed half written");}
          if (q.a < last) {fail("SharedVariable value went backwards");}
          last = q.a;
          ++g_checks;
        }
      });
  }
  for (long k = 1; k <= ops; ++k) {
    if (k % 2) {sv.store(Quad{k, k, k, k});} else {sv = Quad{k, k, k, k};}
  }
  done.store(true);
  for (auto & t : th) {t.join();}
}

// P producers + C consumers on a SharedOptionalVariable: each consumed value was stored, handed out once, in store order
static void sc_shared_optional(int n, long ops)
{
  SharedOptionalVariable<long> so;
  int producers = std::max(1, n / 2 + n % 2), consumers = std::max(1, n / 2);
  std::atomic<int> live{producers};
  std::vector<std::vector<long>> got(consumers);
  std::vector<std::thread> th;
  for (int p = 0; p < producers; ++p) {
    th.emplace_back([&, p] {
        for (long k = 1; k <= ops / producers; ++k) {so.store(k * 16 + p);}
        --live;
      });
  }
  for (int c = 0; c < consumers; ++c) {
    th.emplace_back([&, c] {
        while (live.load() > 0) {
          auto v = so.consume();
          if (v.has_value()) {got[c].push_back(*v);}
        }
      });
  }
  for (auto & t : th) {t.join();}
  std::set<long> all;
  for (int c = 0; c < consumers; ++c) {
    std::vector<long> lastOf(16, 0);
    for (long v : got[c]) {
      long p = v % 16, k = v / 16;
      if (p >= producers || k < 1 || k > ops / producers) {fail("SharedOptionalVariable handed out a value never stored");}
      if (k <= lastOf[p]) {fail("SharedOptionalVariable handed values out of store order");}
      lastOf[p] = k;
      if (!all.insert(v).second) {fail("SharedOptionalVariable handed one value to two consumers");}
      ++g_checks;
    }
  }
}

// Linearizability of EMPTY results on a SharedOptionalVariable.  Every call is stamped (before / after) with a ticket from
// one sequentially consistent counter.  An empty consume C is impossible in every sequential ordering of the calls when
// some store S had completed before C began (S.end < C.start) and no other consume C' could have taken S's value first
// (none with C'.end > S.start and C'.start < C.end): the optional then holds a value (S's or a later one) throughout C.
// Sound (never fires on a correct implementation), not complete.
static void sc_shared_optional_lin(int n, long ops)
{
  SharedOptionalVariable<long> so;
  int producers = std::max(1, n / 2 + n % 2), consumers = std::max(1, n / 2);
  std::atomic<int> live{producers};
  std::atomic<bool> capped{false};
  std::atomic<long> clk{1};
  struct Ev {long a, b; bool has;};
  std::vector<std::vector<Ev>> st(producers), co(consumers);
  const size_t CAP = 1500000;
  std::vector<std::thread> th;
  for (int p = 0; p < producers; ++p) {
    th.emplace_back([&, p] {
        st[p].reserve(ops / producers + 1);
        for (long k = 1; k <= ops / producers; ++k) {
          long a = clk.fetch_add(1);
          so.store(k * 16 + p);
          long b = clk.fetch_add(1);
          st[p].push_back(Ev{a, b, true});
          if (k % 7 == 0) {std::this_thread::yield();}
        }
        --live;
      });
  }
  for (int c = 0; c < consumers; ++c) {
    th.emplace_back([&, c] {
        co[c].reserve(CAP / 4);
        while (live.load() > 0 && !capped.load()) {
          long a = clk.fetch_add(1);
          auto v = so.consume();
          long b = clk.fetch_add(1);
          co[c].push_back(Ev{a, b, v.has_value()});
          if (co[c].size() >= CAP) {capped.store(true);}
        }
      });
  }
  for (auto & t : th) {t.join();}
  // stores sorted by completion; prefix maximum of their start tickets
  std::vector<Ev> stores;
  for (auto & v : st) {stores.insert(stores.end(), v.begin(), v.end());}
  std::sort(stores.begin(), stores.end(), [](const Ev & x, const Ev & y) {return x.b < y.b;});
  std::vector<long> best(stores.size());
  for (size_t i = 0; i < stores.size(); ++i) {best[i] = std::max(stores[i].a, i ? best[i - 1] : 0L);}
  long impossible = 0, empties = 0;
  for (int c = 0; c < consumers && !impossible; ++c) {
    for (size_t i = 0; i < co[c].size(); ++i) {
      const Ev & C = co[c][i];
      if (C.has) {continue;}
      ++empties;
      // latest-starting store among those completed before C began
      size_t lo = 0, hi = stores.size();
      while (lo < hi) {size_t mid = (lo + hi) / 2; if (stores[mid].b < C.a) {lo = mid + 1;} else {hi = mid;}}
      if (lo == 0) {continue;}
      long sstart = best[lo - 1];
      bool taken_maybe = false;
      for (int j = 0; j < consumers && !taken_maybe; ++j) {
        const std::vector<Ev> & L = co[j];
        // last consume of thread j that started before C ended (other than C itself)
        size_t l2 = 0, h2 = L.size();
        while (l2 < h2) {size_t mid = (l2 + h2) / 2; if (L[mid].a < C.b) {l2 = mid + 1;} else {h2 = mid;}}
        while (l2 > 0) {
          const Ev & D = L[l2 - 1];
          if (j == c && D.a == C.a) {--l2; continue;}
          if (D.b > sstart) {taken_maybe = true;}
          break;
        }
      }
      ++g_checks;
      if (!taken_maybe) {++impossible; break;}
    }
  }
  if (impossible) {
    fail("SharedOptionalVariable::consume returned nothing although a completed store's value was pending and no other "
         "consumer could have taken it (no sequential ordering of the calls produces this)");
  }
  (void)empties;
}

// 1 writer (update / reset) + R readers (getAverage / getVariance / isAvailable)
static void sc_online_stats(int readers, long ops)
{
  OnlineAverage avg(0.01, 16);
  OnlineVariance var(0.01, 16);
  std::atomic<bool> done{false};
  std::vector<std::thread> th;
  for (int r = 0; r < readers; ++r) {
    th.emplace_back([&, r] {
        while (!done.load()) {
          double a = avg.getAverage(), v = var.getVariance(), a2 = var.getAverage();
          bool av = (r % 2) ? avg.isAvailable() : var.isAvailable();
          (void)av;
          if (!std::isnan(a) && (a < 9.9 || a > 20.1)) {fail("OnlineAverage outside the range of the samples");}
          if (!std::isnan(a2) && (a2 < 9.9 || a2 > 20.1)) {fail("OnlineVariance average outside the range of the samples");}
          if (!std::isnan(v) && v > 200) {fail("OnlineVariance variance impossible for the samples");}
          ++g_checks;
        }
      });
  }
  std::mt19937 g(7);
  for (long k = 0; k < ops; ++k) {
    double x = 10 + (g() % 1000) / 100.0;
    avg.update(x);
    var.update(x);
    if (k % 997 == 0) {avg.reset(); var.reset();}
  }
  done.store(true);
  for (auto & t : th) {t.join();}
}

static bool report_consistent(const DiagnosticReport & r, const std::string & name, std::string & why)
{
  if (r.diagnostics.size() != 1 || r.info.size() != 1) {why = "shape"; return false;}
  const Diagnostic & d = r.diagnostics.front();
  const std::string & info = r.info.begin()->second;
  const std::string & m = d.message;
  bool stale = d.status == DiagnosticStatus::STALE;
  if (m.empty() && stale && info.empty()) {return true;}   // freshly constructed check-up
  if (m.rfind(name, 0) != 0 && m.find("no data received") == std::string::npos) {why = "message '" + m + "'"; return false;}
  if (stale && !(info.empty())) {why = "STALE with a value"; return false;}
  if (d.status == DiagnosticStatus::OK && m.find("OK") == std::string::npos && m.find("high") == std::string::npos) {
    why = "OK with message '" + m + "'"; return false;
  }
  if (d.status == DiagnosticStatus::ERROR && m.find("too") == std::string::npos && m.find("no data") == std::string::npos) {
    why = "ERROR with message '" + m + "'"; return false;
  }
  return true;
}

// 1 writer (evaluate / timeout) + R readers (getReport): every copy belongs to one evaluation
template<typename C>
static void sc_checkup(int readers, long ops, int kind)
{
  C c("x", 10.0, 1.0);
  std::atomic<bool> done{false};
  std::vector<std::thread> th;
  for (int r = 0; r < readers; ++r) {
    th.emplace_back([&] {
        while (!done.load()) {
          DiagnosticReport rep = c.getReport();
          std::string why;
          if (!report_consistent(rep, "x", why)) {fail("check-up report inconsistent: " + why);}
          const std::string & info = rep.info.begin()->second;
          if (!info.empty()) {
            double v = std::strtod(info.c_str(), nullptr);
            DiagnosticStatus s = rep.diagnostics.front().status;
            bool ok = kind == 0 ? (v >= 9 && v <= 11) : kind == 1 ? (v > 9) : (v < 11);
            // printed with 6 digits: values within 1e-4 of a threshold are not judged
            bool near = std::fabs(v - 9) < 1e-4 || std::fabs(v - 11) < 1e-4;
            if (!near && ok != (s == DiagnosticStatus::OK)) {fail("check-up status does not match its own value " + info);}
          }
          ++g_checks;
        }
      });
  }
  std::mt19937 g(11);
  for (long k = 0; k < ops; ++k) {
    if (k % 13 == 12) {c.timeout();} else {c.evaluate(8 + (g() % 4000) / 1000.0);}
  }
  done.store(true);
  for (auto & t : th) {t.join();}
}

static void sc_reliability(int readers, long ops)
{
  CheckupReliability c("x", 0.3, 0.7);
  std::atomic<bool> done{false};
  std::vector<std::thread> th;
  for (int r = 0; r < readers; ++r) {
    th.emplace_back([&] {
        while (!done.load()) {
          DiagnosticReport rep = c.getReport();
          const std::string & info = rep.info.begin()->second;
          if (!info.empty()) {
            double v = std::strtod(info.c_str(), nullptr);
            DiagnosticStatus s = rep.diagnostics.front().status;
            DiagnosticStatus e = v < 0.3 ? DiagnosticStatus::ERROR : v < 0.7 ? DiagnosticStatus::WARN : DiagnosticStatus::OK;
            bool near = std::fabs(v - 0.3) < 1e-4 || std::fabs(v - 0.7) < 1e-4;
            if (!near && s != e) {fail("reliability status does not match its own value " + info);}
          }
          ++g_checks;
        }
      });
  }
  std::mt19937 g(13);
  for (long k = 0; k < ops; ++k) {c.evaluate((g() % 1000) / 1000.0);}
  done.store(true);
  for (auto & t : th) {t.join();}
}

// 1 writer (evaluate with increasing stamps) + R readers (heartBeatCallback / getReport)
template<typename C>
static void sc_checkup_rate(int readers, long ops)
{
  C c("x", 100.0, 10.0);
  std::atomic<bool> done{false};
  std::atomic<long long> now{0};
  std::vector<std::thread> th;
  for (int r = 0; r < readers; ++r) {
    th.emplace_back([&, r] {
        while (!done.load()) {
          if (r % 2) {
            c.heartBeatCallback(Duration(now.load() + (r % 4 == 1 ? 600000000LL : 1000LL)));
          } else {
            DiagnosticReport rep = c.getReport();
            std::string why;
            if (!report_consistent(rep, "x_rate", why)) {fail("rate check-up report inconsistent: " + why);}
          }
          ++g_checks;
        }
      });
  }
  long long t = 0;
  for (long k = 0; k < ops; ++k) {
    t += 10000000LL;
    now.store(t);
    c.evaluate(Duration(t));
  }
  done.store(true);
  for (auto & t2 : th) {t2.join();}
}

static void sc_rate_monitoring(int readers, long ops)
{
  RateMonitoring m(50.0);
  std::atomic<bool> done{false};
  std::atomic<long long> now{0};
  std::vector<std::thread> th;
  for (int r = 0; r < readers; ++r) {
    th.emplace_back([&, r] {
        while (!done.load()) {
          double rate = m.getRate();
          if (rate < 0 || rate > 1e6) {fail("RateMonitoring impossible rate");}
          if (r % 2) {m.timeout(Duration(now.load() + 1000LL));}
          ++g_checks;
        }
      });
  }
  long long t = 0;
  for (long k = 0; k < ops; ++k) {
    t += 20000000LL;
    now.store(t);
    m.update(Duration(t));
  }
  done.store(true);
  for (auto & t2 : th) {t2.join();}
}

int main(int argc, char ** argv)
{
  if (argc < 4) {return 2;}
  std::string sc = argv[1];
  int readers = std::atoi(argv[2]);
  long ops = std::atol(argv[3]);
  if (sc == "shared_variable") {sc_shared_variable(readers, ops);} else if (sc == "shared_optional") {
    sc_shared_optional(readers, ops);
  } else if (sc == "shared_optional_lin") {sc_shared_optional_lin(readers, ops);
  } else if (sc == "online_stats") {sc_online_stats(readers, ops);} else if (sc == "checkup_equal") {
    sc_checkup<CheckupEqualTo<double>>(readers, ops, 0);
  } else if (sc == "checkup_greater") {sc_checkup<CheckupGreaterThan<double>>(readers, ops, 1);} else if (sc == "checkup_lower") {
    sc_checkup<CheckupLowerThan<double>>(readers, ops, 2);
  } else if (sc == "reliability") {sc_reliability(readers, ops);} else if (sc == "rate_equal") {
    sc_checkup_rate<CheckupEqualToRate>(readers, ops);
  } else if (sc == "rate_greater") {sc_checkup_rate<CheckupGreaterThanRate>(readers, ops);} else if (sc == "rate_monitoring") {
    sc_rate_monitoring(readers, ops);
  } else {return 2;}
  if (g_fail.load()) {
    std::cout << "FAIL " << sc << " " << g_msg << "\n";
    return 1;
  }
  std::cout << "OK " << sc << " checks=" << g_checks.load() << "\n";
  return 0;
}
