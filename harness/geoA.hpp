// geoA.hpp — helpers shared by the geodesy harnesses C01/C02/C03:
// a per-call CPU-time limit so that a non-terminating implementation call becomes the outcome "HANG"
// instead of a stuck check.  The guarded calls are pure floating-point computations (no locks, no
// allocation inside the loops concerned), so leaving them by siglongjmp from the timer signal is safe.
#ifndef VERIF_GEOA_HPP_
#define VERIF_GEOA_HPP_
#include <csetjmp>
#include <csignal>
#include <sys/time.h>
#include <string>
#include <vector>
#include "vh.hpp"

namespace geoA
{
static sigjmp_buf jump_buffer;
static void on_timer(int) {siglongjmp(jump_buffer, 1);}

// runs f(); returns false when f did not return within `usec` microseconds of process CPU time
template<typename F>
bool guarded(F f, long usec = 20000)
{
  struct sigaction sa;
  sa.sa_handler = on_timer;
  sigemptyset(&sa.sa_mask);
  sa.sa_flags = 0;
  sigaction(SIGVTALRM, &sa, nullptr);
  if (sigsetjmp(jump_buffer, 1)) {
    return false;
  }
  struct itimerval tv;
  tv.it_interval.tv_sec = 0; tv.it_interval.tv_usec = 0;
  tv.it_value.tv_sec = usec / 1000000; tv.it_value.tv_usec = usec % 1000000;
  setitimer(ITIMER_VIRTUAL, &tv, nullptr);
  f();
  struct itimerval z;
  z.it_interval.tv_sec = 0; z.it_interval.tv_usec = 0; z.it_value.tv_sec = 0; z.it_value.tv_usec = 0;
  setitimer(ITIMER_VIRTUAL, &z, nullptr);
  return true;
}

inline std::string join(const std::vector<double> & v)
{
  std::string s;
  for (size_t i = 0; i < v.size(); ++i) {
    if (i) {s += " ";}
    s += vh::pf(v[i]);
  }
  return s;
}
}  // namespace geoA
#endif  // VERIF_GEOA_HPP_
