// harness/C20.cpp — drives the real bounding boxes, intervals, container helpers and the point-set
// preconditioner of /repo on a case file (format: see ocaml/drv_C20.ml); one result line per case.
//
// NB: romea::core::min / max of EigenContainers.hpp call `.min(point)` / `.max(point)` on the element
// type; that member exists only for Eigen::Array, so they do not instantiate for containers of
// Eigen::Matrix (Vector2d, ...).  They are exercised here with Eigen::Array element types ("cext");
// `mean` is exercised with both ("cext" and "cmean").
#include <deque>
#include <iostream>
#include <list>
#include <string>
#include <vector>
#include "vh.hpp"
#include "romea_core_common/containers/boundingbox/AxisAlignedBoundingBox.hpp"
#include "romea_core_common/containers/boundingbox/OrientedBoundingBox.hpp"
#include "romea_core_common/math/Interval.hpp"
#include "romea_core_common/containers/Eigen/EigenContainers.hpp"
#include "romea_core_common/pointset/algorithms/PointSetPreconditioner.hpp"

using namespace romea::core;
typedef std::vector<std::string> Toks;

template<typename S, int D>
static Eigen::Matrix<S, D, 1> rdv(const Toks & t, size_t & i)
{
  Eigen::Matrix<S, D, 1> v;
  for (int k = 0; k < D; ++k) {v(k) = static_cast<S>(vh::rf(t.at(i++)));}
  return v;
}

template<typename V>
static void pv(const V & v)
{
  for (int k = 0; k < v.size(); ++k) {std::cout << vh::pf(static_cast<double>(v(k))) << " ";}
}

template<typename S, int D>
static void run_aabb(const Toks & t, bool fromInterval)
{
  typedef Eigen::Matrix<S, D, 1> P;
  size_t i = 3;
  P a = rdv<S, D>(t, i), b = rdv<S, D>(t, i);
  AxisAlignedBoundingBox<S, D> box = fromInterval ?
    AxisAlignedBoundingBox<S, D>(Interval<S, D>(a, b)) : AxisAlignedBoundingBox<S, D>(a, b);
  if (fromInterval) {pv(box.getCenterPosition()); pv(box.getHalfWidthExtents());}
  Interval<S, D> iv = box.toInterval();
  pv(iv.lower()); pv(iv.upper());
  int k = static_cast<int>(vh::ri(t.at(i++)));
  for (int q = 0; q < k; ++q) {
    P p = rdv<S, D>(t, i);
    std::cout << (box.isInside(p) ? "1" : "0") << (q + 1 < k ? " " : "");
  }
  std::cout << "\n";
}

template<typename S, int D>
static void run_obb(const Toks & t)
{
  typedef Eigen::Matrix<S, D, 1> P;
  size_t i = 3;
  P c = rdv<S, D>(t, i), h = rdv<S, D>(t, i);
  Eigen::Matrix<S, D, D> R;
  for (int r = 0; r < D; ++r) {for (int cc = 0; cc < D; ++cc) {R(r, cc) = static_cast<S>(vh::rf(t.at(i++)));}}
  OrientedBoundingBox<S, D> o(c, h, R);
  AxisAlignedBoundingBox<S, D> a = o.toAxisAlignedBoundingBox();
  pv(a.getCenterPosition()); pv(a.getHalfWidthExtents());
  int k = static_cast<int>(vh::ri(t.at(i++)));
  for (int q = 0; q < k; ++q) {
    P p = rdv<S, D>(t, i);
    std::cout << (o.isInside(p) ? "1" : "0") << " " << (a.isInside(p) ? "1" : "0") << (q + 1 < k ? " " : "");
  }
  std::cout << "\n";
}

template<typename S, int D>
static void run_ival(const Toks & t)
{
  typedef Eigen::Matrix<S, D, 1> P;
  size_t i = 3;
  P lo1 = rdv<S, D>(t, i), hi1 = rdv<S, D>(t, i), lo2 = rdv<S, D>(t, i), hi2 = rdv<S, D>(t, i);
  Interval<S, D> i1(lo1, hi1), i2(lo2, hi2), u(lo1, hi1);
  u.include(i2);
  pv(u.lower()); pv(u.upper());
  int k = static_cast<int>(vh::ri(t.at(i++)));
  for (int q = 0; q < k; ++q) {
    P v = rdv<S, D>(t, i);
    std::cout << (i1.inside(v) ? "1" : "0") << " " << (u.inside(v) ? "1" : "0") << (q + 1 < k ? " " : "");
  }
  std::cout << "\n";
}

template<typename S>
static void run_ival1(const Toks & t)     // the DIM = 1 specialisation (scalars, std::min / std::max)
{
  size_t i = 3;
  S lo1 = static_cast<S>(vh::rf(t.at(i++))), hi1 = static_cast<S>(vh::rf(t.at(i++)));
  S lo2 = static_cast<S>(vh::rf(t.at(i++))), hi2 = static_cast<S>(vh::rf(t.at(i++)));
  Interval<S, 1> i1(lo1, hi1), i2(lo2, hi2), u(lo1, hi1);
  u.include(i2);
  std::cout << vh::pf(u.lower()) << " " << vh::pf(u.upper()) << " ";
  int k = static_cast<int>(vh::ri(t.at(i++)));
  for (int q = 0; q < k; ++q) {
    S v = static_cast<S>(vh::rf(t.at(i++)));
    std::cout << (i1.inside(v) ? "1" : "0") << " " << (u.inside(v) ? "1" : "0") << (q + 1 < k ? " " : "");
  }
  std::cout << "\n";
}

template<typename C>
static void fill(C & c, const Toks & t, size_t i, int n)
{
  typedef typename C::value_type E;
  for (int q = 0; q < n; ++q) {
    E e;
    for (int k = 0; k < e.size(); ++k) {e(k) = static_cast<typename E::Scalar>(vh::rf(t.at(i++)));}
    c.push_back(e);
  }
}

template<typename C>
static void run_cext(const Toks & t)
{
  C c;
  fill(c, t, 5, static_cast<int>(vh::ri(t[4])));
  pv(romea::core::min(c)); pv(romea::core::max(c)); pv(romea::core::mean(c));
  std::cout << "\n";
}

template<typename C>
static void run_cmean(const Toks & t)
{
  C c;
  fill(c, t, 5, static_cast<int>(vh::ri(t[4])));
  pv(romea::core::mean(c));
  std::cout << "\n";
}

// cmean must not instantiate min/max for Matrix types: separate dispatcher
template<typename E>
static void run_cont_mean(const Toks & t)
{
  const std::string & cont = t[2];
  if (cont == "vec") {
    run_cmean<VectorOfEigenVector<E>>(t);
  } else if (cont == "deq") {
    run_cmean<DequeOfEigenVector<E>>(t);
  } else {
    run_cmean<ListOfEigenVector<E>>(t);
  }
}

template<typename E>
static void run_cont_ext(const Toks & t)
{
  const std::string & cont = t[2];
  if (cont == "vec") {
    run_cext<VectorOfEigenVector<E>>(t);
  } else if (cont == "deq") {
    run_cext<DequeOfEigenVector<E>>(t);
  } else {
    run_cext<ListOfEigenVector<E>>(t);
  }
}

template<typename PT, int CD>
static void run_pre(const Toks & t)
{
  typedef typename PT::Scalar S;
  PointSet<PT> pts;
  int n = static_cast<int>(vh::ri(t[4]));
  size_t i = 5;
  for (int q = 0; q < n; ++q) {
    PT p;      // homogeneous points are default-constructed with w = 1
    for (int k = 0; k < CD; ++k) {p(k) = static_cast<S>(vh::rf(t.at(i++)));}
    pts.push_back(p);
  }
  // the preconditioner object is reused (the RANSAC model keeps one as a member and calls compute() repeatedly):
  // a first compute() on a different, off-centre set must leave no trace in the result for the case's set
  PointSet<PT> warm;
  for (const auto & q : pts) {PT w = q; for (int k = 0; k < CD; ++k) {w(k) = q(k) * static_cast<S>(0.5) + static_cast<S>(3 + k);} warm.push_back(w);}
  PointSetPreconditioner<PT> pc(warm);
  pc.compute(pts);
  pv(pc.getPointSetMin()); pv(pc.getPointSetMax()); pv(pc.getPointSetMean());
  std::cout << vh::pf(static_cast<double>(pc.getScale())) << " ";
  pv(pc.getTranslation());
  std::cout << "\n";
}

int main()
{
  std::string line;
  while (std::getline(std::cin, line)) {
    if (line.empty() || line[0] == '#') {continue;}
    Toks t = vh::split(line);
    const std::string & k = t[0];
    bool f = t[1] == "f32";
    if (k == "aabbi" || k == "aabbc") {
      int n = static_cast<int>(vh::ri(t[2]));
      bool fi = k == "aabbi";
      if (n == 2) {f ? run_aabb<float, 2>(t, fi) : run_aabb<double, 2>(t, fi);}
      else {f ? run_aabb<float, 3>(t, fi) : run_aabb<double, 3>(t, fi);}
    } else if (k == "obb") {
      int n = static_cast<int>(vh::ri(t[2]));
      if (n == 2) {f ? run_obb<float, 2>(t) : run_obb<double, 2>(t);}
      else {f ? run_obb<float, 3>(t) : run_obb<double, 3>(t);}
    } else if (k == "ival") {
      int n = static_cast<int>(vh::ri(t[2]));
      if (n == 1) {f ? run_ival1<float>(t) : run_ival1<double>(t);}
      else if (n == 2) {f ? run_ival<float, 2>(t) : run_ival<double, 2>(t);}
      else {f ? run_ival<float, 3>(t) : run_ival<double, 3>(t);}
    } else if (k == "cext") {
      int n = static_cast<int>(vh::ri(t[3]));
      if (n == 2) {f ? run_cont_ext<Eigen::Array<float, 2, 1>>(t) : run_cont_ext<Eigen::Array<double, 2, 1>>(t);}
      else if (n == 3) {f ? run_cont_ext<Eigen::Array<float, 3, 1>>(t) : run_cont_ext<Eigen::Array<double, 3, 1>>(t);}
      else {f ? run_cont_ext<Eigen::Array<float, 4, 1>>(t) : run_cont_ext<Eigen::Array<double, 4, 1>>(t);}
    } else if (k == "cmean") {
      int n = static_cast<int>(vh::ri(t[3]));
      if (n == 2) {f ? run_cont_mean<Eigen::Vector2f>(t) : run_cont_mean<Eigen::Vector2d>(t);}
      else if (n == 3) {f ? run_cont_mean<Eigen::Vector3f>(t) : run_cont_mean<Eigen::Vector3d>(t);}
      else {f ? run_cont_mean<Eigen::Vector4f>(t) : run_cont_mean<Eigen::Vector4d>(t);}
    } else if (k == "pre") {
      bool h = t[2] == "h";
      int cd = static_cast<int>(vh::ri(t[3]));
      if (!h && cd == 2) {f ? run_pre<Eigen::Vector2f, 2>(t) : run_pre<Eigen::Vector2d, 2>(t);}
      else if (!h && cd == 3) {f ? run_pre<Eigen::Vector3f, 3>(t) : run_pre<Eigen::Vector3d, 3>(t);}
      else if (h && cd == 2) {f ? run_pre<HomogeneousCoordinates2f, 2>(t) : run_pre<HomogeneousCoordinates2d, 2>(t);}
      else {f ? run_pre<HomogeneousCoordinates3f, 3>(t) : run_pre<HomogeneousCoordinates3d, 3>(t);}
    } else {
      std::cout << "?\n";
    }
  }
  return 0;
}
