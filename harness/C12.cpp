// harness/C12.cpp — drives SmartRotation3D's derivative members, operator*(Affine3d, Pose3D) and
// LeastSquares::computeEstimateCovariance of /repo on a case file (format: see ocaml/drv_C12.ml).
#include <iostream>
#include <string>
#include <vector>
#include "vh.hpp"
#include "romea_core_common/transform/SmartRotation3D.hpp"
#include "romea_core_common/geometry/Pose3D.hpp"
#include "romea_core_common/regression/leastsquares/LeastSquares.hpp"

using namespace romea::core;

static bool g_bad = false;
static std::string g_out;
static void put(double x)
{
  if (!std::isfinite(x)) {g_bad = true;}
  g_out += (g_out.empty() ? "" : " ") + vh::pf(x);
}
template<typename M> static void putm(const M & m)
{
  for (int i = 0; i < m.rows(); ++i) {for (int j = 0; j < m.cols(); ++j) {put(m(i, j));}}
}
static void flush()
{
  std::cout << (g_bad ? std::string("none") : g_out) << "\n";
  g_out.clear();
  g_bad = false;
}

static const double H_ANGLE = 0x1p-17;   // step of the finite differences printed for the oracle
static const double H_POS = 1.0;

static void mean_of(const Eigen::Affine3d & a, const Eigen::Matrix<double, 6, 1> & v)
{
  Pose3D p;
  p.position = v.head<3>();
  p.orientation = v.tail<3>();
  Pose3D q = a * p;
  putm(q.position);
  putm(q.orientation);
}

int main()
{
  std::string line;
  while (std::getline(std::cin, line)) {
    if (line.empty() || line[0] == '#') {continue;}
    auto t = vh::split(line);
    std::vector<double> a;
    for (size_t i = 1; i < t.size(); ++i) {a.push_back(vh::rf(t[i]));}
    if (t[0] == "smart" && a.size() == 6) {
      // the helper is re-initialised in place by its users: build it for other angles, read a derivative, then
      // init() it with the case's angles (alternating the two init overloads) — nothing of the first use may remain
      SmartRotation3D s(0.3 - a[1], a[2] + 0.7, 0.2 - a[0]);
      (void)s.dRdAngleAroundXAxis(); (void)s.dRTdAngles(Eigen::Vector3d(1, 2, 3));
      if (a[3] > 0) {s.init(a[0], a[1], a[2]);} else {s.init(Eigen::Vector3d(a[0], a[1], a[2]));}
      Eigen::Vector3d v(a[3], a[4], a[5]);
      putm(s.R());
      putm(s.dRdAngleAroundXAxis());
      putm(s.dRdAngleAroundYAxis());
      putm(s.dRdAngleAroundZAxis());
      putm(s.dRTdAngles(v));
      for (int k = 0; k < 3; ++k) {
        for (int sg = 1; sg >= -1; sg -= 2) {
          Eigen::Vector3d e(a[0], a[1], a[2]);
          e[k] += sg * H_ANGLE;
          SmartRotation3D sp(e);
          putm(sp.R());
        }
      }
    } else if (t[0] == "pose" && a.size() == 9 + 3 + 6 + 36) {
      Eigen::Affine3d A = Eigen::Affine3d::Identity();
      for (int i = 0; i < 9; ++i) {A.linear()(i / 3, i % 3) = a[i];}
      A.translation() = Eigen::Vector3d(a[9], a[10], a[11]);
      Pose3D p;
      Eigen::Matrix<double, 6, 1> v;
      for (int i = 0; i < 6; ++i) {v[i] = a[12 + i];}
      p.position = v.head<3>();
      p.orientation = v.tail<3>();
      for (int i = 0; i < 36; ++i) {p.covariance(i / 6, i % 6) = a[18 + i];}
      Pose3D q = A * p;
      putm(q.position);
      putm(q.orientation);
      putm(q.covariance);
      for (int k = 0; k < 6; ++k) {
        for (int sg = 1; sg >= -1; sg -= 2) {
          Eigen::Matrix<double, 6, 1> w = v;
          w[k] += sg * (k < 3 ? H_POS : H_ANGLE);
          mean_of(A, w);
        }
      }
    } else if (t[0] == "ls" && a.size() >= 2) {
      int m = static_cast<int>(a[0]), n = static_cast<int>(a[1]);
      if (static_cast<int>(a.size()) != 2 + m * n + n + 1 + n * n) {std::cout << "?\n"; continue;}
      // the solver object is REUSED: it first solves a larger, unrelated problem (m + 5 rows), then is resized to this
      // case's m rows — nothing of the first problem (stale rows beyond dataSize, the old inverse) may enter the covariance
      LeastSquares<double> ls(n, m + 5);
      for (int i = 0; i < (m + 5) * n; ++i) {
        ls.getJ()(i / n, i % n) = ((i / n) % n == i % n ? 3.0 : 0.0) + static_cast<double>((i * 7 + 3) % 11) - 5.0;
      }
      for (int i = 0; i < m + 5; ++i) {ls.getY()(i) = 2.0 - i;}
      ls.estimateUsingCholeskyDecomposition();
      (void)ls.computeEstimateCovariance(1.0);
      ls.setDataSize(m);
      for (int i = 0; i < m * n; ++i) {ls.getJ()(i / n, i % n) = a[2 + i];}
      for (int i = 0; i < m; ++i) {ls.getY()(i) = 1.0 + i;}
      Eigen::MatrixXd ac = Eigen::MatrixXd::Zero(n, n);
      for (int i = 0; i < n; ++i) {ac(i, i) = a[2 + m * n + i];}
      ls.setPreconditionner(ac);
      ls.estimateUsingCholeskyDecomposition();
      // the covariance is requested TWICE (a priori variance first, then the case's): the second answer is the one compared —
      // asking must not change what the solver holds
      (void)ls.computeEstimateCovariance(0.5);
      putm(ls.computeEstimateCovariance(a[2 + m * n + n]));
    } else if (t[0] == "lsg" && a.size() >= 2) {
      // as "ls" with a full (generally non-symmetric) preconditioner matrix Ac, row-major
      int m = static_cast<int>(a[0]), n = static_cast<int>(a[1]);
      if (static_cast<int>(a.size()) != 2 + m * n + n * n + 1 + n * n) {std::cout << "?\n"; continue;}
      // the solver object is REUSED: it first solves a larger, unrelated problem (m + 5 rows), then is resized to this
      // case's m rows — nothing of the first problem (stale rows beyond dataSize, the old inverse) may enter the covariance
      LeastSquares<double> ls(n, m + 5);
      for (int i = 0; i < (m + 5) * n; ++i) {
        ls.getJ()(i / n, i % n) = ((i / n) % n == i % n ? 3.0 : 0.0) + static_cast<double>((i * 7 + 3) % 11) - 5.0;
      }
      for (int i = 0; i < m + 5; ++i) {ls.getY()(i) = 2.0 - i;}
      ls.estimateUsingCholeskyDecomposition();
      (void)ls.computeEstimateCovariance(1.0);
      ls.setDataSize(m);
      for (int i = 0; i < m * n; ++i) {ls.getJ()(i / n, i % n) = a[2 + i];}
      for (int i = 0; i < m; ++i) {ls.getY()(i) = 1.0 + i;}
      Eigen::MatrixXd ac = Eigen::MatrixXd::Zero(n, n);
      for (int i = 0; i < n * n; ++i) {ac(i / n, i % n) = a[2 + m * n + i];}
      ls.setPreconditionner(ac);
      ls.estimateUsingCholeskyDecomposition();
      (void)ls.computeEstimateCovariance(0.5);
      putm(ls.computeEstimateCovariance(a[2 + m * n + n * n]));
    } else {
      g_out = "?";
    }
    flush();
  }
  return 0;
}
