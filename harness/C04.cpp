// harness/C04.cpp — drives romea::core::FindRigidTransformationBySVD<PointType> (all eight point types, four
// find overloads) on a case file; format: see ocaml/drv_C04.ml.  One line per case: the (d+1)^2 entries of H.
#include <iostream>
#include <string>
#include <vector>
#include "vh.hpp"
#include "romea_core_common/transform/estimation/FindRigidTransformationBySVD.hpp"

using namespace romea::core;

template<class P, int D>
struct Mk;
template<class P>
struct Mk<P, 2>
{
  static P make(const double * c) {using S = typename P::Scalar; return P(static_cast<S>(c[0]), static_cast<S>(c[1]));}
};
template<class P>
struct Mk<P, 3>
{
  static P make(const double * c)
  {
    using S = typename P::Scalar; return P(static_cast<S>(c[0]), static_cast<S>(c[1]), static_cast<S>(c[2]));
  }
};

template<class P>
static void run(const std::vector<std::string> & t)
{
  using S = typename P::Scalar;
  constexpr int D = PointTraits<P>::DIM;
  size_t p = 4;
  const std::string mode = t.at(p++), pre = t.at(p++);
  auto read_pts = [&](PointSet<P> & out) {
      long cnt = vh::ri(t.at(p++));
      for (long i = 0; i < cnt; ++i) {
        double c[3] = {0, 0, 0};
        for (int j = 0; j < D; ++j) {c[j] = vh::rf(t.at(p++));}
        out.push_back(Mk<P, D>::make(c));
      }
    };
  PointSet<P> src, tgt;
  read_pts(src);
  read_pts(tgt);
  FindRigidTransformationBySVD<P> est;
  typename FindRigidTransformationBySVD<P>::TransformationMatrixType H;
  if (mode == "a") {
    if (src.size() != tgt.size()) {std::cout << "undef\n"; return;}
    if (pre == "-") {
      H = est.find(src, tgt);
    } else {
      S s = static_cast<S>(vh::rf(pre));
      // the preconditioned sets are reused across frames by their owners (RANSAC model): build them for a LARGER set
      // first, then recompute them for this case's sets — nothing of the first frame may remain
      PointSet<P> bigS = src, bigT = tgt;
      for (size_t q = 0; q < src.size() && q < 7 && !tgt.empty(); ++q) {bigS.push_back(src[q]); bigT.push_back(tgt[tgt.size() - 1 - q % tgt.size()]);}
      PreconditionedPointSet<P> ps(bigS, static_cast<S>(2) * s), pt(bigT, static_cast<S>(2) * s);
      ps.compute(src, s); pt.compute(tgt, s);
      H = est.find(ps, pt);
    }
  } else {
    long nc = vh::ri(t.at(p++));
    std::vector<Correspondence> corr;
    for (long i = 0; i < nc; ++i) {
      size_t a = vh::ru(t.at(p++)), b = vh::ru(t.at(p++));
      if (a >= src.size() || b >= tgt.size()) {std::cout << "undef\n"; return;}
      corr.emplace_back(a, b);
    }
    if (pre == "-") {
      H = est.find(src, tgt, corr);
    } else {
      S s = static_cast<S>(vh::rf(pre));
      PointSet<P> bigS = src, bigT = tgt;
      for (size_t q = 0; q < src.size() && q < 7 && !tgt.empty(); ++q) {bigS.push_back(src[q]); bigT.push_back(tgt[tgt.size() - 1 - q % tgt.size()]);}
      PreconditionedPointSet<P> ps(bigS, static_cast<S>(2) * s), pt(bigT, static_cast<S>(2) * s);
      ps.compute(src, s); pt.compute(tgt, s);
      H = est.find(ps, pt, corr);
    }
  }
  std::string out;
  for (int i = 0; i <= D; ++i) {for (int j = 0; j <= D; ++j) {out += (out.empty() ? "" : " ") + vh::pf(H(i, j));}}
  std::cout << out << "\n";
}

int main()
{
  std::string line;
  while (std::getline(std::cin, line)) {
    if (line.empty() || line[0] == '#') {continue;}
    std::vector<std::string> t = vh::split(line);
    if (t.size() < 8 || t[0] != "kab") {std::cout << "?\n"; continue;}
    const bool f32 = t[1] == "f32", d3 = t[2] == "3", hom = t[3] == "1";
    if (!hom && !d3 && f32) {run<Eigen::Vector2f>(t);}
    if (!hom && !d3 && !f32) {run<Eigen::Vector2d>(t);}
    if (!hom && d3 && f32) {run<Eigen::Vector3f>(t);}
    if (!hom && d3 && !f32) {run<Eigen::Vector3d>(t);}
    if (hom && !d3 && f32) {run<HomogeneousCoordinates2f>(t);}
    if (hom && !d3 && !f32) {run<HomogeneousCoordinates2d>(t);}
    if (hom && d3 && f32) {run<HomogeneousCoordinates3f>(t);}
    if (hom && d3 && !f32) {run<HomogeneousCoordinates3d>(t);}
  }
  return 0;
}
