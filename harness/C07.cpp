// harness/C07.cpp — drives romea::core::LeastSquares<float|double> on a case file (format: ocaml/drv_C07.ml).
// One output line per case, same canonical form as the model driver (without the trailing "| res ..").
// Ops whose C++ behaviour is undefined (row index outside the buffers, row length != J.cols(),
// estimate with J.cols() != estimateSize) print "undef" and end the case, exactly like the model's None.
#include <iostream>
#include <memory>
#include <string>
#include <vector>
#include "vh.hpp"
#include "romea_core_common/regression/leastsquares/LeastSquares.hpp"

using namespace romea::core;

// estimateSize_ is private; the harness mirrors it from the calls it makes (it is only used for the guard)
template<typename T>
static void run(const std::vector<std::string> & t)
{
  using LS = LeastSquares<T>;
  using Matrix = typename LS::Matrix;
  using Vector = typename LS::Vector;
  size_t p = 2;
  std::unique_ptr<LS> ls;
  long k = 0, n = 0;
  auto nexti = [&]() {return vh::ri(t.at(p++));};
  auto nextf = [&]() {return static_cast<T>(vh::rf(t.at(p++)));};
  std::string c = t.at(p++);
  if (c == "C0") {
    ls.reset(new LS());
  } else if (c == "C1") {
    k = nexti(); ls.reset(new LS(static_cast<size_t>(k)));
  } else {
    k = nexti(); n = nexti(); ls.reset(new LS(static_cast<size_t>(k), static_cast<size_t>(n)));
  }
  std::string out;
  auto est_ok = [&]() {return ls->getJ().cols() == k && n <= ls->getY().rows();};
  auto put_vec = [&](const Vector & x) {
      out += " x " + std::to_string(x.rows());
      for (int i = 0; i < x.rows(); ++i) {out += " " + vh::pf(x(i));}
    };
  while (p < t.size()) {
    std::string op = t.at(p++);
    if (op == "E") {
      k = nexti(); ls->setEstimateSize(static_cast<size_t>(k));
    } else if (op == "D") {
      n = nexti();
      bool f = ls->setDataSize(static_cast<size_t>(n));
      out += f ? " f1" : " f0";
    } else if (op == "R" || op == "Q") {
      long i = nexti(), m = nexti();
      std::vector<T> row(m);
      for (long j = 0; j < m; ++j) {row[j] = nextf();}
      T y = nextf(), w = op == "R" ? nextf() : T(0);
      if (!(i < ls->getY().rows() && m == ls->getJ().cols())) {out += " undef"; break;}
      for (long j = 0; j < m; ++j) {ls->getJ()(i, j) = row[j];}
      ls->getY()(i) = y;
      if (op == "R") {ls->getW()(i) = w;}
    } else if (op == "P" || op == "A") {
      long kk = nexti();
      Matrix A(kk, kk);
      for (long i = 0; i < kk; ++i) {for (long j = 0; j < kk; ++j) {A(i, j) = nextf();}}
      if (op == "P") {
        Vector b(kk);
        for (long i = 0; i < kk; ++i) {b(i) = nextf();}
        ls->setPreconditionner(A, b);
      } else {
        ls->setPreconditionner(A);
      }
    } else if (op == "XC" || op == "XS" || op == "XW") {
      if (!est_ok()) {out += " undef"; break;}
      Vector x = op == "XC" ? ls->estimateUsingCholeskyDecomposition() :
        (op == "XS" ? ls->estimateUsingSVD() : ls->weightedEstimate());
      put_vec(x);
    } else if (op == "V") {
      T var = nextf();
      Matrix m = ls->computeEstimateCovariance(var);
      out += " m " + std::to_string(m.rows());
      for (int i = 0; i < m.rows(); ++i) {for (int j = 0; j < m.cols(); ++j) {out += " " + vh::pf(m(i, j));}}
    } else {
      out += " ?" + op; break;
    }
  }
  std::cout << (out.empty() ? out : out.substr(1)) << "\n";
}

int main()
{
  std::string line;
  while (std::getline(std::cin, line)) {
    if (line.empty() || line[0] == '#') {continue;}
    std::vector<std::string> t = vh::split(line);
    if (t.size() < 3 || t[0] != "ls") {std::cout << "?\n"; continue;}
    if (t[1] == "f32") {run<float>(t);} else {run<double>(t);}
  }
  return 0;
}
