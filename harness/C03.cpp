// harness/C03.cpp — drives LambertConverter of the working tree.
// case lines (hex floats):
//   sec <a> <b> <lon0> <lat0> <lat1> <lat2> <x0> <y0> <lat> <lon> <d>
//   tan <a> <b> <lat0> <lon0> <k0> <x0> <y0> <lat> <lon> <d>
// output (28 numbers):  n c xs ys | x y = toLambert(lat,lon) | lat' lon' = toWGS84(x,y) (HANG HANG on time-out)
//   | toLambert at (lat-2d,lon) (lat-d,lon) (lat+d,lon) (lat+2d,lon) (lat,lon-2d) (lat,lon-d) (lat,lon+d) (lat,lon+2d)
//   | toLambert(lat0,lon0) | toLambert(lat,lon0)
//   iso <lat> <e>   ->  L = computeIsometricLatitude(lat,e)   computeLatitude(L,e) (or HANG)
#include <iostream>
#include <string>
#include <vector>
#include "geoA.hpp"
#include "romea_core_common/geodesy/LambertConverter.hpp"

using namespace romea::core;

// conv is built by the caller through the PUBLIC constructor a user calls (secant/tangent parameters + ellipsoid);
// pp (from the static helper) is only printed, to compare n, c, xs, ys with the model
static void emit(const LambertConverter & conv, const LambertConverter::ProjectionParameters & pp, double lat0, double lon0,
  double lat, double lon, double d)
{
  std::vector<double> o = {pp.n, pp.c, pp.xs, pp.ys};
  Eigen::Vector2d p = conv.toLambert(WGS84Coordinates{lat, lon});
  std::cout << geoA::join(o) << " " << geoA::join({p.x(), p.y()}) << " ";
  WGS84Coordinates w;
  bool ok = geoA::guarded([&]() {w = conv.toWGS84(p);});
  if (ok) {std::cout << geoA::join({w.latitude, w.longitude});} else {std::cout << "HANG HANG";}
  std::vector<double> r;
  const double ks[4] = {-2.0, -1.0, 1.0, 2.0};
  for (double k : ks) {
    Eigen::Vector2d q = conv.toLambert(WGS84Coordinates{lat + k * d, lon});
    r.push_back(q.x()); r.push_back(q.y());
  }
  for (double k : ks) {
    Eigen::Vector2d q = conv.toLambert(WGS84Coordinates{lat, lon + k * d});
    r.push_back(q.x()); r.push_back(q.y());
  }
  Eigen::Vector2d q0 = conv.toLambert(WGS84Coordinates{lat0, lon0});
  Eigen::Vector2d q1 = conv.toLambert(WGS84Coordinates{lat, lon0});
  r.push_back(q0.x()); r.push_back(q0.y()); r.push_back(q1.x()); r.push_back(q1.y());
  std::cout << " " << geoA::join(r) << "\n";
}

int main()
{
  std::string line;
  while (std::getline(std::cin, line)) {
    if (line.empty() || line[0] == '#') {continue;}
    auto t = vh::split(line);
    std::vector<double> f;
    for (size_t i = 1; i < t.size(); ++i) {f.push_back(vh::rf(t[i]));}
    if (t[0] == "sec" && f.size() == 11) {
      EarthEllipsoid el(f[0], f[1]);
      LambertConverter::SecantProjectionParameters sp{f[2], f[3], f[4], f[5], f[6], f[7]};
      LambertConverter conv(sp, el);
      LambertConverter::ProjectionParameters pp = LambertConverter::computeProjectionParameters(sp, el);
      el = EarthEllipsoid(6371000.0, 6371000.0);   // the converter must not depend on the variable it was built from
      emit(conv, pp, f[3], f[2], f[8], f[9], f[10]);
    } else if (t[0] == "tan" && f.size() == 10) {
      EarthEllipsoid el(f[0], f[1]);
      LambertConverter::TangentProjectionParameters tp{f[2], f[3], f[4], f[5], f[6]};
      LambertConverter conv(tp, el);
      LambertConverter::ProjectionParameters pp = LambertConverter::computeProjectionParameters(tp, el);
      el = EarthEllipsoid(6371000.0, 6371000.0);
      emit(conv, pp, f[2], f[3], f[7], f[8], f[9]);
    } else if (t[0] == "iso" && f.size() == 2) {
      double L = LambertConverter::computeIsometricLatitude(f[0], f[1]);
      double back = 0;
      bool ok = geoA::guarded([&]() {back = LambertConverter::computeLatitude(L, f[1]);});
      std::cout << vh::pf(L) << " " << (ok ? vh::pf(back) : std::string("HANG")) << "\n";
    } else {
      std::cout << "?\n";
    }
  }
  return 0;
}
