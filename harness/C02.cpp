// harness/C02.cpp — drives ENUConverter of the working tree through an operation sequence.
// case line:  seq <ctor> <op> <op> ...      numbers are hex floats, fields separated by ':'
//   ctor: C | CA:lat:lon:h
//   op  : SA:lat:lon:h  R  EG:lat:lon:h  EW:lat:lon  EE:x:y:z  TE:x:y:z  TW:x:y:z  IA  GT  GA
//         RT:x:y:z = toENU(toECEF(e))   RW:x:y:z = toENU(toWGS84(e))   (round trips)
// output, per op: "-" | "v x y z" | "g lat lon h" | "b 0|1" | "m r00 r01 r02 r10 .. r22 tx ty tz" | "assert" | "HANG"
// The asserting methods (toECEF / toENU(ecef) / toWGS84) are not called on an un-anchored converter: their
// precondition assert(isAnchored_) would fire; the harness reports "assert" (as the model does).
#include <iostream>
#include <string>
#include <vector>
#include "geoA.hpp"
#include "romea_core_common/geodesy/ENUConverter.hpp"

using namespace romea::core;

static std::vector<double> fields(const std::string & tok)
{
  std::vector<double> v;
  size_t p = tok.find(':');
  while (p != std::string::npos) {
    size_t q = tok.find(':', p + 1);
    v.push_back(vh::rf(tok.substr(p + 1, q == std::string::npos ? std::string::npos : q - p - 1)));
    p = q;
  }
  return v;
}

static GeodeticCoordinates geo(const std::vector<double> & f)
{
  GeodeticCoordinates g;
  g.latitude = f[0]; g.longitude = f[1]; g.altitude = f[2];
  return g;
}

static std::string vec(const Eigen::Vector3d & v) {return "v " + geoA::join({v[0], v[1], v[2]});}

int main()
{
  std::string line;
  while (std::getline(std::cin, line)) {
    if (line.empty() || line[0] == '#') {continue;}
    auto t = vh::split(line);
    if (t.size() < 2 || t[0] != "seq") {std::cout << "?\n"; continue;}
    ENUConverter * c = nullptr;
    if (t[1] == "C") {c = new ENUConverter();} else {c = new ENUConverter(geo(fields(t[1])));}
    std::string sep;
    for (size_t i = 2; i < t.size(); ++i) {
      const std::string k = t[i].substr(0, t[i].find(':'));
      auto f = fields(t[i]);
      std::string o;
      if (k == "SA") {
        c->setAnchor(geo(f)); o = "-";
      } else if (k == "R") {
        c->reset(); o = "-";
      } else if (k == "EG") {
        o = vec(c->toENU(geo(f)));
      } else if (k == "EW") {
        WGS84Coordinates w; w.latitude = f[0]; w.longitude = f[1];
        o = vec(c->toENU(w));
      } else if (k == "EE") {
        o = c->isAnchored() ? vec(c->toENU(Eigen::Vector3d(f[0], f[1], f[2]))) : "assert";
      } else if (k == "TE") {
        // both public overloads (vector and three scalars) must agree: alternate between them
        o = !c->isAnchored() ? "assert" :
          (i % 2 ? vec(c->toECEF(f[0], f[1], f[2])) : vec(c->toECEF(Eigen::Vector3d(f[0], f[1], f[2]))));
      } else if (k == "TW") {
        if (!c->isAnchored()) {
          o = "assert";
        } else {
          GeodeticCoordinates r;
          bool ok = geoA::guarded([&]() {
                r = (i % 2) ? c->toWGS84(f[0], f[1], f[2]) : c->toWGS84(Eigen::Vector3d(f[0], f[1], f[2]));
              });
          o = ok ? "g " + geoA::join({r.latitude, r.longitude, r.altitude}) : "HANG";
        }
      } else if (k == "RT") {   // to-local after to-ECEF
        o = c->isAnchored() ? vec(c->toENU(c->toECEF(Eigen::Vector3d(f[0], f[1], f[2])))) : "assert";
      } else if (k == "RW") {   // to-local (geodetic overload) after to-geodetic
        if (!c->isAnchored()) {
          o = "assert";
        } else {
          GeodeticCoordinates r;
          bool ok = geoA::guarded([&]() {r = c->toWGS84(Eigen::Vector3d(f[0], f[1], f[2]));});
          o = ok ? vec(c->toENU(r)) : "HANG";
        }
      } else if (k == "IA") {
        o = c->isAnchored() ? "b 1" : "b 0";
      } else if (k == "GT") {
        const Eigen::Affine3d & a = c->getEnuToEcefTransform();
        std::vector<double> m;
        for (int r = 0; r < 3; ++r) {for (int q = 0; q < 3; ++q) {m.push_back(a.linear()(r, q));}}
        for (int r = 0; r < 3; ++r) {m.push_back(a.translation()[r]);}
        o = "m " + geoA::join(m);
      } else if (k == "GA") {
        const GeodeticCoordinates & g = c->getAnchor();
        o = "g " + geoA::join({g.latitude, g.longitude, g.altitude});
      } else {
        o = "?";
      }
      std::cout << sep << o;
      sep = " ";
      // value semantics: a converter is copyable, and a copy is an independent object.  Every third step a copy is made and
      // then re-anchored far away (or reset); the original, used for the rest of the sequence, must not notice.  On the
      // other steps of the same residue the roles are swapped: the sequence continues on the COPY and the original is reset.
      if (i % 3 == 1) {
        ENUConverter copy(*c);
        GeodeticCoordinates far;
        far.latitude = -0.7 + 0.01 * static_cast<double>(i); far.longitude = 2.5; far.altitude = 321.0;
        if (i % 2) {copy.setAnchor(far);} else {copy.reset();}
      } else if (i % 7 == 3) {
        ENUConverter * copy = new ENUConverter(*c);
        c->reset();
        delete c;
        c = copy;
      }
    }
    std::cout << "\n";
    delete c;
  }
  return 0;
}
