// harness/C14.cpp — drives RayCasting<Scalar,DIM> (format: ocaml/drv_C14.ml; the gap field is printed as "-")
#include <iostream>
#include <string>
#include <vector>
#include "vh.hpp"
#include "romea_core_common/containers/grid/RayTracing.hpp"

using namespace romea::core;

template<typename S, size_t DIM>
static void run(const std::vector<std::string> & t)
{
  using M = GridIndexMapping<S, DIM>;
  using P = typename M::PointType;
  size_t i = 3;
  S r = static_cast<S>(vh::rf(t[i++]));
  P lo, hi;
  for (size_t d = 0; d < DIM; ++d) {lo[d] = static_cast<S>(vh::rf(t[i++]));}
  for (size_t d = 0; d < DIM; ++d) {hi[d] = static_cast<S>(vh::rf(t[i++]));}
  M m(typename M::IntervalType(lo, hi), r);
  // three ways of getting a caster on grid m, chosen per case; all must behave alike: constructed on it; default-constructed
  // and given the grid through the setter; constructed on ANOTHER grid (other resolution and extent) and re-targeted
  M other(typename M::IntervalType(lo * S(0.5), hi * S(0.5) + P::Constant(r)), r * S(3));
  RayCasting<S, DIM> rcA(&m), rcB, rcC(&other);
  const size_t way = t.size() % 3;
  if (way == 1) {rcB.setGridIndexMapping(&m);}
  if (way == 2) {rcC.setGridIndexMapping(&m);}
  RayCasting<S, DIM> & rc0 = way == 0 ? rcA : (way == 1 ? rcB : rcC);
  // a caster is a value: for some cases the whole sequence runs on a copy of the configured caster
  RayCasting<S, DIM> rcCopy(rc0);
  RayCasting<S, DIM> & rc = (t.size() % 5 == 3) ? rcCopy : rc0;
  auto n = m.getNumberOfCellsAlongAxes();
  std::cout << "N";
  for (size_t d = 0; d < DIM; ++d) {std::cout << " " << static_cast<long long>(n[d]);}
  std::cout << " G";
  for (size_t d = 0; d < DIM; ++d) {std::cout << " " << vh::pf(static_cast<double>(m.getCellCentersPositionAlong(d)[0]));}
  auto rdp = [&](P & p) {for (size_t d = 0; d < DIM; ++d) {p[d] = static_cast<S>(vh::rf(t[i++]));}};
  auto emit = [&](const VectorOfEigenVector<typename RayCasting<S, DIM>::CellIndexes> & ray) {
      std::cout << " [ " << ray.size() << " -";
      for (const auto & c : ray) {
        std::cout << " ";
        for (size_t d = 0; d < DIM; ++d) {std::cout << (d ? "," : "") << static_cast<long long>(c[d]);}
      }
      std::cout << " ]";
    };
  while (i < t.size()) {
    std::string op = t[i++];
    P a, b;
    if (op == "O") {
      rdp(a); rc.setOriginPoint(a);
    } else if (op == "E") {
      rdp(b); emit(rc.cast(b));
    } else if (op == "OE") {
      rdp(a); rdp(b); emit(rc.cast(a, b));
    } else if (op == "SE") {          // setEndPoint(e); cast()  — the form used by the unit tests
      rdp(b); rc.setEndPoint(b); emit(rc.cast());
    } else if (op == "IT") {          // setEndPoint(e); then the iterative API: computeRayNumberOfCells() + next()
      rdp(b); rc.setEndPoint(b);
      size_t nc = rc.computeRayNumberOfCells();
      VectorOfEigenVector<typename RayCasting<S, DIM>::CellIndexes> ray(nc);
      typename RayCasting<S, DIM>::CellIndexes cur = rc.getOriginPointIndexes();
      ray[0] = cur;
      for (size_t k = 1; k < nc; ++k) {rc.next(cur); ray[k] = cur;}
      emit(ray);
    } else if (op == "K") {
      emit(rc.cast());
    } else {
      std::cout << " ?"; break;
    }
  }
  std::cout << "\n";
}

int main()
{
  std::string line;
  while (std::getline(std::cin, line)) {
    if (line.empty() || line[0] == '#') {continue;}
    auto t = vh::split(line);
    bool f = t[1] == "f32";
    bool d3 = t[2] == "3";
    if (f && d3) {run<float, 3>(t);} else if (f) {run<float, 2>(t);} else if (d3) {run<double, 3>(t);} else {run<double, 2>(t);}
  }
  return 0;
}
