// vh.hpp — tiny helpers shared by the C++ harnesses (text I/O in the canonical case-file format).
#ifndef VERIF_VH_HPP_
#define VERIF_VH_HPP_
#include <cmath>
#include <cstdio>
#include <cstdlib>
#include <cstdint>
#include <sstream>
#include <string>
#include <vector>

namespace vh
{
inline std::vector<std::string> split(const std::string & s)
{
  std::vector<std::string> out;
  std::istringstream is(s);
  std::string t;
  while (is >> t) {out.push_back(t);}
  return out;
}

inline double rf(const std::string & s)
{
  if (s == "nan") {return std::nan("");}
  if (s == "inf") {return INFINITY;}
  if (s == "-inf") {return -INFINITY;}
  return std::strtod(s.c_str(), nullptr);   // accepts hex floats
}

inline long long ri(const std::string & s) {return std::strtoll(s.c_str(), nullptr, 0);}
inline unsigned long long ru(const std::string & s) {return std::strtoull(s.c_str(), nullptr, 0);}

inline std::string pf(double x)
{
  if (std::isnan(x)) {return "nan";}
  if (std::isinf(x)) {return x > 0 ? "inf" : "-inf";}
  char b[64];
  std::snprintf(b, sizeof b, "%a", x);
  return b;
}
}  // namespace vh
#endif  // VERIF_VH_HPP_
