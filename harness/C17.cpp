// harness/C17.cpp — drives the real RateMonitoring and CheckupRate classes of /repo on a case file (format:
// see ocaml/drv_C17.ml).  The monitored rate is not observable through CheckupRate, so a RateMonitoring object
// built with the same expected rate is fed the same events; its update()/getRate()/timeout() results are printed
// next to what the check-up returns and reports.
#include <iostream>
#include <memory>
#include <sstream>
#include <string>
#include <vector>
#include "vh.hpp"
#include "romea_core_common/diagnostic/CheckupRate.hpp"
#include "romea_core_common/monitoring/RateMonitoring.hpp"

using namespace romea::core;

static std::string us(std::string s)
{
  for (auto & c : s) {if (c == ' ') {c = '_';}}
  return s;
}

static std::string show(const DiagnosticReport & r)
{
  std::ostringstream os;
  os << toString(r.diagnostics.front().status) << " " << us(r.diagnostics.front().message) << " i=" << r.info.begin()->second;
  if (r.diagnostics.size() != 1 || r.info.size() != 1 || r.info.begin()->first != "x_rate") {os << " SHAPE";}
  return os.str();
}

template<typename C>
static void run(const std::vector<std::string> & t)
{
  double expected = vh::rf(t[2]), eps = vh::rf(t[3]);
  std::unique_ptr<RateMonitoring> monp(new RateMonitoring(expected));
  C chk("x", expected, eps);
  std::cout << "I " << show(chk.getReport());
  for (size_t i = 4; i < t.size(); ++i) {
    if (t.size() % 4 == 1 && i == 4 + (t.size() - 4) / 2) {
      // RateMonitoring is copy-constructible (user-written copy constructor): half-way through, the history continues on a
      // copy and the original is destroyed — the copy must carry the whole state
      std::unique_ptr<RateMonitoring> cp(new RateMonitoring(*monp));
      monp = std::move(cp);
    }
    RateMonitoring & mon = *monp;
    Duration stamp = durationFromNanoSecond(vh::ri(t[i].substr(2)));
    if (t[i][0] == 'D') {
      double rate = mon.update(stamp);
      DiagnosticStatus ret = chk.evaluate(stamp);
      std::cout << " D " << vh::pf(rate) << " " << toString(ret) << " " << show(chk.getReport());
      if (mon.getRate() != rate) {std::cout << " GETRATE";}
    } else {
      bool tmo = mon.timeout(stamp);
      bool alive = chk.heartBeatCallback(stamp);
      std::cout << " H " << (tmo ? "1" : "0") << " " << vh::pf(mon.getRate()) << " " << (alive ? "1" : "0") << " "
                << show(chk.getReport());
    }
  }
  std::cout << "\n";
}

int main()
{
  std::string line;
  while (std::getline(std::cin, line)) {
    if (line.empty() || line[0] == '#') {continue;}
    auto t = vh::split(line);
    if (t[0] == "rate" && t[1] == "eq") {
      run<CheckupEqualToRate>(t);
    } else if (t[0] == "rate" && t[1] == "gt") {
      run<CheckupGreaterThanRate>(t);
    } else {
      std::cout << "?\n";
    }
  }
  return 0;
}
