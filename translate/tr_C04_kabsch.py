#!/usr/bin/env python3
"""tr_C04_kabsch.py — plug-in translator for C04: src/transform/estimation/FindRigidTransformationBySVD.cpp  ->  coq/gen/SrcKabsch.v.

One translation unit includes FindRigidTransformationBySVD.cpp and PreconditionedPointSet.cpp (both explicitly instantiate
their class templates); the clang JSON AST of the INSTANTIATED members is executed symbolically for the point types
Eigen::Vector2d (v2), Eigen::Vector3d (v3), HomogeneousCoordinates2d (h2), HomogeneousCoordinates3d (h3):

  src_mean_<p>                      romea::core::mean(points)                     (EigenContainers.hpp, instantiated by estimate_)
  src_estimate_corr_<p>             estimate_(sourcePoints, targetPoints, correspondences)
  src_estimate_aligned_<p>          estimate_(sourcePoints, targetPoints)
  src_find_corr_<p> / src_find_aligned_<p>            find(PointSet, PointSet[, correspondences])
  src_find_pre_corr_<p> / src_find_pre_aligned_<p>    find(PreconditionedPointSet, PreconditionedPointSet[, correspondences])

Reading of the C++ (everything else is refused: Unsupported, fail closed for C04 only):
  * a fixed-size Eigen vector / matrix is the tuple of its scalar components; a point set is a `list (list T)` (one list of
    POINT_SIZE coordinates per point), std::vector<Correspondence> a `list (nat * nat)` (sourcePointIndex, targetPointIndex);
    component k of the point `p` read from a container is `vcomp N p k`, entry (i,j) of a matrix argument `mcomp N m i j`
    (coq/SrcMat.v); X[i] on a container is `nth i X []` / `nth i X (O, O)`: an index out of range is undefined behaviour
    in C++ (the tie theorems carry the range guard of the model);
  * + - unary- / by a scalar, * by a scalar are component-wise; the matrix product component (i,j) is the sum over the inner
    dimension accumulated from zero left to right (the model's nominal order; Eigen's own order is not specified), and for an
    inner dimension of one (outer product u * v.transpose()) the single product itself;
    transpose(), block(i,j,r,c), col(k), row(k), head(k), m(i,j) with compile-time arguments select components;
    Zero() = nzero, Identity() = n_one on the diagonal and nzero elsewhere, Ones() = n_one;
    determinant() of a 2x2 / 3x3 value is the primitive `eig_det N rows` (cofactor formula, coq/SrcMat.v);
  * X.block(..) op= e, X.col(k) op= e, X op= e (op in = += -= *= /=) evaluate e completely, then update the addressed cells;
  * `Eigen::JacobiSVD<..> svd(M, ComputeThinU | ComputeThinV)` is a call of the ORACLE argument `jacobi_svd` on the rows of M;
    svd.matrixU() / matrixV() are `svd_U` / `svd_V` of its result (square, of the size of M);
  * `for (size_t n = 0[, N = bound]; n < bound; ++n)` with a run-time bound is ONE fold_left over `seq 0 bound` whose state is
    the tuple of the components of the locals assigned in the body; a range-for over a point set is one fold_left over the list;
    a loop with a compile-time bound is unrolled;
  * `if (c) {..} [else {..}]` (no return inside) merges the two stores component by component: `if c then a else b`;
  * size() of a container is `length`; an integer converted to Scalar is `nofZ N k` (literal) / `nofZ N (Z.of_nat t)`;
  * getters of PreconditionedPointSet and the free function mean() are executed from their own instantiated bodies (inlined);
    a call of another translated member of FindRigidTransformationBySVD is a call of its generated definition.
Signature: [jacobi_svd] then the parameters in declaration order (an object parameter: its data members in declaration
order, named <parameter>_<member>); result: the rows of the returned matrix (a returned vector: its components)."""
import json
import os
import re
import subprocess
import sys
from collections import OrderedDict

HERE = os.path.dirname(os.path.abspath(__file__))
sys.path.insert(0, HERE)
from srcfuns import Unsupported, dec_pair  # noqa: E402

PROP = "C04"
SRC = "src/transform/estimation/FindRigidTransformationBySVD.cpp"
PTYPES = OrderedDict([
    ("v2", {"double": ("Eigen::Vector2d", "Eigen::Matrix<double, 2, 1, 0>"), "float": ("Eigen::Vector2f", "Eigen::Matrix<float, 2, 1, 0>")}),
    ("v3", {"double": ("Eigen::Vector3d", "Eigen::Matrix<double, 3, 1, 0>"), "float": ("Eigen::Vector3f", "Eigen::Matrix<float, 3, 1, 0>")}),
    ("h2", {"double": ("romea::core::HomogeneousCoordinates2d", "romea::core::HomogeneousCoordinates2<double>"),
            "float": ("romea::core::HomogeneousCoordinates2f", "romea::core::HomogeneousCoordinates2<float>")}),
    ("h3", {"double": ("romea::core::HomogeneousCoordinates3d", "romea::core::HomogeneousCoordinates3<double>"),
            "float": ("romea::core::HomogeneousCoordinates3f", "romea::core::HomogeneousCoordinates3<float>")}),
])
SCALARS = ("double", "float")
SC = ["double"]          # the Scalar of the instantiation being translated (set by generate)
CLASSES = ("FindRigidTransformationBySVD", "PreconditionedPointSet")
CONSTS = ("CARTESIAN_DIM", "POINT_SIZE")


def tu_text():
    t = '#include "%s"\n#include "src/pointset/algorithms/PreconditionedPointSet.cpp"\n' % SRC
    t += "namespace romea { namespace core { namespace s04tie {\ntemplate<unsigned long K> struct Val {};\n"
    for tag, both in PTYPES.items():
        for sc in SCALARS:
            for cls in CLASSES:
                for c in CONSTS:
                    t += "Val<romea::core::%s<%s>::%s> k_%s_%s_%s_%s;\n" % (cls, both[sc][0], c, cls, tag, sc, c)
    return t + "}}}\n"


# (coq stem, method name, number of parameters, first parameter is a PreconditionedPointSet)
TARGETS = [
    ("estimate_corr", "estimate_", 3, False), ("estimate_aligned", "estimate_", 2, False),
    ("find_corr", "find", 3, False), ("find_aligned", "find", 2, False),
    ("find_pre_corr", "find", 3, True), ("find_pre_aligned", "find", 2, True),
]
CAST_KINDS = ("ImplicitCastExpr", "CXXStaticCastExpr", "CXXFunctionalCastExpr", "CStyleCastExpr")
PASS_CASTS = ("LValueToRValue", "NoOp", "DerivedToBase", "UncheckedDerivedToBase", "ConstructorConversion", "FunctionToPointerDecay",
              "IntegralCast")
SKIP = ("ParenExpr", "MaterializeTemporaryExpr", "ExprWithCleanups", "CXXBindTemporaryExpr", "ConstantExpr", "SubstNonTypeTemplateParmExpr")
RE_MAT = re.compile(r"Eigen::Matrix<(double|float), (-?\d+)(?:UL)?, (-?\d+)(?:UL)?")
RESERVED = {"N", "T", "L", "O", "S", "fst", "snd", "nth", "seq", "length", "fold_left", "st", "jacobi_svd", "in", "let", "fun", "if",
            "then", "else", "match", "with", "end", "forall", "exists", "fix", "as", "return", "at", "using", "where", "Type", "Prop", "Set"}


# ------------------------------------------------------------------------------------------------ clang
def run_clang(repo):
    cmd = ["clang++", "-std=c++17", "-DNDEBUG", "-fsyntax-only", "-w", "-I" + os.path.join(repo, "include"), "-I" + repo,
           "-I/usr/include/eigen3", "-Xclang", "-ast-dump=json", "-Xclang", "-ast-dump-filter=romea::core", "-x", "c++", "-"]
    p = subprocess.run(cmd, input=tu_text(), capture_output=True, text=True, timeout=600)
    if p.returncode != 0:
        raise Unsupported("clang failed: " + p.stderr[-400:])
    s, dec, i, objs = p.stdout, json.JSONDecoder(), 0, []
    while i < len(s):
        if s[i] != "{":
            j = s.find("\n", i)
            i = len(s) if j < 0 else j + 1
            continue
        o, i = dec.raw_decode(s, i)
        objs.append(o)
    return objs


SUGAR = {"Eigen::Vector2d": "Eigen::Matrix<double, 2, 1, 0>", "Eigen::Vector3d": "Eigen::Matrix<double, 3, 1, 0>",
         "HomogeneousCoordinates2d": "HomogeneousCoordinates2<double>", "HomogeneousCoordinates3d": "HomogeneousCoordinates3<double>",
         "Eigen::Vector2f": "Eigen::Matrix<float, 2, 1, 0>", "Eigen::Vector3f": "Eigen::Matrix<float, 3, 1, 0>",
         "HomogeneousCoordinates2f": "HomogeneousCoordinates2<float>", "HomogeneousCoordinates3f": "HomogeneousCoordinates3<float>"}


def canon(a):
    """canonical spelling of a point type used as a template argument"""
    a = re.sub(r"\s+", " ", a.replace("romea::core::", "")).strip()
    a = SUGAR.get(a, a)
    m = re.match(r"^Eigen::Matrix<(double|float), (\d+), 1(?:, 0(?:, \2, 1)?)?>$", a)
    if m:
        return "Eigen::Matrix<%s, %s, 1, 0>" % (m.group(1), m.group(2))
    return a


def targs(c):
    r = []
    for a in c.get("inner", []):
        if a.get("kind") == "TemplateArgument":
            r.append(str(a["value"]) if "value" in a else a.get("type", {}).get("qualType", "?"))
    return r


def has_body(m):
    return any(isinstance(c, dict) and c.get("kind") == "CompoundStmt" for c in m.get("inner", []))


def params_of(decl):
    return [c for c in decl.get("inner", []) if c.get("kind") == "ParmVarDecl"]


class Registry:
    def __init__(self, objs):
        self.specs = {}        # (class name, template argument string) -> ClassTemplateSpecializationDecl (the one with bodies)
        self.methods = {}      # decl id -> (spec key, method decl)
        self.functions = {}    # decl id -> FunctionDecl with a body (instantiations of free function templates)
        self.consts = {}       # "k_<class>_<tag>_<const>" -> int
        self.hom = {}          # "2" / "3" -> number of rows of HomogeneousCoordinates<K><double>
        self.corr_fields = None
        for o in objs:
            self.walk(o)
        for key, sp in self.specs.items():
            for m in sp.get("inner", []):
                if m.get("kind") in ("CXXMethodDecl", "CXXConstructorDecl") and "id" in m:
                    self.methods[m["id"]] = (key, m)

    def walk(self, n):
        if not isinstance(n, dict):
            return
        k = n.get("kind")
        if k == "ClassTemplateSpecializationDecl":
            key = (n.get("name"), ",".join(canon(x) for x in targs(n)))
            old = self.specs.get(key)
            nb = sum(1 for m in n.get("inner", []) if has_body(m))
            if old is None or nb > sum(1 for m in old.get("inner", []) if has_body(m)):
                self.specs[key] = n
            m = re.match(r"HomogeneousCoordinates(\d)$", n.get("name") or "")
            if m and targs(n) in (["double"], ["float"]) and n.get("bases"):
                b = RE_MAT.search(n["bases"][0].get("type", {}).get("desugaredQualType", "") + " " + n["bases"][0].get("type", {}).get("qualType", ""))
                if b and b.group(3) == "1" and b.group(1) == targs(n)[0]:
                    self.hom[(m.group(1), targs(n)[0])] = int(b.group(2))
            return
        if k == "FunctionDecl" and has_body(n) and "id" in n:
            self.functions[n["id"]] = n
        if k == "VarDecl" and (n.get("name") or "").startswith("k_"):
            m = re.search(r"Val<(\d+)>", n.get("type", {}).get("desugaredQualType", ""))
            if m:
                self.consts[n["name"]] = int(m.group(1))
        if k == "CXXRecordDecl" and n.get("name") == "Correspondence":
            f = [c.get("name") for c in n.get("inner", []) if c.get("kind") == "FieldDecl"]
            if f:
                self.corr_fields = f
        if k in ("NamespaceDecl", "ClassTemplateDecl", "FunctionTemplateDecl"):
            for c in n.get("inner", []):
                self.walk(c)

    def spec(self, cls, arg):
        sp = self.specs.get((cls, canon(arg)))
        if sp is None:
            raise Unsupported("%s<%s> is not instantiated in the translation unit" % (cls, arg))
        return sp


# ------------------------------------------------------------------------------------------------ values
class V:
    """k: 's' scalar (t) | 'b' bool (t) | 'z' integer (const: python int or None; t: nat term) | 'm' matrix (r, c, e rows of
    scalar terms) | 'pts' point list (t, r) | 'corr' correspondence list (t) | 'celem' one correspondence (t) |
    'obj' (cls key, f: OrderedDict member -> V) | 'svd' (t, d) | 'enum' (names) | 'this' | 'void'"""
    def __init__(self, k, **kw):
        self.k = k
        self.__dict__.update(kw)


def S(t):
    return V("s", t=t)


def M(r, c, e):
    return V("m", r=r, c=c, e=e)


def Zc(k):
    return V("z", const=k, t=(str(k) if k >= 0 else None))


def zl(z):
    return "(%d)%%Z" % z


def key_of(v):
    if v.k in ("s", "b", "pts", "corr", "celem"):
        return (v.k, v.t)
    if v.k == "z":
        return (v.k, v.const, v.t)
    if v.k == "m":
        return (v.k, v.r, v.c, tuple(x for row in v.e for x in row))
    return (v.k, id(v))


def split_args(s):
    out, depth, cur = [], 0, ""
    for ch in s:
        if ch == "<":
            depth += 1
        if ch == ">":
            depth -= 1
        if ch == "," and depth == 0:
            out.append(cur.strip())
            cur = ""
        else:
            cur += ch
    if cur.strip():
        out.append(cur.strip())
    return out


def qt(n):
    t = n.get("type", {})
    return t.get("desugaredQualType") or t.get("qualType", "")


class Gen:
    """state shared by all frames of the translation of one target function"""
    def __init__(self, reg, tag, defs):
        self.reg, self.tag, self.defs = reg, tag, defs      # defs: method decl id -> (coq name, uses oracle)
        self.lets = []
        self.used = set(RESERVED)
        self.oracle = False
        self.in_loop = 0

    def fresh(self, base):
        base = re.sub(r"[^A-Za-z0-9_]", "_", base) or "x"
        if base[0].isdigit():
            base = "x" + base
        nm, k = base, 0
        while nm in self.used:
            k += 1
            nm = "%s_%d" % (base, k)
        self.used.add(nm)
        return nm

    def let(self, line):
        if self.in_loop:
            raise Unsupported("an oracle call, a condition or a call of a translated function inside a loop body")
        self.lets.append(line)


class Frame:
    """symbolic execution of one function body"""
    def __init__(self, g, cls, this, depth=0):
        self.g, self.cls, self.this, self.depth = g, cls, this, depth       # cls: spec key of the enclosing class or None
        self.locals = OrderedDict()      # decl id -> V
        self.names = {}                  # decl id -> source name
        self.ret = None
        if depth > 6:
            raise Unsupported("call depth")

    # ---------- types
    def tshape(self, t, what=""):
        t = re.sub(r"\bconst\b", "", t).replace("&", "").strip()
        t = re.sub(r"\s+", " ", t)
        if t == SC[0]:
            return ("s",)
        if t in SCALARS:
            raise Unsupported("%s in a %s instantiation (mixed precision)" % (t, SC[0]))
        if t == "bool":
            return ("b",)
        if t in ("int", "unsigned long", "long", "unsigned int", "size_t", "std::size_t", "Eigen::Index", "long long", "unsigned long long"):
            return ("z",)
        m = re.match(r"^Eigen::Matrix<(double|float), (-?\d+)(?:UL)?, (-?\d+)(?:UL)?(?:, [\w, -]+)?>$", t)
        if m:
            if m.group(1) != SC[0]:
                raise Unsupported("%s matrix in a %s instantiation (mixed precision)" % (m.group(1), SC[0]))
            r, c = int(m.group(2)), int(m.group(3))
            return ("dyn",) if r < 0 or c < 0 else ("m", r, c)
        m = re.match(r"^(?:romea::core::)?HomogeneousCoordinates(\d)<(double|float)>$", t)
        if m:
            if m.group(2) != SC[0]:
                raise Unsupported("%s point in a %s instantiation (mixed precision)" % (m.group(2), SC[0]))
            if (m.group(1), SC[0]) not in self.g.reg.hom:
                raise Unsupported("base class of HomogeneousCoordinates%s<%s>" % (m.group(1), SC[0]))
            return ("m", self.g.reg.hom[(m.group(1), SC[0])], 1)
        m = re.match(r"^std::vector<(.*)>$", t)
        if m:
            a = split_args(m.group(1))
            if a and re.match(r"^(?:romea::core::)?Correspondence$", a[0]):
                return ("corr",)
            if a:
                e = self.tshape(a[0], what)
                if e[0] == "m" and e[2] == 1:
                    return ("pts", e[1])
        m = re.match(r"^(?:romea::core::)?PointSet<(.*)>$", t)          # alias template of std::vector<P, aligned_allocator<P>> (PointSet.hpp)
        if m:
            e = self.tshape(m.group(1), what)
            if e[0] == "m" and e[2] == 1:
                return ("pts", e[1])
        m = re.match(r"^(?:romea::core::)?PreconditionedPointSet<(.*)>$", t)
        if m:
            return ("obj", "PreconditionedPointSet", canon(m.group(1)))
        m = re.match(r"^(?:typename )?(?:romea::core::)?(\w+)<(.*)>::(\w+)$", t)        # a type alias declared in an instantiated class
        if m and (m.group(1), canon(m.group(2))) in self.g.reg.specs:
            for c in self.g.reg.specs[(m.group(1), canon(m.group(2)))].get("inner", []):
                if c.get("kind") in ("TypeAliasDecl", "TypedefDecl") and c.get("name") == m.group(3):
                    return self.tshape(qt(c), what)
        raise Unsupported("type %s%s" % (t[:90], " of " + what if what else ""))

    def symbolic(self, sh, name):
        if sh[0] == "s":
            return S(name)
        if sh[0] == "m":
            _, r, c = sh
            v = M(r, 1, [["(vcomp N %s %d)" % (name, i)] for i in range(r)]) if c == 1 else \
                M(r, c, [["(mcomp N %s %d %d)" % (name, i, j) for j in range(c)] for i in range(r)])
            v.whole = (name, r, c)
            return v
        if sh[0] == "pts":
            return V("pts", t=name, r=sh[1])
        if sh[0] == "corr":
            return V("corr", t=name)
        if sh[0] == "obj":
            sp = self.g.reg.spec(sh[1], sh[2])
            sub = Frame(self.g, (sh[1], sh[2]), None)
            f = OrderedDict()
            for fd in sp.get("inner", []):
                if fd.get("kind") == "FieldDecl":
                    f[fd["name"]] = sub.symbolic(sub.tshape(qt(fd), fd["name"]), name + "_" + fd["name"])
            return V("obj", cls=(sh[1], sh[2]), f=f)
        raise Unsupported("parameter / member of kind %s" % sh[0])

    @staticmethod
    def coq_params(sh, name):
        """[(coq name, coq type)] of a parameter of the given shape"""
        if sh[0] == "s":
            return [(name, "T")]
        if sh[0] == "m":
            return [(name, "list T" if sh[2] == 1 else "list (list T)")]
        if sh[0] == "pts":
            return [(name, "list (list T)")]
        if sh[0] == "corr":
            return [(name, "list (nat * nat)")]
        raise Unsupported("parameter of kind %s" % sh[0])

    # ---------- helpers
    def strip(self, n):
        while True:
            k = n.get("kind")
            if k in SKIP and n.get("inner"):
                n = n["inner"][-1]
            elif k in CAST_KINDS and n.get("castKind") in PASS_CASTS and n.get("inner"):
                n = n["inner"][-1]
            else:
                return n

    def scal(self, v):
        if v.k == "s":
            return v.t
        if v.k == "m" and v.r == 1 and v.c == 1:
            return v.e[0][0]
        raise Unsupported("a scalar is expected, got %s" % v.k)

    def to_scalar(self, v):
        """integer -> Scalar conversion"""
        if v.k == "z":
            if v.const is not None:
                return S("(nofZ N %s)" % zl(v.const))
            return S("(nofZ N (Z.of_nat %s))" % v.t)
        raise Unsupported("conversion of a %s to Scalar" % v.k)

    def nat_term(self, v):
        if v.k != "z":
            raise Unsupported("an index is expected, got %s" % v.k)
        if v.const is not None:
            if v.const < 0:
                raise Unsupported("negative index")
            return str(v.const)
        return v.t

    def const_of(self, v, what):
        if v.k == "z" and v.const is not None:
            return v.const
        raise Unsupported("%s is not a compile-time constant" % what)

    # ---------- expressions
    def binop(self, op, a, b):
        fn = {"+": "nadd", "-": "nsub", "*": "nmul", "/": "ndiv"}.get(op)
        cmpf = {"<": lambda x, y: "(nltb N %s %s)" % (x, y), ">": lambda x, y: "(nltb N %s %s)" % (y, x),
                "<=": lambda x, y: "(nleb N %s %s)" % (x, y), ">=": lambda x, y: "(nleb N %s %s)" % (y, x)}.get(op)
        if a.k == "z" and b.k == "z":
            if a.const is not None and b.const is not None and op in ("+", "-", "*"):
                return Zc({"+": a.const + b.const, "-": a.const - b.const, "*": a.const * b.const}[op])
            raise Unsupported("integer operator %s on run-time values" % op)
        if a.k == "enum" and b.k == "enum" and op == "|":
            return V("enum", names=a.names | b.names)
        if a.k == "b" and b.k == "b" and op in ("&&", "||"):
            return V("b", t="(%s %s %s)" % ("andb" if op == "&&" else "orb", a.t, b.t))
        if a.k == "z" and b.k in ("s", "m"):
            a = self.to_scalar(a)
        if b.k == "z" and a.k in ("s", "m"):
            b = self.to_scalar(b)
        if a.k == "m" and b.k == "m":
            if op in ("+", "-"):
                if (a.r, a.c) != (b.r, b.c):
                    raise Unsupported("shape mismatch in %s" % op)
                return M(a.r, a.c, [["(%s N %s %s)" % (fn, a.e[i][j], b.e[i][j]) for j in range(a.c)] for i in range(a.r)])
            if op == "*":
                if a.c != b.r:
                    raise Unsupported("matrix product of a %dx%d by a %dx%d" % (a.r, a.c, b.r, b.c))
                e = []
                for i in range(a.r):
                    row = []
                    for j in range(b.c):
                        if a.c == 1:
                            acc = "(nmul N %s %s)" % (a.e[i][0], b.e[0][j])
                        else:
                            acc = "(nzero N)"
                            for k in range(a.c):
                                acc = "(nadd N %s (nmul N %s %s))" % (acc, a.e[i][k], b.e[k][j])
                        row.append(acc)
                    e.append(row)
                return M(a.r, b.c, e)
            raise Unsupported("operator %s between matrices" % op)
        if a.k == "m" and b.k == "s" and op in ("*", "/"):
            return M(a.r, a.c, [["(%s N %s %s)" % (fn, x, b.t) for x in row] for row in a.e])
        if a.k == "s" and b.k == "m" and op == "*":
            return M(b.r, b.c, [["(nmul N %s %s)" % (a.t, y) for y in row] for row in b.e])
        if a.k == "s" and b.k == "s":
            if fn:
                return S("(%s N %s %s)" % (fn, a.t, b.t))
            if cmpf:
                return V("b", t=cmpf(a.t, b.t))
        raise Unsupported("operator %s on %s, %s" % (op, a.k, b.k))

    def callee(self, n):
        c = self.strip(n["inner"][0])
        rd = c.get("referencedDecl", {})
        return c, (rd.get("name") or c.get("name")), rd

    def expr(self, n):
        k = n.get("kind")
        if k in SKIP and n.get("inner"):
            return self.expr(n["inner"][-1])
        if k in CAST_KINDS:
            ck = n.get("castKind")
            if ck in PASS_CASTS:
                return self.expr(n["inner"][-1])
            if ck == "IntegralToFloating":
                if self.tshape(qt(n)) != ("s",):
                    raise Unsupported("integral to floating conversion to %s" % qt(n))
                return self.to_scalar(self.expr(n["inner"][-1]))
            if ck == "ToVoid":
                return V("void")
            raise Unsupported("cast %s" % ck)
        if k == "IntegerLiteral":
            return Zc(int(n["value"]))
        if k == "FloatingLiteral":
            if self.tshape(qt(n)) != ("s",):
                raise Unsupported("floating literal of type %s" % qt(n))
            m, e = dec_pair(repr(float(n["value"])))
            return S("(nofDec N %s %s)" % (zl(m), zl(e)))
        if k == "CXXBoolLiteralExpr":
            return V("b", t="true" if n.get("value") else "false")
        if k == "CXXThisExpr":
            if self.this is None:
                raise Unsupported("this")
            return self.this
        if k == "DeclRefExpr":
            rd = n["referencedDecl"]
            if rd.get("id") in self.locals:
                return self.locals[rd["id"]]
            if rd.get("kind") == "EnumConstantDecl":
                return V("enum", names=frozenset([rd.get("name")]))
            if rd.get("kind") == "VarDecl" and rd.get("name") in CONSTS and self.cls is not None:
                key = "k_%s_%s_%s_%s" % (self.cls[0], self.g.tag, SC[0], rd["name"])
                if key in self.g.reg.consts:
                    return Zc(self.g.reg.consts[key])
            raise Unsupported("reference to %s" % rd.get("name"))
        if k == "MemberExpr":
            base = self.expr(n["inner"][0])
            if base.k == "obj" and n.get("name") in base.f:
                return base.f[n["name"]]
            if base.k == "celem":
                if n.get("name") == "sourcePointIndex":
                    return V("z", const=None, t="(fst %s)" % base.t)
                if n.get("name") == "targetPointIndex":
                    return V("z", const=None, t="(snd %s)" % base.t)
            raise Unsupported("member access .%s" % n.get("name"))
        if k == "UnaryOperator" and n.get("opcode") in ("-", "+", "!"):
            a = self.expr(n["inner"][0])
            if n["opcode"] == "+":
                return a
            if n["opcode"] == "!":
                if a.k != "b":
                    raise Unsupported("! on %s" % a.k)
                return V("b", t="(negb %s)" % a.t)
            if a.k == "z" and a.const is not None:
                return Zc(-a.const)
            if a.k == "m":
                return M(a.r, a.c, [["(nneg N %s)" % x for x in row] for row in a.e])
            return S("(nneg N %s)" % self.scal(a))
        if k == "BinaryOperator" and n.get("opcode") in ("+", "-", "*", "/", "<", ">", "<=", ">=", "&&", "||", "|"):
            return self.binop(n["opcode"], self.expr(n["inner"][0]), self.expr(n["inner"][1]))
        if k == "CXXOperatorCallExpr":
            return self.opcall(n)
        if k == "CXXMemberCallExpr":
            return self.membercall(n)
        if k == "CallExpr":
            return self.call(n)
        if k in ("CXXConstructExpr", "CXXTemporaryObjectExpr"):
            return self.construct(n)
        raise Unsupported("expression %s" % k)

    def opcall(self, n):
        _, op, _ = self.callee(n)
        args = n["inner"][1:]
        if not op or not op.startswith("operator"):
            raise Unsupported("operator call")
        op = op[len("operator"):]
        if op in ("()", "[]"):
            obj = self.expr(args[0])
            idx = [self.expr(a) for a in args[1:]]
            if obj.k == "pts" and len(idx) == 1:
                p = "(nth %s %s [])" % (self.nat_term(idx[0]), obj.t)
                return M(obj.r, 1, [["(vcomp N %s %d)" % (p, i)] for i in range(obj.r)])
            if obj.k == "corr" and len(idx) == 1:
                return V("celem", t="(nth %s %s (O, O))" % (self.nat_term(idx[0]), obj.t))
            if obj.k == "m":
                ii = [self.const_of(i, "a matrix index") for i in idx]
                if len(ii) == 1 and obj.c == 1 and 0 <= ii[0] < obj.r:
                    return S(obj.e[ii[0]][0])
                if len(ii) == 1 and obj.r == 1 and 0 <= ii[0] < obj.c:
                    return S(obj.e[0][ii[0]])
                if len(ii) == 2 and 0 <= ii[0] < obj.r and 0 <= ii[1] < obj.c:
                    return S(obj.e[ii[0]][ii[1]])
                raise Unsupported("matrix index out of range")
            raise Unsupported("element access on %s" % obj.k)
        if len(args) == 1 and op == "-":
            a = self.expr(args[0])
            if a.k == "m":
                return M(a.r, a.c, [["(nneg N %s)" % x for x in row] for row in a.e])
            raise Unsupported("unary - on %s" % a.k)
        if len(args) == 2 and op in ("+", "-", "*", "/"):
            return self.binop(op, self.expr(args[0]), self.expr(args[1]))
        raise Unsupported("operator%s in an expression" % op)

    def view_cells(self, obj, nm, args):
        """cells [[(i, j)]] of the view obj.<nm>(args) of an r x c matrix"""
        a = [self.const_of(self.expr(x), "an argument of %s()" % nm) for x in args]
        if nm == "block" and len(a) == 4:
            i0, j0, nr, nc = a
        elif nm == "col" and len(a) == 1:
            i0, j0, nr, nc = 0, a[0], obj.r, 1
        elif nm == "row" and len(a) == 1:
            i0, j0, nr, nc = a[0], 0, 1, obj.c
        elif nm == "head" and len(a) == 1 and obj.c == 1:
            i0, j0, nr, nc = 0, 0, a[0], 1
        elif nm == "tail" and len(a) == 1 and obj.c == 1:
            i0, j0, nr, nc = obj.r - a[0], 0, a[0], 1
        elif nm in ("topLeftCorner",) and len(a) == 2:
            i0, j0, nr, nc = 0, 0, a[0], a[1]
        else:
            raise Unsupported("view %s/%d" % (nm, len(a)))
        if not (0 <= i0 and 0 <= j0 and nr >= 1 and nc >= 1 and i0 + nr <= obj.r and j0 + nc <= obj.c):
            raise Unsupported("%s(%s) exceeds the %dx%d matrix" % (nm, ", ".join(map(str, a)), obj.r, obj.c))
        return [[(i0 + i, j0 + j) for j in range(nc)] for i in range(nr)]

    VIEWS = ("block", "col", "row", "head", "tail", "topLeftCorner")

    def membercall(self, n):
        cal = self.strip(n["inner"][0])
        if cal.get("kind") != "MemberExpr":
            raise Unsupported("member call shape")
        nm = cal.get("name")
        args = [a for a in n["inner"][1:] if a.get("kind") != "CXXDefaultArgExpr"]
        obj = self.expr(cal["inner"][0])
        if obj.k == "this":
            mid = cal.get("referencedMemberDecl")
            if mid not in self.g.defs:
                raise Unsupported("call of the member %s, which is not a translated function" % nm)
            name, orc, rshape = self.g.defs[mid]
            vals = [self.expr(a) for a in args]
            terms = []
            for v in vals:
                if v.k in ("pts", "corr"):
                    terms.append(v.t)
                else:
                    raise Unsupported("argument of kind %s in a call of %s" % (v.k, nm))
            if orc:
                self.g.oracle = True
            res = self.g.fresh("l_" + nm.rstrip("_"))
            self.g.let("let %s := %s %s%s in" % (res, name, "jacobi_svd " if orc else "", " ".join(terms)))
            return self.symbolic(rshape, res)
        if obj.k == "obj":
            mid = cal.get("referencedMemberDecl")
            if mid not in self.g.reg.methods:
                raise Unsupported("method %s of %s" % (nm, obj.cls[0]))
            key, decl = self.g.reg.methods[mid]
            if key != obj.cls or not has_body(decl):
                raise Unsupported("method %s of %s has no instantiated body" % (nm, obj.cls[0]))
            return self.inline(decl, [self.expr(a) for a in args], key, obj)
        if obj.k in ("pts", "corr"):
            if nm == "size" and not args:
                return V("z", const=None, t="(length %s)" % obj.t)
            raise Unsupported("call of %s on a container" % nm)
        if obj.k == "svd":
            if nm in ("matrixU", "matrixV") and not args:
                f = "svd_U" if nm == "matrixU" else "svd_V"
                return M(obj.d, obj.d, [["(mcomp N (%s %s) %d %d)" % (f, obj.t, i, j) for j in range(obj.d)] for i in range(obj.d)])
            raise Unsupported("%s of the SVD" % nm)
        if obj.k != "m":
            raise Unsupported("call of %s on %s" % (nm, obj.k))
        if nm in ("eval", "matrix") and not args:
            return obj
        if nm == "transpose" and not args:
            return M(obj.c, obj.r, [[obj.e[i][j] for i in range(obj.r)] for j in range(obj.c)])
        if nm == "determinant" and not args:
            if obj.r != obj.c or obj.r not in (2, 3):
                raise Unsupported("determinant of a %dx%d matrix" % (obj.r, obj.c))
            return S("(eig_det N [%s])" % "; ".join("[%s]" % "; ".join(row) for row in obj.e))
        if nm in self.VIEWS:
            cells = self.view_cells(obj, nm, args)
            return M(len(cells), len(cells[0]), [[obj.e[i][j] for (i, j) in row] for row in cells])
        raise Unsupported("Eigen member function %s" % nm)

    def call(self, n):
        c, nm, rd = self.callee(n)
        args = [a for a in n["inner"][1:] if a.get("kind") != "CXXDefaultArgExpr"]
        if rd.get("kind") == "CXXMethodDecl" and nm in ("Zero", "Identity", "Ones") and not args:
            m = RE_MAT.search(qt(n)) or RE_MAT.search(n.get("type", {}).get("qualType", ""))
            want = {"Zero": "scalar_constant_op", "Ones": "scalar_constant_op", "Identity": "scalar_identity_op"}[nm]
            if not m or want not in qt(n) + n.get("type", {}).get("qualType", ""):
                raise Unsupported("shape of %s()" % nm)
            r, cc = int(m.group(2)), int(m.group(3))
            if m.group(1) != SC[0]:
                raise Unsupported("%s() of another scalar type" % nm)
            if r < 1 or cc < 1:
                raise Unsupported("%s() of a dynamic matrix" % nm)
            one, zero = "(n_one N)", "(nzero N)"
            if nm == "Identity":
                return M(r, cc, [[one if i == j else zero for j in range(cc)] for i in range(r)])
            return M(r, cc, [[zero if nm == "Zero" else one] * cc for _ in range(r)])
        if rd.get("kind") == "FunctionDecl" and rd.get("id") in self.g.reg.functions and nm == "mean":
            decl = self.g.reg.functions[rd["id"]]
            return self.inline(decl, [self.expr(a) for a in args], None, None)
        raise Unsupported("call of %s" % nm)

    def construct(self, n):
        args = [c for c in n.get("inner", []) if isinstance(c, dict) and c.get("kind") != "CXXDefaultArgExpr"]
        t = re.sub(r"\bconst\b", "", qt(n)).strip()
        if t.startswith("Eigen::JacobiSVD<"):
            if len(args) != 2:
                raise Unsupported("JacobiSVD constructed from %d arguments" % len(args))
            mv, opt = self.expr(args[0]), self.expr(args[1])
            if mv.k != "m" or mv.r != mv.c:
                raise Unsupported("SVD of a non-square value")
            if opt.k != "enum" or not (opt.names <= {"ComputeThinU", "ComputeFullU", "ComputeThinV", "ComputeFullV"}) \
                    or not (opt.names & {"ComputeThinU", "ComputeFullU"}) or not (opt.names & {"ComputeThinV", "ComputeFullV"}):
                raise Unsupported("JacobiSVD options (U and V must be requested)")
            self.g.oracle = True
            nm = self.g.fresh("l_svd")
            self.g.let("let %s := jacobi_svd [%s] in" % (nm, "; ".join("[%s]" % "; ".join(row) for row in mv.e)))
            return V("svd", t=nm, d=mv.r)
        if len(args) == 1:
            v = self.expr(args[0])
            try:
                sh = self.tshape(t)
            except Unsupported:
                sh = None
            if v.k == "m" and sh is not None and (sh == ("dyn",) or sh == ("m", v.r, v.c)):
                return v
            if v.k in ("pts", "corr", "obj", "svd") and sh is not None and sh[0] == v.k:
                return v
            if sh == ("s",) and v.k in ("s", "z"):
                return v if v.k == "s" else self.to_scalar(v)
        raise Unsupported("construction of %s from %d argument(s)" % (t[:60], len(args)))

    def inline(self, decl, vals, cls, this):
        ps = params_of(decl)
        if len(ps) != len(vals):
            raise Unsupported("argument count of %s" % decl.get("name"))
        sub = Frame(self.g, cls, this, self.depth + 1)
        for p, v in zip(ps, vals):
            sub.locals[p["id"]] = v
            sub.names[p["id"]] = p.get("name", "p")
        r = sub.run_body(decl)
        return r if r is not None else V("void")

    # ---------- statements
    def lvalue(self, n):
        """-> (decl id of the local variable, cells or None)"""
        n = self.strip(n)
        if n.get("kind") == "DeclRefExpr" and n["referencedDecl"].get("id") in self.locals:
            return n["referencedDecl"]["id"], None
        if n.get("kind") == "CXXMemberCallExpr":
            cal = self.strip(n["inner"][0])
            if cal.get("kind") == "MemberExpr" and cal.get("name") in self.VIEWS:
                vid, cells = self.lvalue(cal["inner"][0])
                if cells is not None:
                    raise Unsupported("view of a view as assignment target")
                cur = self.locals[vid]
                if cur.k != "m":
                    raise Unsupported("view of a %s" % cur.k)
                return vid, self.view_cells(cur, cal["name"], n["inner"][1:])
            if cal.get("kind") == "MemberExpr" and cal.get("name") in ("noalias", "matrix") and len(n["inner"]) == 1:
                return self.lvalue(cal["inner"][0])
        raise Unsupported("assignment target")

    def assign(self, target, op, val):
        vid, cells = self.lvalue(target)
        if vid in getattr(self, "readonly", ()):
            raise Unsupported("assignment to a parameter")
        cur = self.locals[vid]
        if cur.k == "m":
            if cells is None:
                cells = [[(i, j) for j in range(cur.c)] for i in range(cur.r)]
            view = M(len(cells), len(cells[0]), [[cur.e[i][j] for (i, j) in row] for row in cells])
            if val.k == "z":
                val = self.to_scalar(val)
            new = val if op == "=" else self.binop(op[0], view, val)
            if new.k != "m" or (new.r, new.c) != (view.r, view.c):
                raise Unsupported("assignment of a %s of another shape" % new.k)
            e = [list(row) for row in cur.e]
            for a, row in enumerate(cells):
                for b, (i, j) in enumerate(row):
                    e[i][j] = new.e[a][b]
            self.locals[vid] = M(cur.r, cur.c, e)
        elif cur.k == "s":
            if val.k == "z":
                val = self.to_scalar(val)
            self.locals[vid] = S(self.scal(val)) if op == "=" else S(self.scal(self.binop(op[0], cur, val)))
        else:
            raise Unsupported("assignment to a value of kind %s" % cur.k)

    def void_noop(self, st):
        if st.get("type", {}).get("qualType") != "void" or st.get("kind") not in ("ParenExpr",) + CAST_KINDS:
            return False
        n = st
        while n.get("kind") in ("ParenExpr",) + CAST_KINDS and n.get("inner"):
            n = n["inner"][-1]
        return n.get("kind") in ("IntegerLiteral", "DeclRefExpr")

    def stmt(self, st):
        k = st.get("kind")
        if self.ret is not None:
            raise Unsupported("statement after return")
        if k == "NullStmt" or self.void_noop(st):
            return
        if k == "CompoundStmt":
            for c in st.get("inner", []):
                self.stmt(c)
            return
        if k == "ReturnStmt":
            self.ret = self.expr(st["inner"][0]) if st.get("inner") else V("void")
            return
        if k == "DeclStmt":
            for v in st.get("inner", []):
                if v.get("kind") in ("TypeAliasDecl", "TypedefDecl"):
                    continue
                if v.get("kind") != "VarDecl":
                    raise Unsupported("declaration %s" % v.get("kind"))
                init = [c for c in v.get("inner", []) if isinstance(c, dict)]
                if not init:
                    raise Unsupported("uninitialised local %s" % v.get("name"))
                val = self.expr(init[0])
                try:
                    want = self.tshape(qt(v), v.get("name"))
                except Unsupported:
                    want = None          # auto of an Eigen expression type, a reference to a field ...: keep the value
                if want is not None:
                    if want == ("s",) and val.k == "z":
                        val = self.to_scalar(val)
                    ok = (want[0] == val.k and (want[0] != "m" or (want[1], want[2]) == (val.r, val.c))) or \
                         (want == ("dyn",) and val.k == "m") or (want[0] == "pts" and val.k == "pts" and want[1] == val.r)
                    if not ok:
                        raise Unsupported("local %s : %s initialised with a %s" % (v.get("name"), qt(v)[:50], val.k))
                self.locals[v["id"]] = val
                self.names[v["id"]] = v.get("name", "v")
            return
        if k == "ForStmt":
            return self.for_stmt(st)
        if k == "CXXForRangeStmt":
            return self.range_for(st)
        if k == "IfStmt":
            return self.if_stmt(st)
        s = self.strip(st)
        sk = s.get("kind")
        if sk in ("BinaryOperator", "CompoundAssignOperator") and s.get("opcode") in ("=", "+=", "-=", "*=", "/="):
            return self.assign(s["inner"][0], s["opcode"], self.expr(s["inner"][1]))
        if sk == "CXXOperatorCallExpr":
            _, op, _ = self.callee(s)
            op = (op or "")[len("operator"):]
            if op in ("=", "+=", "-=", "*=", "/=") and len(s["inner"]) == 3:
                return self.assign(s["inner"][1], op, self.expr(s["inner"][2]))
        raise Unsupported("statement %s" % sk)

    # ---------- control flow
    def if_stmt(self, st):
        parts = [c for c in st.get("inner", []) if isinstance(c, dict)]
        if len(parts) not in (2, 3) or st.get("hasInit") or st.get("hasVar"):
            raise Unsupported("if statement shape")
        c = self.expr(parts[0])
        if c.k != "b":
            raise Unsupported("condition of kind %s" % c.k)
        cn = self.g.fresh("c")
        self.g.let("let %s := %s in" % (cn, c.t))
        pre = OrderedDict(self.locals)
        self.g.in_loop += 1            # no let may be emitted from inside a branch
        try:
            self.stmt(parts[1])
            s1 = self.locals
            self.locals = OrderedDict(pre)
            if len(parts) == 3:
                self.stmt(parts[2])
            s2 = self.locals
        finally:
            self.g.in_loop -= 1
        if self.ret is not None:
            raise Unsupported("return inside an if")
        self.locals = OrderedDict(pre)
        for vid in pre:
            a, b = s1.get(vid), s2.get(vid)
            if a is None or b is None:
                raise Unsupported("a branch removes a local")
            if key_of(a) == key_of(b):
                self.locals[vid] = a
            elif a.k == "m" and b.k == "m" and (a.r, a.c) == (b.r, b.c):
                self.locals[vid] = M(a.r, a.c, [[x if x == y else "(if %s then %s else %s)" % (cn, x, y) for x, y in zip(ra, rb)]
                                                for ra, rb in zip(a.e, b.e)])
            elif a.k == "s" and b.k == "s":
                self.locals[vid] = S("(if %s then %s else %s)" % (cn, a.t, b.t))
            else:
                raise Unsupported("conditional update of a %s" % a.k)

    def is_incr(self, n, vid):
        n = self.strip(n) if n else {}
        if n.get("kind") == "UnaryOperator" and n.get("opcode") == "++":
            t = self.strip(n["inner"][0])
            return t.get("kind") == "DeclRefExpr" and t["referencedDecl"].get("id") == vid
        if n.get("kind") == "CompoundAssignOperator" and n.get("opcode") == "+=":
            t, one = self.strip(n["inner"][0]), self.strip(n["inner"][1])
            return t.get("kind") == "DeclRefExpr" and t["referencedDecl"].get("id") == vid and one.get("kind") == "IntegerLiteral" and one.get("value") == "1"
        return False

    def assigns(self, n, vid):
        if not isinstance(n, dict):
            return False
        if n.get("kind") in ("BinaryOperator", "CompoundAssignOperator", "UnaryOperator") and n.get("opcode") in ("=", "+=", "-=", "*=", "/=", "++", "--"):
            t = self.strip(n["inner"][0])
            if t.get("kind") == "DeclRefExpr" and t["referencedDecl"].get("id") == vid:
                return True
        return any(self.assigns(c, vid) for c in n.get("inner", []))

    def for_stmt(self, st):
        parts = (st.get("inner", []) + [None] * 5)[:5]
        init, cvar, cond, inc, body = parts
        if not init or init.get("kind") != "DeclStmt" or (cvar and cvar.get("kind")) or not cond or not inc or not body:
            raise Unsupported("for statement shape")
        decls = init.get("inner", [])
        if any(v.get("kind") != "VarDecl" for v in decls) or not 1 <= len(decls) <= 2:
            raise Unsupported("for-init declaration")
        lv = decls[0]
        vid = lv["id"]
        start = self.expr(lv["inner"][-1]) if lv.get("inner") else None
        if start is None or start.k != "z" or start.const != 0 or self.tshape(qt(lv)) != ("z",) or not self.is_incr(inc, vid):
            raise Unsupported("for loop other than `for (i = 0; i < bound; ++i)`")
        if self.assigns(body, vid):
            raise Unsupported("loop variable assigned in the body")
        saved_ids = set(self.locals)
        if len(decls) == 2:
            if not decls[1].get("inner"):
                raise Unsupported("for-init declaration")
            self.locals[decls[1]["id"]] = self.expr(decls[1]["inner"][-1])
            self.names[decls[1]["id"]] = decls[1].get("name", "N")
            if self.assigns(body, decls[1]["id"]):
                raise Unsupported("loop bound assigned in the body")
        c = self.strip(cond)
        if c.get("kind") != "BinaryOperator" or c.get("opcode") not in ("<", "!="):
            raise Unsupported("for condition")
        lhs = self.strip(c["inner"][0])
        if lhs.get("kind") != "DeclRefExpr" or lhs["referencedDecl"].get("id") != vid:
            raise Unsupported("for condition does not test the loop variable")
        bound = self.expr(c["inner"][1])
        if bound.k != "z":
            raise Unsupported("for bound of kind %s" % bound.k)
        self.names[vid] = lv.get("name", "i")
        if bound.const is not None:
            if not 0 <= bound.const <= 16:
                raise Unsupported("loop of %d iterations" % bound.const)
            for i in range(bound.const):
                self.locals[vid] = Zc(i)
                self.stmt(body)
        else:
            var = self.g.fresh("k_" + lv.get("name", "i"))
            self.fold(body, "(seq 0 %s)" % bound.t, var, "nat", lambda: self.locals.__setitem__(vid, V("z", const=None, t=var)), saved_ids)
        for i in list(self.locals):
            if i not in saved_ids:
                del self.locals[i]

    def range_for(self, st):
        parts = [c for c in st.get("inner", []) if isinstance(c, dict) and c.get("kind")]
        ds = [p for p in parts if p.get("kind") == "DeclStmt"]
        if len(ds) < 4 or parts[-1].get("kind") == "DeclStmt":
            raise Unsupported("range-for shape")
        rv = ds[0]["inner"][0]
        src = self.expr(rv["inner"][-1])
        if src.k not in ("pts", "corr"):
            raise Unsupported("range-for over something else than a point set / the correspondences")
        lv = ds[-1]["inner"][0]
        if self.assigns(parts[-1], lv["id"]):
            raise Unsupported("range-for variable assigned in the body")
        saved_ids = set(self.locals)
        var = self.g.fresh("e_" + lv.get("name", "x"))
        self.names[lv["id"]] = lv.get("name", "x")
        if src.k == "pts":
            elem, ety = M(src.r, 1, [["(vcomp N %s %d)" % (var, i)] for i in range(src.r)]), "list T"
        else:
            elem, ety = V("celem", t=var), "(nat * nat)%type"
        self.fold(parts[-1], src.t, var, ety, lambda: self.locals.__setitem__(lv["id"], elem), saved_ids)
        for i in list(self.locals):
            if i not in saved_ids:
                del self.locals[i]

    def fold(self, body, over, var, vty, bind_var, saved_ids):
        """one fold_left over the list term `over`; state: the components of the scalar / matrix locals the body assigns"""
        g = self.g
        cands = [i for i in self.locals if i in saved_ids and self.locals[i].k in ("s", "m") and i not in getattr(self, "readonly", ())]
        before = OrderedDict((i, self.locals[i]) for i in cands)
        entry = OrderedDict(self.locals)

        def run(ids):
            """execute the body once with the locals `ids` replaced by binders; -> (binders, [(id, old, binder, new)] of those assigned)"""
            self.locals = OrderedDict(entry)
            binders = {}
            for i in ids:
                v = before[i]
                nm = re.sub(r"[^A-Za-z0-9_]", "_", self.names.get(i, "v"))
                if v.k == "s":
                    binders[i] = S(g.fresh("b_%s" % nm))
                else:
                    binders[i] = M(v.r, v.c, [[g.fresh("b_%s_%d" % (nm, a * v.c + b)) for b in range(v.c)] for a in range(v.r)])
                self.locals[i] = binders[i]
            bind_var()
            g.in_loop += 1
            try:
                self.stmt(body)
            finally:
                g.in_loop -= 1
            if self.ret is not None:
                raise Unsupported("return inside a loop")
            ch = []
            for i in ids:
                new = self.locals.get(i)
                if new is None or new.k != before[i].k:
                    raise Unsupported("loop body changes the kind of %s" % self.names.get(i))
                if key_of(new) != key_of(binders[i]):
                    ch.append((i, before[i], binders[i], new))
            return ch
        # pass 1: which locals does the body assign?  (every candidate is a binder; the names used are given back)
        used0 = set(g.used)
        assigned = [c[0] for c in run(cands)]
        g.used = used0
        if not assigned:
            raise Unsupported("loop that assigns nothing")
        # pass 2: only these are loop-carried; everything else is read from the enclosing scope
        changed = run(assigned)
        if [c[0] for c in changed] != assigned:
            raise Unsupported("loop-carried state is not stable")
        for i in list(self.locals):
            if i not in entry:
                del self.locals[i]
        for i in entry:
            if i not in assigned:
                self.locals[i] = entry[i]

        def flat(v):
            return [v.t] if v.k == "s" else [x for row in v.e for x in row]
        bn = [x for c in changed for x in flat(c[2])]
        ini = [x for c in changed for x in flat(c[1])]
        new = [x for c in changed for x in flat(c[3])]
        outs = [g.fresh("o_" + b[2:]) for b in bn]
        k = len(bn)
        if k == 1:
            lam = "(fun (%s : T) (%s : %s) => %s)" % (bn[0], var, vty, new[0])
            self.g.lets.append("let %s := fold_left %s %s %s in" % (outs[0], lam, over, ini[0]))
        else:
            sty = "(" + " * ".join(["T"] * k) + ")%type"
            lam = "(fun (st : %s) (%s : %s) => let '(%s) := st in (%s))" % (sty, var, vty, ", ".join(bn), ", ".join(new))
            self.g.lets.append("let '(%s) := fold_left %s %s (%s) in" % (", ".join(outs), lam, over, ", ".join(ini)))
        p = 0
        for i, old, b, nw in changed:
            if old.k == "s":
                self.locals[i] = S(outs[p])
                p += 1
            else:
                self.locals[i] = M(old.r, old.c, [[outs[p + a * old.c + c] for c in range(old.c)] for a in range(old.r)])
                p += old.r * old.c

    def run_body(self, decl):
        comp = [c for c in decl.get("inner", []) if c.get("kind") == "CompoundStmt"]
        if not comp:
            raise Unsupported("%s has no instantiated body" % decl.get("name"))
        self.ret = None
        self.stmt(comp[0])
        return self.ret


# ------------------------------------------------------------------------------------------------ driver
def out_term(v):
    if v.k == "m":            # a matrix value that is, entry by entry, an unmodified input / call result X: return X itself
        want = None
        m = re.match(r"^\((vcomp|mcomp) N (\w+) ", v.e[0][0])
        if m:
            x = m.group(2)
            want = [["(vcomp N %s %d)" % (x, i)] for i in range(v.r)] if v.c == 1 else \
                   [["(mcomp N %s %d %d)" % (x, i, j) for j in range(v.c)] for i in range(v.r)]
        if want is not None and want == v.e and getattr(v, "whole", None) == (x, v.r, v.c):
            return x, ("list T" if v.c == 1 else "list (list T)"), ("m", v.r, v.c)
    if v.k == "m" and v.c == 1:
        return "[%s]" % "; ".join(row[0] for row in v.e), "list T", ("m", v.r, 1)
    if v.k == "m":
        return "[%s]" % "; ".join("[%s]" % "; ".join(row) for row in v.e), "list (list T)", ("m", v.r, v.c)
    if v.k == "s":
        return v.t, "T", ("s",)
    raise Unsupported("a %s is returned" % v.k)


def translate_decl(reg, tag, defs, decl, cls, coq_name):
    """-> (definition text, uses oracle, result shape)"""
    g = Gen(reg, tag, defs)
    fr = Frame(g, cls, V("this") if cls is not None else None)
    sig = []
    fr.readonly = set()
    for i, p in enumerate(params_of(decl)):
        nm = p.get("name") or "p%d" % i
        if nm in RESERVED:
            nm = "p_" + nm
        sh = fr.tshape(qt(p), nm)
        if sh[0] == "obj":
            v = fr.symbolic(sh, nm)
            sub = Frame(g, (sh[1], sh[2]), None)
            for fname, fv in v.f.items():
                fd = [x for x in reg.spec(sh[1], sh[2]).get("inner", []) if x.get("kind") == "FieldDecl" and x.get("name") == fname][0]
                sig += Frame.coq_params(sub.tshape(qt(fd), fname), nm + "_" + fname)
        else:
            v = fr.symbolic(sh, nm)
            sig += Frame.coq_params(sh, nm)
        fr.locals[p["id"]] = v
        fr.names[p["id"]] = nm
        fr.readonly.add(p["id"])
    for n, _ in sig:
        if n in g.used:
            raise Unsupported("parameter name %s" % n)
        g.used.add(n)
    r = fr.run_body(decl)
    if r is None or r.k == "void":
        raise Unsupported("no return value")
    term, rty, rshape = out_term(r)
    params = " ".join("(%s : %s)" % x for x in sig)
    if g.oracle:
        params = "(jacobi_svd : list (list T) -> svd_result T) " + params
    body = "".join("  %s\n" % l for l in g.lets) + "  " + term
    return "Definition %s %s : %s :=\n%s.\n" % (coq_name, params, rty, body), g.oracle, rshape


def clean(s):
    return s.replace("*)", "* )").replace("(*", "( *")[:300]


HEAD = """(* GENERATED by translate/tr_C04_kabsch.py from the clang AST of the current sources (instantiated members of
   FindRigidTransformationBySVD<P>, the getters of PreconditionedPointSet<P> and romea::core::mean, for
   P = Vector2d (v2), Vector3d (v3), HomogeneousCoordinates2d (h2), HomogeneousCoordinates3d (h3); every function is also
   translated from the <float> instantiation (Vector2f, ...) and emitted only if that gives the same term). Do not edit. *)
From Coq Require Import ZArith List.
From Romea Require Import Num SrcMat.
Import ListNotations.

Section SrcKabsch.
Context {T : Type} (N : NumOps T).
"""


def generate(repo):
    lines, errors = [HEAD], []
    try:
        reg = Registry(run_clang(repo))
    except Exception as e:  # noqa
        errors.append((PROP, "clang AST unavailable: %s" % str(e)[:300]))
        lines.append("(* NOTHING TRANSLATED: %s *)" % clean(str(e)))
        return "\n".join(lines + ["End SrcKabsch."]) + "\n", errors
    if reg.corr_fields is None or reg.corr_fields[:2] != ["sourcePointIndex", "targetPointIndex"]:
        errors.append((PROP, "struct Correspondence does not start with sourcePointIndex, targetPointIndex: %r" % (reg.corr_fields,)))
        lines.append("(* NOTHING TRANSLATED: struct Correspondence *)")
        return "\n".join(lines + ["End SrcKabsch."]) + "\n", errors

    def one_scalar(tag, sc):
        """-> [(coq name, description, text | None, error | None)] for the instantiation at Scalar = sc"""
        SC[0] = sc
        cxx, arg = PTYPES[tag][sc]
        out, defs = [], {}

        def attempt(name, what, fn):
            try:
                out.append((name, what, fn(), None))
            except Unsupported as e:
                out.append((name, what, None, str(e)))
            except Exception as e:  # noqa  (an AST shape the executor did not expect: fail closed for this definition)
                out.append((name, what, None, "internal error %r" % (e,)))
        # romea::core::mean<PointSet<P>>
        want = None
        for fid, fd in reg.functions.items():
            ps = params_of(fd)
            if fd.get("name") == "mean" and len(ps) == 1:
                try:
                    sh = Frame(Gen(reg, tag, {}), None, None).tshape(qt(ps[0]))
                    psh = Frame(Gen(reg, tag, {}), None, None).tshape(arg)
                except Unsupported:
                    continue
                pt = qt(ps[0])
                if sh == ("pts", psh[1]) and ((arg in pt) or (arg.replace("romea::core::", "") in pt)):
                    want = fd
        nm = "src_mean_%s" % tag
        if want is None:
            out.append((nm, "romea::core::mean", None, "romea::core::mean is not instantiated for %s" % cxx))
        else:
            attempt(nm, "romea::core::mean<PointSet<%s>>" % cxx, lambda: translate_decl(reg, tag, {}, want, None, nm)[0])
        try:
            sp = reg.spec("FindRigidTransformationBySVD", arg)
            if any(c.get("kind") == "FieldDecl" for c in sp.get("inner", [])):
                raise Unsupported("FindRigidTransformationBySVD has data members (calls between members are translated as pure function calls)")
        except Unsupported as e:
            for stem, meth, npar, pre in TARGETS:
                out.append(("src_%s_%s" % (stem, tag), "FindRigidTransformationBySVD<%s>" % cxx, None, str(e)))
            return out
        for stem, meth, npar, pre in TARGETS:
            nm = "src_%s_%s" % (stem, tag)
            what = "FindRigidTransformationBySVD<%s>::%s/%d%s" % (cxx, meth, npar, " (PreconditionedPointSet)" if pre else "")
            ms = [m for m in sp.get("inner", []) if m.get("kind") == "CXXMethodDecl" and m.get("name") == meth and has_body(m)
                  and len(params_of(m)) == npar and ("PreconditionedPointSet" in qt(params_of(m)[0])) == pre]
            if len(ms) != 1:
                out.append((nm, what, None, "%d definitions of %s/%d" % (len(ms), meth, npar)))
                continue

            def one(m=ms[0], nm=nm):
                text, orc, rshape = translate_decl(reg, tag, defs, m, ("FindRigidTransformationBySVD", canon(arg)), nm)
                defs[m["id"]] = (nm, orc, rshape)
                return text
            attempt(nm, what, one)
        return out

    # every function is translated from the <double> AND from the <float> instantiation of the same template; the two terms
    # must be the same (the dictionary N stands for the Scalar) and are emitted once
    for tag in PTYPES:
        rd, rf = one_scalar(tag, "double"), one_scalar(tag, "float")
        SC[0] = "double"
        for (nm, what, td, ed), (_, whatf, tf, ef) in zip(rd, rf):
            err = ed if td is None else ("<float> instantiation: %s" % ef if tf is None else
                                         "the <double> and <float> instantiations give different terms" if td != tf else None)
            if err is None:
                lines.append("(* %s  (the <float> instantiation gives the same term) *)\n%s" % (what, td))
            else:
                errors.append((PROP, "%s (%s): %s" % (nm, what, err)))
                lines.append("(* %s: NOT TRANSLATED — %s *)\n" % (nm, clean(err)))
    return "\n".join(lines + ["End SrcKabsch."]) + "\n", errors


def generate_to(gen_dir, repo="/repo"):
    try:
        text, errors = generate(repo)
    except Exception as e:  # noqa
        return [(PROP, "translator failed: %r" % (e,))]
    os.makedirs(gen_dir, exist_ok=True)
    path = os.path.join(gen_dir, "SrcKabsch.v")
    old = open(path).read() if os.path.exists(path) else None
    if old != text:
        with open(path, "w") as f:
            f.write(text)
    return errors


if __name__ == "__main__":
    t, e = generate(os.environ.get("VERIF_REPO", "/repo"))
    print(t)
    if e:
        print("\n".join("%s: %s" % x for x in e), file=sys.stderr)
        sys.exit(2)
