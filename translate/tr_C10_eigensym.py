#!/usr/bin/env python3
"""tr_C10_eigensym.py — plug-in translator: the angle -> rotation builders of include/romea_core_common/math/EulerAngles.hpp
(templates, instantiated at double), regenerated from the clang AST by the symbolic evaluator translate/eigensym.py into
coq/gen/SrcEigenC10.v:

  src_eulerAngleToRotation2D     (Matrix2() << cos, -sin, sin, cos).finished()
  src_eulerAnglesToQuaternion    AngleAxis(e(2), UnitZ()) * AngleAxis(e(1), UnitY()) * AngleAxis(e(0), UnitX())
  src_eulerAnglesToRotation3D    Matrix3(eulerAnglesToQuaternion(e))                       (the call is inlined)
  src_quaternionToEulerAngles    rotation3DToEulerAngles(q.normalized().toRotationMatrix())  (rotation3DToEulerAngles = the term of
                                 gen/SrcFunsC10.v)

  src_toPolar / src_polarToCartesian / src_toSpherical / src_sphericalToCartesian
                                 toPolar(CartesianCoordinates2), toCartesian(PolarCoordinates), toSpherical(CartesianCoordinates3),
                                 toCartesian(SphericalCoordinates) of include/romea_core_common/coordinates/*.hpp: template classes
                                 with a base class, getters, static member templates — all inlined

Eigen's own formulas (AngleAxis -> Quaternion, quaternion product, toRotationMatrix, normalized) are part of the evaluator
(eigensym.py, transcribed from Eigen 3.4); what is tied is how the source composes them.  coq/SrcTieC10Eigen.v proves the
generated terms equal to the models of AnglesModel.v.  Failures are reported for C10 only."""
import os
import sys

sys.path.insert(0, os.path.dirname(os.path.abspath(__file__)))
import eigensym  # noqa: E402
from eigensym import Ev, Index, Mat, Quat, Unsupported, emit  # noqa: E402

ME = "tr_C10_eigensym.py"
EA = "include/romea_core_common/math/EulerAngles.hpp"
TU = ("template Eigen::Matrix<double, 2, 2> romea::core::eulerAngleToRotation2D<double>(const double &);\n"
      "template Eigen::Quaternion<double> romea::core::eulerAnglesToQuaternion<double>(const Eigen::Matrix<double, 3, 1> &);\n"
      "template Eigen::Matrix<double, 3, 3> romea::core::eulerAnglesToRotation3D<double>(const Eigen::Matrix<double, 3, 1> &);\n"
      "template Eigen::Matrix<double, 3, 1> romea::core::quaternionToEulerAngles<double>(const Eigen::Quaternion<double> &);\n")
REQ = (EA, "romea::core::", TU)
PC = "include/romea_core_common/coordinates/PolarCoordinates.hpp"
SC = "include/romea_core_common/coordinates/SphericalCoordinates.hpp"
REQ_P = (PC, "romea::core::", "template romea::core::PolarCoordinates<double> romea::core::toPolar<double>(const romea::core::CartesianCoordinates2<double> &);\n"
         "template romea::core::CartesianCoordinates2<double> romea::core::toCartesian<double>(const romea::core::PolarCoordinates<double> &);\n")
REQ_S = (SC, "romea::core::", "template romea::core::SphericalCoordinates<double> romea::core::toSpherical<double>(const romea::core::CartesianCoordinates3<double> &);\n"
         "template romea::core::CartesianCoordinates3<double> romea::core::toCartesian<double>(const romea::core::SphericalCoordinates<double> &);\n")


def unit_coord(loaded, req, name, param_sub, cname, fields, lines):
    """a coordinate conversion; an object result is returned as the tuple of the listed members"""
    objs = loaded[req]
    if isinstance(objs, Unsupported):
        raise objs
    ix = Index()
    ix.add(objs)
    ds = [d for d in ix.find(name, nparams=1)
          if any(c.get("kind") == "TemplateArgument" for c in d.get("inner", []) if isinstance(c, dict))
          and param_sub in d.get("type", {}).get("qualType", "")]
    if len(ds) != 1:
        raise Unsupported("%s<double>(%s): %d instantiations" % (name, param_sub, len(ds)))
    ev = Ev(ix, cname)
    ret = ev.run(ds[0])
    if fields is None:
        if not isinstance(ret, Mat):
            raise Unsupported("%s does not return a vector" % name)
        outs = [("result", ret)]
    else:
        if not isinstance(ret, eigensym.Obj) or sorted(ret.fields) != sorted(fields):
            raise Unsupported("%s returns %s" % (name, sorted(ret.fields) if isinstance(ret, eigensym.Obj) else type(ret).__name__))
        outs = [(f, ret.fields[f]) for f in fields]
    text, _ = emit(ev, cname, outs, "%s: %s<double>(%s)" % (req[0], name, param_sub))
    lines.append(text)


def unit(ix, name, cname, kind, known, lines):
    ds = [d for d in ix.find(name, nparams=1)
          if any(c.get("kind") == "TemplateArgument" for c in d.get("inner", []) if isinstance(c, dict))]
    if len(ds) != 1:
        raise Unsupported("%s<double>: %d instantiations" % (name, len(ds)))
    ev = Ev(ix, cname, known=known)
    ret = ev.run(ds[0])
    if not isinstance(ret, kind):
        raise Unsupported("%s returns a %s" % (name, type(ret).__name__))
    text, _ = emit(ev, cname, [("result", ret)], "%s: %s<double>" % (EA, name))
    lines.append(text)


def generate(gen_dir, repo):
    errors, lines = [], []
    loaded = eigensym.load_many(repo, [REQ, REQ_P, REQ_S])
    objs = loaded[REQ]
    if isinstance(objs, Unsupported):
        errors.append(("C10", "clang: %s" % objs))
        lines.append("(* NOT TRANSLATED: clang failed *)\n")
    else:
        ix = Index()
        ix.add(objs)

        def attempt(what, fn):
            try:
                fn()
                return
            except Unsupported as e:
                errors.append(("C10", "%s: %s" % (what, e)))
            except Exception as e:  # noqa
                errors.append(("C10", "%s: internal error %r" % (what, e)))
            lines.append("(* %s: NOT TRANSLATED — %s *)\n" % (what, str(errors[-1][1]).replace("*)", "* )").replace("(*", "( *")[:300]))
        attempt("src_eulerAngleToRotation2D", lambda: unit(ix, "eulerAngleToRotation2D", "src_eulerAngleToRotation2D", Mat, None, lines))
        attempt("src_eulerAnglesToQuaternion", lambda: unit(ix, "eulerAnglesToQuaternion", "src_eulerAnglesToQuaternion", Quat, None, lines))
        attempt("src_eulerAnglesToRotation3D", lambda: unit(ix, "eulerAnglesToRotation3D", "src_eulerAnglesToRotation3D", Mat, None, lines))

        def q2e():
            known = {"rotation3DToEulerAngles": eigensym.known_from_gen(gen_dir, "SrcFunsC10.v", "src_rotation3DToEulerAngles")}
            unit(ix, "quaternionToEulerAngles", "src_quaternionToEulerAngles", Mat, known, lines)
        attempt("src_quaternionToEulerAngles", q2e)
    def attempt2(what, fn):
        try:
            fn()
            return
        except Unsupported as e:
            errors.append(("C10", "%s: %s" % (what, e)))
        except Exception as e:  # noqa
            errors.append(("C10", "%s: internal error %r" % (what, e)))
        lines.append("(* %s: NOT TRANSLATED — %s *)\n" % (what, str(errors[-1][1]).replace("*)", "* )").replace("(*", "( *")[:300]))
    attempt2("src_toPolar", lambda: unit_coord(loaded, REQ_P, "toPolar", "CartesianCoordinates2<double>", "src_toPolar", ["range_", "azimut_"], lines))
    attempt2("src_polarToCartesian", lambda: unit_coord(loaded, REQ_P, "toCartesian", "PolarCoordinates<double>", "src_polarToCartesian", None, lines))
    attempt2("src_toSpherical", lambda: unit_coord(loaded, REQ_S, "toSpherical", "CartesianCoordinates3<double>", "src_toSpherical",
                                                   ["range_", "azimut_", "elevation_"], lines))
    attempt2("src_sphericalToCartesian", lambda: unit_coord(loaded, REQ_S, "toCartesian", "SphericalCoordinates<double>", "src_sphericalToCartesian",
                                                            None, lines))
    text = eigensym.HEAD % (ME, "From Romea.gen Require Import SrcFunsC10.") + "\n".join(lines) + "\n"
    return text, errors


def generate_to(gen_dir, repo="/repo"):
    text, errors = eigensym.cached_generate("C10", repo, gen_dir, {"src": [], "gen": ["SrcFunsC10.v"]}, lambda: generate(gen_dir, repo))
    eigensym.write_if_changed(os.path.join(gen_dir, "SrcEigenC10.v"), text)
    return errors


if __name__ == "__main__":
    here = os.path.dirname(os.path.abspath(__file__))
    t, e = generate(os.path.join(here, "..", "coq", "gen"), os.environ.get("VERIF_REPO", "/repo"))
    print(t)
    for x in e:
        print("%s: %s" % x, file=sys.stderr)
    sys.exit(2 if e else 0)
