#!/usr/bin/env python3
"""tr_C09_normals.py — plug-in translator for C09: src/pointset/algorithms/NormalAndCurvatureEstimation.cpp -> coq/gen/SrcNormals.v.

Regenerates, from the clang JSON AST of the current sources, Gallina terms over the numeric dictionary for the members of
NormalAndCurvatureEstimation<PointType> in the instantiations Eigen::Vector2d (V2), Eigen::Vector3d (V3),
HomogeneousCoordinates2d (H2), HomogeneousCoordinates3d (H3):

  src_flip_<I>          the instantiation of the file-local template flipNormalTowardOriginCoordinate(point, normal)
  src_reliability_<I>   the explicit specialisation of computeNormalReliability()
  src_planeEstimation_<I>                 planeEstimation_(points, pointsKdTree, pointIndex)
  src_compute_kd_n_<I> / _nc_ / _ncr_     compute(points, pointsKdTree, normals [, curvatures [, normalsReliability]])
  src_compute_n_<I> / _nc_ / _ncr_        compute(points, normals [, curvatures [, normalsReliability]])   (own kd-tree)

It subclasses the per-axis interpreter of tr_C20_boxes.py (a fixed-size Eigen vector / matrix = the tuple of its scalar
components; see the docstring there) and adds what this file needs (everything else is refused — fail closed, for C09 only):

  * ABSTRACT OBJECTS, as coq/NormalsModel.v has them: the kd-tree is a value of an abstract type K;
    `tree.findNearestNeighbors(p, k, idx, dist)` assigns `kd_find tree p k : list Z` to idx (dist becomes opaque: any later
    read is refused); `KdTree<P> tree(points)` is `kd_build points_size points`.  `Eigen::SelfAdjointEigenSolver` is the
    ORACLE `eig : list (list T) -> list T * list (list T)` (matrix as list of rows -> eigenvalues, eigenvectors as list of
    COLUMNS): `.compute(M)` stores `eig M`, `.eigenvalues()` / `.eigenvectors()` read it component by component
    (eig_val / eig_vec of coq/SrcNormalsLib.v).  No contract is assumed here: it stays a hypothesis of the theorems.
  * a std::vector of points / normals is a function `Z -> tuple of T` (+ `<name>_size : Z` for .size()), a std::vector<Scalar>
    a function `Z -> T`, a std::vector<size_t> a `list Z` read with znth; an element write is arr_set (coq/SrcEigen.v);
    integers (size_t) are UNBOUNDED Z with + - * (wrap-around is not modelled);
  * `for (size_t i = 0 [, N = e]; i < bound; ++i) body` with a run-time bound is ONE
    `fold_left (fun st i => ..) (zrange bound) init` whose state is the tuple of everything the body assigns (locals,
    members, arrays); a compile-time bound is unrolled;
  * Eigen: outer product (column * row: the plain product of the components), `.block(i,j,r,c)` / `.head<k>()` / `.head(k)`
    with compile-time arguments (also as assignment targets), `.dot` = eig_dot, `.norm` = eig_norm, `.sum` = eig_sum (trusted
    reading of the reductions: accumulated from the left starting at zero, as in the hand-written model), `.data()` as a
    column-major pointer for `std::copy(first, first + k, dest.data())` with compile-time k;
  * `if (c) {..} [else {..}]` merges the scalar components the branches change (`if c then a else b`);
  * calls of other members / of the file-local function template are CALLS of the definitions generated before (arguments =
    the parameters then the members the callee reads; results = what it returns / writes), so that the tie lemmas compose.

Signature of a generated definition: the oracles it uses (kd_find, kd_build, eig), the parameters flattened in declaration
order, then the data members it reads before writing them, in declaration order.  Result: the returned value, the non-const
reference parameters it writes, the members it writes (declaration order), as one flat tuple."""
import os
import re
import sys
from collections import OrderedDict

HERE = os.path.dirname(os.path.abspath(__file__))
if HERE not in sys.path:
    sys.path.insert(0, HERE)
import srcfuns  # noqa: E402
from srcfuns import Unsupported  # noqa: E402
import tr_C20_boxes as B  # noqa: E402  (library use only: Ctx, V, M, S, flat helpers)
from tr_C20_boxes import V, M, S, zl  # noqa: E402

PROP = "C09"
SRC = "src/pointset/algorithms/NormalAndCurvatureEstimation.cpp"
CLS = "NormalAndCurvatureEstimation"
INSTS = [("V2", "Eigen::Matrix<double, 2, 1", "Eigen::Vector2d"), ("V3", "Eigen::Matrix<double, 3, 1", "Eigen::Vector3d"),
         ("H2", "HomogeneousCoordinates2<double>", "romea::core::HomogeneousCoordinates2d"),
         ("H3", "HomogeneousCoordinates3<double>", "romea::core::HomogeneousCoordinates3d")]
EXTRA_TU = "namespace s09tie {\ntemplate<unsigned long K> struct Val {};\n" + "".join(
    "Val<romea::core::%s<%s>::CARTESIAN_DIM> %s_CARTESIAN_DIM;\nVal<romea::core::%s<%s>::POINT_SIZE> %s_POINT_SIZE;\n"
    % (CLS, cxx, tag, CLS, cxx, tag) for tag, _, cxx in INSTS) + "}\n"
RE_HOMOG = re.compile(r"(?:romea::core::)?HomogeneousCoordinates([23])<double>")
EIGRES = "(list T * list (list T))%type"
COMPUTE_NAMES = {(3, True): "compute_kd_n", (4, True): "compute_kd_nc", (5, True): "compute_kd_ncr",
                 (2, False): "compute_n", (3, False): "compute_nc", (4, False): "compute_ncr"}


def tup(xs):
    return xs[0] if len(xs) == 1 else "(" + ", ".join(xs) + ")"


def pat(xs):
    return xs[0] if len(xs) == 1 else "'(" + ", ".join(xs) + ")"


def tuple_type(n):
    return "T" if n == 1 else "(" + " * ".join(["T"] * n) + ")%type"


def colmajor(m):
    return [m.e[i][j] for j in range(m.c) for i in range(m.r)]


# ------------------------------------------------------------------------------------------------ shapes and flattening
def pieces(v):
    """[(term, coq type)] of a value, in the order used for parameters, results and loop states"""
    if v.k == "s":
        return [(v.t, "T")]
    if v.k == "z":
        return [(v.t, "Z")]
    if v.k == "m":
        return [(x, "T") for row in v.e for x in row]
    if v.k == "varr":
        return [(v.t, "(Z -> %s)" % tuple_type(v.r))]
    if v.k == "sarr":
        return [(v.t, "(Z -> T)")]
    if v.k == "zlist":
        return [(v.t, "(list Z)")]
    if v.k == "eigs":
        return [(v.t, EIGRES)]
    if v.k == "kd":
        return [(v.t, "K")]
    if v.k == "opaque":
        return []
    raise Unsupported("a value of kind %s cannot be passed / returned / carried by a loop" % v.k)


def rebuild(v, names):
    """a value of the same shape as v whose pieces are the given names"""
    if v.k in ("s",):
        return S(names[0])
    if v.k == "z":
        return V("z", const=None, t=names[0])
    if v.k == "m":
        return M(v.r, v.c, [[names[i * v.c + j] for j in range(v.c)] for i in range(v.r)], False)
    if v.k == "varr":
        return V("varr", t=names[0], r=v.r, size=v.size)
    if v.k in ("sarr", "zlist", "kd"):
        return V(v.k, t=names[0])
    if v.k == "eigs":
        return V("eigs", t=names[0], n=v.n)
    if v.k == "opaque":
        return v
    raise Unsupported("kind %s" % v.k)


def same(a, b):
    return a.k == b.k and [t for t, _ in pieces(a)] == [t for t, _ in pieces(b)]


class HeadProxy(dict):
    """assignment target `v.head<k>()`: writing the k leading components of the vector stored in d[key]"""
    def __init__(self, d, key, cur, k):
        dict.__init__(self)
        self.d, self.key, self.cur, self.k = d, key, cur, k
        dict.__setitem__(self, "h", M(k, 1, [list(r) for r in cur.e[:k]], cur.arr))

    def __setitem__(self, key, val):
        self.d[self.key] = M(self.cur.r, 1, [list(r) for r in val.e] + [list(r) for r in self.cur.e[self.k:]], False)
        dict.__setitem__(self, key, val)


class Sig:
    def __init__(self, name, oracles, ins, outs):
        self.name, self.oracles, self.ins, self.outs = name, oracles, ins, outs


class Reg:
    """what the translation unit gives: the class instantiation, the constants, the generated definitions so far"""
    def __init__(self, tag, cls, dim, size, flips, relis):
        self.tag, self.cls, self.dim, self.size = tag, cls, dim, size
        self.flips, self.relis = flips, relis
        self.vals = {}
        self.sigs = {}          # decl id -> Sig

    def get(self, name, args):
        raise Unsupported("class %s<%s>" % (name, args))


class Ctx(B.Ctx):
    ORACLE_TYPES = OrderedDict([("kd_find", None), ("kd_build", None), ("eig", "(list (list T) -> %s)" % EIGRES)])

    def __init__(self, reg, this, depth=0):
        B.Ctx.__init__(self, reg, reg.cls, this, depth)
        self.readonly = set()
        self.elem_memo = {}

    # ---------- types
    def shape(self, ty, what=""):
        t = ty.get("desugaredQualType") or ty.get("qualType", "")
        t = re.sub(r"\bconst\b", "", t).replace("&", "").strip()
        t = re.sub(r"<\s+", "<", re.sub(r"\s+", " ", t))
        m = RE_HOMOG.fullmatch(t)
        if m:
            return ("m", int(m.group(1)) + 1, 1)
        m = re.match(r"^std::vector<(.*?), Eigen::aligned_allocator<", t)
        if m:
            e = self.shape({"qualType": m.group(1)}, what)
            if e[0] == "m" and e[2] == 1:
                return ("varr", e[1])
        if re.match(r"^std::vector<double(, std::allocator<double>\s*)?>$", t):
            return ("sarr",)
        if re.match(r"^std::vector<unsigned long(, std::allocator<unsigned long>\s*)?>$", t):
            return ("zlist",)
        m = re.match(r"^Eigen::SelfAdjointEigenSolver<Eigen::Matrix<double, (\d+), (\d+)", t)
        if m and m.group(1) == m.group(2):
            return ("eigs", int(m.group(1)))
        if re.match(r"^(romea::core::)?KdTree<", t):
            return ("kd",)
        m = re.match(r"^Eigen::(?:Vector)?Block<Eigen::Matrix<double, \d+, \d+, \d+>, (\d+)(?:, (\d+))?", t)
        if m:
            return ("m", int(m.group(1)), int(m.group(2) or 1))
        return B.Ctx.shape(self, ty, what)

    def symbolic(self, shape, name):
        if shape[0] == "varr":
            return V("varr", t=name, r=shape[1], size=name + "_size")
        if shape[0] in ("sarr", "zlist", "kd"):
            return V(shape[0], t=name)
        if shape[0] == "eigs":
            return V("eigs", t=name, n=shape[1])
        if shape[0] == "z":
            return V("z", const=None, t=name)
        return B.Ctx.symbolic(self, shape, name)

    def fresh(self, base):
        self.ssa[0] += 1
        return "%s_%d" % (re.sub(r"[^A-Za-z0-9_]", "_", base).rstrip("_"), self.ssa[0])

    def scal(self, v):
        if v.k == "z" and v.t is None:
            raise Unsupported("an integer whose value is not known is used as a scalar")
        return B.Ctx.scal(self, v)

    # ---------- reading array elements
    def read_elem(self, arr, idx):
        if idx.k != "z" or idx.t is None:
            raise Unsupported("array index")
        if arr.k == "varr":
            if (arr.t, idx.t) not in self.elem_memo:
                nm = self.fresh("e_" + arr.t)
                comps = ["%s_%d" % (nm, i) for i in range(arr.r)]
                self.lets.append("let %s := (%s %s) in" % (pat(comps), arr.t, idx.t))
                self.elem_memo[(arr.t, idx.t)] = comps
            return M(arr.r, 1, [[c] for c in self.elem_memo[(arr.t, idx.t)]])
        if arr.k == "sarr":
            return S("(%s %s)" % (arr.t, idx.t))
        if arr.k == "zlist":
            return V("z", const=None, t="(znth %s %s)" % (arr.t, idx.t))
        raise Unsupported("indexing a %s" % arr.k)

    def is_index(self, n):
        """(array node, index node) when n is `a[i]` / `a(i)` on a std::vector"""
        n = self.strip(n)
        if n.get("kind") == "CXXOperatorCallExpr" and self.callee_name(n) in ("operator[]",) and len(n["inner"]) == 3:
            try:
                sh = self.shape(self.strip(n["inner"][1]).get("type", {}))
            except Unsupported:
                return None
            if sh[0] in ("varr", "sarr", "zlist"):
                return n["inner"][1], n["inner"][2]
        return None

    # ---------- expressions
    def binop(self, op, a, b):
        if a.k == "z" and b.k == "z" and not (a.const is not None and b.const is not None):
            if a.t is None or b.t is None:
                raise Unsupported("arithmetic on an integer whose value is not known")
            if op in ("+", "-", "*"):
                return V("z", const=None, t="(%s %s %s)%%Z" % (a.t, op, b.t))
            cz = {"<": "(Z.ltb %s %s)" % (a.t, b.t), "<=": "(Z.leb %s %s)" % (a.t, b.t), ">": "(Z.ltb %s %s)" % (b.t, a.t),
                  ">=": "(Z.leb %s %s)" % (b.t, a.t)}
            if op in cz:
                return V("b", t=cz[op])
            raise Unsupported("integer operator %s" % op)
        if a.k == "m" and b.k == "m" and op == "*" and not a.arr and not b.arr:
            if a.c != b.r:
                raise Unsupported("matrix product shapes")
            if a.c != 1:
                raise Unsupported("matrix product with an inner dimension > 1 (evaluation order of Eigen's product)")
            return M(a.r, b.c, [["(nmul N %s %s)" % (a.e[i][0], b.e[0][j]) for j in range(b.c)] for i in range(a.r)])
        return B.Ctx.binop(self, op, a, b)

    def expr(self, n):
        n = self.strip(n)
        k = n.get("kind")
        if k == "DeclRefExpr":
            nm = n["referencedDecl"]["name"]
            if nm in self.locals:
                return self.locals[nm]
            key = "%s_%s" % (self.reg.tag, nm)
            if key in self.reg.vals:
                return V("z", const=self.reg.vals[key], t=zl(self.reg.vals[key]))
            raise Unsupported("reference to %s" % nm)
        if k == "UnaryOperator" and n.get("opcode") == "-":
            a = self.expr(n["inner"][0])
            if a.k == "z" and a.const is not None:
                return V("z", const=-a.const, t=zl(-a.const))
            if a.k == "z":
                raise Unsupported("negation of a run-time integer")
            if a.k == "m":
                return M(a.r, a.c, [["(nneg N %s)" % x for x in row] for row in a.e], a.arr)
            return S("(nneg N %s)" % self.scal(a))
        if k == "MemberExpr":
            v = B.Ctx.expr(self, n)
            if v.k == "opaque":
                raise Unsupported("read of %s after the kd-tree query wrote it (not modelled)" % n.get("name"))
            return v
        return B.Ctx.expr(self, n)

    def opcall(self, n):
        ix = self.is_index(n)
        if ix is not None:
            return self.read_elem(self.expr(ix[0]), self.expr(ix[1]))
        return B.Ctx.opcall(self, n)

    def real_args(self, n):
        return [a for a in n["inner"][1:] if a.get("kind") != "CXXDefaultArgExpr"]

    def membercall(self, n):
        callee = self.strip(n["inner"][0])
        if callee.get("kind") != "MemberExpr":
            raise Unsupported("member call shape")
        nm = callee.get("name")
        args = self.real_args(n)
        base = self.strip(callee["inner"][0])
        if base.get("kind") == "CXXThisExpr":
            return self.call_generated(callee.get("referencedMemberDecl"), nm, args)
        obj = self.expr(base)
        if obj.k == "varr" and nm == "size" and not args:
            return V("z", const=None, t=obj.size)
        if obj.k in ("sarr", "zlist") and nm == "size":
            raise Unsupported("size() of a std::vector of scalars / indexes")
        if obj.k == "eigs":
            if obj.t is None:
                raise Unsupported("eigen-solver read before compute()")
            if nm == "eigenvalues" and not args:
                return M(obj.n, 1, [["(eig_val N %s %d)" % (obj.t, i)] for i in range(obj.n)])
            if nm == "eigenvectors" and not args:
                return M(obj.n, obj.n, [["(eig_vec N %s %d %d)" % (obj.t, i, j) for j in range(obj.n)] for i in range(obj.n)])
            raise Unsupported("SelfAdjointEigenSolver::%s" % nm)
        if obj.k == "m":
            ty = n.get("type", {})
            tq = ty.get("desugaredQualType") or ty.get("qualType", "")
            if nm == "head" and not args:
                m = re.search(r"VectorBlock<.*, (\d+)>$", tq.replace("const ", "").strip())
                if not m or obj.c != 1 or int(m.group(1)) > obj.r:
                    raise Unsupported("head<k>() size")
                k = int(m.group(1))
                return M(k, 1, [list(obj.e[r]) for r in range(k)], obj.arr)
            if nm == "block" and len(args) == 4:
                iv = [self.const_int(a) for a in args]
                if any(x is None for x in iv):
                    raise Unsupported("block() with run-time arguments")
                i0, j0, r, c = iv
                if i0 < 0 or j0 < 0 or i0 + r > obj.r or j0 + c > obj.c:
                    raise Unsupported("block() out of range")
                return M(r, c, [[obj.e[i0 + i][j0 + j] for j in range(c)] for i in range(r)], obj.arr)
            if nm == "dot" and len(args) == 1:
                o = self.expr(args[0])
                if o.k != "m" or o.c != 1 or obj.c != 1 or o.r != obj.r:
                    raise Unsupported("dot() operands")
                return S("(eig_dot N [%s] [%s])" % ("; ".join(B.flat(obj)), "; ".join(B.flat(o))))
            if nm == "norm" and not args:
                if obj.c != 1:
                    raise Unsupported("norm() of a matrix")
                return S("(eig_norm N [%s])" % "; ".join(B.flat(obj)))
            if nm == "squaredNorm" and not args:
                if obj.c != 1:
                    raise Unsupported("squaredNorm() of a matrix")
                return S("(eig_dot N [%s] [%s])" % ("; ".join(B.flat(obj)), "; ".join(B.flat(obj))))
            if nm == "sum" and not args:
                if obj.c != 1 and obj.r != 1:
                    raise Unsupported("sum() of a matrix")
                return S("(eig_sum N [%s])" % "; ".join(B.flat(obj)))
            if nm == "data":
                raise Unsupported("data() outside std::copy")
        return B.Ctx.membercall(self, n)

    def staticcall(self, n):
        nm = self.callee_name(n)
        ref = self.strip(n["inner"][0]).get("referencedDecl", {})
        args = n["inner"][1:]
        if nm == "copy" and len(args) == 3 and ref.get("kind") == "FunctionDecl":
            return self.std_copy(args)
        fkey = ("fn", nm, re.sub(r"\s+", "", ref.get("type", {}).get("qualType", "")))
        if ref.get("kind") == "FunctionDecl" and fkey in self.reg.sigs:      # (node ids differ between clang runs: matched by name and type)
            return self.call_sig(self.reg.sigs[fkey], args, None)
        if nm in ("Zero", "Constant", "Ones"):
            ty = n.get("type", {})
            tq = ty.get("desugaredQualType") or ty.get("qualType", "")
            if not B.RE_MAT.search(tq):
                raise Unsupported("shape of %s()" % nm)
        return B.Ctx.staticcall(self, n)

    def construct(self, n):
        args = [c for c in n.get("inner", []) if isinstance(c, dict) and c.get("kind") != "CXXDefaultArgExpr"]
        try:
            sh = self.shape(n.get("type", {}))
        except Unsupported:
            sh = None
        if sh and sh[0] == "kd":
            if len(args) != 1:
                raise Unsupported("kd-tree construction")
            p = self.expr(args[0])
            if p.k != "varr":
                raise Unsupported("kd-tree of something else than a point set")
            return V("kd", t="(kd_build %s %s)" % (p.size, p.t))
        if sh and sh[0] == "m" and len(args) == 1:
            v = self.expr(args[0])
            if v.k == "m" and (v.r, v.c) == (sh[1], sh[2]):
                return M(v.r, v.c, v.e, False)
            raise Unsupported("construction of a %dx%d matrix from a %s" % (sh[1], sh[2], v.k))
        return B.Ctx.construct(self, n)

    # ---------- pointers (std::copy)
    def ptr(self, n):
        n = self.strip(n)
        if n.get("kind") == "BinaryOperator" and n.get("opcode") == "+":
            p = self.ptr(n["inner"][0])
            k = self.const_int(n["inner"][1])
            if k is None:
                raise Unsupported("pointer + run-time offset")
            return (p[0], p[1], p[2] + k)
        if n.get("kind") == "CXXMemberCallExpr":
            callee = self.strip(n["inner"][0])
            if callee.get("kind") == "MemberExpr" and callee.get("name") == "data" and not self.real_args(n):
                base = callee["inner"][0]
                v = self.lv_read(base)
                if v.k != "m":
                    raise Unsupported("data() of a %s" % v.k)
                return (base, v, 0)
        raise Unsupported("pointer expression")

    def std_copy(self, args):
        first, last, dest = (self.ptr(a) for a in args)
        if B.flat(first[1]) != B.flat(last[1]) or (first[1].r, first[1].c) != (last[1].r, last[1].c):
            raise Unsupported("std::copy whose range is not within one matrix")
        cnt = last[2] - first[2]
        src = colmajor(first[1])
        dst = colmajor(dest[1])
        if cnt < 0 or first[2] < 0 or first[2] + cnt > len(src) or dest[2] < 0 or dest[2] + cnt > len(dst):
            raise Unsupported("std::copy range out of bounds")
        dst[dest[2]:dest[2] + cnt] = src[first[2]:first[2] + cnt]
        d = dest[1]
        self.lv_write(dest[0], M(d.r, d.c, [[dst[j * d.r + i] for j in range(d.c)] for i in range(d.r)], False))
        return V("void")

    # ---------- lvalues
    def lvalue(self, n):
        n = self.strip(n)
        if n.get("kind") == "CXXMemberCallExpr":
            callee = self.strip(n["inner"][0])
            if callee.get("kind") == "MemberExpr" and callee.get("name") == "head":
                d, key, cur = self.lvalue(callee["inner"][0])
                if cur.k != "m" or cur.c != 1:
                    raise Unsupported("head() of a %s as assignment target" % cur.k)
                args = self.real_args(n)
                if args:
                    k = self.const_int(args[0])
                else:
                    ty = n.get("type", {})
                    m = re.search(r"VectorBlock<.*, (\d+)>$", (ty.get("desugaredQualType") or ty.get("qualType", "")).strip())
                    k = int(m.group(1)) if m else None
                if k is None or not 0 <= k <= cur.r:
                    raise Unsupported("head() size")
                hp = HeadProxy(d, key, cur, k)
                return hp, "h", hp["h"]
        return B.Ctx.lvalue(self, n)

    def lv_read(self, n):
        ix = self.is_index(n)
        if ix is not None:
            return self.read_elem(self.expr(ix[0]), self.expr(ix[1]))
        return self.lvalue(n)[2]

    def lv_write(self, n, val):
        ix = self.is_index(n)
        if ix is not None:
            d, key, arr = self.lvalue(ix[0])
            idx = self.expr(ix[1])
            if idx.k != "z" or idx.t is None:
                raise Unsupported("array index")
            if arr.k == "varr":
                if val.k != "m" or val.c != 1 or val.r != arr.r:
                    raise Unsupported("element of another shape")
                rhs = tup(B.flat(val))
            elif arr.k == "sarr":
                rhs = self.scal(val)
            else:
                raise Unsupported("write into a %s" % arr.k)
            nm = self.fresh(key)
            self.lets.append("let %s := (arr_set %s %s %s) in" % (nm, arr.t, idx.t, rhs))
            d[key] = rebuild(arr, [nm])
            return
        d, key, cur = self.lvalue(n)
        if cur.k != val.k or (cur.k == "m" and (cur.r, cur.c) != (val.r, val.c)):
            raise Unsupported("write of a value of another shape")
        d[key] = val

    def assign(self, target, op, val):
        ix = self.is_index(target)
        if ix is not None:
            if op != "=":
                val = self.binop(op[0], self.lv_read(target), val)
            return self.lv_write(target, val)
        d, key, cur = self.lvalue(target)
        if cur.k == "z":
            raise Unsupported("assignment to an integer")
        if cur.k in ("eigs", "varr", "sarr", "zlist", "kd", "opaque"):
            raise Unsupported("assignment to a %s" % cur.k)
        return B.Ctx.assign(self, target, op, val)

    # ---------- calls of generated definitions
    def call_generated(self, decl_id, name, args):
        sig = self.reg.sigs.get(decl_id)
        if sig is None:
            raise Unsupported("call of %s, which is not translated (yet)" % name)
        return self.call_sig(sig, args, self.this)

    def call_sig(self, sig, args, this):
        pars = [a for a in sig.ins if a[0] == "param"]
        if len(pars) != len(args):
            raise Unsupported("argument count of %s" % sig.name)
        terms = list(sig.oracles)
        for (_, i, shp, byref), a in zip(pars, args):
            v = self.lv_read(a) if byref else self.expr(a)
            v = self.coerce2(v, shp, sig.name)
            terms += [t for t, _ in pieces(v)]
            if v.k == "varr" and shp[-1] == "sized":
                terms.append(v.size)
        for kind, nm, shp in [a for a in sig.ins if a[0] == "member"]:
            v = this.f[nm]
            if v.k == "opaque" or (v.k == "eigs" and v.t is None):
                raise Unsupported("%s reads %s, which has no modelled value here" % (sig.name, nm))
            terms += [t for t, _ in pieces(v)]
        outs, patnames = [], []
        for o in sig.outs:
            proto = o[-1]
            names = [self.fresh("r_ret" if o[0] == "ret" else "r_" + t) for t, _ in pieces(proto)]
            patnames += names
            outs.append((o, rebuild(proto, names)))
        call = "(%s)" % " ".join([sig.name] + terms)      # (N and K are section variables)
        if not patnames:
            raise Unsupported("%s has no effect" % sig.name)
        self.lets.append("let %s := %s in" % (pat(patnames), call))
        ret = V("void")
        for o, v in outs:
            if o[0] == "ret":
                ret = v
            elif o[0] == "param":
                self.lv_write(args[o[1]], v)
            else:
                this.f[o[1]] = v
        return ret

    def coerce2(self, v, shp, what):
        if shp[0] == "m":
            if v.k != "m" or (v.r, v.c) != (shp[1], shp[2]):
                raise Unsupported("%s: argument shape" % what)
        elif shp[0] != v.k:
            raise Unsupported("%s: argument kind %s where %s is expected" % (what, v.k, shp[0]))
        return v

    # ---------- statements
    def stmt(self, st):
        k = st.get("kind")
        if self.ret is not None:
            raise Unsupported("statement after return")
        if k == "DeclStmt":
            for v in st.get("inner", []):
                self.decl(v)
            return
        if k == "IfStmt":
            return self.if_stmt(st)
        s = self.strip(st)
        if s.get("kind") == "CXXMemberCallExpr":
            callee = self.strip(s["inner"][0])
            if callee.get("kind") == "MemberExpr":
                base = self.strip(callee["inner"][0])
                nm = callee.get("name")
                if base.get("kind") == "CXXThisExpr":
                    self.call_generated(callee.get("referencedMemberDecl"), nm, self.real_args(s))
                    return
                try:
                    bsh = self.shape(base.get("type", {}))
                except Unsupported:
                    bsh = None
                if bsh and bsh[0] == "kd" and nm == "findNearestNeighbors":
                    return self.kd_query(base, self.real_args(s))
                if bsh and bsh[0] == "eigs" and nm == "compute":
                    return self.eig_compute(base, self.real_args(s))
        if s.get("kind") == "CallExpr":
            v = self.staticcall(s)
            if v.k != "void":
                raise Unsupported("result of a call is dropped")
            return
        return B.Ctx.stmt(self, st)

    def decl(self, v):
        if v.get("kind") in ("TypeAliasDecl", "TypedefDecl"):
            self.alias[v["name"]] = v["type"]
            return
        if v.get("kind") != "VarDecl":
            raise Unsupported("declaration %s" % v.get("kind"))
        init = [c for c in v.get("inner", []) if isinstance(c, dict) and c.get("kind") not in ("TypeAliasDecl",)]
        if not init:
            raise Unsupported("uninitialised local %s" % v.get("name"))
        try:
            want = self.shape(v.get("type", {}), v.get("name"))
        except Unsupported:
            want = None
        if want and want[0] == "z":
            try:
                val = self.expr(init[0])
            except Unsupported:
                val = V("z", const=None, t=None)          # e.g. a constexpr copied from a traits class: usable as a template argument only
            if val.k != "z":
                raise Unsupported("integer local %s initialised with a %s" % (v.get("name"), val.k))
            self.locals[v["name"]] = val
            self.readonly.add(v["name"])
            return
        val = self.expr(init[0])
        if want is None:
            raise Unsupported("local %s of type %s" % (v.get("name"), v.get("type", {}).get("qualType", "?")[:60]))
        if want[0] == "s" and val.k == "z":
            val = S(self.scal(val))                      # Scalar x = <integer>: the conversion nofZ
        val = self.coerce2(val, want, v["name"])
        if val.k == "s":
            nm = self.fresh("l_" + v["name"])
            self.lets.append("let %s := %s in" % (nm, val.t))
            val = S(nm)
        elif val.k == "m":
            val = M(val.r, val.c, val.e, False)
        elif val.k not in ("kd",):
            raise Unsupported("local %s of kind %s" % (v.get("name"), val.k))
        self.locals[v["name"]] = val
        qt = v.get("type", {}).get("qualType", "")
        if qt.rstrip().endswith("&") or re.match(r"^\s*const\b", qt):
            self.readonly.add(v["name"])

    def kd_query(self, base, args):
        if len(args) != 4:
            raise Unsupported("findNearestNeighbors arguments")
        tree = self.expr(base)
        p = self.expr(args[0])
        k = self.expr(args[1])
        if tree.k != "kd" or p.k != "m" or p.c != 1 or k.k != "z" or k.t is None:
            raise Unsupported("findNearestNeighbors arguments")
        d, key, cur = self.lvalue(args[2])
        if cur.k != "zlist":
            raise Unsupported("findNearestNeighbors: index output")
        nm = self.fresh(key)
        self.lets.append("let %s := (kd_find %s %s %s) in" % (nm, tree.t, tup(B.flat(p)), k.t))
        d[key] = V("zlist", t=nm)
        d2, key2, cur2 = self.lvalue(args[3])
        if cur2.k not in ("sarr", "opaque"):
            raise Unsupported("findNearestNeighbors: distance output")
        d2[key2] = V("opaque")
        self.kd_point = p.r

    def eig_compute(self, base, args):
        if len(args) != 1:
            raise Unsupported("SelfAdjointEigenSolver::compute arguments")
        d, key, cur = self.lvalue(base)
        mat = self.expr(args[0])
        if cur.k != "eigs" or mat.k != "m" or mat.r != mat.c or mat.r != cur.n:
            raise Unsupported("SelfAdjointEigenSolver::compute on a %s" % mat.k)
        nm = self.fresh(key)
        self.lets.append("let %s := (eig [%s]) in" % (nm, "; ".join("[%s]" % "; ".join(r) for r in mat.e)))
        d[key] = V("eigs", t=nm, n=cur.n)

    # ---------- conditionals
    def snapshot(self):
        def cp(d):
            o = OrderedDict()
            for k2, v in d.items():
                o[k2] = V("obj", cls=v.cls, f=cp(v.f)) if (v is not None and v.k == "obj") else v
            return o
        return cp(self.locals), (cp(self.this.f) if self.this is not None else None)

    def restore(self, snap):
        self.locals = dict(snap[0])
        if self.this is not None:
            self.this.f.clear()
            self.this.f.update(snap[1])

    def if_stmt(self, st):
        parts = [c for c in st.get("inner", []) if isinstance(c, dict)]
        if len(parts) not in (2, 3) or st.get("hasInit") or st.get("hasVar"):
            raise Unsupported("if statement shape")
        c = self.expr(parts[0])
        if c.k == "cb":
            if c.v:
                self.stmt(parts[1])
            elif len(parts) == 3:
                self.stmt(parts[2])
            return
        if c.k != "b":
            raise Unsupported("condition of kind %s" % c.k)
        cn = self.fresh("c")
        self.lets.append("let %s := %s in" % (cn, c.t))
        pre = self.snapshot()
        self.stmt(parts[1])
        if self.ret is not None:
            raise Unsupported("return inside a conditional")
        s1 = self.snapshot()
        self.restore(pre)
        if len(parts) == 3:
            self.stmt(parts[2])
            if self.ret is not None:
                raise Unsupported("return inside a conditional")
        s2 = self.snapshot()
        self.restore(pre)
        for which, (d, d1, d2) in (("local", (self.locals, s1[0], s2[0])),
                                   ("member", (self.this.f if self.this is not None else {}, s1[1] or {}, s2[1] or {}))):
            for key in list(d.keys()):
                v0, v1, v2 = d[key], d1.get(key), d2.get(key)
                if v1 is None or v2 is None:
                    continue
                if v0.k in ("obj", "cb") or (v0.k == "z"):
                    continue
                if same(v1, v2):
                    d[key] = v1
                    continue
                if v1.k != v2.k or v1.k not in ("s", "m"):
                    raise Unsupported("the branches of a conditional give different %s values to %s" % (v1.k, key))
                if v1.k == "s":
                    nm = self.fresh("x_" + key)
                    self.lets.append("let %s := (if %s then %s else %s) in" % (nm, cn, v1.t, v2.t))
                    d[key] = S(nm)
                else:
                    e = [[a if a == b else "(if %s then %s else %s)" % (cn, a, b) for a, b in zip(r1, r2)] for r1, r2 in zip(v1.e, v2.e)]
                    d[key] = M(v1.r, v1.c, e, False)

    # ---------- loops
    def for_stmt(self, st):
        init, _, cond, inc, body = (st["inner"] + [None] * 5)[:5]
        if not init or init.get("kind") != "DeclStmt" or not cond or not inc or not body:
            raise Unsupported("for statement shape")
        decls = list(init.get("inner", []))
        if any(v.get("kind") != "VarDecl" for v in decls) or not 1 <= len(decls) <= 2:
            raise Unsupported("for-init declaration")
        var = decls[0]["name"]
        start = self.const_int(decls[0]["inner"][-1]) if decls[0].get("inner") else None
        if start != 0 or not self.is_incr(inc, var):
            raise Unsupported("for loop other than `for (i = 0; i < bound; ++i)`")
        saved = dict(self.locals)
        saved_ro = set(self.readonly)
        if len(decls) == 2:
            self.locals[decls[1]["name"]] = self.expr(decls[1]["inner"][-1])
            self.readonly.add(decls[1]["name"])
        c = self.strip(cond)
        if c.get("kind") != "BinaryOperator" or c.get("opcode") not in ("<", "!="):
            raise Unsupported("for condition")
        lhs = self.strip(c["inner"][0])
        if lhs.get("kind") != "DeclRefExpr" or lhs["referencedDecl"]["name"] != var:
            raise Unsupported("for condition does not test the loop variable")
        bound = self.expr(c["inner"][1])
        if bound.k != "z" or bound.t is None:
            raise Unsupported("for bound")
        if self.mentions_var(body, var, assign_only=True) or (len(decls) == 2 and self.mentions_var(body, decls[1]["name"], assign_only=True)):
            raise Unsupported("the loop body assigns the loop variable / bound")
        if bound.const is not None:
            if bound.const > 16:
                raise Unsupported("loop of %d iterations" % bound.const)
            for i in range(bound.const):
                self.locals[var] = V("z", const=i, t=zl(i))
                self.stmt(body)
        else:
            self.index_fold(var, bound.t, body)
        self.locals = {k2: self.locals[k2] for k2 in self.locals if k2 in saved}
        self.readonly = saved_ro

    def mentions_var(self, n, var, assign_only=False):
        if not isinstance(n, dict):
            return False
        if n.get("kind") in ("BinaryOperator", "CompoundAssignOperator", "UnaryOperator") and \
                n.get("opcode") in ("=", "+=", "-=", "*=", "/=", "++", "--"):
            t = self.strip(n["inner"][0])
            if t.get("kind") == "DeclRefExpr" and t["referencedDecl"]["name"] == var:
                return True
        return any(self.mentions_var(c, var, assign_only) for c in n.get("inner", []))

    def carriers(self):
        out = []
        if self.this is not None:
            for key, v in self.this.f.items():
                if v is not None and v.k in ("s", "m", "varr", "sarr", "zlist", "eigs"):
                    out.append((self.this.f, key, key))
        for key, v in self.locals.items():
            if key not in self.readonly and v.k in ("s", "m", "varr", "sarr", "zlist", "eigs"):
                out.append((self.locals, key, key))
        return out

    def index_fold(self, var, bound_t, body):
        tag = self.fresh("L")
        ivar = "%s_%s" % (var, tag)
        cands = self.carriers()
        before = [(d, key, nm, d[key]) for d, key, nm in cands]
        binders = []
        for d, key, nm, v in before:
            if v.k == "eigs" and v.t is None:
                binders.append(v)
                continue
            names = ["b_%s_%s%s" % (nm.rstrip("_"), tag, "" if len(pieces(v)) == 1 else "_%d" % i) for i in range(len(pieces(v)))]
            b = rebuild(v, names)
            d[key] = b
            binders.append(b)
        self.locals[var] = V("z", const=None, t=ivar)
        self.readonly.add(var)
        outer_lets, self.lets = self.lets, []
        saved_memo = dict(self.elem_memo)
        self.stmt(body)
        if self.ret is not None:
            raise Unsupported("return inside a loop")
        inner_lets, self.lets = self.lets, outer_lets
        self.elem_memo = saved_memo
        changed, subst = [], {}
        for (d, key, nm, old), b in zip(before, binders):
            if key not in d:
                raise Unsupported("loop body removes %s" % nm)
            new = d[key]
            if new.k == "opaque" and old.k != "opaque":
                raise Unsupported("loop body makes %s opaque" % nm)
            if old.k == "eigs" and old.t is None:
                if new.t is not None:
                    raise Unsupported("eigen-solver without an initial value is computed in a loop")
                continue
            if same(new, b):
                d[key] = old
                for (bt, _), (ot, _) in zip(pieces(b), pieces(old)):
                    subst[bt] = ot               # a loop-invariant value: the body reads the value before the loop
            else:
                changed.append((d, key, nm, old, b, new))
        if self.this is not None:
            for key, v in self.this.f.items():
                if v is not None and v.k == "opaque" and not any(c[1] == key for c in before):
                    pass
        if not changed:
            raise Unsupported("loop modifies nothing")
        def sub(txt):
            return re.sub(r"(?<![A-Za-z0-9_'])(b_[A-Za-z0-9_]+)(?![A-Za-z0-9_'])", lambda m: subst.get(m.group(1), m.group(1)), txt) if subst else txt
        inner_lets = [sub(l) for l in inner_lets]
        bn = [p for c in changed for p in pieces(c[4])]
        inits = [t for c in changed for t, _ in pieces(c[3])]
        news = [sub(t) for c in changed for t, _ in pieces(c[5])]
        outs = ["o_%s" % t[2:] for t, _ in bn]
        sty = bn[0][1] if len(bn) == 1 else "(" + " * ".join(ty for _, ty in bn) + ")%type"
        lam = "(fun (st : %s) (%s : Z) => let %s := st in %s %s)" % (sty, ivar, pat([t for t, _ in bn]), " ".join(inner_lets), tup(news))
        self.lets.append("let %s := fold_left %s (zrange %s) %s in" % (pat(outs), lam, bound_t, tup(inits)))
        i = 0
        for d, key, nm, old, b, new in changed:
            n = len(pieces(old))
            d[key] = rebuild(new, outs[i:i + n])
            i += n


# ------------------------------------------------------------------------------------------------ driver
def field_shapes(ctx, cls):
    out = OrderedDict()
    for fd in cls.get("inner", []):
        if fd.get("kind") == "FieldDecl":
            out[fd["name"]] = ctx.shape(fd["type"], fd["name"])
    return out


def make_this(ctx, cls):
    f = OrderedDict()
    for nm, sh in field_shapes(ctx, cls).items():
        f[nm] = ctx.symbolic(sh, nm)
    return V("obj", cls=(CLS, ""), f=f)


def coq_params(v, with_size):
    out = ["(%s : %s)" % (t, ty) for t, ty in pieces(v)]
    if v.k == "varr" and with_size:
        out.append("(%s : Z)" % v.size)
    return out


def word_in(name, text):
    return re.search(r"(?<![A-Za-z0-9_'])%s(?![A-Za-z0-9_'])" % re.escape(name), text) is not None


def translate_def(reg, decl, coq_name, is_method):
    """-> (text, Sig)"""
    ctx = Ctx(reg, None)
    this = make_this(ctx, reg.cls) if is_method else None
    ctx.this = this
    this0 = OrderedDict(this.f) if is_method else OrderedDict()
    pvals = []
    for i, p in enumerate(c for c in decl.get("inner", []) if c.get("kind") == "ParmVarDecl"):
        if not p.get("name"):
            raise Unsupported("unnamed parameter")
        sh = ctx.shape(p["type"], p["name"])
        v = ctx.symbolic(sh, p["name"])
        qt = p["type"].get("qualType", "")
        dq = p["type"].get("desugaredQualType", qt)
        byref = dq.rstrip().endswith("&") and re.match(r"^\s*const\b", dq) is None and re.match(r"^\s*const\b", qt) is None
        pvals.append((p["name"], sh, v, byref))
        ctx.locals[p["name"]] = v
        if not byref:
            ctx.readonly.add(p["name"])
    r = ctx.run_body(decl)
    body = " ".join(ctx.lets)
    outs, out_terms = [], []
    if r is not None and r.k != "void":
        outs.append(("ret", r))
        out_terms += [t for t, _ in pieces(r)]
    for i, (nm, sh, v0, byref) in enumerate(pvals):
        if byref and not same(ctx.locals[nm], v0):
            outs.append(("param", i, v0))
            out_terms += [t for t, _ in pieces(ctx.locals[nm])]
    for nm, v0 in this0.items():
        v1 = this.f[nm]
        if v1.k == "opaque" or (v1.k == "eigs" and v1.t is None):
            continue
        if not same(v1, v0):
            outs.append(("member", nm, v0))
            out_terms += [t for t, _ in pieces(v1)]
    if not out_terms:
        raise Unsupported("no result")
    text_all = body + " " + " ".join(out_terms)
    oracles = [o for o in Ctx.ORACLE_TYPES if word_in(o, text_all)]
    for s in list(reg.sigs.values()):
        if word_in(s.name, text_all):
            oracles += [o for o in s.oracles if o not in oracles]
    oracles = [o for o in Ctx.ORACLE_TYPES if o in oracles]
    pt = tuple_type(reg.size)
    otypes = {"kd_find": "(K -> %s -> Z -> list Z)" % pt, "kd_build": "(Z -> (Z -> %s) -> K)" % pt, "eig": Ctx.ORACLE_TYPES["eig"]}
    params = ["(%s : %s)" % (o, otypes[o]) for o in oracles]
    ins = []
    for i, (nm, sh, v0, byref) in enumerate(pvals):
        sized = v0.k == "varr" and word_in(v0.size, text_all)
        params += coq_params(v0, sized)
        ins.append(("param", i, sh + (("sized",) if sized else ()), byref))
    for nm, v0 in this0.items():
        used = any(word_in(t, text_all) for t, _ in pieces(v0))
        if used:
            params += coq_params(v0, False)
            ins.append(("member", nm, field_shapes(ctx, reg.cls)[nm]))
    rtys = []
    for o in outs:
        rtys += [ty for _, ty in pieces(o[-1])]
    rty = rtys[0] if len(rtys) == 1 else "(" + " * ".join(rtys) + ")%type"
    lets = "".join("  %s\n" % l for l in ctx.lets)
    text = "Definition %s %s : %s :=\n%s  %s.\n" % (coq_name, " ".join(params), rty, lets, tup(out_terms))
    return text, Sig(coq_name, oracles, ins, outs)


def spec_of(objs, marker):
    best = None
    for o in objs:
        if o.get("kind") == "ClassTemplateSpecializationDecl" and o.get("name") == CLS:
            ta = [c for c in o.get("inner", []) if c.get("kind") == "TemplateArgument"]
            if ta and marker in ta[0].get("type", {}).get("qualType", ""):
                if best is None or B.Registry.nbodies(o) > B.Registry.nbodies(best):
                    best = o
    if best is None:
        raise Unsupported("%s<%s..> is not instantiated" % (CLS, marker))
    return best


def has_body(n):
    return any(isinstance(c, dict) and c.get("kind") == "CompoundStmt" for c in n.get("inner", []))


def nparams(n):
    return len([c for c in n.get("inner", []) if c.get("kind") == "ParmVarDecl"])


def generate(repo):
    from concurrent.futures import ThreadPoolExecutor
    head = ["(* GENERATED by translate/tr_C09_normals.py from the clang AST of the current %s" % SRC,
            "   (instantiations Vector2d = V2, Vector3d = V3, HomogeneousCoordinates2d = H2, HomogeneousCoordinates3d = H3). Do not edit. *)",
            "From Coq Require Import ZArith List.", "From Romea Require Import Num SrcEigen SrcNormalsLib.", "Import ListNotations.", "",
            "Section SrcNormals.", "Context {T : Type} (N : NumOps T) {K : Type}.", ""]
    lines, errors = list(head), []

    def fail(msg):
        errors.append((PROP, msg))
        lines.append("(* NOT TRANSLATED: %s *)\n" % msg.replace("*)", "* )").replace("(*", "( *")[:300])
    try:
        with ThreadPoolExecutor(max_workers=3) as ex:
            fa = ex.submit(srcfuns.load_uncached, repo, SRC, "romea::core::" + CLS, EXTRA_TU)
            fb = ex.submit(srcfuns.load_uncached, repo, SRC, "flipNormalTowardOriginCoordinate", "")
            fc = ex.submit(srcfuns.load_uncached, repo, SRC, "s09tie", EXTRA_TU)
            objs, fobjs, vobjs = fa.result(), fb.result(), fc.result()
    except Exception as e:  # noqa
        fail("clang AST unavailable: %s" % str(e)[:300])
        return "\n".join(lines + ["End SrcNormals."]) + "\n", errors
    vals = {}
    for o in vobjs:
        for v in [o] + [c for c in o.get("inner", []) if isinstance(c, dict)]:
            if v.get("kind") == "VarDecl" and v.get("name"):
                m = re.search(r"Val<(\d+)>", v.get("type", {}).get("desugaredQualType", "") or v.get("type", {}).get("qualType", ""))
                if m:
                    vals[v["name"]] = int(m.group(1))
    flips = [c for o in fobjs if o.get("kind") == "FunctionTemplateDecl" for c in o.get("inner", []) if c.get("kind") == "FunctionDecl" and has_body(c)]
    for tag, marker, cxx in INSTS:
        try:
            cls = spec_of(objs, marker)
            dim, size = vals.get(tag + "_CARTESIAN_DIM"), vals.get(tag + "_POINT_SIZE")
            if dim is None or size is None:
                raise Unsupported("CARTESIAN_DIM / POINT_SIZE of %s not found" % cxx)
            reg = Reg(tag, cls, dim, size, flips, None)
            reg.vals = dict(vals)
        except Unsupported as e:
            fail("%s: %s" % (tag, e))
            continue
        lines.append("(* ---------------------------------------------------------------- %s<%s>: CARTESIAN_DIM = %d, POINT_SIZE = %d *)"
                     % (CLS, cxx, dim, size))

        def emit(stem, finder, is_method, what):
            nm = "src_%s_%s" % (stem, tag)
            try:
                decl = finder()
                text, sig = translate_def(reg, decl, nm, is_method)
                reg.sigs[decl["id"]] = sig
                if decl.get("kind") == "FunctionDecl":
                    reg.sigs[("fn", decl.get("name"), re.sub(r"\s+", "", decl.get("type", {}).get("qualType", "")))] = sig
                for prev in decl.get("_aliases", []):
                    reg.sigs[prev] = sig
                lines.append("(* %s *)\n%s" % (what, text))
            except Unsupported as e:
                fail("%s (%s): %s" % (nm, what, e))
            except Exception as e:  # noqa  (fail closed, never raise)
                fail("%s (%s): internal error %r" % (nm, what, e))

        def find_flip():
            c = [f for f in flips if marker in (f.get("type", {}).get("qualType", ""))]
            if len(c) != 1:
                raise Unsupported("%d instantiations of flipNormalTowardOriginCoordinate for %s" % (len(c), cxx))
            return c[0]

        def find_reli():
            inside = [c for c in cls.get("inner", []) if c.get("kind") == "CXXMethodDecl" and c.get("name") == "computeNormalReliability"]
            ids = {c["id"] for c in inside}
            c = [o for o in objs if o.get("kind") == "CXXMethodDecl" and o.get("name") == "computeNormalReliability" and has_body(o)
                 and (o.get("previousDecl") in ids or o.get("parentDeclContextId") == cls.get("id"))]
            c += [x for x in inside if has_body(x)]
            if len(c) != 1:
                raise Unsupported("%d definitions of computeNormalReliability for %s" % (len(c), cxx))
            d = dict(c[0])
            d["_aliases"] = list(ids)
            return d

        def find_method(name, np_, kd):
            def ok(c):
                if c.get("kind") != "CXXMethodDecl" or c.get("name") != name or not has_body(c) or nparams(c) != np_:
                    return False
                ps = [p for p in c["inner"] if p.get("kind") == "ParmVarDecl"]
                haskd = any("KdTree" in p.get("type", {}).get("qualType", "") for p in ps)
                return kd is None or haskd == kd
            c = [x for x in cls.get("inner", []) if ok(x)]
            if len(c) != 1:
                raise Unsupported("%d definitions of %s/%d for %s" % (len(c), name, np_, cxx))
            return c[0]

        emit("flip", find_flip, False, "flipNormalTowardOriginCoordinate<%s>(point, normal)" % cxx)
        emit("reliability", find_reli, True, "%s<%s>::computeNormalReliability() (explicit specialisation)" % (CLS, cxx))
        emit("planeEstimation", lambda: find_method("planeEstimation_", 3, True), True, "%s<%s>::planeEstimation_(points, pointsKdTree, pointIndex)" % (CLS, cxx))
        for (np_, kd), stem in COMPUTE_NAMES.items():
            emit(stem, lambda np_=np_, kd=kd: find_method("compute", np_, kd), True,
                 "%s<%s>::compute/%d %s" % (CLS, cxx, np_, "with the caller's kd-tree" if kd else "building its own kd-tree"))
    return "\n".join(lines + ["End SrcNormals."]) + "\n", errors


def generate_to(gen_dir, repo="/repo"):
    try:
        text, errors = generate(repo)
    except Exception as e:  # noqa
        return [(PROP, "translator failed: %r" % (e,))]
    os.makedirs(gen_dir, exist_ok=True)
    path = os.path.join(gen_dir, "SrcNormals.v")
    old = open(path).read() if os.path.exists(path) else None
    if old != text:
        with open(path, "w") as f:
            f.write(text)
    return errors


if __name__ == "__main__":
    t, e = generate(os.environ.get("VERIF_REPO", "/repo"))
    print(t)
    if e:
        print("\n".join("%s: %s" % x for x in e), file=sys.stderr)
        sys.exit(2)
