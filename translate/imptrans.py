#!/usr/bin/env python3
"""imptrans.py — library of the plug-in translators tr_C17_rate.py and tr_C18_diag.py: small *stateful* C++ methods
(member assignments, std::queue / std::list / std::map calls, if / early return, one iterator loop shape)  ->  Gallina
state transformers, from the clang JSON AST of the current source.  (srcfuns.py translates pure scalar functions; this
file reuses its clang loader and literal reader and adds what C17 / C18 need.  It is not a tr_*.py plug-in itself.)

A method becomes   Definition src_f (F.. : abstract methods of member objects) (parameters..) (fields read.., by name)
                     : (fields written.., by name [, returned value])          [option .. when the C++ can be undefined]
by symbolic execution: every assignment at the top level of the body is a `let`, an `if` without return merges the
variables it changes (`let x_k := if c then a else b`), an `if` with a return splits the rest of the body into the two
branches.  Vocabulary (the sorts of coq/DiagModel.v are used as types, nothing else of the models is):
  integers (int, size_t, long long, Duration = integer nanoseconds, SharedVariable<Duration>)  -> Z, UNBOUNDED (wrap-around of
      size_t / long long is not modelled; IntegralCast is the identity)
  double, std::atomic<double>                                 -> T over the dictionary N (load/store = read/write: atomicity is C19's)
  static_cast<integer>(double) -> ntruncZ N;  integer -> double: nofZ N (an integer *literal*: nofDec N k 0, a constant of T)
  std::queue<long long> -> list Z (front of the queue first): push = l ++ [x], pop = tl, front = hd 0, size = Z.of_nat (length l),
      empty = match l with nil => true | _ => false end
  enum DiagnosticStatus -> DiagModel.status (comparison operators through status_val, whose values come from the source)
  std::list<Diagnostic> -> list diagnostic;  a const_iterator = the suffix of the list that starts at the element it points to
      (cbegin = the list, `while (++it != cend(l)) {..}` = a structural fix on that suffix; dereferencing / incrementing an
      end iterator = None)
  std::map<std::string, std::string> -> key-sorted association list of tokens; range insert = fold of DiagModel.map_insert
  the report of a check-up (exactly one diagnostic, one info entry) -> DiagModel.creport; report_.diagnostics.front() = r_diag,
      report_.info.begin()->second = r_info ("" = None, toStringInfoValue(v) = Some v), a message
      `report_.info.begin()->first + <ending>` = the ending, a member of DiagModel.suffix by the table SUFFIX below
  std::lock_guard declarations, NDEBUG asserts, (void)x : skipped.
Anything else raises Unsupported: the function is left out of the generated file and reported (fail closed)."""
import os
import sys

HERE = os.path.dirname(os.path.abspath(__file__))
if HERE not in sys.path:
    sys.path.insert(0, HERE)
from srcfuns import load_uncached, Unsupported, dec_pair   # noqa: E402

SUFFIX = {" is too low.": "STooLow", " is too high.": "STooHigh", " is OK.": "SIsOK", " timeout.": "STimeout",
          " is uncertain.": "SUncertain", " is high.": "SIsHigh"}
COQTY = {"Z": "Z", "T": "T", "bool": "bool", "status": "status", "listZ": "(list Z)", "listD": "(list diagnostic)",
         "mapSS": "(list (Z * Z))", "creport": "(@creport T)", "suffix": "suffix", "diagnostic": "diagnostic",
         "optT": "(option T)"}
INTS = {"int", "long", "long long", "unsigned long", "unsigned int", "unsigned long long", "size_t", "long long int",
        "Duration", "SharedVariable<Duration>"}
TRANSPARENT_CASTS = {"NoOp", "LValueToRValue", "IntegralCast", "UncheckedDerivedToBase", "DerivedToBase", "FunctionToPointerDecay",
                     "ConstructorConversion", "ArrayToPointerDecay", "UserDefinedConversion"}
CAST_KINDS = ("ImplicitCastExpr", "CXXStaticCastExpr", "CStyleCastExpr", "CXXFunctionalCastExpr")
WRAPPERS = ("ParenExpr", "MaterializeTemporaryExpr", "ExprWithCleanups", "CXXBindTemporaryExpr", "ConstantExpr")


RESERVED = {"status", "suffix", "diagnostic", "T", "N", "Z", "length", "hd", "tl", "fst", "snd", "last", "fold_left", "worse",
            "OK", "WARN", "ERROR", "STALE", "nil", "cons", "Some", "None", "true", "false", "negb", "andb", "orb", "list", "option"}


def coqname(nm):
    return "a_" + nm if nm in RESERVED else nm


def zl(z):
    return "(%d)%%Z" % z


def sort_of_type(ty, overrides=None):
    t = ty or ""
    for w in ("const ", "volatile ", "romea::core::", "std::", "struct ", "class ", "typename "):
        t = t.replace(w, "")
    t = t.replace("&", "").strip()
    if overrides and t in overrides:
        return overrides[t]
    if t in ("double", "float", "atomic<double>", "SharedVariable<double>"):
        return "T"
    if t == "bool":
        return "bool"
    if t in INTS or t.startswith("chrono::duration<long long") or t.startswith("SharedVariable<chrono::duration<long long") \
            or "common_type<duration<long long" in t or t.endswith("::size_type") or t.endswith("::rep") \
            or (t.endswith("::value_type") and "long long" in t):
        return "Z"
    if t == "DiagnosticStatus":
        return "status"
    if t == "queue<long long>":
        return "listZ"
    if t == "list<Diagnostic>":
        return "listD"
    if t.startswith("map<"):
        return "mapSS"
    if t == "Diagnostic":
        return "diagnostic"
    if t in ("mutex", "lock_guard<mutex>"):
        return "skip"
    if t in ("string", "basic_string<char>"):
        return "string"
    if t == "DiagnosticReport":
        return "report"
    return None


class Val:
    def __init__(self, term, sort, extra=None):
        self.term, self.sort, self.extra = term, sort, extra

    def __eq__(self, o):
        return isinstance(o, Val) and (self.term, self.sort, self.extra) == (o.term, o.sort, o.extra)


class Leaf:
    def __init__(self, kind, env, ret):
        self.kind, self.env, self.ret = kind, env, ret


class Br:
    def __init__(self, cond, a, b):
        self.cond, self.a, self.b = cond, a, b


class Known:
    """a function already translated: how to call it"""
    def __init__(self, coq, nparams, reads, writes, ret_sort, partial, write_sorts=None):
        self.coq, self.nparams, self.reads, self.writes, self.ret_sort, self.partial = coq, nparams, reads, writes, ret_sort, partial
        self.write_sorts = write_sorts or {}


def proj(i, n, t):
    """component i of the left-nested n-tuple t"""
    if n == 1:
        return t
    if i == n - 1:
        return "(snd %s)" % t
    return proj(i, n - 1, "(fst %s)" % t)


def tup(xs):
    return xs[0] if len(xs) == 1 else "(" + ", ".join(xs) + ")"


class Imp:
    def __init__(self, node, known=None, overrides=None, objects=None, consts=None):
        self.node = node
        self.consts = consts or {}           # namespace-scope constants: name -> Val
        self.field_types = {}                # member of *this -> C++ type of its first use
        self.known = known or {}
        self.overrides = overrides or {}     # C++ type -> sort, per job (DiagnosticReport -> creport inside a check-up)
        self.objects = objects or {}         # member object field -> abstract Coq type name
        self.params = []
        self.free = {}                       # field / path variable -> sort, in order of first use
        self.fparams = {}                    # abstract method parameter -> Coq type
        self.lets = []
        self.partial = False
        self.n = 0
        self.depth = 0
        self.locals = {}                     # local name -> sort (or "alias")
        self.env0 = {}
        for c in node.get("inner", []):
            if c.get("kind") == "ParmVarDecl" and c.get("name"):
                s = sort_of_type(c.get("type", {}).get("qualType", ""), self.overrides)
                if s == "string":
                    s = "suffix"
                if s is None:
                    raise Unsupported("parameter %s of type %s" % (c["name"], c.get("type", {}).get("qualType")))
                self.params.append((c["name"], s))
                if s != "report":
                    self.env0[c["name"]] = Val(coqname(c["name"]), s)

    # ------------------------------------------------------------------ helpers
    def fresh(self, base):
        self.n += 1
        return "%s%d" % (base if base.endswith("_") else base + "_", self.n)

    def strip(self, n):
        while True:
            k = n.get("kind")
            if k in WRAPPERS and n.get("inner"):
                n = n["inner"][-1]
            elif k in CAST_KINDS and n.get("castKind") in TRANSPARENT_CASTS and n.get("inner"):
                n = n["inner"][-1]
            elif k in ("CXXConstructExpr", "CXXTemporaryObjectExpr"):
                args = [c for c in n.get("inner", []) if isinstance(c, dict) and c.get("kind") != "CXXDefaultArgExpr"]
                if len(args) != 1:
                    return n
                n = args[0]
            else:
                return n

    def args_of(self, n, first):
        return [c for c in n.get("inner", [])[first:] if isinstance(c, dict) and c.get("kind") != "CXXDefaultArgExpr"]

    def callee_name(self, n):
        c = self.strip(n["inner"][0])
        return c.get("referencedDecl", {}).get("name") or c.get("name")

    def getvar(self, env, name, sort=None):
        if name in env:
            return env[name]
        if name not in self.free:
            if sort is None:
                raise Unsupported("variable %s of unknown sort" % name)
            self.free[name] = sort
        return Val(name, self.free[name])

    def bind(self, base, term, sort, extra=None):
        """at the top level of the body a value gets a name (a let); inside a branch it stays a term"""
        if self.depth > 0:
            return Val(term, sort, extra)
        nm = self.fresh(base)
        self.lets.append(("let", nm, term))
        return Val(nm, sort, extra)

    def coerce(self, v, want):
        if v.sort == want:
            return v
        if v.sort == "string" and want == "suffix":
            if v.extra in SUFFIX:
                return Val(SUFFIX[v.extra], "suffix")
            raise Unsupported("message ending %r is not in the table of DiagModel.suffix" % (v.extra,))
        if v.sort == "string" and want == "optT" and v.extra == "":
            return Val("None", "optT")
        raise Unsupported("a value of sort %s where %s is expected" % (v.sort, want))

    # ------------------------------------------------------------------ paths and locations
    def path(self, n, env):
        """(root, steps) of an object expression; root = ("this",) | ("var", name)"""
        n = self.strip(n)
        k = n.get("kind")
        if k == "CXXThisExpr":
            return ("this",), []
        if k == "DeclRefExpr":
            nm = n["referencedDecl"]["name"]
            if self.locals.get(nm) == "alias":
                root, steps = env[nm].extra
                return root, list(steps)
            return ("var", nm), []
        if k == "MemberExpr":
            root, steps = self.path(n["inner"][0], env)
            if root == ("this",) and not steps:
                self.field_types.setdefault(n.get("name"), n.get("type", {}).get("qualType", ""))
            return root, steps + [("field", n.get("name"))]
        if k == "CXXMemberCallExpr":
            callee = self.strip(n["inner"][0])
            if callee.get("kind") == "MemberExpr" and not self.args_of(n, 1):
                root, steps = self.path(callee["inner"][0], env)
                return root, steps + [("call", callee.get("name"))]
        if k == "CXXOperatorCallExpr" and self.callee_name(n) == "operator->":
            root, steps = self.path(n["inner"][1], env)
            return root, steps + [("arrow", None)]
        raise Unsupported("object expression %s" % k)

    CREPORT = {(("field", "diagnostics"), ("call", "front")): ("diag", "diagnostic"),
               (("field", "diagnostics"), ("call", "front"), ("field", "status")): ("diag.status", "status"),
               (("field", "diagnostics"), ("call", "front"), ("field", "message")): ("diag.suffix", "suffix"),
               (("field", "info"), ("call", "begin"), ("arrow", None), ("field", "second")): ("info", "optT"),
               (("field", "info"), ("call", "begin"), ("arrow", None), ("field", "first")): ("name", "name")}

    def loc(self, n, env):
        """location denoted by an lvalue expression: (variable name, sort of the variable, component or None, sort)"""
        root, steps = self.path(n, env)
        if root == ("this",):
            if not steps or steps[0][0] != "field":
                raise Unsupported("use of `this` itself")
            var, rest = steps[0][1], tuple(steps[1:])
            node_sort = sort_of_type(self.field_types.get(var, ""), self.overrides)
            vs = self.free.get(var) or (env[var].sort if var in env else None) or node_sort
            if var in self.objects:
                vs = "obj"
            if vs is None:
                raise Unsupported("field %s of unknown sort" % var)
        else:
            nm = root[1]
            psort = dict(self.params).get(nm)
            if psort == "report":
                if not steps or steps[0][0] != "field":
                    raise Unsupported("whole-struct use of %s" % nm)
                var, rest = nm + "_" + steps[0][1], tuple(steps[1:])
                vs = {"diagnostics": "listD", "info": "mapSS"}.get(steps[0][1])
                if vs is None:
                    raise Unsupported("field %s of a report" % steps[0][1])
            else:
                var, rest = nm, tuple(steps)
                vs = env[nm].sort if nm in env else None
                if vs is None:
                    raise Unsupported("unknown variable %s" % nm)
        if not rest:
            return var, vs, None, vs
        if vs == "creport" and rest in self.CREPORT:
            comp, cs = self.CREPORT[rest]
            return var, vs, comp, cs
        if vs == "diagnostic" and rest == (("field", "status"),):
            return var, vs, "status", "status"
        if vs == "iter" and rest == (("arrow", None), ("field", "status")):
            return var, vs, "deref.status", "status"
        if vs == "Z" and rest == (("call", "load"),) or vs == "T" and rest == (("call", "load"),) or vs == "Z" and rest == (("call", "count"),):
            return var, vs, None, vs
        raise Unsupported("access path %s on a %s" % (".".join(str(s[1] or "->") for s in rest), vs))

    def read(self, n, env):
        var, vs, comp, cs = self.loc(n, env)
        v = self.getvar(env, var, vs)
        if comp is None:
            return v
        if vs == "creport":
            if comp == "name":
                return Val("?name", "name")
            t = {"diag": "(r_diag %s)", "diag.status": "(d_status (r_diag %s))", "diag.suffix": "(d_suffix (r_diag %s))",
                 "info": "(r_info %s)"}[comp] % v.term
            return Val(t, cs)
        if vs == "diagnostic":
            return Val("(d_status %s)" % v.term, "status")
        if vs == "iter":
            return Val("(d_status %s)" % self.deref(v, env, var), "status")
        raise Unsupported("read of %s.%s" % (var, comp))

    def write(self, n, env, val):
        var, vs, comp, cs = self.loc(n, env)
        if var in dict(self.params) and vs not in ("listD", "mapSS"):
            raise Unsupported("assignment to parameter %s" % var)
        val = self.coerce(val, cs)
        if comp is None:
            self.assign(env, var, val)
            return
        if vs != "creport":
            raise Unsupported("write to %s.%s" % (var, comp))
        v = self.getvar(env, var, vs).term
        d = "(r_diag %s)" % v
        if comp == "diag.status":
            t = "{| r_diag := {| d_status := %s; d_suffix := d_suffix %s |}; r_info := r_info %s |}" % (val.term, d, v)
        elif comp == "diag.suffix":
            t = "{| r_diag := {| d_status := d_status %s; d_suffix := %s |}; r_info := r_info %s |}" % (d, val.term, v)
        elif comp == "diag":
            t = "{| r_diag := %s; r_info := r_info %s |}" % (val.term, v)
        elif comp == "info":
            t = "{| r_diag := %s; r_info := %s |}" % (d, val.term)
        else:
            raise Unsupported("write to the key of the info entry")
        self.assign(env, var, Val(t, "creport"))

    def assign(self, env, var, val):
        if var not in env and var not in self.free and var not in self.locals:
            self.free[var] = val.sort           # a field that is only written still has a sort
            self.written_only = getattr(self, "written_only", set()) | {var}
        base = var if var in self.free or var.endswith("_") else "l_" + var
        env[var] = self.bind(base, val.term, val.sort, val.extra)

    def deref(self, it, env, var):
        """the element an iterator points to; None (undefined behaviour) when it is the end iterator"""
        if it.extra and it.extra.get("cur"):
            return it.extra["cur"]
        if it.extra is None or it.extra.get("dead"):
            raise Unsupported("use of an iterator after the loop that moved it")
        if self.depth > 0:
            raise Unsupported("dereference of an iterator inside a branch")
        x = self.fresh("it_hd")
        self.lets.append(("match", it.term, "cons %s _" % x))
        self.partial = True
        env[var] = Val(it.term, "iter", dict(it.extra, cur=x))
        return x

    # ------------------------------------------------------------------ expressions
    def ev(self, n, env):
        k = n.get("kind")
        if k in WRAPPERS and n.get("inner"):
            return self.ev(n["inner"][-1], env)
        if k in CAST_KINDS and n.get("inner"):
            ck = n.get("castKind")
            inner = n["inner"][-1]
            if ck in TRANSPARENT_CASTS:
                return self.ev(inner, env)
            if ck == "IntegralToFloating":
                lit = self.strip(inner)
                if lit.get("kind") == "IntegerLiteral":
                    return self.tlit(int(lit["value"]), 0)
                v = self.ev(inner, env)
                if v.sort != "Z":
                    raise Unsupported("integer-to-double conversion of a %s" % v.sort)
                return Val("(nofZ N %s)" % v.term, "T")
            if ck == "FloatingToIntegral":
                v = self.ev(inner, env)
                if v.sort != "T":
                    raise Unsupported("double-to-integer conversion of a %s" % v.sort)
                return Val("(ntruncZ N %s)" % v.term, "Z")
            raise Unsupported("cast %s" % ck)
        if k in ("CXXConstructExpr", "CXXTemporaryObjectExpr"):
            args = self.args_of(n, 0)
            if len(args) == 1:
                return self.ev(args[0], env)
            raise Unsupported("constructor call with %d arguments" % len(args))
        if k == "IntegerLiteral":
            return Val(zl(int(n["value"])), "Z")
        if k == "FloatingLiteral":
            return self.tlit(*dec_pair(repr(float(n["value"]))))
        if k == "CXXBoolLiteralExpr":
            return Val("true" if n.get("value") else "false", "bool")
        if k == "StringLiteral":
            s = n.get("value", "")
            try:
                import json as _json
                s = _json.loads(s)
            except Exception:  # noqa
                s = s.strip('"')
            return Val("?string", "string", s)
        if k == "DeclRefExpr":
            rd = n["referencedDecl"]
            nm = rd.get("name")
            if rd.get("kind") == "EnumConstantDecl":
                if nm in ("OK", "WARN", "ERROR", "STALE"):
                    return Val(nm, "status")
                raise Unsupported("enumerator %s" % nm)
            if self.locals.get(nm) == "alias":
                return self.read(n, env)
            if nm in env:
                return env[nm]
            if nm in self.consts:
                return self.consts[nm]
            raise Unsupported("reference to %s" % nm)
        if k == "MemberExpr":
            return self.read(n, env)
        if k == "UnaryOperator":
            op = n.get("opcode")
            v = self.ev(n["inner"][0], env)
            if op == "!" and v.sort == "bool":
                return Val("(negb %s)" % v.term, "bool")
            if op == "-" and v.sort == "T":
                return Val("(nneg N %s)" % v.term, "T")
            if op == "-" and v.sort == "Z":
                return Val("(Z.opp %s)" % v.term, "Z")
            if op == "+":
                return v
            raise Unsupported("unary %s on a %s" % (op, v.sort))
        if k == "BinaryOperator":
            a = self.ev(n["inner"][0], env)
            before = dict(env)
            b = self.ev(n["inner"][1], env)
            if n.get("opcode") in ("&&", "||") and before != env:
                raise Unsupported("a side effect in the right operand of %s (evaluated only sometimes)" % n.get("opcode"))
            return self.binop(n.get("opcode"), a, b)
        if k == "ConditionalOperator":
            c = self.ev(n["inner"][0], env)
            before = dict(env)
            a, b = [self.ev(x, env) for x in n["inner"][1:]]
            if before != env:
                raise Unsupported("a side effect inside a conditional expression")
            if c.sort != "bool" or a.sort != b.sort:
                raise Unsupported("conditional expression sorts")
            return Val("(if %s then %s else %s)" % (c.term, a.term, b.term), a.sort)
        if k == "CXXOperatorCallExpr":
            nm = self.callee_name(n)
            args = self.args_of(n, 1)
            if nm in ("operator-", "operator+") and len(args) == 2:
                a, b = self.ev(args[0], env), self.ev(args[1], env)
                if a.sort == "name" and nm == "operator+":
                    return self.coerce(b, "suffix")          # <name of the checked quantity> + <message ending>
                if a.sort == b.sort == "Z":
                    return self.binop(nm[-1], a, b)
                raise Unsupported("%s on %s, %s" % (nm, a.sort, b.sort))
            if nm in ("operator!=", "operator==") and len(args) == 2:
                a, b = self.ev(args[0], env), self.ev(args[1], env)
                if a.sort == "iter" and b.sort == "iterend" and a.extra and a.extra.get("list") == b.extra:
                    t = "match %s with nil => true | cons _ _ => false end" % a.term
                    return Val("(%s)" % t if nm == "operator==" else "(negb (%s))" % t, "bool")
                if a.sort == b.sort == "Z":
                    return self.binop(nm[8:], a, b)
                raise Unsupported("%s on %s, %s" % (nm, a.sort, b.sort))
            if nm == "operator->":
                raise Unsupported("iterator dereference outside a member access")
            raise Unsupported("overloaded %s" % nm)
        if k == "CallExpr":
            return self.call(n, env)
        if k == "CXXMemberCallExpr":
            return self.mcall(n, env, want_value=True)
        raise Unsupported("expression %s" % k)

    def tlit(self, m, e):
        """a constant of T: the dictionary's own 0 and 1, otherwise the decimal m * 10^e"""
        if m == 0:
            return Val("(nzero N)", "T")
        if (m, e) == (1, 0):
            return Val("(n_one N)", "T")
        return Val("(nofDec N %s %s)" % (zl(m), zl(e)), "T")

    def binop(self, op, a, b):
        if a.sort != b.sort:
            raise Unsupported("operator %s on %s and %s" % (op, a.sort, b.sort))
        s, x, y = a.sort, a.term, b.term
        if s == "T":
            tab = {"+": "(nadd N %s %s)", "-": "(nsub N %s %s)", "*": "(nmul N %s %s)", "/": "(ndiv N %s %s)"}
            if op in tab:
                return Val(tab[op] % (x, y), "T")
            cmp_ = {"<": "(nltb N %s %s)" % (x, y), ">": "(nltb N %s %s)" % (y, x), "<=": "(nleb N %s %s)" % (x, y),
                    ">=": "(nleb N %s %s)" % (y, x), "==": "(neqb N %s %s)" % (x, y), "!=": "(negb (neqb N %s %s))" % (x, y)}
            if op in cmp_:
                return Val(cmp_[op], "bool")
        if s == "Z":
            tab = {"+": "(Z.add %s %s)", "-": "(Z.sub %s %s)", "*": "(Z.mul %s %s)"}
            if op in tab:
                return Val(tab[op] % (x, y), "Z")
            cmp_ = {"<": "(Z.ltb %s %s)" % (x, y), ">": "(Z.ltb %s %s)" % (y, x), "<=": "(Z.leb %s %s)" % (x, y),
                    ">=": "(Z.leb %s %s)" % (y, x), "==": "(Z.eqb %s %s)" % (x, y), "!=": "(negb (Z.eqb %s %s))" % (x, y)}
            if op in cmp_:
                return Val(cmp_[op], "bool")
        if s == "status":
            if op == "==":
                return Val("(status_eqb %s %s)" % (x, y), "bool")
            if op == "!=":
                return Val("(negb (status_eqb %s %s))" % (x, y), "bool")
            cmp_ = {"<": "Z.ltb", ">": "Z.gtb", "<=": "Z.leb", ">=": "Z.geb"}
            if op in cmp_:
                return Val("(%s (status_val %s) (status_val %s))" % (cmp_[op], x, y), "bool")
        if s == "bool" and op in ("&&", "||"):
            return Val("(%s %s %s)" % ("andb" if op == "&&" else "orb", x, y), "bool")
        raise Unsupported("operator %s on %s" % (op, s))

    def call(self, n, env):
        nm = self.callee_name(n)
        args = self.args_of(n, 1)
        if nm in ("max", "min") and len(args) == 2:
            a, b = self.ev(args[0], env), self.ev(args[1], env)
            if a.sort == b.sort == "Z":
                return Val("(Z.%s %s %s)" % (nm, a.term, b.term), "Z")
            if a.sort == b.sort == "T":
                return Val("(n%s2 N %s %s)" % (nm, a.term, b.term), "T")
            raise Unsupported("std::%s on %s, %s" % (nm, a.sort, b.sort))
        if nm in ("cbegin", "begin", "cend", "end") and len(args) == 1:
            var, vs, comp, cs = self.loc(args[0], env)
            if comp is not None or vs not in ("listD", "mapSS"):
                raise Unsupported("std::%s of a %s" % (nm, cs))
            v = self.getvar(env, var, vs)
            if nm in ("cbegin", "begin"):
                return Val(v.term, "iter", {"list": var, "elem": vs})
            return Val("?end", "iterend", var)
        if nm == "toStringInfoValue" and len(args) == 1:
            v = self.ev(args[0], env)
            if v.sort != "T":
                raise Unsupported("toStringInfoValue of a %s" % v.sort)
            return Val("(Some %s)" % v.term, "optT")
        if nm in self.known:
            return self.call_known(self.known[nm], [self.ev(a, env) for a in args], env)
        raise Unsupported("call to %s" % nm)

    def call_known(self, kn, argv, env):
        if len(argv) != kn.nparams:
            raise Unsupported("call of %s with %d arguments" % (kn.coq, len(argv)))
        reads = [self.getvar(env, r, s).term for r, s in kn.reads]
        t = "(%s %s)" % (kn.coq, " ".join([a.term for a in argv] + reads)) if (argv or reads) else kn.coq
        outs = list(kn.writes) + (["?ret"] if kn.ret_sort else [])
        if kn.partial:
            if self.depth > 0:
                raise Unsupported("call of a partial function inside a branch")
            r = self.fresh("r")
            self.lets.append(("match", t, "Some %s" % r))
            self.partial = True
            t = r
        elif len(outs) > 1:
            t = self.bind("call", t, "tuple").term
        for i, w in enumerate(kn.writes):
            self.assign(env, w, Val(proj(i, len(outs), t), kn.write_sorts[w]))
        if kn.ret_sort:
            return Val(proj(len(outs) - 1, len(outs), t), kn.ret_sort)
        return None

    def mcall(self, n, env, want_value):
        callee = self.strip(n["inner"][0])
        if callee.get("kind") != "MemberExpr":
            raise Unsupported("member call through %s" % callee.get("kind"))
        meth = callee.get("name")
        args = self.args_of(n, 1)
        base = self.strip(callee["inner"][0])
        if base.get("kind") == "CXXThisExpr":
            if meth not in self.known:
                raise Unsupported("call of member function %s" % meth)
            r = self.call_known(self.known[meth], [self.coerce_arg(self.ev(a, env)) for a in args], env)
            if want_value and r is None:
                raise Unsupported("value of void member function %s" % meth)
            return r
        var, vs, comp, cs = self.loc(callee["inner"][0], env)
        if vs == "obj" and comp is None:
            return self.ocall(n, env, var, meth, args, want_value)
        if comp is not None:
            raise Unsupported("method %s on a component" % meth)
        v = self.getvar(env, var, vs)
        if vs in ("Z", "T") and meth == "load" and not args:
            return v
        if vs == "Z" and meth == "count" and not args:
            return v
        if vs in ("Z", "T") and meth == "store" and len(args) == 1 and not want_value:
            x = self.ev(args[0], env)
            if x.sort != vs:
                raise Unsupported("store of a %s into a %s" % (x.sort, vs))
            self.assign(env, var, x)
            return None
        if vs == "listZ":
            if meth == "size" and not args:
                return Val("(Z.of_nat (length %s))" % v.term, "Z")
            if meth == "empty" and not args:
                return Val("(match %s with nil => true | cons _ _ => false end)" % v.term, "bool")
            if meth == "front" and not args:
                return Val("(hd (0)%%Z %s)" % v.term, "Z")
            if meth == "back" and not args:
                return Val("(last %s (0)%%Z)" % v.term, "Z")
            if meth == "push" and len(args) == 1 and not want_value:
                x = self.ev(args[0], env)
                if x.sort != "Z":
                    raise Unsupported("push of a %s" % x.sort)
                self.assign(env, var, Val("(%s ++ cons %s nil)" % (v.term, x.term), "listZ"))
                return None
            if meth == "pop" and not args and not want_value:
                self.assign(env, var, Val("(tl %s)" % v.term, "listZ"))
                return None
        if vs == "listD":
            if meth == "empty" and not args:
                return Val("(match %s with nil => true | cons _ _ => false end)" % v.term, "bool")
            if meth == "insert" and len(args) == 3 and not want_value:
                pos, b, e = [self.ev(a, env) for a in args]
                if pos.sort == "iterend" and pos.extra == var and b.sort == "iter" and e.sort == "iterend" and b.extra["list"] == e.extra:
                    self.assign(env, var, Val("(%s ++ %s)" % (v.term, b.term), "listD"))
                    return None
                raise Unsupported("list insert other than insert(end(l), cbegin(m), cend(m))")
        if vs == "mapSS" and meth == "insert" and len(args) == 2 and not want_value:
            b, e = [self.ev(a, env) for a in args]
            if b.sort == "iter" and e.sort == "iterend" and b.extra["list"] == e.extra and b.extra["elem"] == "mapSS":
                self.assign(env, var, Val("(fold_left (fun m kv => map_insert (fst kv) (snd kv) m) %s %s)" % (b.term, v.term), "mapSS"))
                return None
            raise Unsupported("map insert other than insert(cbegin(m), cend(m))")
        raise Unsupported("method %s on a %s" % (meth, vs))

    def coerce_arg(self, v):
        if v.sort == "string":
            return self.coerce(v, "suffix")
        return v

    def ocall(self, n, env, var, meth, args, want_value):
        """a method of a member object: an abstract state transformer  F : Obj -> args.. -> Obj * result  (Obj for void)"""
        oty = self.objects[var]
        argv = [self.ev(a, env) for a in args]
        rs = sort_of_type(n.get("type", {}).get("qualType", ""), self.overrides)
        if n.get("type", {}).get("qualType") == "void":
            rs = None
        elif rs is None or rs not in COQTY:
            raise Unsupported("result type %s of %s.%s" % (n.get("type", {}).get("qualType"), var, meth))
        fn = "F_%s%s" % (var, meth)
        fty = " -> ".join([oty] + [COQTY[a.sort] for a in argv] + ["(%s * %s)" % (oty, COQTY[rs]) if rs else oty])
        if self.fparams.setdefault(fn, fty) != fty:
            raise Unsupported("%s.%s used at two types" % (var, meth))
        o = self.getvar(env, var, "obj")
        t = "(%s %s)" % (fn, " ".join([o.term] + [a.term for a in argv]))
        if rs is None:
            self.assign(env, var, Val(t, "obj"))
            return None
        t = self.bind("call", t, "tuple").term
        self.assign(env, var, Val("(fst %s)" % t, "obj"))
        return Val("(snd %s)" % t, rs)

    # ------------------------------------------------------------------ statements
    def void_noop(self, st):
        n = st
        while n.get("kind") in ("ParenExpr",) + CAST_KINDS and n.get("inner"):
            if n.get("castKind") == "ToVoid":
                return True
            n = n["inner"][-1]
        return False

    def stmt(self, st, env):
        """executes one statement on env (in place); returns None, or an outcome tree when control flow leaves the sequence"""
        k = st.get("kind")
        if k in ("NullStmt",) or self.void_noop(st):
            return None
        if k == "CompoundStmt":
            t = self.run(st.get("inner", []), env, own_env=False)
            return None if (isinstance(t, Leaf) and t.kind == "fall") else t
        if k == "DeclStmt":
            for v in st.get("inner", []):
                if v.get("kind") != "VarDecl":
                    raise Unsupported("declaration %s" % v.get("kind"))
                ty = v.get("type", {}).get("qualType", "")
                if sort_of_type(ty, self.overrides) == "skip":
                    continue                                    # std::lock_guard<std::mutex> lock(mutex_);
                init = [c for c in v.get("inner", []) if isinstance(c, dict)]
                if not init:
                    raise Unsupported("uninitialised local %s" % v.get("name"))
                nm = v["name"]
                if ty.rstrip().endswith("&"):
                    # a reference bound to an lvalue is an alias of that location (a later write to the location is seen
                    # through it); a const reference bound to a temporary is the value
                    try:
                        root, steps = self.path(init[0], env)
                    except Unsupported:
                        if "const" not in ty.split("&")[0].split()[:1]:
                            raise
                        root = None
                    if root is not None:
                        self.locals[nm] = "alias"
                        env[nm] = Val("?alias", "alias", (root, tuple(steps)))
                        continue
                x = self.ev(init[0], env)
                if x.sort not in COQTY and x.sort != "iter":
                    raise Unsupported("local %s of sort %s" % (nm, x.sort))
                self.locals[nm] = x.sort
                env[nm] = self.bind("l_" + nm, x.term, x.sort, x.extra) if x.sort != "iter" else x
            return None
        if k == "ReturnStmt":
            inner = [c for c in st.get("inner", []) if isinstance(c, dict)]
            ret = None
            if inner:
                s = self.strip(inner[0])
                if s.get("kind") == "DeclRefExpr" and dict(self.params).get(s["referencedDecl"].get("name")) == "report":
                    ret = None                                  # `return report1;` — the updated argument itself
                else:
                    ret = self.ev(inner[0], env)
                    if ret.sort not in COQTY:
                        raise Unsupported("returned value of sort %s" % ret.sort)
            return Leaf("ret", dict(env), ret)
        if k == "BreakStmt":
            return Leaf("brk", dict(env), None)
        if k == "IfStmt":
            parts = [c for c in st.get("inner", []) if isinstance(c, dict)]
            if len(parts) not in (2, 3) or st.get("hasInit") or st.get("hasVar"):
                raise Unsupported("if statement shape")
            c = self.ev(parts[0], env)
            if c.sort != "bool":
                raise Unsupported("condition of sort %s" % c.sort)
            c = self.bind("c", c.term, "bool")
            self.depth += 1
            try:
                ta = self.run([parts[1]], dict(env))
                tb = self.run([parts[2]] if len(parts) == 3 else [], dict(env))
            finally:
                self.depth -= 1
            if isinstance(ta, Leaf) and isinstance(tb, Leaf) and ta.kind == tb.kind == "fall":
                names = [nm for nm in list(ta.env) + [x for x in tb.env if x not in ta.env]
                         if nm in env or nm in self.free]
                for nm in names:
                    a, b = self.getvar(ta.env, nm), self.getvar(tb.env, nm)
                    if a != b:
                        if a.sort != b.sort:
                            raise Unsupported("branches leave %s at different sorts" % nm)
                        if a.sort == "iter" or self.locals.get(nm) == "alias":
                            raise Unsupported("iterator / reference changed in a branch")
                        self.assign(env, nm, Val("(if %s then %s else %s)" % (c.term, a.term, b.term), a.sort))
                return None
            return Br(c.term, ta, tb)
        if k == "WhileStmt":
            self.loop(st, env)
            return None
        s = self.strip(st)
        sk = s.get("kind")
        if sk in ("BinaryOperator", "CompoundAssignOperator") and s.get("opcode") in ("=", "+=", "-=", "*="):
            rhs = self.ev(s["inner"][1], env)
            if s["opcode"] != "=":
                rhs = self.binop(s["opcode"][0], self.read(s["inner"][0], env), rhs)
            self.write(s["inner"][0], env, rhs)
            return None
        if sk == "CXXOperatorCallExpr" and self.callee_name(s) == "operator=":
            args = self.args_of(s, 1)
            self.write(args[0], env, self.ev(args[1], env))
            return None
        if sk == "CXXMemberCallExpr":
            self.mcall(s, env, want_value=False)
            return None
        raise Unsupported("statement %s" % sk)

    def run(self, stmts, env, own_env=True):
        for i, st in enumerate(stmts):
            t = self.stmt(st, env)
            if t is not None:
                return self.extend(t, stmts[i + 1:])
        return Leaf("fall", env, None)

    def extend(self, tree, rest):
        if isinstance(tree, Leaf):
            if tree.kind != "fall" or not rest:
                return tree
            self.depth += 1
            try:
                return self.run(rest, tree.env)
            finally:
                self.depth -= 1
        return Br(tree.cond, self.extend(tree.a, rest), self.extend(tree.b, rest))

    # ------------------------------------------------------------------ the iterator loop
    def assigned_locals(self, n, acc):
        if n.get("kind") in ("BinaryOperator", "CompoundAssignOperator") and n.get("opcode") in ("=", "+=", "-=", "*="):
            lhs = self.strip(n["inner"][0])
            if lhs.get("kind") == "DeclRefExpr" and lhs["referencedDecl"]["name"] in self.locals:
                acc.add(lhs["referencedDecl"]["name"])
        if n.get("kind") == "UnaryOperator" and n.get("opcode") in ("++", "--"):
            raise Unsupported("increment / decrement of a scalar")
        for c in n.get("inner", []):
            if isinstance(c, dict):
                self.assigned_locals(c, acc)

    def loop(self, st, env):
        """while (++it != std::cend(l)) { body }   with it a const_iterator into l  ->
             (fix loop (s : list _) (v.. : _) {struct s} : option _ :=
                match s with nil => None                                  (* ++ on the end iterator *)
                | cons _ s' => match s' with nil => Some (v..)            (* it == cend(l): exit *)
                               | cons x _ => body[*it := x]; loop s' v'.. end end) <suffix at it> v..
           `break` in the body = Some of the current values.  The loop may only assign scalar locals."""
        if self.depth > 0:
            raise Unsupported("loop inside a branch")
        parts = [c for c in st.get("inner", []) if isinstance(c, dict)]
        if len(parts) != 2:
            raise Unsupported("while with a condition variable")
        cond, body = self.strip(parts[0]), parts[1]
        if not (cond.get("kind") == "CXXOperatorCallExpr" and self.callee_name(cond) == "operator!="):
            raise Unsupported("loop condition other than `++it != std::cend(l)`")
        lhs, rhs = [self.strip(a) for a in self.args_of(cond, 1)]
        if not (lhs.get("kind") == "CXXOperatorCallExpr" and self.callee_name(lhs) == "operator++" and len(self.args_of(lhs, 1)) == 1):
            raise Unsupported("loop condition other than `++it != std::cend(l)`")
        itn = self.strip(self.args_of(lhs, 1)[0])
        if itn.get("kind") != "DeclRefExpr" or self.locals.get(itn["referencedDecl"]["name"]) != "iter":
            raise Unsupported("loop variable is not a local iterator")
        itname = itn["referencedDecl"]["name"]
        it = env[itname]
        end = self.ev(rhs, env)
        if end.sort != "iterend" or not it.extra or it.extra.get("dead") or end.extra != it.extra["list"]:
            raise Unsupported("loop bound is not the end of the list the iterator walks")
        if it.extra["elem"] != "listD":
            raise Unsupported("iterator loop over a %s" % it.extra["elem"])
        acc = set()
        self.assigned_locals(body, acc)
        carried = [nm for nm in self.locals if nm in acc and self.locals[nm] in COQTY]
        if len(carried) != len(acc) or not carried:
            raise Unsupported("loop assigns something other than scalar locals")
        self.n += 1
        tag = self.n
        binders = ["b_%s_%d" % (nm, tag) for nm in carried]
        lenv = dict(env)
        for nm, b in zip(carried, binders):
            lenv[nm] = Val(b, self.locals[nm])
        s_, sn, sx = "it_s_%d" % tag, "it_n_%d" % tag, "it_x_%d" % tag
        lenv[itname] = Val(sn, "iter", dict(it.extra, cur=sx))
        field_before = {nm: lenv.get(nm) for nm in list(self.free)}
        saved_lets = self.lets
        self.lets = []
        self.depth += 1
        try:
            tree = self.run(body.get("inner", []) if body.get("kind") == "CompoundStmt" else [body], lenv)
        finally:
            self.depth -= 1
            inner_lets, self.lets = self.lets, saved_lets
        if inner_lets:
            raise Unsupported("binding inside a loop")
        sorts = [self.locals[nm] for nm in carried]

        def render(t):
            if isinstance(t, Br):
                return "(if %s then %s else %s)" % (t.cond, render(t.a), render(t.b))
            for nm in self.free:
                if t.env.get(nm) != field_before.get(nm):
                    raise Unsupported("the loop writes the field %s" % nm)
            if t.env[itname].term != sn:
                raise Unsupported("the loop body moves the iterator")
            vals = [t.env[nm].term for nm in carried]
            if t.kind == "fall":
                return "(loop_%d %s %s)" % (tag, sn, " ".join(vals))
            if t.kind == "brk":
                return "(Some %s)" % tup(vals)
            raise Unsupported("return inside a loop")
        rty = tup([COQTY[s] for s in sorts]).replace(", ", " * ")
        fix = ("((fix loop_%d (%s : list diagnostic) %s {struct %s} : option %s :=\n"
               "      match %s with nil => None | cons _ %s =>\n"
               "        match %s with nil => Some %s | cons %s _ => %s end end) %s %s)") % (
            tag, s_, " ".join("(%s : %s)" % (b, COQTY[s]) for b, s in zip(binders, sorts)), s_, rty,
            s_, sn, sn, tup(binders), sx, render(tree), it.term, " ".join(env[nm].term for nm in carried))
        outs = ["l_%s_%d" % (nm, tag) for nm in carried]
        self.lets.append(("match", fix, "Some %s" % tup(outs)))
        self.partial = True
        for nm, o in zip(carried, outs):
            env[nm] = Val(o, self.locals[nm])
        env[itname] = Val("?dead", "iter", {"dead": True})

    # ------------------------------------------------------------------ whole function
    def translate(self, cname, comment):
        comp = [c for c in self.node.get("inner", []) if c.get("kind") == "CompoundStmt"]
        if not comp:
            raise Unsupported("no body")
        env = dict(self.env0)
        tree = self.run(comp[0].get("inner", []), env)
        leaves = []

        def collect(t):
            if isinstance(t, Br):
                collect(t.a)
                collect(t.b)
            else:
                if t.kind == "brk":
                    raise Unsupported("break outside a loop")
                leaves.append(t)
        collect(tree)
        written = sorted(nm for nm in self.free
                         if any(self.getvar(l.env, nm) != Val(nm, self.free[nm]) for l in leaves))
        rets = [l.ret for l in leaves]
        has_ret = any(r is not None for r in rets)
        if has_ret and any(r is None for r in rets):
            raise Unsupported("a path without a returned value")
        ret_sort = None
        if has_ret:
            if len(set(r.sort for r in rets)) != 1:
                raise Unsupported("returned values of different sorts")
            ret_sort = rets[0].sort
        if not written and not has_ret:
            raise Unsupported("no effect and no result")

        def render(t):
            if isinstance(t, Br):
                return "if %s then %s else %s" % (t.cond, render(t.a), render(t.b))
            comps = [self.getvar(t.env, nm).term for nm in written] + ([t.ret.term] if has_ret else [])
            return ("Some " if self.partial else "") + tup(comps)
        body, closing = "", ""
        for kind, a, b in self.lets:
            if kind == "let":
                body += "  let %s := %s in\n" % (a, b)
            else:
                body += "  match %s with %s =>\n" % (a, b)
                closing += " | _ => None end"
        body += "  " + render(tree) + closing
        import re as _re
        reads = sorted(nm for nm in self.free if _re.search(r"(?<![A-Za-z0-9_'])%s(?![A-Za-z0-9_'])" % _re.escape(nm), body))

        def ty(s):
            return self.objects_type(s)
        osorts = [self.sort_of_var(nm) for nm in written] + ([COQTY[ret_sort]] if has_ret else [])
        rty = osorts[0] if len(osorts) == 1 else "(" + " * ".join(osorts) + ")%type"
        if self.partial:
            rty = "option " + rty
        otys = sorted(set(self.objects[nm] for nm in self.free if self.free[nm] == "obj"))
        sig = ["(%s : Type)" % o for o in otys]
        sig += ["(%s : %s)" % (f, t) for f, t in sorted(self.fparams.items())]
        sig += ["(%s : %s)" % (coqname(p), COQTY[s]) for p, s in self.params if s != "report"]
        sig += ["(%s : %s)" % (nm, self.sort_of_var(nm)) for nm in reads]
        text = "(* %s\n   arguments: %s\n   result: %s *)\n" % (
            comment,
            ", ".join(sorted(self.fparams) + [coqname(p) for p, s in self.params if s != "report"] + reads) or "none",
            ", ".join(written + (["returned value"] if has_ret else [])) + ("; None = undefined behaviour in the C++" if self.partial else ""))
        text += "Definition %s %s : %s :=\n%s.\n" % (cname, " ".join(sig), rty, body)
        kn = Known(cname, len([p for p in self.params if p[1] != "report"]), [(r, self.free[r]) for r in reads], written, ret_sort, self.partial,
                   {w: self.free[w] for w in written})
        return text, kn

    def mentions_initial(self, nm, leaves, written):
        """a field that is only assigned: is its initial value still visible in some result (a path that does not assign it)?"""
        return any(self.getvar(l.env, nm) == Val(nm, self.free[nm]) for l in leaves) and nm in written

    def sort_of_var(self, nm):
        s = self.free[nm]
        return self.objects[nm] if s == "obj" else COQTY[s]

    def objects_type(self, s):
        return COQTY[s]


# ---------------------------------------------------------------------------------------------------------- finding definitions
def has_body(n):
    return any(isinstance(c, dict) and c.get("kind") == "CompoundStmt" for c in n.get("inner", []))


def find_method(objs, meth, cls=None, spec=None, nparams=None):
    """definitions (with a body) of the function / method `meth`.  cls + spec: inside the class template specialisation `cls`
    whose template argument's type mentions `spec`; otherwise outside every template pattern."""
    found = []

    def targ_matches(n):
        return any(c.get("kind") == "TemplateArgument" and spec in c.get("type", {}).get("qualType", "") for c in n.get("inner", []))

    def walk(n, inspec, intemplate):
        k = n.get("kind")
        if k == "ClassTemplateSpecializationDecl":
            inspec = (cls is not None and n.get("name") == cls and targ_matches(n))
            intemplate = False
        elif k in ("ClassTemplateDecl", "FunctionTemplateDecl", "ClassTemplatePartialSpecializationDecl"):
            intemplate = True
        if k in ("CXXMethodDecl", "FunctionDecl") and n.get("name") == meth and has_body(n):
            ps = [c for c in n.get("inner", []) if c.get("kind") == "ParmVarDecl"]
            if (nparams is None or len(ps) == nparams) and ((cls is not None and inspec) or (cls is None and not intemplate and not inspec)):
                found.append(n)
        for c in n.get("inner", []):
            if isinstance(c, dict):
                walk(c, inspec, intemplate)
    for o in objs:
        walk(o, False, False)
    return found


def const_init(objs, name):
    """value of a namespace-scope integer constant `const size_t NAME = <literal>;`"""
    vs = [o for o in objs if o.get("kind") == "VarDecl" and o.get("name") == name]
    if len(vs) != 1:
        raise Unsupported("constant %s: %d definitions" % (name, len(vs)))
    n = vs[0]
    inner = [c for c in n.get("inner", []) if isinstance(c, dict)]
    if not inner:
        raise Unsupported("constant %s has no initialiser" % name)
    x = inner[-1]
    while x.get("kind") in CAST_KINDS + WRAPPERS and x.get("inner"):
        x = x["inner"][-1]
    if x.get("kind") != "IntegerLiteral":
        raise Unsupported("constant %s is not an integer literal" % name)
    return int(x["value"])


def load_all(repo, reqs):
    """reqs: {key: (src, filter, extra_tu)} -> {key: objs | Unsupported}; the clang runs are concurrent"""
    from concurrent.futures import ThreadPoolExecutor

    def one(kv):
        k, (src, flt, tu) = kv
        try:
            return k, load_uncached(repo, src, flt, tu)
        except Unsupported as e:
            return k, e
        except Exception as e:  # noqa
            return k, Unsupported("clang: %r" % (e,))
    with ThreadPoolExecutor(max_workers=8) as ex:
        return dict(ex.map(one, sorted(reqs.items())))


HEAD = """(* GENERATED by translate/%s from the clang AST of the current sources. Do not edit.
   Vocabulary and conventions: translate/imptrans.py. *)
From Coq Require Import ZArith List Bool.
From Romea Require Import Num DiagModel.
Import ListNotations.

Section Src.
Context {T : Type} (N : NumOps T).

"""


def emit_file(path, text):
    old = open(path).read() if os.path.exists(path) else None
    if old != text:
        with open(path, "w") as f:
            f.write(text)


def not_translated(cname, src, e):
    return "(* %s: NOT TRANSLATED from %s — %s *)\n" % (cname, src, str(e).replace("*)", "* )").replace("(*", "( *")[:300])
