#!/usr/bin/env python3
"""tr_C13_gridmap.py — plug-in translator for C13: src/containers/grid/GridIndexMapping.cpp -> coq/gen/SrcGridMap.v.

Regenerates, from the clang AST of the instantiations GridIndexMapping<float|double, 2|3> (symbolic execution, see eigsym.py):
  src_gm_ctor_<DIM>     the interval constructor: outputs (cellCentersPositionAlongAxes_ as (size, fun n => centre) per axis,
                        cellResolution_, flooredMinimalPositionAlongAxes_, numberOfCellsAlongAxes_)
  src_gm_symctor_<DIM>  the (maximalRange, cellResolution) constructor, i.e. its delegation to the interval constructor
  src_gm_index_<DIM>    computeCellIndexes
  src_gm_centre_<DIM>   computeCellCenterPosition (a read of the table at the given indexes)
The float and the double instantiation must give the same term, emitted once per DIM.  coq/SrcTieC13.v proves the
generated terms equal to GridMapModel.gm_origin / gm_ncells / gm_centre / gm_index / gm_sym_lo for every numeric
dictionary that reads the literals 0.5 and 1 as the model does (LitOK: the reals, binary64, binary32).
Anything the executor cannot handle is left out and reported for C13 only."""
import os
import sys

HERE = os.path.dirname(os.path.abspath(__file__))
sys.path.insert(0, HERE)
import eigsym  # noqa: E402
from eigsym import Unsupported  # noqa: E402

GM = "src/containers/grid/GridIndexMapping.cpp"
GM_H = "include/romea_core_common/containers/grid/GridIndexMapping.hpp"
IV_H = "include/romea_core_common/math/Interval.hpp"


def first_param_is_interval(m):
    ps = [c for c in m.get("inner", []) if c.get("kind") == "ParmVarDecl"]
    return bool(ps) and "Interval" in ps[0].get("type", {}).get("qualType", "")


MEMBERS = [("src_gm_ctor", "GridIndexMapping", 2, first_param_is_interval, "the interval constructor"),
           ("src_gm_symctor", "GridIndexMapping", 2, lambda m: not first_param_is_interval(m), "the (maximalRange, cellResolution) constructor"),
           ("src_gm_index", "computeCellIndexes", 1, None, "computeCellIndexes"),
           ("src_gm_centre", "computeCellCenterPosition", 1, None, "computeCellCenterPosition")]


def clean(s):
    return s.replace("*)", "* )").replace("(*", "( *")[:300]


def generate(repo):
    lines = [eigsym.HEAD % "tr_C13_gridmap.py"]
    errors = []
    try:
        tus = {"GridIndexMapping": eigsym.TU(eigsym.load_tu(repo, GM, "romea::core::GridIndexMapping", (GM_H, IV_H)), "GridIndexMapping", repo, GM)}
    except Unsupported as e:
        return "\n".join(lines + ["(* NOT TRANSLATED: %s *)" % clean(str(e)), "End Src."]) + "\n", [("C13", str(e))]
    for stem, meth, na, sel, what in MEMBERS:
        for dim in (2, 3):
            nm = "%s_%d" % (stem, dim)
            try:
                tf = eigsym.translate(tus, "GridIndexMapping", meth, "float", dim, nm, nargs=na, select=sel)
                td = eigsym.translate(tus, "GridIndexMapping", meth, "double", dim, nm, nargs=na, select=sel)
                if tf != td:
                    raise Unsupported("the float and double instantiations give different terms")
                lines.append("(* %s: GridIndexMapping<Scalar, %d>: %s (the <float> and <double> instantiations give this same term)\n   %s *)\n%s\n"
                             % (GM, dim, what, td[1], td[0]))
            except Unsupported as e:
                errors.append(("C13", "%s: %s" % (nm, e)))
                lines.append("(* %s: NOT TRANSLATED — %s *)\n" % (nm, clean(str(e))))
            except Exception as e:  # noqa — unexpected AST shape: fail closed for this function
                errors.append(("C13", "%s: internal error %r" % (nm, e)))
                lines.append("(* %s: NOT TRANSLATED — internal error *)\n" % nm)
    return "\n".join(lines + ["End Src."]) + "\n", errors


def generate_to(gen_dir, repo):
    text, errors = generate(repo)
    os.makedirs(gen_dir, exist_ok=True)
    eigsym.write_if_changed(os.path.join(gen_dir, "SrcGridMap.v"), text)
    return errors


if __name__ == "__main__":
    t, e = generate(os.environ.get("VERIF_REPO", "/repo"))
    print(t)
    for x in e:
        print("%s: %s" % x, file=sys.stderr)
    sys.exit(2 if e else 0)
