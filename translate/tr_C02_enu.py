#!/usr/bin/env python3
"""tr_C02_enu.py — plug-in translator of C02: the STATE MACHINE of ENUConverter, regenerated from the clang JSON AST of the
whole of  src/geodesy/ENUConverter.cpp  (+ the class definition in ENUConverter.hpp)  into  coq/gen/SrcEnu.v.

Every method of the class becomes a Gallina state transformer by the symbolic execution of translate/imptrans.py (used as a
library: a private instance of the module is loaded, its table of sorts is extended, and `Enu` below subclasses its `Imp`):
    src_<m> N F_toECEF F_toWGS84 <parameters> <fields read, by name> : (<fields written, by name> [, returned value])
and, with a signature that does not depend on which fields the body happens to touch,
    st_<m>  N F_toECEF F_toWGS84 <parameters> (st : enu_fields) : enu_fields [* returned value]      [option .. for toWGS84]
where enu_fields = (enu2ecef_, isAnchored_, wgs84Anchor_) : affine * bool * geodetic.  coq/SrcTieC02State.v proves each st_<m>
equal to the corresponding step of coq/EnuModel.v.

Methods (all of them must be translated; an unknown method, field, base class, static member, mutable / in-class initialised
field makes the translator refuse the whole class — fail closed for C02 only):
  ENUConverter()  ENUConverter(const GeodeticCoordinates&)  setAnchor  reset  isAnchored  getAnchor  getEnuToEcefTransform
  toECEF(Vector3d) toECEF(double,double,double)  toWGS84(Vector3d) toWGS84(double,double,double)
  toENU(Vector3d)  toENU(const GeodeticCoordinates&)  toENU(const WGS84Coordinates&)

VOCABULARY (trusted; coq/EnuVocab.v has the same table next to the definitions):
  double -> T;  bool -> bool;  GeodeticCoordinates -> geodetic (g.latitude/longitude/altitude = g_lat/g_lon/g_alt);
  WGS84Coordinates -> wgs84 (w_lat, w_lon);  Eigen::Vector3d -> vec3;  Eigen::Affine3d -> affine = (mat3, vec3);
  Eigen::Affine3d::Identity() / a.setIdentity() -> aff_identity;   a.translation() [=] -> aff_translation / aff_set_translation;
  a.linear() [=] -> aff_linear / aff_set_linear;   a.linear().col(k) << x, y, z  (k a literal 0..2) -> aff_set_col<k> a (mkV3 x y z);
  a * p -> aff_apply N a p (= linear*p + translation);   a.inverse() (default traits) -> aff_inverse N a (Eigen's cofactor inverse
  of the 3x3 block, translation -(inverse*translation));   (Eigen::Vector3d() << x, y, z).finished() and Eigen::Vector3d(x, y, z)
  -> mkV3 x y z (in order);
  GeodeticCoordinates() and the member initialiser g_() (value-initialisation, clang: zeroing) -> geo_zero;
  makeGeodeticCoordinates(w, h) -> mkGeo (w_lat w) (w_lon w) h,  makeGeodeticCoordinates(lat, lon, h) -> mkGeo lat lon h;
  ecefConverter_.toECEF(g) -> F_toECEF g;   ecefConverter_.toWGS84(p) -> F_toWGS84 p : option (None = the latitude loop of
  ECEFConverter::toWGS84 out of fuel), only outside a branch;   ecefConverter_ itself must be default-constructed (GRS80 by
  the default argument of ECEFConverter's constructor) and is never assigned;
  std:: sin cos tan atan sqrt ... on doubles -> the dictionary's functions;  0.0 / 1.0 -> nzero / n_one, other literals nofDec;
  calls of other methods of the class: by the declaration clang resolved them to (overloads are distinct functions), state
  threaded through;  NDEBUG asserts, (void)x: skipped (the library is built with -DNDEBUG).
Anything else is Unsupported: nothing of the class is then tied (the tie lemmas stop compiling) and the error is reported."""
import importlib.util
import os
import sys

HERE = os.path.dirname(os.path.abspath(__file__))
if HERE not in sys.path:
    sys.path.insert(0, HERE)
import srcfuns   # noqa: E402

# a private instance of the library (its module-level tables are extended below; tr_C17 / tr_C18 keep their own)
_spec = importlib.util.spec_from_file_location("imptrans_c02", os.path.join(HERE, "imptrans.py"))
I = importlib.util.module_from_spec(_spec)
_spec.loader.exec_module(I)
Unsupported, Val = I.Unsupported, I.Val

PROP = "C02"
SRC = "src/geodesy/ENUConverter.cpp"
CLASS = "ENUConverter"
FILTER = "romea::core::ENUConverter"
OUT = "SrcEnu.v"

I.COQTY.update({"geo": "(@geodetic T)", "wgs": "(@wgs84 T)", "vec": "(@vec3 T)", "aff": "(@affine T)", "mat": "(@mat3 T)"})
I.RESERVED.update({"mkV3", "mkGeo", "mkWgs", "g_lat", "g_lon", "g_alt", "w_lat", "w_lon", "vx", "vy", "vz", "geo_zero", "vec_zero",
                   "geodetic", "vec3", "affine", "mat3", "wgs84", "enu_fields", "F_toECEF", "F_toWGS84", "st__", "res__",
                   "aff_identity", "aff_linear", "aff_translation", "aff_set_translation", "aff_set_linear", "aff_set_col0",
                   "aff_set_col1", "aff_set_col2", "aff_apply", "aff_inverse", "mat3_id",
                   "in", "at", "as", "let", "fun", "then", "match", "with", "end", "fix", "cofix", "forall", "exists", "exists2",
                   "Type", "Set", "Prop", "SProp", "using", "where", "IF", "mod", "return_"})
OVR = {"GeodeticCoordinates": "geo", "WGS84Coordinates": "wgs", "Eigen::Vector3d": "vec", "Eigen::Affine3d": "aff",
       "Eigen::Matrix<double, 3, 1, 0>": "vec", "Eigen::Matrix<double, 3, 1>": "vec", "Eigen::Matrix<double, 3, 1, 0, 3, 1>": "vec",
       "Eigen::Transform<double, 3, 2, 0>": "aff", "Eigen::Transform<double, 3, 2>": "aff"}

ECEF = "ecefConverter_"
FIELDS = {"enu2ecef_": "aff", "isAnchored_": "bool", "wgs84Anchor_": "geo"}          # the state; in this (name) order everywhere
FIELD_TYPES = {ECEF: "ECEFConverter", "wgs84Anchor_": "GeodeticCoordinates", "enu2ecef_": "Eigen::Affine3d", "isAnchored_": "bool"}
FPARAMS = {"F_toECEF": "(@geodetic T -> @vec3 T)", "F_toWGS84": "(@vec3 T -> option (@geodetic T))"}
FARGS = " ".join(sorted(FPARAMS))

# (coq suffix, C++ name, sorts of the parameters)
METHODS = [("ctor_default", CLASS, ()), ("ctor_anchor", CLASS, ("geo",)),
           ("setAnchor", "setAnchor", ("geo",)), ("getAnchor", "getAnchor", ()), ("isAnchored", "isAnchored", ()),
           ("reset", "reset", ()),
           ("toWGS84_vec", "toWGS84", ("vec",)), ("toWGS84_xyz", "toWGS84", ("T", "T", "T")),
           ("toECEF_vec", "toECEF", ("vec",)), ("toECEF_xyz", "toECEF", ("T", "T", "T")),
           ("toENU_geo", "toENU", ("geo",)), ("toENU_wgs", "toENU", ("wgs",)), ("toENU_ecef", "toENU", ("vec",)),
           ("getEnuToEcefTransform", "getEnuToEcefTransform", ())]
BY_KEY = {(m, ps): c for c, m, ps in METHODS}

READ = {("geo", "latitude"): "(g_lat %s)", ("geo", "longitude"): "(g_lon %s)", ("geo", "altitude"): "(g_alt %s)",
        ("wgs", "latitude"): "(w_lat %s)", ("wgs", "longitude"): "(w_lon %s)",
        ("aff", "translation"): "(aff_translation %s)", ("aff", "linear"): "(aff_linear %s)"}
WRITE = {("geo", "latitude"): "(mkGeo %(x)s (g_lon %(v)s) (g_alt %(v)s))", ("geo", "longitude"): "(mkGeo (g_lat %(v)s) %(x)s (g_alt %(v)s))",
         ("geo", "altitude"): "(mkGeo (g_lat %(v)s) (g_lon %(v)s) %(x)s)",
         ("wgs", "latitude"): "(mkWgs %(x)s (w_lon %(v)s))", ("wgs", "longitude"): "(mkWgs (w_lat %(v)s) %(x)s)",
         ("aff", "translation"): "(aff_set_translation %(v)s %(x)s)", ("aff", "linear"): "(aff_set_linear %(v)s %(x)s)"}
COMP_SORT = {("geo", "latitude"): "T", ("geo", "longitude"): "T", ("geo", "altitude"): "T", ("wgs", "latitude"): "T",
             ("wgs", "longitude"): "T", ("aff", "translation"): "vec", ("aff", "linear"): "mat"}


class NotYet(Unsupported):
    """a call of a method of the class that has not been translated (yet)"""


def check_name(nm):
    """a C++ parameter / local must not look like a name the symbolic execution generates, nor be a field"""
    import re as _re
    if nm in FIELD_TYPES or _re.match(r"^(c|call|r|it_hd)_\d+$", nm or "") or (nm or "").startswith("l_") or \
            any(_re.match("^" + _re.escape(f) + r"\d+$", nm or "") for f in FIELD_TYPES):
        raise Unsupported("the name %s of a parameter / local is a field or looks like a generated name" % nm)


def sort_of(ty):
    return I.sort_of_type(ty, OVR)


def param_sorts(node):
    return tuple(sort_of(c.get("type", {}).get("qualType", "")) or "?" + c.get("type", {}).get("qualType", "")
                 for c in node.get("inner", []) if c.get("kind") == "ParmVarDecl")


class Enu(I.Imp):
    def __init__(self, node, known_by_id, ctor_default=None):
        super().__init__(node, {}, OVR, {}, {})
        self.known_by_id = known_by_id
        self.ctor_default = ctor_default
        self.fparams = dict(FPARAMS)
        for p, _ in self.params:
            check_name(p)

    # ------------------------------------------------------------------ locations
    def loc(self, n, env):
        root, steps = self.path(n, env)
        if root == ("this",):
            if not steps or steps[0][0] != "field":
                raise Unsupported("use of `this` itself")
            var, rest = steps[0][1], tuple(steps[1:])
            if var == ECEF:
                return var, "obj", None, "obj"
            if var not in FIELDS:
                raise Unsupported("unknown field %s" % var)
            vs = FIELDS[var]
        else:
            var, rest = root[1], tuple(steps)
            if var not in env:
                raise Unsupported("unknown variable %s" % var)
            vs = env[var].sort
        if not rest:
            return var, vs, None, vs
        if len(rest) == 1 and rest[0][0] in ("field", "call") and (vs, rest[0][1]) in COMP_SORT and \
                (rest[0][0] == "call") == (vs == "aff"):
            return var, vs, rest[0][1], COMP_SORT[(vs, rest[0][1])]
        raise Unsupported("access path %s on a %s" % (".".join(str(s[1] or "->") for s in rest), vs))

    def read(self, n, env):
        var, vs, comp, cs = self.loc(n, env)
        if vs == "obj":
            raise Unsupported("the member object %s used as a value" % var)
        v = self.getvar(env, var, vs)
        if comp is None:
            return v
        return Val(READ[(vs, comp)] % v.term, cs)

    def write(self, n, env, val):
        var, vs, comp, cs = self.loc(n, env)
        if vs == "obj":
            raise Unsupported("assignment to the member object %s" % var)
        if var in dict(self.params):
            raise Unsupported("assignment to parameter %s" % var)
        if val is None or val.sort != cs:
            raise Unsupported("a value of sort %s assigned where %s is expected" % (getattr(val, "sort", None), cs))
        if comp is None:
            self.assign(env, var, val)
            return
        v = self.getvar(env, var, vs)
        self.assign(env, var, Val(WRITE[(vs, comp)] % {"v": v.term, "x": val.term}, vs))

    # ------------------------------------------------------------------ expressions
    def opname(self, n):
        if n.get("kind") != "CXXOperatorCallExpr" or not n.get("inner"):
            return None
        return self.callee_name(n)

    def comma_chain(self, n):
        """X << e1, e2, ...   ->  (node of X, [e1, e2, ..])   or None"""
        n = self.strip(n)
        rest = []
        while self.opname(n) == "operator,":
            a = self.args_of(n, 1)
            if len(a) != 2:
                return None
            rest.insert(0, a[1])
            n = self.strip(a[0])
        if self.opname(n) != "operator<<":
            return None
        a = self.args_of(n, 1)
        if len(a) != 2:
            return None
        return a[0], [a[1]] + rest

    def three_scalars(self, vals, env, what):
        if len(vals) != 3:
            raise Unsupported("%s with %d coefficients" % (what, len(vals)))
        xs = [self.ev(v, env) for v in vals]
        if any(x.sort != "T" for x in xs):
            raise Unsupported("%s with a non-scalar coefficient" % what)
        return "(mkV3 %s %s %s)" % tuple(x.term for x in xs)

    def is_ecef(self, n):
        n = self.strip(n)
        return n.get("kind") == "MemberExpr" and n.get("name") == ECEF and self.strip(n["inner"][0]).get("kind") == "CXXThisExpr"

    def ev(self, n, env):
        k = n.get("kind")
        if k in ("CXXConstructExpr", "CXXTemporaryObjectExpr") and len(self.args_of(n, 0)) == 3 and \
                sort_of(n.get("type", {}).get("qualType", "")) == "vec":
            return Val(self.three_scalars(self.args_of(n, 0), env, "Eigen::Vector3d(x, y, z)"), "vec")
        if k in ("CXXConstructExpr", "CXXTemporaryObjectExpr") and len(self.args_of(n, 0)) == 1:
            # a copy is transparent; a converting constructor (a transform from a matrix, a base slice, ..) is not
            v = self.ev(self.args_of(n, 0)[0], env)
            s = sort_of(n.get("type", {}).get("qualType", ""))
            if s != v.sort:
                raise Unsupported("conversion of a %s to %s" % (v.sort, n.get("type", {}).get("qualType", "")[:60]))
            return v
        if k in ("CXXConstructExpr", "CXXTemporaryObjectExpr") and not self.args_of(n, 0):
            ty = n.get("type", {}).get("qualType", "")
            if sort_of(ty) == "geo" and n.get("zeroing"):
                return Val("(geo_zero N)", "geo")
            raise Unsupported("default construction of a %s (its value is indeterminate)" % ty)
        if k == "CXXScalarValueInitExpr":
            s = sort_of(n.get("type", {}).get("qualType", ""))
            if s == "T":
                return self.tlit(0, 0)
            if s == "bool":
                return Val("false", "bool")
            raise Unsupported("value-initialisation of a %s" % n.get("type", {}).get("qualType"))
        if k == "CallExpr":
            nm = self.callee_name(n)
            callee = self.strip(n["inner"][0])
            args = self.args_of(n, 1)
            if nm == "Identity" and not args and callee.get("referencedDecl", {}).get("kind") == "CXXMethodDecl" and \
                    sort_of(n.get("type", {}).get("qualType", "")) == "aff":
                return Val("(aff_identity N)", "aff")
            if nm == "makeGeodeticCoordinates":
                xs = [self.ev(a, env) for a in args]
                ss = [x.sort for x in xs]
                if ss == ["wgs", "T"]:
                    return Val("(mkGeo (w_lat %s) (w_lon %s) %s)" % (xs[0].term, xs[0].term, xs[1].term), "geo")
                if ss == ["geo", "T"]:            # a GeodeticCoordinates passed as its WGS84Coordinates base
                    return Val("(mkGeo (g_lat %s) (g_lon %s) %s)" % (xs[0].term, xs[0].term, xs[1].term), "geo")
                if ss == ["T", "T", "T"]:
                    return Val("(mkGeo %s %s %s)" % tuple(x.term for x in xs), "geo")
                raise Unsupported("makeGeodeticCoordinates on %s" % ss)
            if nm in srcfuns.UNARY and len(args) == 1 and callee.get("referencedDecl", {}).get("kind") == "FunctionDecl":
                x = self.ev(args[0], env)
                if x.sort != "T":
                    raise Unsupported("%s of a %s" % (nm, x.sort))
                return Val("(%s N %s)" % (srcfuns.UNARY[nm], x.term), "T")
        if k == "CXXOperatorCallExpr" and self.callee_name(n) == "operator*":
            args = self.args_of(n, 1)
            if len(args) == 2:
                a, b = self.ev(args[0], env), self.ev(args[1], env)
                if a.sort == "aff" and b.sort == "vec":
                    return Val("(aff_apply N %s %s)" % (a.term, b.term), "vec")
                raise Unsupported("operator* on %s, %s" % (a.sort, b.sort))
        return super().ev(n, env)

    def mcall(self, n, env, want_value):
        callee = self.strip(n["inner"][0])
        if callee.get("kind") != "MemberExpr":
            raise Unsupported("member call through %s" % callee.get("kind"))
        meth = callee.get("name")
        args = self.args_of(n, 1)
        base = self.strip(callee["inner"][0])
        if base.get("kind") == "CXXThisExpr":
            kn = self.known_by_id.get(callee.get("referencedMemberDecl"))
            if kn is None:
                raise NotYet("call of the member function %s, which is not translated" % meth)
            # a reference parameter bound to (a part of) a field that the callee assigns would see the assignment; the
            # translation passes values
            for a, isref in zip(args, getattr(kn, "ref_params", [])):
                try:
                    root, steps = self.path(a, env)
                except Unsupported:
                    continue
                if isref and root == ("this",) and steps and steps[0][1] in kn.writes:
                    raise Unsupported("the argument of %s is the field %s, which %s assigns, passed by reference" % (meth, steps[0][1], meth))
            argv = [self.ev(a, env) for a in args]
            if [a.sort for a in argv] != list(getattr(kn, "param_sorts", [a.sort for a in argv])):
                raise Unsupported("call of %s with arguments of sorts %s" % (meth, [a.sort for a in argv]))
            r = self.call_known(kn, argv, env)
            if want_value and r is None:
                raise Unsupported("value of void member function %s" % meth)
            return r
        if meth == "finished" and not args:
            ch = self.comma_chain(callee["inner"][0])
            if ch is None:
                raise Unsupported("finished() of something other than a comma initialiser")
            tgt = self.strip(ch[0])
            if tgt.get("kind") not in ("CXXTemporaryObjectExpr", "CXXConstructExpr") or self.args_of(tgt, 0) or \
                    sort_of(tgt.get("type", {}).get("qualType", "")) != "vec":
                raise Unsupported("comma initialiser of something other than a fresh Eigen::Vector3d()")
            return Val(self.three_scalars(ch[1], env, "Vector3d comma initialiser"), "vec")
        if self.is_ecef(callee["inner"][0]):
            xs = [self.ev(a, env) for a in args]
            if meth == "toECEF" and [x.sort for x in xs] == ["geo"]:
                return Val("(F_toECEF %s)" % xs[0].term, "vec")
            if meth == "toWGS84" and [x.sort for x in xs] == ["vec"]:
                if self.depth > 0:
                    raise Unsupported("%s.toWGS84 (partial: the latitude loop) inside a branch" % ECEF)
                r = self.fresh("r")
                self.lets.append(("match", "(F_toWGS84 %s)" % xs[0].term, "Some %s" % r))
                self.partial = True
                return Val(r, "geo")
            raise Unsupported("%s.%s on %s" % (ECEF, meth, [x.sort for x in xs]))
        if meth == "setIdentity" and not args and not want_value:
            var, vs, comp, cs = self.loc(callee["inner"][0], env)
            if vs == "aff" and comp is None:
                self.write(callee["inner"][0], env, Val("(aff_identity N)", "aff"))
                return None
            raise Unsupported("setIdentity on a %s" % cs)
        v = self.ev(callee["inner"][0], env)
        if not args and want_value:
            if v.sort == "aff" and meth == "inverse":
                return Val("(aff_inverse N %s)" % v.term, "aff")
            if v.sort == "aff" and meth in ("translation", "linear"):
                return Val(READ[("aff", meth)] % v.term, COMP_SORT[("aff", meth)])
            if v.sort == "vec" and meth in ("x", "y", "z"):
                return Val("(v%s %s)" % (meth, v.term), "T")
        raise Unsupported("method %s on a %s" % (meth, v.sort))

    # ------------------------------------------------------------------ statements
    def stmt(self, st, env):
        k = st.get("kind")
        if k == "CXXCtorInitializer":
            return self.ctor_init(st, env)
        if k == "DeclStmt":
            for v in st.get("inner", []):
                check_name(v.get("name"))
                if v.get("storageClass") or v.get("tls"):
                    raise Unsupported("local %s with storage class %s" % (v.get("name"), v.get("storageClass") or "thread_local"))
            r = super().stmt(st, env)
            for v in st.get("inner", []):
                ls = self.locals.get(v.get("name"))
                ty = v.get("type", {}).get("qualType", "")
                if ls in ("vec", "aff", "mat", "geo", "wgs") and sort_of(ty) != ls:
                    # e.g. `auto p = a * v;` is an Eigen expression template that reads `a` when it is used, not here
                    raise Unsupported("local %s of type %s holds a %s: not a plain value (lazily evaluated expression?)" % (v.get("name"), ty[:80], ls))
            return r
        if k not in ("CompoundStmt", "IfStmt", "DeclStmt", "ReturnStmt", "WhileStmt", "ForStmt", "DoStmt", "SwitchStmt"):
            ch = self.comma_chain(st)
            if ch is not None:
                self.col_write(ch[0], ch[1], env)
                return None
        return super().stmt(st, env)

    def col_write(self, target, vals, env):
        """a.linear().col(k) << x, y, z;"""
        t = self.strip(target)
        if t.get("kind") != "CXXMemberCallExpr":
            raise Unsupported("comma initialiser of %s" % t.get("kind"))
        callee = self.strip(t["inner"][0])
        args = self.args_of(t, 1)
        if callee.get("kind") != "MemberExpr" or callee.get("name") != "col" or len(args) != 1:
            raise Unsupported("comma initialiser of something other than a column")
        idx = self.strip(args[0])
        if idx.get("kind") != "IntegerLiteral" or int(idx["value"]) not in (0, 1, 2):
            raise Unsupported("column index is not a literal 0, 1 or 2")
        var, vs, comp, cs = self.loc(callee["inner"][0], env)
        if (vs, comp) != ("aff", "linear"):
            raise Unsupported("column of something other than the linear part of a transform")
        if var in dict(self.params):
            raise Unsupported("assignment to parameter %s" % var)
        col = self.three_scalars(vals, env, "column comma initialiser")
        v = self.getvar(env, var, vs)
        self.assign(env, var, Val("(aff_set_col%d %s %s)" % (int(idx["value"]), v.term, col), "aff"))

    def ctor_init(self, st, env):
        inner = [c for c in st.get("inner", []) if isinstance(c, dict)]
        if len(inner) != 1:
            raise Unsupported("constructor initialiser shape")
        if "delegatingInit" in st:
            ce = inner[0]
            while ce.get("kind") in I.WRAPPERS and ce.get("inner"):
                ce = ce["inner"][-1]
            if ce.get("kind") != "CXXConstructExpr" or self.args_of(ce, 0) or self.ctor_default is None:
                raise NotYet("delegation to a constructor other than the (translated) default constructor")
            self.call_known(self.ctor_default, [], env)
            return None
        if "anyInit" not in st:
            raise Unsupported("base-class initialiser")
        f = st["anyInit"].get("name")
        if f == ECEF:
            ce = inner[0]
            while ce.get("kind") in I.WRAPPERS and ce.get("inner"):
                ce = ce["inner"][-1]
            if ce.get("kind") != "CXXConstructExpr" or self.args_of(ce, 0):
                raise Unsupported("%s is not default-constructed" % ECEF)
            return None
        if f not in FIELDS:
            raise Unsupported("initialiser of the unknown field %s" % f)
        val = self.ev(inner[0], env)
        if val.sort != FIELDS[f]:
            raise Unsupported("initialiser of %s of sort %s" % (f, val.sort))
        self.assign(env, f, val)
        return None


# ---------------------------------------------------------------------------------------------------------- the class
def norm_type(t):
    for w in ("romea::core::", "class ", "struct "):
        t = t.replace(w, "")
    return t.strip()


def check_class(objs):
    """the class definition: exactly the known fields and methods.  Returns {decl id: key}"""
    recs = [o for o in objs if o.get("kind") == "CXXRecordDecl" and o.get("name") == CLASS and o.get("completeDefinition")]
    if len(recs) != 1:
        raise Unsupported("%d definitions of class %s" % (len(recs), CLASS))
    rec = recs[0]
    if rec.get("bases"):
        raise Unsupported("class %s has a base class" % CLASS)
    ids, fields = {}, {}
    for c in rec.get("inner", []):
        k = c.get("kind")
        if c.get("isImplicit") or k in ("AccessSpecDecl",):
            continue
        if k == "FieldDecl":
            if c.get("mutable") or c.get("hasInClassInitializer") or c.get("isBitfield"):
                raise Unsupported("field %s is mutable / has an in-class initialiser" % c.get("name"))
            fields[c.get("name")] = norm_type(c.get("type", {}).get("qualType", ""))
        elif k in ("CXXMethodDecl", "CXXConstructorDecl"):
            if c.get("storageClass") == "static" or c.get("virtual") or c.get("explicitlyDeleted") or c.get("explicitlyDefaulted"):
                raise Unsupported("member function %s is static / virtual / defaulted / deleted" % c.get("name"))
            key = (c.get("name"), param_sorts(c))
            if key not in BY_KEY:
                raise Unsupported("unknown member function %s%s: the model has no such operation" % (c.get("name"), c.get("type", {}).get("qualType", "")))
            if key in ids.values():
                raise Unsupported("member function %s declared twice" % (key,))
            ids[c.get("id")] = key
        else:
            raise Unsupported("member %s %s of class %s" % (k, c.get("name"), CLASS))
    if fields != FIELD_TYPES:
        extra = sorted(set(fields) - set(FIELD_TYPES))
        missing = sorted(set(FIELD_TYPES) - set(fields))
        changed = sorted(f for f in fields if f in FIELD_TYPES and fields[f] != FIELD_TYPES[f])
        raise Unsupported("the data members of %s are not the four of the model: unknown %s, missing %s, of another type %s"
                          % (CLASS, extra, missing, changed))
    missing = sorted(set(BY_KEY) - set(ids.values()))
    if missing:
        raise Unsupported("member functions not declared: %s" % missing)
    return ids


def find_defs(objs, ids):
    """{key: definition node}; ids gets the ids of the definitions too"""
    defs = {}

    def walk(n, intemplate):
        k = n.get("kind")
        if k in ("ClassTemplateDecl", "FunctionTemplateDecl", "ClassTemplatePartialSpecializationDecl"):
            intemplate = True
        if k in ("CXXMethodDecl", "CXXConstructorDecl") and not n.get("isImplicit") and not intemplate and I.has_body(n):
            key = ids.get(n.get("id")) or ids.get(n.get("previousDecl"))
            if key is None:
                raise Unsupported("definition of an unknown member function %s" % n.get("name"))
            if key in defs:
                raise Unsupported("two definitions of %s" % (key,))
            defs[key] = n
            ids[n.get("id")] = key
        for c in n.get("inner", []):
            if isinstance(c, dict) and k not in ("CXXMethodDecl", "CXXConstructorDecl"):
                walk(c, intemplate)
    for o in objs:
        walk(o, False)
    return defs


def ctor_node(node):
    """a constructor as a function whose body starts with its initialisers (clang lists them in initialisation order)"""
    inits = [c for c in node.get("inner", []) if c.get("kind") == "CXXCtorInitializer"]
    comp = [c for c in node.get("inner", []) if c.get("kind") == "CompoundStmt"]
    if len(comp) != 1:
        raise Unsupported("constructor without a body")
    body = {"kind": "CompoundStmt", "inner": inits + list(comp[0].get("inner", []))}
    return {"kind": "FunctionDecl", "name": node.get("name"),
            "inner": [c for c in node.get("inner", []) if c.get("kind") == "ParmVarDecl"] + [body]}


def wrapper(suffix, kn, params):
    """st_<m>: the same function on the whole state"""
    names = sorted(FIELDS)
    outs = list(kn.writes) + (["?ret"] if kn.ret_sort else [])
    call = "(src_%s N %s)" % (suffix, " ".join([FARGS] + [I.coqname(p) for p, _ in params] + [r for r, _ in kn.reads]))
    comps = [I.proj(outs.index(f), len(outs), "res__") if f in outs else f for f in names]
    res = "(%s, %s, %s)" % tuple(comps)
    rty = "(@enu_fields T)"
    if kn.ret_sort:
        res = "(%s, %s)" % (res, I.proj(len(outs) - 1, len(outs), "res__"))
        rty = "(@enu_fields T * %s)%%type" % I.COQTY[kn.ret_sort]
    sig = " ".join(["(%s : %s)" % (f, t) for f, t in sorted(FPARAMS.items())] +
                   ["(%s : %s)" % (I.coqname(p), I.COQTY[s]) for p, s in params] + ["(st__ : @enu_fields T)"])
    if kn.partial:
        body = "  match %s with Some res__ => Some %s | None => None end" % (call, res)
        rty = "option " + rty
    elif outs:
        body = "  let res__ := %s in %s" % (call, res)
    else:
        body = "  " + res
    return ("Definition st_%s {T : Type} (N : NumOps T) %s : %s :=\n  let '(%s, %s, %s) := st__ in\n%s.\n"
            % (suffix, sig, rty, names[0], names[1], names[2], body))


HEAD = """(* GENERATED by translate/tr_C02_enu.py from the clang AST of the current %s. Do not edit.
   Vocabulary and conventions: translate/tr_C02_enu.py, coq/EnuVocab.v, translate/imptrans.py.
   src_<m>: arguments = F_toECEF, F_toWGS84 (the two methods of ecefConverter_), the parameters, the fields read (by name);
            result = the fields written (by name) [, the returned value]; option = ecefConverter_.toWGS84 may not return.
   st_<m> : the same on the whole state (enu2ecef_, isAnchored_, wgs84Anchor_). *)
From Coq Require Import ZArith List Bool.
From Romea Require Import Num GeodesyModel EnuModel EnuVocab.
Import ListNotations.

""" % SRC


def generate(repo):
    objs = srcfuns.load_uncached(repo, SRC, FILTER, "")
    ids = check_class(objs)
    defs = find_defs(objs, ids)
    missing = sorted(set(BY_KEY) - set(defs))
    if missing:
        raise Unsupported("member functions without a definition: %s" % missing)
    out, errors = [HEAD], []
    known_by_key, known_by_id = {}, {}
    pending = [(c, m, ps) for c, m, ps in METHODS]
    last_err = {}
    progress = True
    while pending and progress:
        progress = False
        for entry in list(pending):
            suffix, meth, ps = entry
            key = (meth, ps)
            node = defs[key]
            is_ctor = node.get("kind") == "CXXConstructorDecl"
            try:
                f = Enu(ctor_node(node) if is_ctor else node, known_by_id, known_by_key.get((CLASS, ())))
                text, kn = f.translate("src_" + suffix, "%s  %s::%s%s" % (SRC, CLASS, meth, node.get("type", {}).get("qualType", "")))
                if is_ctor and (kn.reads or list(kn.writes) != sorted(FIELDS) or kn.ret_sort or kn.partial):
                    raise Unsupported("the constructor reads %s and initialises %s: every field must be initialised, none read"
                                      % ([r for r, _ in kn.reads], list(kn.writes)))
                if any(r not in FIELDS for r, _ in kn.reads) or any(w not in FIELDS for w in kn.writes):
                    raise Unsupported("free variables %s / %s that are not fields" % (kn.reads, kn.writes))
                # every definition takes the dictionary explicitly (a section would abstract N only where it is used, and the
                # signatures must not depend on that)
                head = "Definition src_%s " % suffix
                if text.count(head) != 1:
                    raise Unsupported("internal: definition header of src_%s not found" % suffix)
                out.append(text.replace(head, head + "{T : Type} (N : NumOps T) "))
                out.append(wrapper(suffix, kn, f.params))
                kn.coq = "(src_%s N %s)" % (suffix, FARGS)
                kn.param_sorts = [ps_ for _, ps_ in f.params]
                kn.ref_params = [c.get("type", {}).get("qualType", "").rstrip().endswith("&") for c in node.get("inner", [])
                                 if c.get("kind") == "ParmVarDecl"]
                known_by_key[key] = kn
                for i, k2 in ids.items():
                    if k2 == key:
                        known_by_id[i] = kn
                pending.remove(entry)
                progress = True
            except NotYet as e:
                last_err[suffix] = e
            except Unsupported as e:
                pending.remove(entry)
                errors.append((PROP, "src_%s (%s): %s" % (suffix, SRC, e)))
                out.append(I.not_translated("src_" + suffix, SRC, e))
            except Exception as e:  # noqa — an AST shape the library did not expect: same treatment, never raise
                pending.remove(entry)
                errors.append((PROP, "src_%s (%s): internal error %r" % (suffix, SRC, e)))
                out.append(I.not_translated("src_" + suffix, SRC, "internal error %r" % (e,)))
    for suffix, meth, ps in pending:
        e = last_err.get(suffix, "not translated")
        errors.append((PROP, "src_%s (%s): %s" % (suffix, SRC, e)))
        out.append(I.not_translated("src_" + suffix, SRC, e))
    return "\n".join(out), errors


def generate_to(gen_dir, repo="/repo"):
    os.makedirs(gen_dir, exist_ok=True)
    try:
        text, errors = generate(repo)
    except Exception as e:  # noqa — nothing could be generated: leave no stale file behind
        I.emit_file(os.path.join(gen_dir, OUT), "(* NOT GENERATED: translate/tr_C02_enu.py refused %s: %s *)\n"
                    % (SRC, str(e).replace("*)", "* )").replace("(*", "( *")[:600]))
        return [(PROP, "%s: %s" % (SRC, e) if isinstance(e, Unsupported) else "translator failed: %r" % (e,))]
    I.emit_file(os.path.join(gen_dir, OUT), text)
    return errors


if __name__ == "__main__":
    try:
        t, e = generate(os.environ.get("VERIF_REPO", "/repo"))
    except Unsupported as ex:
        print("refused: %s" % ex, file=sys.stderr)
        sys.exit(2)
    print(t)
    for x in e:
        print("%s: %s" % x, file=sys.stderr)
    sys.exit(2 if e else 0)
